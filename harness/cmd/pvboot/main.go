// Command pvboot checks that the two front-ends of pigeon agree: the
// hand-written bootstrap parser (package bootstrap, a syntax subset) and the
// generated one (grammar/pigeon.peg, reached through the AST dump server of a
// pigeon binary built with -tags verif).
//
// Random grammars are drawn from the bootstrap subset and printed in the
// subset's layout (no comments, one-line rules, `;`/newline/EOF terminators);
// both parsers must accept the text and build the same AST, which must also
// be the AST that was printed. Positions are not compared (the bootstrap
// parser positions suffix and parenthesised expressions differently).
//
// The two ASTs differ in one respect by design: the generated front-end keeps
// the raw text of a rule's display name (quotes and escapes included; the
// builder %q-quotes that text once more into the generated parser) while the
// bootstrap parser stores strconv.Unquote of it. The comparison therefore
// unquotes the display names of the generated front-end's AST.
//
// The files grammar/bootstrap.peg and grammar/pigeon.peg of the repository
// are run through both parsers as well (pigeon.peg only counts if the
// bootstrap parser accepts it, i.e. if it is in the subset).
//
// Failure kinds: boot-rejects, pigeon-rejects, ast-mismatch, panic.
package main

import (
	"bytes"
	"flag"
	"fmt"
	"os"
	"path/filepath"
	"strings"
	"sync"

	"github.com/mna/pigeon/ast"
	"github.com/mna/pigeon/bootstrap"

	"pvharness/pvpeg"
)

type outcome struct {
	kind, detail, name, input string
}

type item struct {
	text    string
	layout  string
	trivial bool
	kinds   [18]int
	rules   int
	fails   []outcome
}

func bootParse(text []byte) (g *ast.Grammar, err error, panicked any) {
	defer func() {
		if e := recover(); e != nil {
			panicked = e
		}
	}()
	g, err = bootstrap.NewParser().Parse("", bytes.NewReader(text))
	return g, err, nil
}

// agreeOnly: compare the two front-ends with each other only, not with the grammar that was printed (C20 is about their
// AGREEMENT; with an avoidance lifted both may deviate from the printed grammar in the same, listed way - finding F2 - and
// must still agree: round 21, a single-quoted byte escape widened to a rune by the bootstrap parser only)
var agreeOnly bool

// compare runs both front-ends on text. want may be nil (repository files).
func compare(srv *pvpeg.Server, text string, want *ast.Grammar, fail func(kind, detail string)) {
	bg, berr, bp := bootParse([]byte(text))
	a := srv.Parse([]byte(text))
	if bp != nil {
		fail("panic", fmt.Sprintf("bootstrap parser panicked: %v", bp))
	}
	if a.Kind == "panic" || a.Kind == "dead" {
		fail("panic", "generated front-end: "+a.Kind+": "+a.Msg)
	}
	if bp == nil && berr != nil {
		fail("boot-rejects", berr.Error())
	}
	if a.Kind == "err" {
		fail("pigeon-rejects", a.Msg)
	}
	var pd, bd string
	if a.Kind == "ok" {
		pg, err := pvpeg.ParseDump(a.Dump)
		if err != nil {
			fail("ast-mismatch", "unreadable dump: "+err.Error())
			return
		}
		pd = pvpeg.Dump(pvpeg.UnquoteDisplayNames(pg), false)
	}
	if bp == nil && berr == nil {
		bd = pvpeg.Dump(bg, false)
	}
	if pd != "" && bd != "" && pd != bd {
		fail("ast-mismatch", "the two front-ends differ\nboot   "+bd+"\npigeon "+pd)
		return
	}
	if want != nil && !agreeOnly {
		wd := pvpeg.Dump(pvpeg.UnquoteDisplayNames(pvpeg.Clone(want)), false)
		if bd != "" && bd != wd {
			fail("ast-mismatch", "bootstrap parser deviates from the printed grammar\nboot "+bd+"\nwant "+wd)
		} else if pd != "" && pd != wd {
			fail("ast-mismatch", "generated front-end deviates from the printed grammar\npigeon "+pd+"\nwant   "+wd)
		}
	}
}

func main() {
	seed := flag.Int64("seed", 1, "random seed (all randomness derives from it)")
	n := flag.Int("n", 1000, "number of grammars")
	pigeon := flag.String("pigeon", "/verif/build/bin/pigeon", "pigeon binary built with -tags verif")
	flag.BoolVar(&agreeOnly, "agree-only", false, "compare the two front-ends with each other only, not with the printed grammar")
	includeKnown := flag.Bool("include-known", false, "lift the known-defect avoidance")
	lift := flag.String("lift", "", "lift single avoidances: comma-separated list of "+strings.Join(pvpeg.AvoidNames(), ","))
	out := flag.String("out", "/tmp/pvt.pvboot.out", "directory for failing inputs")
	jobs := flag.Int("j", 16, "parallel workers (one server process each)")
	repo := flag.String("repo", "/repo", "repository whose grammar/*.peg files are compared too")
	flag.Parse()
	if flag.NArg() > 0 || *n < 0 || *jobs < 1 {
		fmt.Fprintln(os.Stderr, "usage: pvboot [-seed S] [-n N] [-pigeon BIN] [-include-known] [-out DIR] [-j J] [-repo DIR]")
		os.Exit(2)
	}
	av, err := pvpeg.ParseAvoid(*includeKnown, *lift)
	if err != nil {
		fmt.Fprintln(os.Stderr, "pvboot:", err)
		os.Exit(2)
	}
	rep := pvpeg.NewReport("pvboot", *seed, *out)
	items := make([]*item, *n)
	var wg sync.WaitGroup
	next := make(chan int)
	errs := make(chan error, *jobs)
	for w := 0; w < *jobs; w++ {
		wg.Add(1)
		go func() {
			defer wg.Done()
			srv, err := pvpeg.StartServer(*pigeon)
			if err != nil {
				errs <- err
				for range next {
				}
				return
			}
			defer srv.Close()
			for i := range next {
				items[i] = evaluate(srv, *seed, i, av)
			}
		}()
	}
	for i := 0; i < *n; i++ {
		next <- i
	}
	close(next)
	wg.Wait()
	select {
	case err := <-errs:
		fmt.Fprintln(os.Stderr, "pvboot:", err)
		os.Exit(2)
	default:
	}
	for i, it := range items {
		rep.Seen(it.text, !it.trivial)
		rep.Count("text_bytes", pvpeg.SizeBucket(len(it.text)), 1)
		rep.Count("layouts", it.layout, 1)
		rep.KindHistogram("node_kinds", it.kinds[:])
		rep.Count("rules_per_grammar", fmt.Sprint(it.rules), 1)
		for _, f := range it.fails {
			rep.Fail(f.kind, f.detail, f.name, f.input, nil)
		}
		if i < 3 {
			rep.Sample(it.text)
		}
	}
	// the repository's own grammars
	srv, err := pvpeg.StartServer(*pigeon)
	if err != nil {
		fmt.Fprintln(os.Stderr, "pvboot:", err)
		os.Exit(2)
	}
	for _, name := range []string{"bootstrap.peg", "pigeon.peg"} {
		b, err := os.ReadFile(filepath.Join(*repo, "grammar", name))
		if err != nil {
			rep.Count("repo_files", name+": unreadable", 1)
			continue
		}
		if name == "pigeon.peg" {
			// only if it is in the subset
			if _, berr, bp := bootParse(b); berr != nil || bp != nil {
				rep.Count("repo_files", name+": not in the bootstrap subset, skipped", 1)
				continue
			}
		}
		nf := 0
		compare(srv, string(b), nil, func(kind, detail string) {
			nf++
			rep.Fail(kind, name+": "+detail, "pvboot-"+name+"-"+kind+".peg", string(b), nil)
		})
		rep.Seen(string(b), true)
		if nf == 0 {
			rep.Count("repo_files", name+": both front-ends agree", 1)
		} else {
			rep.Count("repo_files", name+": FAILED", 1)
		}
	}
	srv.Close()
	rep.Print(os.Stdout)
}

func evaluate(srv *pvpeg.Server, seed int64, i int, av pvpeg.Avoid) *item {
	r := pvpeg.SubRand(seed, 0, i)
	cfg := pvpeg.Cfg{BootstrapSubset: true, Avoid: av, WellFormed: r.Intn(3) == 0}
	g := pvpeg.Gen(r, cfg)
	st := pvpeg.SubsetStyles[r.Intn(len(pvpeg.SubsetStyles))]
	st.Avoid = av
	pr := pvpeg.PrintPos(g, r, st)
	it := &item{text: pr.Text, layout: pr.Style, rules: len(g.Rules)}
	var total int
	it.kinds, total = pvpeg.CountKinds(g)
	it.trivial = total < 3
	compare(srv, pr.Text, pr.AST, func(kind, detail string) {
		it.fails = append(it.fails, outcome{kind, detail, fmt.Sprintf("pvboot-s%d-i%d-%s.peg", seed, i, kind), pr.Text})
	})
	return it
}
