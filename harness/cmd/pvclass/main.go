// pvclass drives the class-parser correspondence stream (C03): the real ast.NewCharClassMatcher against the Lean model
// of (*ast.CharClassMatcher).parse (lean/PigeonVerif/Model/ClassParse.lean, run by pvdriver on the same lines).
//
//	pvclass -gen -seed S -n N     print N lines   "class <id> x<hex of the raw class text>"
//	pvclass -run < lines          print per line  "clsres <id> <ignoreCase> <inverted> <n> <rune>*n <m> <rune>*m <k> x<hex name>*k"
//	                              or              "clsres <id> panic"
//
// Generated texts: mostly what the front-end grammar lets through (plain characters incl. multi-byte ones, every escape
// form, ranges in every position, dashes first / last / after a range, \pX and \p{Name}, ^, i), and a junk share
// (truncations, stray bytes, unknown escapes, unterminated \p{, bad digits) for the paths only direct API use reaches.
package main

import (
	"bufio"
	"encoding/hex"
	"flag"
	"fmt"
	"math/rand/v2"
	"os"
	"strings"

	"github.com/mna/pigeon/ast"
)

var plain = []string{"a", "b", "z", "A", "Z", "0", "9", "_", " ", "x", "i", "p", "u", "-", "^", "[", "é", "ß", "Ж", "€", "😀", " ", "�", "{", "}", "'", "\"", "`"}
var simple = []string{`\a`, `\b`, `\n`, `\f`, `\r`, `\t`, `\v`, `\\`, `\]`}
var names = []string{"L", "Lu", "Greek", "Latin", "Nd", "White_Space", "Zs", "So", "N"}

func hexdig(r *rand.Rand, n int) string {
	var b strings.Builder
	for i := 0; i < n; i++ {
		b.WriteByte("0123456789abcdefABCDEF"[r.IntN(22)])
	}
	return b.String()
}

func item(r *rand.Rand) string {
	switch x := r.IntN(100); {
	case x < 40:
		return plain[r.IntN(len(plain))]
	case x < 52:
		return simple[r.IntN(len(simple))]
	case x < 60:
		return `\x` + hexdig(r, 2)
	case x < 67:
		return `\u` + []string{"0041", "00e9", "2028", "fffd", "d7ff", "e000", hexdig(r, 4)}[r.IntN(7)]
	case x < 72:
		return `\U` + []string{"0001F600", "00000041", "0010FFFF", "000" + hexdig(r, 5)}[r.IntN(4)]
	case x < 80:
		return `\` + string("01234567"[r.IntN(4)]) + string("01234567"[r.IntN(8)]) + string("01234567"[r.IntN(8)])
	case x < 88:
		return `\p` + string("LNZSPC"[r.IntN(6)])
	default:
		return `\p{` + names[r.IntN(len(names))] + `}`
	}
}

func gen(r *rand.Rand) string {
	var b strings.Builder
	b.WriteByte('[')
	if r.IntN(4) == 0 {
		b.WriteByte('^')
	}
	n := r.IntN(7)
	if r.IntN(10) == 0 {
		n = 0
	}
	for i := 0; i < n; i++ {
		switch r.IntN(4) {
		case 0:
			b.WriteString(item(r) + "-" + item(r))
		case 1:
			if r.IntN(3) == 0 {
				b.WriteByte('-')
			} else {
				b.WriteString(item(r))
			}
		default:
			b.WriteString(item(r))
		}
	}
	b.WriteByte(']')
	if r.IntN(3) == 0 {
		b.WriteByte('i')
	}
	s := b.String()
	if r.IntN(6) == 0 { // junk
		bs := []byte(s)
		switch r.IntN(6) {
		case 0:
			bs = bs[:r.IntN(len(bs)+1)]
		case 1:
			i := r.IntN(len(bs))
			bs[i] = byte(r.IntN(256))
		case 2:
			i := r.IntN(len(bs))
			bs = append(bs[:i:i], append([]byte{'\\', "qQ-'\"89gG"[r.IntN(9)]}, bs[i:]...)...)
		case 3:
			i := r.IntN(len(bs))
			bs = append(bs[:i:i], append([]byte(`\p{L`), bs[i:]...)...)
		case 4:
			i := r.IntN(len(bs))
			bs = append(bs[:i:i], append([]byte{'\\', "xuU0"[r.IntN(4)], "0gz\xff"[r.IntN(4)]}, bs[i:]...)...)
		default:
			i := r.IntN(len(bs))
			bs = append(bs[:i:i], bs[i+1:]...)
		}
		s = string(bs)
	}
	return s
}

func run(id int, raw string) (res string) {
	defer func() {
		if e := recover(); e != nil {
			res = fmt.Sprintf("clsres %d panic", id)
		}
	}()
	c := ast.NewCharClassMatcher(ast.Pos{}, raw)
	b01 := func(b bool) int {
		if b {
			return 1
		}
		return 0
	}
	var b strings.Builder
	fmt.Fprintf(&b, "clsres %d %d %d %d", id, b01(c.IgnoreCase), b01(c.Inverted), len(c.Chars))
	for _, r := range c.Chars {
		fmt.Fprintf(&b, " %d", r)
	}
	fmt.Fprintf(&b, " %d", len(c.Ranges))
	for _, r := range c.Ranges {
		fmt.Fprintf(&b, " %d", r)
	}
	fmt.Fprintf(&b, " %d", len(c.UnicodeClasses))
	for _, n := range c.UnicodeClasses {
		fmt.Fprintf(&b, " x%s", hex.EncodeToString([]byte(n)))
	}
	return b.String()
}

func main() {
	doGen := flag.Bool("gen", false, "generate cases")
	doRun := flag.Bool("run", false, "run cases from stdin on the real ast.NewCharClassMatcher")
	seed := flag.Uint64("seed", 1, "seed")
	n := flag.Int("n", 1000, "number of class texts")
	flag.Parse()
	w := bufio.NewWriterSize(os.Stdout, 1<<20)
	defer w.Flush()
	if *doGen {
		r := rand.New(rand.NewPCG(*seed, 0x636c617373))
		fixed := []string{"[]", "[^]", "[]i", "[a-z]", "[-a]", "[a-]", "[a-c-e]", `[a\x2dc]`, `[\]]`, `[\p{L]`, `[\pL]`, `[\777]`, `[\400]`, `[\'"]`, "[", "]", "[i", "i", "", `[\`, `[\p`, `[\p{`, `[\x4`, `[^-]`, `[--/]`, `[\-]`}
		for i := 0; i < *n; i++ {
			s := ""
			if i < len(fixed) {
				s = fixed[i]
			} else {
				s = gen(r)
			}
			fmt.Fprintf(w, "class %d x%s\n", i+1, hex.EncodeToString([]byte(s)))
		}
		return
	}
	if *doRun {
		sc := bufio.NewScanner(os.Stdin)
		sc.Buffer(make([]byte, 1<<20), 1<<24)
		for sc.Scan() {
			f := strings.Fields(sc.Text())
			if len(f) != 3 || f[0] != "class" {
				continue
			}
			var id int
			fmt.Sscan(f[1], &id)
			raw, _ := hex.DecodeString(f[2][1:])
			fmt.Fprintln(w, run(id, string(raw)))
		}
	}
}
