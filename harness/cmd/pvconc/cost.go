package main

// The cost estimate below is the one of cmd/pvgen/cost.go (pvgen is a command,
// its code cannot be imported): siblings reuse the grammar of a generated case
// with other inputs, so they must obey the same input length limit as the
// generator's own inputs.

import (
	"math"
	"unicode/utf8"

	"pvharness/pvcase"
)

// recursionFanout estimates the branching factor of the recursion per consumed
// rune (0 = no recursion, 1 = linear recursion, >=2 = tree recursion).
// A PEG parser without memoisation can need time exponential in the input
// length exactly when the recursion is nonlinear, so the generator keeps the
// inputs of such grammars short. References to rules the runtime memoises as
// left-recursion leaders do not count. A throw counts as a call of every
// recovery expression registered for its label.
func recursionFanout(c *pvcase.Case) int {
	type node struct {
		rule string
		rec  *pvcase.Expr
	}
	rules := map[string]*pvcase.Rule{}
	for _, r := range c.Grammar.Rules {
		rules[r.Name] = r
	}
	handlers := map[string][]*pvcase.Expr{}
	var nodes []node
	body := map[node]*pvcase.Expr{}
	for _, r := range c.Grammar.Rules {
		n := node{rule: r.Name}
		if _, dup := body[n]; !dup {
			nodes = append(nodes, n)
		}
		body[n] = rules[r.Name].Expr
		r.Expr.Walk(func(e *pvcase.Expr) {
			if e.Kind == pvcase.KRec {
				for _, l := range e.Labels {
					handlers[l] = append(handlers[l], e)
				}
				rn := node{rec: e}
				nodes = append(nodes, rn)
				body[rn] = e.Kids[1]
			}
		})
	}
	leader := func(name string) bool {
		r := rules[name]
		return r != nil && c.Flags.LeftRec && r.Leader && r.LeftRecursive
	}
	// call sites (with multiplicity) of every node
	sites := map[node][]node{}
	for _, n := range nodes {
		var walk func(e *pvcase.Expr, loop bool)
		add := func(m node, loop bool) {
			sites[n] = append(sites[n], m)
			if loop {
				// a call site inside a repetition runs once per iteration:
				// T(n) = sum T(n-i) = 2^n, the same as two plain sites
				sites[n] = append(sites[n], m)
			}
		}
		walk = func(e *pvcase.Expr, loop bool) {
			switch e.Kind {
			case pvcase.KRef:
				if rules[e.Name] != nil && !leader(e.Name) {
					add(node{rule: e.Name}, loop)
				}
			case pvcase.KThr:
				// the runtime tries every handler on the recovery stack,
				// which grows with the recursion depth
				for _, h := range handlers[e.Label] {
					add(node{rec: h}, true)
					add(node{rec: h}, loop)
				}
			case pvcase.KRec:
				// the recovery expression is its own node
				walk(e.Kids[0], loop)
				return
			case pvcase.KStar, pvcase.KPlus:
				loop = true
			}
			for _, k := range e.Kids {
				walk(k, loop)
			}
		}
		walk(body[n], false)
	}
	// reachability
	reach := map[node]map[node]bool{}
	for _, n := range nodes {
		seen := map[node]bool{}
		stack := []node{n}
		for len(stack) > 0 {
			x := stack[len(stack)-1]
			stack = stack[:len(stack)-1]
			for _, y := range sites[x] {
				if !seen[y] {
					seen[y] = true
					stack = append(stack, y)
				}
			}
		}
		reach[n] = seen
	}
	// For every strongly connected component multiply the numbers of
	// recursive call sites of its members: one trip round the cycle consumes
	// at least one rune and fans out by that product.
	best := 0
	done := map[node]bool{}
	for _, n := range nodes {
		if done[n] || !reach[n][n] {
			continue
		}
		prod := 1
		for _, m := range nodes {
			if m != n && !(reach[n][m] && reach[m][n]) {
				continue
			}
			done[m] = true
			k := 0
			for _, y := range sites[m] {
				if y == n || (reach[y][n] && reach[n][y]) {
					k++
				}
			}
			if k > 1 {
				prod *= k
			}
			if prod > 1<<20 {
				prod = 1 << 20
			}
		}
		if prod > best {
			best = prod
		}
	}
	return best
}

// runeLimit returns the maximal number of input runes a non-budgeted parse
// with the grammar of c may be given (0 = no limit besides maxInputBytes).
func runeLimit(c *pvcase.Case) int {
	k := recursionFanout(c)
	if k <= 1 {
		return 0
	}
	// keep k^runes below ~3000
	limit := int(math.Log(3000) / math.Log(float64(k)))
	if limit < 1 {
		limit = 1
	}
	return limit
}

// clampRunes cuts in after limit runes (limit 0 = unlimited) and after
// maxBytes bytes, never in the middle of a well-formed rune.
func clampRunes(in []byte, limit, maxBytes int) []byte {
	n, i := 0, 0
	for i < len(in) && (limit == 0 || n < limit) {
		_, w := utf8.DecodeRune(in[i:])
		if i+w > maxBytes {
			break
		}
		i += w
		n++
	}
	return in[:i]
}
