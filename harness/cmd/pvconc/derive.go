package main

import (
	"fmt"
	"math/rand/v2"
	"sort"
	"strconv"
	"strings"

	"pvharness/pvcase"
	"pvharness/pvterm"
)

const maxInputBytes = 120

// group is one unit of work of a race host: k cases with the same flags,
// grammar and blocks.
type group struct {
	GID     int
	Profile string
	Variant string
	Cases   []*pvcase.Case
}

// text serialises the group in the input format of the race hosts.
func (g *group) text() string {
	var b strings.Builder
	fmt.Fprintf(&b, "group %d %d\n", g.GID, len(g.Cases))
	for _, c := range g.Cases {
		b.WriteString(c.String())
		b.WriteByte('\n')
	}
	return b.String()
}

// programKey serialises what the members of a group have in common.
func programKey(c *pvcase.Case) string {
	d := *c
	d.ID = 0
	d.Opts = pvcase.DefaultOpts()
	d.Fuel = 0
	d.Input = nil
	return d.String()
}

func fuelFor(maxExpr uint64) uint64 {
	if maxExpr == 0 {
		return 400
	}
	if maxExpr+50 > 6000 {
		return 6000
	}
	return maxExpr + 50
}

// keyUse says how the blocks of a case use a store key.
type keyUse struct{ mut, num bool }

// storeKeys collects the keys of the state store and of the global store the
// blocks of c read or write.
func storeKeys(c *pvcase.Case) (state, global map[string]*keyUse) {
	state, global = map[string]*keyUse{}, map[string]*keyUse{}
	use := func(m map[string]*keyUse, k string) *keyUse {
		if m[k] == nil {
			m[k] = &keyUse{}
		}
		return m[k]
	}
	var vexpr func(v *pvcase.VExpr)
	vexpr = func(v *pvcase.VExpr) {
		if v == nil {
			return
		}
		switch v.Op {
		case "sget":
			use(state, v.Key)
		case "gget":
			use(global, v.Key)
		}
		for _, k := range v.Kids {
			vexpr(k)
		}
	}
	var bexpr func(b *pvcase.BExpr)
	bexpr = func(b *pvcase.BExpr) {
		if b == nil {
			return
		}
		switch b.Op {
		case "sge":
			use(state, b.Key).num = true
		case "gge":
			use(global, b.Key).num = true
		}
		bexpr(b.Kid)
	}
	for _, b := range c.Blocks {
		for i := range b.Effects {
			e := &b.Effects[i]
			switch e.Op {
			case "sset":
				use(state, e.Key)
			case "sinc":
				use(state, e.Key).num = true
			case "smut":
				use(state, e.Key).mut = true
			case "gset":
				use(global, e.Key)
			case "ginc":
				use(global, e.Key).num = true
			case "gmut":
				use(global, e.Key).mut = true
			}
			vexpr(e.V)
		}
		vexpr(b.RetV)
		bexpr(b.RetB)
	}
	return state, global
}

// deriver derives the siblings of base cases.
type deriver struct {
	r *rand.Rand
}

func (d *deriver) chance(p float64) bool { return d.r.Float64() < p }

func (d *deriver) randVal(depth int) pvcase.Val {
	switch d.r.IntN(7) {
	case 0:
		return pvcase.NilVal()
	case 1:
		return pvcase.IntVal(int64(d.r.IntN(9)) - 2)
	case 2:
		return pvcase.StrVal([]string{"", "s", "tt", "é"}[d.r.IntN(4)])
	case 3:
		return pvcase.BytesVal([]byte{byte('a' + d.r.IntN(4))})
	case 4:
		return pvcase.BoolVal(d.r.IntN(2) == 0)
	case 5:
		return d.randCl()
	default:
		if depth > 0 {
			return pvcase.IntVal(int64(d.r.IntN(100)))
		}
		return pvcase.ListVal(d.randVal(depth+1), d.randVal(depth+1))
	}
}

func (d *deriver) randCl() pvcase.Val {
	ns := []int64{}
	for n := d.r.IntN(4); n > 0; n-- {
		ns = append(ns, int64(d.r.IntN(7)))
	}
	return pvcase.ClVal(ns...)
}

// valFor picks a value for a key the blocks use in the given way.
func (d *deriver) valFor(u *keyUse) pvcase.Val {
	switch {
	case u != nil && u.mut && d.chance(0.8):
		return d.randCl()
	case u != nil && u.num && d.chance(0.8):
		return pvcase.IntVal(int64(d.r.IntN(6)))
	}
	return d.randVal(0)
}

// varyStore derives a store option list: the entries of the base with other
// values, some dropped, entries for keys the blocks use added, and a marker
// entry that is different in every member of the group (so that a store that
// leaks from one parse into another one shows in the result line).
func (d *deriver) varyStore(base pvcase.Store, used map[string]*keyUse, extraKeys []string, marker string, member int) pvcase.Store {
	var out pvcase.Store
	have := map[string]bool{}
	for _, e := range base {
		if have[e.Key] || d.chance(0.15) {
			continue
		}
		have[e.Key] = true
		v := e.Val
		if d.chance(0.6) {
			switch e.Val.Kind {
			case pvcase.VCl:
				v = d.randCl()
			case pvcase.VInt:
				v = pvcase.IntVal(int64(d.r.IntN(6)))
			default:
				v = d.randVal(0)
			}
		}
		out = append(out, pvcase.StoreEntry{Key: e.Key, Val: v})
	}
	keys := make([]string, 0, len(used))
	for k := range used {
		keys = append(keys, k)
	}
	sort.Strings(keys)
	for _, k := range keys {
		if !have[k] && d.chance(0.4) {
			have[k] = true
			out = append(out, pvcase.StoreEntry{Key: k, Val: d.valFor(used[k])})
		}
	}
	for _, k := range extraKeys {
		if !have[k] && d.chance(0.15) {
			have[k] = true
			out = append(out, pvcase.StoreEntry{Key: k, Val: d.randVal(0)})
		}
	}
	if !have[marker] && d.chance(0.7) {
		v := pvcase.IntVal(int64(1000 + member))
		if d.chance(0.3) {
			v = pvcase.ClVal(int64(1000 + member))
		}
		out = append(out, pvcase.StoreEntry{Key: marker, Val: v})
	}
	return out
}

// mutate derives an input from base, using material of other inputs.
func (d *deriver) mutate(base []byte, others [][]byte) []byte {
	other := func() []byte {
		if len(others) == 0 {
			return nil
		}
		return others[d.r.IntN(len(others))]
	}
	in := append([]byte{}, base...)
	pickByte := func() byte {
		src := base
		if o := other(); len(o) > 0 && (len(src) == 0 || d.chance(0.4)) {
			src = o
		}
		if len(src) == 0 {
			return "ab(1+ \n"[d.r.IntN(7)]
		}
		return src[d.r.IntN(len(src))]
	}
	switch d.r.IntN(12) {
	case 0: // the same input, other options
	case 1:
		in = in[:0]
	case 2, 3: // the input of another case
		in = append(in[:0], other()...)
	case 4: // a prefix
		if len(in) > 0 {
			in = in[:d.r.IntN(len(in))]
		}
	case 5: // a suffix
		if len(in) > 0 {
			in = in[d.r.IntN(len(in)):]
		}
	case 6: // one byte deleted
		if len(in) > 0 {
			i := d.r.IntN(len(in))
			in = append(in[:i], in[i+1:]...)
		}
	case 7: // one byte replaced
		if len(in) > 0 {
			in[d.r.IntN(len(in))] = pickByte()
		}
	case 8: // one byte inserted
		i := d.r.IntN(len(in) + 1)
		in = append(in[:i], append([]byte{pickByte()}, in[i:]...)...)
	case 9: // a segment doubled
		if len(in) > 0 {
			i := d.r.IntN(len(in))
			j := i + 1 + d.r.IntN(len(in)-i)
			seg := append([]byte{}, in[i:j]...)
			in = append(in[:j], append(seg, in[j:]...)...)
		}
	case 10: // followed by another input
		in = append(in, other()...)
	case 11: // another input followed by this one
		in = append(append([]byte{}, other()...), in...)
	}
	// a second small edit now and then
	if d.chance(0.25) && len(in) > 0 {
		in[d.r.IntN(len(in))] = pickByte()
	}
	return in
}

// derive builds the group of a base case: member 0 is the base itself (with
// debug off), the others are siblings with the same flags, grammar and blocks
// but other inputs and runtime options. ok=false when the base cannot be used.
//
// Termination: a sibling never leaves the class of its base.
//   - If the base grammar passes pvterm.Check, every option set terminates; the
//     input is cut to the length limit pvgen itself applies to grammars with
//     nonlinear recursion.
//   - Otherwise the base is budgeted (maxExpr > 0, memoize = 0) and so is every
//     sibling.
//
// In addition memoize is only varied when the base has maxExpr = 0, and a
// sibling of a base with maxExpr > 0 has maxExpr > 0.
func (d *deriver) derive(gid int, profile string, base *pvcase.Case, k int, others [][]byte) (*group, bool) {
	checked := pvterm.Check(base) == nil
	if !checked && !pvterm.Budgeted(base) {
		return nil, false
	}
	fl := base.Flags
	limit := 0
	if !pvterm.Budgeted(base) {
		limit = runeLimit(base)
	}
	stateKeys, globalKeys := storeKeys(base)

	g := &group{GID: gid, Profile: profile, Variant: fl.Variant()}
	for i := 0; i < k; i++ {
		c := base.Clone()
		c.ID = uint64(gid)*1000 + uint64(i)
		o := &c.Opts
		// Debug(true) prints its trace with fmt.Printf; the race host points os.Stdout at the null device before the
		// first parse, so some of the concurrent parses run with it
		o.Debug = !fl.Optimize && i > 0 && d.chance(0.2)
		if i > 0 {
			c.Input = d.mutate(base.Input, others)
			maxBytes := maxInputBytes
			if len(base.Input) > maxBytes {
				maxBytes = len(base.Input)
			}
			c.Input = clampRunes(c.Input, limit, maxBytes)

			if !fl.Optimize {
				if base.Opts.MaxExpr == 0 && checked && d.chance(0.5) {
					o.Memoize = !o.Memoize
				}
				o.Stats = d.chance(0.4)
			}
			switch {
			case base.Opts.MaxExpr > 0:
				switch d.r.IntN(4) {
				case 0: // as the base
				case 1:
					o.MaxExpr = uint64(1 + d.r.IntN(40))
				case 2:
					o.MaxExpr = uint64(20 + d.r.IntN(300))
				default:
					o.MaxExpr = uint64(100 + d.r.IntN(2900))
				}
			case d.chance(0.35):
				if d.chance(0.5) {
					o.MaxExpr = uint64(1 + d.r.IntN(60))
				} else {
					o.MaxExpr = uint64(50 + d.r.IntN(1000))
				}
			}
			switch x := d.r.IntN(100); {
			case x < 25:
				o.HasEntry = true
				o.Entry = c.Grammar.Rules[d.r.IntN(len(c.Grammar.Rules))].Name
			case x < 30:
				o.HasEntry, o.Entry = true, ""
			case x < 33:
				o.HasEntry, o.Entry = true, "Nope"
			case x < 40:
				o.HasEntry, o.Entry = false, ""
			}
			if d.chance(0.3) {
				o.AllowInvalid = !o.AllowInvalid
			}
			if d.chance(0.25) {
				o.Recover = !o.Recover
			}
			if d.chance(0.6) {
				o.Filename = []string{"", "f.peg", fmt.Sprintf("m%d.peg", i), "dir/x.peg", "ü.peg"}[d.r.IntN(5)]
			}
		}
		// stores: also the base gets its marker, the parse is the same but
		// for the store dumps
		if fl.HasState() {
			if i > 0 {
				o.InitState = d.varyStore(base.Opts.InitState, stateKeys, []string{"c", "n", "k"}, "zs", i)
			} else if d.chance(0.7) {
				o.InitState = append(o.InitState, pvcase.StoreEntry{Key: "zs", Val: pvcase.IntVal(1000)})
			}
		} else {
			o.InitState = nil
		}
		if i > 0 {
			o.GlobalStore = d.varyStore(base.Opts.GlobalStore, globalKeys, []string{"h", "g", "m"}, "zg", i)
		}
		c.Fuel = fuelFor(o.MaxExpr)

		// the invariants promised above
		if !(checked || pvterm.Budgeted(c)) ||
			(base.Opts.MaxExpr > 0 && (o.MaxExpr == 0 || o.Memoize != base.Opts.Memoize)) {
			panic(fmt.Sprintf("pvconc: sibling %d of group %d leaves the termination class of its base", i, gid))
		}
		g.Cases = append(g.Cases, c)
	}
	return g, true
}

// deepDebugGroup is a hand-made group: S <- N !. ; N <- "(" N ")" / "x" on inputs nested 30 to 150 levels deep, every
// parse with Debug(true). The trace indentation follows the nesting of the parse functions (several per rule level), so
// these parses go far deeper than anything the random profiles produce: whatever the trace printer keeps between calls
// is exercised by k goroutines at once.
func deepDebugGroup(gid int, variant string, k int, r interface{ IntN(int) int }) (*group, error) {
	fl, err := pvcase.ParseVariant(variant)
	if err != nil {
		return nil, err
	}
	lit := func(s string) *pvcase.Expr {
		return &pvcase.Expr{Kind: pvcase.KLit, Runes: []rune(s), Want: strconv.Quote(s)}
	}
	ref := func(n string) *pvcase.Expr { return &pvcase.Expr{Kind: pvcase.KRef, Name: n} }
	mk := func() *pvcase.Grammar {
		g := &pvcase.Grammar{Rules: []*pvcase.Rule{
			{Name: "S", Expr: &pvcase.Expr{Kind: pvcase.KSeq, Kids: []*pvcase.Expr{ref("N"),
				{Kind: pvcase.KNot, Kids: []*pvcase.Expr{{Kind: pvcase.KAny}}}}}},
			{Name: "N", Expr: &pvcase.Expr{Kind: pvcase.KCh, Line: 2, Col: 6, Kids: []*pvcase.Expr{
				{Kind: pvcase.KSeq, Kids: []*pvcase.Expr{lit("("), ref("N"), lit(")")}}, lit("x")}}},
		}}
		id := 0
		for _, rl := range g.Rules {
			rl.Expr.Walk(func(e *pvcase.Expr) { id++; e.ID = id })
		}
		return g
	}
	g := &group{GID: gid, Profile: "deepdebug", Variant: variant}
	for i := 0; i < k; i++ {
		depth := 30 + r.IntN(120)
		in := strings.Repeat("(", depth) + "x" + strings.Repeat(")", depth)
		if i%4 == 3 {
			in = in[:len(in)-1] // unbalanced: a failure deep down
		}
		c := &pvcase.Case{ID: uint64(gid)*1000 + uint64(i), Flags: fl, Opts: pvcase.DefaultOpts(), Fuel: 6000, Grammar: *mk(), Input: []byte(in)}
		c.Opts.Debug = !fl.Optimize
		g.Cases = append(g.Cases, c)
	}
	return g, nil
}
