// Command pvconc is the driver of the concurrency stress harness (property
// C18: concurrent parses with one generated parser are isolated).
//
//	pvconc -hosts /verif/build/hosts_race -seed S -groups N [-k 6] [-rounds 20] [-extra -1] [-iters 3]
//	       [-profiles state,lr,memo,blocks,throw,mixed] [-variants o0g1l0b0,...] [-j 8]
//	       [-pvgen /verif/build/bin/pvgen] [-out DIR] [-dump FILE] [-groupfile FILE]
//
// It obtains base cases from pvgen, derives for each base case k-1 siblings
// with the same flags, grammar and blocks but other inputs and runtime
// options (see derive.go), and feeds the groups to the race hosts built by
// pvconcgen (j processes at a time, GORACE="halt_on_error=1 exitcode=66").
// A host runs every case of a group alone and then all of them at the same
// time (k + extra goroutines behind a start barrier, each parsing its case
// iters times), for a number of rounds, and reports whether every concurrent
// result line is identical to the solo one. pvconc prints one JSON object on stdout;
// the input of every failing group (mismatch, race, timeout, crash) is saved
// under -out. Group generation is a function of the flags alone.
//
// -dump writes all generated groups to a file; -groupfile runs the groups of
// such a file (or of a saved failing group) instead of generating any.
package main

import (
	"bufio"
	"bytes"
	"encoding/json"
	"flag"
	"fmt"
	"math/rand/v2"
	"os"
	"os/exec"
	"path/filepath"
	"sort"
	"strconv"
	"strings"
	"sync"
	"time"

	"pvharness/pvcase"
)

const maxReported = 10

type mismatch struct {
	GID        int    `json:"gid"`
	Variant    string `json:"variant"`
	Profile    string `json:"profile"`
	CaseID     uint64 `json:"caseid"`
	Solo       string `json:"solo"`
	Concurrent string `json:"concurrent"`
	BadParses  int    `json:"bad_parses"`
	Parses     int    `json:"parses"`
	GroupFile  string `json:"group_file"`
}

type raceRep struct {
	GID       int    `json:"gid"`
	Variant   string `json:"variant"`
	Profile   string `json:"profile"`
	Report    string `json:"report"`
	GroupFile string `json:"group_file"`
}

type crashRep struct {
	GID       int    `json:"gid"`
	Variant   string `json:"variant"`
	Exit      string `json:"exit"`
	Stderr    string `json:"stderr"`
	GroupFile string `json:"group_file"`
}

type tally struct {
	Groups           int `json:"groups"`
	Cases            int `json:"cases"`
	ConcurrentParses int `json:"concurrent_parses"`
	Mismatches       int `json:"mismatches"`
	Races            int `json:"races"`
	Timeouts         int `json:"timeouts"`
	Crashes          int `json:"crashes"`
	BadGroups        int `json:"badgroups"`
}

type report struct {
	Seed             uint64            `json:"seed"`
	K                int               `json:"k"`
	Rounds           int               `json:"rounds"`
	Extra            int               `json:"extra"`
	Iters            int               `json:"iters"`
	Groups           int               `json:"groups"`
	Cases            int               `json:"cases"`
	SoloParses       int               `json:"solo_parses"`
	ConcurrentParses int               `json:"concurrent_parses"`
	OK               int               `json:"ok"`
	MismatchGroups   int               `json:"mismatch_groups"`
	Mismatches       []mismatch        `json:"mismatches"`
	RaceGroups       int               `json:"race_groups"`
	Races            []raceRep         `json:"races"`
	Timeouts         int               `json:"timeouts"`
	TimeoutGroups    []string          `json:"timeout_group_files,omitempty"`
	Crashes          int               `json:"crashes"`
	CrashList        []crashRep        `json:"crash_list,omitempty"`
	BadGroups        int               `json:"badgroups"`
	Restarts         int               `json:"restarts"`
	PerVariant       map[string]*tally `json:"per_variant"`
	PerProfile       map[string]*tally `json:"per_profile"`
	OutDir           string            `json:"out"`
	WallS            float64           `json:"wall_s"`
}

func usage(format string, args ...any) {
	fmt.Fprintf(os.Stderr, "pvconc: "+format+"\n", args...)
	os.Exit(2)
}

// ------------------------------------------------------------ group sources

// runPvgen returns the case lines pvgen prints for the given arguments;
// usable=false when the profile cannot run on the variants.
func runPvgen(pvgen, profile string, seed uint64, n int, variants string) (lines []string, usable bool, err error) {
	args := []string{"-profile", profile, "-seed", strconv.FormatUint(seed, 10), "-n", strconv.Itoa(n), "-noheader"}
	if variants != "" {
		args = append(args, "-variants", variants)
	}
	cmd := exec.Command(pvgen, args...)
	var stderr bytes.Buffer
	cmd.Stderr = &stderr
	out, err := cmd.Output()
	if err != nil {
		if ee, ok := err.(*exec.ExitError); ok && ee.ExitCode() == 2 && strings.Contains(stderr.String(), "cannot run on") {
			return nil, false, nil
		}
		return nil, false, fmt.Errorf("%s %s: %v\n%s", pvgen, strings.Join(args, " "), err, stderr.String())
	}
	for _, l := range strings.Split(string(out), "\n") {
		if strings.HasPrefix(l, "case ") {
			lines = append(lines, l)
		}
	}
	return lines, true, nil
}

// generate builds n groups, deterministically from the arguments.
func generate(pvgen string, seed uint64, n, k int, profiles []string, variants string) ([]*group, error) {
	// which profiles can run at all on the chosen variants?
	var usable []string
	for _, p := range profiles {
		_, ok, err := runPvgen(pvgen, p, 1, 0, variants)
		if err != nil {
			return nil, err
		}
		if ok {
			usable = append(usable, p)
		} else {
			fmt.Fprintf(os.Stderr, "pvconc: profile %s cannot run on the given variants, skipped\n", p)
		}
	}
	if len(usable) == 0 {
		return nil, fmt.Errorf("no profile can run on the given variants")
	}
	var groups []*group
	gid := 1
	for pi, prof := range usable {
		want := n / len(usable)
		if pi < n%len(usable) {
			want++
		}
		if want == 0 {
			continue
		}
		pseed := seed*1000003 + uint64(pi)*7919 + 17
		d := &deriver{r: rand.New(rand.NewPCG(pseed, 0x7076636f6e63))}
		got := 0
		lastKey := ""
		for attempt := 0; got < want; attempt++ {
			if attempt > 8 {
				return nil, fmt.Errorf("profile %s: cannot find %d usable base cases", prof, want)
			}
			lines, _, err := runPvgen(pvgen, prof, pseed+uint64(attempt), 2*want+30, variants)
			if err != nil {
				return nil, err
			}
			cases := make([]*pvcase.Case, 0, len(lines))
			inputs := make([][]byte, 0, len(lines))
			for _, l := range lines {
				c, err := pvcase.Parse(l)
				if err != nil {
					return nil, fmt.Errorf("pvgen output: %v", err)
				}
				cases = append(cases, c)
				inputs = append(inputs, c.Input)
			}
			for _, c := range cases {
				if got == want {
					break
				}
				key := programKey(c)
				if key == lastKey {
					continue // the twin of the previous case
				}
				lastKey = key
				g, ok := d.derive(gid, prof, c, k, inputs)
				if !ok {
					continue
				}
				groups = append(groups, g)
				gid++
				got++
			}
		}
	}
	// one hand-made group per template with a Debug option: deep nesting, every parse traced
	dr := rand.New(rand.NewPCG(seed*7919+3, 0x64656570))
	vlist := strings.Split(variants, ",")
	if strings.TrimSpace(variants) == "" {
		vlist = nil
		for m := 0; m < 8; m++ {
			vlist = append(vlist, fmt.Sprintf("o0g%dl%db%d", m>>2&1, m>>1&1, m&1))
		}
	}
	for _, v := range vlist {
		v = strings.TrimSpace(v)
		if len(v) != 8 || v[1] != '0' {
			continue
		}
		g, err := deepDebugGroup(gid, v, k, dr)
		if err != nil {
			return nil, err
		}
		groups = append(groups, g)
		gid++
	}
	return groups, nil
}

// loadGroups reads groups from a file in the race host input format.
func loadGroups(path string) ([]*group, error) {
	f, err := os.Open(path)
	if err != nil {
		return nil, err
	}
	defer f.Close()
	in := bufio.NewReaderSize(f, 1<<20)
	var groups []*group
	var cur *group
	want := 0
	for {
		line, rerr := in.ReadString('\n')
		line = strings.TrimRight(line, "\r\n")
		switch {
		case strings.HasPrefix(line, "group "):
			fs := strings.Fields(line)
			if len(fs) != 3 || (cur != nil && len(cur.Cases) != want) {
				return nil, fmt.Errorf("%s: bad group structure at %q", path, line)
			}
			gid, err1 := strconv.Atoi(fs[1])
			k, err2 := strconv.Atoi(fs[2])
			if err1 != nil || err2 != nil || k < 1 {
				return nil, fmt.Errorf("%s: bad group line %q", path, line)
			}
			cur, want = &group{GID: gid, Profile: "file"}, k
			groups = append(groups, cur)
		case strings.HasPrefix(line, "case "):
			if cur == nil || len(cur.Cases) == want {
				return nil, fmt.Errorf("%s: case line outside a group", path)
			}
			c, err := pvcase.Parse(line)
			if err != nil {
				return nil, fmt.Errorf("%s: %v", path, err)
			}
			cur.Cases = append(cur.Cases, c)
			cur.Variant = cur.Cases[0].Flags.Variant()
		case strings.HasPrefix(line, "# profile ") && cur != nil:
			cur.Profile = strings.TrimPrefix(line, "# profile ")
		}
		if rerr != nil {
			break
		}
	}
	if cur != nil && len(cur.Cases) != want {
		return nil, fmt.Errorf("%s: last group is incomplete", path)
	}
	return groups, nil
}

// ------------------------------------------------------------------ running

type outcome struct {
	kind    string // ok mismatch badgroup timeout race crash
	line    string // answer line of the host
	stderr  string
	exit    string
	restart bool
}

type runner struct {
	hosts   string
	rounds  int
	extra   int
	iters   int
	seed    uint64
	timeout time.Duration

	mu       sync.Mutex
	outcomes map[int]*outcome // by index into groups
	restarts int

	// printSolo: ask the hosts for the solo result lines (-printsolo) and keep them (-solo FILE): the check holds them
	// against the Lean model, a reference that does not depend on what the host PROCESS did before
	printSolo bool
	soloLines []string
}

type job struct {
	variant string
	idx     []int
}

// runHost runs one host process on the given groups and returns the answer
// lines received, the stderr output and the exit status.
func (r *runner) runHost(variant string, groups []*group, idx []int) (answers []string, stderr []byte, exit int, err error) {
	cmd := exec.Command(filepath.Join(r.hosts, variant),
		"-rounds", strconv.Itoa(r.rounds), "-extra", strconv.Itoa(r.extra), "-iters", strconv.Itoa(r.iters), "-seed", strconv.FormatUint(r.seed, 10))
	if r.printSolo {
		cmd.Args = append(cmd.Args, "-printsolo")
	}
	cmd.Env = append(os.Environ(), "GORACE=halt_on_error=1 exitcode=66")
	var in bytes.Buffer
	for _, i := range idx {
		in.WriteString(groups[i].text())
	}
	cmd.Stdin = &in
	var errb bytes.Buffer
	cmd.Stderr = &errb
	out, runErr := cmd.Output()
	for _, l := range strings.Split(string(out), "\n") {
		if strings.HasPrefix(l, "group ") {
			answers = append(answers, l)
		} else if r.printSolo && strings.HasPrefix(l, "res ") {
			r.mu.Lock()
			r.soloLines = append(r.soloLines, l)
			r.mu.Unlock()
		}
	}
	exit = 0
	if runErr != nil {
		if ee, ok := runErr.(*exec.ExitError); ok {
			exit = ee.ExitCode()
		} else {
			return answers, errb.Bytes(), -1, runErr
		}
	}
	return answers, errb.Bytes(), exit, nil
}

func head(s string, n int) string {
	lines := strings.Split(strings.TrimRight(s, "\n"), "\n")
	if len(lines) > n {
		lines = lines[:n]
	}
	return strings.Join(lines, "\n")
}

// raceReport cuts the first race report out of the stderr of a host.
func raceReport(stderr string) string {
	i := strings.Index(stderr, "WARNING: DATA RACE")
	if i < 0 {
		return head(stderr, 40)
	}
	return head(stderr[i:], 40)
}

func (r *runner) runJob(groups []*group, j job) {
	rest := j.idx
	for len(rest) > 0 {
		answers, stderr, exit, err := r.runHost(j.variant, groups, rest)
		n := 0
		r.mu.Lock()
		for _, a := range answers {
			if n >= len(rest) {
				break
			}
			fs := strings.Fields(a)
			if len(fs) < 3 || fs[1] != strconv.Itoa(groups[rest[n]].GID) {
				break // out of step: treat the rest as not answered
			}
			kind := fs[2]
			switch kind {
			case "ok", "mismatch", "badgroup", "timeout":
			default:
				kind = "crash"
			}
			r.outcomes[rest[n]] = &outcome{kind: kind, line: a}
			n++
		}
		lastTimeout := n > 0 && r.outcomes[rest[n-1]].kind == "timeout"
		r.mu.Unlock()
		rest = rest[n:]
		if len(rest) == 0 {
			break
		}
		r.mu.Lock()
		r.restarts++
		switch {
		case lastTimeout:
			// the watchdog ended the host; the group has its answer
		case exit == 66:
			r.outcomes[rest[0]] = &outcome{kind: "race", stderr: string(stderr), exit: "66"}
			rest = rest[1:]
		default:
			ex := strconv.Itoa(exit)
			if err != nil {
				ex = err.Error()
			}
			r.outcomes[rest[0]] = &outcome{kind: "crash", stderr: string(stderr), exit: ex}
			rest = rest[1:]
		}
		r.mu.Unlock()
	}
}

// ---------------------------------------------------------------------- main

func main() {
	var (
		hosts     = flag.String("hosts", "/verif/build/hosts_race", "directory of the race hosts (pvconcgen)")
		seed      = flag.Uint64("seed", 1, "seed of the group generation")
		ngroups   = flag.Int("groups", 100, "number of groups")
		k         = flag.Int("k", 6, "cases per group")
		rounds    = flag.Int("rounds", 20, "concurrent rounds per group")
		extra     = flag.Int("extra", -1, "additional goroutines per round re-running random members (-1: k)")
		iters     = flag.Int("iters", 3, "parses every goroutine of a round does in a row")
		profiles  = flag.String("profiles", "state,lr,memo,blocks,throw,mixed", "pvgen profiles the base cases come from")
		variants  = flag.String("variants", "", "comma-separated variants to restrict to (default: all 16)")
		jobs      = flag.Int("j", 8, "host processes run in parallel")
		pvgen     = flag.String("pvgen", "/verif/build/bin/pvgen", "path to the pvgen binary")
		out       = flag.String("out", "/verif/build/conc_fail", "directory receiving the input of failing groups")
		dump      = flag.String("dump", "", "write all groups to this file")
		soloOut   = flag.String("solo", "", "write the solo result lines (res ...) of every group to this file")
		groupfile = flag.String("groupfile", "", "run the groups of this file instead of generating groups")
		chunk     = flag.Int("chunk", 8, "groups per host process")
		norun     = flag.Bool("norun", false, "generate (and -dump) only")
	)
	flag.Parse()
	if flag.NArg() != 0 || *ngroups < 0 || *k < 1 || *k > 999 || *rounds < 0 || *iters < 1 || *jobs < 1 || *chunk < 1 {
		flag.Usage()
		os.Exit(2)
	}
	start := time.Now()
	if *variants != "" {
		for _, v := range strings.Split(*variants, ",") {
			if _, err := pvcase.ParseVariant(strings.TrimSpace(v)); err != nil {
				usage("%v", err)
			}
		}
	}

	var groups []*group
	var err error
	if *groupfile != "" {
		groups, err = loadGroups(*groupfile)
	} else {
		var profs []string
		for _, p := range strings.Split(*profiles, ",") {
			if p = strings.TrimSpace(p); p != "" {
				profs = append(profs, p)
			}
		}
		if len(profs) == 0 {
			usage("no profile")
		}
		groups, err = generate(*pvgen, *seed, *ngroups, *k, profs, *variants)
	}
	if err != nil {
		usage("%v", err)
	}
	if *variants != "" {
		allowed := map[string]bool{}
		for _, v := range strings.Split(*variants, ",") {
			allowed[strings.TrimSpace(v)] = true
		}
		kept := groups[:0]
		for _, g := range groups {
			if allowed[g.Variant] {
				kept = append(kept, g)
			}
		}
		groups = kept
	}
	if *dump != "" {
		var b bytes.Buffer
		for _, g := range groups {
			b.WriteString(g.text())
			fmt.Fprintf(&b, "# profile %s\n", g.Profile)
		}
		if err := os.WriteFile(*dump, b.Bytes(), 0o644); err != nil {
			usage("%v", err)
		}
	}

	ex := *extra
	rep := &report{
		Seed: *seed, K: *k, Rounds: *rounds, Extra: ex, Iters: *iters, OutDir: *out,
		Mismatches: []mismatch{}, Races: []raceRep{},
		PerVariant: map[string]*tally{}, PerProfile: map[string]*tally{},
	}
	if *norun {
		rep.Groups = len(groups)
		for _, g := range groups {
			rep.Cases += len(g.Cases)
		}
		rep.WallS = time.Since(start).Seconds()
		b, _ := json.MarshalIndent(rep, "", "  ")
		fmt.Println(string(b))
		return
	}

	// jobs: chunks of groups of one variant
	byVariant := map[string][]int{}
	for i, g := range groups {
		if _, err := os.Stat(filepath.Join(*hosts, g.Variant)); err != nil {
			usage("no race host for variant %s in %s (run pvconcgen)", g.Variant, *hosts)
		}
		byVariant[g.Variant] = append(byVariant[g.Variant], i)
	}
	vnames := make([]string, 0, len(byVariant))
	for v := range byVariant {
		vnames = append(vnames, v)
	}
	sort.Strings(vnames)
	var jobList []job
	for _, v := range vnames {
		idx := byVariant[v]
		for len(idx) > 0 {
			n := min(*chunk, len(idx))
			jobList = append(jobList, job{variant: v, idx: idx[:n]})
			idx = idx[n:]
		}
	}

	r := &runner{hosts: *hosts, rounds: *rounds, extra: ex, iters: *iters, seed: *seed, outcomes: map[int]*outcome{}, printSolo: *soloOut != ""}
	ch := make(chan job)
	var wg sync.WaitGroup
	for w := 0; w < *jobs; w++ {
		wg.Add(1)
		go func() {
			defer wg.Done()
			for j := range ch {
				r.runJob(groups, j)
			}
		}()
	}
	for _, j := range jobList {
		ch <- j
	}
	close(ch)
	wg.Wait()

	// ---- report
	save := func(g *group, what string) string {
		if err := os.MkdirAll(*out, 0o755); err != nil {
			fmt.Fprintf(os.Stderr, "pvconc: %v\n", err)
			return ""
		}
		p := filepath.Join(*out, fmt.Sprintf("%s_s%d_g%d_%s.group", what, *seed, g.GID, g.Variant))
		if err := os.WriteFile(p, []byte(g.text()+"# profile "+g.Profile+"\n"), 0o644); err != nil {
			fmt.Fprintf(os.Stderr, "pvconc: %v\n", err)
			return ""
		}
		return p
	}
	tallies := func(g *group) []*tally {
		tv := rep.PerVariant[g.Variant]
		if tv == nil {
			tv = &tally{}
			rep.PerVariant[g.Variant] = tv
		}
		tp := rep.PerProfile[g.Profile]
		if tp == nil {
			tp = &tally{}
			rep.PerProfile[g.Profile] = tp
		}
		return []*tally{tv, tp}
	}
	rep.Restarts = r.restarts
	for i, g := range groups {
		o := r.outcomes[i]
		if o == nil {
			o = &outcome{kind: "crash", exit: "no answer"}
		}
		ts := tallies(g)
		rep.Groups++
		rep.Cases += len(g.Cases)
		for _, t := range ts {
			t.Groups++
			t.Cases += len(g.Cases)
		}
		e := ex
		if e < 0 {
			e = len(g.Cases)
		}
		parses := *rounds * (len(g.Cases) + e) * *iters
		switch o.kind {
		case "ok":
			rep.OK++
			rep.SoloParses += 2 * len(g.Cases)
			rep.ConcurrentParses += parses
			for _, t := range ts {
				t.ConcurrentParses += parses
			}
		case "mismatch":
			rep.MismatchGroups++
			rep.SoloParses += 2 * len(g.Cases)
			rep.ConcurrentParses += parses
			for _, t := range ts {
				t.ConcurrentParses += parses
				t.Mismatches++
			}
			if len(rep.Mismatches) < maxReported {
				m := mismatch{GID: g.GID, Variant: g.Variant, Profile: g.Profile, GroupFile: save(g, "mismatch")}
				fs := strings.Fields(o.line)
				if len(fs) >= 6 {
					m.CaseID, _ = strconv.ParseUint(fs[3], 10, 64)
					if b, err := pvcase.Unhex(fs[4]); err == nil {
						m.Solo = string(b)
					}
					if b, err := pvcase.Unhex(fs[5]); err == nil {
						m.Concurrent = string(b)
					}
				}
				if len(fs) >= 8 {
					m.BadParses, _ = strconv.Atoi(fs[6])
					m.Parses, _ = strconv.Atoi(fs[7])
				}
				rep.Mismatches = append(rep.Mismatches, m)
			}
		case "race":
			rep.RaceGroups++
			for _, t := range ts {
				t.Races++
			}
			if len(rep.Races) < maxReported {
				rep.Races = append(rep.Races, raceRep{GID: g.GID, Variant: g.Variant, Profile: g.Profile,
					Report: raceReport(o.stderr), GroupFile: save(g, "race")})
			}
		case "timeout":
			rep.Timeouts++
			for _, t := range ts {
				t.Timeouts++
			}
			if len(rep.TimeoutGroups) < maxReported {
				rep.TimeoutGroups = append(rep.TimeoutGroups, save(g, "timeout"))
			}
		case "badgroup":
			rep.BadGroups++
			for _, t := range ts {
				t.BadGroups++
			}
			fmt.Fprintf(os.Stderr, "pvconc: %s\n", o.line)
		default:
			rep.Crashes++
			for _, t := range ts {
				t.Crashes++
			}
			if len(rep.CrashList) < maxReported {
				rep.CrashList = append(rep.CrashList, crashRep{GID: g.GID, Variant: g.Variant, Exit: o.exit,
					Stderr: head(o.stderr, 40), GroupFile: save(g, "crash")})
			}
		}
	}
	if *soloOut != "" {
		if err := os.WriteFile(*soloOut, []byte(strings.Join(r.soloLines, "\n")+"\n"), 0o644); err != nil {
			usage("%v", err)
		}
	}
	rep.WallS = float64(time.Since(start).Milliseconds()) / 1000
	b, err := json.MarshalIndent(rep, "", "  ")
	if err != nil {
		usage("%v", err)
	}
	fmt.Println(string(b))
}
