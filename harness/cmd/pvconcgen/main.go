// Command pvconcgen generates and builds the concurrent ("race") host
// executables, one per behavioural template variant of the pigeon runtime.
//
//	pvconcgen -pigeon /verif/build/bin/pigeon -out /verif/build/hosts_race [-variants o0g1l0b0,...]
//
// It works like pvhostgen: for each variant o<0|1>g<0|1>l<0|1>b<0|1> it writes
// a seed grammar, runs the given pigeon binary on it with the matching flags
// to obtain parser.go, renders hosttmpl/conc.go.tmpl next to it (same package
// main) and finally builds the hosts with one `go build -race`. The generated
// sources live in <harness>/hosts_gen_race/<variant>/ (wiped on every run).
package main

import (
	"bytes"
	"flag"
	"fmt"
	"go/format"
	"os"
	"os/exec"
	"path/filepath"
	"strings"
	"sync"
	"text/template"
	"time"

	"pvharness/hosttmpl"
	"pvharness/pvcase"
)

const genDir = "hosts_gen_race"

func seedGrammar(f pvcase.Flags) string {
	var b strings.Builder
	b.WriteString("{\npackage main\n}\n\n")
	if f.GlobalState {
		b.WriteString("S <- #{ return nil } A [\\p{L}] !.\n")
	} else {
		b.WriteString("S <- A [\\p{L}] !.\n")
	}
	if f.LeftRec {
		b.WriteString("A <- A \"a\" / \"b\"\n")
	} else {
		b.WriteString("A <- \"a\" / \"b\"\n")
	}
	return b.String()
}

type tmplData struct {
	Variant     string
	Optimize    bool
	GlobalState bool
	LeftRec     bool
	BasicLatin  bool
	HasState    bool
}

func die(format string, args ...any) {
	fmt.Fprintf(os.Stderr, "pvconcgen: "+format+"\n", args...)
	os.Exit(1)
}

// checkGenerated verifies that the generated parser really is the variant we
// asked for and has the shared objects property C18 is about.
func checkGenerated(src []byte, f pvcase.Flags) error {
	has := func(s string) bool { return bytes.Contains(src, []byte(s)) }
	checks := []struct {
		what string
		got  bool
		want bool
	}{
		{"stateCodeExpr type", has("type stateCodeExpr struct"), f.HasState()},
		{"Cloner interface", has("type Cloner interface"), f.HasState()},
		{"InitState option", has("func InitState("), f.HasState()},
		{"statePool", has("var statePool = &sync.Pool{"), f.HasState()},
		{"Memoize option", has("func Memoize("), !f.Optimize},
		{"Debug option", has("func Debug("), !f.Optimize},
		{"Statistics option", has("func Statistics("), !f.Optimize},
		{"left recursion runtime", has("parseRuleRecursiveLeader"), f.LeftRec},
		{"rule.leader field", has("leftRecursive bool"), f.LeftRec},
		{"basic latin fast path", has("chr.basicLatinChars[cur] != chr.inverted"), f.BasicLatin},
		{"rangeTable function", has("func rangeTable("), true},
		{"package variable g", has("var g = &grammar{"), true},
		{"Parse uses g", has("return newParser(filename, b, opts...).parse(g)"), true},
		{"func main", has("func main("), false},
	}
	for _, c := range checks {
		if c.got != c.want {
			return fmt.Errorf("generated parser: %s present=%v, want %v", c.what, c.got, c.want)
		}
	}
	return nil
}

func main() {
	var (
		pigeon   = flag.String("pigeon", "/verif/build/bin/pigeon", "path to the pigeon binary")
		out      = flag.String("out", "/verif/build/hosts_race", "directory receiving the host executables")
		harness  = flag.String("harness", "/verif/harness", "root of the pvharness module")
		variants = flag.String("variants", "", "comma-separated variants to build (default: all 16)")
		quiet    = flag.Bool("q", false, "quiet")
	)
	flag.Parse()
	if flag.NArg() != 0 {
		flag.Usage()
		os.Exit(2)
	}
	start := time.Now()

	pigeonAbs, err := filepath.Abs(*pigeon)
	if err != nil {
		die("%v", err)
	}
	if _, err := os.Stat(pigeonAbs); err != nil {
		die("pigeon binary: %v", err)
	}
	outAbs, err := filepath.Abs(*out)
	if err != nil {
		die("%v", err)
	}
	root, err := filepath.Abs(*harness)
	if err != nil {
		die("%v", err)
	}
	if _, err := os.Stat(filepath.Join(root, "go.mod")); err != nil {
		die("harness module: %v", err)
	}

	var build []pvcase.Flags
	if *variants == "" {
		build = pvcase.AllVariants()
	} else {
		seen := map[string]bool{}
		for _, v := range strings.Split(*variants, ",") {
			f, err := pvcase.ParseVariant(strings.TrimSpace(v))
			if err != nil {
				fmt.Fprintf(os.Stderr, "pvconcgen: %v\n", err)
				os.Exit(2)
			}
			if !seen[f.Variant()] {
				seen[f.Variant()] = true
				build = append(build, f)
			}
		}
	}

	tmpl, err := template.New("conc").Parse(hosttmpl.ConcSource)
	if err != nil {
		die("template: %v", err)
	}

	genRoot := filepath.Join(root, genDir)
	if err := os.RemoveAll(genRoot); err != nil {
		die("%v", err)
	}
	if err := os.MkdirAll(genRoot, 0o755); err != nil {
		die("%v", err)
	}
	// generated sources are never to be committed
	if err := os.WriteFile(filepath.Join(genRoot, ".gitignore"), []byte("*\n"), 0o644); err != nil {
		die("%v", err)
	}
	if err := os.MkdirAll(outAbs, 0o755); err != nil {
		die("%v", err)
	}
	for _, f := range build {
		// stale executables must never survive
		if err := os.Remove(filepath.Join(outAbs, f.Variant())); err != nil && !os.IsNotExist(err) {
			die("%v", err)
		}
	}

	var wg sync.WaitGroup
	errs := make([]error, len(build))
	for i, f := range build {
		wg.Add(1)
		go func(i int, f pvcase.Flags) {
			defer wg.Done()
			errs[i] = genVariant(tmpl, pigeonAbs, genRoot, f)
		}(i, f)
	}
	wg.Wait()
	for i, e := range errs {
		if e != nil {
			die("%s: %v", build[i].Variant(), e)
		}
	}

	cmd := exec.Command("go", "build", "-race", "-o", outAbs+string(os.PathSeparator), "./"+genDir+"/...")
	cmd.Dir = root
	cmd.Env = append(os.Environ(), "GOFLAGS=-mod=mod", "GOPROXY=off")
	if outb, err := cmd.CombinedOutput(); err != nil {
		die("go build -race: %v\n%s", err, outb)
	}
	for _, f := range build {
		if _, err := os.Stat(filepath.Join(outAbs, f.Variant())); err != nil {
			die("host not built: %v", err)
		}
	}
	if !*quiet {
		fmt.Fprintf(os.Stderr, "pvconcgen: built %d race hosts in %s (%.1fs)\n", len(build), outAbs, time.Since(start).Seconds())
	}
}

func genVariant(tmpl *template.Template, pigeon, genRoot string, f pvcase.Flags) error {
	dir := filepath.Join(genRoot, f.Variant())
	if err := os.MkdirAll(dir, 0o755); err != nil {
		return err
	}
	seed := filepath.Join(dir, "seed.peg")
	if err := os.WriteFile(seed, []byte(seedGrammar(f)), 0o644); err != nil {
		return err
	}
	args := []string{}
	if f.Optimize {
		args = append(args, "-optimize-parser")
	}
	if f.BasicLatin {
		args = append(args, "-optimize-basic-latin")
	}
	if f.LeftRec {
		args = append(args, "-support-left-recursion")
	}
	parser := filepath.Join(dir, "parser.go")
	args = append(args, "-o", parser, seed)
	cmd := exec.Command(pigeon, args...)
	cmd.Dir = dir
	if outb, err := cmd.CombinedOutput(); err != nil {
		return fmt.Errorf("pigeon %s: %v\n%s", strings.Join(args, " "), err, outb)
	}
	src, err := os.ReadFile(parser)
	if err != nil {
		return err
	}
	if err := checkGenerated(src, f); err != nil {
		// advisory only (see pvhostgen): the Go compiler decides whether the host fits the generated parser
		fmt.Fprintf(os.Stderr, "pvconcgen: warning: %s: %v\n", f.Variant(), err)
	}
	var buf bytes.Buffer
	err = tmpl.Execute(&buf, tmplData{
		Variant: f.Variant(), Optimize: f.Optimize, GlobalState: f.GlobalState,
		LeftRec: f.LeftRec, BasicLatin: f.BasicLatin, HasState: f.HasState(),
	})
	if err != nil {
		return err
	}
	src, err = format.Source(buf.Bytes())
	if err != nil {
		return fmt.Errorf("rendered host.go does not parse: %v", err)
	}
	return os.WriteFile(filepath.Join(dir, "host.go"), src, 0o644)
}
