// Command pve2e checks that grammars which pigeon accepts become Go packages
// that compile, pass go vet, start, and behave the same under every
// combination of generator flags.
//
// For each of n random grammars (well-formed, compilable code blocks, unique
// labels, a package name of their own) and each of a list of flag sets, the
// real pigeon binary generates parser.go; the package gets a support.go (the
// helpers that the code blocks call, and the inputs: sentences drawn from the
// grammar, mutated sentences, the empty input) and a main.go. All packages of
// a batch live in ONE scratch module /tmp/pvt.e2e.*/ (module e2e, go 1.25.0,
// no dependencies): `go vet ./...` and `go build ./...` run once per batch,
// then every binary is run.
//
// Flag sets: quick mode draws 4 random subsets of {-optimize-parser,
// -optimize-grammar, -optimize-basic-latin, -support-left-recursion, -nolint}
// per grammar (sometimes with -cache or -receiver-name); -all-flags takes all
// 32 subsets plus a -cache and two -receiver-name variants.
//
// Checks and failure kinds:
//
//	generate-failed  pigeon exits != 0 on an accepted-class grammar
//	vet, build       go vet / go build complain about the package
//	init-panic       the binary dies before its first line of output
//	run-crash        the binary dies later, or does not end within 10 s
//	params-mismatch  the methods on<Rule><N> of parser.go are not exactly one
//	                 per code block with exactly the labels in scope as
//	                 parameters (pvpeg.CodeSites states the expectation from
//	                 the documentation, independently of builder.go); not
//	                 checked under -optimize-grammar, which restructures rules
//	result-mismatch  the printed results differ between two flag sets of the
//	                 same grammar and inputs. All flags but -optimize-grammar
//	                 must not change a single byte of the results; under
//	                 -optimize-grammar only success/failure per input is
//	                 compared (structural values may be regrouped). -cache
//	                 must not change parser.go at all.
//
// Known-defect avoidance (lifted by -include-known): no -optimize-grammar on
// grammars with throw/recover (D13); left-recursive shapes only together with
// -support-left-recursion, without state blocks (D6); the generator avoids
// D1-D5, D10, D11, D14, D21 (see pvpeg.Avoid and pvpeg.Cfg).
package main

import (
	"bytes"
	"context"
	"flag"
	"fmt"
	"go/ast"
	"go/parser"
	"go/token"
	"math/rand"
	"os"
	"os/exec"
	"path/filepath"
	"regexp"
	"sort"
	"strings"
	"sync"
	"time"
	"unicode"

	past "github.com/mna/pigeon/ast"

	"pvharness/pvpeg"
	"pvharness/pvref"
)

type flagSet struct {
	flags []string // the five generator flags, sorted
	cache bool
	recv  string // "" = default
}

func (f flagSet) args() []string {
	a := append([]string{}, f.flags...)
	if f.cache {
		a = append(a, "-cache")
	}
	if f.recv != "" {
		a = append(a, "-receiver-name", f.recv)
	}
	return a
}

func (f flagSet) has(fl string) bool {
	for _, x := range f.flags {
		if x == fl {
			return true
		}
	}
	return false
}

func (f flagSet) String() string { return strings.Join(f.args(), " ") }

var genFlags = []string{"-optimize-parser", "-optimize-grammar", "-optimize-basic-latin", "-support-left-recursion", "-nolint"}

type unit struct {
	g      *gram
	fs     flagSet
	dir    string // g0001_f02
	text   string // grammar text (depends on the receiver name)
	gen    []byte // parser.go
	ok     bool   // generated and still in the module
	output string
	ran    bool
}

type gram struct {
	idx     int
	pkg     string
	ast     *past.Grammar
	text    string
	inputs  []string
	throws  bool
	leftRec bool
	units   []*unit
	class   string
	kinds   [18]int
	sites   int
	// probe: a one-rule grammar around a class NAME the front-end may or may not accept; a refusal by pigeon is fine,
	// an acceptance has to lead to a package that compiles and initialises
	probe bool
}

// refMode: see the -ref flag
var refMode bool

// utf8Heavy: see the -utf8 flag
var utf8Heavy bool

type failure struct {
	kind, detail, name, input string
	flags                     []string
}

func main() {
	seed := flag.Int64("seed", 1, "random seed (all randomness derives from it)")
	n := flag.Int("n", 20, "number of grammars")
	pigeon := flag.String("pigeon", "/verif/build/bin/pigeon", "pigeon binary (a -tags verif build works too)")
	includeKnown := flag.Bool("include-known", false, "lift the known-defect avoidance")
	lift := flag.String("lift", "", "lift single avoidances: comma-separated list of "+strings.Join(pvpeg.AvoidNames(), ","))
	out := flag.String("out", "/tmp/pvt.pve2e.out", "directory for failing inputs")
	allFlags := flag.Bool("all-flags", false, "all 32 flag subsets plus -cache and -receiver-name variants per grammar")
	batch := flag.Int("batch", 16, "grammars per scratch module")
	jobs := flag.Int("j", 16, "parallel pigeon / binary runs")
	keep := flag.Bool("keep", false, "keep the scratch modules")
	flag.BoolVar(&refMode, "ref", false, "reference mode: grammars without code predicates, two flag sets each, raw (also invalid UTF-8) inputs parsed with AllowInvalidUTF8; the match verdict of every input is compared with the reference interpreter pvref on the AST that was printed")
	flag.BoolVar(&utf8Heavy, "utf8", false, "with -ref: classes that list U+FFFD (raw or escaped), so that stray input bytes are matched by them")
	flag.Parse()
	if flag.NArg() > 0 || *n < 0 || *batch < 1 || *jobs < 1 {
		fmt.Fprintln(os.Stderr, "usage: pve2e [-seed S] [-n N] [-pigeon BIN] [-include-known] [-out DIR] [-all-flags] [-batch B] [-j J]")
		os.Exit(2)
	}
	av, err := pvpeg.ParseAvoid(*includeKnown, *lift)
	if err != nil {
		fmt.Fprintln(os.Stderr, "pve2e:", err)
		os.Exit(2)
	}
	rep := pvpeg.NewReport("pve2e", *seed, *out)
	for lo := 0; lo < *n; lo += *batch {
		hi := lo + *batch
		if hi > *n {
			hi = *n
		}
		var grams []*gram
		for i := lo; i < hi; i++ {
			grams = append(grams, makeGram(*seed, i, av, *allFlags))
		}
		if lo == 0 && !refMode {
			grams = append(grams, classProbes(*seed, av)...)
		}
		fails, err := runBatch(grams, *pigeon, *jobs, *keep, rep)
		if err != nil {
			fmt.Fprintln(os.Stderr, "pve2e:", err)
			os.Exit(2)
		}
		for _, f := range fails {
			rep.Fail(f.kind, f.detail, f.name, f.input, f.flags)
		}
		for _, g := range grams {
			rep.Count("grammar_class", g.class, 1)
			rep.KindHistogram("node_kinds", g.kinds[:])
			rep.Count("code_blocks_per_grammar", fmt.Sprint(g.sites), 1)
			rep.Count("text_bytes", pvpeg.SizeBucket(len(g.text)), 1)
			rep.Count("inputs_per_grammar", fmt.Sprint(len(g.inputs)), 1)
			for _, u := range g.units {
				rep.Seen(g.text+"\x00"+u.fs.String(), true)
				rep.Count("flag_sets", "["+u.fs.String()+"]", 1)
				if u.ran {
					for _, l := range strings.Split(strings.TrimSpace(u.output), "\n") {
						switch {
						case strings.Contains(l, " ok val="):
							rep.Count("parse_results", "ok", 1)
						case strings.Contains(l, " fail val="):
							rep.Count("parse_results", "fail", 1)
						case strings.HasSuffix(l, " budget"):
							rep.Count("parse_results", "budget", 1)
						}
					}
				}
			}
			if g.idx < 3 {
				rep.Sample(g.text)
			}
		}
	}
	rep.Print(os.Stdout)
}

// build draws grammar i with the given receiver name; the structure does not
// depend on the name.
// unicodeClassGrammar is grammar 0 of every run: one rule per Unicode class name that the front-end
// accepts (all of them: the list is finite, so it is enumerated, not sampled), alone and inside an
// ignore-case / inverted class. Every class must resolve when the package initialises, under every flag set.
func unicodeClassGrammar(r *rand.Rand, pkg string, av pvpeg.Avoid) *past.Grammar {
	g := past.NewGrammar(past.Pos{})
	g.Init = past.NewCodeBlock(past.Pos{}, "{\npackage "+pkg+"\n}")
	id := func(n string) *past.Identifier { return past.NewIdentifier(past.Pos{}, n) }
	first := past.NewRule(past.Pos{}, id("AnyClass"))
	ch := past.NewChoiceExpr(past.Pos{})
	first.Expr = ch
	g.Rules = append(g.Rules, first)
	for k, nm := range pvpeg.UnicodeClasses {
		items := []pvpeg.ClassItem{{Class: nm, Short: len(nm) == 1 && k%2 == 0}}
		if k%3 == 0 {
			items = append(items, pvpeg.ClassItem{Lo: 'a', Hi: 'a'})
		}
		rule := past.NewRule(past.Pos{}, id(fmt.Sprintf("U%03d", k)))
		rule.Expr = pvpeg.BuildClass(r, items, k%7 == 3, false, av)
		g.Rules = append(g.Rules, rule)
		ref := past.NewRuleRefExpr(past.Pos{})
		ref.Name = id(rule.Name.Val)
		ch.Alternatives = append(ch.Alternatives, ref)
	}
	return g
}

// addShadowLeaf adds two rules that use the SAME label name, as grammars written by hand do all the time (first:, rest:,
// v: in every rule): ShadowP <- lsh:[a-z]+ "=" w:ShadowN {..} and the leaf ShadowN <- lsh:[0-9]+ {..}, and makes ShadowP an
// alternative of the entry rule. Labels are distinct within each rule. Under -optimize-grammar the leaf is inlined below
// `w:`, a scope of its own: its block still receives exactly its own lsh, the block of ShadowP its own lsh and w.
func addShadowLeaf(r *rand.Rand, g *past.Grammar) {
	for _, rl := range g.Rules {
		if rl.Name.Val == "ShadowP" || rl.Name.Val == "ShadowN" {
			return
		}
	}
	id := func(n string) *past.Identifier { return past.NewIdentifier(past.Pos{}, n) }
	ref := func(n string) *past.RuleRefExpr {
		e := past.NewRuleRefExpr(past.Pos{})
		e.Name = id(n)
		return e
	}
	lab := func(l string, e past.Expression) *past.LabeledExpr {
		x := past.NewLabeledExpr(past.Pos{})
		x.Label, x.Expr = id(l), e
		return x
	}
	act := func(e past.Expression, code string) *past.ActionExpr {
		a := past.NewActionExpr(past.Pos{})
		a.Expr, a.Code = e, past.NewCodeBlock(past.Pos{}, code)
		return a
	}
	plus := func(e past.Expression) *past.OneOrMoreExpr {
		p := past.NewOneOrMoreExpr(past.Pos{})
		p.Expr = e
		return p
	}
	name := []string{"lsh", "v", "first", "lshval"}[r.Intn(4)]
	av := pvpeg.Avoid{}
	digits := pvpeg.BuildClass(r, []pvpeg.ClassItem{{Lo: '0', Hi: '9', IsRange: true}}, false, false, av)
	letters := pvpeg.BuildClass(r, []pvpeg.ClassItem{{Lo: 'a', Hi: 'z', IsRange: true}}, false, false, av)
	leaf := past.NewRule(past.Pos{}, id("ShadowN"))
	leaf.Expr = act(lab(name, plus(digits)), "{ return pvJoin(\"shn\", "+name+"), nil }")
	pair := past.NewRule(past.Pos{}, id("ShadowP"))
	seq := past.NewSeqExpr(past.Pos{})
	var inner past.Expression = ref("ShadowN")
	switch r.Intn(3) {
	case 0:
		// below a repetition instead of directly below the label
		inner = plus(ref("ShadowN"))
	case 1:
		o := past.NewZeroOrOneExpr(past.Pos{})
		o.Expr = ref("ShadowN")
		inner = o
	}
	seq.Exprs = []past.Expression{lab(name, plus(letters)), past.NewLitMatcher(past.Pos{}, "="), lab("wsh", inner)}
	pair.Expr = act(seq, "{ return pvJoin(\"shp\", "+name+", wsh), nil }")
	ch := past.NewChoiceExpr(past.Pos{})
	ch.Alternatives = []past.Expression{g.Rules[0].Expr, ref("ShadowP")}
	g.Rules[0].Expr = ch
	g.Rules = append(g.Rules, pair, leaf)
}

// addSharedCodeLeaf adds a reference-free rule consisting of a code predicate and refers to it from the entry rule
// AND from a recursive rule: under -optimize-grammar the leaf is inlined at both places while both rules survive
// (the recursive one cannot be inlined), so one source code block ends up in two rules and needs a method in each.
func addSharedCodeLeaf(r *rand.Rand, g *past.Grammar) {
	for _, rl := range g.Rules {
		if rl.Name.Val == "GuardQ" || rl.Name.Val == "NestQ" {
			return
		}
	}
	id := func(n string) *past.Identifier { return past.NewIdentifier(past.Pos{}, n) }
	ref := func(n string) *past.RuleRefExpr {
		e := past.NewRuleRefExpr(past.Pos{})
		e.Name = id(n)
		return e
	}
	lit := func(s string) *past.LitMatcher { return past.NewLitMatcher(past.Pos{}, s) }
	guard := past.NewRule(past.Pos{}, id("GuardQ"))
	if r.Intn(2) == 0 {
		p := past.NewAndCodeExpr(past.Pos{})
		p.Code = past.NewCodeBlock(past.Pos{}, "{ return true, nil }")
		guard.Expr = p
	} else {
		p := past.NewNotCodeExpr(past.Pos{})
		p.Code = past.NewCodeBlock(past.Pos{}, "{ return false, nil }")
		guard.Expr = p
	}
	nest := past.NewRule(past.Pos{}, id("NestQ"))
	inner := past.NewSeqExpr(past.Pos{})
	inner.Exprs = []past.Expression{ref("GuardQ"), lit("("), ref("NestQ"), lit(")")}
	ch := past.NewChoiceExpr(past.Pos{})
	ch.Alternatives = []past.Expression{inner, lit("q")}
	nest.Expr = ch
	opt := past.NewZeroOrOneExpr(past.Pos{})
	opt.Expr = ref("NestQ")
	seq := past.NewSeqExpr(past.Pos{})
	seq.Exprs = []past.Expression{ref("GuardQ"), g.Rules[0].Expr, opt}
	g.Rules[0].Expr = seq
	g.Rules = append(g.Rules, guard, nest)
}

func build(seed int64, i int, av pvpeg.Avoid, recv string) (*past.Grammar, string, []string, pvpeg.Cfg) {
	r := pvpeg.SubRand(seed, 0, i)
	cfg := pvpeg.Cfg{WellFormed: true, Compilable: true, UniqueLabels: true, Avoid: av, Recv: recv, Pkg: fmt.Sprintf("pg%04d", i)}
	if i == 0 {
		cfg.NoThrow, cfg.NoState = true, true
		g := unicodeClassGrammar(r, cfg.Pkg, av)
		st := pvpeg.Styles[0]
		st.Avoid = av
		return g, pvpeg.Print(g, r, st), []string{"a", "Z", "é", "ꀀ", "0", " ", ""}, cfg
	}
	cfg.NoThrow = r.Intn(2) == 0
	cfg.NoState = r.Intn(3) == 0
	if r.Intn(5) == 0 && !refMode {
		cfg.LeftRec = true
		cfg.NoState = true // D6
	}
	if refMode {
		// what matches must not depend on Go code: the reference interpreter does not run it
		cfg.NoCodePreds = true
		cfg.Utf8Heavy = utf8Heavy
	}
	if r.Intn(2) == 0 && !refMode {
		// feature placement: one kind of code-bearing expression occurs ONLY in one kind of context (what the
		// builder emits depends on which features it saw and where: state blocks only inside predicates, ...)
		kinds := []int{pvpeg.KState, pvpeg.KState, pvpeg.KState, pvpeg.KState, pvpeg.KAndCode, pvpeg.KNotCode, pvpeg.KAction, pvpeg.KThrow, pvpeg.KLabeled}
		ctxs := []uint32{1<<pvpeg.KAnd | 1<<pvpeg.KNot, 1 << pvpeg.KAnd, 1 << pvpeg.KNot, 1 << pvpeg.KOpt, 1<<pvpeg.KStar | 1<<pvpeg.KPlus,
			1 << pvpeg.KRecovery, 1 << pvpeg.KAction, 1 << pvpeg.KLabeled, 1 << pvpeg.KChoice}
		k := kinds[r.Intn(len(kinds))]
		cfg.OnlyUnder = map[int]uint32{k: ctxs[r.Intn(len(ctxs))]}
		if k == pvpeg.KState && !cfg.LeftRec {
			cfg.NoState = false
		}
		if k == pvpeg.KThrow {
			cfg.NoThrow = false
		}
	}
	g := pvpeg.Gen(r, cfg)
	if r.Intn(4) == 0 && !cfg.LeftRec && !refMode {
		addSharedCodeLeaf(r, g)
	}
	if r.Intn(3) == 0 && !cfg.LeftRec && !refMode {
		addShadowLeaf(r, g)
	}
	st := pvpeg.Styles[r.Intn(len(pvpeg.Styles))]
	st.Avoid = av
	text := pvpeg.Print(g, r, st)
	seen := map[string]bool{}
	var inputs []string
	add := func(s string) {
		if !seen[s] && (len(inputs) < 8 || refMode && len(inputs) < 10) {
			seen[s] = true
			inputs = append(inputs, s)
		}
	}
	for k := 0; k < 5; k++ {
		add(pvpeg.Sentence(r, g))
	}
	for k := 0; k < 2; k++ {
		s, _ := pvpeg.Mutate(r, pvpeg.Sentence(r, g), 5+r.Intn(4))
		if refMode {
			add(s) // raw: stray bytes included (the parse runs with AllowInvalidUTF8)
			continue
		}
		add(strings.ToValidUTF8(s, "?"))
	}
	if refMode {
		s := pvpeg.Sentence(r, g)
		if len(s) > 0 {
			k := r.Intn(len(s))
			add(s[:k] + string([]byte{[]byte{0xff, 0xc0, 0xe2, 0x80}[r.Intn(4)]}) + s[k:])
		}
	}
	add("")
	if cfg.LeftRec {
		add("<1+2*3>")
		add("<12>")
	}
	return g, text, inputs, cfg
}

func makeGram(seed int64, i int, av pvpeg.Avoid, all bool) *gram {
	g, text, inputs, cfg := build(seed, i, av, "c")
	gm := &gram{idx: i, pkg: cfg.Pkg, ast: g, text: text, inputs: inputs, leftRec: cfg.LeftRec}
	var total int
	gm.kinds, total = pvpeg.CountKinds(g)
	_ = total
	gm.sites = len(pvpeg.CodeSites(g))
	gm.throws = gm.kinds[2] > 0 || gm.kinds[10] > 0 // RecoveryExpr, ThrowExpr
	gm.class = "plain"
	if gm.throws {
		gm.class = "throw/recover"
	}
	if gm.leftRec {
		gm.class += "+left-recursive"
	}
	// flag sets
	r := pvpeg.SubRand(seed, 1, i)
	var sets []flagSet
	subset := func(mask int) flagSet {
		var fs flagSet
		for b, f := range genFlags {
			if mask&(1<<uint(b)) != 0 {
				fs.flags = append(fs.flags, f)
			}
		}
		return fs
	}
	if all {
		for m := 0; m < 32; m++ {
			sets = append(sets, subset(m))
		}
		c := subset(r.Intn(32))
		c.cache = true
		r1, r2 := subset(0), subset(r.Intn(32))
		r1.recv, r2.recv = "cur", "self"
		sets = append(sets, c, r1, r2)
	} else {
		seenMask := map[int]bool{}
		sets0mask := 0
		nsets := 4
		if refMode {
			nsets = 2
		}
		for len(sets) < nsets {
			m := r.Intn(32)
			if len(sets) == 1 {
				// the template guards are keyed on -optimize-parser: every grammar is built both ways
				m = sets0mask ^ 1
			}
			if len(sets) == 0 {
				sets0mask = m
			}
			if seenMask[m] {
				continue
			}
			seenMask[m] = true
			fs := subset(m)
			switch r.Intn(8) {
			case 0:
				fs.cache = true
			case 1:
				fs.recv = []string{"cur", "self", "p"}[r.Intn(3)]
			}
			sets = append(sets, fs)
		}
	}
	// constraints
	seenKey := map[string]bool{}
	for _, fs := range sets {
		if gm.leftRec && !fs.has("-support-left-recursion") {
			fs.flags = append(fs.flags, "-support-left-recursion")
			sort.Strings(fs.flags)
		}
		if gm.throws && !av.OptThrow && fs.has("-optimize-grammar") { // D13
			var kept []string
			for _, f := range fs.flags {
				if f != "-optimize-grammar" {
					kept = append(kept, f)
				}
			}
			fs.flags = kept
		}
		sort.Strings(fs.flags)
		if seenKey[fs.String()] {
			continue
		}
		seenKey[fs.String()] = true
		u := &unit{g: gm, fs: fs, dir: fmt.Sprintf("g%04d_f%02d", i, len(gm.units)), text: text}
		if fs.recv != "" {
			_, u.text, _, _ = build(seed, i, av, fs.recv)
		}
		gm.units = append(gm.units, u)
	}
	return gm
}

var pkgRe = regexp.MustCompile(`g\d{4}_f\d{2}`)

func runBatch(grams []*gram, pigeon string, jobs int, keep bool, rep *pvpeg.Report) ([]failure, error) {
	mod, err := os.MkdirTemp("/tmp", "pvt.e2e.")
	if err != nil {
		return nil, err
	}
	if !keep {
		defer os.RemoveAll(mod)
	}
	if err := os.WriteFile(filepath.Join(mod, "go.mod"), []byte("module e2e\n\ngo 1.25.0\n"), 0o644); err != nil {
		return nil, err
	}
	var fails []failure
	var mu sync.Mutex
	fail := func(u *unit, kind, detail string) {
		mu.Lock()
		defer mu.Unlock()
		fails = append(fails, failure{kind, detail, fmt.Sprintf("pve2e-s%d-%s-%s.peg", rep.Seed, u.dir, kind), u.text, u.fs.args()})
	}
	var units []*unit
	byDir := map[string]*unit{}
	for _, g := range grams {
		for _, u := range g.units {
			units = append(units, u)
			byDir[u.dir] = u
		}
	}
	// 1. generate
	parallel(jobs, len(units), func(k int) {
		u := units[k]
		pdir := filepath.Join(mod, u.dir, u.g.pkg)
		if err := os.MkdirAll(pdir, 0o755); err != nil {
			fail(u, "harness", err.Error())
			return
		}
		peg := filepath.Join(pdir, "grammar.peg")
		os.WriteFile(peg, []byte(u.text), 0o644)
		args := append(u.fs.args(), "-o", filepath.Join(pdir, "parser.go"), peg)
		ctx, cancel := context.WithTimeout(context.Background(), 30*time.Second)
		defer cancel()
		cmd := exec.CommandContext(ctx, pigeon, args...)
		cmd.Env = append(os.Environ(), "PIGEON_VERIF_ASTDUMP=")
		var se bytes.Buffer
		cmd.Stderr = &se
		if err := cmd.Run(); err != nil {
			if u.g.probe && ctx.Err() == nil && !strings.Contains(se.String(), "goroutine ") {
				rep.Count("class_probes", "refused", 1)
			} else {
				fail(u, "generate-failed", fmt.Sprintf("%v: %s", err, se.String()))
			}
			os.RemoveAll(filepath.Join(mod, u.dir))
			return
		}
		if u.g.probe {
			rep.Count("class_probes", "accepted", 1)
		}
		u.gen, _ = os.ReadFile(filepath.Join(pdir, "parser.go"))
		os.WriteFile(filepath.Join(pdir, "support.go"), []byte(pvpeg.SupportFileOpts(u.g.pkg, u.g.inputs, refMode)), 0o644)
		main := fmt.Sprintf("// Code generated by pve2e; DO NOT EDIT.\n\npackage main\n\nimport (\n\t\"os\"\n\n\tp \"e2e/%s/%s\"\n)\n\nfunc main() { p.PvRun(os.Stdout) }\n", u.dir, u.g.pkg)
		os.WriteFile(filepath.Join(mod, u.dir, "main.go"), []byte(main), 0o644)
		u.ok = true
	})
	// 2. the generated methods
	for _, u := range units {
		if !u.ok {
			continue
		}
		if u.fs.cache {
			// -cache is about pigeon's own parse: same parser.go as without
			for _, v := range u.g.units {
				if v != u && v.ok && !v.fs.cache && v.fs.recv == u.fs.recv && strings.Join(v.fs.flags, " ") == strings.Join(u.fs.flags, " ") && !bytes.Equal(v.gen, u.gen) {
					fail(u, "result-mismatch", "parser.go differs from the one generated without -cache")
				}
			}
		}
		if u.fs.has("-optimize-grammar") {
			continue
		}
		if d := checkParams(u); d != "" {
			fail(u, "params-mismatch", d)
		}
	}
	// 3. vet and build, once per batch (a second build after removing the
	// packages that do not compile)
	goRun := func(args ...string) string {
		cmd := exec.Command("go", args...)
		cmd.Dir = mod
		cmd.Env = append(os.Environ(), "GOFLAGS=-mod=mod", "GOPROXY=off", "GOWORK=off")
		b, _ := cmd.CombinedOutput()
		return string(b)
	}
	blame := func(kind, output string) map[string]bool {
		bad := map[string]bool{}
		msgs := map[string][]string{}
		cur := ""
		for _, l := range strings.Split(output, "\n") {
			if strings.HasPrefix(l, "# ") {
				cur = pkgRe.FindString(l)
				continue
			}
			d := pkgRe.FindString(l)
			if d == "" {
				d = cur
			}
			if d != "" && strings.TrimSpace(l) != "" {
				msgs[d] = append(msgs[d], l)
			}
		}
		for d, ls := range msgs {
			if u := byDir[d]; u != nil {
				bad[d] = true
				fail(u, kind, strings.Join(ls, "\n"))
			}
		}
		return bad
	}
	os.MkdirAll(filepath.Join(mod, "bin"), 0o755)
	bout := goRun("build", "-o", "bin/", "./...")
	if strings.TrimSpace(bout) != "" {
		bad := blame("build", bout)
		if len(bad) == 0 {
			return fails, fmt.Errorf("go build failed and nothing to blame:\n%s", bout)
		}
		for d := range bad {
			byDir[d].ok = false
			os.RemoveAll(filepath.Join(mod, d))
		}
		if again := goRun("build", "-o", "bin/", "./..."); strings.TrimSpace(again) != "" {
			return fails, fmt.Errorf("go build failed twice:\n%s", again)
		}
	}
	if vout := goRun("vet", "./..."); strings.TrimSpace(vout) != "" {
		if bad := blame("vet", vout); len(bad) == 0 {
			return fails, fmt.Errorf("go vet failed and nothing to blame:\n%s", vout)
		}
	}
	// 4. run
	parallel(jobs, len(units), func(k int) {
		u := units[k]
		if !u.ok {
			return
		}
		ctx, cancel := context.WithTimeout(context.Background(), 10*time.Second)
		defer cancel()
		cmd := exec.CommandContext(ctx, filepath.Join(mod, "bin", u.dir))
		var so, se bytes.Buffer
		cmd.Stdout, cmd.Stderr = &so, &se
		err := cmd.Run()
		u.output = so.String()
		switch {
		case ctx.Err() != nil:
			fail(u, "run-crash", "no exit within 10 s; output so far:\n"+u.output)
		case err != nil && so.Len() == 0:
			fail(u, "init-panic", fmt.Sprintf("%v: %s", err, se.String()))
		case err != nil:
			fail(u, "run-crash", fmt.Sprintf("%v: %s\noutput so far:\n%s", err, se.String(), u.output))
		default:
			u.ran = true
		}
	})
	// 5. same results under every flag set
	for _, g := range grams {
		var ref *unit
		for _, u := range g.units {
			if u.ran && !u.fs.has("-optimize-grammar") {
				ref = u
				break
			}
		}
		if ref == nil {
			continue
		}
		for _, u := range g.units {
			if !u.ran || u == ref {
				continue
			}
			a, b := dropBudget(ref.output, u.output)
			what := "results differ"
			if u.fs.has("-optimize-grammar") {
				a, b = verdicts(a), verdicts(b)
				what = "success/failure differs"
			}
			if a != b {
				fail(u, "result-mismatch", fmt.Sprintf("%s between [%s] and [%s]\n%s", what, ref.fs, u.fs, diffLines(a, b)))
			}
		}
	}
	// 6. (-ref) the match verdict of every input against the reference interpreter on the AST that was printed
	if refMode {
		for _, g := range grams {
			if len(g.ast.Rules) == 0 {
				continue
			}
			prog := pvref.Compile(g.ast)
			entry := g.ast.Rules[0].Name.Val
			want := make([]int, len(g.inputs)) // 1 match, 0 no match, -1 not decided
			for k, in := range g.inputs {
				res := prog.Run(entry, in, 200000)
				switch {
				case res.Exhausted:
					want[k] = -1
				case res.OK:
					want[k] = 1
				}
			}
			for _, u := range g.units {
				if !u.ran {
					continue
				}
				lines := strings.Split(strings.TrimSpace(u.output), "\n")
				if len(lines) != len(g.inputs) {
					fail(u, "run-crash", fmt.Sprintf("%d result lines for %d inputs:\n%s", len(lines), len(g.inputs), u.output))
					continue
				}
				for k, l := range lines {
					got := -1
					switch {
					case strings.Contains(l, " ok val="):
						got = 1
					case strings.HasSuffix(l, " budget"), strings.Contains(l, "pvErr"):
						// the budget ran out / an action reported an error of its own: the verdict is not visible
					case strings.Contains(l, " fail val="):
						if strings.Contains(l, "no match found") {
							got = 0
						}
					}
					rep.Count("reference_verdicts", map[int]string{-1: "undecided", 0: "no-match", 1: "match"}[want[k]], 1)
					if got < 0 || want[k] < 0 {
						continue
					}
					rep.Count("reference_compared", "inputs", 1)
					if got != want[k] {
						fail(u, "reference-mismatch", fmt.Sprintf("input %q [%s]: the generated parser says %s, the reference interpreter on the grammar's AST says %s\n%s",
							g.inputs[k], u.fs, map[int]string{0: "no match", 1: "match"}[got], map[int]string{0: "no match", 1: "match"}[want[k]], l))
						break
					}
				}
			}
		}
	}
	return fails, nil
}

// dropBudget removes the inputs on which either run hit the expression
// budget (exponential backtracking; the count of expressions is not the same
// under every flag set).
func dropBudget(a, b string) (string, string) {
	la, lb := strings.Split(a, "\n"), strings.Split(b, "\n")
	if len(la) != len(lb) {
		return a, b
	}
	var ka, kb []string
	for i := range la {
		if strings.HasSuffix(la[i], " budget") || strings.HasSuffix(lb[i], " budget") {
			continue
		}
		ka, kb = append(ka, la[i]), append(kb, lb[i])
	}
	return strings.Join(ka, "\n"), strings.Join(kb, "\n")
}

// verdicts reduces a result listing to input and ok/fail.
func verdicts(out string) string {
	var b strings.Builder
	for _, l := range strings.Split(out, "\n") {
		if i := strings.Index(l, " val="); i >= 0 {
			l = l[:i]
		}
		b.WriteString(l + "\n")
	}
	return b.String()
}

func diffLines(a, b string) string {
	la, lb := strings.Split(a, "\n"), strings.Split(b, "\n")
	var out []string
	for i := 0; i < len(la) || i < len(lb); i++ {
		var x, y string
		if i < len(la) {
			x = la[i]
		}
		if i < len(lb) {
			y = lb[i]
		}
		if x != y {
			out = append(out, "- "+x, "+ "+y)
			if len(out) >= 6 {
				break
			}
		}
	}
	return strings.Join(out, "\n")
}

func parallel(jobs, n int, f func(int)) {
	var wg sync.WaitGroup
	next := make(chan int)
	for w := 0; w < jobs; w++ {
		wg.Add(1)
		go func() {
			defer wg.Done()
			for k := range next {
				f(k)
			}
		}()
	}
	for k := 0; k < n; k++ {
		next <- k
	}
	close(next)
	wg.Wait()
}

// checkParams compares the on* methods of parser.go with pvpeg.CodeSites.
func checkParams(u *unit) string {
	f, err := parser.ParseFile(token.NewFileSet(), "parser.go", u.gen, parser.SkipObjectResolution)
	if err != nil {
		return "parser.go does not parse: " + err.Error()
	}
	recv := u.fs.recv
	if recv == "" {
		recv = "c"
	}
	type method struct {
		params []string
		n      int
		recv   string
	}
	got := map[string]*method{}
	for _, d := range f.Decls {
		fd, ok := d.(*ast.FuncDecl)
		if !ok || fd.Recv == nil || len(fd.Recv.List) != 1 || !strings.HasPrefix(fd.Name.Name, "on") {
			continue
		}
		star, ok := fd.Recv.List[0].Type.(*ast.StarExpr)
		if !ok {
			continue
		}
		if id, ok := star.X.(*ast.Ident); !ok || id.Name != "current" {
			continue
		}
		m := got[fd.Name.Name]
		if m == nil {
			m = &method{}
			got[fd.Name.Name] = m
		}
		m.n++
		m.params = nil
		if len(fd.Recv.List[0].Names) == 1 {
			m.recv = fd.Recv.List[0].Names[0].Name
		}
		for _, p := range fd.Type.Params.List {
			for _, nm := range p.Names {
				m.params = append(m.params, nm.Name)
			}
		}
	}
	var diffs []string
	want := map[string]bool{}
	for _, s := range pvpeg.CodeSites(u.g.ast) {
		name := s.FuncName()
		want[name] = true
		m := got[name]
		switch {
		case m == nil:
			diffs = append(diffs, fmt.Sprintf("%s(%s): no such method", name, strings.Join(s.Params, ", ")))
		case m.n != 1:
			diffs = append(diffs, fmt.Sprintf("%s: %d methods", name, m.n))
		case strings.Join(m.params, ",") != strings.Join(s.Params, ","):
			diffs = append(diffs, fmt.Sprintf("%s: parameters (%s), expected (%s)", name, strings.Join(m.params, ", "), strings.Join(s.Params, ", ")))
		case m.recv != recv:
			diffs = append(diffs, fmt.Sprintf("%s: receiver %q, expected %q", name, m.recv, recv))
		}
	}
	for _, name := range pvpeg.SortedKeys(got) {
		if !want[name] {
			diffs = append(diffs, fmt.Sprintf("%s(%s): unexpected method", name, strings.Join(got[name].params, ", ")))
		}
	}
	if len(diffs) > 8 {
		diffs = append(diffs[:8], "...")
	}
	return strings.Join(diffs, "\n")
}

// classProbes: every name that looks like a Unicode class name to SOMEBODY (the aliases of the general categories that
// newer Go versions know, lower-case and abbreviated spellings, script names in other cases) as `A <- [\p{NAME}]+`, with
// and without -optimize-basic-latin. Whether the front-end accepts a name is its business (C03); a name it accepts has
// to resolve when the generated package initialises and when the builder computes the Basic Latin table (C04, C13).
func classProbes(seed int64, av pvpeg.Avoid) []*gram {
	var names []string
	for n := range unicode.CategoryAliases {
		names = append(names, n)
	}
	names = append(names, "letter", "digit", "punct", "space", "Any", "ASCII", "Assigned", "LC", "L&", "latin", "LATIN", "Greek_", "Nd ", "IsLetter", "Alphabetic", "White_Space", "Hex_Digit", "ASCII_Hex_Digit")
	sort.Strings(names)
	var out []*gram
	for k, nm := range names {
		if strings.ContainsAny(nm, "}]\\\n") {
			continue
		}
		r := pvpeg.SubRand(seed, 7, k)
		pkg := fmt.Sprintf("pp%03d", k)
		g := past.NewGrammar(past.Pos{})
		g.Init = past.NewCodeBlock(past.Pos{}, "{\npackage "+pkg+"\n}")
		rule := past.NewRule(past.Pos{}, past.NewIdentifier(past.Pos{}, "A"))
		p := past.NewOneOrMoreExpr(past.Pos{})
		p.Expr = pvpeg.BuildClass(r, []pvpeg.ClassItem{{Class: nm}}, false, false, av)
		rule.Expr = p
		g.Rules = append(g.Rules, rule)
		st := pvpeg.Styles[0]
		st.Avoid = av
		text := pvpeg.Print(g, r, st)
		gm := &gram{idx: 9000 + k, pkg: pkg, ast: g, text: text, inputs: []string{"a", "1", " ", ""}, class: "class-probe", probe: true}
		gm.kinds, _ = pvpeg.CountKinds(g)
		for j, fs := range []flagSet{{}, {flags: []string{"-optimize-basic-latin"}}} {
			gm.units = append(gm.units, &unit{g: gm, fs: fs, dir: fmt.Sprintf("g%04d_f%02d", 9000+k, j), text: text})
		}
		out = append(out, gm)
	}
	return out
}
