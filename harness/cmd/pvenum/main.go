// pvenum: BOUNDED-EXHAUSTIVE cases for the H1 correspondence stream. Random generation misses shapes (every seeded change that
// was missed was missed for that reason); this tool leaves nothing out below a size bound:
//
//	every expression tree with at most -size nodes over
//	    terminals   "a"  "b"  "ab"  ""  .  [a]  [^a]  "A"i  and a reference to the second rule
//	    unary       e*  e+  e?  &e  !e  x:e  e{action reading text and x}
//	    binary      e1 e2     e1 / e2
//	(no repetition over a nullable body: those do not terminate by definition)
//	as the body of the start rule S, with a second rule R <- "a" / "b" R;
//	on EVERY input over {a, b} of length 0..-len  (plus, for the shortest ones, one with a stray byte),
//	under option sets rotated by case number: plain, Memoize, a budget, and the 16 template variants.
//
// The i-th case is a pure function of i: -offset / -stride select a slice, so that the quick tier walks a different
// residue class for every seed and the thorough tier (stride 1) walks everything.
package main

import (
	"bufio"
	"flag"
	"fmt"
	"os"
	"strconv"
	"strings"

	"github.com/mna/pigeon/builder"
	"pvharness/pvcase"
)

type tree struct {
	kind string // leaf:<n>, star, plus, opt, and, not, lab, act, seq, ch
	kids []*tree
	leaf int
	null bool // may match the empty string
}

const nLeaves = 9

func leafNullable(i int) bool { return i == 3 }

func trees(size int, memo map[int][]*tree) []*tree {
	if t, ok := memo[size]; ok {
		return t
	}
	var out []*tree
	if size == 1 {
		for i := 0; i < nLeaves; i++ {
			out = append(out, &tree{kind: "leaf", leaf: i, null: leafNullable(i)})
		}
		memo[size] = out
		return out
	}
	for _, k := range trees(size-1, memo) {
		for _, u := range []string{"star", "plus", "opt", "and", "not", "lab", "act"} {
			if (u == "star" || u == "plus") && k.null {
				continue
			}
			null := k.null
			switch u {
			case "star", "opt", "and", "not":
				null = true
			}
			out = append(out, &tree{kind: u, kids: []*tree{k}, null: null})
		}
	}
	for i := 1; i <= size-2; i++ {
		for _, a := range trees(i, memo) {
			for _, b := range trees(size-1-i, memo) {
				out = append(out, &tree{kind: "seq", kids: []*tree{a, b}, null: a.null && b.null})
				out = append(out, &tree{kind: "ch", kids: []*tree{a, b}, null: a.null || b.null})
			}
		}
	}
	memo[size] = out
	return out
}

type builderState struct {
	id     int
	blocks []*pvcase.Block
	bl     bool
}

func lit(s string, ic bool) *pvcase.Expr {
	e := &pvcase.Expr{Kind: pvcase.KLit, IgnoreCase: ic, Want: strconv.Quote(s)}
	for _, r := range s {
		if ic && r >= 'A' && r <= 'Z' {
			r += 32
		}
		e.Runes = append(e.Runes, r)
	}
	if ic {
		e.Want += "i"
	}
	return e
}

func (b *builderState) cls(inv bool) *pvcase.Expr {
	e := &pvcase.Expr{Kind: pvcase.KCls, Inverted: inv, Chars: []rune{'a'}, Val: "[a]"}
	if inv {
		e.Val = "[^a]"
	}
	if b.bl {
		t := builder.BasicLatinLookup([]rune{'a'}, nil, nil, false)
		s := make([]byte, 128)
		for i, v := range t {
			s[i] = '0'
			if v {
				s[i] = '1'
			}
		}
		e.BL = string(s)
	}
	return e
}

func (b *builderState) expr(t *tree) *pvcase.Expr {
	var e *pvcase.Expr
	switch t.kind {
	case "leaf":
		switch t.leaf {
		case 0:
			e = lit("a", false)
		case 1:
			e = lit("b", false)
		case 2:
			e = lit("ab", false)
		case 3:
			e = lit("", false)
		case 4:
			e = &pvcase.Expr{Kind: pvcase.KAny}
		case 5:
			e = b.cls(false)
		case 6:
			e = b.cls(true)
		case 7:
			e = lit("A", true)
		default:
			e = &pvcase.Expr{Kind: pvcase.KRef, Name: "R"}
		}
	case "star":
		e = &pvcase.Expr{Kind: pvcase.KStar, Kids: []*pvcase.Expr{b.expr(t.kids[0])}}
	case "plus":
		e = &pvcase.Expr{Kind: pvcase.KPlus, Kids: []*pvcase.Expr{b.expr(t.kids[0])}}
	case "opt":
		e = &pvcase.Expr{Kind: pvcase.KOpt, Kids: []*pvcase.Expr{b.expr(t.kids[0])}}
	case "and":
		e = &pvcase.Expr{Kind: pvcase.KAnd, Kids: []*pvcase.Expr{b.expr(t.kids[0])}}
	case "not":
		e = &pvcase.Expr{Kind: pvcase.KNot, Kids: []*pvcase.Expr{b.expr(t.kids[0])}}
	case "lab":
		e = &pvcase.Expr{Kind: pvcase.KLab, Label: "x", Kids: []*pvcase.Expr{b.expr(t.kids[0])}}
	case "act":
		blk := &pvcase.Block{ID: len(b.blocks), Kind: 'a', Args: []string{"x"},
			RetV: &pvcase.VExpr{Op: "tup", Kids: []*pvcase.VExpr{{Op: "text"}, {Op: "pos"}, {Op: "arg", I: 0}}}}
		b.blocks = append(b.blocks, blk)
		e = &pvcase.Expr{Kind: pvcase.KAct, Blk: blk.ID, Kids: []*pvcase.Expr{b.expr(t.kids[0])}}
	case "seq":
		e = &pvcase.Expr{Kind: pvcase.KSeq, Kids: []*pvcase.Expr{b.expr(t.kids[0]), b.expr(t.kids[1])}}
	case "ch":
		e = &pvcase.Expr{Kind: pvcase.KCh, Line: 1, Col: 1, Kids: []*pvcase.Expr{b.expr(t.kids[0]), b.expr(t.kids[1])}}
	}
	b.id++
	e.ID = b.id
	return e
}

func inputs(maxLen int) [][]byte {
	out := [][]byte{{}}
	frontier := [][]byte{{}}
	for l := 1; l <= maxLen; l++ {
		var next [][]byte
		for _, p := range frontier {
			for _, c := range []byte("ab") {
				q := append(append([]byte{}, p...), c)
				next = append(next, q)
			}
		}
		out = append(out, next...)
		frontier = next
	}
	// a stray byte and an upper-case letter in a few positions
	out = append(out, []byte("A"), []byte("aA"), []byte("\xff"), []byte("a\xffb"), []byte("ab\xc3"))
	return out
}

func main() {
	size := flag.Int("size", 4, "maximal number of nodes of the start rule's body")
	maxLen := flag.Int("len", 3, "maximal input length over {a,b}")
	offset := flag.Uint64("offset", 0, "first case of the enumeration to print")
	stride := flag.Uint64("stride", 1, "print every stride-th case")
	n := flag.Int("n", 0, "stop after this many printed cases (0 = no limit)")
	id0 := flag.Uint64("id0", 1, "id of the first printed case")
	variants := flag.String("variants", "", "comma-separated variants to rotate over (default: all 16)")
	count := flag.Bool("count", false, "print the size of the enumeration and exit")
	flag.Parse()

	var vs []pvcase.Flags
	if *variants == "" {
		vs = pvcase.AllVariants()
	} else {
		for _, s := range strings.Split(*variants, ",") {
			f, err := pvcase.ParseVariant(s)
			if err != nil {
				fmt.Fprintln(os.Stderr, "pvenum:", err)
				os.Exit(2)
			}
			vs = append(vs, f)
		}
	}
	memo := map[int][]*tree{}
	var all []*tree
	for s := 1; s <= *size; s++ {
		all = append(all, trees(s, memo)...)
	}
	ins := inputs(*maxLen)
	total := uint64(len(all)) * uint64(len(ins))
	if *count {
		fmt.Println(len(all), "trees x", len(ins), "inputs =", total, "cases")
		return
	}
	w := bufio.NewWriterSize(os.Stdout, 1<<20)
	defer w.Flush()
	fmt.Fprintln(w, pvcase.UnicodeHeader())
	printed := 0
	id := *id0
	if *stride == 0 {
		*stride = 1
	}
	for k := *offset % *stride; k < total; k += *stride {
		ti, ii := k/uint64(len(ins)), k%uint64(len(ins))
		fl := vs[int(k/7)%len(vs)]
		b := &builderState{bl: fl.BasicLatin}
		body := b.expr(all[ti])
		rbody := &pvcase.Expr{Kind: pvcase.KCh, Line: 2, Col: 1, Kids: []*pvcase.Expr{lit("a", false),
			{Kind: pvcase.KSeq, Kids: []*pvcase.Expr{lit("b", false), {Kind: pvcase.KRef, Name: "R"}}}}}
		// ids of the second rule
		var number func(e *pvcase.Expr)
		number = func(e *pvcase.Expr) {
			for _, c := range e.Kids {
				number(c)
			}
			b.id++
			e.ID = b.id
		}
		number(rbody)
		c := &pvcase.Case{ID: id, Flags: fl, Opts: pvcase.DefaultOpts(), Fuel: 64,
			Grammar: pvcase.Grammar{Rules: []*pvcase.Rule{{Name: "S", Expr: body}, {Name: "R", Expr: rbody}}},
			Blocks:  b.blocks, Input: ins[ii]}
		switch k % 5 {
		case 1:
			if !fl.Optimize {
				c.Opts.Memoize = true
			}
		case 2:
			c.Opts.MaxExpr = 1 + k%9
		case 3:
			c.Opts.AllowInvalid = true
		}
		fmt.Fprintln(w, c.String())
		id++
		printed++
		if *n > 0 && printed >= *n {
			break
		}
	}
}
