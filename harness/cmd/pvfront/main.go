// Command pvfront checks the pigeon front-end against the documented syntax:
// "accepts the documented syntax and builds the denoted AST".
//
// For n random grammars (built as ast values by pvpeg.Gen) and k random
// layouts of each (pvpeg.PrintPos: rule operators, terminators, blanks,
// newlines, comments, literal quotings and escapes, minimal or redundant
// parentheses) the text is sent to the AST dump server (a pigeon binary built
// with -tags verif, one long-lived child per worker) and the answer is
// compared with the dump of the grammar that was printed, positions included.
// One layout per grammar is then re-printed from the AST that came back and
// parsed again: same AST, same positions.
//
// Failure kinds: rejected (valid text not accepted), ast-mismatch,
// pos-mismatch (same AST, different positions), reprint-mismatch, panic.
//
// One JSON object on stdout; exit status 0 unless the tool cannot run.
package main

import (
	"flag"
	"fmt"
	"os"
	"strings"
	"sync"

	"pvharness/pvpeg"
)

type outcome struct {
	kind, detail, name, input string
}

type item struct {
	texts    []string // every text sent, in order
	trivial  []bool
	layouts  []string
	kinds    [18]int
	rules    int
	class    string
	fails    []outcome
	restarts int
}

func main() {
	seed := flag.Int64("seed", 1, "random seed (all randomness derives from it)")
	n := flag.Int("n", 1000, "number of grammars")
	k := flag.Int("k", 3, "layouts per grammar")
	pigeon := flag.String("pigeon", "/verif/build/bin/pigeon", "pigeon binary built with -tags verif")
	includeKnown := flag.Bool("include-known", false, "lift the known-defect avoidance")
	lift := flag.String("lift", "", "lift single avoidances: comma-separated list of "+strings.Join(pvpeg.AvoidNames(), ","))
	out := flag.String("out", "/tmp/pvt.pvfront.out", "directory for failing inputs")
	jobs := flag.Int("j", 16, "parallel workers (one server process each)")
	flag.Parse()
	if flag.NArg() > 0 || *n < 0 || *k < 1 || *jobs < 1 {
		fmt.Fprintln(os.Stderr, "usage: pvfront [-seed S] [-n N] [-k K] [-pigeon BIN] [-include-known] [-out DIR] [-j J]")
		os.Exit(2)
	}
	av, err := pvpeg.ParseAvoid(*includeKnown, *lift)
	if err != nil {
		fmt.Fprintln(os.Stderr, "pvfront:", err)
		os.Exit(2)
	}
	rep := pvpeg.NewReport("pvfront", *seed, *out)
	items := make([]*item, *n)
	var wg sync.WaitGroup
	next := make(chan int)
	errs := make(chan error, *jobs)
	for w := 0; w < *jobs; w++ {
		wg.Add(1)
		go func() {
			defer wg.Done()
			srv, err := pvpeg.StartServer(*pigeon)
			if err != nil {
				errs <- err
				for range next {
				}
				return
			}
			defer srv.Close()
			for i := range next {
				items[i] = evaluate(srv, *seed, i, *k, av)
			}
		}()
	}
	for i := 0; i < *n; i++ {
		next <- i
	}
	close(next)
	wg.Wait()
	select {
	case err := <-errs:
		fmt.Fprintln(os.Stderr, "pvfront:", err)
		os.Exit(2)
	default:
	}
	for i, it := range items {
		if it == nil {
			continue
		}
		for j, t := range it.texts {
			rep.Seen(t, !it.trivial[j])
			rep.Count("text_bytes", pvpeg.SizeBucket(len(t)), 1)
		}
		for _, l := range it.layouts {
			rep.Count("layouts", l, 1)
		}
		rep.KindHistogram("node_kinds", it.kinds[:])
		rep.Count("rules_per_grammar", fmt.Sprint(it.rules), 1)
		rep.Count("grammar_class", it.class, 1)
		if it.restarts > 0 {
			rep.Count("server", "restarts", it.restarts)
		}
		for _, f := range it.fails {
			rep.Fail(f.kind, f.detail, f.name, f.input, nil)
		}
		if i < 3 && len(it.texts) > 0 {
			rep.Sample(it.texts[0])
		}
	}
	rep.Print(os.Stdout)
}

func pickStyle(r interface{ Intn(int) int }, av pvpeg.Avoid) pvpeg.Style {
	// cheap layouts more often: the front-end needs ~15 us per byte and
	// twice the time for every level of parentheses
	weights := []int{4, 4, 2, 2, 1, 2}
	tot := 0
	for _, w := range weights {
		tot += w
	}
	x := r.Intn(tot)
	for i, w := range weights {
		if x < w {
			st := pvpeg.Styles[i]
			st.Avoid = av
			return st
		}
		x -= w
	}
	return pvpeg.Styles[0]
}

func evaluate(srv *pvpeg.Server, seed int64, i, k int, av pvpeg.Avoid) *item {
	r := pvpeg.SubRand(seed, 0, i)
	cfg := pvpeg.Cfg{Avoid: av}
	it := &item{}
	switch x := r.Intn(10); {
	case x < 1:
		cfg.WellFormed, cfg.Compilable = true, true
		it.class = "wellformed+compilable"
	case x < 4:
		cfg.WellFormed = true
		it.class = "wellformed"
	case x < 5:
		cfg.UniqueLabels, cfg.NoThrow = true, true
		it.class = "uniquelabels+nothrow"
	default:
		it.class = "any"
	}
	g := pvpeg.Gen(r, cfg)
	it.rules = len(g.Rules)
	var total int
	it.kinds, total = pvpeg.CountKinds(g)
	trivial := total < 3
	fail := func(kind, detail, layout, text string) {
		it.fails = append(it.fails, outcome{kind, detail, fmt.Sprintf("pvfront-s%d-i%d-%s-%s.peg", seed, i, layout, kind), text})
	}
	// check sends one printed grammar and compares; it returns the AST that
	// came back (nil if there is none to go on with)
	check := func(pr pvpeg.Printed, reprint bool) string {
		it.texts = append(it.texts, pr.Text)
		it.trivial = append(it.trivial, trivial)
		it.layouts = append(it.layouts, pr.Style)
		a := srv.Parse([]byte(pr.Text))
		mis := "ast-mismatch"
		if reprint {
			mis = "reprint-mismatch"
		}
		switch a.Kind {
		case "ok":
		case "err":
			kind := "rejected"
			if reprint {
				kind = mis
			}
			fail(kind, a.Msg, pr.Style, pr.Text)
			return ""
		default:
			fail("panic", a.Kind+": "+a.Msg, pr.Style, pr.Text)
			return ""
		}
		want := pvpeg.Dump(pr.AST, true)
		if a.Dump == want {
			return a.Dump
		}
		got, err := pvpeg.ParseDump(a.Dump)
		if err != nil {
			fail(mis, "unreadable dump: "+err.Error(), pr.Style, pr.Text)
			return ""
		}
		if g0, w0 := pvpeg.Dump(got, false), pvpeg.Dump(pr.AST, false); g0 != w0 {
			fail(mis, "got  "+g0+"\nwant "+w0, pr.Style, pr.Text)
			return ""
		}
		kind := "pos-mismatch"
		if reprint {
			kind = mis
		}
		fail(kind, firstDiff(a.Dump, want), pr.Style, pr.Text)
		return a.Dump
	}
	again := r.Intn(k)
	for j := 0; j < k; j++ {
		pr := pvpeg.PrintPos(g, r, pickStyle(r, av))
		dump := check(pr, false)
		if j != again || dump == "" {
			continue
		}
		back, err := pvpeg.ParseDump(dump)
		if err != nil {
			fail("reprint-mismatch", "unreadable dump: "+err.Error(), pr.Style, pr.Text)
			continue
		}
		check(pvpeg.PrintPos(back, r, pickStyle(r, av)), true)
	}
	it.restarts = srv.Restarts
	srv.Restarts = 0
	return it
}

// firstDiff shows the surroundings of the first difference of two dumps.
func firstDiff(got, want string) string {
	i := 0
	for i < len(got) && i < len(want) && got[i] == want[i] {
		i++
	}
	lo := i - 80
	if lo < 0 {
		lo = 0
	}
	cut := func(s string) string {
		hi := i + 80
		if hi > len(s) {
			hi = len(s)
		}
		if lo > len(s) {
			return ""
		}
		return s[lo:hi]
	}
	return fmt.Sprintf("first difference at dump offset %d\n got  ...%s\n want ...%s", i, cut(got), cut(want))
}
