package main

import (
	"pvharness/pvcase"
)

var (
	stateKeys  = []string{"n", "c", "k"}
	globalKeys = []string{"g", "h", "m"}
	errMsgs    = []string{"e1", "e2", "boom", ""}
)

// assignBlocks walks the grammar the way builder.writeExprCode does,
// maintaining its argsStack, gives every code node its block and fills the
// block with effects / return expression / faults.
func (cg *caseGen) assignBlocks() {
	cg.blocks = nil
	var stack [][]string
	push := func() { stack = append(stack, nil) }
	pop := func() { stack = stack[:len(stack)-1] }
	var walk func(e *pvcase.Expr)
	code := func(e *pvcase.Expr, kind byte) {
		args := append([]string(nil), stack[len(stack)-1]...)
		b := cg.newBlock(kind, args)
		e.Blk = b.ID
	}
	walk = func(e *pvcase.Expr) {
		switch e.Kind {
		case pvcase.KAct:
			walk(e.Kids[0])
			code(e, 'a')
		case pvcase.KAndc, pvcase.KNotc:
			code(e, 'p')
		case pvcase.KStc:
			code(e, 's')
		case pvcase.KLab:
			if e.Label != "" {
				stack[len(stack)-1] = append(stack[len(stack)-1], e.Label)
			}
			push()
			walk(e.Kids[0])
			pop()
		case pvcase.KAnd, pvcase.KNot, pvcase.KPlus, pvcase.KStar, pvcase.KOpt:
			push()
			walk(e.Kids[0])
			pop()
		case pvcase.KCh:
			for _, k := range e.Kids {
				push()
				walk(k)
				pop()
			}
		case pvcase.KRec:
			push()
			walk(e.Kids[0])
			walk(e.Kids[1])
			pop()
		case pvcase.KSeq:
			for _, k := range e.Kids {
				walk(k)
			}
		}
	}
	for _, r := range cg.rules {
		push()
		walk(r.Expr)
		pop()
	}
	if cg.f.panics && len(cg.blocks) > 0 {
		// at least one block panics
		n := 0
		for _, b := range cg.blocks {
			if b.Panic != nil {
				n++
			}
		}
		if n == 0 {
			cg.blocks[cg.r.IntN(len(cg.blocks))].Panic = cg.panicFault()
		}
	}
}

func (cg *caseGen) newBlock(kind byte, builderArgs []string) *pvcase.Block {
	b := &pvcase.Block{ID: len(cg.blocks) + 1, Kind: kind}
	// the builder would emit each name once per declaration; a duplicate
	// label in one scope does not compile, keep the first
	seen := map[string]bool{}
	for _, a := range builderArgs {
		if !seen[a] {
			seen[a] = true
			b.Args = append(b.Args, a)
		}
	}
	if cg.chance(cg.f.oddArgs) {
		switch cg.r.IntN(5) {
		case 0:
			b.Args = append(b.Args, "q") // bound nowhere
		case 1:
			b.Args = append([]string{pickStr(cg.r, valueLabels)}, b.Args...)
		case 2:
			if len(b.Args) > 0 {
				b.Args = b.Args[:len(b.Args)-1]
			} else {
				b.Args = []string{"x", "y"}
			}
		case 3:
			cg.r.Shuffle(len(b.Args), func(i, j int) { b.Args[i], b.Args[j] = b.Args[j], b.Args[i] })
			b.Args = append(b.Args, pickStr(cg.r, valueLabels))
		default:
			b.Args = []string{"q", "x"}
		}
	}
	cg.fillBlock(b)
	cg.blocks = append(cg.blocks, b)
	return b
}

func (cg *caseGen) constVal(depth int) pvcase.Val {
	switch x := cg.r.IntN(12); {
	case x < 2:
		return pvcase.NilVal()
	case x < 5:
		return pvcase.IntVal(int64(cg.r.IntN(7) - 2))
	case x < 6:
		return pvcase.StrVal(pickStr(cg.r, []string{"", "v", "é"}))
	case x < 8:
		return pvcase.BytesVal([]byte(string(cg.pick(cg.alpha))))
	case x < 9:
		return pvcase.BoolVal(cg.chance(0.5))
	case x < 10 && depth < 2:
		n := cg.r.IntN(3)
		vs := make([]pvcase.Val, n)
		for i := range vs {
			vs[i] = cg.constVal(depth + 1)
		}
		return pvcase.ListVal(vs...)
	default:
		n := cg.r.IntN(3)
		ns := make([]int64, n)
		for i := range ns {
			ns[i] = int64(cg.r.IntN(5))
		}
		return pvcase.ClVal(ns...)
	}
}

// vctx restricts value expressions so that values cannot grow
// exponentially: every argument is used at most once per expression (a
// `tup(arg 0, arg 0)` in a recursive rule doubles the value at every level),
// and values written to a store never contain arguments or store reads
// (`gset g tup(gget g, gget g)` doubles at every invocation).
type vctx struct {
	nargs    int
	used     map[int]bool
	forStore bool
}

func (cg *caseGen) vexpr(vc *vctx, depth int) *pvcase.VExpr {
	nargs := vc.nargs
	var free []int
	for i := 0; i < nargs; i++ {
		if !vc.used[i] {
			free = append(free, i)
		}
	}
	ws := []wk{{"text", 22}, {"pos", 7}, {"const", 9}, {"calli", 4}}
	if !vc.forStore {
		if len(free) > 0 {
			ws = append(ws, wk{"arg", 22})
		} else if nargs == 0 {
			ws = append(ws, wk{"arg", 1}) // out of range: nil
		}
	}
	if depth < 2 {
		ws = append(ws, wk{"tup", 20})
	}
	if !vc.forStore || depth == 0 {
		if cg.f.stateEff {
			ws = append(ws, wk{"sget", 10})
		}
		if cg.f.globEff {
			ws = append(ws, wk{"gget", 6})
		}
	}
	v := &pvcase.VExpr{Op: cg.choose(ws)}
	switch v.Op {
	case "arg":
		if len(free) > 0 && !cg.chance(0.03) {
			v.I = free[cg.r.IntN(len(free))]
			vc.used[v.I] = true
		} else {
			v.I = nargs + cg.r.IntN(2)
		}
	case "sget":
		v.Key = pickStr(cg.r, stateKeys)
	case "gget":
		v.Key = pickStr(cg.r, globalKeys)
	case "const":
		v.Val = cg.constVal(0)
	case "tup":
		n := 1 + cg.r.IntN(3)
		if cg.chance(0.05) {
			n = 0
		}
		if !vc.forStore && len(free) == nargs && nargs > 0 && cg.chance(0.5) {
			// the classical "tuple of all labels"
			for i := 0; i < nargs; i++ {
				v.Kids = append(v.Kids, &pvcase.VExpr{Op: "arg", I: i})
				vc.used[i] = true
			}
			if cg.chance(0.3) {
				v.Kids = append(v.Kids, &pvcase.VExpr{Op: "text"})
			}
		} else {
			for i := 0; i < n; i++ {
				v.Kids = append(v.Kids, cg.vexpr(vc, depth+1))
			}
		}
	}
	return v
}

func (cg *caseGen) bexpr(nargs int, depth int) *pvcase.BExpr {
	// posge / tlen: the predicate looks at c.pos / c.text — for a predicate block that is the pos / text of the most
	// recently executed action (finding D2), so anything that changes WHICH actions run (a memo hit) shows here
	ws := []wk{{"t", 30}, {"f", 8}, {"even", 12}, {"posge", 9}, {"tlen", 5}}
	if nargs > 0 {
		ws = append(ws, wk{"argnil", 8}, wk{"argeq", 12})
	} else {
		ws = append(ws, wk{"argnil", 1}, wk{"argeq", 1})
	}
	if cg.f.stateEff {
		ws = append(ws, wk{"sge", 12})
	}
	if cg.f.globEff {
		ws = append(ws, wk{"gge", 8})
	}
	if depth < 2 {
		ws = append(ws, wk{"bnot", 10})
	}
	b := &pvcase.BExpr{Op: cg.choose(ws)}
	switch b.Op {
	case "argnil", "argeq":
		if nargs > 0 {
			b.I = cg.r.IntN(nargs)
		} else {
			b.I = cg.r.IntN(2)
		}
		if b.Op == "argeq" {
			b.H = []byte(string(cg.pick(cg.alpha)))
			if cg.chance(0.2) {
				b.H = append(b.H, []byte(string(cg.pick(cg.alpha)))...)
			}
		}
	case "posge":
		b.N = int64(cg.r.IntN(5))
	case "tlen":
		b.N = int64(cg.r.IntN(3))
	case "sge":
		b.Key = pickStr(cg.r, stateKeys)
		b.N = int64(cg.r.IntN(4))
	case "gge":
		b.Key = pickStr(cg.r, globalKeys)
		b.N = int64(cg.r.IntN(4))
	case "bnot":
		b.Kid = cg.bexpr(nargs, depth+1)
	}
	return b
}

func (cg *caseGen) effect(global bool, nargs int) pvcase.Effect {
	pre, keys := "s", stateKeys
	if global {
		pre, keys = "g", globalKeys
	}
	ws := []wk{{"inc", 10}, {"set", 8}, {"del", 3}}
	if cg.f.cloner {
		ws = append(ws, wk{"mut", 10})
	} else {
		ws = append(ws, wk{"mut", 1})
	}
	e := pvcase.Effect{}
	switch cg.choose(ws) {
	case "inc":
		e.Op = pre + "inc"
		e.Key = keys[0]
		if cg.chance(0.25) {
			e.Key = pickStr(cg.r, keys)
		}
	case "del":
		// delete(c.state, k): a rollback has to bring the key back
		e.Op = pre + "del"
		e.Key = pickStr(cg.r, keys)
	case "set":
		e.Op = pre + "set"
		e.Key = pickStr(cg.r, keys)
		e.V = cg.vexpr(&vctx{nargs: nargs, used: map[int]bool{}, forStore: true}, 0)
		if cg.f.cloner && e.Key == keys[1] && cg.chance(0.2) {
			// the key the in-place mutations go to gets a (fresh) Cloner value
			e.V = &pvcase.VExpr{Op: "const", Val: pvcase.ClVal(int64(cg.r.IntN(5)))}
		}
	default:
		e.Op = pre + "mut"
		e.Key = keys[1]
		if cg.chance(0.15) {
			e.Key = pickStr(cg.r, keys)
		}
		e.N = int64(cg.r.IntN(9))
	}
	return e
}

func (cg *caseGen) when(f *pvcase.Fault) {
	if cg.chance(0.5) {
		f.Always = true
	} else if cg.chance(0.7) {
		f.At = uint64(cg.r.IntN(3))
	} else {
		f.At = uint64(cg.r.IntN(8))
	}
}

func (cg *caseGen) panicFault() *pvcase.Fault {
	f := &pvcase.Fault{}
	switch cg.r.IntN(3) {
	case 0:
		f.Kind, f.Msg = 'e', pickStr(cg.r, []string{"pe", "boom", "e1"})
	case 1:
		f.Kind, f.Msg = 's', pickStr(cg.r, []string{"ps", "boom", ""})
	default:
		f.Kind, f.Int = 'i', int64(cg.r.IntN(100)-10)
	}
	cg.when(f)
	return f
}

func (cg *caseGen) fillBlock(b *pvcase.Block) {
	nargs := len(b.Args)
	// effects
	neff := 0
	switch b.Kind {
	case 's':
		neff = 1 + cg.r.IntN(2)
		if cg.chance(0.1) {
			neff = 0
		}
	default:
		if (cg.f.stateEff || cg.f.globEff) && cg.chance(0.35) {
			neff = 1 + cg.r.IntN(2)
		}
	}
	for i := 0; i < neff; i++ {
		global := false
		switch {
		case cg.f.stateEff && cg.f.globEff:
			global = cg.chance(0.3)
		case cg.f.globEff:
			global = true
		case cg.f.stateEff:
			global = false
		default:
			global = cg.chance(0.5)
		}
		b.Effects = append(b.Effects, cg.effect(global, nargs))
	}
	switch b.Kind {
	case 'a':
		b.RetV = cg.vexpr(&vctx{nargs: nargs, used: map[int]bool{}}, 0)
		if nargs > 0 && cg.chance(cg.f.tupBias) {
			// left-nested value building: the tuple of all labels
			t := &pvcase.VExpr{Op: "tup"}
			for i := 0; i < nargs; i++ {
				t.Kids = append(t.Kids, &pvcase.VExpr{Op: "arg", I: i})
			}
			if cg.chance(0.2) {
				t.Kids = append(t.Kids, &pvcase.VExpr{Op: "text"})
			}
			b.RetV = t
		}
	case 'p':
		b.RetB = cg.bexpr(nargs, 0)
	}
	if cg.chance(cg.f.errP) {
		b.Err = &pvcase.Fault{Kind: 'e', Msg: pickStr(cg.r, errMsgs)}
		cg.when(b.Err)
	}
	if cg.f.panics && cg.chance(0.2) {
		b.Panic = cg.panicFault()
	}
}
