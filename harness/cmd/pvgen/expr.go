package main

import (
	"math/rand/v2"

	"pvharness/pvcase"
	"pvharness/pvterm"
)

// feat is the feature set of one case (derived from its profile and variant).
type feat struct {
	act, lab, pred bool // actions, labels, andc/notc
	stc            bool // state code blocks as grammar nodes
	thr            bool // throw / recover
	stateEff       bool // blocks read/write c.state
	globEff        bool // blocks read/write c.globalStore
	cloner         bool // Cloner values in the stores
	errP           float64
	panics         bool
	oddArgs        float64
	displayP       float64
	undefRefP      float64
	anyBoost       bool // utf8: more `any`, inverted classes, U+FFFD
	stateShapes    bool
	memoShapes     bool
	stcW           int
	wild           bool    // budgeted "anything goes": no constructive restrictions
	tupBias        float64 // probability that an action returns the tuple of its arguments
}

// caseGen builds one case.
type caseGen struct {
	r     *rand.Rand
	st    *Stats
	flags pvcase.Flags
	f     feat
	alpha []rune

	names    []string
	rules    []*pvcase.Rule
	ruleNull []bool // conservative nullability of the rules generated so far
	cur      int    // index of the rule being generated
	refd     []bool
	chCount  int
	blocks   []*pvcase.Block
	inputSrc string
	// dupActs: the two actions of the dupErrShape (they get the same error message)
	dupActs []*pvcase.Expr
}

type ectx struct {
	depth   int  // remaining depth budget
	guarded bool // a non-nullable expression precedes at this rule entry position
	recs    []string
	// inRecover: we are inside a recovery expression; while unguarded,
	// nothing that could re-enter the handler (rule reference, throw) may
	// be generated
	inRecover bool
}

func (cx ectx) noCall() bool { return cx.inRecover && !cx.guarded }

var (
	valueLabels = []string{"x", "y", "z", "v"}
	throwLabels = []string{"L1", "L2", "L3"}
)

func (cg *caseGen) chance(p float64) bool { return cg.r.Float64() < p }

func (cg *caseGen) pick(rs []rune) rune { return rs[cg.r.IntN(len(rs))] }

func pickStr(r *rand.Rand, ss []string) string { return ss[r.IntN(len(ss))] }

type wk struct {
	k string
	w int
}

func (cg *caseGen) choose(ws []wk) string {
	tot := 0
	for _, w := range ws {
		tot += w.w
	}
	n := cg.r.IntN(tot)
	for _, w := range ws {
		if n < w.w {
			return w.k
		}
		n -= w.w
	}
	panic("unreachable")
}

// ---------------------------------------------------------------- leaves

// layoutLits: longer ASCII literals with several line ends inside (a literal is matched rune by rune; a reader that
// advances over it in one step has to get line AND column right: round 18, C02)
var layoutLits = []string{"\n\n", "\r\n\r\n", "\n\n\n", "a\nb\nc", "x\n\ny", " \n \n ", "ab\ncd\n", "\n;\n;", "begin\n\nend", "a\r\nb\r\nc\r\n"}

func (cg *caseGen) lit() *pvcase.Expr {
	if cg.chance(0.04) {
		return mkLit([]rune(pickStr(cg.r, layoutLits)), cg.chance(0.15))
	}
	var n int
	switch x := cg.r.IntN(100); {
	case x < 3:
		n = 0
	case x < 55:
		n = 1
	case x < 87:
		n = 2
	default:
		n = 3
	}
	rs := make([]rune, n)
	for i := range rs {
		rs[i] = cg.pick(cg.alpha)
	}
	return mkLit(rs, cg.chance(0.2))
}

// nonEmptyLit returns a literal of 1-2 runes.
func (cg *caseGen) nonEmptyLit() *pvcase.Expr {
	rs := []rune{cg.pick(cg.alpha)}
	if cg.chance(0.25) {
		rs = append(rs, cg.pick(cg.alpha))
	}
	for i := 0; rs[0] == 0xFFFD && i < len(cg.alpha); i++ {
		// a literal of U+FFFD only matches at EOF without consuming
		rs[0] = cg.alpha[i]
	}
	if rs[0] == 0xFFFD {
		rs[0] = 'a'
	}
	return mkLit(rs, cg.chance(0.15))
}

func (cg *caseGen) litOf(s string) *pvcase.Expr { return mkLit([]rune(s), false) }

var stockRanges = [][2]rune{
	{'a', 'c'}, {'0', '9'}, {'A', 'B'}, {'a', 'z'}, {'A', 'Z'}, {0xE0, 0xFF}, {0x2000, 0x3000}, {'K', 0x212A},
	{0x1F600, 0x1F64F}, {'0', '3'}, {' ', '-'}, {0xC0, 0xDE},
}

func (cg *caseGen) cls() *pvcase.Expr {
	var chars, ranges []rune
	var classes []string
	if cg.chance(0.02) {
		// the empty class: matches nothing ([]) or everything ([^])
		return mkClass(nil, nil, nil, cg.chance(0.2), cg.chance(0.4), cg.flags.BasicLatin)
	}
	if cg.chance(0.03) {
		// a big class: dozens of ranges and single runes, written in no particular order and overlapping (the order of
		// the members of a class means nothing)
		for n := 19 + cg.r.IntN(30); n > 0; n-- {
			r := cg.pick(cg.alpha)
			if cg.chance(0.5) {
				r = rune(0x20 + cg.r.IntN(0x250))
			}
			ranges = append(ranges, r, r+rune(cg.r.IntN(4)))
		}
		for n := cg.r.IntN(24); n > 0; n-- {
			chars = append(chars, rune(0x21+cg.r.IntN(0x5e)))
		}
		return mkClass(chars, ranges, nil, cg.chance(0.2), cg.chance(0.3), cg.flags.BasicLatin)
	}
	for len(chars)+len(ranges)+len(classes) == 0 {
		if cg.chance(0.6) {
			for n := 1 + cg.r.IntN(3); n > 0; n-- {
				chars = append(chars, cg.pick(cg.alpha))
			}
		}
		if cg.chance(0.4) {
			for n := 1 + cg.r.IntN(2); n > 0; n-- {
				if cg.chance(0.3) {
					// a range around an alphabet rune
					r := cg.pick(cg.alpha)
					lo, hi := r-rune(cg.r.IntN(2)), r+rune(cg.r.IntN(3))
					if lo < 0 {
						lo = 0
					}
					ranges = append(ranges, lo, hi)
				} else {
					p := stockRanges[cg.r.IntN(len(stockRanges))]
					ranges = append(ranges, p[0], p[1])
				}
			}
		}
		if cg.chance(0.3) {
			tot := 0
			for _, c := range classNames {
				tot += c.w
			}
			for n := 1 + cg.r.IntN(5)/4; n > 0; n-- {
				if cg.chance(0.25) {
					// ANY class name Go's tables know (categories, properties, scripts), most often one with a member below
					// U+0080 (round 17: a Basic Latin table that skipped the classes whose Latin-1 offset is 0 - Pc, Pd, Dash,
					// Other_Math reach `_`, `-`, `^` through a strided range that ends beyond Latin-1)
					if cg.chance(0.7) {
						classes = append(classes, asciiClassNames[cg.r.IntN(len(asciiClassNames))])
					} else {
						classes = append(classes, allClassNames[cg.r.IntN(len(allClassNames))])
					}
					continue
				}
				x := cg.r.IntN(tot)
				for _, c := range classNames {
					if x < c.w {
						classes = append(classes, c.name)
						break
					}
					x -= c.w
				}
			}
		}
	}
	inv := cg.chance(0.15)
	if cg.f.anyBoost {
		inv = cg.chance(0.4)
	}
	return mkClass(chars, ranges, classes, cg.chance(0.2), inv, cg.flags.BasicLatin)
}

func (cg *caseGen) nonNullLeaf() *pvcase.Expr {
	switch x := cg.r.IntN(10); {
	case x < 6:
		return cg.nonEmptyLit()
	case x < 9:
		return cg.cls()
	default:
		return &pvcase.Expr{Kind: pvcase.KAny}
	}
}

// refTarget picks a rule that may be referenced at this position, or -1.
func (cg *caseGen) refTarget(cx ectx) int {
	n := len(cg.names)
	var cands []int
	for j := 0; j < n; j++ {
		if (j > cg.cur && !cx.noCall()) || cx.guarded || cg.f.wild {
			cands = append(cands, j)
		}
	}
	if len(cands) == 0 {
		return -1
	}
	// prefer forward rules nobody references yet
	var fresh []int
	for _, j := range cands {
		if j > cg.cur && !cg.refd[j] {
			fresh = append(fresh, j)
		}
	}
	if len(fresh) > 0 && cg.chance(0.7) {
		return fresh[cg.r.IntN(len(fresh))]
	}
	return cands[cg.r.IntN(len(cands))]
}

func (cg *caseGen) ref(cx ectx) (*pvcase.Expr, bool) {
	if cg.chance(cg.f.undefRefP) {
		return &pvcase.Expr{Kind: pvcase.KRef, Name: "Undef"}, false
	}
	j := cg.refTarget(cx)
	if j < 0 {
		return cg.nonEmptyLit(), false
	}
	cg.refd[j] = true
	null := true // unknown for rules not generated yet
	if j > cg.cur {
		null = cg.ruleNull[j]
	}
	return &pvcase.Expr{Kind: pvcase.KRef, Name: cg.names[j]}, null
}

func (cg *caseGen) thrLabel(cx ectx) string {
	if len(cx.recs) > 0 && cg.chance(0.6) {
		return pickStr(cg.r, cx.recs)
	}
	if cg.chance(0.1) {
		return "Lnone"
	}
	return pickStr(cg.r, throwLabels)
}

// ------------------------------------------------------------ expressions

func litNullable(e *pvcase.Expr) bool { return e.Kind == pvcase.KLit && pvterm.LitNullable(e) }

// expr generates a random expression and reports whether it is possibly
// nullable (conservatively).
func (cg *caseGen) expr(cx ectx) (*pvcase.Expr, bool) {
	f := &cg.f
	ws := make([]wk, 0, 24)
	anyW := 4
	if f.anyBoost {
		anyW = 12
	}
	refW := 14
	if f.memoShapes {
		refW = 22
	}
	ws = append(ws, wk{"lit", 24}, wk{"cls", 14}, wk{"any", anyW}, wk{"ref", refW})
	if f.pred {
		ws = append(ws, wk{"andc", 3}, wk{"notc", 3})
	}
	if f.stc {
		ws = append(ws, wk{"stc", f.stcW})
	}
	if f.thr && (f.wild || (!cx.noCall() && (cx.guarded || len(cx.recs) > 0))) {
		ws = append(ws, wk{"thr", 7})
	}
	if cx.depth > 0 {
		// the deeper the remaining budget, the more composites
		m := 1
		switch {
		case cx.depth >= 3:
			m = 4
		case cx.depth == 2:
			m = 3
		default:
			m = 2
		}
		ws = append(ws, wk{"seq", 8 * m}, wk{"ch", 6 * m}, wk{"star", 3 * m}, wk{"plus", 2 * m},
			wk{"opt", 3 * m}, wk{"and", 2 * m}, wk{"not", 2 * m})
		if f.act {
			ws = append(ws, wk{"act", 5 * m})
		}
		if f.lab {
			ws = append(ws, wk{"lab", 2 * m})
		}
		if f.act && f.lab {
			ws = append(ws, wk{"labact", 6 * m})
		}
		if f.thr {
			ws = append(ws, wk{"rec", 4 * m})
		}
		if f.stateShapes && f.stc {
			ws = append(ws, wk{"sshape", 6 * m})
		}
		if f.memoShapes {
			ws = append(ws, wk{"mshape", 6 * m})
		}
		if f.act && f.lab {
			ws = append(ws, wk{"scshape", 4 * m})
		}
	}
	sub := cx
	sub.depth--
	switch k := cg.choose(ws); k {
	case "lit":
		e := cg.lit()
		return e, litNullable(e)
	case "cls":
		return cg.cls(), false
	case "any":
		return &pvcase.Expr{Kind: pvcase.KAny}, false
	case "ref":
		return cg.ref(cx)
	case "andc":
		return &pvcase.Expr{Kind: pvcase.KAndc}, true
	case "notc":
		return &pvcase.Expr{Kind: pvcase.KNotc}, true
	case "stc":
		return &pvcase.Expr{Kind: pvcase.KStc}, true
	case "thr":
		return &pvcase.Expr{Kind: pvcase.KThr, Label: cg.thrLabel(cx)}, true
	case "seq":
		return cg.seq(sub)
	case "ch":
		n := 2 + cg.r.IntN(2)
		if cg.chance(0.03) {
			n = cg.r.IntN(2) // degenerate: no or one alternative
		}
		e := cg.newChoice()
		null := false
		for i := 0; i < n; i++ {
			k, kn := cg.expr(sub)
			e.Kids = append(e.Kids, k)
			null = null || kn
		}
		return e, null
	case "star", "plus":
		body := cg.loopBody(sub)
		kind := pvcase.KStar
		if k == "plus" {
			kind = pvcase.KPlus
		}
		null := k == "star"
		if f.wild && k == "plus" {
			null = true
		}
		return &pvcase.Expr{Kind: kind, Kids: []*pvcase.Expr{body}}, null
	case "opt":
		k, _ := cg.expr(sub)
		return &pvcase.Expr{Kind: pvcase.KOpt, Kids: []*pvcase.Expr{k}}, true
	case "and", "not":
		k2, _ := cg.expr(sub)
		kind := pvcase.KAnd
		if k == "not" {
			kind = pvcase.KNot
		}
		return &pvcase.Expr{Kind: kind, Kids: []*pvcase.Expr{k2}}, true
	case "act":
		k, kn := cg.expr(sub)
		return &pvcase.Expr{Kind: pvcase.KAct, Kids: []*pvcase.Expr{k}}, kn
	case "lab":
		k, kn := cg.expr(sub)
		return &pvcase.Expr{Kind: pvcase.KLab, Label: cg.valueLabel(), Kids: []*pvcase.Expr{k}}, kn
	case "labact":
		return cg.labAct(sub)
	case "rec":
		return cg.rec(sub)
	case "sshape":
		return cg.stateShape(sub)
	case "mshape":
		return cg.memoShape(sub)
	case "scshape":
		return cg.scopeShape(sub)
	}
	panic("unreachable")
}

func (cg *caseGen) valueLabel() string {
	if cg.chance(0.02) {
		return "" // the runtime ignores an empty label
	}
	return pickStr(cg.r, valueLabels)
}

func (cg *caseGen) newChoice() *pvcase.Expr {
	cg.chCount++
	e := &pvcase.Expr{Kind: pvcase.KCh, Line: cg.cur + 1, Col: 3 + 4*cg.chCount}
	if cg.chance(0.05) {
		e.Col = 5 // deliberately colliding positions (Stats key is rule+line:col)
	}
	return e
}

// seq generates a sequence; guardedness flows left to right.
func (cg *caseGen) seq(cx ectx) (*pvcase.Expr, bool) {
	n := 2 + cg.r.IntN(2)
	switch x := cg.r.IntN(100); {
	case x < 2:
		n = 0
	case x < 5:
		n = 1
	case x < 12:
		n = 4
	}
	e := &pvcase.Expr{Kind: pvcase.KSeq}
	null := true
	for i := 0; i < n; i++ {
		k, kn := cg.expr(cx)
		e.Kids = append(e.Kids, k)
		if !kn {
			null = false
			cx.guarded = true
		}
	}
	return e, null
}

// loopBody returns an expression that is certainly not nullable (unless the
// case is wild).
func (cg *caseGen) loopBody(cx ectx) *pvcase.Expr {
	if cg.f.wild {
		k, _ := cg.expr(cx)
		return k
	}
	for try := 0; try < 3; try++ {
		k, kn := cg.expr(cx)
		if !kn {
			return k
		}
		if cg.chance(0.5) {
			// keep the nullable part, make the whole body consuming
			if cg.chance(0.5) {
				return &pvcase.Expr{Kind: pvcase.KSeq, Kids: []*pvcase.Expr{k, cg.nonNullLeaf()}}
			}
			return &pvcase.Expr{Kind: pvcase.KSeq, Kids: []*pvcase.Expr{cg.nonNullLeaf(), k}}
		}
	}
	return cg.nonNullLeaf()
}

// labAct generates `x:e1 e2 y:e3 { ... }`: an action over a sequence with
// labelled elements.
func (cg *caseGen) labAct(cx ectx) (*pvcase.Expr, bool) {
	n := 1 + cg.r.IntN(3)
	seq := &pvcase.Expr{Kind: pvcase.KSeq}
	null := true
	used := map[string]bool{}
	for i := 0; i < n; i++ {
		k, kn := cg.expr(cx)
		if cg.chance(0.7) {
			l := cg.valueLabel()
			if !used[l] || cg.chance(0.1) {
				used[l] = true
				k = &pvcase.Expr{Kind: pvcase.KLab, Label: l, Kids: []*pvcase.Expr{k}}
			}
		}
		seq.Kids = append(seq.Kids, k)
		if !kn {
			null = false
			cx.guarded = true
		}
	}
	if cg.f.pred && cg.chance(0.25) {
		// a predicate that can see the labels
		kind := pvcase.KAndc
		if cg.chance(0.4) {
			kind = pvcase.KNotc
		}
		seq.Kids = append(seq.Kids, &pvcase.Expr{Kind: kind})
	}
	var body *pvcase.Expr = seq
	if n == 1 && len(seq.Kids) == 1 && cg.chance(0.5) {
		body = seq.Kids[0]
	}
	return &pvcase.Expr{Kind: pvcase.KAct, Kids: []*pvcase.Expr{body}}, null
}

// rec generates `expr //{labels} recoverExpr`.
func (cg *caseGen) rec(cx ectx) (*pvcase.Expr, bool) {
	nl := 1 + cg.r.IntN(5)/4
	var labels []string
	for i := 0; i < nl; i++ {
		labels = append(labels, pickStr(cg.r, throwLabels))
	}
	if len(cx.recs) > 0 && cg.chance(0.4) {
		// a handler for a label that an ENCLOSING recovery expression handles too: a throw tries the inner one, then the
		// outer one
		labels[0] = cx.recs[cg.r.IntN(len(cx.recs))]
	}
	if cg.f.act && cg.f.lab && !cx.inRecover && cg.chance(0.25) {
		// `k:X %{L} //{L} r:Y {code}`: the recovery expression shares the label scope of the guarded expression (one
		// parameter list for its code blocks), and the throw stands directly in the labelled sequence, so the recovery
		// expression runs in the frame where k is bound: the action must see k's value (and its own r).
		k := lab(pickStr(cg.r, valueLabels), cg.operand())
		thr := &pvcase.Expr{Kind: pvcase.KThr, Label: labels[0]}
		var body *pvcase.Expr = seqOf(k, thr)
		if cg.chance(0.4) {
			// k:X ("=" v:Y / %{L}) would hide k from the throw (a choice alternative has its own frame): keep the throw
			// at the top level, after an optional separator
			body = seqOf(k, un(pvcase.KOpt, cg.nonEmptyLit()), thr)
		}
		if cg.chance(0.35) {
			// `k:X W(%{L}) {reader} //{L} k:Y`: the throw is the DIRECT operand of a construct that opens a label frame of
			// its own (a choice alternative, ?, a label, &, !!), the recovery expression binds the SAME label k, and an
			// action of the enclosing sequence reads k afterwards: the recovery expression runs in the frame of the throw
			// site, which ends with W - the reader must see X's value, not Y's.
			var w *pvcase.Expr
			switch cg.r.IntN(5) {
			case 0:
				ch := cg.newChoice()
				ch.Kids = []*pvcase.Expr{cg.nonEmptyLit(), thr}
				w = ch
			case 1:
				w = un(pvcase.KOpt, thr)
			case 2:
				w = lab(pickStr(cg.r, valueLabels), thr)
			case 3:
				w = un(pvcase.KAnd, thr)
			default:
				w = un(pvcase.KNot, un(pvcase.KNot, thr))
			}
			items := []*pvcase.Expr{k, w}
			if cg.chance(0.4) {
				items = append(items, lab(pickStr(cg.r, valueLabels), cg.operand()))
			}
			var rexp *pvcase.Expr = lab(k.Label, cg.recoverSkip())
			if cg.chance(0.4) {
				rexp = un(pvcase.KAct, rexp)
			}
			return &pvcase.Expr{Kind: pvcase.KRec, Kids: []*pvcase.Expr{un(pvcase.KAct, seqOf(items...)), rexp}, Labels: labels}, true
		}
		var rest *pvcase.Expr = cg.recoverSkip()
		if cg.chance(0.6) {
			rest = lab(pickStr(cg.r, valueLabels), rest)
		}
		rexp := un(pvcase.KAct, rest)
		if cg.f.pred && cg.chance(0.3) {
			rexp = un(pvcase.KAct, seqOf(rest, &pvcase.Expr{Kind: pvcase.KAndc}))
		}
		return &pvcase.Expr{Kind: pvcase.KRec, Kids: []*pvcase.Expr{body, rexp}, Labels: labels}, true
	}
	if !cx.inRecover && cg.chance(0.3) {
		// a forest of recovery operators over three labels: siblings of EQUAL nesting depth, each a chain of operators
		// with different label lists around a throw of one and the same label T, the innermost operator never listing
		// T (so that every throw has to search the handler stack). Which handler a throw reaches depends on the
		// CONTENTS of the stack at that moment - not on its depth, and not on what an earlier throw found at that depth.
		pool := []string{"L1", "L2", "L3"}
		t := pool[cg.r.IntN(3)]
		other := func() string {
			for {
				if l := pool[cg.r.IntN(3)]; l != t {
					return l
				}
			}
		}
		rcv := func() *pvcase.Expr {
			switch cg.r.IntN(3) {
			case 0:
				return cg.nonEmptyLit() // usually fails: the throw goes on to the next handler
			case 1:
				return cg.cls()
			}
			return un(pvcase.KStar, cg.nonEmptyLit()) // always recovers
		}
		depth := 1 + cg.r.IntN(3)
		chain := func() *pvcase.Expr {
			thr := &pvcase.Expr{Kind: pvcase.KThr, Label: t}
			var e *pvcase.Expr = seqOf(cg.nonEmptyLit(), thr)
			if cg.chance(0.4) {
				ch := cg.newChoice()
				ch.Kids = []*pvcase.Expr{seqOf(cg.nonEmptyLit(), thr), cg.nonEmptyLit()}
				e = ch
			}
			for d := 0; d < depth; d++ {
				l := []string{other()}
				if d > 0 && cg.chance(0.5) {
					l = []string{t}
				}
				e = &pvcase.Expr{Kind: pvcase.KRec, Kids: []*pvcase.Expr{e, rcv()}, Labels: l}
			}
			return e
		}
		var sib []*pvcase.Expr
		for n := 2 + cg.r.IntN(2); n > 0; n-- {
			if cg.chance(0.3) {
				sib = append(sib, un(pvcase.KOpt, chain()))
			} else {
				sib = append(sib, chain())
			}
		}
		outer := []string{t}
		if cg.chance(0.2) {
			outer = []string{other()}
		}
		return &pvcase.Expr{Kind: pvcase.KRec, Kids: []*pvcase.Expr{seqOf(sib...), rcv()}, Labels: outer}, false
	}
	if cg.f.memoShapes && cg.chance(0.35) {
		// two throw sites of one label at the same offset under one handler, the recovery expression failing the first
		// time: the second throw finds it in the memo table (Memoize) and must not evaluate it again
		thr := func() *pvcase.Expr { return &pvcase.Expr{Kind: pvcase.KThr, Label: labels[0]} }
		ch := cg.newChoice()
		ch.Kids = []*pvcase.Expr{seqOf(un(pvcase.KAnd, cg.operand()), thr()), thr()}
		if cg.chance(0.5) {
			ch.Kids = append(ch.Kids, cg.operand())
		}
		rexp := seqOf(cg.operand(), cg.nonEmptyLit())
		return &pvcase.Expr{Kind: pvcase.KRec, Kids: []*pvcase.Expr{ch, rexp}, Labels: labels}, true
	}
	in := cx
	in.recs = append(append([]string(nil), cx.recs...), labels...)
	body, bn := cg.expr(in)
	if cg.chance(0.5) {
		// make sure a throw of our label is reachable: body / %{L}, or body %{L}
		thr := &pvcase.Expr{Kind: pvcase.KThr, Label: labels[0]}
		if cg.chance(0.6) {
			ch := cg.newChoice()
			ch.Kids = []*pvcase.Expr{body, thr}
			body = ch
		} else {
			body = &pvcase.Expr{Kind: pvcase.KSeq, Kids: []*pvcase.Expr{body, thr}}
		}
		bn = true
	}
	// The recovery expression runs at the position of the throw with the
	// handler still installed: nothing that can re-enter it may stand in its
	// unguarded prefix.
	rcx := cx
	rcx.guarded = false
	rcx.recs = nil
	rcx.inRecover = true
	var rexp *pvcase.Expr
	switch x := cg.r.IntN(10); {
	case x < 3:
		rexp = cg.recoverSkip()
	case x < 5:
		// a recovery expression that usually does not match: the throw goes on to the next handler, or fails
		rexp = cg.nonEmptyLit()
	default:
		rexp, _ = cg.expr(rcx)
	}
	e := &pvcase.Expr{Kind: pvcase.KRec, Kids: []*pvcase.Expr{body, rexp}, Labels: labels}
	return e, bn
}

// recoverSkip builds the classical "skip to a sync rune" recovery
// expression, e.g. (!"b" .)* or [^b]*.
func (cg *caseGen) recoverSkip() *pvcase.Expr {
	sync := cg.pick(cg.alpha)
	if cg.chance(0.5) {
		return &pvcase.Expr{Kind: pvcase.KStar, Kids: []*pvcase.Expr{
			mkClass([]rune{sync}, nil, nil, false, true, cg.flags.BasicLatin)}}
	}
	return &pvcase.Expr{Kind: pvcase.KStar, Kids: []*pvcase.Expr{
		{Kind: pvcase.KSeq, Kids: []*pvcase.Expr{
			{Kind: pvcase.KNot, Kids: []*pvcase.Expr{mkLit([]rune{sync}, false)}},
			{Kind: pvcase.KAny},
		}}}}
}

// ------------------------------------------------------------------ shapes

func stc() *pvcase.Expr { return &pvcase.Expr{Kind: pvcase.KStc} }

func seqOf(es ...*pvcase.Expr) *pvcase.Expr { return &pvcase.Expr{Kind: pvcase.KSeq, Kids: es} }

func un(kind string, e *pvcase.Expr) *pvcase.Expr {
	return &pvcase.Expr{Kind: kind, Kids: []*pvcase.Expr{e}}
}

// stateShape builds expressions in which a state change is followed by a
// backtrack point.
func (cg *caseGen) stateShape(cx ectx) (*pvcase.Expr, bool) {
	x := cg.nonEmptyLit()
	y := cg.nonEmptyLit()
	z := cg.nonEmptyLit()
	xc := func() *pvcase.Expr { return x.Clone() }
	if cg.f.thr && cg.chance(0.3) {
		// #{} ( (x %{L} y) //{L} (#{} skip) )* #{} reader : the throw is a DIRECT element of a sequence, after plain
		// matchers only; its recovery expression changes the store and succeeds; a later element of the same sequence
		// fails, under a repetition / option and nothing else that restores the store in between: the iteration failed, so
		// the recovery expression's change must be gone
		l := pickStr(cg.r, throwLabels)
		thr := &pvcase.Expr{Kind: pvcase.KThr, Label: l}
		items := []*pvcase.Expr{xc(), thr, y}
		if cg.chance(0.3) {
			items = []*pvcase.Expr{thr, y}
		} else if cg.chance(0.3) {
			items = []*pvcase.Expr{xc(), thr, thr.Clone(), y}
		}
		rcv := seqOf(stc(), cg.recoverSkip())
		guarded := &pvcase.Expr{Kind: pvcase.KRec, Kids: []*pvcase.Expr{seqOf(items...), rcv}, Labels: []string{l}}
		var guard *pvcase.Expr
		switch cg.r.IntN(3) {
		case 0:
			guard = un(pvcase.KStar, guarded)
		case 1:
			guard = un(pvcase.KOpt, guarded)
		default:
			guard = un(pvcase.KOpt, un(pvcase.KPlus, guarded))
		}
		k := []*pvcase.Expr{stc(), guard, stc()}
		if cg.f.pred {
			k = append(k, &pvcase.Expr{Kind: pvcase.KAndc})
		}
		k = append(k, un(pvcase.KStar, &pvcase.Expr{Kind: pvcase.KAny}))
		return seqOf(k...), true
	}
	if cg.f.thr && cg.chance(0.5) {
		// #{} ((%{L} //{L} y) //{L} z)? #{} x : a throw that every handler (two for the same label, nested) fails to
		// recover from, under an option, between state changes: the store must be what it was
		l := pickStr(cg.r, throwLabels)
		thr := &pvcase.Expr{Kind: pvcase.KThr, Label: l}
		var body *pvcase.Expr = thr
		if cg.chance(0.5) {
			body = seqOf(stc(), thr)
		}
		inner := &pvcase.Expr{Kind: pvcase.KRec, Kids: []*pvcase.Expr{body, y}, Labels: []string{l}}
		outer := &pvcase.Expr{Kind: pvcase.KRec, Kids: []*pvcase.Expr{inner, z}, Labels: []string{l}}
		var guard *pvcase.Expr
		switch cg.r.IntN(3) {
		case 0:
			guard = un(pvcase.KOpt, outer)
		case 1:
			guard = un(pvcase.KStar, seqOf(outer, xc()))
		default:
			ch := cg.newChoice()
			ch.Kids = []*pvcase.Expr{outer, xc()}
			guard = ch
		}
		k := []*pvcase.Expr{stc(), guard, stc()}
		if cg.f.pred {
			k = append(k, &pvcase.Expr{Kind: pvcase.KAndc})
		}
		return seqOf(k...), true
	}
	switch cg.r.IntN(9) {
	case 8: // ( (#{} x)? #{} y ) / #{} z : an inner restore (the option's body fails), then a second state block with NO snapshot in
		// between, then the failure of the enclosing alternative - what the alternative after it reads must be the store from
		// before the first (round 19: a lazily unshared Cloner value not re-armed after the inner restore)
		ch := cg.newChoice()
		ch.Kids = []*pvcase.Expr{seqOf(un(pvcase.KOpt, seqOf(stc(), xc())), stc(), y), seqOf(stc(), z)}
		return ch, true
	case 0: // ( #{} x y / #{} x z )
		ch := cg.newChoice()
		ch.Kids = []*pvcase.Expr{seqOf(stc(), xc(), y), seqOf(stc(), xc(), z)}
		return ch, false
	case 1: // (#{} x)* y
		return seqOf(un(pvcase.KStar, seqOf(stc(), xc())), y), false
	case 2: // &(#{} x) #{} x
		return seqOf(un(pvcase.KAnd, seqOf(stc(), xc())), stc(), xc()), false
	case 3: // !(#{} x y) x
		return seqOf(un(pvcase.KNot, seqOf(stc(), xc(), y)), xc()), false
	case 4: // (#{} x y)? x z
		return seqOf(un(pvcase.KOpt, seqOf(stc(), xc(), y)), xc(), z), false
	case 5: // (#{} x)+ y / x*
		ch := cg.newChoice()
		ch.Kids = []*pvcase.Expr{seqOf(un(pvcase.KPlus, seqOf(stc(), xc())), y), un(pvcase.KStar, xc())}
		return ch, true
	case 6: // #{} (l:x {act}) (&{pred})
		k := []*pvcase.Expr{stc(), un(pvcase.KAct, &pvcase.Expr{Kind: pvcase.KLab, Label: "x", Kids: []*pvcase.Expr{xc()}})}
		if cg.f.pred {
			k = append(k, &pvcase.Expr{Kind: pvcase.KAndc})
		}
		k = append(k, stc())
		return seqOf(k...), false
	default: // #{} e #{} with a random middle that may fail
		mid, _ := cg.expr(cx)
		ch := cg.newChoice()
		ch.Kids = []*pvcase.Expr{seqOf(stc(), mid, stc(), y), seqOf(stc(), z)}
		return ch, false
	}
}

// memoShape builds expressions that reach one rule twice at one offset.
func (cg *caseGen) memoShape(cx ectx) (*pvcase.Expr, bool) {
	mk := func() (*pvcase.Expr, bool) {
		j := -1
		if cx.noCall() {
			return nil, false
		}
		for k := cg.cur + 1; k < len(cg.names); k++ {
			if j < 0 || cg.chance(0.4) {
				j = k
			}
		}
		if j < 0 {
			return nil, false
		}
		cg.refd[j] = true
		return &pvcase.Expr{Kind: pvcase.KRef, Name: cg.names[j]}, cg.ruleNull[j]
	}
	x, xn := mk()
	if x == nil {
		return cg.seq(cx)
	}
	xc := func() *pvcase.Expr { return x.Clone() }
	s1, s2 := cg.nonEmptyLit(), cg.nonEmptyLit()
	wrap := func(e *pvcase.Expr) *pvcase.Expr {
		if cg.f.lab && cg.chance(0.4) {
			return &pvcase.Expr{Kind: pvcase.KLab, Label: "x", Kids: []*pvcase.Expr{e}}
		}
		return e
	}
	act := func(e *pvcase.Expr) *pvcase.Expr {
		if cg.f.act && cg.chance(0.4) {
			return un(pvcase.KAct, e)
		}
		return e
	}
	switch cg.r.IntN(6) {
	case 5: // o Self c s1 / o Self c s2 / leaf: the CURRENT rule nested in itself and backtracked over
		self := &pvcase.Expr{Kind: pvcase.KRef, Name: cg.names[cg.cur]}
		cg.refd[cg.cur] = true
		o, c := cg.nonEmptyLit(), cg.nonEmptyLit()
		ch := cg.newChoice()
		ch.Kids = []*pvcase.Expr{act(seqOf(o, wrap(self), c, s1)), act(seqOf(o.Clone(), wrap(self.Clone()), c.Clone(), s2)), cg.nonNullLeaf()}
		return ch, false
	case 0: // X s1 / X s2
		ch := cg.newChoice()
		ch.Kids = []*pvcase.Expr{act(seqOf(wrap(xc()), s1)), act(seqOf(wrap(xc()), s2))}
		return ch, false
	case 1: // &X X
		return seqOf(un(pvcase.KAnd, xc()), wrap(xc())), xn
	case 2: // !(X s1) X
		return seqOf(un(pvcase.KNot, seqOf(xc(), s1)), xc()), xn
	case 3: // X Y s1 / X Y s2 / X
		y, _ := mk()
		ch := cg.newChoice()
		ch.Kids = []*pvcase.Expr{seqOf(xc(), y, s1), seqOf(xc(), y.Clone(), s2), xc()}
		return ch, xn
	default: // (X s1)? X s2
		return seqOf(un(pvcase.KOpt, seqOf(xc(), s1)), xc(), s2), false
	}
}

// scopeShape generates `x:e1 W(... x:e2 ...) reader`: the label of the enclosing sequence is bound
// AGAIN inside a construct that opens a scope of its own (?, *, +, &, !, a choice alternative, a
// labelled expression, a recovery expression), and a code block of the enclosing sequence reads it
// afterwards: it must see e1's value (label scopes end with the construct that opened them).
func (cg *caseGen) scopeShape(cx ectx) (*pvcase.Expr, bool) {
	l := pickStr(cg.r, valueLabels)
	if cg.chance(0.12) {
		// `l:(T+)? reader`, `l:(T*) reader`, `l:T+? …`: the value a label gets from a repetition over a SINGLE-RUNE operand
		// that matched nothing (round 15: a fast path of + for class / any operands returned a typed nil slice, which `?`
		// handed on: the label was bound to []any(nil) instead of nil). The reader is the enclosing action (and a predicate).
		var t *pvcase.Expr
		if cg.chance(0.7) {
			t = cg.cls()
		} else {
			t = &pvcase.Expr{Kind: pvcase.KAny}
		}
		var w *pvcase.Expr
		switch cg.r.IntN(4) {
		case 0, 1:
			w = un(pvcase.KOpt, un(pvcase.KPlus, t))
		case 2:
			w = un(pvcase.KStar, t)
		default:
			w = un(pvcase.KOpt, un(pvcase.KAct, un(pvcase.KPlus, t)))
		}
		seq := seqOf(&pvcase.Expr{Kind: pvcase.KLab, Label: l, Kids: []*pvcase.Expr{w}})
		if cg.chance(0.5) {
			seq.Kids = append([]*pvcase.Expr{un(pvcase.KOpt, cg.nonNullLeaf())}, seq.Kids...)
		}
		if cg.f.pred && cg.chance(0.5) {
			seq.Kids = append(seq.Kids, &pvcase.Expr{Kind: pvcase.KAndc})
		}
		return un(pvcase.KAct, seq), true
	}
	e1, n1 := cg.expr(cx)
	e2 := cg.nonNullLeaf()
	lead := cg.nonNullLeaf()
	inner := seqOf(lead, &pvcase.Expr{Kind: pvcase.KLab, Label: l, Kids: []*pvcase.Expr{e2}})
	// the same text without the label: what must follow a lookahead for the lookahead to succeed
	plain := seqOf(lead.Clone(), e2.Clone())
	if cg.chance(0.3) {
		inner = &pvcase.Expr{Kind: pvcase.KLab, Label: l, Kids: []*pvcase.Expr{e2}}
		plain = e2.Clone()
	}
	if cg.f.pred && cg.chance(0.3) {
		inner = seqOf(inner, &pvcase.Expr{Kind: pvcase.KAndc}) // a reader inside: sees e2's value
	}
	var w *pvcase.Expr
	switch cg.r.IntN(10) {
	case 0, 1:
		w = un(pvcase.KOpt, inner)
	case 2:
		w = un(pvcase.KStar, inner)
	case 3:
		w = un(pvcase.KOpt, un(pvcase.KPlus, inner))
	case 4, 8, 9: // (three tenths: the `&( )` frame of the optimized, store-less template rested on a single hit per run)
		w = seqOf(un(pvcase.KAnd, inner), plain) // the lookahead is followed by the text it looks for
	case 5:
		w = seqOf(un(pvcase.KNot, un(pvcase.KNot, inner)), plain)
	case 6:
		ch := cg.newChoice()
		ch.Kids = []*pvcase.Expr{inner, un(pvcase.KOpt, cg.nonNullLeaf())}
		w = ch
	default:
		w = un(pvcase.KOpt, &pvcase.Expr{Kind: pvcase.KLab, Label: pickStr(cg.r, valueLabels), Kids: []*pvcase.Expr{inner}})
	}
	seq := seqOf(&pvcase.Expr{Kind: pvcase.KLab, Label: l, Kids: []*pvcase.Expr{e1}}, w)
	if cg.f.pred && cg.chance(0.4) {
		kind := pvcase.KAndc
		if cg.chance(0.3) {
			kind = pvcase.KNotc
		}
		seq.Kids = append(seq.Kids, &pvcase.Expr{Kind: kind})
	}
	return un(pvcase.KAct, seq), n1
}
