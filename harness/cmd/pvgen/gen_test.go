package main

import (
	"reflect"
	"testing"

	"pvharness/pvcase"
	"pvharness/pvterm"
)

func genLines(t *testing.T, profile string, seed uint64, n int, variants string) ([]*pvcase.Case, []string, []string) {
	t.Helper()
	g, err := newGenerator(seed, 1, variants)
	if err != nil {
		t.Fatal(err)
	}
	profs, err := g.profiles(profile)
	if err != nil {
		t.Fatal(err)
	}
	var cs []*pvcase.Case
	var lines, ps []string
	g.emit(profs, n, func(c *pvcase.Case, prof string) {
		cs = append(cs, c)
		lines = append(lines, c.String())
		ps = append(ps, prof)
	})
	return cs, lines, ps
}

func TestDeterministic(t *testing.T) {
	for _, prof := range append([]string{"mixed"}, profileNames...) {
		_, a, _ := genLines(t, prof, 7, 150, "")
		_, b, _ := genLines(t, prof, 7, 150, "")
		if !reflect.DeepEqual(a, b) {
			t.Fatalf("profile %s: same seed, different output", prof)
		}
		_, c, _ := genLines(t, prof, 8, 150, "")
		if reflect.DeepEqual(a, c) {
			t.Fatalf("profile %s: different seeds, same output", prof)
		}
	}
}

func TestGeneratedCases(t *testing.T) {
	cs, lines, profs := genLines(t, "mixed", 3, 4000, "")
	if len(cs) != 4000 {
		t.Fatalf("got %d cases", len(cs))
	}
	ids := map[uint64]bool{}
	for i, c := range cs {
		// round trip
		c2, err := pvcase.Parse(lines[i])
		if err != nil {
			t.Fatalf("case %d does not parse: %v", c.ID, err)
		}
		if c2.String() != lines[i] {
			t.Fatalf("case %d: round trip differs", c.ID)
		}
		c3, _ := pvcase.Parse(c2.String())
		if !reflect.DeepEqual(c2, c3) {
			t.Fatalf("case %d: Parse(String(c)) != c", c.ID)
		}
		if ids[c.ID] {
			t.Fatalf("duplicate id %d", c.ID)
		}
		ids[c.ID] = true
		// termination discipline
		if !pvterm.OK(c) {
			t.Fatalf("case %d (%s) violates the termination discipline: %v", c.ID, profs[i], pvterm.Check(c))
		}
		// fuel rule
		want := uint64(400)
		if c.Opts.MaxExpr > 0 {
			want = c.Opts.MaxExpr + 50
			if want > 6000 {
				want = 6000
			}
		}
		if c.Fuel != want {
			t.Fatalf("case %d: fuel %d, want %d", c.ID, c.Fuel, want)
		}
		// variant / option compatibility
		f := c.Flags
		if !variantOK(profs[i], f) {
			t.Fatalf("case %d: profile %s on variant %s", c.ID, profs[i], f.Variant())
		}
		if f.Optimize && (c.Opts.Memoize || c.Opts.Debug || c.Opts.Stats) {
			t.Fatalf("case %d: memoize/debug/stats on an optimized variant", c.ID)
		}
		if !f.HasState() && len(c.Opts.InitState) > 0 {
			t.Fatalf("case %d: InitState without a state store", c.ID)
		}
		nodeIDs := map[int]bool{}
		blocks := c.BlockByID()
		for _, r := range c.Grammar.Rules {
			if !f.LeftRec && (r.Leader || r.LeftRecursive) {
				t.Fatalf("case %d: LR bits without LR support", c.ID)
			}
			r.Expr.Walk(func(e *pvcase.Expr) {
				if nodeIDs[e.ID] {
					t.Fatalf("case %d: duplicate node id %d", c.ID, e.ID)
				}
				nodeIDs[e.ID] = true
				switch e.Kind {
				case pvcase.KStc:
					if !f.GlobalState {
						t.Fatalf("case %d: stc without globalState", c.ID)
					}
					if b := blocks[e.Blk]; b == nil || b.Kind != 's' {
						t.Fatalf("case %d: bad block for stc", c.ID)
					}
				case pvcase.KAct:
					if b := blocks[e.Blk]; b == nil || b.Kind != 'a' {
						t.Fatalf("case %d: bad block for act", c.ID)
					}
				case pvcase.KAndc, pvcase.KNotc:
					if b := blocks[e.Blk]; b == nil || b.Kind != 'p' {
						t.Fatalf("case %d: bad block for predicate", c.ID)
					}
				case pvcase.KCls:
					if (e.BL != "") != f.BasicLatin {
						t.Fatalf("case %d: BL presence does not match the variant", c.ID)
					}
				}
			})
		}
	}
}

func TestVariantsRestriction(t *testing.T) {
	cs, _, _ := genLines(t, "mixed", 5, 500, "o0g1l1b0,o1g0l0b1")
	seen := map[string]int{}
	for _, c := range cs {
		seen[c.Flags.Variant()]++
	}
	if len(seen) != 2 || seen["o0g1l1b0"] == 0 || seen["o1g0l0b1"] == 0 {
		t.Fatalf("variants: %v", seen)
	}
	g, _ := newGenerator(1, 1, "o1g0l0b0")
	if _, err := g.profiles("lr"); err == nil {
		t.Fatal("lr on a non-LR variant must be rejected")
	}
}
