package main

import (
	"unicode/utf8"

	"pvharness/pvcase"
)

// sentence walks the grammar and produces a string that the grammar
// plausibly matches.
type sentence struct {
	cg       *caseGen
	rules    map[string]*pvcase.Rule
	handlers map[string][]*pvcase.Expr
	out      []byte
	maxDepth int
	maxLen   int
	recBias  float64 // probability of preferring the first alternatives (left-recursive chains)
	steps    int
	ruleCost map[string]int // length of the shortest derivation (in rule calls)
}

const infCost = 1000

// cost is the number of nested rule calls the cheapest derivation of e needs.
func (s *sentence) cost(e *pvcase.Expr) int {
	switch e.Kind {
	case pvcase.KRef:
		if c, ok := s.ruleCost[e.Name]; ok {
			if c >= infCost {
				return infCost
			}
			return c + 1
		}
		return 0
	case pvcase.KCh:
		best := infCost
		for _, k := range e.Kids {
			if c := s.cost(k); c < best {
				best = c
			}
		}
		if len(e.Kids) == 0 {
			return 0
		}
		return best
	case pvcase.KSeq, pvcase.KAct, pvcase.KLab, pvcase.KPlus:
		worst := 0
		for _, k := range e.Kids {
			if c := s.cost(k); c > worst {
				worst = c
			}
		}
		return worst
	case pvcase.KRec:
		return s.cost(e.Kids[0])
	}
	return 0 // leaves, predicates, opt and star (may be skipped)
}

func (cg *caseGen) newSentence() *sentence {
	s := &sentence{cg: cg, rules: map[string]*pvcase.Rule{}, handlers: map[string][]*pvcase.Expr{}, maxDepth: 7, maxLen: 40}
	s.ruleCost = map[string]int{}
	for _, r := range cg.rules {
		s.ruleCost[r.Name] = infCost
	}
	for changed := true; changed; {
		changed = false
		for _, r := range cg.rules {
			if c := s.cost(r.Expr); c < s.ruleCost[r.Name] {
				s.ruleCost[r.Name] = c
				changed = true
			}
		}
	}
	for _, r := range cg.rules {
		s.rules[r.Name] = r
		r.Expr.Walk(func(e *pvcase.Expr) {
			if e.Kind == pvcase.KRec {
				for _, l := range e.Labels {
					s.handlers[l] = append(s.handlers[l], e)
				}
			}
		})
	}
	return s
}

func (s *sentence) put(r rune) { s.out = utf8.AppendRune(s.out, r) }

func (s *sentence) gen(e *pvcase.Expr, depth int) {
	cg := s.cg
	s.steps++
	if len(s.out) > s.maxLen || s.steps > 4000 {
		return
	}
	switch e.Kind {
	case pvcase.KLit:
		for _, r := range e.Runes {
			if e.IgnoreCase && cg.chance(0.5) {
				o := foldOrbit(r)
				r = o[cg.r.IntN(len(o))]
			}
			s.put(r)
		}
	case pvcase.KCls:
		var cands []rune
		for _, r := range cg.alpha {
			if classMatches(e, r) {
				cands = append(cands, r)
			}
		}
		if len(cands) == 0 || cg.chance(0.2) {
			// sample from the class definition itself
			var pool []rune
			pool = append(pool, e.Chars...)
			for i := 0; i+1 < len(e.Ranges); i += 2 {
				lo, hi := e.Ranges[i], e.Ranges[i+1]
				if hi >= lo {
					pool = append(pool, lo, hi, lo+rune(cg.r.IntN(int(hi-lo)+1)))
				}
			}
			for _, c := range e.Classes {
				if len(c.Ranges) > 0 {
					cr := c.Ranges[cg.r.IntN(len(c.Ranges))]
					pool = append(pool, rune(cr.Lo), rune(cr.Hi))
				}
			}
			if e.Inverted {
				pool = append(pool[:0], 'z', 'Z', '9', 0x4E2D)
			}
			for _, r := range pool {
				if utf8.ValidRune(r) && classMatches(e, r) {
					cands = append(cands, r)
				}
			}
		}
		if len(cands) > 0 {
			s.put(cands[cg.r.IntN(len(cands))])
		}
	case pvcase.KAny:
		s.put(cg.pick(cg.alpha))
	case pvcase.KSeq:
		for _, k := range e.Kids {
			s.gen(k, depth)
		}
	case pvcase.KCh:
		if len(e.Kids) == 0 {
			return
		}
		i := cg.r.IntN(len(e.Kids))
		if depth >= s.maxDepth {
			// wind down: the alternative with the shortest derivation
			best := infCost + 1
			for j, k := range e.Kids {
				if c := s.cost(k); c < best {
					best, i = c, j
				}
			}
		} else if s.recBias > 0 && cg.chance(s.recBias) {
			i = cg.r.IntN((len(e.Kids) + 1) / 2)
		}
		s.gen(e.Kids[i], depth)
	case pvcase.KOpt:
		if cg.chance(0.5) {
			s.gen(e.Kids[0], depth)
		}
	case pvcase.KStar:
		for n := cg.r.IntN(4); n > 0; n-- {
			s.gen(e.Kids[0], depth)
		}
	case pvcase.KPlus:
		for n := 1 + cg.r.IntN(3); n > 0; n-- {
			s.gen(e.Kids[0], depth)
		}
	case pvcase.KAnd, pvcase.KNot, pvcase.KAndc, pvcase.KNotc, pvcase.KStc:
		// predicates consume nothing
	case pvcase.KAct, pvcase.KLab:
		s.gen(e.Kids[0], depth)
	case pvcase.KRec:
		s.gen(e.Kids[0], depth)
	case pvcase.KThr:
		if hs := s.handlers[e.Label]; len(hs) > 0 && depth < s.maxDepth {
			s.gen(hs[cg.r.IntN(len(hs))].Kids[1], depth+1)
		}
	case pvcase.KRef:
		if r := s.rules[e.Name]; r != nil && depth < s.maxDepth+8 {
			s.gen(r.Expr, depth+1)
		}
	}
}

var rawBytes = []byte{0x80, 0xbf, 0xc3, 0xe2, 0xf0, 0xff, 0xfe, 0xc0, 'x', 0}

// mutate applies n point mutations (insert / delete / replace, of an
// alphabet rune or a raw byte).
func (cg *caseGen) mutate(in []byte, n int) []byte {
	out := append([]byte{}, in...)
	for ; n > 0; n-- {
		// rune boundaries of the current string
		var bounds []int
		for i := 0; i < len(out); {
			bounds = append(bounds, i)
			_, w := utf8.DecodeRune(out[i:])
			i += w
		}
		bounds = append(bounds, len(out))
		var ins []byte
		if cg.chance(0.8) {
			ins = utf8.AppendRune(nil, cg.pick(cg.alpha))
		} else {
			ins = []byte{rawBytes[cg.r.IntN(len(rawBytes))]}
		}
		bi := cg.r.IntN(len(bounds))
		at := bounds[bi]
		end := at
		if bi+1 < len(bounds) {
			end = bounds[bi+1]
		}
		switch op := cg.r.IntN(3); {
		case op == 0 || end == at: // insert
			out = append(out[:at], append(ins, out[at:]...)...)
		case op == 1: // delete
			out = append(out[:at], out[end:]...)
		default: // replace
			out = append(out[:at], append(ins, out[end:]...)...)
		}
	}
	return out
}

var malformed = []string{
	"\xc3", "\xe2\x82", "\xf0\x9f\x98", "\xf0\x9f", // truncated sequences
	"\xc0\x80", "\xe0\x80\x80", "\xf0\x80\x80\x80", "\xc1\xbf", // overlongs
	"\xed\xa0\x80", "\xed\xbf\xbf", // surrogates
	"\xf4\x90\x80\x80", "\xf7\xbf\xbf\xbf", // > U+10FFFF
	"\x80", "\xbf", "\x80\x80", // stray continuation bytes
	"\xfe", "\xff", "\xf8\x88\x80\x80\x80",
	"\xef\xbf\xbd", // a real U+FFFD
	"\xc3\x28", "\xe2\x28\xa1", "\xe2\x82\x28",
}

// malformedInput mixes valid runes of the alphabet with ill-formed chunks.
func (cg *caseGen) malformedInput(base []byte) []byte {
	var out []byte
	// keep a prefix of a sentence so that parsing gets somewhere
	if len(base) > 0 && cg.chance(0.7) {
		cut := cg.r.IntN(len(base) + 1)
		out = append(out, base[:cut]...)
		base = base[cut:]
	}
	for n := 1 + cg.r.IntN(4); n > 0; n-- {
		out = append(out, malformed[cg.r.IntN(len(malformed))]...)
		if cg.chance(0.6) {
			out = utf8.AppendRune(out, cg.pick(cg.alpha))
		}
	}
	if cg.chance(0.5) {
		out = append(out, base...)
	}
	return out
}

// makeInput produces the input of a case and records where it came from.
func (cg *caseGen) makeInput(start *pvcase.Rule, lr bool, malformedP float64) []byte {
	if cg.chance(0.04) {
		cg.inputSrc = "empty"
		return []byte{}
	}
	if cg.chance(0.05) {
		cg.inputSrc = "random"
		var out []byte
		for n := cg.r.IntN(8); n > 0; n-- {
			out = utf8.AppendRune(out, cg.pick(cg.alpha))
		}
		return out
	}
	s := cg.newSentence()
	if lr {
		s.maxDepth, s.maxLen, s.recBias = 9+cg.r.IntN(6), 70, 0.55
	}
	if start != nil {
		s.gen(start.Expr, 0)
	}
	in := s.out
	if in == nil {
		in = []byte{}
	}
	if cg.chance(0.25) {
		// trailing garbage / continuation: PEG matches prefixes
		in = utf8.AppendRune(in, cg.pick(cg.alpha))
	}
	if cg.chance(malformedP) {
		cg.inputSrc = "malformed"
		return cg.malformedInput(in)
	}
	if cg.chance(0.5) {
		n := cg.r.IntN(3)
		if n > 0 {
			cg.inputSrc = "mutated"
			return cg.mutate(in, n)
		}
	}
	cg.inputSrc = "sentence"
	return in
}
