package main

import (
	"sort"
	"strconv"
	"strings"
	"unicode"

	"github.com/mna/pigeon/builder"

	"pvharness/pvcase"
)

// runePool is the universe the per-case alphabets are drawn from.
var runePool = []rune{
	'a', 'b', 'c', 'A', 'B', '\n', ' ', 'é', 'É', '€', 0x1F600, 0xFFFD, 'K', 0x212A, '_',
	'0', '1', '2', '3', '4', '5', '6', '7', '8', '9', '-',
	// case pairs whose two members have different UTF-8 lengths or fold across scripts
	0x023A, 0x2C65, 0x0130, 0x1E9E, 0x00DF,
	// boundaries: of the Basic Latin table (U+007F / U+0080), of the UTF-8 lengths, of the surrogate gap, of Unicode
	0x00, 0x7F, 0x80, 0x7FF, 0x800, 0xD7FF, 0xE000, 0xFFFF, 0x10000, 0x10FFFF,
	// one or two runes of the general categories a reader might be tempted to treat specially (positions count runes,
	// whatever they are): nonspacing / spacing / enclosing marks, variation selector, joiner, format characters, the
	// other line and paragraph separators, spaces, controls, the byte order mark, an emoji modifier
	0x0301, 0x0323, 0xFE0F, 0x0903, 0x20DD, 0x0E31, 0x200D, 0x200B, 0x2028, 0x2029, 0x0085, 0x00A0, 0x3000, '\r', '\t', 0xFEFF, 0x1F3FB,
}

// casePairs are runes that are interesting together under ignoreCase.
var casePairs = [][]rune{
	{'a', 'A'}, {'b', 'B'}, {'é', 'É'}, {'K', 0x212A}, {'K', 'k'}, {'a', 'A', 'b'}, {0x212A, 'k'},
	{0x023A, 0x2C65}, {0x023A, 0x2C65, 'a'}, {0x0130, 'i'}, {0x1E9E, 0x00DF},
}

// rangeTable resolves a unicode class name exactly as
// builder/static_code_range_table.go does.
func rangeTable(class string) *unicode.RangeTable {
	if rt, ok := unicode.Categories[class]; ok {
		return rt
	}
	if rt, ok := unicode.Properties[class]; ok {
		return rt
	}
	if rt, ok := unicode.Scripts[class]; ok {
		return rt
	}
	panic("invalid Unicode class: " + class)
}

func flattenTable(name string) pvcase.Class {
	rt := rangeTable(name)
	c := pvcase.Class{Name: name}
	for _, r := range rt.R16 {
		c.Ranges = append(c.Ranges, pvcase.ClassRange{Lo: uint32(r.Lo), Hi: uint32(r.Hi), Stride: uint32(r.Stride)})
	}
	for _, r := range rt.R32 {
		c.Ranges = append(c.Ranges, pvcase.ClassRange{Lo: r.Lo, Hi: r.Hi, Stride: r.Stride})
	}
	return c
}

var classCache = map[string]pvcase.Class{}

func classOf(name string) pvcase.Class {
	if c, ok := classCache[name]; ok {
		return c
	}
	c := flattenTable(name)
	classCache[name] = c
	return c
}

// weighted list of unicode classes (small ones mostly)
var classNames = []struct {
	name string
	w    int
}{
	{"Nd", 6}, {"Lu", 6}, {"Ll", 6}, {"Zs", 5}, {"Greek", 3}, {"Latin", 4}, {"White_Space", 5}, {"L", 1},
	// the classes U+FFFD itself belongs to (a byte that is not UTF-8 is read as that rune), marks, format characters
	{"So", 4}, {"S", 2}, {"Common", 2}, {"Mn", 3}, {"Cf", 2},
}

// allClassNames: every class name of Go's unicode tables, sorted; asciiClassNames: those with a member below U+0080
var allClassNames, asciiClassNames = func() (all, ascii []string) {
	seen := map[string]bool{}
	for _, m := range []map[string]*unicode.RangeTable{unicode.Categories, unicode.Properties, unicode.Scripts} {
		for k := range m {
			if !seen[k] {
				seen[k] = true
				all = append(all, k)
			}
		}
	}
	sort.Strings(all)
	for _, k := range all {
		rt := rangeTable(k)
		for r := rune(0); r < 0x80; r++ {
			if unicode.Is(rt, r) {
				ascii = append(ascii, k)
				break
			}
		}
	}
	return all, ascii
}()

func srcRune(r rune) string {
	switch r {
	case '\n':
		return `\n`
	case '-', ']', '\\', '^':
		return `\` + string(r)
	}
	return string(r)
}

// mkLit builds a literal node from the original (un-lowered) runes.
func mkLit(orig []rune, ic bool) *pvcase.Expr {
	e := &pvcase.Expr{Kind: pvcase.KLit, IgnoreCase: ic}
	s := string(orig)
	e.Want = strconv.Quote(s)
	e.Runes = make([]rune, len(orig))
	for i, r := range orig {
		if ic {
			r = unicode.ToLower(r)
		}
		e.Runes[i] = r
	}
	if ic {
		e.Want += "i"
	}
	return e
}

// mkClass builds a character class node from the original (un-lowered)
// parts, exactly as builder.go lowers them.
func mkClass(chars, ranges []rune, classes []string, ic, inv, basicLatin bool) *pvcase.Expr {
	e := &pvcase.Expr{Kind: pvcase.KCls, IgnoreCase: ic, Inverted: inv}
	var sb strings.Builder
	sb.WriteByte('[')
	if inv {
		sb.WriteByte('^')
	}
	for _, r := range chars {
		sb.WriteString(srcRune(r))
	}
	for i := 0; i+1 < len(ranges); i += 2 {
		sb.WriteString(srcRune(ranges[i]) + "-" + srcRune(ranges[i+1]))
	}
	for _, c := range classes {
		if len(c) == 1 {
			sb.WriteString(`\p` + c)
		} else {
			sb.WriteString(`\p{` + c + `}`)
		}
	}
	sb.WriteByte(']')
	if ic {
		sb.WriteByte('i')
	}
	e.Val = sb.String()
	low := func(r rune) rune {
		if ic {
			return unicode.ToLower(r)
		}
		return r
	}
	for _, r := range chars {
		e.Chars = append(e.Chars, low(r))
	}
	for _, r := range ranges {
		e.Ranges = append(e.Ranges, low(r))
	}
	for _, c := range classes {
		e.Classes = append(e.Classes, classOf(c))
	}
	if basicLatin {
		bl := builder.BasicLatinLookup(chars, ranges, classes, ic)
		b := make([]byte, 128)
		for i, v := range bl {
			if v {
				b[i] = '1'
			} else {
				b[i] = '0'
			}
		}
		e.BL = string(b)
	}
	return e
}

// classMatches approximates the runtime decision of parseCharClassMatcher
// (slow path) for a valid rune; used by the sentence generator only.
func classMatches(e *pvcase.Expr, r rune) bool {
	cur := r
	if e.IgnoreCase {
		cur = unicode.ToLower(cur)
	}
	hit := false
	for _, c := range e.Chars {
		if c == cur {
			hit = true
		}
	}
	for i := 0; i+1 < len(e.Ranges); i += 2 {
		if cur >= e.Ranges[i] && cur <= e.Ranges[i+1] {
			hit = true
		}
	}
	for _, c := range e.Classes {
		if unicode.Is(rangeTable(c.Name), cur) {
			hit = true
		}
	}
	return hit != e.Inverted
}

// foldOrbit returns the runes whose unicode.ToLower is r (including r).
func foldOrbit(r rune) []rune {
	out := []rune{r}
	for f := unicode.SimpleFold(r); f != r; f = unicode.SimpleFold(f) {
		if unicode.ToLower(f) == r {
			out = append(out, f)
		}
	}
	return out
}
