// Command pvgen generates case files for the H1 host stream.
//
//	pvgen -profile <name> -seed <int> -n <count> [-variants o0g0l0b0,...] [-stats file.json] [-id0 N]
//
// It writes the unicode header line followed by n case lines to stdout. All
// randomness comes from one PCG generator seeded with -seed: the same
// arguments always produce the same bytes.
package main

import (
	"bufio"
	"encoding/json"
	"flag"
	"fmt"
	"math/rand/v2"
	"os"
	"strings"

	"pvharness/pvcase"
)

// Stats is the distribution report written by -stats.
type Stats struct {
	Cases         int
	Twins         int
	Rejected      int // candidate grammars rejected by the termination discipline
	Budgeted      int // cases outside the termination discipline (budget only)
	Profile       map[string]int
	Variant       map[string]int
	Options       map[string]int
	Rules         map[string]int
	GrammarNodes  map[string]int
	ExprKinds     map[string]int
	InputLen      map[string]int
	InputSource   map[string]int
	Blocks        map[string]int
	BlocksPerCase map[string]int
	Effects       map[string]int
	Returns       map[string]int
	Faults        map[string]int
	Alphabet      map[string]int
}

func newStats() *Stats {
	return &Stats{
		Profile: map[string]int{}, Variant: map[string]int{}, Options: map[string]int{},
		Rules: map[string]int{}, GrammarNodes: map[string]int{}, ExprKinds: map[string]int{},
		InputLen: map[string]int{}, InputSource: map[string]int{}, Blocks: map[string]int{},
		BlocksPerCase: map[string]int{}, Effects: map[string]int{}, Returns: map[string]int{},
		Faults: map[string]int{}, Alphabet: map[string]int{},
	}
}

func bucket(n int, bounds ...int) string {
	lo := 0
	for _, b := range bounds {
		if n <= b {
			if lo == b {
				return fmt.Sprintf("%03d", b)
			}
			return fmt.Sprintf("%03d-%03d", lo, b)
		}
		lo = b + 1
	}
	return fmt.Sprintf("%03d+", lo)
}

func (st *Stats) record(prof string, c *pvcase.Case, cg *caseGen) {
	st.Cases++
	st.Profile[prof]++
	st.Variant[c.Flags.Variant()]++
	o := &c.Opts
	opt := func(name string, on bool) {
		if on {
			st.Options[name]++
		}
	}
	opt("memoize", o.Memoize)
	opt("debug", o.Debug)
	opt("stats", o.Stats)
	opt("maxExpr", o.MaxExpr > 0)
	opt("entry", o.HasEntry)
	if o.HasEntry {
		valid := o.Entry == ""
		for _, r := range c.Grammar.Rules {
			valid = valid || r.Name == o.Entry
		}
		opt("entry_valid", valid)
		opt("entry_invalid", !valid)
	}
	opt("allowInvalid", o.AllowInvalid)
	opt("recover0", !o.Recover)
	opt("filename", o.Filename != "")
	opt("initState", len(o.InitState) > 0)
	opt("globalStore", len(o.GlobalStore) > 0)
	if cg.f.wild || (o.MaxExpr > 0 && !o.Memoize) {
		st.Budgeted++
	}
	st.Rules[fmt.Sprint(len(c.Grammar.Rules))]++
	st.GrammarNodes[bucket(c.NodeCount(), 1, 5, 10, 20, 40, 80, 160)]++
	for _, r := range c.Grammar.Rules {
		r.Expr.Walk(func(e *pvcase.Expr) { st.ExprKinds[e.Kind]++ })
		opt("displayName", r.DisplayName != "")
		opt("leader", r.Leader)
		opt("leftRecursive", r.LeftRecursive)
	}
	st.InputLen[bucket(len(c.Input), 0, 2, 5, 10, 20, 40, 80)]++
	st.BlocksPerCase[bucket(len(c.Blocks), 0, 1, 3, 6, 12, 24)]++
	for _, b := range c.Blocks {
		st.Blocks[string(rune(b.Kind))]++
		for _, e := range b.Effects {
			st.Effects[e.Op]++
		}
		if b.RetV != nil {
			st.Returns[b.RetV.Op]++
		}
		if b.RetB != nil {
			st.Returns["p:"+b.RetB.Op]++
		}
		if b.Err != nil {
			if b.Err.Always {
				st.Faults["err_always"]++
			} else {
				st.Faults["err_at"]++
			}
		}
		if b.Panic != nil {
			k := "panic_" + string(rune(b.Panic.Kind))
			if b.Panic.Always {
				st.Faults[k+"_always"]++
			} else {
				st.Faults[k+"_at"]++
			}
		}
	}
	st.Alphabet[fmt.Sprint(len(cg.alpha))]++
	st.InputSource[cg.inputSrc]++
}

func newGenerator(seed, id0 uint64, variants string) (*generator, error) {
	g := &generator{r: rand.New(rand.NewPCG(seed, 0x70767667656e)), st: newStats(), nextID: id0}
	if variants == "" {
		g.variants = pvcase.AllVariants()
		return g, nil
	}
	for _, v := range strings.Split(variants, ",") {
		f, err := pvcase.ParseVariant(strings.TrimSpace(v))
		if err != nil {
			return nil, err
		}
		g.variants = append(g.variants, f)
	}
	return g, nil
}

// profiles resolves a -profile argument to a weighted list of basic profiles.
func (g *generator) profiles(profile string) ([]wk, error) {
	var profs []wk
	if profile == "mixed" {
		for _, p := range mixedWeights {
			if len(g.variantsFor(p.k)) > 0 {
				profs = append(profs, p)
			}
		}
		if len(profs) == 0 {
			return nil, fmt.Errorf("no profile can run on the given variants")
		}
		return profs, nil
	}
	ok := false
	for _, p := range profileNames {
		ok = ok || p == profile
	}
	if !ok {
		return nil, fmt.Errorf("unknown profile %q", profile)
	}
	if len(g.variantsFor(profile)) == 0 {
		return nil, fmt.Errorf("profile %s cannot run on any of the given variants", profile)
	}
	return []wk{{profile, 1}}, nil
}

// emit generates n cases and hands them to out in order.
func (g *generator) emit(profs []wk, n int, out func(c *pvcase.Case, prof string)) {
	tot := 0
	for _, p := range profs {
		tot += p.w
	}
	pickProfile := func() string {
		x := g.r.IntN(tot)
		for _, p := range profs {
			if x < p.w {
				return p.k
			}
			x -= p.w
		}
		panic("unreachable")
	}
	written := 0
	for written < n {
		prof := pickProfile()
		cs, cg := g.genCase(prof)
		for i, c := range cs {
			if written == n {
				break // a twin that does not fit any more
			}
			c.ID = g.nextID
			g.nextID++
			g.st.record(prof, c, cg)
			if i > 0 {
				g.st.Twins++
			}
			out(c, prof)
			written++
		}
	}
}

func main() {
	var (
		profile  = flag.String("profile", "mixed", "core|blocks|state|panic|throw|memo|lr|utf8|budget|mixed")
		seed     = flag.Uint64("seed", 1, "PRNG seed")
		n        = flag.Int("n", 1000, "number of case lines")
		variants = flag.String("variants", "", "comma-separated variants to restrict to (default: all 16)")
		statsOut = flag.String("stats", "", "write the distribution of what was generated to this JSON file")
		id0      = flag.Uint64("id0", 1, "id of the first case")
		indexOut = flag.String("index", "", "write `id profile` lines (one per case) to this file")
		noHeader = flag.Bool("noheader", false, "do not print the unicode header line")
	)
	flag.Parse()
	if flag.NArg() != 0 || *n < 0 {
		flag.Usage()
		os.Exit(2)
	}
	usage := func(format string, args ...any) {
		fmt.Fprintf(os.Stderr, "pvgen: "+format+"\n", args...)
		os.Exit(2)
	}

	g, err := newGenerator(*seed, *id0, *variants)
	if err != nil {
		usage("%v", err)
	}
	profs, err := g.profiles(*profile)
	if err != nil {
		usage("%v", err)
	}

	w := bufio.NewWriterSize(os.Stdout, 1<<20)
	defer w.Flush()
	if !*noHeader {
		fmt.Fprintln(w, pvcase.UnicodeHeader())
	}
	var index *bufio.Writer
	if *indexOut != "" {
		f, err := os.Create(*indexOut)
		if err != nil {
			usage("%v", err)
		}
		defer f.Close()
		index = bufio.NewWriter(f)
		defer index.Flush()
	}
	g.emit(profs, *n, func(c *pvcase.Case, prof string) {
		fmt.Fprintln(w, c.String())
		if index != nil {
			fmt.Fprintf(index, "%d %s\n", c.ID, prof)
		}
	})
	if *statsOut != "" {
		b, err := json.MarshalIndent(g.st, "", "  ")
		if err != nil {
			usage("%v", err)
		}
		if err := os.WriteFile(*statsOut, append(b, '\n'), 0o644); err != nil {
			usage("%v", err)
		}
	}
}
