package main

import (
	"bytes"
	"fmt"
	"math/rand/v2"
	"os"
	"strings"

	"pvharness/pvcase"
	"pvharness/pvterm"
)

var profileNames = []string{"core", "blocks", "state", "panic", "throw", "memo", "lr", "utf8", "budget"}

// mixed blend
var mixedWeights = []wk{
	{"core", 17}, {"blocks", 18}, {"state", 11}, {"panic", 8}, {"throw", 11},
	{"memo", 10}, {"lr", 10}, {"utf8", 8}, {"budget", 7},
}

func variantOK(prof string, f pvcase.Flags) bool {
	switch prof {
	case "state":
		return f.GlobalState
	case "memo":
		return !f.Optimize
	case "lr":
		return f.LeftRec
	}
	return true
}

// generator holds what is shared between cases.
type generator struct {
	r        *rand.Rand
	st       *Stats
	variants []pvcase.Flags // allowed by -variants
	nextID   uint64
}

func (g *generator) variantsFor(prof string) []pvcase.Flags {
	var out []pvcase.Flags
	for _, f := range g.variants {
		if variantOK(prof, f) {
			out = append(out, f)
		}
	}
	return out
}

func (g *generator) chance(p float64) bool { return g.r.Float64() < p }

// alphabet draws 2-4 distinct runes.
func (g *generator) alphabet(prof string) []rune {
	n := 2 + g.r.IntN(3)
	var out []rune
	add := func(r rune) {
		for _, x := range out {
			if x == r {
				return
			}
		}
		if len(out) < 4 {
			out = append(out, r)
		}
	}
	if g.chance(0.3) {
		for _, r := range casePairs[g.r.IntN(len(casePairs))] {
			add(r)
		}
	}
	if prof == "utf8" {
		add(0xFFFD)
		if g.chance(0.5) {
			add([]rune{'é', '€', 0x1F600}[g.r.IntN(3)])
		}
	}
	if g.chance(0.5) {
		add([]rune{'a', 'b', 'c'}[g.r.IntN(3)]) // keep most alphabets typable
	}
	for len(out) < n {
		add(runePool[g.r.IntN(len(runePool))])
	}
	return out
}

func features(prof string, fl pvcase.Flags, r *rand.Rand) feat {
	f := feat{stcW: 5}
	blocks := func() {
		f.act, f.lab, f.pred = true, true, true
		f.stc = fl.GlobalState
		f.stateEff = fl.HasState()
		f.globEff = true
		f.cloner = r.IntN(3) == 0
		f.errP = 0.2
		f.oddArgs = 0.2
		f.displayP = 0.25
	}
	switch prof {
	case "core":
		f.undefRefP = 0.01
	case "blocks":
		blocks()
	case "state":
		blocks()
		f.stc, f.stateEff, f.cloner = true, true, true
		f.stcW = 16
		f.stateShapes = true
		f.errP = 0.08
		f.oddArgs = 0.05
		// failed throws (every handler tried, none matches) between state changes: the store must come out as it went in
		f.thr = r.IntN(4) == 0
	case "panic":
		blocks()
		f.panics = true
		f.errP = 0.25
	case "throw":
		f.thr = true
		if r.IntN(2) == 0 {
			blocks()
			f.errP = 0.1
			f.oddArgs = 0.05
		}
	case "memo":
		f.memoShapes = true
		switch x := r.IntN(10); {
		case x < 4:
		case x < 8:
			blocks()
			f.stc = false
			f.errP = 0.1
			f.oddArgs = 0.05
		default:
			blocks()
			f.thr = true
			f.errP = 0.1
		}
	case "utf8":
		f.anyBoost = true
		if r.IntN(2) == 0 {
			blocks()
			f.errP = 0.1
			f.oddArgs = 0.05
		}
	case "budget":
		if r.IntN(3) == 0 {
			blocks()
			f.errP = 0.1
		}
		if r.IntN(4) == 0 {
			f.thr = true
		}
	}
	return f
}

var ruleNamePool = []string{"S", "A", "B", "C", "D"}

// randomGrammar fills cg.rules with n random rules, generated from the last
// to the first so that the nullability of forward references is known.
func (cg *caseGen) randomGrammar(n int) {
	cg.names = append([]string(nil), ruleNamePool[:n]...)
	cg.rules = make([]*pvcase.Rule, n)
	cg.ruleNull = make([]bool, n)
	cg.refd = make([]bool, n)
	cg.chCount = 0
	for i := n - 1; i >= 0; i-- {
		cg.cur = i
		depth := 1 + cg.r.IntN(4)
		if i == 0 && depth < 2 {
			depth = 2
		}
		if cg.chance(0.06) {
			depth = 5
		}
		if cg.chance(0.05) {
			depth = 0
		}
		e, null := cg.expr(ectx{depth: depth})
		if i == 0 {
			// hook up rules nobody references
			for j := 1; j < n; j++ {
				if cg.refd[j] || !cg.chance(0.8) {
					continue
				}
				ref := &pvcase.Expr{Kind: pvcase.KRef, Name: cg.names[j]}
				switch cg.r.IntN(3) {
				case 0:
					ch := cg.newChoice()
					ch.Kids = []*pvcase.Expr{e, ref}
					e, null = ch, null || cg.ruleNull[j]
				case 1:
					e = seqOf(e, ref)
					null = null && cg.ruleNull[j]
				default:
					ch := cg.newChoice()
					ch.Kids = []*pvcase.Expr{ref, e}
					e, null = ch, null || cg.ruleNull[j]
				}
			}
			if cg.chance(0.3) {
				// anchor at end of input
				e = seqOf(e, un(pvcase.KNot, &pvcase.Expr{Kind: pvcase.KAny}))
			}
			// make it likely that some block runs at all
			if (cg.f.pred || cg.f.stc) && cg.chance(0.3) {
				kinds := []string{}
				if cg.f.pred {
					kinds = append(kinds, pvcase.KAndc, pvcase.KNotc)
				}
				if cg.f.stc {
					kinds = append(kinds, pvcase.KStc, pvcase.KStc)
				}
				e = seqOf(&pvcase.Expr{Kind: pickStr(cg.r, kinds)}, e)
			}
			if cg.f.act && e.Kind != pvcase.KAct && cg.chance(0.45) {
				e = un(pvcase.KAct, e)
			}
		}
		cg.rules[i] = &pvcase.Rule{Name: cg.names[i], Expr: e}
		cg.ruleNull[i] = null
		if cg.chance(cg.f.displayP) {
			cg.rules[i].DisplayName = cg.displayName(i)
		}
	}
}

// ------------------------------------------------------------ lr templates

func lab(l string, e *pvcase.Expr) *pvcase.Expr {
	return &pvcase.Expr{Kind: pvcase.KLab, Label: l, Kids: []*pvcase.Expr{e}}
}

func refTo(n string) *pvcase.Expr { return &pvcase.Expr{Kind: pvcase.KRef, Name: n} }

// lrAlt builds `l:Left op r:Right {tup}` (labels and action optional).
func (cg *caseGen) lrAlt(left string, op *pvcase.Expr, right *pvcase.Expr, deco bool) *pvcase.Expr {
	l := refTo(left)
	var kids []*pvcase.Expr
	if deco && cg.f.lab {
		l = lab("x", l)
		if right != nil {
			right = lab("y", right)
		}
	}
	kids = append(kids, l)
	if cg.f.stc && cg.chance(0.15) {
		kids = append(kids, stc())
	}
	if op != nil {
		kids = append(kids, op)
	}
	if right != nil {
		kids = append(kids, right)
	}
	var e *pvcase.Expr = seqOf(kids...)
	if deco && cg.f.act {
		e = un(pvcase.KAct, e)
	}
	return e
}

func (cg *caseGen) operand() *pvcase.Expr {
	switch cg.r.IntN(4) {
	case 0:
		return mkClass(nil, []rune{'0', '9'}, nil, false, false, cg.flags.BasicLatin)
	case 1:
		return cg.cls()
	default:
		return cg.nonEmptyLit()
	}
}

func (cg *caseGen) operator() *pvcase.Expr {
	if cg.chance(0.15) {
		return nil // juxtaposition: A <- A T / T
	}
	ops := []string{"+", "-", "*", "_", " ", "a", "b"}
	if cg.chance(0.3) {
		return cg.nonEmptyLit()
	}
	return cg.litOf(pickStr(cg.r, ops))
}

func (cg *caseGen) maybeAct(e *pvcase.Expr) *pvcase.Expr {
	if cg.f.act && cg.chance(0.4) {
		return un(pvcase.KAct, e)
	}
	return e
}

// lrGrammar builds one of the left-recursive shapes.
func (cg *caseGen) lrGrammar() {
	cg.chCount = 0
	deco := cg.f.act && cg.chance(0.7)
	var rules []*pvcase.Rule
	wrap := cg.chance(0.5)
	topName := "E"
	switch shape := cg.r.IntN(11); {
	case shape == 10 && cg.f.act:
		// discarded growth attempt, then the same operand again: S <- E (op X)* !. ; E <- E op X closer / X ;
		// X <- operand {error}. The last "op X" without the closer is matched inside a growth attempt that is thrown
		// away (with the error X's action recorded) and then again, at the same position, by the loop of S: the
		// error must be reported (it was rolled back with the attempt, so it is new).
		op, closer := cg.litOf(pickStr(cg.r, []string{"+", "-", "*", "_"})), cg.litOf(";")
		x := un(pvcase.KAct, cg.operand())
		cg.dupActs = append(cg.dupActs, x)
		cg.cur = 1
		ch := cg.newChoice()
		ch.Kids = []*pvcase.Expr{cg.maybeAct(seqOf(refTo("E"), op, refTo("X"), closer)), refTo("X")}
		s := seqOf(refTo("E"), un(pvcase.KStar, seqOf(op.Clone(), refTo("X"))), un(pvcase.KNot, &pvcase.Expr{Kind: pvcase.KAny}))
		rules = append(rules,
			&pvcase.Rule{Name: "S", Expr: cg.maybeAct(s)},
			&pvcase.Rule{Name: "E", Leader: true, LeftRecursive: true, Expr: ch},
			&pvcase.Rule{Name: "X", Expr: x})
		wrap = false
	case shape < 4: // direct: A <- A op T / ... / T
		cg.cur = 1
		ch := cg.newChoice()
		nrec := 1 + cg.r.IntN(2)
		withT := cg.chance(0.6)
		right := func() *pvcase.Expr {
			if withT {
				return refTo("T")
			}
			return cg.operand()
		}
		for i := 0; i < nrec; i++ {
			ch.Kids = append(ch.Kids, cg.lrAlt("E", cg.operator(), right(), deco))
		}
		nbase := 1 + cg.r.IntN(2)
		for i := 0; i < nbase; i++ {
			ch.Kids = append(ch.Kids, cg.maybeAct(right()))
		}
		rules = append(rules, &pvcase.Rule{Name: "E", Leader: true, LeftRecursive: true, Expr: ch})
		if withT {
			cg.cur = 2
			t := cg.newChoice()
			t.Kids = append(t.Kids, cg.operand())
			if cg.chance(0.5) {
				t.Kids = append(t.Kids, seqOf(cg.litOf("("), refTo("E"), cg.litOf(")")))
			}
			if cg.chance(0.3) {
				t.Kids = append(t.Kids, cg.operand())
			}
			var te *pvcase.Expr = t
			if len(t.Kids) == 1 && cg.chance(0.5) {
				te = t.Kids[0]
			}
			rules = append(rules, &pvcase.Rule{Name: "T", Expr: te})
		}
	case shape < 7: // indirect: A <- T a / b ; T <- A c
		cg.cur = 1
		a := cg.newChoice()
		a.Kids = append(a.Kids, cg.lrAlt("T", cg.operator(), nil, deco))
		if len(a.Kids[0].Kids) == 1 && a.Kids[0].Kind == pvcase.KSeq {
			a.Kids[0].Kids = append(a.Kids[0].Kids, cg.operand())
		}
		a.Kids = append(a.Kids, cg.maybeAct(cg.operand()))
		cg.cur = 2
		var t *pvcase.Expr = cg.lrAlt("E", cg.operator(), cg.operand(), deco)
		if cg.chance(0.3) {
			ch := cg.newChoice()
			ch.Kids = []*pvcase.Expr{t, cg.operand()}
			t = ch
		}
		rules = append(rules,
			&pvcase.Rule{Name: "E", Leader: true, LeftRecursive: true, Expr: a},
			&pvcase.Rule{Name: "T", Leader: false, LeftRecursive: true, Expr: t})
	default: // tower: E <- E + T / E - T / T ; T <- T * F / F ; F <- ( E ) / operand
		cg.cur = 1
		e := cg.newChoice()
		e.Kids = append(e.Kids, cg.lrAlt("E", cg.litOf("+"), refTo("T"), deco))
		if cg.chance(0.6) {
			e.Kids = append(e.Kids, cg.lrAlt("E", cg.litOf("-"), refTo("T"), deco))
		}
		e.Kids = append(e.Kids, cg.maybeAct(refTo("T")))
		cg.cur = 2
		t := cg.newChoice()
		t.Kids = append(t.Kids, cg.lrAlt("T", cg.litOf("*"), refTo("F"), deco), cg.maybeAct(refTo("F")))
		cg.cur = 3
		f := cg.newChoice()
		f.Kids = append(f.Kids, seqOf(cg.litOf("("), refTo("E"), cg.litOf(")")), cg.operand())
		if cg.chance(0.3) {
			f.Kids = append(f.Kids, cg.operand())
		}
		rules = append(rules,
			&pvcase.Rule{Name: "E", Leader: true, LeftRecursive: true, Expr: e},
			&pvcase.Rule{Name: "T", Leader: true, LeftRecursive: true, Expr: t},
			&pvcase.Rule{Name: "F", Expr: f})
	}
	if wrap {
		cg.cur = 0
		var s *pvcase.Expr
		switch cg.r.IntN(5) {
		case 3:
			// the completed left-recursive rule is needed AGAIN at the same offset (answered from the leader's memo
			// entry): S <- E s1 / E s2 / E
			ch := cg.newChoice()
			ch.Kids = []*pvcase.Expr{seqOf(refTo(topName), cg.nonEmptyLit()), seqOf(refTo(topName), cg.nonEmptyLit()), refTo(topName)}
			s = ch
		case 4: // &E E
			s = seqOf(un(pvcase.KAnd, refTo(topName)), refTo(topName))
		case 0:
			s = seqOf(refTo(topName), un(pvcase.KNot, &pvcase.Expr{Kind: pvcase.KAny}))
		case 1:
			s = seqOf(un(pvcase.KStar, cg.litOf(" ")), refTo(topName))
		default:
			s = refTo(topName)
		}
		s = cg.maybeAct(s)
		rules = append([]*pvcase.Rule{{Name: "S", Expr: s}}, rules...)
	}
	cg.rules = rules
	cg.names = nil
	for _, r := range rules {
		cg.names = append(cg.names, r.Name)
		if cg.chance(cg.f.displayP) {
			r.DisplayName = "Disp" + r.Name
			if cg.chance(0.4) {
				r.DisplayName = "item" // shared by several rules: messages of different rules can coincide
			}
		}
	}
}

// --------------------------------------------------- non-terminating shapes

// wideGrammar: S <- (k1 / k2 / ... / kn) rest, n = 25..70 different literals and classes, some under a negative
// predicate, then something that may fail later.
func (cg *caseGen) wideGrammar() {
	cg.chCount = 0
	cg.cur = 0
	n := 25 + cg.r.IntN(46)
	ch := cg.newChoice()
	for i := 0; i < n; i++ {
		var k *pvcase.Expr
		switch cg.r.IntN(6) {
		case 0:
			k = mkClass([]rune{rune('A' + i%26), rune('0' + i%10)}, nil, nil, false, false, cg.flags.BasicLatin)
		case 1:
			k = seqOf(un(pvcase.KNot, mkLit([]rune(fmt.Sprintf("n%02d", i)), false)), mkLit([]rune(fmt.Sprintf("k%02d", i)), false))
		default:
			k = mkLit([]rune(fmt.Sprintf("k%02d", i)), cg.r.IntN(8) == 0)
		}
		ch.Kids = append(ch.Kids, k)
	}
	var body *pvcase.Expr = ch
	switch cg.r.IntN(3) {
	case 0:
		body = seqOf(un(pvcase.KStar, cg.nonEmptyLit()), ch, un(pvcase.KNot, &pvcase.Expr{Kind: pvcase.KAny}))
	case 1:
		body = seqOf(un(pvcase.KNot, cg.nonEmptyLit()), ch)
	}
	cg.rules = []*pvcase.Rule{{Name: "S", Expr: body}}
	cg.names = []string{"S"}
	cg.ruleNull = []bool{false}
	cg.refd = []bool{true}
}

func (cg *caseGen) divergentGrammar() {
	cg.chCount = 0
	cg.cur = 0
	var rules []*pvcase.Rule
	switch cg.r.IntN(7) {
	case 0: // (""*)*
		rules = []*pvcase.Rule{{Name: "S", Expr: un(pvcase.KStar, un(pvcase.KStar, mkLit(nil, false)))}}
	case 1: // ("a"?)*
		rules = []*pvcase.Rule{{Name: "S", Expr: un(pvcase.KStar, un(pvcase.KOpt, cg.nonEmptyLit()))}}
	case 2: // A <- A "x" / "y" without left recursion support
		ch := cg.newChoice()
		ch.Kids = []*pvcase.Expr{seqOf(refTo("S"), cg.nonEmptyLit()), cg.nonEmptyLit()}
		rules = []*pvcase.Rule{{Name: "S", Expr: ch}}
	case 3: // (&"a")+
		rules = []*pvcase.Rule{{Name: "S", Expr: un(pvcase.KPlus, un(pvcase.KAnd, cg.nonEmptyLit()))}}
	case 4: // S <- A ; A <- B ; B <- "x"? A
		rules = []*pvcase.Rule{
			{Name: "S", Expr: refTo("A")},
			{Name: "A", Expr: refTo("B")},
			{Name: "B", Expr: seqOf(un(pvcase.KOpt, cg.nonEmptyLit()), refTo("A"))},
		}
	case 5: // prefix then a nullable loop: "a" (!"b")*
		rules = []*pvcase.Rule{{Name: "S", Expr: seqOf(cg.nonEmptyLit(), un(pvcase.KStar, un(pvcase.KNot, cg.nonEmptyLit())))}}
	default: // throw re-entering its own handler: (%{L1} //{L1} %{L1})
		rules = []*pvcase.Rule{{Name: "S", Expr: &pvcase.Expr{Kind: pvcase.KRec, Labels: []string{"L1"}, Kids: []*pvcase.Expr{
			{Kind: pvcase.KThr, Label: "L1"}, {Kind: pvcase.KThr, Label: "L1"}}}}}
	}
	cg.rules = rules
	cg.names = nil
	for _, r := range rules {
		cg.names = append(cg.names, r.Name)
	}
}

// recHandlerGrammar: a recovery operator with SEVERAL labels that is re-entered recursively while its own guarded expression
// is being evaluated, with an operator listing only some of those labels in between:
//
//	Item  <- ( "(" Inner ")" / "x" %{T1} / "y" %{T2} / "z" ) //{La, Lb} RecA
//	Inner <- Item //{Lx} RecB
//	RecA  <- [A-Z] (as a one-element sequence) ; RecB <- [A-Z]
//
// which handler a throw reaches is decided by the innermost operator LISTING its label, wherever that label stands in the
// operator's list and however often the same operator is already on the stack.
func (cg *caseGen) recHandlerGrammar() {
	cg.chCount = 0
	cg.cur = 0
	pool := []string{"L1", "L2", "L3"}
	cg.r.Shuffle(3, func(i, j int) { pool[i], pool[j] = pool[j], pool[i] })
	la, lb := pool[0], pool[1]
	t1, t2 := lb, la
	if cg.chance(0.3) {
		t1, t2 = la, lb
	}
	lx := []string{lb}
	switch cg.r.IntN(4) {
	case 0:
		lx = []string{la}
	case 1:
		lx = []string{pool[2], lb}
	}
	upper := func() *pvcase.Expr {
		return mkClass(nil, []rune{'A', 'Z'}, nil, false, false, cg.flags.BasicLatin)
	}
	ch := cg.newChoice()
	ch.Kids = []*pvcase.Expr{
		seqOf(cg.litOf("("), refTo("Inner"), cg.litOf(")")),
		seqOf(cg.litOf("x"), &pvcase.Expr{Kind: pvcase.KThr, Label: t1}),
		seqOf(cg.litOf("y"), &pvcase.Expr{Kind: pvcase.KThr, Label: t2}),
		cg.litOf("z"),
	}
	cg.rules = []*pvcase.Rule{
		{Name: "Item", Expr: &pvcase.Expr{Kind: pvcase.KRec, Kids: []*pvcase.Expr{ch, refTo("RecA")}, Labels: []string{la, lb}}},
		{Name: "Inner", Expr: &pvcase.Expr{Kind: pvcase.KRec, Kids: []*pvcase.Expr{refTo("Item"), refTo("RecB")}, Labels: lx}},
		{Name: "RecA", Expr: seqOf(upper())},
		{Name: "RecB", Expr: upper()},
	}
	cg.names = []string{"Item", "Inner", "RecA", "RecB"}
}

// deepRecoveryGrammar: recovery expressions that throw again WHILE they run, so that the number of recovery expressions in
// progress grows with the input (round 18: a cap on that depth, wrong from the 65th nested throw on):
//
//	Doc    <- Word //{L} Resync
//	Word   <- "a" Word / "b" / %{L}
//	Resync <- "!" Word
//
// on the input ("!a")^k "b" the k-th throw is raised inside the recovery expression of the (k-1)-th.
func (cg *caseGen) deepRecoveryGrammar() {
	cg.chCount = 0
	cg.cur = 0
	l := pickStr(cg.r, []string{"L1", "L2", "L3"})
	ch := cg.newChoice()
	ch.Kids = []*pvcase.Expr{
		seqOf(cg.litOf("a"), refTo("Word")),
		cg.litOf("b"),
		&pvcase.Expr{Kind: pvcase.KThr, Label: l},
	}
	labels := []string{l}
	if cg.chance(0.3) {
		labels = []string{"L9", l}
	}
	cg.rules = []*pvcase.Rule{
		{Name: "Doc", Expr: &pvcase.Expr{Kind: pvcase.KRec, Kids: []*pvcase.Expr{refTo("Word"), refTo("Resync")}, Labels: labels}},
		{Name: "Word", Expr: ch},
		{Name: "Resync", Expr: seqOf(cg.litOf("!"), refTo("Word"))},
	}
	cg.names = []string{"Doc", "Word", "Resync"}
}

// statsRecoveryGrammar: an INLINE recovery expression with a choice in it, its label thrown from two different rules:
//
//	S <- (A B A B) //{L} ("!" / "?" / [x-z])
//	A <- "a" / %{L}
//	B <- "b" / %{L}
//
// the recovery expression runs wherever the throw happens, so the rule on top of the rule stack - which names the choice in
// Stats.ChoiceAltCnt - is A for one evaluation of the choice and B for the next (round 18, C18: a per-node cache of that name).
func (cg *caseGen) statsRecoveryGrammar() {
	cg.chCount = 0
	cg.cur = 0
	l := pickStr(cg.r, []string{"L1", "L2", "L3"})
	thr := func() *pvcase.Expr { return &pvcase.Expr{Kind: pvcase.KThr, Label: l} }
	rc := cg.newChoice()
	rc.Kids = []*pvcase.Expr{cg.litOf("!"), cg.litOf("?"), mkClass(nil, []rune{'x', 'z'}, nil, false, false, cg.flags.BasicLatin)}
	a := cg.newChoice()
	a.Kids = []*pvcase.Expr{cg.litOf("a"), thr()}
	b := cg.newChoice()
	b.Kids = []*pvcase.Expr{cg.litOf("b"), thr()}
	body := seqOf(refTo("A"), refTo("B"), refTo("A"), refTo("B")) // no repetition: a throw counts as nullable
	cg.rules = []*pvcase.Rule{
		{Name: "S", Expr: &pvcase.Expr{Kind: pvcase.KRec, Kids: []*pvcase.Expr{body, rc}, Labels: []string{l}}},
		{Name: "A", Expr: a},
		{Name: "B", Expr: b},
	}
	cg.names = []string{"S", "A", "B"}
}

// floodGrammar: S <- .* "never" (kind 1) or S <- A* "never" ; A <- "a" {error} (kind 2)
func (cg *caseGen) floodGrammar(kind int) {
	cg.chCount = 0
	cg.cur = 0
	never := cg.litOf("never")
	if kind == 1 {
		cg.rules = []*pvcase.Rule{{Name: "S", Expr: seqOf(un(pvcase.KStar, &pvcase.Expr{Kind: pvcase.KAny}), never)}}
		cg.names = []string{"S"}
		return
	}
	a := un(pvcase.KAct, cg.litOf("a"))
	cg.dupActs = append(cg.dupActs, a)
	cg.rules = []*pvcase.Rule{
		{Name: "S", Expr: seqOf(un(pvcase.KStar, refTo("A")), never)},
		{Name: "A", Expr: a},
	}
	cg.names = []string{"S", "A"}
}

// memoFloodGrammar: S <- Items "x" / Items "y" ; Items <- A+ ; A <- "a" {error}: a span with MANY distinct code-block errors
// (one per position) that ordinary backtracking parses twice and a memoized parser once (round 17: errors de-duplicated in a
// bounded look-back window while recording - 16 entries - instead of at the end: the plain parse reports each error twice)
func (cg *caseGen) memoFloodGrammar() {
	cg.chCount = 0
	cg.cur = 0
	a := un(pvcase.KAct, cg.litOf("a"))
	cg.dupActs = append(cg.dupActs, a)
	ch := cg.newChoice()
	ch.Kids = []*pvcase.Expr{seqOf(refTo("Items"), cg.litOf("x")), seqOf(refTo("Items"), cg.litOf("y"))}
	cg.rules = []*pvcase.Rule{
		{Name: "S", Expr: ch},
		{Name: "Items", Expr: un(pvcase.KPlus, refTo("A"))},
		{Name: "A", Expr: a},
	}
	cg.names = []string{"S", "Items", "A"}
}

// memoLongGrammar: S <- A B "x" / A B "y" ; A <- "a"+ ; B <- "b"* on an input of several thousand bytes: the second alternative
// re-reads A and B at offsets whose table entries were made many thousand offsets earlier (round 22: the memo table thrown away
// once it covers 4096 offsets - results unchanged, every expression evaluated twice)
func (cg *caseGen) memoLongGrammar() {
	cg.chCount = 0
	cg.cur = 0
	ch := cg.newChoice()
	ch.Kids = []*pvcase.Expr{seqOf(refTo("A"), refTo("B"), cg.litOf("x")), seqOf(refTo("A"), refTo("B"), cg.litOf("y"))}
	cg.rules = []*pvcase.Rule{
		{Name: "S", Expr: ch},
		{Name: "A", Expr: un(pvcase.KPlus, cg.litOf("a"))},
		{Name: "B", Expr: un(pvcase.KStar, cg.litOf("b"))},
	}
	cg.names = []string{"S", "A", "B"}
}

// ------------------------------------------------------------------ cases

func renumber(c *pvcase.Case) {
	id := 0
	for _, r := range c.Grammar.Rules {
		r.Expr.Walk(func(e *pvcase.Expr) {
			id++
			e.ID = id
		})
	}
}

// displayName draws the display name of rule i: usually its own, sometimes one that several rules share or the NAME
// of another rule (the message prefix shows the text, not the identity of the rule: identical messages from
// different rules are one message for the error list).
func (cg *caseGen) displayName(i int) string {
	switch {
	case cg.chance(0.35):
		return "item"
	case cg.chance(0.1) && len(cg.names) > 1:
		return cg.names[(i+1)%len(cg.names)]
	}
	return "Disp" + cg.names[i]
}

// dupErrShape: two DIFFERENT rules with the same display name, one starting with a reference to the other, whose
// actions return the same error: the two recorded errors have the same position, prefix and text, i.e. they are
// one message for the error list (errors are de-duplicated by their message, not by where they came from).
func (cg *caseGen) dupErrShape() {
	i := cg.r.IntN(len(cg.rules) - 1)
	j := i + 1 + cg.r.IntN(len(cg.rules)-i-1)
	ri, rj := cg.rules[i], cg.rules[j]
	aj := rj.Expr
	if aj.Kind != pvcase.KAct {
		aj = un(pvcase.KAct, rj.Expr)
		rj.Expr = aj
	}
	ai := un(pvcase.KAct, seqOf(refTo(rj.Name), un(pvcase.KOpt, ri.Expr)))
	ri.Expr = ai
	name := "item"
	if cg.chance(0.3) {
		name = "" // no display names: then the rule NAMES differ and the two messages are two messages
	}
	ri.DisplayName, rj.DisplayName = name, name
	if j < len(cg.refd) {
		cg.refd[j] = true
	}
	cg.dupActs = []*pvcase.Expr{ai, aj}
}

// tailObserver makes the start rule end in terminals that are tried - and mostly fail - wherever the body stopped
// (very often the end of the input), followed by a block that observes the position there: `body !lit (&lit)? &{...}`,
// `body lit? (!. {...})?`. What a failed terminal leaves behind at the end of input is visible only to such a block.
func (cg *caseGen) tailObserver() {
	r0 := cg.rules[0]
	probe := func() *pvcase.Expr {
		rs := []rune{cg.pick(cg.alpha)}
		if cg.f.anyBoost && cg.chance(0.5) {
			rs[0] = 0xFFFD // equal to the end-of-input sentinel
		}
		for cg.chance(0.4) {
			rs = append(rs, cg.pick(cg.alpha))
		}
		return mkLit(rs, cg.chance(0.2))
	}
	kids := []*pvcase.Expr{r0.Expr}
	for n := 1 + cg.r.IntN(2); n > 0; n-- {
		switch cg.r.IntN(3) {
		case 0:
			kids = append(kids, un(pvcase.KNot, probe()))
		case 1:
			kids = append(kids, un(pvcase.KOpt, probe()))
		default:
			kids = append(kids, un(pvcase.KOpt, un(pvcase.KAnd, probe())))
		}
	}
	if cg.chance(0.3) {
		kids = append(kids, &pvcase.Expr{Kind: pvcase.KAndc}) // (sees the position of the last action: finding D2)
	} else {
		kids = append(kids, un(pvcase.KOpt, un(pvcase.KAct, un(pvcase.KNot, &pvcase.Expr{Kind: pvcase.KAny}))))
	}
	r0.Expr = seqOf(kids...)
}

func fuelFor(maxExpr uint64) uint64 {
	if maxExpr == 0 {
		return 400
	}
	if maxExpr+50 > 6000 {
		return 6000
	}
	return maxExpr + 50
}

func (g *generator) budget() uint64 {
	switch x := g.r.IntN(10); {
	case x < 2:
		return uint64(50 + g.r.IntN(50))
	case x < 7:
		return uint64(100 + g.r.IntN(400))
	default:
		return uint64(500 + g.r.IntN(2500))
	}
}

// tightBudget spreads budgets around what a small parse needs.
func (g *generator) tightBudget() uint64 {
	switch x := g.r.IntN(22); {
	case x >= 20:
		// "for all budgets": the far end of the range (the grammar terminates on its own, so these
		// budgets are never exhausted and the result must be the unbounded one)
		huge := []uint64{1 << 32, 1<<32 + 7, 1<<32 + 1, 1<<33 + 5, 1<<40 + 12, 1<<63 + 3, 1<<64 - 2, 1<<31 + 9, 1 << 16, 1<<32 - 1}
		return huge[g.r.IntN(len(huge))]
	case x < 4:
		return uint64(1 + g.r.IntN(10))
	case x < 11:
		return uint64(10 + g.r.IntN(50))
	case x < 17:
		return uint64(60 + g.r.IntN(240))
	default:
		return uint64(300 + g.r.IntN(2700))
	}
}

func (cg *caseGen) stores(c *pvcase.Case) {
	o := &c.Opts
	if cg.f.stateEff && cg.flags.HasState() && cg.chance(0.6) {
		if cg.f.cloner || cg.chance(0.2) {
			ns := []int64{}
			for n := cg.r.IntN(3); n > 0; n-- {
				ns = append(ns, int64(cg.r.IntN(5)))
			}
			if cg.chance(0.4) {
				// a placeholder under the key that a state block later REPLACES by a Cloner value: the store keeps its size,
				// what has to be cloned changes (round 23: the set of Cloner keys cached until the store's size changes)
				o.InitState = append(o.InitState, pvcase.StoreEntry{Key: "c", Val: []pvcase.Val{pvcase.IntVal(0), pvcase.NilVal()}[cg.r.IntN(2)]})
			} else {
				o.InitState = append(o.InitState, pvcase.StoreEntry{Key: "c", Val: pvcase.ClVal(ns...)})
			}
		}
		if cg.chance(0.5) {
			o.InitState = append(o.InitState, pvcase.StoreEntry{Key: "n", Val: pvcase.IntVal(int64(cg.r.IntN(3)))})
		}
		if cg.chance(0.25) {
			o.InitState = append(o.InitState, pvcase.StoreEntry{Key: "k", Val: cg.constVal(0)})
		}
	}
	if cg.f.globEff && cg.chance(0.4) {
		if cg.f.cloner || cg.chance(0.2) {
			o.GlobalStore = append(o.GlobalStore, pvcase.StoreEntry{Key: "h", Val: pvcase.ClVal(int64(cg.r.IntN(4)))})
		}
		if cg.chance(0.5) {
			o.GlobalStore = append(o.GlobalStore, pvcase.StoreEntry{Key: "g", Val: pvcase.IntVal(int64(cg.r.IntN(3)))})
		}
		if cg.chance(0.2) {
			o.GlobalStore = append(o.GlobalStore, pvcase.StoreEntry{Key: "m", Val: cg.constVal(0)})
		}
	}
}

// genCase produces one case of the given (non-mixed) profile, possibly with
// a twin.
func (g *generator) genCase(prof string) ([]*pvcase.Case, *caseGen) {
	vs := g.variantsFor(prof)
	fl := vs[g.r.IntN(len(vs))]
	cg := &caseGen{r: g.r, st: g.st, flags: fl}
	cg.f = features(prof, fl, g.r)
	cg.alpha = g.alphabet(prof)
	if prof == "lr" {
		// operators and parentheses come from literals; operands from here
		cg.f.act, cg.f.lab = g.chance(0.7), true
		cg.f.tupBias = 0.6
		if cg.f.act {
			cg.f.globEff = g.chance(0.3)
			cg.f.stateEff = fl.HasState() && g.chance(0.3)
			cg.f.errP = 0.12
		}
		cg.f.stc = fl.GlobalState && g.chance(0.4)
		if cg.f.stc {
			cg.f.stateEff = true
		}
	}

	c := &pvcase.Case{Flags: fl, Opts: pvcase.DefaultOpts()}
	o := &c.Opts

	// ---- options
	if g.chance(0.3) {
		// the name is data: nothing in it may be interpreted (format verbs, separators, quotes)
		names := []string{"f.peg", "f.peg", "my%20file.txt", "100%.peg", "%d%s%v%!", "dir with space/ünï 世界.peg", "a:1:2 (3): rule X", "C:\\x\\y.peg", "-", "\"q\".peg",
			// legal but not canonical spellings of a path: the name in the messages is the name the caller gave (round 23)
			"./f.peg", ".//g.peg", "./././h.peg"}
		o.Filename = names[g.r.IntN(len(names))]
	}
	if !fl.Optimize {
		o.Debug = g.chance(0.04)
		o.Stats = g.chance(0.15)
	}
	divergent, lrBudget := false, false
	flood := 0                                                 // error flood under a budget: 1 = undecodable bytes, 2 = action errors
	recFamily := prof == "throw" && g.chance(0.06)             // recursive handlers with several labels (floodGrammar's sibling)
	deepRec := prof == "throw" && !recFamily && g.chance(0.03) // recovery expressions nested as deep as the input is long
	statsRec := prof == "throw" && !recFamily && !deepRec && (g.chance(0.04) || (os.Getenv("PVGEN_FORCE") == "statsrec" && g.chance(0.7)))
	memoFlood := prof == "memo" && g.chance(0.03) // a re-parsed span with dozens of distinct code-block errors
	memoLong := prof == "memo" && !memoFlood && g.chance(0.004) // a re-parsed span of several thousand bytes
	// a keyword table: dozens of different terminals tried at one offset (the expected set of a failure there lists all)
	wide := (prof == "core" || prof == "utf8") && g.chance(0.03)
	switch prof {
	case "core":
		if g.chance(0.15) {
			o.MaxExpr = g.budget()
			cg.f.wild = true
		} else if !fl.Optimize {
			o.Memoize = g.chance(0.1)
		}
		if g.chance(0.1) {
			o.HasEntry = true
		}
	case "blocks", "state", "throw":
		if !fl.Optimize {
			o.Memoize = g.chance(0.08)
		}
		if g.chance(0.04) {
			o.HasEntry = true
		}
		if g.chance(0.05) {
			o.MaxExpr = g.budget()
			cg.f.wild = true
			o.Memoize = false
		}
	case "panic":
		o.Recover = g.chance(0.5)
	case "memo":
		o.Memoize = g.chance(0.7)
		if !o.Memoize {
			o.Stats = g.chance(0.3)
		}
	case "lr":
		if !fl.Optimize {
			o.Memoize = g.chance(0.4)
		}
	case "utf8":
		o.AllowInvalid = g.chance(0.5)
	case "budget":
		o.Recover = g.chance(0.5)
		o.Memoize = false
		// the seed-growing loop under a budget: every attempt, the discarded one included, is charged
		lrBudget = fl.LeftRec && g.chance(0.35)
		divergent = !lrBudget && g.chance(0.3)
		if divergent {
			o.MaxExpr = g.budget()
			cg.f.wild = g.chance(0.5) // a random unrestricted grammar instead of a template
		} else {
			o.MaxExpr = g.tightBudget()
		}
		if g.chance(0.05) {
			// a budget that runs out AFTER a hundred or so distinct errors have been recorded (undecodable bytes, or
			// an action that fails at every position): the budget error must still be reported, as the last one
			flood = 1 + g.r.IntN(2)
			divergent, lrBudget = true, false
			cg.f.wild = false
			o.Recover = true
		}
	}
	if prof != "utf8" && g.chance(0.08) {
		o.AllowInvalid = true
	}

	// ---- grammar
	for attempt := 0; ; attempt++ {
		cg.dupActs = nil
		switch {
		case recFamily:
			cg.recHandlerGrammar()
		case deepRec:
			cg.deepRecoveryGrammar()
		case statsRec:
			cg.statsRecoveryGrammar()
		case flood != 0:
			cg.floodGrammar(flood)
		case memoFlood:
			cg.memoFloodGrammar()
		case memoLong:
			cg.memoLongGrammar()
		case prof == "lr" || lrBudget:
			cg.lrGrammar()
		case wide:
			cg.wideGrammar()
		case divergent && !cg.f.wild:
			cg.divergentGrammar()
		default:
			n := 1 + g.r.IntN(5)
			if prof == "memo" && n < 2 {
				n = 2
			}
			cg.randomGrammar(n)
			if prof == "memo" && cg.chance(0.6) {
				// make sure the top of the start rule shares a prefix rule
				cg.cur = 0
				e, _ := cg.memoShape(ectx{depth: 2})
				if cg.chance(0.5) {
					ch := cg.newChoice()
					ch.Kids = []*pvcase.Expr{e, cg.rules[0].Expr}
					e = ch
				}
				cg.rules[0].Expr = e
			}
		}
		if prof != "lr" && !lrBudget && !wide && !divergent && cg.f.act && cg.f.errP > 0 && len(cg.rules) >= 2 && cg.chance(0.12) {
			cg.dupErrShape()
		}
		if prof != "lr" && !lrBudget && !wide && !divergent && !cg.f.wild && cg.f.act && cg.chance(map[bool]float64{true: 0.35, false: 0.12}[prof == "utf8"]) {
			cg.tailObserver()
		}
		c.Grammar.Rules = cg.rules
		if (pvterm.Budgeted(c) && (cg.f.wild || divergent)) || pvterm.Check(c) == nil {
			break
		}
		g.st.Rejected++
		if attempt > 200 {
			panic(fmt.Sprintf("pvgen: cannot satisfy the termination discipline for profile %s", prof))
		}
	}
	if !fl.LeftRec {
		for _, r := range c.Grammar.Rules {
			r.Leader, r.LeftRecursive = false, false
		}
	}
	cg.assignBlocks()
	for _, a := range cg.dupActs {
		for _, b := range cg.blocks {
			if b.ID == a.Blk {
				b.Err = &pvcase.Fault{Kind: 'e', Msg: "dup", Always: true}
				b.Panic = nil
			}
		}
	}
	c.Blocks = cg.blocks
	renumber(c)
	cg.stores(c)

	// ---- entry point
	start := c.Grammar.Rules[0]
	if o.HasEntry {
		switch x := g.r.IntN(10); {
		case x < 1:
			o.Entry = "" // Entrypoint(""): first rule
		case x < 8:
			start = c.Grammar.Rules[g.r.IntN(len(c.Grammar.Rules))]
			o.Entry = start.Name
		default:
			o.Entry = "Nope"
		}
	}

	// ---- input
	malformedP := 0.0
	if prof == "utf8" {
		malformedP = 0.75
	}
	c.Input = cg.makeInput(start, prof == "lr", malformedP)
	c.Input = clampInput(c, c.Input, prof == "budget" && !divergent)
	if recFamily {
		depth := g.r.IntN(4)
		in := strings.Repeat("(", depth) + pickStr(g.r, []string{"x", "y", "x", "z"}) + pickStr(g.r, []string{"Q", "Q", "q", ""})
		for i := 0; i < depth; i++ {
			in += pickStr(g.r, []string{")", ")", ")", "Q)", ""})
		}
		c.Input = []byte(in)
	}
	if statsRec {
		var in []byte
		for n := 2; n > 0; n-- {
			in = append(in, pickStr(g.r, []string{"a", "a", "!", "?", "y"})...)
			in = append(in, pickStr(g.r, []string{"b", "b", "!", "?", "z", ""})...)
		}
		c.Input = in
		o.MaxExpr = 0
		if !fl.Optimize {
			o.Stats = true
		}
	}
	if deepRec {
		// depths on both sides of every plausible cap (16, 32, 64, 100, 128)
		k := []int{0, 1, 2, 3, 15, 16, 17, 31, 32, 33, 63, 64, 65, 66, 99, 100, 101, 127, 128, 129}[g.r.IntN(20)]
		if g.chance(0.3) {
			k = g.r.IntN(135)
		}
		c.Input = []byte(strings.Repeat("!a", k) + pickStr(g.r, []string{"b", "b", "b", "", "!"}))
		o.MaxExpr = 0
	}
	if memoLong {
		n := []int{1000, 4090, 4100, 5000, 9000}[g.r.IntN(5)] // both sides of 4096
		c.Input = append(append([]byte("aa"), bytes.Repeat([]byte("b"), n)...), pickStr(g.r, []string{"y", "y", "x", "z"})...)
		o.MaxExpr = 0
		o.Memoize = true
	}
	if memoFlood {
		n := 3 + g.r.IntN(40) // both sides of any small window
		c.Input = append(bytes.Repeat([]byte("a"), n), pickStr(g.r, []string{"y", "y", "x", "z"})...)
		o.MaxExpr = 0
		o.Memoize = true
	}
	if flood != 0 {
		n := 100 + g.r.IntN(160)
		k := uint64(100 + g.r.IntN(n-95)) // errors before the budget runs out: both sides of any cap near 100
		in := make([]byte, n)
		for i := range in {
			if flood == 1 {
				in[i] = []byte{0xff, 0x80, 0xc0, 0xfe, 0xbf}[g.r.IntN(5)]
			} else {
				in[i] = 'a'
			}
		}
		c.Input = in
		o.AllowInvalid = false
		if flood == 1 {
			o.MaxExpr = k + uint64(g.r.IntN(4)) // `.` costs one expression per byte
		} else {
			o.MaxExpr = 3*k + uint64(g.r.IntN(3)) // reference, action, literal per byte
		}
	}
	if o.Debug && !pvterm.Budgeted(c) && recursionFanout(c) >= 2 {
		o.Debug = false // debug output makes every expression ~50 times slower
	}
	c.Fuel = fuelFor(o.MaxExpr)
	if deepRec {
		c.Fuel = 6000 // about a dozen levels of the interpreter per nested recovery
	}
	if memoLong {
		c.Fuel = 12000 // the model's repetition takes one unit of fuel per iteration
	}

	out := []*pvcase.Case{c}

	// ---- twins
	switch {
	case prof == "memo" && o.Memoize:
		t := c.Clone()
		t.Opts.Memoize = false
		out = append(out, t)
	case prof == "budget" && !divergent && pvterm.Check(c) == nil:
		t := c.Clone()
		t.Opts.MaxExpr = 0
		t.Fuel = fuelFor(0)
		out = append(out, t)
	}
	return out, cg
}
