// Command pvhist checks that what builder.BuildParser emits for a grammar and an option set does not depend on what
// the process built before (C19: "repeated builds in one process"; a cache or a piece of package-level state that
// survives a build would show here and nowhere else).
//
// One process builds n generated grammars (with and without state blocks, code predicates, throw/recover) under every
// subset of {Optimize, BasicLatinLookupTable, Nolint} in two different random orders; every output must be
// byte-identical (a) in both orders and (b) to the output of a fresh process that builds only that grammar with
// only that option set (the tool re-executes itself with -child).
//
//	pvhist [-seed S] [-n N] [-out DIR] [-j J]
//
// One JSON report on stdout (same shape as the other tools); exit status 0 unless the tool itself cannot run.
package main

import (
	"bytes"
	"crypto/sha256"
	"encoding/hex"
	"flag"
	"fmt"
	"math/rand"
	"os"
	"os/exec"
	"path/filepath"
	"strconv"
	"strings"
	"sync"

	"github.com/mna/pigeon/ast"
	"github.com/mna/pigeon/builder"

	"pvharness/pvpeg"
)

const nMasks = 8

func gen(seed int64, i int) *ast.Grammar {
	r := pvpeg.SubRand(seed, 0, i)
	cfg := pvpeg.Cfg{WellFormed: true, Compilable: true, UniqueLabels: true, Pkg: "main"}
	cfg.NoState = r.Intn(2) == 0
	cfg.NoThrow = r.Intn(2) == 0
	cfg.NoCodePreds = r.Intn(3) == 0
	return pvpeg.Gen(r, cfg)
}

func build(g *ast.Grammar, mask int) (sum string, err error) {
	defer func() {
		if x := recover(); x != nil {
			err = fmt.Errorf("BuildParser panicked: %v", x)
		}
	}()
	var buf bytes.Buffer
	err = builder.BuildParser(&buf, pvpeg.Clone(g), builder.Optimize(mask&1 != 0), builder.BasicLatinLookupTable(mask&2 != 0),
		builder.Nolint(mask&4 != 0), builder.SupportLeftRecursion(false))
	if err != nil {
		return "", err
	}
	h := sha256.Sum256(buf.Bytes())
	return hex.EncodeToString(h[:]) + " " + strconv.Itoa(buf.Len()), nil
}

func main() {
	seed := flag.Int64("seed", 1, "random seed")
	n := flag.Int("n", 40, "number of grammars")
	out := flag.String("out", "/tmp/pvh.pvhist.out", "directory for failing cases")
	jobs := flag.Int("j", 16, "parallel fresh processes")
	child := flag.Bool("child", false, "internal: build one grammar with one option set, print its digest")
	ci := flag.Int("i", 0, "internal: grammar index")
	cm := flag.Int("mask", 0, "internal: option set")
	flag.Parse()
	if *child {
		s, err := build(gen(*seed, *ci), *cm)
		if err != nil {
			fmt.Println("error:", err)
			return
		}
		fmt.Println(s)
		return
	}
	rep := pvpeg.NewReport("pvhist", *seed, *out)
	grams := make([]*ast.Grammar, *n)
	texts := make([]string, *n)
	for i := range grams {
		grams[i] = gen(*seed, i)
		st := pvpeg.Styles[0]
		texts[i] = pvpeg.Print(grams[i], pvpeg.SubRand(*seed, 1, i), st)
		kinds, _ := pvpeg.CountKinds(grams[i])
		rep.KindHistogram("node_kinds", kinds[:])
		rep.Seen(texts[i], true)
	}
	type job struct{ i, mask int }
	var all []job
	for i := 0; i < *n; i++ {
		for m := 0; m < nMasks; m++ {
			all = append(all, job{i, m})
		}
	}
	name := func(j job, kind string) string { return fmt.Sprintf("pvhist-s%d-i%d-m%d-%s.peg", *seed, j.i, j.mask, kind) }
	maskName := func(m int) []string {
		var fl []string
		for b, nm := range []string{"Optimize", "BasicLatinLookupTable", "Nolint"} {
			if m&(1<<uint(b)) != 0 {
				fl = append(fl, nm)
			}
		}
		return fl
	}
	// two orders in this process
	results := make([]map[job]string, 2)
	for round := 0; round < 2; round++ {
		order := append([]job(nil), all...)
		r := rand.New(rand.NewSource(*seed*7919 + int64(round)))
		r.Shuffle(len(order), func(a, b int) { order[a], order[b] = order[b], order[a] })
		results[round] = map[job]string{}
		for _, j := range order {
			s, err := build(grams[j.i], j.mask)
			if err != nil {
				s = "error: " + err.Error()
			}
			results[round][j] = s
			rep.Count("builds", "in_process", 1)
		}
	}
	failed := map[job]bool{}
	for _, j := range all {
		if results[0][j] != results[1][j] {
			failed[j] = true
			rep.Fail("history-dependent", fmt.Sprintf("two builds of the same grammar with the same options in ONE process differ (what was built in between differs): %s vs %s", results[0][j], results[1][j]),
				name(j, "history-dependent"), texts[j.i], maskName(j.mask))
		}
	}
	// fresh processes
	self, err := os.Executable()
	if err != nil {
		fmt.Fprintln(os.Stderr, "pvhist:", err)
		os.Exit(2)
	}
	fresh := make([]string, len(all))
	var wg sync.WaitGroup
	sem := make(chan struct{}, *jobs)
	for k, j := range all {
		wg.Add(1)
		sem <- struct{}{}
		go func(k int, j job) {
			defer wg.Done()
			defer func() { <-sem }()
			outb, err := exec.Command(self, "-child", "-seed", strconv.FormatInt(*seed, 10), "-i", strconv.Itoa(j.i), "-mask", strconv.Itoa(j.mask)).Output()
			if err != nil {
				fresh[k] = "child failed: " + err.Error()
				return
			}
			fresh[k] = strings.TrimSpace(string(outb))
		}(k, j)
	}
	wg.Wait()
	for k, j := range all {
		rep.Count("builds", "fresh_process", 1)
		if strings.HasPrefix(fresh[k], "child failed") {
			rep.Fail("harness", fresh[k], name(j, "harness"), texts[j.i], maskName(j.mask))
			continue
		}
		if !failed[j] && fresh[k] != results[0][j] {
			rep.Fail("history-dependent", fmt.Sprintf("the output of a process that built other grammars before differs from the output of a fresh process: %s vs %s", results[0][j], fresh[k]),
				name(j, "history-dependent"), texts[j.i], maskName(j.mask))
		}
	}
	_ = filepath.Join
	rep.Print(os.Stdout)
}
