// Command pvhostgen generates and builds the 16 host executables, one per
// behavioural template variant of the pigeon runtime.
//
//	pvhostgen -pigeon /verif/build/bin/pigeon -out /verif/build/hosts
//
// For each variant o<0|1>g<0|1>l<0|1>b<0|1> it writes a seed grammar, runs the
// given pigeon binary on it with the matching flags to obtain parser.go,
// renders hosttmpl/host.go.tmpl next to it (same package main) and finally
// builds all hosts with one `go build`.
package main

import (
	"bytes"
	"flag"
	"fmt"
	"go/format"
	"os"
	"os/exec"
	"path/filepath"
	"strings"
	"sync"
	"text/template"
	"time"

	"pvharness/hosttmpl"
	"pvharness/pvcase"
)

func seedGrammar(f pvcase.Flags) string {
	var b strings.Builder
	b.WriteString("{\npackage main\n}\n\n")
	if f.GlobalState {
		b.WriteString("S <- #{ return nil } A [\\p{L}] !.\n")
	} else {
		b.WriteString("S <- A [\\p{L}] !.\n")
	}
	if f.LeftRec {
		b.WriteString("A <- A \"a\" / \"b\"\n")
	} else {
		b.WriteString("A <- \"a\" / \"b\"\n")
	}
	return b.String()
}

type tmplData struct {
	Variant     string
	Optimize    bool
	GlobalState bool
	LeftRec     bool
	BasicLatin  bool
	HasState    bool
}

func die(format string, args ...any) {
	fmt.Fprintf(os.Stderr, "pvhostgen: "+format+"\n", args...)
	os.Exit(1)
}

// checkGenerated verifies that the generated parser really is the variant we
// asked for (the template guards are driven by what the builder saw).
func checkGenerated(src []byte, f pvcase.Flags) error {
	has := func(s string) bool { return bytes.Contains(src, []byte(s)) }
	checks := []struct {
		what string
		got  bool
		want bool
	}{
		{"stateCodeExpr type", has("type stateCodeExpr struct"), f.HasState()},
		{"Cloner interface", has("type Cloner interface"), f.HasState()},
		{"InitState option", has("func InitState("), f.HasState()},
		{"Memoize option", has("func Memoize("), !f.Optimize},
		{"Debug option", has("func Debug("), !f.Optimize},
		{"Statistics option", has("func Statistics("), !f.Optimize},
		{"left recursion runtime", has("parseRuleRecursiveLeader"), f.LeftRec},
		{"rule.leader field", has("leftRecursive bool"), f.LeftRec},
		// the table variant is recognised by ANY read of the table (the exact shape of the fast path is
		// pigeon's business: a refactoring of it must not stop the hosts from being generated)
		{"basic latin table read", has("chr.basicLatinChars["), f.BasicLatin},
		{"rangeTable function", has("func rangeTable("), true},
		{"func main", has("func main("), false},
	}
	for _, c := range checks {
		if c.got != c.want {
			return fmt.Errorf("generated parser: %s present=%v, want %v", c.what, c.got, c.want)
		}
	}
	return nil
}

func main() {
	var (
		pigeon  = flag.String("pigeon", "/verif/build/bin/pigeon", "path to the pigeon binary")
		out     = flag.String("out", "/verif/build/hosts", "directory receiving the host executables")
		harness = flag.String("harness", "/verif/harness", "root of the pvharness module")
		quiet   = flag.Bool("q", false, "quiet")
	)
	flag.Parse()
	if flag.NArg() != 0 {
		flag.Usage()
		os.Exit(2)
	}
	start := time.Now()

	pigeonAbs, err := filepath.Abs(*pigeon)
	if err != nil {
		die("%v", err)
	}
	if _, err := os.Stat(pigeonAbs); err != nil {
		die("pigeon binary: %v", err)
	}
	outAbs, err := filepath.Abs(*out)
	if err != nil {
		die("%v", err)
	}
	root, err := filepath.Abs(*harness)
	if err != nil {
		die("%v", err)
	}
	if _, err := os.Stat(filepath.Join(root, "go.mod")); err != nil {
		die("harness module: %v", err)
	}

	tmpl, err := template.New("host").Parse(hosttmpl.Source)
	if err != nil {
		die("template: %v", err)
	}

	genRoot := filepath.Join(root, "hosts_gen")
	if err := os.RemoveAll(genRoot); err != nil {
		die("%v", err)
	}
	if err := os.MkdirAll(outAbs, 0o755); err != nil {
		die("%v", err)
	}
	variants := pvcase.AllVariants()
	for _, f := range variants {
		// stale executables must never survive either
		if err := os.Remove(filepath.Join(outAbs, f.Variant())); err != nil && !os.IsNotExist(err) {
			die("%v", err)
		}
	}

	var wg sync.WaitGroup
	errs := make([]error, len(variants))
	for i, f := range variants {
		wg.Add(1)
		go func(i int, f pvcase.Flags) {
			defer wg.Done()
			errs[i] = genVariant(tmpl, pigeonAbs, genRoot, f)
		}(i, f)
	}
	wg.Wait()
	for i, e := range errs {
		if e != nil {
			die("%s: %v", variants[i].Variant(), e)
		}
	}

	cmd := exec.Command("go", "build", "-o", outAbs+string(os.PathSeparator), "./hosts_gen/...")
	cmd.Dir = root
	cmd.Env = append(os.Environ(), "GOFLAGS=-mod=mod", "GOPROXY=off")
	if outb, err := cmd.CombinedOutput(); err != nil {
		die("go build: %v\n%s", err, outb)
	}
	for _, f := range variants {
		if _, err := os.Stat(filepath.Join(outAbs, f.Variant())); err != nil {
			die("host not built: %v", err)
		}
	}
	if !*quiet {
		fmt.Fprintf(os.Stderr, "pvhostgen: built %d hosts in %s (%.1fs)\n", len(variants), outAbs, time.Since(start).Seconds())
	}
}

func genVariant(tmpl *template.Template, pigeon, genRoot string, f pvcase.Flags) error {
	dir := filepath.Join(genRoot, f.Variant())
	if err := os.RemoveAll(dir); err != nil {
		return err
	}
	if err := os.MkdirAll(dir, 0o755); err != nil {
		return err
	}
	seed := filepath.Join(dir, "seed.peg")
	if err := os.WriteFile(seed, []byte(seedGrammar(f)), 0o644); err != nil {
		return err
	}
	args := []string{}
	if f.Optimize {
		args = append(args, "-optimize-parser")
	}
	if f.BasicLatin {
		args = append(args, "-optimize-basic-latin")
	}
	if f.LeftRec {
		args = append(args, "-support-left-recursion")
	}
	parser := filepath.Join(dir, "parser.go")
	args = append(args, "-o", parser, seed)
	cmd := exec.Command(pigeon, args...)
	cmd.Dir = dir
	if outb, err := cmd.CombinedOutput(); err != nil {
		return fmt.Errorf("pigeon %s: %v\n%s", strings.Join(args, " "), err, outb)
	}
	src, err := os.ReadFile(parser)
	if err != nil {
		return err
	}
	if err := checkGenerated(src, f); err != nil {
		// advisory only: these are textual markers of the template variant. What the host really needs from the
		// generated parser is checked by the Go compiler when host.go is built against it; a refactoring of the
		// runtime (renamed helper, a comment mentioning another variant's function) must not fail every check.
		fmt.Fprintf(os.Stderr, "pvhostgen: warning: %s: %v\n", f.Variant(), err)
	}
	var buf bytes.Buffer
	err = tmpl.Execute(&buf, tmplData{
		Variant: f.Variant(), Optimize: f.Optimize, GlobalState: f.GlobalState,
		LeftRec: f.LeftRec, BasicLatin: f.BasicLatin, HasState: f.HasState(),
	})
	if err != nil {
		return err
	}
	src, err = format.Source(buf.Bytes())
	if err != nil {
		return fmt.Errorf("rendered host.go does not parse: %v", err)
	}
	return os.WriteFile(filepath.Join(dir, "host.go"), src, 0o644)
}
