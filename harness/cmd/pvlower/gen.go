package main

import (
	"math/rand"
	"strings"
	"unicode"
	"unicode/utf8"

	"github.com/mna/pigeon/ast"

	"pvharness/pvpeg"
)

// special are the code points that the lowering of the i flag is most likely
// to get wrong: case pairs whose members have different UTF-8 lengths
// (U+023A/U+2C65, U+0130 -> i, KELVIN SIGN U+212A -> k, U+1E9E -> U+00DF),
// runes without a simple lower-case counterpart that still fold (U+0131,
// final sigma), a title-case letter, and U+FFFD, which is also what the
// runtime reads for a byte that is not UTF-8.
var special = []rune{0x23a, 0x2c65, 0x130, 0x131, 'K', 'k', 0x212a, 0xfffd, 0xdf, 0x1e9e, 'I', 'i', 0x1c5, 0x3a3, 0x3c3, 0x3c2, 'S', 0x17f,
	0x2167, 0x2177, 0x24b6, 0x24d0, 0x345} // the last five are not letters but have case mappings

// caseless-looking company for a special rune in a literal that consists of nothing else
const uncased = "0123456789+-_<>. "

var specialRanges = [][2]rune{{0x23a, 0x2c65}, {'K', 0x212a}, {'I', 0x131}, {0xdf, 0x1e9e}, {'A', 'z'}, {0x3a3, 0x3c3}, {'k', 0x17f}}

// stripCode replaces every action by its expression. (State blocks and code
// predicates are not generated at all: Cfg.NoState, Cfg.NoCodePreds.)
func stripCode(e ast.Expression) ast.Expression {
	switch e := e.(type) {
	case *ast.ActionExpr:
		return stripCode(e.Expr)
	case *ast.ChoiceExpr:
		for i, a := range e.Alternatives {
			e.Alternatives[i] = stripCode(a)
		}
	case *ast.SeqExpr:
		for i, a := range e.Exprs {
			e.Exprs[i] = stripCode(a)
		}
	case *ast.RecoveryExpr:
		e.Expr, e.RecoverExpr = stripCode(e.Expr), stripCode(e.RecoverExpr)
	case *ast.LabeledExpr:
		e.Expr = stripCode(e.Expr)
	case *ast.AndExpr:
		e.Expr = stripCode(e.Expr)
	case *ast.NotExpr:
		e.Expr = stripCode(e.Expr)
	case *ast.ZeroOrOneExpr:
		e.Expr = stripCode(e.Expr)
	case *ast.ZeroOrMoreExpr:
		e.Expr = stripCode(e.Expr)
	case *ast.OneOrMoreExpr:
		e.Expr = stripCode(e.Expr)
	}
	return e
}

func hasCode(g *ast.Grammar) bool {
	found := false
	for _, r := range g.Rules {
		pvpeg.WalkExpr(r.Expr, func(e ast.Expression) {
			switch e.(type) {
			case *ast.ActionExpr, *ast.AndCodeExpr, *ast.NotCodeExpr, *ast.StateCodeExpr:
				found = true
			}
		})
	}
	return found
}

// classSource spells a class member the way it can stand in a class.
func classSource(c rune) string {
	switch c {
	case '\\', ']', '-', '^':
		return `\` + string(c)
	}
	return string(c)
}

// addToClass appends text (the spelling of the new member) to the raw text
// of the class, in front of the closing bracket.
func addToClass(e *ast.CharClassMatcher, text string) {
	i := strings.LastIndexByte(e.Val, ']')
	if i < 0 {
		return
	}
	e.Val = e.Val[:i] + text + e.Val[i:]
}

// spice plants the special code points into some literals and classes.
func spice(r *rand.Rand, g *ast.Grammar) (planted int) {
	for _, rule := range g.Rules {
		pvpeg.WalkExpr(rule.Expr, func(e ast.Expression) {
			switch e := e.(type) {
			case *ast.LitMatcher:
				if e.Val != "" && utf8.ValidString(e.Val) && r.Intn(25) == 0 {
					// a byte that is not UTF-8 (written \xHH in a grammar) next to a capital letter, with the i flag: the
					// letters still have to be folded
					rs := []rune(e.Val)
					pos := r.Intn(len(rs) + 1)
					stray := string([]byte{byte(0x80 + r.Intn(0x80))})
					up := string(rune('A' + r.Intn(26)))
					mid := stray + up
					if r.Intn(2) == 0 {
						mid = up + stray
					}
					e.Val = string(rs[:pos]) + mid + string(rs[pos:])
					e.IgnoreCase = true
					planted++
					return
				}
				if e.Val == "" || !utf8.ValidString(e.Val) || r.Intn(5) != 0 {
					return
				}
				rs := []rune(e.Val)
				c := special[r.Intn(len(special))]
				if r.Intn(3) == 0 {
					// the WHOLE literal: a special rune alone or among characters without case (a literal whose
					// every rune is its own upper and lower case still has to fold the INPUT when it carries i)
					rs = []rune{c}
					for k := r.Intn(3); k > 0; k-- {
						u := rune(uncased[r.Intn(len(uncased))])
						if r.Intn(2) == 0 {
							rs = append(rs, u)
						} else {
							rs = append([]rune{u}, rs...)
						}
					}
					e.Val = string(rs)
					e.IgnoreCase = r.Intn(3) != 0
					planted++
					return
				}
				i := r.Intn(len(rs))
				if r.Intn(2) == 0 {
					rs[i] = c
				} else {
					rs = append(rs[:i], append([]rune{c}, rs[i:]...)...)
				}
				e.Val = string(rs)
				if r.Intn(2) == 0 {
					e.IgnoreCase = true
				}
				planted++
			case *ast.CharClassMatcher:
				switch r.Intn(12) {
				case 0, 1:
					c := special[r.Intn(len(special))]
					e.Chars = append(e.Chars, c)
					addToClass(e, classSource(c))
					planted++
				case 2:
					p := specialRanges[r.Intn(len(specialRanges))]
					e.Ranges = append(e.Ranges, p[0], p[1])
					addToClass(e, classSource(p[0])+"-"+classSource(p[1]))
					planted++
				default:
					return
				}
				if r.Intn(3) == 0 && !e.IgnoreCase {
					e.IgnoreCase = true
					e.Val += "i"
				}
			}
		})
	}
	return planted
}

// slot is a place in a grammar that holds an expression.
type slot struct {
	rule int
	get  func() ast.Expression
	set  func(ast.Expression)
}

// slots lists every expression position of g, parents first.
func slots(g *ast.Grammar) []slot {
	var out []slot
	var walk func(ri int, get func() ast.Expression, set func(ast.Expression))
	walk = func(ri int, get func() ast.Expression, set func(ast.Expression)) {
		out = append(out, slot{ri, get, set})
		switch e := get().(type) {
		case *ast.ChoiceExpr:
			for i := range e.Alternatives {
				i := i
				walk(ri, func() ast.Expression { return e.Alternatives[i] }, func(x ast.Expression) { e.Alternatives[i] = x })
			}
		case *ast.SeqExpr:
			for i := range e.Exprs {
				i := i
				walk(ri, func() ast.Expression { return e.Exprs[i] }, func(x ast.Expression) { e.Exprs[i] = x })
			}
		case *ast.RecoveryExpr:
			walk(ri, func() ast.Expression { return e.Expr }, func(x ast.Expression) { e.Expr = x })
			walk(ri, func() ast.Expression { return e.RecoverExpr }, func(x ast.Expression) { e.RecoverExpr = x })
		case *ast.ActionExpr:
			walk(ri, func() ast.Expression { return e.Expr }, func(x ast.Expression) { e.Expr = x })
		case *ast.LabeledExpr:
			walk(ri, func() ast.Expression { return e.Expr }, func(x ast.Expression) { e.Expr = x })
		case *ast.AndExpr:
			walk(ri, func() ast.Expression { return e.Expr }, func(x ast.Expression) { e.Expr = x })
		case *ast.NotExpr:
			walk(ri, func() ast.Expression { return e.Expr }, func(x ast.Expression) { e.Expr = x })
		case *ast.ZeroOrOneExpr:
			walk(ri, func() ast.Expression { return e.Expr }, func(x ast.Expression) { e.Expr = x })
		case *ast.ZeroOrMoreExpr:
			walk(ri, func() ast.Expression { return e.Expr }, func(x ast.Expression) { e.Expr = x })
		case *ast.OneOrMoreExpr:
			walk(ri, func() ast.Expression { return e.Expr }, func(x ast.Expression) { e.Expr = x })
		}
	}
	for ri, r := range g.Rules {
		r := r
		walk(ri, func() ast.Expression { return r.Expr }, func(x ast.Expression) { r.Expr = x })
	}
	return out
}

// consumingTerminal: a terminal that cannot match the empty string.
func consumingTerminal(e ast.Expression) bool {
	switch e := e.(type) {
	case *ast.LitMatcher:
		return e.Val != ""
	case *ast.CharClassMatcher, *ast.AnyMatcher:
		return true
	}
	return false
}

// shareLeaves adds one or two leaf rules whose whole body is a class or a one-rune literal and puts references
// to them into choices next to other one-rune terminals, each site with different neighbours: under
// -optimize-grammar the leaf is inlined at every site and merged with that site's neighbours, so one source class
// (one source position) becomes several different classes. Without -optimize-grammar it is an ordinary grammar.
func shareLeaves(r *rand.Rand, g *ast.Grammar) {
	used := map[string]bool{}
	for _, rl := range g.Rules {
		used[rl.Name.Val] = true
	}
	const pool = "abcxyz019_+-*ABZ"
	one := func() rune { return rune(pool[r.Intn(len(pool))]) }
	class := func(n int, fold bool) *ast.CharClassMatcher {
		var items []pvpeg.ClassItem
		for i := 0; i < n; i++ {
			if r.Intn(4) == 0 {
				lo, hi := one(), one()
				if lo > hi {
					lo, hi = hi, lo
				}
				if lo == '-' || hi == '-' || lo == '+' || lo == '*' || hi == '+' || hi == '*' {
					lo, hi = 'a', 'f'
				}
				items = append(items, pvpeg.ClassItem{Lo: lo, Hi: hi, IsRange: true})
			} else {
				c := one()
				if c == '-' {
					c = '_'
				}
				items = append(items, pvpeg.ClassItem{Lo: c, Hi: c})
			}
		}
		return pvpeg.BuildClass(r, items, false, fold, pvpeg.Avoid{ClassFoldRanges: true})
	}
	lit1 := func(fold bool) *ast.LitMatcher {
		e := ast.NewLitMatcher(ast.Pos{}, string(one()))
		e.IgnoreCase = fold
		return e
	}
	var leaves []string
	var folds []bool
	var rules []*ast.Rule
	for _, nm := range []string{"LeafA", "LeafB"} {
		if used[nm] || (len(leaves) == 1 && r.Intn(2) == 0) {
			continue
		}
		fold := r.Intn(5) == 0
		rule := ast.NewRule(ast.Pos{}, ast.NewIdentifier(ast.Pos{}, nm))
		if r.Intn(4) == 0 {
			rule.Expr = lit1(fold)
		} else {
			rule.Expr = class(1+r.Intn(7), fold)
		}
		leaves, folds, rules = append(leaves, nm), append(folds, fold), append(rules, rule)
	}
	if len(leaves) == 0 {
		return
	}
	var terms []slot
	for _, sl := range slots(g) {
		if consumingTerminal(sl.get()) {
			terms = append(terms, sl)
		}
	}
	r.Shuffle(len(terms), func(i, j int) { terms[i], terms[j] = terms[j], terms[i] })
	n := 2 + r.Intn(3)
	if n > len(terms) {
		n = len(terms)
	}
	for i := 0; i < n; i++ {
		k := r.Intn(len(leaves))
		ref := ast.NewRuleRefExpr(ast.Pos{})
		ref.Name = ast.NewIdentifier(ast.Pos{}, leaves[k])
		ch := ast.NewChoiceExpr(ast.Pos{})
		ch.Alternatives = []ast.Expression{ref}
		for m := 1 + r.Intn(2); m > 0; m-- {
			var x ast.Expression
			if r.Intn(2) == 0 {
				x = lit1(folds[k])
			} else {
				x = class(1+r.Intn(3), folds[k])
			}
			if r.Intn(2) == 0 {
				ch.Alternatives = append(ch.Alternatives, x)
			} else {
				ch.Alternatives = append([]ast.Expression{x}, ch.Alternatives...)
			}
		}
		terms[i].set(ch)
	}
	g.Rules = append(g.Rules, rules...)
}

// genGrammar draws one code-free well-formed grammar.
func genGrammar(r *rand.Rand) (g *ast.Grammar, retries, planted int) {
	cfg := pvpeg.Cfg{WellFormed: true, NoState: true, NoCodePreds: true, MaxRules: 5, MaxDepth: 4,
		Avoid: pvpeg.Avoid{ClassFoldRanges: true}}
	for {
		g = pvpeg.Gen(r, cfg)
		for _, rule := range g.Rules {
			rule.Expr = stripCode(rule.Expr)
		}
		// the init block is not an expression: it only carries the package
		// clause, without which the emitted file is not a Go file
		g.Init = ast.NewCodeBlock(ast.Pos{}, "{\npackage main\n}")
		planted = spice(r, g)
		if r.Intn(2) == 0 {
			shareLeaves(r, g)
		}
		if pvpeg.CheckWF(g) == nil && !hasCode(g) {
			return g, retries, planted
		}
		retries++
	}
}

// alphabet collects the runes that the grammar mentions, their case
// variants, and a few that it does not mention.
func alphabet(r *rand.Rand, g *ast.Grammar) []rune {
	set := map[rune]bool{}
	var out []rune
	add := func(c rune) {
		if c < 0 || c > unicode.MaxRune || (0xd800 <= c && c <= 0xdfff) || set[c] {
			return
		}
		set[c] = true
		out = append(out, c)
	}
	orbit := func(c rune) {
		add(c)
		for f := unicode.SimpleFold(c); f != c; f = unicode.SimpleFold(f) {
			add(f)
		}
		add(unicode.ToLower(c))
		add(unicode.ToUpper(c))
	}
	for _, rule := range g.Rules {
		pvpeg.WalkExpr(rule.Expr, func(e ast.Expression) {
			switch e := e.(type) {
			case *ast.LitMatcher:
				for _, c := range e.Val {
					orbit(c)
				}
			case *ast.CharClassMatcher:
				for _, c := range e.Chars {
					orbit(c)
				}
				for _, c := range e.Ranges {
					orbit(c)
					add(c - 1)
					add(c + 1)
				}
			}
		})
	}
	for _, c := range "aZ0 \n_é世" {
		add(c)
	}
	add(special[r.Intn(len(special))])
	add(special[r.Intn(len(special))])
	return out
}

func strayByte(r *rand.Rand) string { return string([]byte{byte(0x80 + r.Intn(0x80))}) }

func randomString(r *rand.Rand, alpha []rune, max int) string {
	n := r.Intn(max + 1)
	var b strings.Builder
	for i := 0; i < n; i++ {
		if r.Intn(25) == 0 {
			b.WriteString(strayByte(r))
			continue
		}
		b.WriteRune(alpha[r.Intn(len(alpha))])
	}
	return b.String()
}

// mutate applies one small change to an input.
func mutate(r *rand.Rand, s string, alpha []rune) string {
	rs := []rune(s)
	pick := func() rune { return alpha[r.Intn(len(alpha))] }
	if len(rs) == 0 {
		return string(pick())
	}
	i := r.Intn(len(rs))
	switch r.Intn(9) {
	case 0:
		return string(rs[:i]) + string(rs[i+1:])
	case 1:
		return string(rs[:i]) + string(pick()) + string(rs[i:])
	case 2:
		rs[i] = pick()
		return string(rs)
	case 3, 4:
		// another member of the case orbit (k -> K -> KELVIN SIGN -> k)
		c := rs[i]
		for n := r.Intn(3); n >= 0; n-- {
			c = unicode.SimpleFold(c)
		}
		rs[i] = c
		return string(rs)
	case 5:
		return string(rs[:i])
	case 6:
		return s + string(rs[i:])
	case 7:
		b := []byte(s)
		j := r.Intn(len(b) + 1)
		return string(b[:j]) + strayByte(r) + string(b[j:])
	default:
		j := r.Intn(len(rs))
		rs[i], rs[j] = rs[j], rs[i]
		return string(rs)
	}
}

// inputs draws k inputs for the grammar.
func inputs(r *rand.Rand, g *ast.Grammar, alpha []rune, k int) []string {
	var out, sentences []string
	for j := 0; j < k; j++ {
		var in string
		switch {
		case j*10 < k*4 || len(sentences) == 0:
			in = pvpeg.Sentence(r, g)
			sentences = append(sentences, in)
			if r.Intn(3) == 0 {
				in += randomString(r, alpha, 3)
			}
		case j*10 < k*8:
			in = mutate(r, sentences[r.Intn(len(sentences))], alpha)
		default:
			in = randomString(r, alpha, 8)
		}
		out = append(out, in)
	}
	return out
}

// systematic returns the i-th of the hand-made grammars that head every run (nil when i is past them): for each special
// code point c the rules `A <- "c"i`, `A <- "-c"i "c"` , `A <- [c]i+` and `A <- [kc0-9]i / "c"`.
func systematic(i int) *ast.Grammar {
	k, v := i/4, i%4
	if i < 0 || k >= len(special) {
		return nil
	}
	c := special[k]
	lit := func(s string, ic bool) *ast.LitMatcher {
		l := ast.NewLitMatcher(ast.Pos{}, s)
		l.IgnoreCase = ic
		return l
	}
	r := rand.New(rand.NewSource(int64(i) + 1))
	av := pvpeg.Avoid{ClassFoldRanges: true}
	var e ast.Expression
	switch v {
	case 0:
		e = lit(string(c), true)
	case 1:
		s := ast.NewSeqExpr(ast.Pos{})
		s.Exprs = []ast.Expression{lit("-"+string(c), true), lit(string(c), false)}
		e = s
	case 2:
		p := ast.NewOneOrMoreExpr(ast.Pos{})
		p.Expr = pvpeg.BuildClass(r, []pvpeg.ClassItem{{Lo: c}}, false, true, av)
		e = p
	default:
		ch := ast.NewChoiceExpr(ast.Pos{})
		ch.Alternatives = []ast.Expression{
			pvpeg.BuildClass(r, []pvpeg.ClassItem{{Lo: 'k'}, {Lo: c}, {Lo: '0'}, {Lo: '9'}}, false, true, av),
			lit(string(c), false)}
		e = ch
	}
	g := ast.NewGrammar(ast.Pos{})
	g.Init = ast.NewCodeBlock(ast.Pos{}, "{\npackage main\n}")
	rule := ast.NewRule(ast.Pos{}, ast.NewIdentifier(ast.Pos{}, "A"))
	rule.Expr = e
	g.Rules = append(g.Rules, rule)
	if pvpeg.CheckWF(g) != nil {
		return nil
	}
	return g
}
