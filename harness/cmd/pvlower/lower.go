package main

import (
	"bytes"
	"fmt"
	goast "go/ast"
	"go/parser"
	"go/scanner"
	"go/token"
	"strconv"
	"sync"
	"unicode"

	"pvharness/pvcase"
)

// This file reads the grammar that builder.BuildParser emitted,
//
//	var g = &grammar{ rules: []*rule{ {name: ..., expr: &seqExpr{...}}, ... } }
//
// back from the Go source and turns it into the grammar of a case line. The
// reader is strict: an expression type, a field or a form of value that it
// does not know is an error (failure kind lowering-parse), so that nothing
// the builder writes is silently dropped.

const grammarDecl = "var g = &grammar"

// grammarLiteral locates the composite literal `&grammar{...}` in the
// emitted source and parses it (only the literal: the static code that
// follows is about 1800 lines).
func grammarLiteral(src []byte) (goast.Expr, error) {
	at := bytes.Index(src, []byte(grammarDecl))
	if at < 0 {
		return nil, fmt.Errorf("no %q in the emitted source", grammarDecl)
	}
	if bytes.Contains(src[at+len(grammarDecl):], []byte(grammarDecl)) {
		return nil, fmt.Errorf("%q occurs twice", grammarDecl)
	}
	start := at + len("var g = ")
	fset := token.NewFileSet()
	file := fset.AddFile("", fset.Base(), len(src)-start)
	var sc scanner.Scanner
	var scanErr error
	sc.Init(file, src[start:], func(pos token.Position, msg string) {
		if scanErr == nil {
			scanErr = fmt.Errorf("scanning the grammar literal at offset %d: %s", pos.Offset, msg)
		}
	}, 0)
	depth, end := 0, -1
scan:
	for {
		pos, tok, _ := sc.Scan()
		switch tok {
		case token.EOF:
			break scan
		case token.LBRACE:
			depth++
		case token.RBRACE:
			depth--
			if depth == 0 {
				end = start + file.Offset(pos) + 1
				break scan
			}
		}
		if scanErr != nil {
			return nil, scanErr
		}
	}
	if end < 0 {
		return nil, fmt.Errorf("the grammar literal is not closed")
	}
	e, err := parser.ParseExpr(string(src[start:end]))
	if err != nil {
		return nil, fmt.Errorf("parsing the grammar literal: %v", err)
	}
	return e, nil
}

// grammarLiteralFull does the same by parsing the whole emitted file (the
// grammar must have an init block with a package clause).
func grammarLiteralFull(src []byte) (goast.Expr, error) {
	f, err := parser.ParseFile(token.NewFileSet(), "emitted.go", src, parser.SkipObjectResolution)
	if err != nil {
		return nil, fmt.Errorf("parsing the emitted file: %v", err)
	}
	var found goast.Expr
	for _, d := range f.Decls {
		gd, ok := d.(*goast.GenDecl)
		if !ok || gd.Tok != token.VAR {
			continue
		}
		for _, s := range gd.Specs {
			vs := s.(*goast.ValueSpec)
			for i, n := range vs.Names {
				if n.Name == "g" && gd.Lparen == token.NoPos {
					if found != nil || i >= len(vs.Values) {
						return nil, fmt.Errorf("var g is declared twice or has no value")
					}
					found = vs.Values[i]
				}
			}
		}
	}
	if found == nil {
		return nil, fmt.Errorf("no top-level var g in the emitted file")
	}
	return found, nil
}

type lowerReader struct {
	flags  pvcase.Flags
	nextID int
	// readback mode (pvlower -readback): code-bearing nodes are accepted; each gets a block number in order of
	// appearance, and the name of its `run` method is recorded
	allowCode bool
	blocks    []readBlock
}

// readBlock is one code block found by the readback mode.
type readBlock struct {
	Kind byte // 'a', 'p', 's'
	Run  string
}

type fields struct {
	kind string
	m    map[string]goast.Expr
	used map[string]bool
}

func (r *lowerReader) errf(f string, a ...any) { panic(lowerErr(fmt.Sprintf(f, a...))) }

type lowerErr string

// keyed splits a composite literal with keyed fields; only the listed keys
// may occur, each at most once.
func (r *lowerReader) keyed(kind string, lit *goast.CompositeLit, allowed ...string) *fields {
	f := &fields{kind: kind, m: map[string]goast.Expr{}, used: map[string]bool{}}
	ok := map[string]bool{}
	for _, a := range allowed {
		ok[a] = true
	}
	for _, el := range lit.Elts {
		kv, isKV := el.(*goast.KeyValueExpr)
		if !isKV {
			r.errf("%s: element without a key", kind)
		}
		id, isID := kv.Key.(*goast.Ident)
		if !isID {
			r.errf("%s: key is not an identifier", kind)
		}
		if !ok[id.Name] {
			r.errf("%s: unknown field %q", kind, id.Name)
		}
		if _, dup := f.m[id.Name]; dup {
			r.errf("%s: field %q twice", kind, id.Name)
		}
		f.m[id.Name] = kv.Value
	}
	return f
}

func (f *fields) get(key string) goast.Expr { return f.m[key] }

func (r *lowerReader) str(what string, e goast.Expr) string {
	bl, ok := e.(*goast.BasicLit)
	if !ok || bl.Kind != token.STRING {
		r.errf("%s: not a string literal", what)
	}
	s, err := strconv.Unquote(bl.Value)
	if err != nil {
		r.errf("%s: %v", what, err)
	}
	return s
}

func (r *lowerReader) optStr(what string, e goast.Expr) string {
	if e == nil {
		return ""
	}
	return r.str(what, e)
}

func (r *lowerReader) reqStr(f *fields, key string) string {
	e := f.get(key)
	if e == nil {
		r.errf("%s: field %q is missing", f.kind, key)
	}
	return r.str(f.kind+"."+key, e)
}

func (r *lowerReader) boolean(f *fields, key string, required bool) bool {
	e := f.get(key)
	if e == nil {
		if required {
			r.errf("%s: field %q is missing", f.kind, key)
		}
		return false
	}
	id, ok := e.(*goast.Ident)
	if !ok || (id.Name != "true" && id.Name != "false") {
		r.errf("%s.%s: not true or false", f.kind, key)
	}
	return id.Name == "true"
}

func (r *lowerReader) integer(what string, e goast.Expr) int {
	neg := false
	if u, ok := e.(*goast.UnaryExpr); ok && u.Op == token.SUB {
		neg, e = true, u.X
	}
	bl, ok := e.(*goast.BasicLit)
	if !ok || bl.Kind != token.INT {
		r.errf("%s: not an integer literal", what)
	}
	n, err := strconv.Atoi(bl.Value)
	if err != nil {
		r.errf("%s: %v", what, err)
	}
	if neg {
		n = -n
	}
	return n
}

// position reads `position{line: L, col: C, offset: O}`.
func (r *lowerReader) position(f *fields) (line, col, off int) {
	e := f.get("pos")
	if e == nil {
		r.errf("%s: field pos is missing", f.kind)
	}
	lit, ok := e.(*goast.CompositeLit)
	if !ok || !isIdent(lit.Type, "position") {
		r.errf("%s.pos: not a position literal", f.kind)
	}
	pf := r.keyed(f.kind+".pos", lit, "line", "col", "offset")
	for _, k := range []string{"line", "col", "offset"} {
		if pf.get(k) == nil {
			r.errf("%s.pos: field %q is missing", f.kind, k)
		}
	}
	return r.integer("line", pf.get("line")), r.integer("col", pf.get("col")), r.integer("offset", pf.get("offset"))
}

func isIdent(e goast.Expr, name string) bool {
	id, ok := e.(*goast.Ident)
	return ok && id.Name == name
}

// sliceOf checks that e is `[]elem{...}` and returns the elements.
func (r *lowerReader) sliceOf(what string, e goast.Expr, elem func(goast.Expr) bool) []goast.Expr {
	lit, ok := e.(*goast.CompositeLit)
	if !ok {
		r.errf("%s: not a composite literal", what)
	}
	at, ok := lit.Type.(*goast.ArrayType)
	if !ok || at.Len != nil || !elem(at.Elt) {
		r.errf("%s: unexpected slice type", what)
	}
	return lit.Elts
}

func (r *lowerReader) runes(what string, e goast.Expr) []rune {
	var out []rune
	for _, el := range r.sliceOf(what, e, func(t goast.Expr) bool { return isIdent(t, "rune") }) {
		bl, ok := el.(*goast.BasicLit)
		if !ok || bl.Kind != token.CHAR {
			r.errf("%s: element is not a rune literal", what)
		}
		if len(bl.Value) < 3 || bl.Value[0] != '\'' || bl.Value[len(bl.Value)-1] != '\'' {
			r.errf("%s: bad rune literal %s", what, bl.Value)
		}
		c, _, tail, err := strconv.UnquoteChar(bl.Value[1:len(bl.Value)-1], '\'')
		if err != nil || tail != "" {
			r.errf("%s: bad rune literal %s", what, bl.Value)
		}
		out = append(out, c)
	}
	return out
}

func isAny(t goast.Expr) bool {
	if isIdent(t, "any") {
		return true
	}
	it, ok := t.(*goast.InterfaceType)
	return ok && (it.Methods == nil || len(it.Methods.List) == 0)
}

func (r *lowerReader) exprList(what string, e goast.Expr) []*pvcase.Expr {
	if e == nil {
		return nil
	}
	var out []*pvcase.Expr
	for _, el := range r.sliceOf(what, e, isAny) {
		out = append(out, r.expr(el))
	}
	return out
}

func (r *lowerReader) child(f *fields, key string) *pvcase.Expr {
	e := f.get(key)
	if e == nil {
		r.errf("%s: field %q is missing", f.kind, key)
	}
	return r.expr(e)
}

var (
	tableMu    sync.Mutex
	tableCache = map[string]pvcase.Class{}
)

// classTable flattens Go's range table of a Unicode class (the lookup order
// of builder/static_code_range_table.go), R16 entries then R32 entries.
func classTable(name string) (pvcase.Class, bool) {
	tableMu.Lock()
	defer tableMu.Unlock()
	if c, ok := tableCache[name]; ok {
		return c, true
	}
	rt, ok := unicode.Categories[name]
	if !ok {
		rt, ok = unicode.Properties[name]
	}
	if !ok {
		rt, ok = unicode.Scripts[name]
	}
	if !ok {
		return pvcase.Class{}, false
	}
	c := pvcase.Class{Name: name}
	for _, x := range rt.R16 {
		c.Ranges = append(c.Ranges, pvcase.ClassRange{Lo: uint32(x.Lo), Hi: uint32(x.Hi), Stride: uint32(x.Stride)})
	}
	for _, x := range rt.R32 {
		c.Ranges = append(c.Ranges, pvcase.ClassRange{Lo: x.Lo, Hi: x.Hi, Stride: x.Stride})
	}
	tableCache[name] = c
	return c, true
}

func (r *lowerReader) node(kind string) *pvcase.Expr {
	r.nextID++
	return &pvcase.Expr{Kind: kind, ID: r.nextID}
}

var unaryKinds = map[string]string{
	"andExpr": pvcase.KAnd, "notExpr": pvcase.KNot, "zeroOrOneExpr": pvcase.KOpt,
	"zeroOrMoreExpr": pvcase.KStar, "oneOrMoreExpr": pvcase.KPlus,
}

// expr converts one `&xyzExpr{...}` literal.
func (r *lowerReader) expr(e goast.Expr) *pvcase.Expr {
	u, ok := e.(*goast.UnaryExpr)
	if !ok || u.Op != token.AND {
		if isIdent(e, "nil") {
			r.errf("nil expression")
		}
		r.errf("expression is not of the form &T{...}")
	}
	lit, ok := u.X.(*goast.CompositeLit)
	if !ok {
		r.errf("expression is not of the form &T{...}")
	}
	tid, ok := lit.Type.(*goast.Ident)
	if !ok {
		r.errf("expression type is not an identifier")
	}
	typ := tid.Name
	if k, ok := unaryKinds[typ]; ok {
		n := r.node(k)
		f := r.keyed(typ, lit, "pos", "expr")
		r.position(f)
		n.Kids = []*pvcase.Expr{r.child(f, "expr")}
		return n
	}
	switch typ {
	case "anyMatcher":
		n := r.node(pvcase.KAny)
		f := r.keyed(typ, lit, "line", "col", "offset")
		for _, k := range []string{"line", "col", "offset"} {
			if f.get(k) == nil {
				r.errf("anyMatcher: field %q is missing", k)
			}
			r.integer("anyMatcher."+k, f.get(k))
		}
		return n
	case "litMatcher":
		n := r.node(pvcase.KLit)
		f := r.keyed(typ, lit, "pos", "val", "ignoreCase", "want")
		r.position(f)
		// the runtime ranges over the string: a byte that is not UTF-8 is
		// the rune U+FFFD there too
		n.Runes = []rune(r.reqStr(f, "val"))
		n.IgnoreCase = r.boolean(f, "ignoreCase", true)
		n.Want = r.reqStr(f, "want")
		return n
	case "charClassMatcher":
		n := r.node(pvcase.KCls)
		f := r.keyed(typ, lit, "pos", "val", "chars", "ranges", "classes", "basicLatinChars", "ignoreCase", "inverted")
		r.position(f)
		n.Val = r.reqStr(f, "val")
		if x := f.get("chars"); x != nil {
			n.Chars = r.runes("chars", x)
		}
		if x := f.get("ranges"); x != nil {
			n.Ranges = r.runes("ranges", x)
			if len(n.Ranges)%2 != 0 {
				r.errf("charClassMatcher: odd number of range bounds")
			}
		}
		if x := f.get("classes"); x != nil {
			els := r.sliceOf("classes", x, func(t goast.Expr) bool {
				st, ok := t.(*goast.StarExpr)
				if !ok {
					return false
				}
				se, ok := st.X.(*goast.SelectorExpr)
				return ok && isIdent(se.X, "unicode") && se.Sel.Name == "RangeTable"
			})
			for _, el := range els {
				call, ok := el.(*goast.CallExpr)
				if !ok || !isIdent(call.Fun, "rangeTable") || len(call.Args) != 1 {
					r.errf("classes: element is not rangeTable(\"name\")")
				}
				name := r.str("rangeTable argument", call.Args[0])
				c, ok := classTable(name)
				if !ok {
					r.errf("classes: %q is not a Unicode class", name)
				}
				n.Classes = append(n.Classes, c)
			}
		}
		x := f.get("basicLatinChars")
		if (x != nil) != r.flags.BasicLatin {
			r.errf("charClassMatcher: basicLatinChars present=%t with basicLatin=%t", x != nil, r.flags.BasicLatin)
		}
		if x != nil {
			bl, ok := x.(*goast.CompositeLit)
			if !ok {
				r.errf("basicLatinChars: not a composite literal")
			}
			at, ok := bl.Type.(*goast.ArrayType)
			if !ok || at.Len == nil || r.integer("basicLatinChars length", at.Len) != 128 || !isIdent(at.Elt, "bool") {
				r.errf("basicLatinChars: not a [128]bool")
			}
			if len(bl.Elts) != 128 {
				r.errf("basicLatinChars: %d elements", len(bl.Elts))
			}
			b := make([]byte, 128)
			for i, el := range bl.Elts {
				switch {
				case isIdent(el, "true"):
					b[i] = '1'
				case isIdent(el, "false"):
					b[i] = '0'
				default:
					r.errf("basicLatinChars: element %d is not true or false", i)
				}
			}
			n.BL = string(b)
		}
		n.IgnoreCase = r.boolean(f, "ignoreCase", true)
		n.Inverted = r.boolean(f, "inverted", true)
		return n
	case "choiceExpr":
		n := r.node(pvcase.KCh)
		f := r.keyed(typ, lit, "pos", "alternatives")
		n.Line, n.Col, _ = r.position(f)
		n.Kids = r.exprList("alternatives", f.get("alternatives"))
		return n
	case "seqExpr":
		n := r.node(pvcase.KSeq)
		f := r.keyed(typ, lit, "pos", "exprs")
		r.position(f)
		n.Kids = r.exprList("exprs", f.get("exprs"))
		return n
	case "labeledExpr":
		n := r.node(pvcase.KLab)
		f := r.keyed(typ, lit, "pos", "label", "expr")
		r.position(f)
		n.Label = r.optStr("label", f.get("label"))
		n.Kids = []*pvcase.Expr{r.child(f, "expr")}
		return n
	case "ruleRefExpr":
		n := r.node(pvcase.KRef)
		f := r.keyed(typ, lit, "pos", "name")
		r.position(f)
		n.Name = r.optStr("name", f.get("name"))
		return n
	case "throwExpr":
		n := r.node(pvcase.KThr)
		f := r.keyed(typ, lit, "pos", "label")
		r.position(f)
		n.Label = r.reqStr(f, "label")
		return n
	case "recoveryExpr":
		n := r.node(pvcase.KRec)
		f := r.keyed(typ, lit, "pos", "expr", "recoverExpr", "failureLabel")
		r.position(f)
		n.Kids = []*pvcase.Expr{r.child(f, "expr"), r.child(f, "recoverExpr")}
		if x := f.get("failureLabel"); x != nil {
			for _, el := range r.sliceOf("failureLabel", x, func(t goast.Expr) bool { return isIdent(t, "string") }) {
				n.Labels = append(n.Labels, r.str("failureLabel element", el))
			}
		} else {
			r.errf("recoveryExpr: field failureLabel is missing")
		}
		return n
	case "actionExpr", "andCodeExpr", "notCodeExpr", "stateCodeExpr":
		if !r.allowCode {
			r.errf("%s in a grammar without code blocks", typ)
		}
		kind := map[string]string{"actionExpr": pvcase.KAct, "andCodeExpr": pvcase.KAndc, "notCodeExpr": pvcase.KNotc, "stateCodeExpr": pvcase.KStc}[typ]
		n := r.node(kind)
		var f *fields
		if typ == "actionExpr" {
			f = r.keyed(typ, lit, "pos", "run", "expr")
		} else {
			f = r.keyed(typ, lit, "pos", "run")
		}
		r.position(f)
		run := f.get("run")
		if run == nil {
			r.errf("%s: field run is missing", typ)
		}
		// (*parser).callonX
		sel, ok := run.(*goast.SelectorExpr)
		if !ok {
			r.errf("%s: run is not a method expression", typ)
		}
		n.Blk = len(r.blocks)
		bk := byte('p')
		if typ == "actionExpr" {
			bk = 'a'
		} else if typ == "stateCodeExpr" {
			bk = 's'
		}
		r.blocks = append(r.blocks, readBlock{Kind: bk, Run: sel.Sel.Name})
		if typ == "actionExpr" {
			n.Kids = []*pvcase.Expr{r.child(f, "expr")}
		}
		return n
	}
	r.errf("unknown expression type %q", typ)
	return nil
}

// readGrammar converts the `&grammar{...}` literal.
func readGrammar(e goast.Expr, flags pvcase.Flags) (g pvcase.Grammar, err error) {
	g, _, err = readGrammarCode(e, flags, false)
	return g, err
}

// readGrammarCode is readGrammar; with allowCode the code-bearing nodes are read too (readback mode).
func readGrammarCode(e goast.Expr, flags pvcase.Flags, allowCode bool) (g pvcase.Grammar, blocks []readBlock, err error) {
	r := &lowerReader{flags: flags, allowCode: allowCode}
	defer func() { blocks = r.blocks }()
	defer func() {
		if x := recover(); x != nil {
			le, ok := x.(lowerErr)
			if !ok {
				panic(x)
			}
			err = fmt.Errorf("%s", string(le))
		}
	}()
	u, ok := e.(*goast.UnaryExpr)
	if !ok || u.Op != token.AND {
		r.errf("var g is not &grammar{...}")
	}
	lit, ok := u.X.(*goast.CompositeLit)
	if !ok || !isIdent(lit.Type, "grammar") {
		r.errf("var g is not &grammar{...}")
	}
	gf := r.keyed("grammar", lit, "rules")
	if gf.get("rules") == nil {
		r.errf("grammar: field rules is missing")
	}
	rules := r.sliceOf("rules", gf.get("rules"), func(t goast.Expr) bool {
		st, ok := t.(*goast.StarExpr)
		return ok && isIdent(st.X, "rule")
	})
	for _, el := range rules {
		if u, ok := el.(*goast.UnaryExpr); ok && u.Op == token.AND {
			el = u.X
		}
		rl, ok := el.(*goast.CompositeLit)
		if !ok || (rl.Type != nil && !isIdent(rl.Type, "rule")) {
			r.errf("rules: element is not a rule literal")
		}
		f := r.keyed("rule", rl, "name", "displayName", "pos", "expr", "leader", "leftRecursive")
		r.position(f)
		out := &pvcase.Rule{Name: r.reqStr(f, "name"), DisplayName: r.optStr("displayName", f.get("displayName"))}
		out.Expr = r.child(f, "expr")
		if (f.get("leader") != nil || f.get("leftRecursive") != nil) && !flags.LeftRec {
			r.errf("rule %q: leader/leftRecursive emitted without left recursion support", out.Name)
		}
		out.Leader = r.boolean(f, "leader", false)
		out.LeftRecursive = r.boolean(f, "leftRecursive", false)
		g.Rules = append(g.Rules, out)
	}
	return g, r.blocks, nil
}
