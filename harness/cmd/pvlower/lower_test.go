package main

import (
	"strings"
	"testing"

	"github.com/mna/pigeon/ast"

	"pvharness/pvcase"
	"pvharness/pvpeg"
)

func testGrammar() *ast.Grammar {
	g := ast.NewGrammar(ast.Pos{})
	g.Init = ast.NewCodeBlock(ast.Pos{}, "{\npackage main\n}")
	lit := ast.NewLitMatcher(ast.Pos{Line: 1, Col: 6, Off: 5}, "aȺK")
	lit.IgnoreCase = true
	cls := pvpeg.NewClass(ast.Pos{}, `[^B-Dx\pL]i`)
	cls.Chars, cls.Ranges, cls.UnicodeClasses = []rune{'x'}, []rune{'B', 'D'}, []string{"L"}
	cls.IgnoreCase, cls.Inverted = true, true
	ch := ast.NewChoiceExpr(ast.Pos{Line: 3, Col: 7, Off: 40})
	lab := ast.NewLabeledExpr(ast.Pos{})
	lab.Label = ast.NewIdentifier(ast.Pos{}, "v")
	lab.Expr = cls
	thr := ast.NewThrowExpr(ast.Pos{})
	thr.Label = "oops"
	ch.Alternatives = []ast.Expression{lit, lab, thr}
	rec := ast.NewRecoveryExpr(ast.Pos{})
	rec.Expr, rec.RecoverExpr = ch, ast.NewAnyMatcher(ast.Pos{}, ".")
	rec.Labels = []ast.FailureLabel{"oops", "x"}
	r := ast.NewRule(ast.Pos{}, ast.NewIdentifier(ast.Pos{}, "S"))
	r.DisplayName = ast.NewStringLit(ast.Pos{}, `"start"`)
	r.Expr = rec
	g.Rules = []*ast.Rule{r}
	return g
}

func TestReadBack(t *testing.T) {
	for _, set := range flagSets {
		src, err := build(testGrammar(), set)
		if err != nil {
			t.Fatal(err)
		}
		fast, err := grammarLiteral(src)
		if err != nil {
			t.Fatal(err)
		}
		full, err := grammarLiteralFull(src)
		if err != nil {
			t.Fatal(err)
		}
		g1, err := readGrammar(fast, set.flags())
		if err != nil {
			t.Fatal(err)
		}
		g2, err := readGrammar(full, set.flags())
		if err != nil {
			t.Fatal(err)
		}
		c1 := &pvcase.Case{Flags: set.flags(), Opts: pvcase.DefaultOpts(), Grammar: g1}
		c2 := &pvcase.Case{Flags: set.flags(), Opts: pvcase.DefaultOpts(), Grammar: g2}
		if c1.String() != c2.String() {
			t.Fatalf("%v: the two ways of locating the literal disagree", set)
		}
		if back, err := pvcase.Parse(c1.String()); err != nil || back.String() != c1.String() {
			t.Fatalf("%v: the case line does not read back: %v", set, err)
		}
		rule := g1.Rules[0]
		if rule.Name != "S" || rule.DisplayName != `"start"` {
			t.Errorf("rule: %+v", rule)
		}
		rec := rule.Expr
		if rec.Kind != pvcase.KRec || strings.Join(rec.Labels, ",") != "oops,x" || rec.Kids[1].Kind != pvcase.KAny {
			t.Fatalf("recovery: %+v", rec)
		}
		ch := rec.Kids[0]
		if ch.Kind != pvcase.KCh || ch.Line != 3 || ch.Col != 7 || len(ch.Kids) != 3 {
			t.Fatalf("choice: %+v", ch)
		}
		lit := ch.Kids[0]
		if string(lit.Runes) != "aⱥk" || !lit.IgnoreCase || lit.Want != `"aȺK"i` {
			t.Errorf("literal: %q %t %q", string(lit.Runes), lit.IgnoreCase, lit.Want)
		}
		cls := ch.Kids[1].Kids[0]
		if ch.Kids[1].Label != "v" || cls.Kind != pvcase.KCls || string(cls.Chars) != "x" || string(cls.Ranges) != "bd" ||
			!cls.IgnoreCase || !cls.Inverted || cls.Val != `[^B-Dx\pL]i` || len(cls.Classes) != 1 || cls.Classes[0].Name != "L" ||
			len(cls.Classes[0].Ranges) < 100 {
			t.Errorf("class: %+v", cls)
		}
		if (cls.BL != "") != set.basicLatin {
			t.Errorf("%v: BL %q", set, cls.BL)
		}
		if set.basicLatin && (len(cls.BL) != 128 || cls.BL['c'] != '1' || cls.BL['C'] != '1' || cls.BL['x'] != '1' || cls.BL['0'] != '0') {
			t.Errorf("BL: %s", cls.BL)
		}
		if ch.Kids[2].Kind != pvcase.KThr || ch.Kids[2].Label != "oops" {
			t.Errorf("throw: %+v", ch.Kids[2])
		}
	}
}

func TestReadBackStrict(t *testing.T) {
	src := []byte("package main\nvar g = &grammar{\n\trules: []*rule{\n{\nname: \"S\",\npos: position{line: 1, col: 1, offset: 0},\nexpr: &litMatcher{\npos: position{line: 1, col: 1, offset: 0},\nval: \"a\",\nignoreCase: false,\nwant: \"\\\"a\\\"\",\nextra: 1,\n},\n},\n},\n}\n")
	lit, err := grammarLiteral(src)
	if err != nil {
		t.Fatal(err)
	}
	if _, err := readGrammar(lit, pvcase.Flags{}); err == nil || !strings.Contains(err.Error(), "unknown field") {
		t.Errorf("an unknown field is an error, got %v", err)
	}
}

func TestReadRet(t *testing.T) {
	line := "res 7 ret l 2 b x61 l 1 nil 2 x6162 x63 5 1 6 9 0 1 1 0 0 0 0 0"
	r, err := readRet(line)
	if err != nil {
		t.Fatal(err)
	}
	p, err := pvcase.ParseResult(line)
	if err != nil {
		t.Fatal(err)
	}
	if r.val != "l 2 b x61 l 1 nil" || r.val != pvcase.FormatVal(p.Val) || strings.Join(r.errs, "|") != "ab|c" ||
		strings.Join(p.Errs, "|") != "ab|c" || r.off != 5 || p.End.Off != 5 {
		t.Errorf("got %+v, ParseResult %+v", r, p)
	}
	deep := "res 1 ret" + strings.Repeat(" l 1", 1000) + " nil 0 3 1 4 9 0 1 1 0 0 0 0 0"
	if r, err = readRet(deep); err != nil || r.off != 3 || !strings.HasSuffix(r.val, "l 1 nil") {
		t.Errorf("deep value: %v", err)
	}
	for _, bad := range []string{"res 1 timeout", "res 1 ret l 2 nil 0 0", "res 1 ret q 0 0", "res 1 ret nil 1 x61"} {
		if _, err := readRet(bad); err == nil {
			t.Errorf("%q is not a readable ret line", bad)
		}
	}
}
