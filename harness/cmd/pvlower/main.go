// Command pvlower ties the lowering done by pigeon's code generator
// (builder.BuildParser: the AST written out as the `var g = &grammar{...}`
// literal) together with the runtime to the documented PEG semantics:
//
//	"For every grammar pigeon accepts and every input, the generated Parse
//	succeeds exactly when the start rule matches a prefix of the input under
//	PEG semantics: ordered choice commits to the first matching alternative,
//	repetitions are greedy, & and ! consume nothing, literals and classes
//	honour the i and ^ flags, and an expression that fails consumes nothing.
//	The returned value has the documented shape: the exact matched input
//	bytes for terminals, nil for predicates, one element per item for a
//	sequence and per iteration for * and +, the chosen alternative's value
//	for a choice, nil or the value for ?, ..."
//
// For each of n grammars (pvpeg.Gen, well-formed, no code blocks; labels,
// throw/recover, display names, every literal and class form, plus planted
// case pairs of different UTF-8 length, U+0130, KELVIN SIGN, U+FFFD) and each
// of the four flag sets optimize x basicLatin the real builder.BuildParser is
// called in-process on a fresh copy of the AST; the emitted Go source is
// parsed with go/parser, the grammar literal is read back node by node (see
// lower.go) into a case of /verif/PROTOCOL.md, and about k inputs per flag
// set are run through the real runtime of that variant (one pvrun call for
// all cases of the run). The expectation comes from the reference
// interpreter pvref on the ORIGINAL AST (pvref.RunShape): matched or not,
// consumed prefix, value in the canonical VAL syntax.
//
// The generated parser counts as successful when it returns no "no match
// found" error. An input that is not UTF-8 adds "invalid encoding" errors, and
// the runtime then records no "no match found" for a failed parse; half of
// these inputs therefore run with AllowInvalidUTF8, and for the others a nil
// value with nothing consumed and only encoding errors is read as the
// reference reads the case if that is one of the two possible readings (the
// report counts these as undecidable_nil_with_encoding_errors). Inputs on
// which the reference interpreter exhausts its step budget (exponential
// backtracking) are dropped before the host run. Everything else is the
// default: no option passed, fuel 400.
//
// Avoided by construction (the ASTs are built directly from valid strings):
// literals whose bytes are not UTF-8, "\400"-style escapes. The i flag on
// classes with ranges or Unicode classes is generated; the reference mirrors
// the implementation there (input rune, characters and range bounds are
// lower-cased; Unicode classes are asked about the lower-cased rune). There
// is no known finding of this tool, so -lift accepts no name at present.
//
// Failure kinds: build-error (BuildParser refused a well-formed grammar),
// lowering-parse (the emitted literal was not understood: a defect of this
// tool), accepts-differ, prefix-differs, value-differs, host-crash, timeout;
// harness-panic and oracle-unsupported are defects of the harness.
//
// One JSON object on stdout; exit status 0 unless the tool cannot run.
package main

import (
	"bufio"
	"bytes"
	"flag"
	"fmt"
	goast "go/ast"
	"os"
	"os/exec"
	"path/filepath"
	"strconv"
	"strings"
	"sync"
	"time"
	"unicode/utf8"

	"github.com/mna/pigeon/ast"
	"github.com/mna/pigeon/builder"

	"pvharness/pvcase"
	"pvharness/pvpeg"
	"pvharness/pvref"
)

const (
	budget = 200000
	fuel   = 400
)

// plain is the layout of the grammar text in the failure files.
var plain = pvpeg.Style{Name: "plain", Empty: 0.8}

// liftNames are the known-defect avoidances that -lift understands.
var liftNames = []string{}

type flagSet struct {
	optimize, basicLatin bool
	// optGrammar: ast.Optimize (the -optimize-grammar pass) runs before the builder; it preserves the language
	// (C09), so acceptance and consumed prefix must still be the reference's for the ORIGINAL grammar; the value
	// may be regrouped and is not compared
	optGrammar bool
}

var flagSets = []flagSet{{false, false, false}, {false, true, false}, {true, false, false}, {true, true, false},
	{false, false, true}, {false, true, true}}

func (f flagSet) name() string {
	if f.optGrammar {
		return f.flags().Variant() + "+optgrammar"
	}
	return f.flags().Variant()
}

func (f flagSet) flags() pvcase.Flags {
	return pvcase.Flags{Optimize: f.optimize, BasicLatin: f.basicLatin}
}

// expect is what the reference interpreter says about one input.
type expect struct {
	input        string
	allowInvalid bool
	ok           bool
	end          int
	val          string
}

type outcome struct {
	kind, detail, name, file string
}

// built is one (grammar, flag set): the case lines and their expectations.
type built struct {
	set     flagSet
	caseG   pvcase.Grammar
	lines   []string
	expects []expect
	first   int // index of the first case line in the case file
}

type item struct {
	index    int
	dump     string
	text     string
	nodes    int
	rules    int
	kinds    [18]int
	retries  int
	planted  int
	emitted  map[string]int
	features map[string]int
	sets     []*built
	fails    []outcome

	exhausted int
}

type config struct {
	seed      int64
	k         int
	fullParse bool
}

func main() {
	if len(os.Args) > 1 && os.Args[1] == "-readback" {
		os.Exit(readbackMain(os.Args[2:]))
	}
	seed := flag.Int64("seed", 1, "random seed (all randomness derives from it)")
	n := flag.Int("n", 1000, "number of grammars")
	k := flag.Int("k", 10, "inputs per grammar and flag set")
	lift := flag.String("lift", "", "lift single avoidances: comma-separated list of known findings (none at present)")
	out := flag.String("out", "/tmp/pvl.pvlower.out", "directory for failing cases")
	jobs := flag.Int("j", 16, "parallel workers")
	hosts := flag.String("hosts", "/verif/build/hosts", "directory with the host executables")
	pvrun := flag.String("pvrun", "/verif/build/bin/pvrun", "the pvrun executable")
	fullParse := flag.Bool("fullparse", false, "parse the whole emitted file instead of only the grammar literal (slower)")
	keep := flag.String("keep", "", "keep the case file and the result file in this directory")
	flag.Parse()
	usage := func(msg string) {
		if msg != "" {
			fmt.Fprintln(os.Stderr, "pvlower:", msg)
		}
		fmt.Fprintln(os.Stderr, "usage: pvlower [-seed S] [-n N] [-k K] [-lift NAMES] [-out DIR] [-j J] [-hosts DIR] [-pvrun FILE] [-fullparse] [-keep DIR]")
		os.Exit(2)
	}
	if flag.NArg() > 0 || *n < 0 || *k < 1 || *jobs < 1 {
		usage("")
	}
	for _, w := range strings.Split(*lift, ",") {
		if w = strings.TrimSpace(w); w == "" {
			continue
		}
		known := false
		for _, nm := range liftNames {
			known = known || nm == w
		}
		if !known {
			usage(fmt.Sprintf("unknown avoidance %q (known: %s)", w, strings.Join(liftNames, ", ")))
		}
	}
	for _, f := range flagSets {
		if _, err := os.Stat(filepath.Join(*hosts, f.flags().Variant())); err != nil {
			usage(fmt.Sprintf("no host for variant %s (run /verif/check --setup): %v", f.flags().Variant(), err))
		}
	}
	if _, err := os.Stat(*pvrun); err != nil {
		usage(fmt.Sprintf("no pvrun: %v", err))
	}

	rep := pvpeg.NewReport("pvlower", *seed, *out)
	cfg := config{seed: *seed, k: *k, fullParse: *fullParse}

	// phase 1: grammars, lowering, case lines, expectations
	t0 := time.Now()
	items := make([]*item, *n)
	var wg sync.WaitGroup
	next := make(chan int)
	for w := 0; w < *jobs; w++ {
		wg.Add(1)
		go func() {
			defer wg.Done()
			for i := range next {
				items[i] = evaluate(cfg, i)
			}
		}()
	}
	for i := 0; i < *n; i++ {
		next <- i
	}
	close(next)
	wg.Wait()
	tGen := time.Since(t0)

	// phase 2: one host run for all the cases
	scratch, err := os.MkdirTemp("", "pvl.run.")
	if err != nil {
		fmt.Fprintln(os.Stderr, "pvlower:", err)
		os.Exit(2)
	}
	defer os.RemoveAll(scratch)
	if *keep != "" {
		if err := os.MkdirAll(*keep, 0o755); err != nil {
			fmt.Fprintln(os.Stderr, "pvlower:", err)
			os.Exit(2)
		}
		scratch = *keep
	}
	caseFile, resFile := filepath.Join(scratch, "cases.txt"), filepath.Join(scratch, "results.txt")
	t1 := time.Now()
	total, err := writeCases(caseFile, items)
	if err != nil {
		fmt.Fprintln(os.Stderr, "pvlower:", err)
		os.RemoveAll(scratch)
		os.Exit(2)
	}
	var results []string
	if total > 0 {
		cmd := exec.Command(*pvrun, "-hosts", *hosts, "-cases", caseFile, "-out", resFile, "-j", strconv.Itoa(*jobs))
		var stderr bytes.Buffer
		cmd.Stderr = &stderr
		if err := cmd.Run(); err != nil {
			fmt.Fprintf(os.Stderr, "pvlower: pvrun: %v\n%s", err, stderr.String())
			os.RemoveAll(scratch)
			os.Exit(2)
		}
		if results, err = readLines(resFile); err != nil || len(results) != total {
			fmt.Fprintf(os.Stderr, "pvlower: %d result lines for %d cases (%v)\n", len(results), total, err)
			os.RemoveAll(scratch)
			os.Exit(2)
		}
	}
	tRun := time.Since(t1)

	// phase 3: comparison
	t2 := time.Now()
	cmp := make([]*compared, len(items))
	next = make(chan int)
	for w := 0; w < *jobs; w++ {
		wg.Add(1)
		go func() {
			defer wg.Done()
			for i := range next {
				cmp[i] = compare(cfg, items[i], results)
			}
		}()
	}
	for i := range items {
		next <- i
	}
	close(next)
	wg.Wait()
	tCmp := time.Since(t2)

	for i, it := range items {
		rep.Seen(it.dump, it.nodes >= 3)
		rep.Count("rules_per_grammar", fmt.Sprint(it.rules), 1)
		rep.KindHistogram("node_kinds_generated", it.kinds[:])
		for _, key := range pvpeg.SortedKeys(it.emitted) {
			rep.Count("node_kinds_read_back", key, it.emitted[key])
		}
		for _, key := range pvpeg.SortedKeys(it.features) {
			rep.Count("terminal_features", key, it.features[key])
		}
		rep.Count("generator", "wf_retries", it.retries)
		rep.Count("generator", "special_runes_planted", it.planted)
		rep.Count("lowering", "builds", len(it.sets))
		rep.Count("runs", "budget_exhausted_dropped", it.exhausted)
		c := cmp[i]
		for _, key := range pvpeg.SortedKeys(c.counts) {
			rep.Count("runs", key, c.counts[key])
		}
		for _, key := range pvpeg.SortedKeys(c.values) {
			rep.Count("top_value_kinds", key, c.values[key])
		}
		for _, f := range append(it.fails, c.fails...) {
			rep.Fail(f.kind, f.detail, f.name, f.file, nil)
		}
		if i < 3 {
			rep.Sample(it.text)
		}
	}
	// the timing goes to stderr: the report is a function of the seed
	fmt.Fprintf(os.Stderr, "pvlower: generate+lower %d ms, hosts %d ms (%d cases), compare %d ms\n",
		tGen.Milliseconds(), tRun.Milliseconds(), total, tCmp.Milliseconds())
	rep.Count("runs", "cases", total)
	rep.Print(os.Stdout)
}

func readLines(file string) ([]string, error) {
	data, err := os.ReadFile(file)
	if err != nil {
		return nil, err
	}
	lines := strings.Split(string(data), "\n")
	if n := len(lines); n > 0 && lines[n-1] == "" {
		lines = lines[:n-1]
	}
	return lines, nil
}

// writeCases writes the case file and releases the case lines; the id of a
// case is its 1-based line index.
func writeCases(file string, items []*item) (int, error) {
	f, err := os.Create(file)
	if err != nil {
		return 0, err
	}
	w := bufio.NewWriterSize(f, 1<<20)
	w.WriteString(pvcase.UnicodeHeader())
	w.WriteByte('\n')
	total := 0
	for _, it := range items {
		for _, b := range it.sets {
			b.first = total
			for _, line := range b.lines {
				// the id was left open: "case 0 ..."
				total++
				w.WriteString("case ")
				w.WriteString(strconv.Itoa(total))
				w.WriteString(line[len("case 0"):])
				w.WriteByte('\n')
			}
			b.lines = nil
		}
	}
	if err := w.Flush(); err != nil {
		f.Close()
		return 0, err
	}
	return total, f.Close()
}

func optimizeGrammar(g *ast.Grammar) (panicked string) {
	defer func() {
		if x := recover(); x != nil {
			panicked = fmt.Sprint(x)
		}
	}()
	ast.Optimize(g)
	return ""
}

func build(g *ast.Grammar, set flagSet) (src []byte, err error) {
	defer func() {
		if x := recover(); x != nil {
			err = fmt.Errorf("BuildParser panicked: %v", x)
		}
	}()
	var buf bytes.Buffer
	buf.Grow(1 << 17)
	err = builder.BuildParser(&buf, g, builder.Optimize(set.optimize), builder.BasicLatinLookupTable(set.basicLatin),
		builder.SupportLeftRecursion(false))
	return buf.Bytes(), err
}

func evaluate(cfg config, i int) (it *item) {
	it = &item{index: i, emitted: map[string]int{}, features: map[string]int{}}
	r := pvpeg.SubRand(cfg.seed, 0, i)
	name := func(kind, variant string) string {
		return fmt.Sprintf("pvlower-s%d-i%d-%s-%s.txt", cfg.seed, i, variant, kind)
	}
	defer func() {
		if x := recover(); x != nil {
			it.sets = nil
			it.fails = append(it.fails, outcome{"harness-panic", fmt.Sprint(x), name("harness-panic", "all"), fmt.Sprint(x)})
		}
	}()
	g0, retries, planted := genGrammar(r)
	if sg := systematic(i); sg != nil {
		// the first grammars of every run are not drawn: one literal / class per special code point, with and without
		// the i flag, so that no change of the random stream can lose them
		g0, retries, planted = sg, 0, 1
	}
	it.retries, it.planted = retries, planted
	// the text of the grammar and the AST with the positions of that text
	printed := pvpeg.PrintPos(g0, pvpeg.SubRand(cfg.seed, 1, i), plain)
	g := printed.AST
	it.text = printed.Text
	it.dump = pvpeg.Dump(g, true)
	it.rules = len(g.Rules)
	it.kinds, it.nodes = pvpeg.CountKinds(g)
	features(g, it.features)

	prog := pvref.Compile(g)
	start := g.Rules[0].Name.Val
	alpha := alphabet(r, g)
	for _, set := range flagSets {
		variant := set.name()
		header := func(detail string) string {
			return fmt.Sprintf("# pvlower -seed %d, grammar %d, flag set %s (optimize=%t basicLatin=%t)\n# %s\n\n%s\n\n# AST\n%s\n",
				cfg.seed, i, variant, set.optimize, set.basicLatin, strings.ReplaceAll(detail, "\n", "\n# "), it.text, it.dump)
		}
		gg := pvpeg.Clone(g)
		if set.optGrammar {
			if msg := optimizeGrammar(gg); msg != "" {
				it.fails = append(it.fails, outcome{"optimize-panic", variant + ": " + msg, name("optimize-panic", variant), header(msg)})
				continue
			}
		}
		src, err := build(gg, set)
		if err != nil {
			it.fails = append(it.fails, outcome{"build-error", variant + ": " + err.Error(), name("build-error", variant), header(err.Error())})
			continue
		}
		var lit goast.Expr
		if cfg.fullParse {
			lit, err = grammarLiteralFull(src)
		} else {
			lit, err = grammarLiteral(src)
		}
		var cg pvcase.Grammar
		if err == nil {
			cg, err = readGrammar(lit, set.flags())
		}
		if err != nil {
			emitted := string(src)
			if at := strings.Index(emitted, "\nfunc "); at > 0 {
				emitted = emitted[:at]
			}
			if at := strings.Index(emitted, "\nvar (\n"); at > 0 {
				emitted = emitted[:at]
			}
			it.fails = append(it.fails, outcome{"lowering-parse", variant + ": " + err.Error(), name("lowering-parse", variant),
				header(err.Error()) + "\n# emitted\n" + emitted})
			continue
		}
		for _, rl := range cg.Rules {
			rl.Expr.Walk(func(e *pvcase.Expr) { it.emitted[e.Kind]++ })
		}
		b := &built{set: set, caseG: cg}
		c := &pvcase.Case{Flags: set.flags(), Opts: pvcase.DefaultOpts(), Fuel: fuel, Grammar: cg}
		for _, in := range inputs(r, g, alpha, cfg.k) {
			ex := expect{input: in}
			// an input that is not UTF-8 makes the runtime record "invalid
			// encoding" errors; with such an error and a nil value a failed
			// parse cannot be told from a successful one by the result
			// alone, so half of these inputs run with AllowInvalidUTF8
			if !utf8.ValidString(in) && r.Intn(2) == 0 {
				ex.allowInvalid = true
			}
			res := prog.RunShape(start, in, budget)
			switch {
			case res.Unsupported != "":
				panic("oracle does not support the grammar: " + res.Unsupported)
			case res.Exhausted:
				// exponential backtracking: the host would run into its
				// watchdog; the input is dropped
				it.exhausted++
				continue
			default:
				ex.ok, ex.end = res.OK, res.End
				if res.OK {
					ex.val = res.Val.String()
				}
			}
			c.Opts.AllowInvalid = ex.allowInvalid
			c.Input = []byte(in)
			b.lines = append(b.lines, c.String())
			b.expects = append(b.expects, ex)
		}
		it.sets = append(it.sets, b)
	}
	return it
}

// features counts the forms of terminals in g.
func features(g *ast.Grammar, into map[string]int) {
	for _, r := range g.Rules {
		if r.DisplayName != nil {
			into["rule_display_name"]++
		}
		pvpeg.WalkExpr(r.Expr, func(e ast.Expression) {
			switch e := e.(type) {
			case *ast.LitMatcher:
				into["lit"]++
				if e.IgnoreCase {
					into["lit_i"]++
				}
				if e.Val == "" {
					into["lit_empty"]++
				}
				multi, fold := false, false
				for _, c := range e.Val {
					multi = multi || c >= 0x80
					for _, s := range special {
						fold = fold || (s == c && c >= 0x80)
					}
				}
				if multi {
					into["lit_multibyte"]++
				}
				if fold {
					into["lit_special_rune"]++
				}
				if fold && e.IgnoreCase {
					into["lit_i_special_rune"]++
				}
			case *ast.CharClassMatcher:
				into["class"]++
				if e.IgnoreCase {
					into["class_i"]++
				}
				if e.Inverted {
					into["class_inverted"]++
				}
				if len(e.Ranges) > 0 {
					into["class_ranges"]++
				}
				if len(e.UnicodeClasses) > 0 {
					into["class_unicode"]++
				}
				if e.IgnoreCase && (len(e.Ranges) > 0 || len(e.UnicodeClasses) > 0) {
					into["class_i_ranges_or_unicode"]++
				}
			case *ast.LabeledExpr:
				into["label"]++
			}
		})
	}
}

type compared struct {
	counts map[string]int
	values map[string]int
	fails  []outcome
}

func hasError(errs []string, what string) bool {
	for _, e := range errs {
		if strings.Contains(e, what) {
			return true
		}
	}
	return false
}

func onlyErrors(errs []string, what string) bool {
	for _, e := range errs {
		if !strings.Contains(e, what) {
			return false
		}
	}
	return len(errs) > 0
}

// compare checks the result lines of one grammar against the expectations;
// at most one failure per flag set is recorded.
func compare(cfg config, it *item, results []string) *compared {
	c := &compared{counts: map[string]int{}, values: map[string]int{}}
	for _, b := range it.sets {
		variant := b.set.name()
		failed := false
		for j, ex := range b.expects {
			id := b.first + j + 1
			line := results[b.first+j]
			fail := func(kind, detail, actual string) {
				if failed {
					return
				}
				failed = true
				exp := "no match"
				if ex.ok {
					exp = fmt.Sprintf("match, consumes %d bytes, value %s", ex.end, ex.val)
				}
				cs := &pvcase.Case{ID: uint64(id), Flags: b.set.flags(), Opts: pvcase.DefaultOpts(), Fuel: fuel, Grammar: b.caseG, Input: []byte(ex.input)}
				cs.Opts.AllowInvalid = ex.allowInvalid
				file := fmt.Sprintf("# pvlower -seed %d, grammar %d, flag set %s (optimize=%t basicLatin=%t), input %d\n# %s\n# input: %q (%s), AllowInvalidUTF8=%t\n# expected: %s\n# actual:   %s\n\n%s\n\n# AST\n%s\n\n# read back from the emitted literal\n%s\n\n# case line\n%s\n\n# result line\n%s\n",
					cfg.seed, it.index, variant, b.set.optimize, b.set.basicLatin, j, detail, ex.input, pvcase.HexStr(ex.input), ex.allowInvalid, exp, actual,
					it.text, it.dump, cs.Pretty(), cs.String(), line)
				c.fails = append(c.fails, outcome{kind, fmt.Sprintf("%s, input %q: %s", variant, ex.input, detail),
					fmt.Sprintf("pvlower-s%d-i%d-%s-%s.txt", cfg.seed, it.index, variant, kind), file})
			}
			want := "res " + strconv.Itoa(id) + " "
			if !strings.HasPrefix(line, want) {
				fail("host-crash", "result line does not belong to the case", line)
				continue
			}
			switch status, _, _ := strings.Cut(line[len(want):], " "); status {
			case "timeout", "timeout-skipped":
				fail("timeout", "the host reported "+status, status)
				continue
			case "crash", "badvariant", "oof", "panic":
				fail("host-crash", "the host reported "+status, line)
				continue
			case "hostcheck":
				// a check the host makes on every result (error list contract, returned values stay what they were, ...)
				fail("hostcheck", strings.TrimPrefix(line[len(want):], "hostcheck "), line)
				continue
			}
			res, err := readRet(line)
			if err != nil {
				fail("host-crash", fmt.Sprintf("unreadable result line: %v", err), line)
				continue
			}
			c.counts["compared"]++
			if utf8.ValidString(ex.input) {
				c.counts["input_valid_utf8"]++
			} else {
				c.counts["input_invalid_utf8"]++
			}
			if ex.allowInvalid {
				c.counts["option_allow_invalid_utf8"]++
			}
			got := res.val
			actual := fmt.Sprintf("value %s, final offset %d, errors %q", got, res.off, res.errs)
			// a failed parse returns nil and an error; "no match found" is
			// only recorded when there is no other error
			implOK := !hasError(res.errs, "no match found")
			if implOK && got == "nil" && res.off == 0 && len(res.errs) > 0 {
				if onlyErrors(res.errs, "invalid encoding") && !ex.allowInvalid {
					// undecidable from the result: nil value, nothing
					// consumed, encoding errors only. Resolved in favour of
					// the expectation when that is one of the two readings.
					if !ex.ok || (ex.end == 0 && ex.val == "nil") {
						c.counts["undecidable_nil_with_encoding_errors"]++
						implOK = ex.ok
					}
				} else {
					fail("accepts-differ", "unexpected errors with a nil value", actual)
					continue
				}
			}
			if ex.ok {
				c.counts["accepted"]++
			} else {
				c.counts["rejected"]++
			}
			switch {
			case implOK != ex.ok:
				fail("accepts-differ", fmt.Sprintf("reference ok=%t, generated parser ok=%t", ex.ok, implOK), actual)
			case !ex.ok:
			case res.off != ex.end:
				fail("prefix-differs", fmt.Sprintf("reference consumes %d bytes, generated parser %d", ex.end, res.off), actual)
			case got != ex.val && !b.set.optGrammar:
				fail("value-differs", fmt.Sprintf("reference value %s, generated parser %s", ex.val, got), actual)
			default:
				kind, _, _ := strings.Cut(ex.val, " ")
				c.values[kind]++
			}
		}
	}
	return c
}
