package main

import (
	"fmt"
	goast "go/ast"
	"go/parser"
	"go/token"
	"os"
	"strconv"
	"strings"

	"pvharness/pvcase"
)

// callArgs reads, for every `func (p *parser) callonX() ...` of the emitted file, the label names it hands to the
// code block: the `stack["name"]` arguments of the call in its return statement, in order.
func callArgs(src []byte) (map[string][]string, error) {
	f, err := parser.ParseFile(token.NewFileSet(), "emitted.go", src, parser.SkipObjectResolution)
	if err != nil {
		return nil, err
	}
	out := map[string][]string{}
	for _, d := range f.Decls {
		fd, ok := d.(*goast.FuncDecl)
		if !ok || fd.Recv == nil || !strings.HasPrefix(fd.Name.Name, "callon") || fd.Body == nil {
			continue
		}
		var names []string
		found := false
		for _, st := range fd.Body.List {
			rs, ok := st.(*goast.ReturnStmt)
			if !ok || len(rs.Results) != 1 {
				continue
			}
			call, ok := rs.Results[0].(*goast.CallExpr)
			if !ok {
				return nil, fmt.Errorf("%s: the return value is not a call", fd.Name.Name)
			}
			found = true
			for _, a := range call.Args {
				ix, ok := a.(*goast.IndexExpr)
				if !ok || !isIdent(ix.X, "stack") {
					return nil, fmt.Errorf("%s: an argument is not stack[...]", fd.Name.Name)
				}
				bl, ok := ix.Index.(*goast.BasicLit)
				if !ok || bl.Kind != token.STRING {
					return nil, fmt.Errorf("%s: stack index is not a string literal", fd.Name.Name)
				}
				v, err := strconv.Unquote(bl.Value)
				if err != nil {
					return nil, fmt.Errorf("%s: %v", fd.Name.Name, err)
				}
				names = append(names, v)
			}
		}
		if !found {
			return nil, fmt.Errorf("%s: no return statement with a call", fd.Name.Name)
		}
		if _, dup := out[fd.Name.Name]; dup {
			return nil, fmt.Errorf("%s is declared twice", fd.Name.Name)
		}
		out[fd.Name.Name] = names
	}
	return out, nil
}

// readback mode: `pvlower -readback o<0|1>l<0|1>b<0|1>:FILE.go ...`
//
// Every FILE.go is a parser written by the working tree's pigeon (for a
// grammar of the repository: the front-end grammar, the bootstrap grammar,
// the example and test grammars, with the flags of the Makefile). The
// `var g = &grammar{...}` literal is read back node by node - code-bearing
// nodes included - and printed as one case line of /verif/PROTOCOL.md per
// file (case id = position on the command line, empty input, default
// options). Code blocks become blocks of the block language that do nothing
// (actions return nil, predicates return true): the consumers of these lines
// (pvdriver --emit-lean, the well-formedness checkers) quantify over every
// code environment and never run them.
//
// This is the translator half of the tie for grammars: the Lean module
// generated from these lines is re-checked by the kernel on every run.
func readbackMain(args []string) int {
	if len(args) == 0 {
		fmt.Fprintln(os.Stderr, "pvlower -readback: no files")
		return 2
	}
	rc := 0
	for i, a := range args {
		colon := strings.IndexByte(a, ':')
		if colon != 6 || a[0] != 'o' || a[2] != 'l' || a[4] != 'b' {
			fmt.Fprintf(os.Stderr, "pvlower -readback: %q is not o<0|1>l<0|1>b<0|1>:FILE\n", a)
			return 2
		}
		flags := pvcase.Flags{Optimize: a[1] == '1', LeftRec: a[3] == '1', BasicLatin: a[5] == '1'}
		src, err := os.ReadFile(a[colon+1:])
		if err != nil {
			fmt.Printf("readback-error %d %v\n", i, err)
			rc = 1
			continue
		}
		lit, err := grammarLiteralFull(src)
		if err != nil {
			fmt.Printf("readback-error %d %v\n", i, err)
			rc = 1
			continue
		}
		g, blocks, err := readGrammarCode(lit, flags, true)
		if err != nil {
			fmt.Printf("readback-error %d %v\n", i, err)
			rc = 1
			continue
		}
		c := &pvcase.Case{ID: uint64(i), Flags: flags, Opts: pvcase.DefaultOpts(), Fuel: 1, Grammar: g}
		args, err := callArgs(src)
		if err != nil {
			fmt.Printf("readback-error %d %v\n", i, err)
			rc = 1
			continue
		}
		bad := false
		for j, b := range blocks {
			blk := &pvcase.Block{ID: j, Kind: b.Kind}
			a, ok := args[b.Run]
			if !ok {
				fmt.Printf("readback-error %d the grammar literal refers to %s, which the file does not declare\n", i, b.Run)
				rc, bad = 1, true
				break
			}
			blk.Args = a
			switch b.Kind {
			case 'a':
				blk.RetV = &pvcase.VExpr{Op: "const", Val: pvcase.NilVal()}
			case 'p':
				blk.RetB = &pvcase.BExpr{Op: "t"}
			}
			c.Blocks = append(c.Blocks, blk)
			if b.Kind == 's' {
				c.Flags.GlobalState = true
			}
		}
		if bad {
			continue
		}
		fmt.Println(c.String())
	}
	return rc
}
