package main

import (
	"fmt"
	"strconv"
	"strings"

	"pvharness/pvcase"
)

// retLine is what the comparison needs of a `res <id> ret ...` line. It is
// read here rather than with pvcase.ParseResult because that limits the
// nesting of a value to 200 levels, and a right-recursive rule over an input
// of a hundred runes returns a deeper one.
type retLine struct {
	val  string // the VAL in its canonical spelling, as the host printed it
	errs []string
	off  int // final offset of the parser
}

// valEnd returns the index after the VAL that starts at toks[i].
func valEnd(toks []string, i int) (int, error) {
	// iterative: pending counts the values still to be read
	for pending := 1; pending > 0; pending-- {
		if i >= len(toks) {
			return 0, fmt.Errorf("value cut short")
		}
		switch toks[i] {
		case "nil":
			i++
		case "b", "s", "i", "bool":
			i += 2
		case "l":
			if i+1 >= len(toks) {
				return 0, fmt.Errorf("value cut short")
			}
			n, err := strconv.Atoi(toks[i+1])
			if err != nil || n < 0 {
				return 0, fmt.Errorf("bad list length %q", toks[i+1])
			}
			pending += n
			i += 2
		case "cl":
			if i+1 >= len(toks) {
				return 0, fmt.Errorf("value cut short")
			}
			n, err := strconv.Atoi(toks[i+1])
			if err != nil || n < 0 {
				return 0, fmt.Errorf("bad cl length %q", toks[i+1])
			}
			i += 2 + n
		default:
			return 0, fmt.Errorf("bad value token %q", toks[i])
		}
	}
	if i > len(toks) {
		return 0, fmt.Errorf("value cut short")
	}
	return i, nil
}

// readRet reads a line `res <id> ret VAL <nerrs> <msg:H>*nerrs <off> ...`.
func readRet(line string) (*retLine, error) {
	toks := strings.Split(strings.TrimRight(line, "\r\n"), " ")
	if len(toks) < 4 || toks[0] != "res" || toks[2] != "ret" {
		return nil, fmt.Errorf("not a ret line")
	}
	end, err := valEnd(toks, 3)
	if err != nil {
		return nil, err
	}
	r := &retLine{val: strings.Join(toks[3:end], " ")}
	if end >= len(toks) {
		return nil, fmt.Errorf("no error count")
	}
	n, err := strconv.Atoi(toks[end])
	if err != nil || n < 0 || end+1+n >= len(toks) {
		return nil, fmt.Errorf("bad error count %q", toks[end])
	}
	for _, t := range toks[end+1 : end+1+n] {
		b, err := pvcase.Unhex(t)
		if err != nil {
			return nil, err
		}
		r.errs = append(r.errs, string(b))
	}
	if r.off, err = strconv.Atoi(toks[end+1+n]); err != nil || r.off < 0 {
		return nil, fmt.Errorf("bad offset %q", toks[end+1+n])
	}
	return r, nil
}
