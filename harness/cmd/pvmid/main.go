// Command pvmid drives the grammar-analysis ("mid") correspondence stream.
//
//	pvmid -gen -seed S -n N [-throw]     print N*orders case lines (see PROTOCOL.md, "mid stream")
//	pvmid -run < cases                    run the real ast/builder analysis on every case line, print midres lines
//	pvmid -det K < cases                  call builder.PrepareGrammar K times per grammar (Go map order), print
//	                                      one line per case: "det <id> <number of distinct outcomes> <outcome>..."
package main

import (
	"bufio"
	"encoding/hex"
	"errors"
	"flag"
	"fmt"
	"io"
	"math/rand/v2"
	"os"
	"sort"
	"strconv"
	"strings"

	"github.com/mna/pigeon/ast"
	"github.com/mna/pigeon/builder"
)

// ------------------------------------------------------------------ case tree

type node struct {
	tag  string
	flag bool // cls: noMembers, lit: empty
	name string
	kids []*node
}

func hx(s string) string { return "x" + hex.EncodeToString([]byte(s)) }

func (n *node) write(b *strings.Builder) {
	b.WriteByte(' ')
	b.WriteString(n.tag)
	switch n.tag {
	case "cls", "lit":
		if n.flag {
			b.WriteString(" 1")
		} else {
			b.WriteString(" 0")
		}
	case "ref":
		b.WriteByte(' ')
		b.WriteString(hx(n.name))
	case "ch", "seq":
		b.WriteByte(' ')
		b.WriteString(strconv.Itoa(len(n.kids)))
	}
	for _, k := range n.kids {
		k.write(b)
	}
}

type rule struct {
	name string
	expr *node
}

// ------------------------------------------------------------------ bounded-exhaustive enumeration

// enumBodies: every body of at most `size` nodes over the leaves lit, "" and a reference to each rule, the unary
// operators ? * + & ! and the binary ones (sequence, choice of two).
func enumBodies(names []string, size int) []*node {
	bySize := map[int][]*node{}
	var leaves []*node
	leaves = append(leaves, &node{tag: "lit"}, &node{tag: "lit", flag: true})
	for _, n := range names {
		leaves = append(leaves, &node{tag: "ref", name: n})
	}
	bySize[1] = leaves
	for sz := 2; sz <= size; sz++ {
		var out []*node
		for _, k := range bySize[sz-1] {
			for _, u := range []string{"opt", "star", "plus", "and", "not"} {
				out = append(out, &node{tag: u, kids: []*node{k}})
			}
		}
		for i := 1; i <= sz-2; i++ {
			for _, a := range bySize[i] {
				for _, b := range bySize[sz-1-i] {
					out = append(out, &node{tag: "seq", kids: []*node{a, b}}, &node{tag: "ch", kids: []*node{a, b}})
				}
			}
		}
		bySize[sz] = out
	}
	var all []*node
	for sz := 1; sz <= size; sz++ {
		all = append(all, bySize[sz]...)
	}
	return all
}

// enumCases prints, for 2 rules with bodies of at most 3 nodes and for 3 rules with bodies of at most 2 nodes, EVERY grammar,
// each in grammar order and in reverse order (the order in which the analysis meets the rules); -stride / -offset select a
// residue class of the enumeration.
func enumCases(stride, offset uint64, w *bufio.Writer) {
	id := 1
	var k uint64
	emit := func(names []string, bodies []*node, idx []int) {
		defer func() { k++ }()
		if stride > 1 && k%stride != offset%stride {
			return
		}
		var gs strings.Builder
		gs.WriteString(strconv.Itoa(len(names)))
		for i, nm := range names {
			gs.WriteByte(' ')
			gs.WriteString(hx(nm))
			bodies[idx[i]].write(&gs)
		}
		rev := append([]string{}, names...)
		for a, b := 0, len(rev)-1; a < b; a, b = a+1, b-1 {
			rev[a], rev[b] = rev[b], rev[a]
		}
		for _, o := range [][]string{names, rev} {
			fmt.Fprintf(w, "mid %d %s %d", id, gs.String(), len(o))
			for _, nm := range o {
				fmt.Fprintf(w, " %s", hx(nm))
			}
			fmt.Fprintln(w)
			id++
		}
	}
	two := []string{"A", "B"}
	b2 := enumBodies(two, 3)
	for i := range b2 {
		for j := range b2 {
			emit(two, b2, []int{i, j})
		}
	}
	three := []string{"A", "B", "C"}
	b3 := enumBodies(three, 2)
	for i := range b3 {
		for j := range b3 {
			for l := range b3 {
				emit(three, b3, []int{i, j, l})
			}
		}
	}
}

// ------------------------------------------------------------------ generator

type gen struct {
	r      *rand.Rand
	names  []string
	throws bool
}

func (g *gen) leaf() *node {
	switch g.r.IntN(12) {
	case 0:
		return &node{tag: "lit", flag: true}
	case 1:
		return &node{tag: "any"}
	case 2:
		return &node{tag: "cls", flag: g.r.IntN(6) == 0}
	case 3:
		return &node{tag: []string{"andc", "notc", "stc"}[g.r.IntN(3)]}
	case 4, 5, 6, 7:
		if g.r.IntN(25) == 0 {
			return &node{tag: "ref", name: "Zundef"}
		}
		return &node{tag: "ref", name: g.names[g.r.IntN(len(g.names))]}
	case 8:
		if g.throws {
			return &node{tag: "thr"}
		}
		return &node{tag: "lit"}
	default:
		return &node{tag: "lit"}
	}
}

func (g *gen) expr(d int) *node {
	if d <= 0 || g.r.IntN(5) == 0 {
		return g.leaf()
	}
	switch g.r.IntN(14) {
	case 0, 1, 2:
		n := &node{tag: "seq"}
		for i, k := 0, 2+g.r.IntN(2); i < k; i++ {
			n.kids = append(n.kids, g.expr(d-1))
		}
		return n
	case 3, 4:
		n := &node{tag: "ch"}
		for i, k := 0, 2+g.r.IntN(2); i < k; i++ {
			n.kids = append(n.kids, g.expr(d-1))
		}
		return n
	case 5:
		return &node{tag: "opt", kids: []*node{g.expr(d - 1)}}
	case 6:
		return &node{tag: "star", kids: []*node{g.expr(d - 1)}}
	case 7:
		return &node{tag: "plus", kids: []*node{g.expr(d - 1)}}
	case 8:
		return &node{tag: "and", kids: []*node{g.expr(d - 1)}}
	case 9:
		return &node{tag: "not", kids: []*node{g.expr(d - 1)}}
	case 10:
		return &node{tag: "lab", kids: []*node{g.expr(d - 1)}}
	case 11:
		return &node{tag: "act", kids: []*node{g.expr(d - 1)}}
	case 12:
		if g.throws {
			return &node{tag: "rec", kids: []*node{g.expr(d - 1), g.expr(d - 1)}}
		}
		return g.expr(d - 1)
	default:
		return g.leaf()
	}
}

func genCases(seed uint64, n int, throws bool, w *bufio.Writer) {
	r := rand.New(rand.NewPCG(seed, 0x6d6964))
	id := 1
	for i := 0; i < n; i++ {
		nr := 1 + r.IntN(4)
		g := &gen{r: r, throws: throws && r.IntN(3) == 0}
		for k := 0; k < nr; k++ {
			g.names = append(g.names, string(rune('A'+k)))
		}
		var rules []rule
		for k := 0; k < nr; k++ {
			rules = append(rules, rule{g.names[k], g.expr(1 + r.IntN(3))})
		}
		if r.IntN(10) == 0 {
			// a family of its own: nullable only THROUGH a cycle. X <- Y / "" ; Y <- X ; Z <- Y Z "x" / "c" (under every
			// assignment of the names, which decides the order in which the analysis meets the rules): Y is nullable, so
			// Z reaches itself at the same position; an analysis that settles Y's nullability while X is still being
			// visited never sees it
			nm := []string{"A", "B", "C", "D"}
			r.Shuffle(3, func(a, b int) { nm[a], nm[b] = nm[b], nm[a] })
			x, y, z := nm[0], nm[1], nm[2]
			ref := func(n string) *node { return &node{tag: "ref", name: n} }
			lit := func() *node { return &node{tag: "lit"} }
			empty := &node{tag: "lit", flag: true}
			var prefix *node = ref(y)
			if r.IntN(3) == 0 {
				prefix = &node{tag: "lab", kids: []*node{ref(y)}}
			}
			rules = []rule{
				{x, &node{tag: "ch", kids: []*node{ref(y), empty}}},
				{y, ref(x)},
				{z, &node{tag: "ch", kids: []*node{{tag: "seq", kids: []*node{prefix, ref(z), lit()}}, lit()}}},
			}
			if r.IntN(2) == 0 {
				// ... or the cycle closes through a second rule: Z <- Z "y" / Y W "x" / "c" ; W <- Z
				rules[2] = rule{z, &node{tag: "ch", kids: []*node{{tag: "seq", kids: []*node{ref(z), lit()}},
					{tag: "seq", kids: []*node{prefix, ref("D"), lit()}}, lit()}}}
				rules = append(rules, rule{"D", ref(z)})
			}
			g.names = nil
			for _, ru := range rules {
				g.names = append(g.names, ru.name)
			}
			sort.Strings(g.names)
			sort.Slice(rules, func(a, b int) bool { return rules[a].name < rules[b].name })
			nr = len(rules)
		}
		if r.IntN(300) == 0 {
			// a family of its own: the nullable prefix in front of the recursive reference is established only k rule references
			// deep - A <- P01 A "x" / "y" ; P01 <- P02 ; ... ; Pk <- "z"? (k on both sides of 16 / 32 / 64 / 128: round 23, a
			// depth cap in the nullable walk that answers "not nullable")
			k := []int{3, 15, 16, 17, 31, 32, 33, 63, 64, 65, 70, 129}[r.IntN(12)]
			ref := func(n string) *node { return &node{tag: "ref", name: n} }
			lit := func() *node { return &node{tag: "lit"} }
			pn := func(i int) string { return fmt.Sprintf("P%03d", i) }
			rules = []rule{{"A", &node{tag: "ch", kids: []*node{{tag: "seq", kids: []*node{ref(pn(1)), ref("A"), lit()}}, lit()}}}}
			for i := 1; i < k; i++ {
				rules = append(rules, rule{pn(i), ref(pn(i + 1))})
			}
			last := &node{tag: "opt", kids: []*node{lit()}}
			if r.IntN(4) == 0 {
				last = lit() // the control: the prefix is NOT nullable, no left recursion
			}
			rules = append(rules, rule{pn(k), last})
			g.names = nil
			for _, ru := range rules {
				g.names = append(g.names, ru.name)
			}
			nr = len(rules)
		}
		if r.IntN(2) == 0 {
			// the order in which the rules are DEFINED is not the order of their names: the analysis visits the rules in
			// sorted name order whatever the order of definition (round 21: ComputeNullables in definition order)
			r.Shuffle(len(rules), func(a, b int) { rules[a], rules[b] = rules[b], rules[a] })
		}
		var gs strings.Builder
		gs.WriteString(strconv.Itoa(nr))
		for _, ru := range rules {
			gs.WriteByte(' ')
			gs.WriteString(hx(ru.name))
			ru.expr.write(&gs)
		}
		// orders: grammar order, reverse, and two random permutations
		orders := [][]string{append([]string{}, g.names...)}
		rev := append([]string{}, g.names...)
		for a, b := 0, len(rev)-1; a < b; a, b = a+1, b-1 {
			rev[a], rev[b] = rev[b], rev[a]
		}
		orders = append(orders, rev)
		for k := 0; k < 2; k++ {
			p := append([]string{}, g.names...)
			r.Shuffle(len(p), func(a, b int) { p[a], p[b] = p[b], p[a] })
			orders = append(orders, p)
		}
		seen := map[string]bool{}
		for _, o := range orders {
			key := strings.Join(o, ",")
			if seen[key] {
				continue
			}
			seen[key] = true
			fmt.Fprintf(w, "mid %d %s %d", id, gs.String(), len(o))
			for _, nm := range o {
				fmt.Fprintf(w, " %s", hx(nm))
			}
			fmt.Fprintln(w)
			id++
		}
	}
}

// ------------------------------------------------------------------ parsing case lines

type toks struct {
	t []string
	i int
}

func (t *toks) next() string { v := t.t[t.i]; t.i++; return v }
func (t *toks) nat() int     { v, err := strconv.Atoi(t.next()); must(err); return v }
func (t *toks) hexs() string {
	v := t.next()
	b, err := hex.DecodeString(v[1:])
	must(err)
	return string(b)
}

func must(err error) {
	if err != nil {
		panic(err)
	}
}

func (t *toks) expr() *node {
	tag := t.next()
	n := &node{tag: tag}
	switch tag {
	case "cls", "lit":
		n.flag = t.next() == "1"
	case "ref":
		n.name = t.hexs()
	case "ch", "seq":
		k := t.nat()
		for i := 0; i < k; i++ {
			n.kids = append(n.kids, t.expr())
		}
	case "act", "and", "not", "lab", "plus", "star", "opt":
		n.kids = []*node{t.expr()}
	case "rec":
		n.kids = []*node{t.expr(), t.expr()}
	case "andc", "notc", "stc", "any", "thr":
	default:
		panic("bad tag " + tag)
	}
	return n
}

func parseCase(line string) (id int, rules []rule, order []string) {
	t := &toks{t: strings.Fields(line)}
	if t.next() != "mid" {
		panic("expected mid")
	}
	id = t.nat()
	nr := t.nat()
	for i := 0; i < nr; i++ {
		name := t.hexs()
		rules = append(rules, rule{name, t.expr()})
	}
	no := t.nat()
	for i := 0; i < no; i++ {
		order = append(order, t.hexs())
	}
	return
}

// ------------------------------------------------------------------ building the real AST

var p0 = ast.Pos{Line: 1, Col: 1, Off: 0}

func build(n *node) ast.Expression {
	switch n.tag {
	case "act":
		e := ast.NewActionExpr(p0)
		e.Expr = build(n.kids[0])
		e.Code = ast.NewCodeBlock(p0, "{ return nil, nil }")
		return e
	case "andc":
		e := ast.NewAndCodeExpr(p0)
		e.Code = ast.NewCodeBlock(p0, "{ return true, nil }")
		return e
	case "notc":
		e := ast.NewNotCodeExpr(p0)
		e.Code = ast.NewCodeBlock(p0, "{ return true, nil }")
		return e
	case "stc":
		e := ast.NewStateCodeExpr(p0)
		e.Code = ast.NewCodeBlock(p0, "{ return nil }")
		return e
	case "and":
		e := ast.NewAndExpr(p0)
		e.Expr = build(n.kids[0])
		return e
	case "not":
		e := ast.NewNotExpr(p0)
		e.Expr = build(n.kids[0])
		return e
	case "any":
		return ast.NewAnyMatcher(p0, ".")
	case "cls":
		if n.flag {
			return ast.NewCharClassMatcher(p0, "[]")
		}
		return ast.NewCharClassMatcher(p0, "[a-c]")
	case "ch":
		e := ast.NewChoiceExpr(p0)
		for _, k := range n.kids {
			e.Alternatives = append(e.Alternatives, build(k))
		}
		return e
	case "lab":
		e := ast.NewLabeledExpr(p0)
		e.Label = ast.NewIdentifier(p0, "l")
		e.Expr = build(n.kids[0])
		return e
	case "lit":
		if n.flag {
			return ast.NewLitMatcher(p0, "")
		}
		return ast.NewLitMatcher(p0, "x")
	case "plus":
		e := ast.NewOneOrMoreExpr(p0)
		e.Expr = build(n.kids[0])
		return e
	case "star":
		e := ast.NewZeroOrMoreExpr(p0)
		e.Expr = build(n.kids[0])
		return e
	case "opt":
		e := ast.NewZeroOrOneExpr(p0)
		e.Expr = build(n.kids[0])
		return e
	case "rec":
		e := ast.NewRecoveryExpr(p0)
		e.Expr = build(n.kids[0])
		e.RecoverExpr = build(n.kids[1])
		e.Labels = []ast.FailureLabel{"L"}
		return e
	case "ref":
		e := ast.NewRuleRefExpr(p0)
		e.Name = ast.NewIdentifier(p0, n.name)
		return e
	case "seq":
		e := ast.NewSeqExpr(p0)
		for _, k := range n.kids {
			e.Exprs = append(e.Exprs, build(k))
		}
		return e
	case "thr":
		e := ast.NewThrowExpr(p0)
		e.Label = "L"
		return e
	}
	panic("bad tag " + n.tag)
}

func b01(b bool) string {
	if b {
		return "1"
	}
	return "0"
}

func flagsOf(e ast.Expression, b *strings.Builder) {
	switch e := e.(type) {
	case *ast.ActionExpr:
		b.WriteString(b01(e.Nullable))
		flagsOf(e.Expr, b)
	case *ast.AndExpr:
		flagsOf(e.Expr, b)
	case *ast.NotExpr:
		flagsOf(e.Expr, b)
	case *ast.LabeledExpr:
		flagsOf(e.Expr, b)
	case *ast.OneOrMoreExpr:
		flagsOf(e.Expr, b)
	case *ast.ZeroOrMoreExpr:
		flagsOf(e.Expr, b)
	case *ast.ZeroOrOneExpr:
		flagsOf(e.Expr, b)
	case *ast.ChoiceExpr:
		b.WriteString(b01(e.Nullable))
		for _, a := range e.Alternatives {
			flagsOf(a, b)
		}
	case *ast.SeqExpr:
		b.WriteString(b01(e.Nullable))
		for _, a := range e.Exprs {
			flagsOf(a, b)
		}
	case *ast.RecoveryExpr:
		b.WriteString(b01(e.Nullable))
		flagsOf(e.Expr, b)
		flagsOf(e.RecoverExpr, b)
	case *ast.RuleRefExpr:
		b.WriteString(b01(e.Nullable))
	}
}

func buildRules(rules []rule) ([]*ast.Rule, map[string]*ast.Rule) {
	var list []*ast.Rule
	m := map[string]*ast.Rule{}
	for _, ru := range rules {
		r := ast.NewRule(p0, ast.NewIdentifier(p0, ru.name))
		r.Expr = build(ru.expr)
		list = append(list, r)
		m[ru.name] = r
	}
	return list, m
}

func outcome(list []*ast.Rule, verdict string) string {
	var b strings.Builder
	b.WriteString(verdict)
	b.WriteByte(' ')
	b.WriteString(strconv.Itoa(len(list)))
	for _, r := range list {
		var f strings.Builder
		flagsOf(r.Expr, &f)
		fmt.Fprintf(&b, " %s %s %s %s f%s", hx(r.Name.Val), b01(r.Nullable), b01(r.LeftRecursive), b01(r.Leader), f.String())
	}
	return b.String()
}

func runCase(line string) (res string) {
	id, rules, order := parseCase(line)
	defer func() {
		if e := recover(); e != nil {
			res = fmt.Sprintf("midres %d panic x%s", id, hex.EncodeToString([]byte(fmt.Sprint(e))))
		}
	}()
	list, m := buildRules(rules)
	for _, nm := range order {
		m[nm].NullableVisit(m)
	}
	graph := builder.MakeFirstGraph(m)
	have, err := builder.ComputeLeftRecursives(m)
	verdict := "ok0"
	if err != nil {
		verdict = "noleader"
	} else if have {
		verdict = "ok1"
	}
	var b strings.Builder
	fmt.Fprintf(&b, "midres %d %s", id, outcome(list, verdict))
	verts := make([]string, 0, len(graph))
	for v := range graph {
		verts = append(verts, v)
	}
	sort.Strings(verts)
	fmt.Fprintf(&b, " %d", len(verts))
	for _, v := range verts {
		ss := make([]string, 0, len(graph[v]))
		for s := range graph[v] {
			ss = append(ss, s)
		}
		sort.Strings(ss)
		fmt.Fprintf(&b, " %s %d", hx(v), len(ss))
		for _, s := range ss {
			fmt.Fprintf(&b, " %s", hx(s))
		}
	}
	return b.String()
}

// blankMarks: when the analysis ends with ErrNoLeader no parser is generated, and the marks that components met
// earlier (in map order) already carry are not a result; they are blanked so that they do not count as a difference.
func blankMarks(o string) string {
	f := strings.Split(o, " ")
	if len(f) < 2 || f[0] != "noleader" {
		return o
	}
	n, err := strconv.Atoi(f[1])
	if err != nil {
		return o
	}
	for k := 0; k < n; k++ {
		if i := 2 + 5*k; i+3 < len(f) {
			f[i+2], f[i+3] = "-", "-"
		}
	}
	return strings.Join(f, " ")
}

func detCase(line string, k int) string {
	id, rules, _ := parseCase(line)
	seen := map[string]int{}
	var order []string
	for i := 0; i < k; i++ {
		func() {
			defer func() {
				if e := recover(); e != nil {
					o := "panic"
					if seen[o] == 0 {
						order = append(order, o)
					}
					seen[o]++
				}
			}()
			list, _ := buildRules(rules)
			g := &ast.Grammar{Rules: list}
			have, err := builder.PrepareGrammar(g)
			verdict := "ok0"
			if err != nil {
				verdict = "noleader"
			} else if have {
				verdict = "ok1"
			}
			o := blankMarks(outcome(list, verdict))
			if seen[o] == 0 {
				order = append(order, o)
			}
			seen[o]++
		}()
	}
	var b strings.Builder
	fmt.Fprintf(&b, "det %d %d", id, len(order))
	for _, o := range order {
		fmt.Fprintf(&b, " | %d %s", seen[o], o)
	}
	return b.String()
}

// dupCase: the analysis must look at the definitions the generated parser runs. A rule name may be defined more
// than once (pigeon accepts that silently); references resolve to the LAST definition (parser.buildRulesTable), so
// earlier definitions of a non-first rule are dead text: inserting such a shadowed definition must not change the
// verdict of builder.PrepareGrammar. The decoy is derived from the case id: a literal, a directly left-recursive
// body, or the body of a neighbour rule.
func dupCase(line string) (res string) {
	id, rules, _ := parseCase(line)
	verdictOf := func(list []*ast.Rule) (v string) {
		defer func() {
			if e := recover(); e != nil {
				v = "panic"
			}
		}()
		have, err := builder.PrepareGrammar(&ast.Grammar{Rules: list})
		switch {
		case err != nil:
			return "noleader"
		case have:
			return "ok1"
		}
		return "ok0"
	}
	plain, _ := buildRules(rules)
	v1 := verdictOf(plain)
	list, _ := buildRules(rules)
	var out []*ast.Rule
	ndecoys := 0
	for k, r := range list {
		if k > 0 && (id+k)%2 == 0 {
			d := ast.NewRule(p0, ast.NewIdentifier(p0, r.Name.Val))
			switch (id/2 + k) % 3 {
			case 0:
				d.Expr = ast.NewLitMatcher(p0, "a")
			case 1:
				seq := ast.NewSeqExpr(p0)
				ref := ast.NewRuleRefExpr(p0)
				ref.Name = ast.NewIdentifier(p0, r.Name.Val)
				seq.Exprs = []ast.Expression{ref, ast.NewLitMatcher(p0, "x")}
				d.Expr = seq
			default:
				d.Expr = build(rules[(k+1)%len(rules)].expr)
			}
			out = append(out, d)
			ndecoys++
		}
		out = append(out, r)
	}
	v2 := verdictOf(out)
	return fmt.Sprintf("dup %d %d %s %s", id, ndecoys, v1, v2)
}

// acceptCase: the ACCEPTANCE path. C07 is about what the tool does with a grammar, and the tool does not call
// PrepareGrammar itself: builder.BuildParser does, and then decides from its two results (round 15: the ErrNoLeader result
// dropped when -support-left-recursion is absent). Per case: the verdict of PrepareGrammar on one copy of the grammar, and
// what BuildParser (into io.Discard) says for two more copies, without and with SupportLeftRecursion(true):
//
//	acc <id> <ok0|ok1|noleader|panic> <v0> <v1>       v = ok | lr | noleader | err | panic
func acceptCase(line string) string {
	id, rules, _ := parseCase(line)
	prep := func() (v string) {
		defer func() {
			if e := recover(); e != nil {
				v = "panic"
			}
		}()
		list, _ := buildRules(rules)
		have, err := builder.PrepareGrammar(&ast.Grammar{Rules: list})
		switch {
		case err != nil:
			return "noleader"
		case have:
			return "ok1"
		}
		return "ok0"
	}
	build := func(lr bool) (v string) {
		defer func() {
			if e := recover(); e != nil {
				v = "panic"
			}
		}()
		list, _ := buildRules(rules)
		err := builder.BuildParser(io.Discard, &ast.Grammar{Rules: list}, builder.SupportLeftRecursion(lr))
		switch {
		case err == nil:
			return "ok"
		case errors.Is(err, builder.ErrHaveLeftRecursion):
			return "lr"
		case errors.Is(err, builder.ErrNoLeader):
			return "noleader"
		}
		return "err"
	}
	return fmt.Sprintf("acc %d %s %s %s", id, prep(), build(false), build(true))
}

func main() {
	var (
		doEnum = flag.Bool("enum", false, "print the bounded-exhaustive enumeration of small grammars (see enumCases)")
		stride = flag.Uint64("stride", 1, "with -enum: print every stride-th grammar")
		offset = flag.Uint64("offset", 0, "with -enum: the residue class")
		doAcc  = flag.Bool("accept", false, "verdict of PrepareGrammar next to what BuildParser does without / with SupportLeftRecursion")
		doDup  = flag.Bool("dup", false, "verdict of PrepareGrammar with and without shadowed duplicate definitions of non-first rules")
		doGen  = flag.Bool("gen", false, "generate cases")
		doRun  = flag.Bool("run", false, "run cases from stdin on the real analysis")
		det    = flag.Int("det", 0, "run PrepareGrammar this many times per case")
		seed   = flag.Uint64("seed", 1, "seed")
		n      = flag.Int("n", 1000, "number of grammars")
		throws = flag.Bool("throw", false, "include throw/recover")
	)
	flag.Parse()
	w := bufio.NewWriterSize(os.Stdout, 1<<20)
	defer w.Flush()
	if *doEnum {
		enumCases(*stride, *offset, w)
		return
	}
	if *doGen {
		genCases(*seed, *n, *throws, w)
		return
	}
	sc := bufio.NewScanner(os.Stdin)
	sc.Buffer(make([]byte, 1<<20), 1<<26)
	for sc.Scan() {
		line := sc.Text()
		if !strings.HasPrefix(line, "mid ") {
			continue
		}
		if *doAcc {
			fmt.Fprintln(w, acceptCase(line))
		} else if *doDup {
			fmt.Fprintln(w, dupCase(line))
		} else if *doRun {
			fmt.Fprintln(w, runCase(line))
		} else if *det > 0 {
			fmt.Fprintln(w, detCase(line, *det))
		}
	}
}
