// Command pvopt is a translation validation of pigeon's grammar optimizer,
// ast.Optimize (-optimize-grammar), against the reference interpreter pvref:
//
//	"the optimized grammar accepts exactly the inputs the original accepts and
//	consumes the same prefix, every code block runs at the same points with
//	the same text, position and label values; the first rule and every
//	alternate entrypoint stay usable with the same behaviour".
//
// For each of n grammars (pvpeg.Gen, well-formed, plus the shapes the
// optimizer works on: leaf rules referenced from several places, single-rune
// literals and classes side by side in choices, literals side by side in
// sequences, nested choices and sequences) an independent copy is optimized
// with 0-2 alternate entrypoints, and for every entrypoint about 12 inputs
// are run through the reference interpreter on both grammars: outcome,
// consumed prefix and the trace of block invocations must agree.
//
// Failure kinds: optimize-panic, entrypoint-removed, dangling-ref,
// dup-param (a code block of the optimized grammar would receive one label
// twice), missing-param, accepts-differ, prefix-differs,
// events-differ; copy-shared and harness-panic are defects of the harness.
//
// Known defects of the optimizer are avoided unless lifted (-lift name,name
// or -include-known): optmerge-inverted (D11), optshare (D10), optlabels (D5),
// optthrow (D13), optbytes (O1, findings_opt/O1-optbytes.txt).
//
// One JSON object on stdout; exit status 0 unless the tool cannot run.
package main

import (
	"bytes"
	"encoding/hex"
	"flag"
	"fmt"
	"os"
	"os/exec"
	"path/filepath"
	"reflect"
	"strconv"
	"strings"
	"sync"

	"github.com/mna/pigeon/ast"

	"pvharness/pvpeg"
	"pvharness/pvref"
)

const budget = 200000

// plain is the layout of the grammar text in the case files.
var plain = pvpeg.Style{Name: "plain", Empty: 0.8}

type outcome struct {
	kind, detail, name, input string
}

type item struct {
	dump      string
	nodes     int
	rules     int
	neps      int
	blocks    int
	before    [18]int
	after     [18]int
	removed   int
	retries   int
	runs      int
	accepted  int
	rejected  int
	exhausted int
	events    int
	fails     []outcome
	sample    string
	// the (original, optimized) pair for the verified validator, and how to file a rejection
	optv string
	// optimizing the optimized grammar changes it again (an observation, not a failure)
	notFixpoint bool
	optvFail    func(detail string) outcome
	hasTR       bool
}

var detRuns = 6

func main() {
	seed := flag.Int64("seed", 1, "random seed (all randomness derives from it)")
	n := flag.Int("n", 1000, "number of grammars")
	k := flag.Int("k", 12, "inputs per entrypoint")
	includeKnown := flag.Bool("include-known", false, "lift every known-defect avoidance")
	lift := flag.String("lift", "", "lift single avoidances: comma-separated list of "+strings.Join(liftNames, ","))
	out := flag.String("out", "/tmp/pvo.pvopt.out", "directory for failing cases")
	jobs := flag.Int("j", 16, "parallel workers")
	det := flag.Int("det", 6, "additional runs of the optimizer on identical copies (determinism)")
	emit := flag.String("emit", "", "also write the text of every generated grammar to DIR/g<i>.peg (for whole-pipeline runs of the pigeon binary)")
	flag.BoolVar(&handlerShapes, "handler-shapes", false, "every grammar gets the targeted throw/recover families (delegating handlers); implies the optthrow lift")
	driver := flag.String("driver", "/verif/lean/.lake/build/bin/pvdriver", "the Lean driver: every (original, optimized) pair is judged by the verified validator Opt.validate (\"\" = skip)")
	flag.Parse()
	detRuns = *det
	usage := func(msg string) {
		if msg != "" {
			fmt.Fprintln(os.Stderr, "pvopt:", msg)
		}
		fmt.Fprintln(os.Stderr, "usage: pvopt [-seed S] [-n N] [-k K] [-include-known] [-lift NAMES] [-out DIR] [-j J]")
		os.Exit(2)
	}
	if flag.NArg() > 0 || *n < 0 || *k < 1 || *jobs < 1 {
		usage("")
	}
	var lf lifts
	if *includeKnown {
		for _, nm := range liftNames {
			lf.set(nm)
		}
	}
	for _, w := range strings.Split(*lift, ",") {
		if w = strings.TrimSpace(w); w != "" && !lf.set(w) {
			usage(fmt.Sprintf("unknown avoidance %q (known: %s)", w, strings.Join(liftNames, ", ")))
		}
	}
	rep := pvpeg.NewReport("pvopt", *seed, *out)
	items := make([]*item, *n)
	var wg sync.WaitGroup
	next := make(chan int)
	for w := 0; w < *jobs; w++ {
		wg.Add(1)
		go func() {
			defer wg.Done()
			for i := range next {
				items[i] = evaluate(*seed, i, *k, lf)
			}
		}()
	}
	for i := 0; i < *n; i++ {
		next <- i
	}
	close(next)
	wg.Wait()
	if *driver != "" {
		if err := validateAll(*driver, items, rep); err != nil {
			fmt.Fprintln(os.Stderr, "pvopt:", err)
			os.Exit(2)
		}
	}
	if *emit != "" {
		if err := os.MkdirAll(*emit, 0o755); err != nil {
			fmt.Fprintln(os.Stderr, "pvopt:", err)
			os.Exit(2)
		}
		for i, it := range items {
			if it.sample != "" {
				os.WriteFile(filepath.Join(*emit, fmt.Sprintf("g%05d.peg", i)), []byte(it.sample), 0o644)
			}
		}
	}
	for i, it := range items {
		rep.Seen(it.dump, it.nodes >= 3)
		rep.Count("rules_per_grammar", fmt.Sprint(it.rules), 1)
		rep.Count("alternate_entrypoints", fmt.Sprint(it.neps), 1)
		rep.Count("blocks_per_grammar", blockBucket(it.blocks), 1)
		rep.KindHistogram("node_kinds_before", it.before[:])
		rep.KindHistogram("node_kinds_after", it.after[:])
		rep.Count("optimizer", "rules_removed", it.removed)
		if it.notFixpoint {
			rep.Count("optimizer", "second_run_changes_the_result", 1)
		}
		rep.Count("generator", "wf_retries", it.retries)
		rep.Count("runs", "compared", it.runs)
		rep.Count("runs", "accepted", it.accepted)
		rep.Count("runs", "rejected", it.rejected)
		rep.Count("runs", "budget_exhausted_skipped", it.exhausted)
		rep.Count("runs", "events_compared", it.events)
		for _, f := range it.fails {
			rep.Fail(f.kind, f.detail, f.name, f.input, nil)
		}
		if i < 3 {
			rep.Sample(it.sample)
		}
	}
	rep.Print(os.Stdout)
}

// copyGrammar makes an independent deep copy through the textual dump.
func copyGrammar(g *ast.Grammar) *ast.Grammar {
	c, err := pvpeg.ParseDump(pvpeg.Dump(g, true))
	if err != nil {
		panic("pvopt: dump does not read back: " + err.Error())
	}
	return c
}

// nodeSet collects the address of every node (and of the backing arrays of
// the class slices) of g.
func nodeSet(g *ast.Grammar, into map[uintptr]bool) (shared int) {
	add := func(x any) {
		v := reflect.ValueOf(x)
		if v.Kind() != reflect.Pointer || v.IsNil() {
			return
		}
		if into[v.Pointer()] {
			shared++
		}
		into[v.Pointer()] = true
	}
	runes := func(rs []rune) {
		if len(rs) > 0 {
			add(&rs[0])
		}
	}
	add(g)
	add(g.Init)
	for _, r := range g.Rules {
		add(r)
		add(r.Name)
		add(r.DisplayName)
		pvpeg.WalkExpr(r.Expr, func(e ast.Expression) {
			add(e)
			switch e := e.(type) {
			case *ast.ActionExpr:
				add(e.Code)
			case *ast.AndCodeExpr:
				add(e.Code)
			case *ast.NotCodeExpr:
				add(e.Code)
			case *ast.StateCodeExpr:
				add(e.Code)
			case *ast.LabeledExpr:
				add(e.Label)
			case *ast.RuleRefExpr:
				add(e.Name)
			case *ast.CharClassMatcher:
				runes(e.Chars)
				runes(e.Ranges)
				if len(e.UnicodeClasses) > 0 {
					add(&e.UnicodeClasses[0])
				}
			}
		})
	}
	return shared
}

func optimize(g *ast.Grammar, eps []string) (panicked string) {
	defer func() {
		if x := recover(); x != nil {
			panicked = fmt.Sprint(x)
		}
	}()
	ast.Optimize(g, eps...)
	return ""
}

// neutralDump is the dump without positions and with the raw text of every
// class blanked (the optimizer rewrites it).
func neutralDump(g *ast.Grammar) string {
	c := copyGrammar(g)
	for _, r := range c.Rules {
		pvpeg.WalkExpr(r.Expr, func(e ast.Expression) {
			if x, ok := e.(*ast.CharClassMatcher); ok {
				x.Val = ""
			}
		})
	}
	return pvpeg.Dump(c, false)
}

// entryView is g with the rule name first (for pvpeg.Sentence).
func entryView(g *ast.Grammar, name string) *ast.Grammar {
	v := ast.NewGrammar(ast.Pos{})
	for _, r := range g.Rules {
		if r.Name.Val == name {
			v.Rules = append(v.Rules, r)
		}
	}
	for _, r := range g.Rules {
		if r.Name.Val != name {
			v.Rules = append(v.Rules, r)
		}
	}
	return v
}

// handlerShapes: see the flag of the same name
var handlerShapes bool

func evaluate(seed int64, i, k int, lf lifts) (it *item) {
	if handlerShapes {
		lf.throw = true
	}
	it = &item{}
	r := pvpeg.SubRand(seed, 0, i)
	name := func(kind string) string { return fmt.Sprintf("pvopt-s%d-i%d-%s.txt", seed, i, kind) }
	defer func() {
		if x := recover(); x != nil {
			it.fails = append(it.fails, outcome{"harness-panic", fmt.Sprint(x), name("harness-panic"), fmt.Sprint(x)})
		}
	}()
	cfg := pvpeg.Cfg{WellFormed: true, UniqueLabels: !lf.labels, NoThrow: !lf.throw, MaxRules: 5, MaxDepth: 4,
		Avoid: pvpeg.Avoid{ClassFoldRanges: true}}
	var g *ast.Grammar
	var lone string
	sh := &shaper{r: r, lf: lf}
	for {
		g = pvpeg.Gen(r, cfg)
		lone = sh.shape(g)
		if err := pvpeg.CheckWF(g); err == nil {
			break
		}
		it.retries++
	}
	if !lf.share {
		sh.avoidShare(g)
	}
	if !lf.mergeInverted {
		sh.avoidMergeInverted(g)
	}
	if !lf.labels {
		sh.avoidDupLabels(g)
	}
	it.blocks = mark(g)
	it.rules = len(g.Rules)
	it.before, it.nodes = pvpeg.CountKinds(g)

	// alternate entrypoints
	var eps []string
	for _, j := range r.Perm(len(g.Rules))[:r.Intn(3)] {
		if j > 0 {
			eps = append(eps, g.Rules[j].Name.Val)
		}
	}
	if lone != "" && r.Intn(2) == 0 {
		has := false
		for _, e := range eps {
			has = has || e == lone
		}
		if !has {
			eps = append(eps, lone)
		}
	}
	it.neps = len(eps)

	dump0 := pvpeg.Dump(g, true)
	it.dump = dump0
	g2 := copyGrammar(g)
	set := map[uintptr]bool{}
	nodeSet(g, set)
	if shared := nodeSet(g2, set); shared > 0 {
		it.fails = append(it.fails, outcome{"copy-shared", fmt.Sprintf("%d nodes of the copy are nodes of the original", shared), name("copy-shared"), dump0})
		return it
	}
	text := pvpeg.Print(g, pvpeg.SubRand(seed, 1, i), plain)
	it.sample = text
	casefile := func(input *string, detail string) string {
		var b strings.Builder
		fmt.Fprintf(&b, "# pvopt -seed %d, grammar %d\n# alternate entrypoints: %q\n", seed, i, eps)
		if input != nil {
			fmt.Fprintf(&b, "# input: %q\n", *input)
		}
		fmt.Fprintf(&b, "# %s\n\n%s\n\n# original\n%s\n\n# optimized\n%s\n", strings.ReplaceAll(detail, "\n", "\n# "), text, dump0, pvpeg.Dump(g2, true))
		return b.String()
	}
	fail := func(kind, detail string, input *string) {
		it.fails = append(it.fails, outcome{kind, detail, name(kind), casefile(input, detail)})
	}
	if msg := optimize(g2, append([]string(nil), eps...)); msg != "" {
		fail("optimize-panic", msg, nil)
		return it
	}
	if pvpeg.Dump(g, true) != dump0 {
		fail("copy-shared", "optimizing the copy changed the original", nil)
		return it
	}
	it.after, _ = pvpeg.CountKinds(g2)
	it.removed = len(g.Rules) - len(g2.Rules)

	// the optimizer is a function of the grammar: fresh copies give the same result (C19; a rebuild through a
	// Go map would show as different member orders within a few repetitions)
	dumpOpt := pvpeg.Dump(g2, true)
	for rep := 0; rep < detRuns; rep++ {
		g3 := copyGrammar(g)
		if msg := optimize(g3, append([]string(nil), eps...)); msg != "" {
			fail("optimize-panic", "on a repeated run: "+msg, nil)
			return it
		}
		if d3 := pvpeg.Dump(g3, true); d3 != dumpOpt {
			fail("nondeterministic-optimizer", fmt.Sprintf("run %d of ast.Optimize on an identical copy of the grammar gives another result:\n%s", rep+2, firstDiff(d3, dumpOpt)), nil)
			return it
		}
	}

	// static checks
	entries := append([]string{g.Rules[0].Name.Val}, eps...)
	it.optv = pvpeg.OptvLine(i+1, g, g2, entries)
	it.optvFail = func(detail string) outcome {
		return outcome{"validator-reject", detail, name("validator-reject"), casefile(nil, detail)}
	}
	it.hasTR = it.before[2] > 0 || it.before[10] > 0 // RecoveryExpr, ThrowExpr
	have2 := map[string]bool{}
	for _, rl := range g2.Rules {
		have2[rl.Name.Val] = true
	}
	static := false
	for _, e := range entries {
		if !have2[e] {
			fail("entrypoint-removed", "rule "+e+" is gone", nil)
			static = true
			break
		}
	}
	have := ruleMap(g)
	for _, rl := range g2.Rules {
		var bad string
		pvpeg.WalkExpr(rl.Expr, func(e ast.Expression) {
			if x, ok := e.(*ast.RuleRefExpr); ok && !have2[x.Name.Val] && have[x.Name.Val] != nil {
				bad = x.Name.Val
			}
		})
		if bad != "" {
			fail("dangling-ref", "rule "+rl.Name.Val+" refers to the removed rule "+bad, nil)
			static = true
			break
		}
	}
	p1, p2 := pvref.Compile(g), pvref.Compile(g2)
	if d := newIn(p2.DupParams, p1.DupParams); d != "" {
		// not a reason to skip the behavioural comparison: a label that is
		// bound twice in one scope also shows there
		fail("dup-param", "block "+d, nil)
	}
	if d := newIn(p2.Missing, p1.Missing); d != "" {
		fail("missing-param", "block "+d, nil)
		static = true
	}
	g3 := copyGrammar(g2)
	if msg := optimize(g3, append([]string(nil), eps...)); msg != "" {
		fail("optimize-panic", "second run: "+msg, nil)
		static = true
	} else if a, b := neutralDump(g2), neutralDump(g3); a != b {
		// Not a failure: C09 asks that the optimized grammar means what the original means, not that the optimizer
		// reaches a fixpoint in one call (an optimizer that decides by reference counts need not). Counted only.
		it.notFixpoint = true
	}
	if static {
		return it
	}

	// behaviour
	alpha := alphabet(g)
	for _, entry := range entries {
		view := entryView(g, entry)
		var sentences []string
		for j := 0; j < k; j++ {
			var in string
			switch {
			case entry == entries[0] && j < len(sh.hints):
				in = sh.hints[j]
			case j < 5 || len(sentences) == 0:
				in = pvpeg.Sentence(r, view)
				sentences = append(sentences, in)
				if r.Intn(3) == 0 {
					in += randomString(r, alpha, 3)
				}
			case j < 9:
				in = mutate(r, sentences[r.Intn(len(sentences))], alpha)
			default:
				in = randomString(r, alpha, 8)
			}
			r1 := p1.Run(entry, in, budget)
			r2 := p2.Run(entry, in, budget)
			if r1.Exhausted || r2.Exhausted {
				it.exhausted++
				continue
			}
			it.runs++
			it.events += len(r1.Events)
			if r1.OK {
				it.accepted++
			} else {
				it.rejected++
			}
			switch {
			case r1.OK != r2.OK:
				fail("accepts-differ", fmt.Sprintf("entry %s, input %q: original ok=%t, optimized ok=%t", entry, in, r1.OK, r2.OK), &in)
				return it
			case r1.End != r2.End:
				fail("prefix-differs", fmt.Sprintf("entry %s, input %q: original consumes %d bytes, optimized %d", entry, in, r1.End, r2.End), &in)
				return it
			}
			if d := diffEvents(r1.Events, r2.Events); d != "" {
				fail("events-differ", fmt.Sprintf("entry %s, input %q: %s", entry, in, d), &in)
				return it
			}
		}
	}
	return it
}

func blockBucket(n int) string {
	switch {
	case n == 0:
		return "0"
	case n < 4:
		return "1-3"
	case n < 8:
		return "4-7"
	}
	return "8+"
}

// newIn returns the first element of now that is not in before.
func newIn(now, before []string) string {
	old := map[string]bool{}
	for _, s := range before {
		old[s] = true
	}
	for _, s := range now {
		if !old[s] {
			return s
		}
	}
	return ""
}

func diffEvents(a, b []pvref.Event) string {
	for i := 0; i < len(a) && i < len(b); i++ {
		if a[i] != b[i] {
			return fmt.Sprintf("event %d: original %s, optimized %s", i, a[i], b[i])
		}
	}
	switch {
	case len(a) > len(b):
		return fmt.Sprintf("event %d: original %s, optimized has no more events", len(b), a[len(b)])
	case len(b) > len(a):
		return fmt.Sprintf("event %d: original has no more events, optimized %s", len(a), b[len(a)])
	}
	return ""
}

func randomString(r interface{ Intn(int) int }, alpha []rune, max int) string {
	n := r.Intn(max + 1)
	var b strings.Builder
	for i := 0; i < n; i++ {
		b.WriteRune(alpha[r.Intn(len(alpha))])
	}
	return b.String()
}

// mutate applies one small change to an input.
func mutate(r interface{ Intn(int) int }, s string, alpha []rune) string {
	rs := []rune(s)
	pick := func() rune { return alpha[r.Intn(len(alpha))] }
	if len(rs) == 0 {
		return string(pick())
	}
	i := r.Intn(len(rs))
	switch r.Intn(8) {
	case 0:
		return string(rs[:i]) + string(rs[i+1:])
	case 1:
		return string(rs[:i]) + string(pick()) + string(rs[i:])
	case 2:
		rs[i] = pick()
		return string(rs)
	case 3:
		if c := rs[i]; strings.ToUpper(string(c)) != string(c) {
			return string(rs[:i]) + strings.ToUpper(string(c)) + string(rs[i+1:])
		}
		return string(rs[:i]) + strings.ToLower(string(rs[i])) + string(rs[i+1:])
	case 4:
		return string(rs[:i])
	case 5:
		return string(rs[:i]) + string(rs[i:]) + string(rs[i:])
	case 6:
		// a stray byte
		b := []byte(s)
		j := r.Intn(len(b) + 1)
		return string(b[:j]) + string([]byte{byte(0x80 + r.Intn(0x80))}) + string(b[j:])
	default:
		j := r.Intn(len(rs))
		rs[i], rs[j] = rs[j], rs[i]
		return string(rs)
	}
}

// firstDiff shows the surroundings of the first difference of two dumps.
func firstDiff(got, want string) string {
	i := 0
	for i < len(got) && i < len(want) && got[i] == want[i] {
		i++
	}
	lo := i - 100
	if lo < 0 {
		lo = 0
	}
	cut := func(s string) string {
		hi := i + 100
		if hi > len(s) {
			hi = len(s)
		}
		if lo > len(s) {
			return ""
		}
		return s[lo:hi]
	}
	return "optimizing the optimized grammar changes it at dump offset " + strconv.Itoa(i) + "\n twice ..." + cut(got) + "\n once  ..." + cut(want)
}

// validateAll hands every (original, optimized) pair to the Lean driver: the verified validator Opt.validate
// (lean/PigeonVerif/Opt/Validate.lean, validate_sound) accepts a pair only if the rules of the optimized grammar have the
// same normal form before and after, which is proved to mean that they match the same inputs. A rejection is filed as a
// failure of kind validator-reject: the optimizer's output is then no longer KNOWN to preserve the language (the
// sentence comparison above is what finds a concrete input, when there is one).
func validateAll(driver string, items []*item, rep *pvpeg.Report) error {
	var in bytes.Buffer
	n := 0
	for _, it := range items {
		if it != nil && it.optv != "" {
			in.WriteString(it.optv)
			in.WriteByte('\n')
			n++
		}
	}
	if n == 0 {
		return nil
	}
	cmd := exec.Command(driver)
	cmd.Stdin = &in
	var se bytes.Buffer
	cmd.Stderr = &se
	out, err := cmd.Output()
	if err != nil {
		return fmt.Errorf("%s: %v: %s", driver, err, se.String())
	}
	seen := 0
	for _, l := range strings.Split(string(out), "\n") {
		fs := strings.Fields(l)
		if len(fs) < 3 || fs[0] != "optvres" {
			continue
		}
		id, err := strconv.Atoi(fs[1])
		if err != nil || id < 1 || id > len(items) || items[id-1] == nil {
			return fmt.Errorf("%s: unexpected answer %q", driver, l)
		}
		seen++
		it := items[id-1]
		switch fs[2] {
		case "ok":
			rep.Count("validator", "accepted", 1)
			if it.hasTR {
				rep.Count("validator", "accepted_with_throw_recover_(outside_the_theorem)", 1)
			}
		case "reject":
			rep.Count("validator", "rejected", 1)
			what := strings.Join(fs[3:], " ")
			if len(fs) == 5 {
				if b, err := hex.DecodeString(strings.TrimPrefix(fs[4], "x")); err == nil {
					what = fs[3] + " " + string(b)
				}
			}
			it.fails = append(it.fails, it.optvFail("the verified validator (Opt.validate; C09_validated_output_preserves_the_language) rejects the optimizer's output: the normal forms before and after differ ("+what+")"))
		default:
			return fmt.Errorf("%s: %s", driver, l)
		}
	}
	if seen != n {
		return fmt.Errorf("%s answered %d of %d pairs: %s", driver, seen, n, se.String())
	}
	return nil
}
