package main

import (
	"math/rand"
	"strconv"
	"unicode"

	"github.com/mna/pigeon/ast"

	"pvharness/pvpeg"
	"pvharness/pvref"
)

// lifts are the known-defect avoidances of this tool; true = lifted.
type lifts struct {
	mergeInverted bool // D11
	share         bool // D10
	labels        bool // D5
	throw         bool // D13
	bytes         bool // O1 (findings_opt/O1-optbytes.txt)
}

var liftNames = []string{"optmerge-inverted", "optshare", "optlabels", "optthrow", "optbytes"}

func (l *lifts) set(name string) bool {
	switch name {
	case "optmerge-inverted":
		l.mergeInverted = true
	case "optshare":
		l.share = true
	case "optlabels":
		l.labels = true
	case "optthrow":
		l.throw = true
	case "optbytes":
		l.bytes = true
	default:
		return false
	}
	return true
}

// slot is a place in a grammar that holds an expression.
type slot struct {
	rule int
	get  func() ast.Expression
	set  func(ast.Expression)
}

// slots lists every expression position of g, parents first.
func slots(g *ast.Grammar) []slot {
	var out []slot
	var walk func(ri int, get func() ast.Expression, set func(ast.Expression))
	walk = func(ri int, get func() ast.Expression, set func(ast.Expression)) {
		out = append(out, slot{ri, get, set})
		switch e := get().(type) {
		case *ast.ChoiceExpr:
			for i := range e.Alternatives {
				i := i
				walk(ri, func() ast.Expression { return e.Alternatives[i] }, func(x ast.Expression) { e.Alternatives[i] = x })
			}
		case *ast.SeqExpr:
			for i := range e.Exprs {
				i := i
				walk(ri, func() ast.Expression { return e.Exprs[i] }, func(x ast.Expression) { e.Exprs[i] = x })
			}
		case *ast.RecoveryExpr:
			walk(ri, func() ast.Expression { return e.Expr }, func(x ast.Expression) { e.Expr = x })
			walk(ri, func() ast.Expression { return e.RecoverExpr }, func(x ast.Expression) { e.RecoverExpr = x })
		case *ast.ActionExpr:
			walk(ri, func() ast.Expression { return e.Expr }, func(x ast.Expression) { e.Expr = x })
		case *ast.LabeledExpr:
			walk(ri, func() ast.Expression { return e.Expr }, func(x ast.Expression) { e.Expr = x })
		case *ast.AndExpr:
			walk(ri, func() ast.Expression { return e.Expr }, func(x ast.Expression) { e.Expr = x })
		case *ast.NotExpr:
			walk(ri, func() ast.Expression { return e.Expr }, func(x ast.Expression) { e.Expr = x })
		case *ast.ZeroOrOneExpr:
			walk(ri, func() ast.Expression { return e.Expr }, func(x ast.Expression) { e.Expr = x })
		case *ast.ZeroOrMoreExpr:
			walk(ri, func() ast.Expression { return e.Expr }, func(x ast.Expression) { e.Expr = x })
		case *ast.OneOrMoreExpr:
			walk(ri, func() ast.Expression { return e.Expr }, func(x ast.Expression) { e.Expr = x })
		}
	}
	for ri, r := range g.Rules {
		r := r
		walk(ri, func() ast.Expression { return r.Expr }, func(x ast.Expression) { r.Expr = x })
	}
	return out
}

// consumingTerminal: a terminal that cannot match the empty string.
func consumingTerminal(e ast.Expression) bool {
	switch e := e.(type) {
	case *ast.LitMatcher:
		return e.Val != ""
	case *ast.CharClassMatcher, *ast.AnyMatcher:
		return true
	}
	return false
}

type shaper struct {
	r      *rand.Rand
	lf     lifts
	labelN int
	// leaf rules whose whole body is a class or a one-rune literal: references to them are drawn as
	// alternatives of mergeable choices (inlined, then merged with DIFFERENT neighbours at every site)
	termLeaves []string
	// inputs that exercise a targeted shape of this grammar (run from the first rule, besides the drawn sentences)
	hints []string
	// avoidDupLabels: (host rule, leaf rule) pairs whose first reference stays bare / that were decided
	keepBare, decided map[[2]string]bool
}

const plainRunes = "abcxyzABXZ019 _+-*(),;é"

func (s *shaper) rune1() rune {
	if s.r.Intn(6) == 0 {
		// (the last six are NOT letters but have case mappings: Nl roman numerals, So circled letters, Mn U+0345)
		pool := []rune{'k', 'K', 0x212a, 's', 0x17f, 'İ', 'ı', 'Δ', 'δ', 'ß', 0x1e9e, 0x1f600, 'Ж', 'ж', 0x2167, 0x2177, 0x24b6, 0x24d0, 0x345, 0x399}
		return pool[s.r.Intn(len(pool))]
	}
	rs := []rune(plainRunes)
	return rs[s.r.Intn(len(rs))]
}

func (s *shaper) lit1() *ast.LitMatcher {
	e := ast.NewLitMatcher(ast.Pos{}, string(s.rune1()))
	e.IgnoreCase = s.r.Intn(4) == 0
	return e
}

func (s *shaper) litN() *ast.LitMatcher {
	n := 1 + s.r.Intn(3)
	var rs []rune
	for i := 0; i < n; i++ {
		rs = append(rs, s.rune1())
	}
	e := ast.NewLitMatcher(ast.Pos{}, string(rs))
	e.IgnoreCase = s.r.Intn(4) == 0
	return e
}

func (s *shaper) class() *ast.CharClassMatcher {
	return s.classWith(s.r.Intn(4) == 0, s.r.Intn(4) == 0)
}

func (s *shaper) classWith(inverted, fold bool) *ast.CharClassMatcher {
	n := 1 + s.r.Intn(3)
	if s.r.Intn(3) == 0 {
		n = 3 + s.r.Intn(6) // member lists whose backing arrays have spare capacity, duplicates
	}
	var items []pvpeg.ClassItem
	for i := 0; i < n; i++ {
		switch x := s.r.Intn(10); {
		case x < 6:
			c := s.rune1()
			items = append(items, pvpeg.ClassItem{Lo: c, Hi: c})
		case x < 9:
			lo, hi := s.rune1(), s.rune1()
			if lo > hi {
				lo, hi = hi, lo
			}
			if lo == '-' || hi == '-' {
				lo, hi = 'a', 'f'
			}
			items = append(items, pvpeg.ClassItem{Lo: lo, Hi: hi, IsRange: true})
		default:
			items = append(items, pvpeg.ClassItem{Class: []string{"L", "Lu", "Ll", "Nd", "Greek", "White_Space"}[s.r.Intn(6)]})
		}
	}
	// D3: a dash only as the very first member
	var kept []pvpeg.ClassItem
	for _, it := range items {
		if it.Class == "" && !it.IsRange && it.Lo == '-' {
			continue
		}
		kept = append(kept, it)
	}
	if len(kept) == 0 {
		kept = []pvpeg.ClassItem{{Lo: 'q', Hi: 'q'}}
	}
	return pvpeg.BuildClass(s.r, kept, inverted, fold, pvpeg.Avoid{ClassFoldRanges: true})
}

// mergeChoice is the shape that the optimizer combines into one class:
// single-rune literals and classes next to each other, with and without the
// i and ^ flags.
func (s *shaper) mergeChoice() ast.Expression {
	e := ast.NewChoiceExpr(ast.Pos{})
	n := 2 + s.r.Intn(4)
	// half of the time the members agree on the flags, so that they combine
	sticky := s.r.Intn(2) == 0
	inv, fold := s.r.Intn(3) == 0, s.r.Intn(3) == 0
	if s.lf.mergeInverted && s.r.Intn(2) == 0 {
		inv = true
	}
	for i := 0; i < n; i++ {
		if len(s.termLeaves) > 0 && s.r.Intn(4) == 0 {
			e.Alternatives = append(e.Alternatives, ref(s.termLeaves[s.r.Intn(len(s.termLeaves))]))
			continue
		}
		switch x := s.r.Intn(10); {
		case x < 5:
			l := s.lit1()
			if sticky {
				l.IgnoreCase = fold
			}
			e.Alternatives = append(e.Alternatives, l)
		case x < 9 && sticky:
			e.Alternatives = append(e.Alternatives, s.classWith(inv, fold))
		case x < 9:
			e.Alternatives = append(e.Alternatives, s.class())
		default:
			e.Alternatives = append(e.Alternatives, s.litN())
		}
	}
	if s.r.Intn(4) == 0 { // a choice nested in the choice
		inner := ast.NewChoiceExpr(ast.Pos{})
		inner.Alternatives = []ast.Expression{s.lit1(), s.class()}
		if s.r.Intn(2) == 0 {
			inner.Alternatives = append(inner.Alternatives, s.lit1())
		}
		at := s.r.Intn(len(e.Alternatives) + 1)
		e.Alternatives = append(e.Alternatives[:at:at], append([]ast.Expression{inner}, e.Alternatives[at:]...)...)
	}
	return e
}

// mergeSeq is the shape that the optimizer combines into one literal.
func (s *shaper) mergeSeq() ast.Expression {
	e := ast.NewSeqExpr(ast.Pos{})
	if s.lf.bytes && s.r.Intn(3) == 0 {
		// O1: the encoding of one character split over two literals. Each
		// half only matches invalid input bytes (or U+FFFD), the
		// concatenation matches the character.
		enc := []string{"é", "ж", "世", "😀"}[s.r.Intn(4)]
		cut := 1 + s.r.Intn(len(enc)-1)
		a, b := enc[:cut], enc[cut:]
		if s.r.Intn(2) == 0 {
			a = string(s.rune1()) + a
		} else {
			b += string(s.rune1())
		}
		e.Exprs = []ast.Expression{ast.NewLitMatcher(ast.Pos{}, a), ast.NewLitMatcher(ast.Pos{}, b)}
		return e
	}
	n := 2 + s.r.Intn(3)
	for i := 0; i < n; i++ {
		switch x := s.r.Intn(12); {
		case x < 8:
			e.Exprs = append(e.Exprs, s.litN())
		case x < 9:
			e.Exprs = append(e.Exprs, ast.NewLitMatcher(ast.Pos{}, ""))
		case x < 10:
			e.Exprs = append(e.Exprs, s.class())
		default: // a sequence nested in the sequence
			inner := ast.NewSeqExpr(ast.Pos{})
			inner.Exprs = []ast.Expression{s.litN(), s.litN()}
			e.Exprs = append(e.Exprs, inner)
		}
	}
	e.Exprs[s.r.Intn(len(e.Exprs))] = s.litN() // at least one consuming member
	return e
}

func (s *shaper) label() *ast.Identifier {
	s.labelN++
	return ast.NewIdentifier(ast.Pos{}, "z"+strconv.Itoa(s.labelN)+"_")
}

func ref(name string) *ast.RuleRefExpr {
	e := ast.NewRuleRefExpr(ast.Pos{})
	e.Name = ast.NewIdentifier(ast.Pos{}, name)
	return e
}

func action(x ast.Expression) *ast.ActionExpr {
	e := ast.NewActionExpr(ast.Pos{})
	e.Expr = x
	e.Code = ast.NewCodeBlock(ast.Pos{}, "{}")
	return e
}

func labeled(l *ast.Identifier, x ast.Expression) *ast.LabeledExpr {
	e := ast.NewLabeledExpr(ast.Pos{})
	e.Label = l
	e.Expr = x
	return e
}

// leafBody is the body of a small rule without references; it always
// consumes.
func (s *shaper) leafBody(earlier []string) ast.Expression {
	switch x := s.r.Intn(16); {
	case x < 3:
		return s.litN()
	case x < 5:
		return s.lit1()
	case x < 7:
		return s.class()
	case x < 9:
		return s.mergeChoice()
	case x < 11:
		return s.mergeSeq()
	case x < 12:
		plus := ast.NewOneOrMoreExpr(ast.Pos{})
		plus.Expr = s.class()
		return action(plus)
	case x < 13:
		seq := ast.NewSeqExpr(ast.Pos{})
		seq.Exprs = []ast.Expression{labeled(s.label(), s.class()), s.litN()}
		return action(seq)
	case x < 14:
		seq := ast.NewSeqExpr(ast.Pos{})
		pred := ast.NewAndCodeExpr(ast.Pos{})
		pred.Code = ast.NewCodeBlock(ast.Pos{}, "{}")
		seq.Exprs = []ast.Expression{labeled(s.label(), s.lit1()), pred, s.lit1()}
		return seq
	default:
		if len(earlier) == 0 {
			return s.litN()
		}
		// a rule that only becomes reference-free once its own references
		// are replaced
		seq := ast.NewSeqExpr(ast.Pos{})
		seq.Exprs = []ast.Expression{ref(earlier[s.r.Intn(len(earlier))]), s.litN()}
		if s.r.Intn(2) == 0 {
			seq.Exprs = append(seq.Exprs, ref(earlier[s.r.Intn(len(earlier))]))
		}
		return seq
	}
}

var leafNames = []string{"LeafA", "LeafB", "LeafC", "Tok", "Word", "Sep"}

// shape adds the shapes that the optimizer works on to a grammar drawn by
// pvpeg.Gen: leaf rules referenced from several places, mergeable choices
// and sequences. Consuming terminals are replaced by consuming expressions
// whose references go to leaf rules only (which refer to earlier leaf rules
// only), so neither nullability nor the left-recursion graph changes.
func (s *shaper) shape(g *ast.Grammar) (lone string) {
	s.hints = nil
	used := map[string]bool{}
	for _, r := range g.Rules {
		used[r.Name.Val] = true
	}
	addLone := s.r.Intn(3) == 0 && !used["Lone"] && len(g.Rules) < 5
	room := 6 - len(g.Rules) // 2-6 rules in all
	if addLone {
		room--
	}
	nleaf := 1 + s.r.Intn(3)
	if nleaf > room {
		nleaf = room
	}
	var leaves []string
	var leafRules []*ast.Rule
	for _, nm := range leafNames {
		if len(leaves) == nleaf {
			break
		}
		if used[nm] {
			continue
		}
		rule := ast.NewRule(ast.Pos{}, ast.NewIdentifier(ast.Pos{}, nm))
		if s.r.Intn(3) == 0 {
			if s.r.Intn(3) == 0 {
				rule.Expr = s.lit1()
			} else {
				rule.Expr = s.classWith(false, s.r.Intn(5) == 0)
			}
			s.termLeaves = append(s.termLeaves, nm)
		} else {
			rule.Expr = s.leafBody(leaves)
		}
		if s.r.Intn(5) == 0 {
			rule.DisplayName = ast.NewStringLit(ast.Pos{}, `"a leaf"`)
		}
		leaves = append(leaves, nm)
		leafRules = append(leafRules, rule)
	}
	// replace terminals of the drawn rules
	var terms []slot
	for _, sl := range slots(g) {
		if consumingTerminal(sl.get()) {
			terms = append(terms, sl)
		}
	}
	s.r.Shuffle(len(terms), func(i, j int) { terms[i], terms[j] = terms[j], terms[i] })
	nrep := len(terms) / 2
	if nrep < 3 {
		nrep = len(terms)
	}
	if nrep > 8 {
		nrep = 8
	}
	for i := 0; i < nrep; i++ {
		switch x := s.r.Intn(10); {
		case x < 5 && len(leaves) > 0:
			terms[i].set(ref(leaves[s.r.Intn(len(leaves))]))
		case x < 7:
			terms[i].set(s.mergeChoice())
		case x < 9:
			terms[i].set(s.mergeSeq())
		default:
			// keep the terminal
		}
	}
	if len(terms) == 0 && len(leaves) > 0 {
		// nothing to replace: put a reference in front of the first rule
		seq := ast.NewSeqExpr(ast.Pos{})
		seq.Exprs = []ast.Expression{ref(leaves[0]), g.Rules[0].Expr}
		g.Rules[0].Expr = seq
	}
	g.Rules = append(g.Rules, leafRules...)
	// sometimes a rule that nothing refers to
	if addLone {
		rule := ast.NewRule(ast.Pos{}, ast.NewIdentifier(ast.Pos{}, "Lone"))
		rule.Expr = s.leafBody(leaves)
		at := 1 + s.r.Intn(len(g.Rules))
		g.Rules = append(g.Rules[:at:at], append([]*ast.Rule{rule}, g.Rules[at:]...)...)
		lone = "Lone"
	}
	if s.lf.labels {
		// D5: few label names, so that an inlined rule rebinds a label of
		// the rule it is inlined into
		for _, sl := range slots(g) {
			if l, ok := sl.get().(*ast.LabeledExpr); ok && s.r.Intn(2) == 0 {
				l.Label = ast.NewIdentifier(ast.Pos{}, []string{"a", "b", "v"}[s.r.Intn(3)])
			}
		}
	}
	if s.lf.throw && (handlerShapes || s.r.Intn(5) == 0) {
		s.delegate(g, used)
	}
	if s.lf.throw && s.r.Intn(4) == 0 {
		// D13b: a reference to a rule that does not exist
		var cands []slot
		for _, sl := range slots(g) {
			if consumingTerminal(sl.get()) {
				cands = append(cands, sl)
			}
		}
		if len(cands) > 0 {
			cands[s.r.Intn(len(cands))].set(ref("Undefined"))
		}
	}
	return lone
}

// delegate adds the "delegating handlers" family (round 14: an optimizer step that drops a recovery operator whose
// label is not thrown from its guarded expression - statically): the recovery expression of an OUTER operator throws
// a label that only an INNER operator lists; the inner one is in force dynamically, because the outer recovery
// expression runs at the throw site, inside the inner guarded expression.
//
//	DgO <- DgI //{dgo} DgD        DgI <- DgB //{dgi} DgS
//	DgB <- a b / a %{dgo}         DgD <- %{dgi}  (or  c? %{dgi})       DgS <- c
//
// "a c" is matched only through both handlers. The first rule tries DgO first; hint inputs go with it.
func (s *shaper) delegate(g *ast.Grammar, used map[string]bool) {
	for _, nm := range []string{"DgO", "DgI", "DgB", "DgD", "DgS", "DgT"} {
		if used[nm] {
			return
		}
	}
	pool := []rune("abcxyz01")
	s.r.Shuffle(len(pool), func(i, j int) { pool[i], pool[j] = pool[j], pool[i] })
	lit := func(r rune) *ast.LitMatcher {
		l := ast.NewLitMatcher(ast.Pos{}, string(r))
		return l
	}
	a, b, c := pool[0], pool[1], pool[2]
	rule := func(nm string, e ast.Expression) *ast.Rule {
		r := ast.NewRule(ast.Pos{}, ast.NewIdentifier(ast.Pos{}, nm))
		r.Expr = e
		return r
	}
	seq := func(es ...ast.Expression) ast.Expression {
		x := ast.NewSeqExpr(ast.Pos{})
		x.Exprs = es
		return x
	}
	choice := func(es ...ast.Expression) ast.Expression {
		x := ast.NewChoiceExpr(ast.Pos{})
		x.Alternatives = es
		return x
	}
	throw := func(l string) ast.Expression {
		t := ast.NewThrowExpr(ast.Pos{})
		t.Label = l
		return t
	}
	recov := func(e ast.Expression, l string, r ast.Expression) ast.Expression {
		x := ast.NewRecoveryExpr(ast.Pos{})
		x.Expr, x.RecoverExpr, x.Labels = e, r, []ast.FailureLabel{ast.FailureLabel(l)}
		return x
	}
	var dgd ast.Expression = throw("dgi")
	if s.r.Intn(2) == 0 {
		opt := ast.NewZeroOrOneExpr(ast.Pos{})
		opt.Expr = lit(pool[3])
		dgd = seq(opt, throw("dgi"))
	}
	var outer ast.Expression = recov(ref("DgI"), "dgo", ref("DgD"))
	extra := []*ast.Rule{}
	if s.r.Intn(3) == 0 {
		// a further, outermost handler for the inner label: dropping the inner one changes WHICH recovery runs
		outer = recov(outer, "dgi", ref("DgT"))
		extra = append(extra, rule("DgT", seq(lit(c), lit(c))))
		s.hints = append(s.hints, string([]rune{a, c, c}))
	}
	rules := []*ast.Rule{
		rule("DgO", outer),
		rule("DgI", recov(ref("DgB"), "dgi", ref("DgS"))),
		rule("DgB", choice(seq(lit(a), lit(b)), seq(lit(a), throw("dgo")))),
		rule("DgD", dgd),
		rule("DgS", lit(c)),
	}
	rules = append(rules, extra...)
	g.Rules[0].Expr = choice(seq(ref("DgO")), g.Rules[0].Expr)
	g.Rules = append(g.Rules, rules...)
	s.hints = append(s.hints, string([]rune{a, c}), string([]rune{a, b}), string([]rune{a, c, b}), string([]rune{a}))
}

// ---------------------------------------------------------------------------
// avoidance of the known defects

func ruleMap(g *ast.Grammar) map[string]*ast.Rule {
	m := map[string]*ast.Rule{}
	for _, r := range g.Rules {
		m[r.Name.Val] = r
	}
	return m
}

func referenced(g *ast.Grammar) map[string]int {
	refs := map[string]int{}
	for _, r := range g.Rules {
		pvpeg.WalkExpr(r.Expr, func(e ast.Expression) {
			if x, ok := e.(*ast.RuleRefExpr); ok {
				refs[x.Name.Val]++
			}
		})
	}
	return refs
}

// avoidShare (D10) keeps a literal that may be shared between a rule and its
// inlined copies from being the left operand of the literal concatenation:
// the right neighbour is wrapped in a labeled expression. A literal may be
// shared when it is reached through a rule reference or when it sits in a
// rule that is referenced from somewhere.
func (s *shaper) avoidShare(g *ast.Grammar) {
	rules := ruleMap(g)
	refs := referenced(g)
	var rightLit func(e ast.Expression, via bool, seen map[string]bool) (bool, bool)
	rightLit = func(e ast.Expression, via bool, seen map[string]bool) (exposes, shared bool) {
		switch e := e.(type) {
		case *ast.LitMatcher:
			return true, via
		case *ast.SeqExpr:
			if len(e.Exprs) > 0 {
				return rightLit(e.Exprs[len(e.Exprs)-1], via, seen)
			}
		case *ast.RuleRefExpr:
			if r := rules[e.Name.Val]; r != nil && !seen[e.Name.Val] {
				seen[e.Name.Val] = true
				return rightLit(r.Expr, true, seen)
			}
		}
		return false, false
	}
	var leftLit func(e ast.Expression, seen map[string]bool) bool
	leftLit = func(e ast.Expression, seen map[string]bool) bool {
		switch e := e.(type) {
		case *ast.LitMatcher:
			return true
		case *ast.SeqExpr:
			if len(e.Exprs) > 0 {
				return leftLit(e.Exprs[0], seen)
			}
		case *ast.RuleRefExpr:
			if r := rules[e.Name.Val]; r != nil && !seen[e.Name.Val] {
				seen[e.Name.Val] = true
				return leftLit(r.Expr, seen)
			}
		}
		return false
	}
	for _, r := range g.Rules {
		cloneable := refs[r.Name.Val] > 0
		pvpeg.WalkExpr(r.Expr, func(e ast.Expression) {
			seq, ok := e.(*ast.SeqExpr)
			if !ok {
				return
			}
			for i := 1; i < len(seq.Exprs); i++ {
				exp, shared := rightLit(seq.Exprs[i-1], cloneable, map[string]bool{})
				if exp && shared && leftLit(seq.Exprs[i], map[string]bool{}) {
					seq.Exprs[i] = labeled(s.label(), seq.Exprs[i])
				}
			}
		})
	}
}

// avoidMergeInverted (D11): no two inverted classes next to each other in a
// choice, also not once nested choices are flattened and rules inlined.
func (s *shaper) avoidMergeInverted(g *ast.Grammar) {
	rules := ruleMap(g)
	var inv func(e ast.Expression, seen map[string]bool) bool
	inv = func(e ast.Expression, seen map[string]bool) bool {
		switch e := e.(type) {
		case *ast.CharClassMatcher:
			return e.Inverted
		case *ast.ChoiceExpr:
			for _, a := range e.Alternatives {
				if inv(a, seen) {
					return true
				}
			}
		case *ast.RuleRefExpr:
			if r := rules[e.Name.Val]; r != nil && !seen[e.Name.Val] {
				seen[e.Name.Val] = true
				return inv(r.Expr, seen)
			}
		}
		return false
	}
	for _, r := range g.Rules {
		pvpeg.WalkExpr(r.Expr, func(e ast.Expression) {
			ch, ok := e.(*ast.ChoiceExpr)
			if !ok {
				return
			}
			for i := 1; i < len(ch.Alternatives); i++ {
				if inv(ch.Alternatives[i-1], map[string]bool{}) && inv(ch.Alternatives[i], map[string]bool{}) {
					ch.Alternatives[i] = labeled(s.label(), ch.Alternatives[i])
				}
			}
		})
	}
}

// avoidDupLabels (D5, with grammar-wide unique labels): a rule that declares
// a label in its top scope (directly or through a reference in that scope)
// and that is referenced more than once is only referenced from the body of
// a labeled expression, which is a scope of its own.
func (s *shaper) avoidDupLabels(g *ast.Grammar) {
	if s.keepBare == nil {
		s.keepBare, s.decided = map[[2]string]bool{}, map[[2]string]bool{}
	}
	for round := 0; round < 10; round++ {
		refs := referenced(g)
		exposes := map[string]bool{}
		var top func(e ast.Expression) bool
		top = func(e ast.Expression) bool {
			switch e := e.(type) {
			case *ast.LabeledExpr:
				return true
			case *ast.SeqExpr:
				for _, x := range e.Exprs {
					if top(x) {
						return true
					}
				}
			case *ast.ActionExpr:
				return top(e.Expr)
			case *ast.RecoveryExpr:
				return top(e.Expr) || top(e.RecoverExpr)
			case *ast.RuleRefExpr:
				return exposes[e.Name.Val]
			}
			return false
		}
		for changed := true; changed; {
			changed = false
			for _, r := range g.Rules {
				if !exposes[r.Name.Val] && top(r.Expr) {
					exposes[r.Name.Val] = true
					changed = true
				}
			}
		}
		wrapped := false
		var prev ast.Expression
		// ONE reference per (host rule, leaf rule) may stay bare when nothing refers to the host rule (its scopes are
		// final: the host is never inlined anywhere), so that the same leaf rule is met labelled AND bare in one rule
		// (round 16: inlining decided per reference, bookkeeping of uses per rule pair). Two copies of the leaf's labels
		// in one scope - finding D5 - still cannot arise: the labels of a grammar are unique and at most one copy
		// enters the host's own scope.
		bareKept := map[[2]string]bool{}
		for _, sl := range slots(g) {
			e := sl.get()
			if x, ok := e.(*ast.RuleRefExpr); ok && exposes[x.Name.Val] && refs[x.Name.Val] > 1 {
				if l, ok := prev.(*ast.LabeledExpr); !ok || l.Expr != e {
					host := g.Rules[sl.rule].Name.Val
					key := [2]string{host, x.Name.Val}
					if refs[host] == 0 && !bareKept[key] && s.keepBare[key] {
						bareKept[key] = true
					} else if refs[host] == 0 && !bareKept[key] && !s.decided[key] && s.r.Intn(2) == 0 {
						s.decided[key], s.keepBare[key], bareKept[key] = true, true, true
					} else {
						s.decided[key] = true
						sl.set(labeled(s.label(), e))
						wrapped = true
					}
				}
			}
			prev = e
		}
		if !wrapped {
			return
		}
	}
}

// mark gives every code block its text: a marker that is unique in the
// grammar and the labels that the builder passes to it.
func mark(g *ast.Grammar) int {
	sites := pvpeg.CodeSites(g)
	for i, st := range sites {
		st.Block.Val = pvref.BlockText(strconv.Itoa(i+1), st.Params)
	}
	if g.Init != nil {
		g.Init.Val = "{\npackage main\n}"
	}
	return len(sites)
}

// alphabet lists runes that the terminals of g look at.
func alphabet(g *ast.Grammar) []rune {
	seen := map[rune]bool{}
	var out []rune
	add := func(c rune) {
		xs := []rune{c, unicode.ToLower(c), unicode.ToUpper(c)}
		if c >= 0 && c <= unicode.MaxRune {
			// the whole case-folding orbit: a rune can be the lower case of another without being its own upper case
			for f := unicode.SimpleFold(c); f != c; f = unicode.SimpleFold(f) {
				xs = append(xs, f)
			}
		}
		for _, x := range xs {
			if x >= 0 && x <= unicode.MaxRune && !(0xd800 <= x && x < 0xe000) && !seen[x] {
				seen[x] = true
				out = append(out, x)
			}
		}
	}
	for _, r := range g.Rules {
		pvpeg.WalkExpr(r.Expr, func(e ast.Expression) {
			switch e := e.(type) {
			case *ast.LitMatcher:
				for _, c := range e.Val {
					add(c)
				}
			case *ast.CharClassMatcher:
				for _, c := range e.Chars {
					add(c)
				}
				for _, c := range e.Ranges {
					add(c)
					add(c + 1)
				}
			}
		})
	}
	for _, c := range "a1 \n" {
		add(c)
	}
	return out
}
