// Command pvrun feeds a case file to the host executables and collects the
// result lines in the original case order.
//
//	pvrun -hosts /verif/build/hosts -cases <file> -out <file> [-j 16]
//
// Cases are partitioned by variant and split into chunks; each chunk is run
// by one host process, j processes at a time. When a host dies in the middle
// of a chunk (watchdog timeout, fatal stack overflow, ...) the case it was
// working on is recorded as `res <id> timeout` (if the host printed that) or
// `res <id> crash <hex of last stderr line>` and a new host is started on the
// remaining cases. A one-line JSON summary goes to stderr.
package main

import (
	"bufio"
	"bytes"
	"encoding/json"
	"flag"
	"fmt"
	"io"
	"os"
	"os/exec"
	"path/filepath"
	"strconv"
	"strings"
	"sync"
	"sync/atomic"
	"time"

	"pvharness/pvcase"
)

type job struct {
	variant string
	idx     []int // indices into the global case list
}

type runner struct {
	hosts   string
	header  string
	lines   []string // case lines
	ids     []string
	results []string

	timeouts atomic.Int64
	crashes  atomic.Int64
	restarts atomic.Int64
}

// lastLine returns the last non-empty line of b.
func lastLine(b []byte) string {
	ls := strings.Split(strings.TrimRight(string(b), "\n"), "\n")
	for i := len(ls) - 1; i >= 0; i-- {
		if strings.TrimSpace(ls[i]) != "" {
			return ls[i]
		}
	}
	return ""
}

// tailBuffer keeps the last few KB written to it.
type tailBuffer struct {
	mu  sync.Mutex
	buf []byte
}

func (t *tailBuffer) Write(p []byte) (int, error) {
	t.mu.Lock()
	t.buf = append(t.buf, p...)
	if len(t.buf) > 1<<16 {
		t.buf = append([]byte{}, t.buf[len(t.buf)-(1<<15):]...)
	}
	t.mu.Unlock()
	return len(p), nil
}

// crashLine condenses a Go fatal error dump to its first line.
func crashLine(stderr []byte) string {
	for _, l := range strings.Split(string(stderr), "\n") {
		if strings.HasPrefix(l, "fatal error:") || strings.HasPrefix(l, "runtime: goroutine stack exceeds") ||
			strings.HasPrefix(l, "panic:") {
			return l
		}
	}
	return lastLine(stderr)
}

const maxJobTimeouts = 3

// runJob runs the cases of one job, restarting the host as often as needed.
func (r *runner) runJob(j job) {
	rest := j.idx
	jobTimeouts := 0
	for len(rest) > 0 {
		done, stderr, err := r.runHost(j.variant, rest)
		timedOut := done > 0 && strings.HasSuffix(r.results[rest[done-1]], " timeout")
		rest = rest[done:]
		if len(rest) == 0 {
			break
		}
		// the host stopped early: rest[0] is the case it was working on,
		// unless it already reported a timeout for the last finished one
		if timedOut {
			// the timeout line is the result of that case; just go on — but a job that keeps timing out
			// (a hang introduced into the code under test) must not take hours: after maxJobTimeouts
			// the remaining cases of the job are not run
			r.restarts.Add(1)
			jobTimeouts++
			if jobTimeouts >= maxJobTimeouts {
				for _, i := range rest {
					r.results[i] = "res " + r.ids[i] + " timeout-skipped"
				}
				return
			}
			continue
		}
		msg := crashLine(stderr)
		if msg == "" && err != nil {
			msg = err.Error()
		}
		r.results[rest[0]] = "res " + r.ids[rest[0]] + " crash " + pvcase.HexStr(msg)
		r.crashes.Add(1)
		r.restarts.Add(1)
		rest = rest[1:]
	}
}

// runHost starts one host on the given cases and stores the results it
// prints. It returns how many results were received.
func (r *runner) runHost(variant string, idx []int) (int, []byte, error) {
	cmd := exec.Command(filepath.Join(r.hosts, variant))
	// an empty scratch directory for the host (cases parsed through ParseFile write their input there); owned by this
	// process so that it goes away however the host ends (timeout, stack overflow, kill)
	if d, derr := os.MkdirTemp("", "pvhost"); derr == nil {
		defer os.RemoveAll(d)
		cmd.Dir = d
		cmd.Env = append(os.Environ(), "PVHOST_SCRATCH="+d)
	}
	stdin, err := cmd.StdinPipe()
	if err != nil {
		return 0, nil, err
	}
	stdout, err := cmd.StdoutPipe()
	if err != nil {
		return 0, nil, err
	}
	tail := &tailBuffer{}
	cmd.Stderr = tail
	if err := cmd.Start(); err != nil {
		return 0, []byte(err.Error()), err
	}
	go func() {
		w := bufio.NewWriterSize(stdin, 1<<20)
		io.WriteString(w, r.header)
		w.WriteByte('\n')
		for _, i := range idx {
			if _, err := io.WriteString(w, r.lines[i]); err != nil {
				break
			}
			if err := w.WriteByte('\n'); err != nil {
				break
			}
		}
		w.Flush()
		stdin.Close()
	}()
	done := 0
	rd := bufio.NewReaderSize(stdout, 1<<20)
	for done < len(idx) {
		line, err := rd.ReadString('\n')
		if strings.HasSuffix(line, "\n") {
			line = strings.TrimRight(line, "\r\n")
			want := "res " + r.ids[idx[done]] + " "
			if !strings.HasPrefix(line, want) {
				// protocol violation: treat as a crash on this case
				fmt.Fprintf(tail, "pvrun: unexpected host output %.80q (want prefix %q)\n", line, want)
				break
			}
			r.results[idx[done]] = line
			done++
			if strings.HasSuffix(line, " timeout") && strings.Count(line, " ") == 2 {
				r.timeouts.Add(1)
				break
			}
		}
		if err != nil {
			break
		}
	}
	if done < len(idx) {
		// make sure a wedged host goes away
		cmd.Process.Kill()
	}
	io.Copy(io.Discard, rd)
	werr := cmd.Wait()
	tail.mu.Lock()
	errb := append([]byte{}, tail.buf...)
	tail.mu.Unlock()
	return done, errb, werr
}

func main() {
	var (
		hosts = flag.String("hosts", "/verif/build/hosts", "directory with the 16 host executables")
		cases = flag.String("cases", "", "case file (header + case lines)")
		out   = flag.String("out", "", "result file")
		jobs  = flag.Int("j", 16, "number of host processes running at a time")
	)
	flag.Parse()
	if *cases == "" || *out == "" || flag.NArg() != 0 || *jobs < 1 {
		flag.Usage()
		os.Exit(2)
	}
	start := time.Now()
	data, err := os.ReadFile(*cases)
	if err != nil {
		fmt.Fprintln(os.Stderr, "pvrun:", err)
		os.Exit(2)
	}
	r := &runner{hosts: *hosts, header: pvcase.UnicodeHeader()}
	byVariant := map[string][]int{}
	var order []string
	for len(data) > 0 {
		var line []byte
		if i := bytes.IndexByte(data, '\n'); i >= 0 {
			line, data = data[:i], data[i+1:]
		} else {
			line, data = data, nil
		}
		line = bytes.TrimRight(line, "\r")
		switch {
		case bytes.HasPrefix(line, []byte("unicode ")):
			r.header = string(line)
		case bytes.HasPrefix(line, []byte("case ")):
			s := string(line)
			v, err := pvcase.LineVariant(s)
			if err != nil {
				fmt.Fprintf(os.Stderr, "pvrun: case line %d: %v\n", len(r.lines)+1, err)
				os.Exit(2)
			}
			id, err := pvcase.ParseID(s)
			if err != nil {
				fmt.Fprintf(os.Stderr, "pvrun: case line %d: %v\n", len(r.lines)+1, err)
				os.Exit(2)
			}
			if _, ok := byVariant[v]; !ok {
				order = append(order, v)
			}
			byVariant[v] = append(byVariant[v], len(r.lines))
			r.lines = append(r.lines, s)
			r.ids = append(r.ids, strconv.FormatUint(id, 10))
		case len(bytes.TrimSpace(line)) == 0:
		default:
			fmt.Fprintf(os.Stderr, "pvrun: unrecognised line %.40q\n", line)
			os.Exit(2)
		}
	}
	r.results = make([]string, len(r.lines))

	// chunking: aim at 4 chunks per worker for balance, at least 64 cases each
	target := (len(r.lines) + 4**jobs - 1) / (4 * *jobs)
	if target < 64 {
		target = 64
	}
	var jl []job
	perVariant := map[string]int{}
	for _, v := range order {
		idx := byVariant[v]
		perVariant[v] = len(idx)
		if _, err := os.Stat(filepath.Join(*hosts, v)); err != nil {
			fmt.Fprintf(os.Stderr, "pvrun: no host for variant %s: %v\n", v, err)
			os.Exit(2)
		}
		for len(idx) > 0 {
			n := target
			if n > len(idx) {
				n = len(idx)
			}
			jl = append(jl, job{variant: v, idx: idx[:n]})
			idx = idx[n:]
		}
	}
	ch := make(chan job)
	var wg sync.WaitGroup
	for i := 0; i < *jobs; i++ {
		wg.Add(1)
		go func() {
			defer wg.Done()
			for j := range ch {
				r.runJob(j)
			}
		}()
	}
	for _, j := range jl {
		ch <- j
	}
	close(ch)
	wg.Wait()

	f, err := os.Create(*out)
	if err != nil {
		fmt.Fprintln(os.Stderr, "pvrun:", err)
		os.Exit(2)
	}
	w := bufio.NewWriterSize(f, 1<<20)
	missing := 0
	for i, res := range r.results {
		if res == "" {
			// cannot happen; keep one line per case anyway
			res = "res " + r.ids[i] + " crash " + pvcase.HexStr("pvrun: no result")
			missing++
		}
		w.WriteString(res)
		w.WriteByte('\n')
	}
	if err := w.Flush(); err == nil {
		err = f.Close()
	}
	if err != nil {
		fmt.Fprintln(os.Stderr, "pvrun:", err)
		os.Exit(2)
	}
	wall := time.Since(start).Seconds()
	sum := map[string]any{
		"cases":    len(r.lines),
		"variants": perVariant,
		"timeouts": r.timeouts.Load(),
		"crashes":  r.crashes.Load() + int64(missing),
		"restarts": r.restarts.Load(),
		"wall_s":   float64(int(wall*1000)) / 1000,
	}
	if wall > 0 {
		sum["cases_per_s"] = int(float64(len(r.lines)) / wall)
	}
	b, _ := json.Marshal(sum)
	fmt.Fprintln(os.Stderr, string(b))
}
