// Command pvshow pretty-prints the cases of a case file as PEG-like text.
//
//	pvshow [-id N] <casefile>
package main

import (
	"bufio"
	"flag"
	"fmt"
	"os"
	"strings"

	"pvharness/pvcase"
)

func main() {
	id := flag.Uint64("id", 0, "show only the case with this id (0 = all)")
	flag.Parse()
	if flag.NArg() != 1 {
		flag.Usage()
		os.Exit(2)
	}
	f, err := os.Open(flag.Arg(0))
	if err != nil {
		fmt.Fprintln(os.Stderr, "pvshow:", err)
		os.Exit(2)
	}
	defer f.Close()
	rd := bufio.NewReaderSize(f, 1<<20)
	for {
		line, err := rd.ReadString('\n')
		if strings.HasPrefix(line, "case ") {
			if cid, e := pvcase.ParseID(line); e == nil && (*id == 0 || cid == *id) {
				c, perr := pvcase.Parse(line)
				if perr != nil {
					fmt.Fprintf(os.Stderr, "pvshow: case %d: %v\n", cid, perr)
				} else {
					fmt.Println(c.Pretty())
				}
			}
		}
		if err != nil {
			break
		}
	}
}
