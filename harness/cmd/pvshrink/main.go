// Command pvshrink minimises a failing case by delta debugging on the case
// structure.
//
//	pvshrink -in <casefile with header + exactly one case> -out <file> -test '<shell command>'
//
// The test command is run as `sh -c "<cmd> <tmpfile>"` on a candidate file
// (header + one case line) and must exit 0 when the candidate STILL exhibits
// the failure. Candidates that leave the termination discipline (pvterm) are
// never tried unless the original case was outside of it already.
package main

import (
	"bytes"
	"flag"
	"fmt"
	"os"
	"os/exec"
	"path/filepath"
	"strings"
	"unicode/utf8"

	"pvharness/pvcase"
	"pvharness/pvterm"
)

type shrinker struct {
	header   string
	best     *pvcase.Case
	bestLine string
	tests    int
	maxTests int
	cmd      string
	tmp      string
	needTerm bool
	seen     map[string]bool
	verbose  bool
}

func (s *shrinker) exhausted() bool { return s.tests >= s.maxTests }

// run executes the test command on c.
func (s *shrinker) run(line string) bool {
	s.tests++
	data := s.header + "\n" + line + "\n"
	if err := os.WriteFile(s.tmp, []byte(data), 0o644); err != nil {
		fmt.Fprintln(os.Stderr, "pvshrink:", err)
		os.Exit(1)
	}
	cmd := exec.Command("sh", "-c", s.cmd+" "+s.tmp)
	cmd.Stdout, cmd.Stderr = nil, nil
	return cmd.Run() == nil
}

// try tests a candidate and adopts it when the failure persists.
func (s *shrinker) try(c *pvcase.Case, what string) bool {
	if s.exhausted() {
		return false
	}
	line := c.String()
	if line == s.bestLine || s.seen[line] {
		return false
	}
	s.seen[line] = true
	// re-parse: candidates must be well-formed lines
	if _, err := pvcase.Parse(line); err != nil {
		return false
	}
	if s.needTerm && !pvterm.OK(c) {
		return false
	}
	if !s.run(line) {
		return false
	}
	s.best, s.bestLine = c, line
	if s.verbose {
		fmt.Fprintf(os.Stderr, "pvshrink: [%d] %s -> %d nodes, %d input bytes\n", s.tests, what, c.NodeCount(), len(c.Input))
	}
	return true
}

// slots returns the addresses of all expression pointers in prefix order.
func slots(c *pvcase.Case) []**pvcase.Expr {
	var out []**pvcase.Expr
	var walk func(p **pvcase.Expr)
	walk = func(p **pvcase.Expr) {
		out = append(out, p)
		e := *p
		for i := range e.Kids {
			walk(&e.Kids[i])
		}
	}
	for _, r := range c.Grammar.Rules {
		walk(&r.Expr)
	}
	return out
}

// ---------------------------------------------------------------- passes

func (s *shrinker) dropRules() bool {
	progress := false
	for i := 1; i < len(s.best.Grammar.Rules) && !s.exhausted(); i++ {
		name := s.best.Grammar.Rules[i].Name
		used := s.best.Opts.HasEntry && s.best.Opts.Entry == name
		for j, r := range s.best.Grammar.Rules {
			if j == i {
				continue
			}
			r.Expr.Walk(func(e *pvcase.Expr) {
				if e.Kind == pvcase.KRef && e.Name == name {
					used = true
				}
			})
		}
		if used {
			continue
		}
		c := s.best.Clone()
		c.Grammar.Rules = append(c.Grammar.Rules[:i], c.Grammar.Rules[i+1:]...)
		if s.try(c, "drop rule "+name) {
			progress = true
			i--
		}
	}
	return progress
}

// hoist replaces an expression by one of its children.
func (s *shrinker) hoist() bool {
	progress := false
	for k := 0; !s.exhausted(); k++ {
		n := len(slots(s.best))
		if k >= n {
			break
		}
		nk := len((*slots(s.best)[k]).Kids)
		for j := 0; j < nk && !s.exhausted(); j++ {
			c := s.best.Clone()
			sl := slots(c)
			*sl[k] = (*sl[k]).Kids[j]
			if s.try(c, "hoist child") {
				progress = true
				k--
				break
			}
		}
	}
	return progress
}

// dropKids removes one element of a seq or one alternative of a choice.
func (s *shrinker) dropKids() bool {
	progress := false
	for k := 0; !s.exhausted(); k++ {
		sl := slots(s.best)
		if k >= len(sl) {
			break
		}
		e := *sl[k]
		if e.Kind != pvcase.KSeq && e.Kind != pvcase.KCh {
			continue
		}
		for j := 0; j < len(e.Kids) && !s.exhausted(); j++ {
			c := s.best.Clone()
			ce := *slots(c)[k]
			ce.Kids = append(ce.Kids[:j], ce.Kids[j+1:]...)
			if s.try(c, "drop element of "+e.Kind) {
				progress = true
				e = *slots(s.best)[k]
				j--
			}
		}
	}
	return progress
}

// trivialise replaces sub-expressions by trivial nodes.
func (s *shrinker) trivialise() bool {
	progress := false
	for k := 0; !s.exhausted(); k++ {
		sl := slots(s.best)
		if k >= len(sl) {
			break
		}
		e := *sl[k]
		if e.Kind == pvcase.KLit && len(e.Runes) == 0 {
			continue
		}
		var repl []*pvcase.Expr
		repl = append(repl, &pvcase.Expr{Kind: pvcase.KLit, ID: e.ID, Want: `""`})
		if e.Kind != pvcase.KAny && e.Kind != pvcase.KLit {
			repl = append(repl, &pvcase.Expr{Kind: pvcase.KAny, ID: e.ID})
		}
		if e.Kind == pvcase.KLit && len(e.Runes) > 1 && !e.IgnoreCase {
			// shorten the literal
			r := e.Runes[:1]
			repl = append(repl, &pvcase.Expr{Kind: pvcase.KLit, ID: e.ID, Runes: r, Want: fmt.Sprintf("%q", string(r))})
		}
		if e.Kind == pvcase.KCls && (len(e.Classes) > 0 || len(e.Chars)+len(e.Ranges) > 1) {
			if len(e.Chars) > 0 {
				m := e.Clone()
				m.Chars, m.Ranges, m.Classes = m.Chars[:1], nil, nil
				if m.BL != "" {
					m.BL = "" // recomputed below
				}
				repl = append(repl, m)
			}
		}
		for _, r := range repl {
			if r.Kind == pvcase.KCls && e.BL != "" {
				r.BL = simpleBL(r)
			}
			c := s.best.Clone()
			*slots(c)[k] = r
			if s.try(c, "trivialise "+e.Kind) {
				progress = true
				break
			}
		}
	}
	return progress
}

// simpleBL computes basicLatinChars for a class that has only chars left and
// no ignoreCase subtleties beyond ASCII (enough for a shrunk witness).
func simpleBL(e *pvcase.Expr) string {
	b := bytes.Repeat([]byte{'0'}, 128)
	for _, r := range e.Chars {
		if r >= 0 && r < 128 {
			b[r] = '1'
			if e.IgnoreCase {
				switch {
				case r >= 'a' && r <= 'z':
					b[r-32] = '1'
				case r >= 'A' && r <= 'Z':
					b[r+32] = '1'
				}
			}
		}
	}
	return string(b)
}

func (s *shrinker) shrinkInput() bool {
	progress := false
	tryIn := func(in []byte, what string) bool {
		c := s.best.Clone()
		c.Input = append([]byte{}, in...)
		if s.try(c, what) {
			progress = true
			return true
		}
		return false
	}
	// halves
	for len(s.best.Input) > 1 && !s.exhausted() {
		in := s.best.Input
		h := len(in) / 2
		for h > 0 && h < len(in) && !utf8.RuneStart(in[h]) {
			h++
		}
		if tryIn(in[:h], "first half of input") || tryIn(in[h:], "second half of input") {
			continue
		}
		break
	}
	// single runes
	for i := 0; i < len(s.best.Input) && !s.exhausted(); {
		in := s.best.Input
		_, w := utf8.DecodeRune(in[i:])
		if tryIn(append(append([]byte{}, in[:i]...), in[i+w:]...), "drop a rune") {
			continue
		}
		i += w
	}
	// single bytes
	for i := 0; i < len(s.best.Input) && !s.exhausted(); {
		in := s.best.Input
		if in[i] < 0x80 {
			i++
			continue // already tried as a rune
		}
		if tryIn(append(append([]byte{}, in[:i]...), in[i+1:]...), "drop a byte") {
			continue
		}
		i++
	}
	return progress
}

func (s *shrinker) resetOptions() bool {
	progress := false
	type edit struct {
		what string
		f    func(c *pvcase.Case) bool // false: not applicable
	}
	edits := []edit{
		{"memoize=0", func(c *pvcase.Case) bool { ok := c.Opts.Memoize; c.Opts.Memoize = false; return ok }},
		{"debug=0", func(c *pvcase.Case) bool { ok := c.Opts.Debug; c.Opts.Debug = false; return ok }},
		{"stats=0", func(c *pvcase.Case) bool { ok := c.Opts.Stats; c.Opts.Stats = false; return ok }},
		{"maxExpr=0", func(c *pvcase.Case) bool {
			if c.Opts.MaxExpr == 0 || pvterm.Check(c) != nil {
				return false // only when the grammar terminates by itself
			}
			c.Opts.MaxExpr = 0
			c.Fuel = 400
			return true
		}},
		{"no entrypoint", func(c *pvcase.Case) bool { ok := c.Opts.HasEntry; c.Opts.HasEntry, c.Opts.Entry = false, ""; return ok }},
		{"allowInvalid=0", func(c *pvcase.Case) bool { ok := c.Opts.AllowInvalid; c.Opts.AllowInvalid = false; return ok }},
		{"recover=1", func(c *pvcase.Case) bool { ok := !c.Opts.Recover; c.Opts.Recover = true; return ok }},
		{"filename empty", func(c *pvcase.Case) bool { ok := c.Opts.Filename != ""; c.Opts.Filename = ""; return ok }},
		{"no InitState", func(c *pvcase.Case) bool { ok := len(c.Opts.InitState) > 0; c.Opts.InitState = nil; return ok }},
		{"no GlobalStore", func(c *pvcase.Case) bool { ok := len(c.Opts.GlobalStore) > 0; c.Opts.GlobalStore = nil; return ok }},
	}
	for _, e := range edits {
		if s.exhausted() {
			break
		}
		c := s.best.Clone()
		if e.f(c) && s.try(c, e.what) {
			progress = true
		}
	}
	// single store entries
	for _, global := range []bool{false, true} {
		for i := 0; !s.exhausted(); i++ {
			c := s.best.Clone()
			st := &c.Opts.InitState
			if global {
				st = &c.Opts.GlobalStore
			}
			if i >= len(*st) {
				break
			}
			*st = append((*st)[:i], (*st)[i+1:]...)
			if s.try(c, "drop a store entry") {
				progress = true
				i--
			}
		}
	}
	// displayName, LR bits
	for i := range s.best.Grammar.Rules {
		if s.exhausted() {
			break
		}
		if s.best.Grammar.Rules[i].DisplayName != "" {
			c := s.best.Clone()
			c.Grammar.Rules[i].DisplayName = ""
			if s.try(c, "drop displayName") {
				progress = true
			}
		}
	}
	return progress
}

func (s *shrinker) simplifyBlocks() bool {
	progress := false
	// unused blocks first
	used := map[int]bool{}
	for _, r := range s.best.Grammar.Rules {
		r.Expr.Walk(func(e *pvcase.Expr) {
			switch e.Kind {
			case pvcase.KAct, pvcase.KAndc, pvcase.KNotc, pvcase.KStc:
				used[e.Blk] = true
			}
		})
	}
	if len(used) < len(s.best.Blocks) && !s.exhausted() {
		c := s.best.Clone()
		var keep []*pvcase.Block
		for _, b := range c.Blocks {
			if used[b.ID] {
				keep = append(keep, b)
			}
		}
		c.Blocks = keep
		if s.try(c, "drop unused blocks") {
			progress = true
		}
	}
	for bi := 0; bi < len(s.best.Blocks) && !s.exhausted(); bi++ {
		type edit struct {
			what string
			f    func(b *pvcase.Block) bool
		}
		edits := []edit{
			{"drop all effects", func(b *pvcase.Block) bool { ok := len(b.Effects) > 1; b.Effects = nil; return ok }},
			{"drop panic", func(b *pvcase.Block) bool { ok := b.Panic != nil; b.Panic = nil; return ok }},
			{"drop err", func(b *pvcase.Block) bool { ok := b.Err != nil; b.Err = nil; return ok }},
			{"ret const nil", func(b *pvcase.Block) bool {
				if b.Kind != 'a' || (b.RetV.Op == "const" && b.RetV.Val.Kind == pvcase.VNil) {
					return false
				}
				b.RetV = &pvcase.VExpr{Op: "const"}
				return true
			}},
			{"ret t", func(b *pvcase.Block) bool {
				if b.Kind != 'p' || b.RetB.Op == "t" {
					return false
				}
				b.RetB = &pvcase.BExpr{Op: "t"}
				return true
			}},
			{"ret f", func(b *pvcase.Block) bool {
				if b.Kind != 'p' || b.RetB.Op == "f" || b.RetB.Op == "t" {
					return false
				}
				b.RetB = &pvcase.BExpr{Op: "f"}
				return true
			}},
			{"hoist tuple element", func(b *pvcase.Block) bool {
				if b.Kind != 'a' || b.RetV.Op != "tup" || len(b.RetV.Kids) == 0 {
					return false
				}
				b.RetV = b.RetV.Kids[0]
				return true
			}},
			{"panic always", func(b *pvcase.Block) bool {
				if b.Panic == nil || b.Panic.Always {
					return false
				}
				b.Panic.Always, b.Panic.At = true, 0
				return true
			}},
			{"err always", func(b *pvcase.Block) bool {
				if b.Err == nil || b.Err.Always {
					return false
				}
				b.Err.Always, b.Err.At = true, 0
				return true
			}},
		}
		for _, e := range edits {
			if s.exhausted() {
				break
			}
			c := s.best.Clone()
			if e.f(c.Blocks[bi]) && s.try(c, e.what) {
				progress = true
			}
		}
		for i := 0; i < len(s.best.Blocks[bi].Effects) && !s.exhausted(); i++ {
			c := s.best.Clone()
			b := c.Blocks[bi]
			b.Effects = append(b.Effects[:i], b.Effects[i+1:]...)
			if s.try(c, "drop an effect") {
				progress = true
				i--
			}
		}
		for i := len(s.best.Blocks[bi].Args) - 1; i >= 0 && !s.exhausted(); i-- {
			// only trailing arguments: indices of the others stay valid
			if i != len(s.best.Blocks[bi].Args)-1 {
				break
			}
			c := s.best.Clone()
			b := c.Blocks[bi]
			b.Args = b.Args[:i]
			if s.try(c, "drop last argument") {
				progress = true
			} else {
				break
			}
		}
	}
	return progress
}

func main() {
	var (
		in       = flag.String("in", "", "case file: header + exactly one case")
		out      = flag.String("out", "", "output file")
		test     = flag.String("test", "", "shell command; run as `sh -c \"<cmd> <file>\"`, exit 0 = failure still present")
		maxTests = flag.Int("max", 400, "maximal number of test invocations")
		verbose  = flag.Bool("v", false, "log accepted reductions")
	)
	flag.Parse()
	if *in == "" || *out == "" || *test == "" || flag.NArg() != 0 {
		flag.Usage()
		os.Exit(2)
	}
	data, err := os.ReadFile(*in)
	if err != nil {
		fmt.Fprintln(os.Stderr, "pvshrink:", err)
		os.Exit(2)
	}
	s := &shrinker{header: pvcase.UnicodeHeader(), maxTests: *maxTests, cmd: *test, seen: map[string]bool{}, verbose: *verbose}
	var caseLines []string
	for _, l := range strings.Split(string(data), "\n") {
		l = strings.TrimRight(l, "\r")
		switch {
		case strings.HasPrefix(l, "unicode "):
			s.header = l
		case strings.HasPrefix(l, "case "):
			caseLines = append(caseLines, l)
		}
	}
	if len(caseLines) != 1 {
		fmt.Fprintf(os.Stderr, "pvshrink: %s holds %d cases, want exactly one\n", *in, len(caseLines))
		os.Exit(2)
	}
	c, err := pvcase.Parse(caseLines[0])
	if err != nil {
		fmt.Fprintln(os.Stderr, "pvshrink:", err)
		os.Exit(2)
	}
	dir, err := os.MkdirTemp("", "pvh.shrink.")
	if err != nil {
		fmt.Fprintln(os.Stderr, "pvshrink:", err)
		os.Exit(1)
	}
	defer os.RemoveAll(dir)
	s.tmp = filepath.Join(dir, "cand.case")
	s.best, s.bestLine = c, c.String()
	s.needTerm = pvterm.OK(c)
	nodes0, in0 := c.NodeCount(), len(c.Input)

	if !s.run(s.bestLine) {
		fmt.Fprintln(os.Stderr, "pvshrink: the test command does not exit 0 on the original case")
		os.RemoveAll(dir)
		os.Exit(1)
	}
	for !s.exhausted() {
		progress := false
		for _, pass := range []func() bool{
			s.shrinkInput, s.dropRules, s.hoist, s.dropKids, s.trivialise,
			s.resetOptions, s.simplifyBlocks, s.dropRules,
		} {
			if pass() {
				progress = true
			}
		}
		if !progress {
			break
		}
	}
	if err := os.WriteFile(*out, []byte(s.header+"\n"+s.bestLine+"\n"), 0o644); err != nil {
		fmt.Fprintln(os.Stderr, "pvshrink:", err)
		os.RemoveAll(dir)
		os.Exit(1)
	}
	fmt.Fprintf(os.Stderr, "pvshrink: %d tests; nodes %d -> %d, rules -> %d, blocks -> %d, input %d -> %d bytes\n",
		s.tests, nodes0, s.best.NodeCount(), len(s.best.Grammar.Rules), len(s.best.Blocks), in0, len(s.best.Input))
}
