// Command pvstat summarises a result file produced by pvrun (or by the
// model): outcome distribution, success share, trace lengths; with -index
// (the file written by `pvgen -index`) the figures are broken down by
// profile.
//
//	pvstat -res <file> [-index <file>] [-json]
package main

import (
	"bufio"
	"encoding/json"
	"flag"
	"fmt"
	"os"
	"sort"
	"strconv"
	"strings"

	"pvharness/pvcase"
)

type group struct {
	Cases      int
	Ret        int
	Panic      int
	Timeout    int
	Crash      int
	BadVariant int
	Oof        int
	NoErrors   int // nerrs = 0
	RetNonNil  int
	Events     int
	WithTrace  int
	ExprCnt    uint64
	MaxExprCnt uint64
	Choices    int
	PanicKinds map[string]int
	ExprHist   map[string]int // exprCnt by decade
	BigLines   int            // result lines longer than 1 MB
}

func (g *group) add(r *pvcase.Result) {
	g.Cases++
	switch r.Status {
	case "ret":
		g.Ret++
		if r.Val.Kind != pvcase.VNil {
			g.RetNonNil++
		}
	case "panic":
		g.Panic++
		if g.PanicKinds == nil {
			g.PanicKinds = map[string]int{}
		}
		g.PanicKinds[string(rune(r.Panic.Kind))]++
	case "timeout":
		g.Timeout++
		return
	case "crash":
		g.Crash++
		return
	case "badvariant":
		g.BadVariant++
		return
	case "oof":
		g.Oof++
		return
	}
	if len(r.Errs) == 0 {
		g.NoErrors++
	}
	g.Events += len(r.Trace)
	if len(r.Trace) > 0 {
		g.WithTrace++
	}
	g.ExprCnt += r.ExprCnt
	if g.ExprHist == nil {
		g.ExprHist = map[string]int{}
	}
	dec := "1e0"
	for lim, k := uint64(10), 1; k <= 9; lim, k = lim*10, k+1 {
		if r.ExprCnt >= lim {
			dec = fmt.Sprintf("1e%d", k)
		}
	}
	g.ExprHist[dec]++
	if r.ExprCnt > g.MaxExprCnt {
		g.MaxExprCnt = r.ExprCnt
	}
	if len(r.Choices) > 0 {
		g.Choices++
	}
}

func pct(a, b int) string {
	if b == 0 {
		return "-"
	}
	return fmt.Sprintf("%.1f%%", 100*float64(a)/float64(b))
}

func main() {
	var (
		resF   = flag.String("res", "", "result file")
		indexF = flag.String("index", "", "index file written by pvgen -index (id profile)")
		asJSON = flag.Bool("json", false, "print JSON")
	)
	flag.Parse()
	if *resF == "" {
		flag.Usage()
		os.Exit(2)
	}
	profOf := map[uint64]string{}
	if *indexF != "" {
		f, err := os.Open(*indexF)
		if err != nil {
			fmt.Fprintln(os.Stderr, "pvstat:", err)
			os.Exit(2)
		}
		sc := bufio.NewScanner(f)
		for sc.Scan() {
			fs := strings.Fields(sc.Text())
			if len(fs) >= 2 {
				if id, err := strconv.ParseUint(fs[0], 10, 64); err == nil {
					profOf[id] = fs[1]
				}
			}
		}
		f.Close()
	}
	f, err := os.Open(*resF)
	if err != nil {
		fmt.Fprintln(os.Stderr, "pvstat:", err)
		os.Exit(2)
	}
	defer f.Close()
	groups := map[string]*group{"all": {}}
	rd := bufio.NewReaderSize(f, 1<<20)
	bad := 0
	for {
		line, err := rd.ReadString('\n')
		if strings.HasPrefix(line, "res ") {
			r, perr := pvcase.ParseResult(line)
			if perr != nil {
				bad++
				fmt.Fprintf(os.Stderr, "pvstat: unparsable result line %.60q: %v\n", line, perr)
			} else {
				groups["all"].add(r)
				if len(line) > 1<<20 {
					groups["all"].BigLines++
				}
				if p, ok := profOf[r.ID]; ok {
					if groups[p] == nil {
						groups[p] = &group{}
					}
					groups[p].add(r)
				}
			}
		}
		if err != nil {
			break
		}
	}
	if *asJSON {
		b, _ := json.MarshalIndent(groups, "", "  ")
		fmt.Println(string(b))
	} else {
		names := make([]string, 0, len(groups))
		for n := range groups {
			if n != "all" {
				names = append(names, n)
			}
		}
		sort.Strings(names)
		names = append([]string{"all"}, names...)
		fmt.Printf("%-8s %8s %8s %7s %7s %6s %6s %9s %9s %9s %10s %9s\n",
			"profile", "cases", "ret", "panic", "timeout", "crash", "badvar", "nerrs=0", "ret!=nil", "ev/case", "ev/traced", "expr/case")
		for _, n := range names {
			g := groups[n]
			done := g.Ret + g.Panic
			evc, evt, ex := "-", "-", "-"
			if done > 0 {
				evc = fmt.Sprintf("%.2f", float64(g.Events)/float64(done))
				ex = fmt.Sprintf("%.1f", float64(g.ExprCnt)/float64(done))
			}
			if g.WithTrace > 0 {
				evt = fmt.Sprintf("%.2f", float64(g.Events)/float64(g.WithTrace))
			}
			fmt.Printf("%-8s %8d %8d %7d %7d %6d %6d %9s %9s %9s %10s %9s\n",
				n, g.Cases, g.Ret, g.Panic, g.Timeout, g.Crash, g.BadVariant,
				pct(g.NoErrors, g.Cases), pct(g.RetNonNil, g.Cases), evc, evt, ex)
		}
	}
	if !*asJSON {
		a := groups["all"]
		var ks []string
		for k := range a.ExprHist {
			ks = append(ks, k)
		}
		sort.Strings(ks)
		fmt.Print("exprCnt by decade:")
		for _, k := range ks {
			fmt.Printf(" >=%s:%d", k, a.ExprHist[k])
		}
		fmt.Printf("  max:%d  result lines > 1 MB: %d\n", a.MaxExprCnt, a.BigLines)
	}
	if bad > 0 {
		os.Exit(1)
	}
}
