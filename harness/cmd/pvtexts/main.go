// pvtexts prints grammar TEXTS, one per line as "<class> x<hex>": valid grammars printed from generated ASTs in random
// styles, mutated, spliced, truncated texts and raw bytes - the same population pvtool gives to the pigeon binary. Used by
// the front-end-through-the-model stage (pv/front_model.py): the Lean runtime model executes the tables the working tree's
// pigeon generates for grammar/pigeon.peg on these texts and must predict the verdict and the syntax error of the real tool.
package main

import (
	"bufio"
	"encoding/hex"
	"flag"
	"fmt"
	"os"

	"pvharness/pvpeg"
)

func main() {
	seed := flag.Int64("seed", 1, "random seed (all randomness derives from it)")
	n := flag.Int("n", 300, "number of texts")
	flag.Parse()
	av, err := pvpeg.ParseAvoid(false, "")
	if err != nil {
		fmt.Fprintln(os.Stderr, err)
		os.Exit(2)
	}
	w := bufio.NewWriter(os.Stdout)
	defer w.Flush()
	for i := 0; i < *n; i++ {
		r := pvpeg.SubRand(*seed, 7, i)
		valid := func(compilable bool) string {
			cfg := pvpeg.Cfg{Avoid: av, Compilable: compilable, WellFormed: compilable || r.Intn(2) == 0}
			if compilable {
				cfg.NoThrow = r.Intn(2) == 0
			}
			g := pvpeg.Gen(r, cfg)
			st := pvpeg.Styles[r.Intn(len(pvpeg.Styles))]
			st.Avoid = av
			return pvpeg.Print(g, r, st)
		}
		var class, text string
		switch x := r.Intn(100); {
		case x < 25:
			class, text = "valid", valid(true)
		case x < 32:
			class, text = "valid-junk", valid(false)
		case x < 70:
			class, text = "mutated", valid(r.Intn(3) > 0)
			for k := 1 + r.Intn(3); k > 0; k-- {
				op := -1
				if r.Intn(4) == 0 {
					op = 10
				}
				text, _ = pvpeg.Mutate(r, text, op)
			}
		case x < 80:
			class, text = "spliced", pvpeg.Splice(r, valid(true), valid(r.Intn(2) == 0))
		case x < 90:
			class = "truncated"
			text, _ = pvpeg.Mutate(r, valid(r.Intn(2) == 0), 9)
		default:
			class, text = "raw", pvpeg.RawBytes(r, r.Intn(120))
		}
		fmt.Fprintf(w, "%s x%s\n", class, hex.EncodeToString([]byte(text)))
	}
}
