// Command pvtool checks the totality of the pigeon command line tool: on any
// input and any combination of flags it must end, within 10 s, with one of
// the statuses documented in main.go, say why on stderr when it fails, and
// produce Go source that parses when it succeeds.
//
// Inputs (classes): valid generated grammars with compilable code blocks
// ("valid"), valid grammars with arbitrary code ("valid-junk"), one to three
// token/byte mutations of a valid grammar ("mutated"), two grammars spliced
// ("spliced"), a truncated grammar ("truncated"), raw bytes ("raw"). Each is
// combined with a random subset of the flags -cache -debug -no-recover
// -nolint -optimize-basic-latin -optimize-grammar -optimize-parser
// -support-left-recursion -x -receiver-name -alternate-entrypoints (existing
// and missing rule names) -o, passed as a file or on stdin.
//
// Every run is a fresh process (16 in parallel). The same text is also given
// to the AST dump server (-tags verif binary) to know whether the front-end
// accepts it.
//
// Failure kinds:
//
//	crash            stderr has "panic:", "goroutine " or "fatal error", or the
//	                 exit status is not one of main.go's
//	hang             no exit within 10 s
//	bad-output       exit 0 (without -x) but the output does not parse with
//	                 go/parser
//	accepted-invalid exit 0 although the AST dump server rejects the text
//	rejected-valid   exit 3 (parse error) although the server accepts the text
//	silent-failure   exit != 0 with empty stderr
//
// Known-defect avoidance (lifted by -include-known): -optimize-grammar is
// not used when the grammar has throw/recover or references an undefined rule
// (D13); -no-recover is not used on a text on which an action of the
// front-end grammar panics (F4, findings_tools/F4-*.peg; without the flag the
// panic is recovered and reported as a parse error).
package main

import (
	"bytes"
	"context"
	"errors"
	"flag"
	"fmt"
	"go/parser"
	"go/token"
	"os"
	"os/exec"
	"path/filepath"
	"regexp"
	"strconv"
	"strings"
	"sync"
	"time"

	"github.com/mna/pigeon/ast"

	"pvharness/pvpeg"
)

type outcome struct {
	kind, detail, name string
}

type item struct {
	tool     string // the run as the exit-status model sees it (`tool` line of the driver protocol), "" when not recorded
	class    string
	text     string
	flags    []string
	exit     string
	accepted string
	fails    []outcome
	muts     []string
}

var documented = map[int]bool{0: true, 1: true, 2: true, 3: true, 4: true, 5: true, 6: true, 7: true, 8: true, 9: true}

// argRuns are the runs that end before the grammar is looked at: a flag that does not exist, a malformed flag value, help,
// two arguments, an input file that is not there, an output file that cannot be created, an unknown entrypoint. What the
// harness knows of each is complete; the exit-status model has to predict the status exactly.
func argRuns(pigeon, dir string, timeout time.Duration) []string {
	g := filepath.Join(dir, "argrun.peg")
	os.WriteFile(g, []byte("A <- \"a\" B\nB <- \"b\"\n"), 0o644)
	type run struct {
		args   []string
		fields string // nargs + the 12 fields
	}
	runs := []run{
		{[]string{"-no-such-flag", g}, "1 0 0 1 1 1 0 1 1 1 1 1 1"},
		{[]string{"-optimize-parser=maybe", g}, "1 0 0 1 1 1 0 1 1 1 1 1 1"},
		{[]string{"-h"}, "0 1 1 1 1 1 0 1 1 1 1 1 1"},
		{[]string{"-help", g}, "1 1 1 1 1 1 0 1 1 1 1 1 1"},
		{[]string{g, g}, "2 1 0 1 1 1 0 1 1 1 1 1 1"},
		{[]string{"-x", g, "extra"}, "2 1 0 1 1 1 1 1 1 1 1 1 1"},
		{[]string{filepath.Join(dir, "not-there.peg")}, "1 1 0 0 1 1 0 1 1 1 1 1 1"},
		{[]string{"-o", filepath.Join(dir, "no-such-dir", "p.go"), g}, "1 1 0 1 1 1 0 0 1 1 1 1 1"},
		{[]string{"-x", "-o", filepath.Join(dir, "no-such-dir", "p.go"), g}, "1 1 0 1 1 1 1 0 1 1 1 1 1"},
		{[]string{"-alternate-entrypoints", "B,Nope", g}, "1 1 0 1 1 0 0 1 1 1 1 1 1"},
		{[]string{"-alternate-entrypoints", "B,,A", "-x", g}, "1 1 0 1 1 1 1 1 1 1 1 1 1"},
		{[]string{"-o", filepath.Join(dir, "argrun.go"), g}, "1 1 0 1 1 1 0 1 1 1 1 1 1"},
	}
	// grammars beyond any plausible size limit of the reader (64 KiB, 1 MiB): padded with comment lines, so that a reader
	// that silently stops somewhere stops at a place where the text so far is a complete grammar - then an invalid last rule is
	// accepted, or a last rule named as entrypoint is "unknown" (round 20, C13: io.LimitReader on the input)
	pad := "// padding line of a grammar that somebody generated from a long table ........................\n"
	for _, size := range []int{70 << 10, 1100 << 10} {
		body := "A <- \"a\" B\nB <- \"b\"\n" + strings.Repeat(pad, size/len(pad)+1)
		bad := filepath.Join(dir, fmt.Sprintf("big-bad-%d.peg", size))
		good := filepath.Join(dir, fmt.Sprintf("big-good-%d.peg", size))
		os.WriteFile(bad, []byte(body+"Z <- \"unterminated\n"), 0o644)
		os.WriteFile(good, []byte(body+"Tail <- \"t\"\n"), 0o644)
		runs = append(runs,
			run{[]string{"-x", bad}, "1 1 0 1 0 1 1 1 1 1 1 1 1"},
			run{[]string{"-x", "-alternate-entrypoints", "Tail", good}, "1 1 0 1 1 1 1 1 1 1 1 1 1"})
	}
	var out []string
	for k, rn := range runs {
		ctx, cancel := context.WithTimeout(context.Background(), 6*timeout)
		cmd := exec.CommandContext(ctx, pigeon, rn.args...)
		cmd.Dir = dir
		cmd.Stdin = strings.NewReader("")
		err := cmd.Run()
		cancel()
		code := 0
		if ee, ok := err.(*exec.ExitError); ok {
			code = ee.ExitCode()
		} else if err != nil {
			continue
		}
		if code < 0 {
			continue
		}
		out = append(out, fmt.Sprintf("tool %d %s %d", 900001+k, rn.fields, code))
	}
	return out
}

func main() {
	seed := flag.Int64("seed", 1, "random seed (all randomness derives from it)")
	n := flag.Int("n", 500, "number of runs")
	pigeon := flag.String("pigeon", "/verif/build/bin/pigeon", "pigeon binary built with -tags verif")
	includeKnown := flag.Bool("include-known", false, "lift the known-defect avoidance")
	lift := flag.String("lift", "", "lift single avoidances: comma-separated list of "+strings.Join(pvpeg.AvoidNames(), ","))
	out := flag.String("out", "/tmp/pvt.pvtool.out", "directory for failing inputs")
	toolOut := flag.String("toolout", "", "write one `tool` line per run (what is known of its stages, the observed status) to this file")
	jobs := flag.Int("j", 16, "parallel runs")
	timeout := flag.Duration("timeout", 10*time.Second, "per-run timeout")
	flag.Parse()
	if flag.NArg() > 0 || *n < 0 || *jobs < 1 {
		fmt.Fprintln(os.Stderr, "usage: pvtool [-seed S] [-n N] [-pigeon BIN] [-include-known] [-out DIR] [-j J] [-timeout D]")
		os.Exit(2)
	}
	av, err := pvpeg.ParseAvoid(*includeKnown, *lift)
	if err != nil {
		fmt.Fprintln(os.Stderr, "pvtool:", err)
		os.Exit(2)
	}
	scratch, err := os.MkdirTemp("/tmp", "pvt.tool.")
	if err != nil {
		fmt.Fprintln(os.Stderr, "pvtool:", err)
		os.Exit(2)
	}
	defer os.RemoveAll(scratch)
	rep := pvpeg.NewReport("pvtool", *seed, *out)
	items := make([]*item, *n)
	var wg sync.WaitGroup
	next := make(chan int)
	errs := make(chan error, *jobs)
	for w := 0; w < *jobs; w++ {
		wg.Add(1)
		go func(w int) {
			defer wg.Done()
			srv, err := pvpeg.StartServer(*pigeon)
			if err != nil {
				errs <- err
				for range next {
				}
				return
			}
			defer srv.Close()
			dir := filepath.Join(scratch, fmt.Sprint("w", w))
			os.MkdirAll(dir, 0o755)
			for i := range next {
				items[i] = evaluate(srv, *pigeon, dir, *seed, i, av, *timeout)
			}
		}(w)
	}
	for i := 0; i < *n; i++ {
		next <- i
	}
	close(next)
	wg.Wait()
	select {
	case err := <-errs:
		fmt.Fprintln(os.Stderr, "pvtool:", err)
		os.RemoveAll(scratch)
		os.Exit(2)
	default:
	}
	if *toolOut != "" {
		var tl []string
		for _, it := range items {
			if it.tool != "" {
				tl = append(tl, it.tool)
			}
		}
		tl = append(tl, argRuns(*pigeon, scratch, *timeout)...)
		if err := os.WriteFile(*toolOut, []byte(strings.Join(tl, "\n")+"\n"), 0o644); err != nil {
			fmt.Fprintln(os.Stderr, "pvtool:", err)
			os.Exit(2)
		}
	}
	sampled := map[string]bool{}
	for _, it := range items {
		rep.Seen(it.text+"\x00"+strings.Join(it.flags, " "), len(it.text) > 8)
		rep.Count("class", it.class, 1)
		rep.Count("exit_by_class", it.class+": exit "+it.exit, 1)
		rep.Count("exit", it.exit, 1)
		rep.Count("front_end", it.class+": "+it.accepted, 1)
		rep.Count("text_bytes", pvpeg.SizeBucket(len(it.text)), 1)
		for _, f := range it.flags {
			if strings.HasPrefix(f, "-") {
				rep.Count("flags", f, 1)
			}
		}
		for _, m := range it.muts {
			rep.Count("mutations", m, 1)
		}
		rep.Count("flag_set_sizes", fmt.Sprint(countFlags(it.flags)), 1)
		for _, f := range it.fails {
			rep.Fail(f.kind, f.detail, f.name, it.text, it.flags)
		}
		if !sampled[it.class] && len(rep.Samples) < 3 && (it.class == "valid" || it.class == "mutated" || it.class == "raw") {
			sampled[it.class] = true
			rep.Sample(it.class + " " + strings.Join(it.flags, " ") + "\n" + it.text)
		}
	}
	rep.Print(os.Stdout)
}

// recoveredPanic reports whether the error list of the front-end shows a
// panic that the parser recovered from (finding F4: the error alternatives of
// CodeBlock and ThrowExpr in pigeon.peg return a nil value, on which the
// actions of the enclosing rules do an unchecked type assertion). With
// -no-recover the same panic ends the process.
func recoveredPanic(msg string) bool {
	return strings.Contains(msg, "interface conversion") || strings.Contains(msg, "runtime error") || strings.Contains(msg, "panic")
}

func countFlags(fs []string) int {
	n := 0
	for _, f := range fs {
		if strings.HasPrefix(f, "-") {
			n++
		}
	}
	return n
}

// facts about an accepted text that steer the flag choice
type facts struct {
	accepted  bool
	rules     []string
	throws    bool // throw or recover
	undefined bool // a reference to a rule that does not exist
}

func analyse(a pvpeg.Answer) facts {
	f := facts{accepted: a.Kind == "ok"}
	if !f.accepted {
		return f
	}
	g, err := pvpeg.ParseDump(a.Dump)
	if err != nil {
		return f
	}
	names := map[string]bool{}
	for _, r := range g.Rules {
		names[r.Name.Val] = true
		f.rules = append(f.rules, r.Name.Val)
	}
	for _, r := range g.Rules {
		pvpeg.WalkExpr(r.Expr, func(e ast.Expression) {
			switch e := e.(type) {
			case *ast.ThrowExpr, *ast.RecoveryExpr:
				f.throws = true
			case *ast.RuleRefExpr:
				if !names[e.Name.Val] {
					f.undefined = true
				}
			}
		})
	}
	return f
}

// invalidEscapes: tokens the documented syntax gives no meaning (code points beyond U+10FFFF, surrogates, malformed hex /
// octal / unknown escapes), in the three literal quotings and in classes
var invalidEscapes = []string{
	`"\U80000000"`, `"\UFFFFFFFF"`, `'\U90000000'`, `"\U00110000"`, `"\U7FFFFFFF"`, `[\U80000000]`, `[a-\UFFFFFFFF]`, `"\UA0000041"i`,
	`"\uD800"`, `"\uDFFF"`, `'\uDABC'`, `[\uD800]`, `"\U0000D800"`, `"\U0000DFFF"`,
	`"\xZZ"`, `"\x4"`, `'\u12G4'`, `"\U0001F60"`, `"\8"`, `"\9a"`, `'\q'`, `"\-"`, `[\q]`, `"\18"`,
}

// stressText: see the class "opt-stress" in evaluate.
func stressText(r interface{ Intn(int) int }) string {
	term := func() string {
		return []string{`"a"i`, `"b"`, `'c'i`, `[d-f]`, `"gh"i`, `'k'`, `[m]i`, `"A"`}[r.Intn(8)]
	}
	var b strings.Builder
	nr := 1 + r.Intn(3)
	for k := 0; k < nr; k++ {
		fmt.Fprintf(&b, "R%d <- ", k)
		na := 1 + r.Intn(3)
		for a := 0; a < na; a++ {
			if a > 0 {
				b.WriteString(" / ")
			}
			ni := 1 + r.Intn(4)
			for i := 0; i < ni; i++ {
				if i > 0 {
					b.WriteByte(' ')
				}
				switch {
				case k+1 < nr && r.Intn(5) == 0:
					fmt.Fprintf(&b, "R%d", k+1)
				case r.Intn(6) == 0:
					b.WriteString("(" + term() + " " + term() + ")")
				default:
					b.WriteString(term())
				}
			}
		}
		b.WriteByte('\n')
	}
	return b.String()
}

func evaluate(srv *pvpeg.Server, pigeon, dir string, seed int64, i int, av pvpeg.Avoid, timeout time.Duration) *item {
	r := pvpeg.SubRand(seed, 0, i)
	it := &item{}
	valid := func(compilable bool) string {
		cfg := pvpeg.Cfg{Avoid: av, Compilable: compilable, WellFormed: compilable || r.Intn(2) == 0}
		if compilable {
			cfg.NoThrow = r.Intn(2) == 0
		}
		g := pvpeg.Gen(r, cfg)
		st := pvpeg.Styles[r.Intn(len(pvpeg.Styles))]
		st.Avoid = av
		return pvpeg.Print(g, r, st)
	}
	forceOpt := false
	mustReject := "" // set when the text is invalid BY CONSTRUCTION (independently of what the front-end under test says)
	switch x := r.Intn(110); {
	case x >= 106:
		// a valid grammar plus one more rule whose body is a token with an INVALID escape: the documented syntax has no
		// reading for it, the tool must reject the text whatever its own validation routines say (round 17: `\U80000000`
		// passed a rewritten range check through a sign overflow, the literal silently became "")
		it.class = "invalid-escape"
		tok := invalidEscapes[r.Intn(len(invalidEscapes))]
		it.text = strings.TrimRight(valid(true), " \t\n;") + "\nZq9 <- " + tok + "\n"
		mustReject = tok
	case x >= 100:
		// what ast.Optimize rewrites, densely: adjacent literals with and without the i suffix, one-rune literals and classes
		// in choices, parenthesised groups, small rules referenced from others - always with -optimize-grammar (a selftest
		// showed the one random hit the "optimizer never reaches its fixpoint" change had rested on to be gone)
		it.class = "opt-stress"
		it.text = stressText(r)
		forceOpt = true
	case x < 30:
		it.class = "valid"
		it.text = valid(true)
	case x < 40:
		it.class = "valid-junk"
		it.text = valid(false)
	case x < 70:
		it.class = "mutated"
		it.text = valid(r.Intn(3) > 0)
		for k := 1 + r.Intn(3); k > 0; k-- {
			var m string
			op := -1
			if r.Intn(4) == 0 {
				op = 10 // drop-closer: the "not terminated" diagnostics
			}
			it.text, m = pvpeg.Mutate(r, it.text, op)
			it.muts = append(it.muts, m)
		}
	case x < 80:
		it.class = "spliced"
		it.text = pvpeg.Splice(r, valid(true), valid(r.Intn(2) == 0))
	case x < 88:
		it.class = "truncated"
		it.text, _ = pvpeg.Mutate(r, valid(r.Intn(2) == 0), 9)
	default:
		it.class = "raw"
		it.text = pvpeg.RawBytes(r, r.Intn(200))
	}
	ans := srv.Parse([]byte(it.text))
	f := analyse(ans)
	it.accepted = "front-end " + ans.Kind
	if ans.Kind == "panic" || ans.Kind == "dead" {
		it.fails = append(it.fails, outcome{"crash", "AST dump server: " + ans.Kind + ": " + ans.Msg, fmt.Sprintf("pvtool-s%d-i%d-server-crash.peg", seed, i)})
	}

	// flags
	var flags []string
	var entryNames []string // existing rules named by -alternate-entrypoints: they must survive as entrypoints
	entryKnown := true      // every non-empty name given is a rule of the grammar
	has := map[string]bool{}
	add := func(fl ...string) {
		flags = append(flags, fl...)
		has[fl[0]] = true
	}
	for _, fl := range []string{"-cache", "-no-recover", "-nolint", "-optimize-basic-latin", "-optimize-grammar", "-optimize-parser", "-support-left-recursion", "-x"} {
		if r.Intn(4) == 0 || (fl == "-optimize-grammar" && r.Intn(4) == 0) {
			if fl == "-optimize-grammar" && !av.OptThrow && (f.throws || f.undefined || strings.Contains(it.text, "%{") || strings.Contains(it.text, "//{")) {
				continue // D13
			}
			if fl == "-no-recover" && !av.NoRecoverPanic && ans.Kind == "err" && recoveredPanic(ans.Msg) {
				continue // F4: an action of the front-end grammar panics on this text
			}
			add(fl)
		}
	}
	if forceOpt && !has["-optimize-grammar"] {
		add("-optimize-grammar")
	}
	if len(it.text) < 150 && r.Intn(12) == 0 {
		add("-debug") // the trace is huge: small inputs only
	}
	if r.Intn(5) == 0 {
		add("-receiver-name", []string{"c", "p", "cur", "self", "ç"}[r.Intn(5)])
	}
	if r.Intn(3) == 0 || (has["-optimize-grammar"] && r.Intn(2) == 0) {
		// (with -optimize-grammar the list decides which rules survive: more of these)
		var names []string
		allValid := r.Intn(10) < 7
		for k := 1 + r.Intn(3); k > 0; k-- {
			if len(f.rules) > 0 && (allValid || r.Intn(3) > 0) {
				names = append(names, f.rules[r.Intn(len(f.rules))])
			} else {
				names = append(names, []string{"Nope", "", "A", "x y"}[r.Intn(4)])
			}
		}
		if allValid && r.Intn(2) == 0 {
			// stray commas: empty names are skipped by main.go, the names after them still count
			for k := 1 + r.Intn(2); k > 0; k-- {
				at := r.Intn(len(names) + 1)
				names = append(names[:at:at], append([]string{""}, names[at:]...)...)
			}
		}
		if allValid && r.Intn(4) == 0 {
			// blanks around a name ("Mid, Alt"): a name is what stands between the commas. The tool either refuses the
			// list (no rule is called " Alt") or, if it accepts it, has to honour the rule it took the name for
			at := r.Intn(len(names))
			names[at] = []string{" ", "  ", "\t"}[r.Intn(3)][:1+r.Intn(1)] + names[at]
			if r.Intn(2) == 0 {
				names[at] += " "
			}
		}
		if len(names) > 1 && r.Intn(2) == 0 {
			// the flag may be repeated: every occurrence counts
			for _, nm := range names {
				add("-alternate-entrypoints", nm)
			}
		} else {
			add("-alternate-entrypoints", strings.Join(names, ","))
		}
		for _, nm := range names {
			for _, rl := range f.rules {
				if rl == strings.TrimSpace(nm) {
					entryNames = append(entryNames, rl)
				}
			}
			// main.go: a non-empty name (what stands between two commas, blanks included) has to be a rule
			if nm != "" {
				found := false
				for _, rl := range f.rules {
					found = found || rl == nm
				}
				entryKnown = entryKnown && found
			}
		}
	}
	outFile := ""
	if has["-debug"] || r.Intn(3) == 0 {
		outFile = filepath.Join(dir, "out.go")
		os.Remove(outFile)
		add("-o", outFile)
	}
	// a destination that opens but cannot be written (a full device): "writes a complete parser and exits 0, or prints a
	// diagnostic and exits non-zero" - exit 0 is then never right
	unwritable := false
	// (/dev/full must be the character device; when the sandbox lacks it only stdout is made unwritable: a descriptor
	// opened read-only, on which every write fails with EBADF)
	fi, serr := os.Stat("/dev/full")
	devFull := serr == nil && fi.Mode()&os.ModeCharDevice != 0
	if !has["-debug"] && !has["-x"] && r.Intn(12) == 0 {
		unwritable = true
		if outFile != "" && !devFull {
			for k, fl := range flags {
				if fl == outFile {
					flags = append(flags[:k-1:k-1], flags[k+1:]...)
					break
				}
			}
			outFile = ""
		}
		if outFile != "" {
			for k, fl := range flags {
				if fl == outFile {
					flags[k] = "/dev/full"
				}
			}
			outFile = "/dev/full"
		}
	}
	inFile := filepath.Join(dir, "in.peg")
	stdin := r.Intn(4) == 0
	args := append([]string{}, flags...)
	if !stdin {
		if err := os.WriteFile(inFile, []byte(it.text), 0o644); err != nil {
			it.fails = append(it.fails, outcome{"harness", err.Error(), "harness"})
			return it
		}
		args = append(args, inFile)
	}
	it.flags = append([]string{}, flags...)
	for k, fl := range it.flags {
		if fl == outFile && outFile != "" {
			it.flags[k] = "out.go"
		}
	}
	if stdin {
		it.flags = append(it.flags, "<stdin")
	}

	var so, se bytes.Buffer
	var ctx context.Context
	var err error
	// a run that does not end in time is tried once more with three times the limit: an overloaded machine must
	// not be reported as a hang of pigeon (a real hang does not end either way)
	for attempt, limit := 0, timeout; attempt < 2; attempt, limit = attempt+1, 3*timeout {
		var cancel context.CancelFunc
		ctx, cancel = context.WithTimeout(context.Background(), limit)
		cmd := exec.CommandContext(ctx, pigeon, args...)
		cmd.Env = append(os.Environ(), "PIGEON_VERIF_ASTDUMP=")
		cmd.Dir = dir
		if stdin {
			cmd.Stdin = strings.NewReader(it.text)
		}
		so.Reset()
		se.Reset()
		cmd.Stdout, cmd.Stderr = &so, &se
		if unwritable && outFile == "" {
			dst, mode := "/dev/full", os.O_WRONLY
			if !devFull {
				dst, mode = os.Args[0], os.O_RDONLY
			}
			if f, oerr := os.OpenFile(dst, mode, 0); oerr == nil {
				defer f.Close()
				cmd.Stdout = f
			} else {
				unwritable = false
			}
		}
		cmd.WaitDelay = time.Second
		err = cmd.Run()
		timedOut := ctx.Err() != nil
		cancel()
		if !timedOut {
			ctx = context.Background()
			break
		}
		if outFile != "" && !unwritable {
			os.Remove(outFile)
		}
	}
	name := func(kind string) string { return fmt.Sprintf("pvtool-s%d-i%d-%s.peg", seed, i, kind) }
	fail := func(kind, detail string) {
		it.fails = append(it.fails, outcome{kind, detail, name(kind)})
	}
	code := 0
	if ctx.Err() != nil {
		it.exit = "timeout"
		fail("hang", fmt.Sprintf("no exit within %v", timeout))
		return it
	}
	var ee *exec.ExitError
	switch {
	case err == nil:
	case errors.As(err, &ee):
		code = ee.ExitCode()
	default:
		it.exit = "not started"
		fail("harness", err.Error())
		return it
	}
	it.exit = fmt.Sprint(code)
	if code >= 0 && (ans.Kind == "ok" || ans.Kind == "err") {
		b := func(x bool) int {
			if x {
				return 1
			}
			return 0
		}
		nargs := 1
		if stdin {
			nargs = 0
		}
		// flagsParse help inputOpens parseOK entrypointsKnown noBuild outOpens buildOK formatOK writeOK closeOutOK closeInOK
		// (2 = not known to this harness: whether the builder / the formatter accept, whether a close fails)
		it.tool = fmt.Sprintf("tool %d %d 1 0 1 %d %d %d 1 2 2 %d 2 2 %d", i+1, nargs, b(ans.Kind == "ok"), b(entryKnown), b(has["-x"]), b(!unwritable), code)
	}
	stderr := se.String()
	head := stderr
	if len(head) > 500 {
		head = head[:500]
	}
	if strings.Contains(stderr, "panic:") || strings.Contains(stderr, "goroutine ") || strings.Contains(stderr, "fatal error") {
		fail("crash", fmt.Sprintf("exit %d, stderr: %s", code, head))
		return it
	}
	if !documented[code] {
		fail("crash", fmt.Sprintf("undocumented exit status %d, stderr: %s", code, head))
		return it
	}
	if code != 0 && strings.TrimSpace(stderr) == "" {
		fail("silent-failure", fmt.Sprintf("exit %d with empty stderr", code))
	}
	if code == 0 && ans.Kind == "err" {
		fail("accepted-invalid", "exit 0 but the front-end says: "+ans.Msg)
	}
	if code == 0 && mustReject != "" {
		fail("accepted-invalid", "exit 0 although the last rule's body is the token "+mustReject+", whose escape sequence denotes no code point / no byte")
	}
	if code == 3 && ans.Kind == "ok" {
		fail("rejected-valid", "exit 3 although the front-end accepts the text; stderr: "+head)
	}
	if unwritable {
		if code == 0 {
			fail("silent-failure", "exit 0 although the parser could not be written (the destination is /dev/full: every write fails with ENOSPC)")
		}
		return it
	}
	if code == 0 && !has["-x"] {
		var src []byte
		if outFile != "" {
			src, err = os.ReadFile(outFile)
			if err != nil {
				fail("bad-output", "exit 0 but the -o file is missing: "+err.Error())
				return it
			}
		} else {
			src = so.Bytes()
		}
		for _, nm := range entryNames {
			// the rules table of the generated parser is built from the name fields of the emitted rules
			if !regexp.MustCompile(`name:\s+` + regexp.QuoteMeta(strconv.Quote(nm)) + `,`).Match(src) {
				fail("entrypoint-lost", fmt.Sprintf("rule %s was named by -alternate-entrypoints but the generated parser has no rule of that name", nm))
				break
			}
		}
		if outFile != "" && outFile != "/dev/full" && len(src) > 40 {
			// regeneration into the file that is already there: whatever it holds - the same parser, a parser of exactly
			// the same size with other content, a shorter or a longer file - the command must leave the complete parser
			// (round 18: a "skip the rewrite when nothing changed" path that wrote at the old end of a same-size file)
			stale := append([]byte{}, src...)
			switch mode := r.Intn(4); mode {
			case 0: // same size, other content
				copy(stale[len(stale)/2:], "/*stale*/")
			case 1: // identical
			case 2: // shorter
				stale = stale[:len(stale)/3]
			case 3: // longer
				stale = append(stale, bytes.Repeat([]byte("// stale tail\n"), 50)...)
			}
			if err := os.WriteFile(outFile, stale, 0o644); err == nil {
				ctx2, cancel2 := context.WithTimeout(context.Background(), 3*timeout)
				cmd2 := exec.CommandContext(ctx2, pigeon, args...)
				cmd2.Env = append(os.Environ(), "PIGEON_VERIF_ASTDUMP=")
				cmd2.Dir = dir
				if stdin {
					cmd2.Stdin = strings.NewReader(it.text)
				}
				err2 := cmd2.Run()
				cancel2()
				again, _ := os.ReadFile(outFile)
				if err2 != nil {
					fail("bad-output", "generating a second time into the existing -o file fails: "+err2.Error())
				} else if !bytes.Equal(again, src) {
					fail("bad-output", fmt.Sprintf("exit 0 but the -o file does not hold the parser after generating into an existing file (%d bytes before, %d bytes expected, %d bytes found)", len(stale), len(src), len(again)))
				}
			}
		}
		if _, err := parser.ParseFile(token.NewFileSet(), "out.go", src, parser.AllErrors|parser.SkipObjectResolution); err != nil {
			// a grammar without an init block has no package clause (doc.go
			// says so): then the output must parse as the rest of a file
			frag := append([]byte("package p\n"), src...)
			if _, err2 := parser.ParseFile(token.NewFileSet(), "out.go", frag, parser.AllErrors|parser.SkipObjectResolution); err2 != nil {
				fail("bad-output", "exit 0 but the output is not Go: "+err.Error())
			}
		}
	}
	return it
}
