module pvharness

go 1.25.0

require github.com/mna/pigeon v0.0.0

replace github.com/mna/pigeon => /repo
