package hosttmpl

import _ "embed"

// ConcSource is the text of conc.go.tmpl (a text/template): the variant of
// the host program that runs groups of cases concurrently on one shared
// grammar value (property C18). It is rendered by pvconcgen and built with
// the race detector.
//
//go:embed conc.go.tmpl
var ConcSource string
