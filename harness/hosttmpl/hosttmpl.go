// Package hosttmpl embeds the host program template that pvhostgen renders
// into every generated host package.
package hosttmpl

import _ "embed"

// Source is the text of host.go.tmpl (a text/template).
//
//go:embed host.go.tmpl
var Source string
