package pvcase

import (
	"fmt"
	"strconv"
	"strings"
)

// Pretty renders the case as PEG-like text for human readers (not part of
// the protocol).
func (c *Case) Pretty() string {
	var b strings.Builder
	o := &c.Opts
	fmt.Fprintf(&b, "case %d  variant %s  fuel %d\n", c.ID, c.Flags.Variant(), c.Fuel)
	fmt.Fprintf(&b, "options: memoize=%v debug=%v stats=%v maxExpr=%d", o.Memoize, o.Debug, o.Stats, o.MaxExpr)
	if o.HasEntry {
		fmt.Fprintf(&b, " entry=%q", o.Entry)
	}
	fmt.Fprintf(&b, " allowInvalid=%v recover=%v filename=%q\n", o.AllowInvalid, o.Recover, o.Filename)
	if len(o.InitState) > 0 {
		fmt.Fprintf(&b, "InitState:   %s\n", prettyStore(o.InitState))
	}
	if len(o.GlobalStore) > 0 {
		fmt.Fprintf(&b, "GlobalStore: %s\n", prettyStore(o.GlobalStore))
	}
	for _, r := range c.Grammar.Rules {
		fmt.Fprintf(&b, "%s", r.Name)
		if r.DisplayName != "" {
			fmt.Fprintf(&b, " %q", r.DisplayName)
		}
		if r.Leader || r.LeftRecursive {
			fmt.Fprintf(&b, " [leader=%v leftRecursive=%v]", r.Leader, r.LeftRecursive)
		}
		fmt.Fprintf(&b, " <- %s\n", prettyExpr(r.Expr, 0))
	}
	for _, bl := range c.Blocks {
		fmt.Fprintf(&b, "  blk %d %c(%s):", bl.ID, bl.Kind, strings.Join(bl.Args, ", "))
		for _, e := range bl.Effects {
			switch e.Op {
			case "sset", "gset":
				fmt.Fprintf(&b, " %s[%q]=%s;", e.Op, e.Key, prettyV(e.V))
			case "sinc", "ginc", "sdel", "gdel":
				fmt.Fprintf(&b, " %s[%q];", e.Op, e.Key)
			default:
				fmt.Fprintf(&b, " %s[%q]+=%d;", e.Op, e.Key, e.N)
			}
		}
		if bl.Panic != nil {
			fmt.Fprintf(&b, " panic(%s) %s;", prettyFault(bl.Panic), prettyWhen(bl.Panic))
		}
		switch bl.Kind {
		case 'a':
			fmt.Fprintf(&b, " return %s", prettyV(bl.RetV))
		case 'p':
			fmt.Fprintf(&b, " return %s", prettyB(bl.RetB))
		}
		if bl.Err != nil {
			fmt.Fprintf(&b, ", error(%q) %s", bl.Err.Msg, prettyWhen(bl.Err))
		}
		b.WriteByte('\n')
	}
	fmt.Fprintf(&b, "input: %q (%d bytes)\n", c.Input, len(c.Input))
	return b.String()
}

func prettyStore(s Store) string {
	var parts []string
	for _, e := range s {
		parts = append(parts, fmt.Sprintf("%q: %s", e.Key, FormatVal(e.Val)))
	}
	return strings.Join(parts, ", ")
}

func prettyFault(f *Fault) string {
	switch f.Kind {
	case 'i':
		return strconv.FormatInt(f.Int, 10)
	case 's':
		return strconv.Quote(f.Msg)
	}
	return "errors.New(" + strconv.Quote(f.Msg) + ")"
}

func prettyWhen(f *Fault) string {
	if f.Always {
		return "always"
	}
	return "at call " + strconv.FormatUint(f.At, 10)
}

func prettyV(v *VExpr) string {
	switch v.Op {
	case "arg":
		return "arg" + strconv.Itoa(v.I)
	case "sget", "gget":
		return v.Op + "[" + strconv.Quote(v.Key) + "]"
	case "const":
		return "(" + FormatVal(v.Val) + ")"
	case "tup":
		var p []string
		for _, k := range v.Kids {
			p = append(p, prettyV(k))
		}
		return "[" + strings.Join(p, ", ") + "]"
	}
	return v.Op
}

func prettyB(b *BExpr) string {
	switch b.Op {
	case "t":
		return "true"
	case "f":
		return "false"
	case "argnil":
		return "arg" + strconv.Itoa(b.I) + "==nil"
	case "argeq":
		return "arg" + strconv.Itoa(b.I) + "==" + strconv.Quote(string(b.H))
	case "sge", "gge":
		return fmt.Sprintf("%s[%q]>=%d", b.Op[:1], b.Key, b.N)
	case "bnot":
		return "!(" + prettyB(b.Kid) + ")"
	}
	return b.Op
}

// prec: 0 choice, 1 sequence, 2 prefix/suffix operand
func prettyExpr(e *Expr, prec int) string {
	wrap := func(s string, p int) string {
		if p < prec {
			return "(" + s + ")"
		}
		return s
	}
	id := "#" + strconv.Itoa(e.ID)
	switch e.Kind {
	case KAct:
		return wrap(prettyExpr(e.Kids[0], 1)+" {blk "+strconv.Itoa(e.Blk)+"}", 0)
	case KAndc:
		return "&{blk " + strconv.Itoa(e.Blk) + "}"
	case KNotc:
		return "!{blk " + strconv.Itoa(e.Blk) + "}"
	case KStc:
		return "#{blk " + strconv.Itoa(e.Blk) + "}"
	case KAnd:
		return "&" + prettyExpr(e.Kids[0], 3)
	case KNot:
		return "!" + prettyExpr(e.Kids[0], 3)
	case KAny:
		return "."
	case KCls:
		s := e.Val
		if s == "" {
			s = "[?" + id + "]"
		}
		return s
	case KCh:
		if len(e.Kids) == 0 {
			return "(/*empty choice*/)"
		}
		var p []string
		for _, k := range e.Kids {
			p = append(p, prettyExpr(k, 1))
		}
		s := strings.Join(p, " / ")
		if len(e.Kids) == 1 {
			s += " /*1 alt*/"
		}
		return wrap(s, 0)
	case KLab:
		return e.Label + ":" + prettyExpr(e.Kids[0], 3)
	case KLit:
		s := strconv.Quote(string(e.Runes))
		if e.IgnoreCase {
			s += "i"
		}
		return s
	case KPlus:
		return prettyExpr(e.Kids[0], 3) + "+"
	case KStar:
		return prettyExpr(e.Kids[0], 3) + "*"
	case KOpt:
		return prettyExpr(e.Kids[0], 3) + "?"
	case KRec:
		return wrap(prettyExpr(e.Kids[0], 1)+" //{"+strings.Join(e.Labels, ",")+"} "+prettyExpr(e.Kids[1], 1), 0)
	case KRef:
		return e.Name
	case KSeq:
		if len(e.Kids) == 0 {
			return "(/*empty seq*/)"
		}
		var p []string
		for _, k := range e.Kids {
			p = append(p, prettyExpr(k, 2))
		}
		s := strings.Join(p, " ")
		if len(e.Kids) == 1 {
			return "(" + s + " /*seq1*/)"
		}
		return wrap(s, 1)
	case KThr:
		return "%{" + e.Label + "}"
	}
	return "?" + e.Kind
}
