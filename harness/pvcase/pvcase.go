// Package pvcase implements the case / result line protocol described in
// /verif/PROTOCOL.md: the data structures of a test case, a parser and a
// serialiser for case lines, and the canonical printers used for result lines.
//
// The package is pure Go and does not depend on pigeon.
package pvcase

import (
	"errors"
	"fmt"
	"sort"
	"strconv"
	"strings"
	"unicode"
)

// Flags selects the behavioural template variant of the generated parser.
type Flags struct {
	Optimize    bool
	GlobalState bool
	LeftRec     bool
	BasicLatin  bool
}

// HasState reports whether the variant has a state store
// (`globalState || !optimize`).
func (f Flags) HasState() bool { return f.GlobalState || !f.Optimize }

// Variant returns the variant name, e.g. "o0g1l0b1".
func (f Flags) Variant() string {
	return "o" + b01(f.Optimize) + "g" + b01(f.GlobalState) + "l" + b01(f.LeftRec) + "b" + b01(f.BasicLatin)
}

// ParseVariant parses a variant name as produced by Variant.
func ParseVariant(s string) (Flags, error) {
	var f Flags
	if len(s) != 8 || s[0] != 'o' || s[2] != 'g' || s[4] != 'l' || s[6] != 'b' {
		return f, fmt.Errorf("bad variant %q", s)
	}
	bs := [4]*bool{&f.Optimize, &f.GlobalState, &f.LeftRec, &f.BasicLatin}
	for i, p := range bs {
		switch s[2*i+1] {
		case '0':
		case '1':
			*p = true
		default:
			return f, fmt.Errorf("bad variant %q", s)
		}
	}
	return f, nil
}

// AllVariants lists the 16 variants in a fixed order.
func AllVariants() []Flags {
	var out []Flags
	for i := 0; i < 16; i++ {
		out = append(out, Flags{Optimize: i&8 != 0, GlobalState: i&4 != 0, LeftRec: i&2 != 0, BasicLatin: i&1 != 0})
	}
	return out
}

// ValKind is the kind of a Val.
type ValKind uint8

// Value kinds.
const (
	VNil ValKind = iota
	VBytes
	VList
	VStr
	VInt
	VBool
	VCl
)

// Val is a protocol value.
type Val struct {
	Kind  ValKind
	Bytes []byte  // VBytes, VStr
	List  []Val   // VList
	Int   int64   // VInt
	Bool  bool    // VBool
	Ns    []int64 // VCl
}

// Constructors.
func NilVal() Val            { return Val{Kind: VNil} }
func BytesVal(b []byte) Val  { return Val{Kind: VBytes, Bytes: append([]byte{}, b...)} }
func StrVal(s string) Val    { return Val{Kind: VStr, Bytes: []byte(s)} }
func IntVal(i int64) Val     { return Val{Kind: VInt, Int: i} }
func BoolVal(b bool) Val     { return Val{Kind: VBool, Bool: b} }
func ListVal(vs ...Val) Val  { return Val{Kind: VList, List: append([]Val{}, vs...)} }
func ClVal(ns ...int64) Val  { return Val{Kind: VCl, Ns: append([]int64{}, ns...)} }
func (v Val) String() string { return FormatVal(v) }

// StoreEntry is one key/value pair of a STORE.
type StoreEntry struct {
	Key string
	Val Val
}

// Store is an ordered list of entries (in a case line: the order of the
// options; in a result line: sorted by key).
type Store []StoreEntry

// Opts are the parser options of a case.
type Opts struct {
	Memoize      bool
	Debug        bool
	Stats        bool
	MaxExpr      uint64
	HasEntry     bool
	Entry        string
	AllowInvalid bool
	Recover      bool
	Filename     string
	InitState    Store
	GlobalStore  Store
}

// DefaultOpts returns the option set that passes no option at all.
func DefaultOpts() Opts { return Opts{Recover: true} }

// Class is a unicode class of a character class matcher together with its
// flattened range table (R16 then R32 entries).
type Class struct {
	Name   string
	Ranges []ClassRange
}

// ClassRange is one (lo, hi, stride) entry of a range table.
type ClassRange struct{ Lo, Hi, Stride uint32 }

// Expression kinds.
const (
	KAct  = "act"
	KAndc = "andc"
	KNotc = "notc"
	KStc  = "stc"
	KAnd  = "and"
	KNot  = "not"
	KAny  = "any"
	KCls  = "cls"
	KCh   = "ch"
	KLab  = "lab"
	KLit  = "lit"
	KPlus = "plus"
	KStar = "star"
	KOpt  = "opt"
	KRec  = "rec"
	KRef  = "ref"
	KSeq  = "seq"
	KThr  = "thr"
)

// Expr is one expression node.
type Expr struct {
	Kind string
	ID   int
	Blk  int     // act, andc, notc, stc
	Kids []*Expr // act/and/not/lab/plus/star/opt: 1; rec: 2 (expr, recoverExpr); ch/seq: n

	// cls
	Val        string
	IgnoreCase bool // cls, lit
	Inverted   bool
	Chars      []rune
	Ranges     []rune // lo, hi pairs
	Classes    []Class
	BL         string // "" (printed "-") or 128 characters '0'/'1'

	// ch
	Line, Col int

	// lab, thr
	Label string
	// rec
	Labels []string

	// lit
	Runes []rune
	Want  string

	// ref
	Name string
}

// Rule is one grammar rule.
type Rule struct {
	Name          string
	DisplayName   string
	Leader        bool
	LeftRecursive bool
	Expr          *Expr
}

// Grammar is a list of rules.
type Grammar struct{ Rules []*Rule }

// VExpr is a value expression of the block language.
type VExpr struct {
	Op   string // text pos arg sget gget const tup calli
	I    int    // arg
	Key  string // sget gget
	Val  Val    // const
	Kids []*VExpr
}

// BExpr is a boolean expression of the block language.
type BExpr struct {
	Op  string // t f argnil argeq sge gge even posge tlen bnot
	I   int
	H   []byte
	Key string
	N   int64
	Kid *BExpr
}

// Effect is a store effect of a block.
type Effect struct {
	Op  string // sset sinc smut sdel gset ginc gmut gdel
	Key string
	V   *VExpr // sset gset
	N   int64  // smut gmut
}

// Fault describes an ERR or a PANIC clause.
type Fault struct {
	Kind   byte   // 'e' (ERR is always 'e'), 's', 'i'
	Msg    string // e, s
	Int    int64  // i
	Always bool
	At     uint64
}

// Fires reports whether the fault fires at invocation number calli.
func (f *Fault) Fires(calli uint64) bool {
	return f != nil && (f.Always || f.At == calli)
}

// Block is one code block.
type Block struct {
	ID      int
	Kind    byte // 'a', 'p', 's'
	Args    []string
	Effects []Effect
	RetV    *VExpr // kind a
	RetB    *BExpr // kind p
	Err     *Fault
	Panic   *Fault
}

// Case is one test case.
type Case struct {
	ID      uint64
	Flags   Flags
	Opts    Opts
	Fuel    uint64
	Grammar Grammar
	Blocks  []*Block
	Input   []byte
}

// ---------------------------------------------------------------- printing

func b01(b bool) string {
	if b {
		return "1"
	}
	return "0"
}

const hexdigits = "0123456789abcdef"

// AppendHex appends the H token for b.
func AppendHex(dst []byte, b []byte) []byte {
	dst = append(dst, 'x')
	for _, c := range b {
		dst = append(dst, hexdigits[c>>4], hexdigits[c&15])
	}
	return dst
}

// AppendHexStr appends the H token for s.
func AppendHexStr(dst []byte, s string) []byte {
	dst = append(dst, 'x')
	for i := 0; i < len(s); i++ {
		c := s[i]
		dst = append(dst, hexdigits[c>>4], hexdigits[c&15])
	}
	return dst
}

// Hex returns the H token for b.
func Hex(b []byte) string { return string(AppendHex(nil, b)) }

// HexStr returns the H token for s.
func HexStr(s string) string { return string(AppendHexStr(nil, s)) }

// Unhex decodes an H token.
func Unhex(tok string) ([]byte, error) {
	if len(tok) == 0 || tok[0] != 'x' || len(tok)%2 != 1 {
		return nil, fmt.Errorf("bad hex token %q", clip(tok))
	}
	out := make([]byte, (len(tok)-1)/2)
	for i := range out {
		h, ok1 := unhexDigit(tok[1+2*i])
		l, ok2 := unhexDigit(tok[2+2*i])
		if !ok1 || !ok2 {
			return nil, fmt.Errorf("bad hex token %q", clip(tok))
		}
		out[i] = h<<4 | l
	}
	return out, nil
}

func unhexDigit(c byte) (byte, bool) {
	switch {
	case c >= '0' && c <= '9':
		return c - '0', true
	case c >= 'a' && c <= 'f':
		return c - 'a' + 10, true
	}
	return 0, false
}

func clip(s string) string {
	if len(s) > 40 {
		return s[:40] + "..."
	}
	return s
}

// AppendVal appends the canonical form of v (no leading space).
func AppendVal(dst []byte, v Val) []byte {
	switch v.Kind {
	case VNil:
		return append(dst, "nil"...)
	case VBytes:
		dst = append(dst, "b "...)
		return AppendHex(dst, v.Bytes)
	case VStr:
		dst = append(dst, "s "...)
		return AppendHex(dst, v.Bytes)
	case VInt:
		dst = append(dst, "i "...)
		return strconv.AppendInt(dst, v.Int, 10)
	case VBool:
		dst = append(dst, "bool "...)
		return append(dst, b01(v.Bool)...)
	case VList:
		dst = append(dst, "l "...)
		dst = strconv.AppendInt(dst, int64(len(v.List)), 10)
		for _, e := range v.List {
			dst = append(dst, ' ')
			dst = AppendVal(dst, e)
		}
		return dst
	case VCl:
		dst = append(dst, "cl "...)
		dst = strconv.AppendInt(dst, int64(len(v.Ns)), 10)
		for _, n := range v.Ns {
			dst = append(dst, ' ')
			dst = strconv.AppendInt(dst, n, 10)
		}
		return dst
	}
	panic("pvcase: bad value kind")
}

// FormatVal returns the canonical form of v.
func FormatVal(v Val) string { return string(AppendVal(nil, v)) }

// AppendStoreOrdered appends a STORE in the order given.
func AppendStoreOrdered(dst []byte, s Store) []byte {
	dst = strconv.AppendInt(dst, int64(len(s)), 10)
	for _, e := range s {
		dst = append(dst, ' ')
		dst = AppendHexStr(dst, e.Key)
		dst = append(dst, ' ')
		dst = AppendVal(dst, e.Val)
	}
	return dst
}

// AppendStore appends a STORE sorted by key (bytewise), as required in
// result lines and trace events.
func AppendStore(dst []byte, s Store) []byte {
	if !sort.SliceIsSorted(s, func(i, j int) bool { return s[i].Key < s[j].Key }) {
		s = append(Store{}, s...)
		sort.SliceStable(s, func(i, j int) bool { return s[i].Key < s[j].Key })
	}
	return AppendStoreOrdered(dst, s)
}

// FormatStore returns the STORE sorted by key (bytewise).
func FormatStore(s Store) string { return string(AppendStore(nil, s)) }

// UnicodeHeader returns the stream header line (without newline) built from
// unicode.CaseRanges.
func UnicodeHeader() string {
	var b []byte
	b = append(b, "unicode "...)
	b = strconv.AppendInt(b, int64(len(unicode.CaseRanges)), 10)
	for _, cr := range unicode.CaseRanges {
		b = append(b, ' ')
		b = strconv.AppendUint(b, uint64(cr.Lo), 10)
		b = append(b, ' ')
		b = strconv.AppendUint(b, uint64(cr.Hi), 10)
		for _, d := range cr.Delta {
			b = append(b, ' ')
			if d == unicode.UpperLower {
				b = append(b, "1114112"...)
			} else {
				b = strconv.AppendInt(b, int64(d), 10)
			}
		}
	}
	return string(b)
}

type printer struct{ b []byte }

func (p *printer) tok(s string) {
	if len(p.b) > 0 {
		p.b = append(p.b, ' ')
	}
	p.b = append(p.b, s...)
}
func (p *printer) n(v uint64)  { p.tok(strconv.FormatUint(v, 10)) }
func (p *printer) i(v int64)   { p.tok(strconv.FormatInt(v, 10)) }
func (p *printer) d(v int)     { p.tok(strconv.Itoa(v)) }
func (p *printer) bit(v bool)  { p.tok(b01(v)) }
func (p *printer) h(s string)  { p.tok(HexStr(s)) }
func (p *printer) hb(s []byte) { p.tok(Hex(s)) }

func (p *printer) val(v Val) {
	if len(p.b) > 0 {
		p.b = append(p.b, ' ')
	}
	p.b = AppendVal(p.b, v)
}

func (p *printer) store(s Store) {
	if len(p.b) > 0 {
		p.b = append(p.b, ' ')
	}
	p.b = AppendStoreOrdered(p.b, s)
}

func (p *printer) expr(e *Expr) {
	p.tok(e.Kind)
	p.d(e.ID)
	switch e.Kind {
	case KAct:
		p.d(e.Blk)
		p.expr(e.Kids[0])
	case KAndc, KNotc, KStc:
		p.d(e.Blk)
	case KAnd, KNot, KPlus, KStar, KOpt:
		p.expr(e.Kids[0])
	case KAny:
	case KCls:
		p.h(e.Val)
		p.bit(e.IgnoreCase)
		p.bit(e.Inverted)
		p.d(len(e.Chars))
		for _, r := range e.Chars {
			p.i(int64(r))
		}
		p.d(len(e.Ranges) / 2)
		for _, r := range e.Ranges {
			p.i(int64(r))
		}
		p.d(len(e.Classes))
		for _, c := range e.Classes {
			p.h(c.Name)
			p.d(len(c.Ranges))
			for _, r := range c.Ranges {
				p.n(uint64(r.Lo))
				p.n(uint64(r.Hi))
				p.n(uint64(r.Stride))
			}
		}
		if e.BL == "" {
			p.tok("-")
		} else {
			p.tok(e.BL)
		}
	case KCh:
		p.d(e.Line)
		p.d(e.Col)
		p.d(len(e.Kids))
		for _, k := range e.Kids {
			p.expr(k)
		}
	case KLab:
		p.h(e.Label)
		p.expr(e.Kids[0])
	case KLit:
		p.d(len(e.Runes))
		for _, r := range e.Runes {
			p.i(int64(r))
		}
		p.bit(e.IgnoreCase)
		p.h(e.Want)
	case KRec:
		p.expr(e.Kids[0])
		p.expr(e.Kids[1])
		p.d(len(e.Labels))
		for _, l := range e.Labels {
			p.h(l)
		}
	case KRef:
		p.h(e.Name)
	case KSeq:
		p.d(len(e.Kids))
		for _, k := range e.Kids {
			p.expr(k)
		}
	case KThr:
		p.h(e.Label)
	default:
		panic("pvcase: bad expression kind " + e.Kind)
	}
}

func (p *printer) vexpr(v *VExpr) {
	p.tok(v.Op)
	switch v.Op {
	case "text", "pos", "calli":
	case "arg":
		p.d(v.I)
	case "sget", "gget":
		p.h(v.Key)
	case "const":
		p.val(v.Val)
	case "tup":
		p.d(len(v.Kids))
		for _, k := range v.Kids {
			p.vexpr(k)
		}
	default:
		panic("pvcase: bad vexpr " + v.Op)
	}
}

func (p *printer) bexpr(b *BExpr) {
	p.tok(b.Op)
	switch b.Op {
	case "t", "f", "even":
	case "posge", "tlen":
		p.i(b.N)
	case "argnil":
		p.d(b.I)
	case "argeq":
		p.d(b.I)
		p.hb(b.H)
	case "sge", "gge":
		p.h(b.Key)
		p.i(b.N)
	case "bnot":
		p.bexpr(b.Kid)
	default:
		panic("pvcase: bad bexpr " + b.Op)
	}
}

func (p *printer) when(f *Fault) {
	if f.Always {
		p.tok("always")
	} else {
		p.tok("at")
		p.n(f.At)
	}
}

func (p *printer) block(b *Block) {
	p.tok("blk")
	p.d(b.ID)
	p.tok(string(rune(b.Kind)))
	p.d(len(b.Args))
	for _, a := range b.Args {
		p.h(a)
	}
	p.d(len(b.Effects))
	for _, e := range b.Effects {
		p.tok(e.Op)
		p.h(e.Key)
		switch e.Op {
		case "sset", "gset":
			p.vexpr(e.V)
		case "sinc", "ginc", "sdel", "gdel":
		case "smut", "gmut":
			p.i(e.N)
		default:
			panic("pvcase: bad effect " + e.Op)
		}
	}
	switch b.Kind {
	case 'a':
		p.vexpr(b.RetV)
	case 'p':
		p.bexpr(b.RetB)
	case 's':
		p.tok("-")
	default:
		panic("pvcase: bad block kind")
	}
	if b.Err == nil {
		p.tok("noerr")
	} else {
		p.tok("err")
		p.h(b.Err.Msg)
		p.when(b.Err)
	}
	if b.Panic == nil {
		p.tok("nopanic")
	} else {
		p.tok("panic")
		p.tok(string(rune(b.Panic.Kind)))
		if b.Panic.Kind == 'i' {
			p.i(b.Panic.Int)
		} else {
			p.h(b.Panic.Msg)
		}
		p.when(b.Panic)
	}
}

// String serialises the case to the exact case line format (no newline).
func (c *Case) String() string {
	p := &printer{b: make([]byte, 0, 1024)}
	p.tok("case")
	p.n(c.ID)
	p.bit(c.Flags.Optimize)
	p.bit(c.Flags.GlobalState)
	p.bit(c.Flags.LeftRec)
	p.bit(c.Flags.BasicLatin)
	o := &c.Opts
	p.bit(o.Memoize)
	p.bit(o.Debug)
	p.bit(o.Stats)
	p.n(o.MaxExpr)
	if o.HasEntry {
		p.h(o.Entry)
	} else {
		p.tok("-")
	}
	p.bit(o.AllowInvalid)
	p.bit(o.Recover)
	p.h(o.Filename)
	p.store(o.InitState)
	p.store(o.GlobalStore)
	p.n(c.Fuel)
	p.d(len(c.Grammar.Rules))
	for _, r := range c.Grammar.Rules {
		p.h(r.Name)
		p.h(r.DisplayName)
		p.bit(r.Leader)
		p.bit(r.LeftRecursive)
		p.expr(r.Expr)
	}
	p.d(len(c.Blocks))
	for _, b := range c.Blocks {
		p.block(b)
	}
	p.hb(c.Input)
	return string(p.b)
}

// ----------------------------------------------------------------- parsing

type reader struct {
	toks []string
	pos  int
	err  error
}

var errShort = errors.New("unexpected end of line")

func (r *reader) fail(err error) {
	if r.err == nil {
		r.err = fmt.Errorf("token %d: %w", r.pos, err)
	}
}

func (r *reader) next() string {
	if r.err != nil {
		return ""
	}
	if r.pos >= len(r.toks) {
		r.fail(errShort)
		return ""
	}
	t := r.toks[r.pos]
	r.pos++
	return t
}

func (r *reader) n() uint64 {
	t := r.next()
	if r.err != nil {
		return 0
	}
	if t == "" || t[0] == '+' || t[0] == '-' {
		r.fail(fmt.Errorf("bad natural %q", clip(t)))
		return 0
	}
	v, err := strconv.ParseUint(t, 10, 64)
	if err != nil {
		r.fail(fmt.Errorf("bad natural %q", clip(t)))
	}
	return v
}

// cnt reads a count and sanity-checks it against the remaining tokens.
func (r *reader) cnt() int {
	v := r.n()
	if r.err != nil {
		return 0
	}
	if v > uint64(len(r.toks)-r.pos) {
		r.fail(fmt.Errorf("count %d exceeds remaining tokens", v))
		return 0
	}
	return int(v)
}

func (r *reader) d() int {
	v := r.n()
	if v > 1<<31 {
		r.fail(fmt.Errorf("number too large: %d", v))
		return 0
	}
	return int(v)
}

func (r *reader) i() int64 {
	t := r.next()
	if r.err != nil {
		return 0
	}
	if t == "" || t[0] == '+' {
		r.fail(fmt.Errorf("bad integer %q", clip(t)))
		return 0
	}
	v, err := strconv.ParseInt(t, 10, 64)
	if err != nil {
		r.fail(fmt.Errorf("bad integer %q", clip(t)))
	}
	return v
}

func (r *reader) rune() rune {
	v := r.i()
	if v < -1<<31 || v > 1<<31-1 {
		r.fail(fmt.Errorf("rune out of range: %d", v))
		return 0
	}
	return rune(v)
}

func (r *reader) bit() bool {
	t := r.next()
	switch t {
	case "0":
		return false
	case "1":
		return true
	}
	if r.err == nil {
		r.fail(fmt.Errorf("bad bit %q", clip(t)))
	}
	return false
}

func (r *reader) hb() []byte {
	t := r.next()
	if r.err != nil {
		return nil
	}
	b, err := Unhex(t)
	if err != nil {
		r.fail(err)
	}
	return b
}

func (r *reader) h() string { return string(r.hb()) }

func (r *reader) val(depth int) Val {
	if depth > 5000 { // values nest as deep as the parse recursed (deep-recovery family: several hundred levels)
		r.fail(errors.New("value nesting too deep"))
		return Val{}
	}
	switch t := r.next(); t {
	case "nil":
		return Val{Kind: VNil}
	case "b":
		return Val{Kind: VBytes, Bytes: r.hb()}
	case "s":
		return Val{Kind: VStr, Bytes: r.hb()}
	case "i":
		return Val{Kind: VInt, Int: r.i()}
	case "bool":
		return Val{Kind: VBool, Bool: r.bit()}
	case "l":
		n := r.cnt()
		v := Val{Kind: VList, List: make([]Val, 0, n)}
		for k := 0; k < n && r.err == nil; k++ {
			v.List = append(v.List, r.val(depth+1))
		}
		return v
	case "cl":
		n := r.cnt()
		v := Val{Kind: VCl, Ns: make([]int64, 0, n)}
		for k := 0; k < n && r.err == nil; k++ {
			v.Ns = append(v.Ns, r.i())
		}
		return v
	default:
		if r.err == nil {
			r.fail(fmt.Errorf("bad value tag %q", clip(t)))
		}
		return Val{}
	}
}

func (r *reader) store() Store {
	n := r.cnt()
	s := make(Store, 0, n)
	for k := 0; k < n && r.err == nil; k++ {
		key := r.h()
		s = append(s, StoreEntry{Key: key, Val: r.val(0)})
	}
	return s
}

func (r *reader) kids(n int, depth int) []*Expr {
	out := make([]*Expr, 0, n)
	for k := 0; k < n && r.err == nil; k++ {
		out = append(out, r.expr(depth+1))
	}
	return out
}

func (r *reader) expr(depth int) *Expr {
	if depth > 2000 {
		r.fail(errors.New("expression nesting too deep"))
		return nil
	}
	e := &Expr{Kind: r.next()}
	if r.err != nil {
		return e
	}
	e.ID = r.d()
	switch e.Kind {
	case KAct:
		e.Blk = r.d()
		e.Kids = r.kids(1, depth)
	case KAndc, KNotc, KStc:
		e.Blk = r.d()
	case KAnd, KNot, KPlus, KStar, KOpt:
		e.Kids = r.kids(1, depth)
	case KAny:
	case KCls:
		e.Val = r.h()
		e.IgnoreCase = r.bit()
		e.Inverted = r.bit()
		n := r.cnt()
		e.Chars = make([]rune, 0, n)
		for k := 0; k < n && r.err == nil; k++ {
			e.Chars = append(e.Chars, r.rune())
		}
		n = r.cnt()
		e.Ranges = make([]rune, 0, 2*n)
		for k := 0; k < 2*n && r.err == nil; k++ {
			e.Ranges = append(e.Ranges, r.rune())
		}
		n = r.cnt()
		e.Classes = make([]Class, 0, n)
		for k := 0; k < n && r.err == nil; k++ {
			c := Class{Name: r.h()}
			m := r.cnt()
			c.Ranges = make([]ClassRange, 0, m)
			for j := 0; j < m && r.err == nil; j++ {
				lo, hi, st := r.n(), r.n(), r.n()
				if lo > unicode.MaxRune || hi > unicode.MaxRune || st > unicode.MaxRune {
					r.fail(errors.New("class range out of bounds"))
				}
				c.Ranges = append(c.Ranges, ClassRange{uint32(lo), uint32(hi), uint32(st)})
			}
			e.Classes = append(e.Classes, c)
		}
		t := r.next()
		if t != "-" {
			if len(t) != 128 || strings.Trim(t, "01") != "" {
				r.fail(fmt.Errorf("bad BL token %q", clip(t)))
			}
			e.BL = t
		}
	case KCh:
		e.Line = r.d()
		e.Col = r.d()
		e.Kids = r.kids(r.cnt(), depth)
	case KLab:
		e.Label = r.h()
		e.Kids = r.kids(1, depth)
	case KLit:
		n := r.cnt()
		e.Runes = make([]rune, 0, n)
		for k := 0; k < n && r.err == nil; k++ {
			e.Runes = append(e.Runes, r.rune())
		}
		e.IgnoreCase = r.bit()
		e.Want = r.h()
	case KRec:
		e.Kids = r.kids(2, depth)
		n := r.cnt()
		e.Labels = make([]string, 0, n)
		for k := 0; k < n && r.err == nil; k++ {
			e.Labels = append(e.Labels, r.h())
		}
	case KRef:
		e.Name = r.h()
	case KSeq:
		e.Kids = r.kids(r.cnt(), depth)
	case KThr:
		e.Label = r.h()
	default:
		r.fail(fmt.Errorf("bad expression kind %q", clip(e.Kind)))
	}
	return e
}

func (r *reader) vexpr(depth int) *VExpr {
	if depth > 200 {
		r.fail(errors.New("vexpr nesting too deep"))
		return nil
	}
	v := &VExpr{Op: r.next()}
	if r.err != nil {
		return v
	}
	switch v.Op {
	case "text", "pos", "calli":
	case "arg":
		v.I = r.d()
	case "sget", "gget":
		v.Key = r.h()
	case "const":
		v.Val = r.val(0)
	case "tup":
		n := r.cnt()
		v.Kids = make([]*VExpr, 0, n)
		for k := 0; k < n && r.err == nil; k++ {
			v.Kids = append(v.Kids, r.vexpr(depth+1))
		}
	default:
		r.fail(fmt.Errorf("bad vexpr %q", clip(v.Op)))
	}
	return v
}

func (r *reader) bexpr(depth int) *BExpr {
	if depth > 200 {
		r.fail(errors.New("bexpr nesting too deep"))
		return nil
	}
	b := &BExpr{Op: r.next()}
	if r.err != nil {
		return b
	}
	switch b.Op {
	case "t", "f", "even":
	case "posge", "tlen":
		b.N = r.i()
	case "argnil":
		b.I = r.d()
	case "argeq":
		b.I = r.d()
		b.H = r.hb()
	case "sge", "gge":
		b.Key = r.h()
		b.N = r.i()
	case "bnot":
		b.Kid = r.bexpr(depth + 1)
	default:
		r.fail(fmt.Errorf("bad bexpr %q", clip(b.Op)))
	}
	return b
}

func (r *reader) when(f *Fault) {
	switch t := r.next(); t {
	case "always":
		f.Always = true
	case "at":
		f.At = r.n()
	default:
		if r.err == nil {
			r.fail(fmt.Errorf("bad WHEN %q", clip(t)))
		}
	}
}

func (r *reader) block() *Block {
	if t := r.next(); t != "blk" && r.err == nil {
		r.fail(fmt.Errorf("expected blk, got %q", clip(t)))
	}
	b := &Block{ID: r.d()}
	k := r.next()
	if r.err != nil {
		return b
	}
	if k != "a" && k != "p" && k != "s" {
		r.fail(fmt.Errorf("bad block kind %q", clip(k)))
		return b
	}
	b.Kind = k[0]
	n := r.cnt()
	b.Args = make([]string, 0, n)
	for i := 0; i < n && r.err == nil; i++ {
		b.Args = append(b.Args, r.h())
	}
	n = r.cnt()
	b.Effects = make([]Effect, 0, n)
	for i := 0; i < n && r.err == nil; i++ {
		e := Effect{Op: r.next()}
		e.Key = r.h()
		switch e.Op {
		case "sset", "gset":
			e.V = r.vexpr(0)
		case "sinc", "ginc", "sdel", "gdel":
		case "smut", "gmut":
			e.N = r.i()
		default:
			if r.err == nil {
				r.fail(fmt.Errorf("bad effect %q", clip(e.Op)))
			}
		}
		b.Effects = append(b.Effects, e)
	}
	switch b.Kind {
	case 'a':
		b.RetV = r.vexpr(0)
	case 'p':
		b.RetB = r.bexpr(0)
	case 's':
		if t := r.next(); t != "-" && r.err == nil {
			r.fail(fmt.Errorf("expected - for state block RET, got %q", clip(t)))
		}
	}
	switch t := r.next(); t {
	case "noerr":
	case "err":
		b.Err = &Fault{Kind: 'e'}
		b.Err.Msg = r.h()
		r.when(b.Err)
	default:
		if r.err == nil {
			r.fail(fmt.Errorf("bad ERR %q", clip(t)))
		}
	}
	switch t := r.next(); t {
	case "nopanic":
	case "panic":
		b.Panic = &Fault{}
		switch k := r.next(); k {
		case "e", "s":
			b.Panic.Kind = k[0]
			b.Panic.Msg = r.h()
		case "i":
			b.Panic.Kind = 'i'
			b.Panic.Int = r.i()
		default:
			if r.err == nil {
				r.fail(fmt.Errorf("bad PAYLOAD %q", clip(k)))
			}
		}
		r.when(b.Panic)
	default:
		if r.err == nil {
			r.fail(fmt.Errorf("bad PANIC %q", clip(t)))
		}
	}
	return b
}

// Parse parses one case line (with or without trailing newline).
func Parse(line string) (*Case, error) {
	line = strings.TrimRight(line, "\r\n")
	r := &reader{toks: strings.Split(line, " ")}
	if t := r.next(); t != "case" {
		return nil, fmt.Errorf("not a case line (starts with %q)", clip(t))
	}
	c := &Case{}
	c.ID = r.n()
	c.Flags.Optimize = r.bit()
	c.Flags.GlobalState = r.bit()
	c.Flags.LeftRec = r.bit()
	c.Flags.BasicLatin = r.bit()
	o := &c.Opts
	o.Memoize = r.bit()
	o.Debug = r.bit()
	o.Stats = r.bit()
	o.MaxExpr = r.n()
	if r.err == nil && r.pos < len(r.toks) && r.toks[r.pos] == "-" {
		r.pos++
	} else {
		o.HasEntry = true
		o.Entry = r.h()
	}
	o.AllowInvalid = r.bit()
	o.Recover = r.bit()
	o.Filename = r.h()
	o.InitState = r.store()
	o.GlobalStore = r.store()
	c.Fuel = r.n()
	n := r.cnt()
	c.Grammar.Rules = make([]*Rule, 0, n)
	for k := 0; k < n && r.err == nil; k++ {
		ru := &Rule{}
		ru.Name = r.h()
		ru.DisplayName = r.h()
		ru.Leader = r.bit()
		ru.LeftRecursive = r.bit()
		ru.Expr = r.expr(0)
		c.Grammar.Rules = append(c.Grammar.Rules, ru)
	}
	n = r.cnt()
	c.Blocks = make([]*Block, 0, n)
	for k := 0; k < n && r.err == nil; k++ {
		c.Blocks = append(c.Blocks, r.block())
	}
	c.Input = r.hb()
	if r.err != nil {
		return nil, r.err
	}
	if r.pos != len(r.toks) {
		return nil, fmt.Errorf("token %d: trailing tokens after input", r.pos)
	}
	return c, nil
}

// ParseID extracts the id of a case line or a result line cheaply
// (second token).
func ParseID(line string) (uint64, error) {
	i := strings.IndexByte(line, ' ')
	if i < 0 {
		return 0, errors.New("no id")
	}
	rest := line[i+1:]
	if j := strings.IndexByte(rest, ' '); j >= 0 {
		rest = rest[:j]
	}
	return strconv.ParseUint(strings.TrimRight(rest, "\r\n"), 10, 64)
}

// LineVariant extracts the variant name of a case line without parsing it
// completely.
func LineVariant(line string) (string, error) {
	f := strings.SplitN(line, " ", 7)
	if len(f) < 7 || f[0] != "case" {
		return "", errors.New("not a case line")
	}
	for _, t := range f[2:6] {
		if t != "0" && t != "1" {
			return "", errors.New("bad flags")
		}
	}
	return "o" + f[2] + "g" + f[3] + "l" + f[4] + "b" + f[5], nil
}

// ------------------------------------------------------------- tree helpers

// Walk calls f for e and all its descendants, in prefix order.
func (e *Expr) Walk(f func(*Expr)) {
	if e == nil {
		return
	}
	f(e)
	for _, k := range e.Kids {
		k.Walk(f)
	}
}

// Clone returns a deep copy of the expression.
func (e *Expr) Clone() *Expr {
	if e == nil {
		return nil
	}
	c := *e
	c.Kids = make([]*Expr, len(e.Kids))
	for i, k := range e.Kids {
		c.Kids[i] = k.Clone()
	}
	if e.Kids == nil {
		c.Kids = nil
	}
	c.Chars = append([]rune(nil), e.Chars...)
	c.Ranges = append([]rune(nil), e.Ranges...)
	c.Runes = append([]rune(nil), e.Runes...)
	c.Labels = append([]string(nil), e.Labels...)
	if e.Classes != nil {
		c.Classes = make([]Class, len(e.Classes))
		for i, cl := range e.Classes {
			c.Classes[i] = Class{Name: cl.Name, Ranges: append([]ClassRange(nil), cl.Ranges...)}
		}
	}
	return &c
}

// Clone returns a deep copy of the case (by re-parsing its serialisation).
func (c *Case) Clone() *Case {
	d, err := Parse(c.String())
	if err != nil {
		panic("pvcase: Clone: " + err.Error())
	}
	return d
}

// BlockByID returns the block table as a map.
func (c *Case) BlockByID() map[int]*Block {
	m := make(map[int]*Block, len(c.Blocks))
	for _, b := range c.Blocks {
		m[b.ID] = b
	}
	return m
}

// NodeCount returns the number of expression nodes of the grammar.
func (c *Case) NodeCount() int {
	n := 0
	for _, r := range c.Grammar.Rules {
		r.Expr.Walk(func(*Expr) { n++ })
	}
	return n
}
