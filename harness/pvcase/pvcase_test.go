package pvcase

import (
	"reflect"
	"strings"
	"testing"
)

func sampleCase() *Case {
	bl := strings.Repeat("01", 64)
	return &Case{
		ID:    42,
		Flags: Flags{Optimize: false, GlobalState: true, LeftRec: false, BasicLatin: true},
		Opts: Opts{
			Memoize: true, Debug: false, Stats: true, MaxExpr: 77, HasEntry: true, Entry: "",
			AllowInvalid: true, Recover: false, Filename: "f.peg",
			InitState:   Store{{"c", ClVal(1, -2)}, {"n", IntVal(0)}},
			GlobalStore: Store{{"g", ListVal(NilVal(), BytesVal([]byte("a\xff")), StrVal("é"), BoolVal(true), ListVal())}},
		},
		Fuel: 127,
		Grammar: Grammar{Rules: []*Rule{
			{Name: "S", DisplayName: "Start", Leader: true, LeftRecursive: true, Expr: &Expr{Kind: KCh, ID: 1, Line: 3, Col: 4, Kids: []*Expr{
				{Kind: KAct, ID: 2, Blk: 1, Kids: []*Expr{{Kind: KSeq, ID: 3, Kids: []*Expr{
					{Kind: KLab, ID: 4, Label: "x", Kids: []*Expr{{Kind: KLit, ID: 5, Runes: []rune{'a', 0xe9}, IgnoreCase: true, Want: `"aÉ"i`}}},
					{Kind: KAndc, ID: 6, Blk: 2},
					{Kind: KNotc, ID: 7, Blk: 3},
					{Kind: KStc, ID: 8, Blk: 4},
					{Kind: KAnd, ID: 9, Kids: []*Expr{{Kind: KAny, ID: 10}}},
					{Kind: KNot, ID: 11, Kids: []*Expr{{Kind: KRef, ID: 12, Name: "A"}}},
				}}}},
				{Kind: KRec, ID: 13, Labels: []string{"L1", "L2"}, Kids: []*Expr{
					{Kind: KPlus, ID: 14, Kids: []*Expr{{Kind: KThr, ID: 15, Label: "L1"}}},
					{Kind: KStar, ID: 16, Kids: []*Expr{{Kind: KOpt, ID: 17, Kids: []*Expr{{Kind: KLit, ID: 18, Want: `""`}}}}},
				}},
				{Kind: KCls, ID: 19, Val: "[a-c\\p{Nd}]i", IgnoreCase: true, Inverted: true,
					Chars: []rune{'_', 0x1F600}, Ranges: []rune{'a', 'c', '0', '9'},
					Classes: []Class{{Name: "Nd", Ranges: []ClassRange{{48, 57, 1}, {1632, 1641, 1}}}, {Name: "Zs"}},
					BL:      bl},
				{Kind: KCls, ID: 20, Val: "[]"},
			}}},
			{Name: "A", Expr: &Expr{Kind: KSeq, ID: 21}},
		}},
		Blocks: []*Block{
			{ID: 1, Kind: 'a', Args: []string{"x", "q"},
				Effects: []Effect{{Op: "sset", Key: "k", V: &VExpr{Op: "text"}}, {Op: "sinc", Key: "n"}, {Op: "smut", Key: "c", N: -5},
					{Op: "gset", Key: "g", V: &VExpr{Op: "const", Val: ClVal()}}, {Op: "ginc", Key: "m"}, {Op: "gmut", Key: "c", N: 7}},
				RetV: &VExpr{Op: "tup", Kids: []*VExpr{{Op: "text"}, {Op: "pos"}, {Op: "arg", I: 1}, {Op: "sget", Key: "k"}, {Op: "gget", Key: "g"}, {Op: "calli"}, {Op: "const", Val: IntVal(-3)}, {Op: "tup"}}},
				Err:  &Fault{Kind: 'e', Msg: "boom", At: 3}, Panic: &Fault{Kind: 'i', Int: -9, Always: true}},
			{ID: 2, Kind: 'p', RetB: &BExpr{Op: "bnot", Kid: &BExpr{Op: "argeq", I: 0, H: []byte("ab")}}, Panic: &Fault{Kind: 'e', Msg: "pe", At: 0}},
			{ID: 3, Kind: 'p', RetB: &BExpr{Op: "sge", Key: "n", N: -1}, Err: &Fault{Kind: 'e', Msg: "", Always: true}, Panic: &Fault{Kind: 's', Msg: "ps", Always: true}},
			{ID: 4, Kind: 's'},
			{ID: 5, Kind: 'p', RetB: &BExpr{Op: "gge", Key: "m", N: 2}},
			{ID: 6, Kind: 'p', RetB: &BExpr{Op: "argnil", I: 2}},
			{ID: 7, Kind: 'p', RetB: &BExpr{Op: "even"}},
			{ID: 8, Kind: 'p', RetB: &BExpr{Op: "t"}},
			{ID: 9, Kind: 'p', RetB: &BExpr{Op: "f"}},
		},
		Input: []byte("a\xc3\xa9\x80"),
	}
}

func TestRoundTrip(t *testing.T) {
	c := sampleCase()
	line := c.String()
	c1, err := Parse(line)
	if err != nil {
		t.Fatalf("parse: %v\n%s", err, line)
	}
	if got := c1.String(); got != line {
		t.Fatalf("string round trip differs:\n%s\n%s", line, got)
	}
	c2, err := Parse(c1.String() + "\n")
	if err != nil {
		t.Fatal(err)
	}
	if !reflect.DeepEqual(c1, c2) {
		t.Fatalf("Parse(String(c)) != c")
	}
	if strings.Contains(line, "  ") || strings.HasPrefix(line, " ") || strings.HasSuffix(line, " ") {
		t.Fatalf("bad spacing in %q", line)
	}
}

func TestEntryDash(t *testing.T) {
	c := sampleCase()
	c.Opts.HasEntry = false
	c1, err := Parse(c.String())
	if err != nil {
		t.Fatal(err)
	}
	if c1.Opts.HasEntry || c1.Opts.Entry != "" {
		t.Fatalf("entry: %+v", c1.Opts)
	}
	c.Opts.HasEntry, c.Opts.Entry = true, "Rule"
	c1, err = Parse(c.String())
	if err != nil || !c1.Opts.HasEntry || c1.Opts.Entry != "Rule" {
		t.Fatalf("entry: %v %+v", err, c1.Opts)
	}
}

func TestParseErrors(t *testing.T) {
	line := sampleCase().String()
	toks := strings.Split(line, " ")
	// every strict prefix must be rejected, never panic
	for i := 0; i < len(toks); i++ {
		if _, err := Parse(strings.Join(toks[:i], " ")); err == nil {
			t.Fatalf("prefix of %d tokens accepted", i)
		}
	}
	if _, err := Parse(line + " x"); err == nil {
		t.Fatal("trailing token accepted")
	}
}

func TestFormat(t *testing.T) {
	v := ListVal(NilVal(), BytesVal([]byte{0, 255}), StrVal("a"), IntVal(-7), BoolVal(false), ClVal(1, 2), ListVal())
	want := "l 7 nil b x00ff s x61 i -7 bool 0 cl 2 1 2 l 0"
	if got := FormatVal(v); got != want {
		t.Fatalf("got %q want %q", got, want)
	}
	s := Store{{"b", IntVal(1)}, {"a", NilVal()}, {"B", IntVal(2)}, {"", IntVal(3)}}
	if got, want := FormatStore(s), "4 x i 3 x42 i 2 x61 nil x62 i 1"; got != want {
		t.Fatalf("got %q want %q", got, want)
	}
	if s[0].Key != "b" {
		t.Fatal("FormatStore must not reorder its argument")
	}
	if got := FormatStore(nil); got != "0" {
		t.Fatalf("got %q", got)
	}
}

func TestHeader(t *testing.T) {
	h := UnicodeHeader()
	f := strings.Fields(h)
	if f[0] != "unicode" || strings.Contains(h, "  ") {
		t.Fatal("bad header")
	}
	var n int
	for _, c := range f[1] {
		n = n*10 + int(c-'0')
	}
	if len(f) != 2+5*n {
		t.Fatalf("header has %d fields for n=%d", len(f), n)
	}
	if !strings.Contains(h, " 1114112 ") {
		t.Fatal("no UpperLower sentinel")
	}
}

func TestVariant(t *testing.T) {
	seen := map[string]bool{}
	for _, f := range AllVariants() {
		g, err := ParseVariant(f.Variant())
		if err != nil || g != f {
			t.Fatalf("%v %v %v", f, g, err)
		}
		seen[f.Variant()] = true
	}
	if len(seen) != 16 {
		t.Fatal("want 16 variants")
	}
	c := sampleCase()
	v, err := LineVariant(c.String())
	if err != nil || v != c.Flags.Variant() {
		t.Fatalf("%q %v", v, err)
	}
}

func TestResultRoundTrip(t *testing.T) {
	lines := []string{
		"res 7 ret l 4 b x616262 b x61 l 3 i 1 i 1 i 0 i 1 0 3 1 4 9 3 1 4 1 x5b625d 1 x6e i 1 1 x67 i 1 0 2 ev 2 0 0 0 0 x 0 0 0 ev 1 1 1 1 0 x616262 1 b x61 1 x6e i 1 1 x67 i 1",
		"res 8 ret nil 1 x313a31 0 1 1 4 0 1 1 1 x226122 0 0 2 x5320313a33 x31 4 x5320313a33 x6e6f 1 0",
		"res 9 panic i -3 2 x61 x61 0 1 1 4 0 1 1 0 0 0 0 0",
		"res 10 panic e x626f6f6d 0 0 1 1 4 0 1 1 0 0 0 0 0",
		"res 11 timeout",
		"res 12 badvariant",
		"res 13 oof",
		"res 14 crash x66617461",
	}
	for _, l := range lines {
		r, err := ParseResult(l)
		if err != nil {
			t.Fatalf("%q: %v", l, err)
		}
		if got := r.String(); got != l {
			t.Fatalf("round trip:\n%s\n%s", l, got)
		}
	}
	if _, err := ParseResult("res 1 ret nil 0 0 1 1 4 0 1 1 0 0 0 0"); err == nil {
		t.Fatal("short line accepted")
	}
}
