package pvcase

import (
	"fmt"
	"strings"
)

// Payload is a panic payload.
type Payload struct {
	Kind byte // 'e', 's', 'i'
	Msg  string
	Int  int64
}

// Choice is one flattened Stats.ChoiceAltCnt entry.
type Choice struct {
	Ident, Alt string
	Count      uint64
}

// Event is one block trace event.
type Event struct {
	Blk, Calli     uint64
	Line, Col, Off uint64
	Text           []byte
	// PtLine, PtCol, PtOff: the parser's own position (p.pt) when the block was called
	PtLine, PtCol, PtOff uint64
	Args                 []Val
	State, Global  Store
}

// Pos is an (offset, line, col) triple in the order of the result line.
type Pos struct{ Off, Line, Col uint64 }

// Result is a parsed result line.
type Result struct {
	ID       uint64
	Status   string // "ret", "panic", "oof", "timeout", "badvariant", "crash"
	CrashMsg string // crash only
	Val      Val    // ret
	Panic    Payload
	Errs     []string
	End      Pos
	ExprCnt  uint64
	MaxFail  Pos
	Expected []string
	State    Store
	Global   Store
	Choices  []Choice
	Trace    []Event
}

// ParseResult parses one result line.
func ParseResult(line string) (*Result, error) {
	line = strings.TrimRight(line, "\r\n")
	r := &reader{toks: strings.Split(line, " ")}
	if t := r.next(); t != "res" {
		return nil, fmt.Errorf("not a result line (starts with %q)", clip(t))
	}
	res := &Result{ID: r.n()}
	res.Status = r.next()
	if r.err != nil {
		return nil, r.err
	}
	switch res.Status {
	case "oof", "timeout", "badvariant":
		if r.pos != len(r.toks) {
			return nil, fmt.Errorf("trailing tokens after %s", res.Status)
		}
		return res, nil
	case "crash":
		res.CrashMsg = r.h()
		if r.err != nil {
			return nil, r.err
		}
		return res, nil
	case "ret":
		res.Val = r.val(0)
	case "panic":
		switch k := r.next(); k {
		case "e", "s":
			res.Panic.Kind = k[0]
			res.Panic.Msg = r.h()
		case "i":
			res.Panic.Kind = 'i'
			res.Panic.Int = r.i()
		default:
			if r.err == nil {
				r.fail(fmt.Errorf("bad PAYLOAD %q", clip(k)))
			}
		}
	default:
		return nil, fmt.Errorf("bad result status %q", clip(res.Status))
	}
	pos := func() Pos { return Pos{r.n(), r.n(), r.n()} }
	n := r.cnt()
	for k := 0; k < n && r.err == nil; k++ {
		res.Errs = append(res.Errs, r.h())
	}
	res.End = pos()
	res.ExprCnt = r.n()
	res.MaxFail = pos()
	n = r.cnt()
	for k := 0; k < n && r.err == nil; k++ {
		res.Expected = append(res.Expected, r.h())
	}
	res.State = r.store()
	res.Global = r.store()
	n = r.cnt()
	for k := 0; k < n && r.err == nil; k++ {
		res.Choices = append(res.Choices, Choice{r.h(), r.h(), r.n()})
	}
	n = r.cnt()
	for k := 0; k < n && r.err == nil; k++ {
		if t := r.next(); t != "ev" && r.err == nil {
			r.fail(fmt.Errorf("expected ev, got %q", clip(t)))
		}
		ev := Event{Blk: r.n(), Calli: r.n(), Line: r.n(), Col: r.n(), Off: r.n(), Text: r.hb()}
		ev.PtLine, ev.PtCol, ev.PtOff = r.n(), r.n(), r.n()
		m := r.cnt()
		for j := 0; j < m && r.err == nil; j++ {
			ev.Args = append(ev.Args, r.val(0))
		}
		ev.State = r.store()
		ev.Global = r.store()
		res.Trace = append(res.Trace, ev)
	}
	if r.err != nil {
		return nil, r.err
	}
	if r.pos != len(r.toks) {
		return nil, fmt.Errorf("token %d: trailing tokens", r.pos)
	}
	return res, nil
}

// String prints the result line in canonical form (stores as given).
func (res *Result) String() string {
	p := &printer{}
	p.tok("res")
	p.n(res.ID)
	p.tok(res.Status)
	switch res.Status {
	case "oof", "timeout", "badvariant":
		return string(p.b)
	case "crash":
		p.h(res.CrashMsg)
		return string(p.b)
	case "ret":
		p.val(res.Val)
	case "panic":
		p.tok(string(rune(res.Panic.Kind)))
		if res.Panic.Kind == 'i' {
			p.i(res.Panic.Int)
		} else {
			p.h(res.Panic.Msg)
		}
	}
	pos := func(x Pos) { p.n(x.Off); p.n(x.Line); p.n(x.Col) }
	p.d(len(res.Errs))
	for _, e := range res.Errs {
		p.h(e)
	}
	pos(res.End)
	p.n(res.ExprCnt)
	pos(res.MaxFail)
	p.d(len(res.Expected))
	for _, e := range res.Expected {
		p.h(e)
	}
	p.store(res.State)
	p.store(res.Global)
	p.d(len(res.Choices))
	for _, c := range res.Choices {
		p.h(c.Ident)
		p.h(c.Alt)
		p.n(c.Count)
	}
	p.d(len(res.Trace))
	for _, ev := range res.Trace {
		p.tok("ev")
		p.n(ev.Blk)
		p.n(ev.Calli)
		p.n(ev.Line)
		p.n(ev.Col)
		p.n(ev.Off)
		p.hb(ev.Text)
		p.n(ev.PtLine)
		p.n(ev.PtCol)
		p.n(ev.PtOff)
		p.d(len(ev.Args))
		for _, a := range ev.Args {
			p.val(a)
		}
		p.store(ev.State)
		p.store(ev.Global)
	}
	return string(p.b)
}
