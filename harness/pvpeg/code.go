package pvpeg

import (
	"fmt"
	"math/rand"
	"strconv"
	"strings"

	"github.com/mna/pigeon/ast"
)

// fillCode replaces the placeholder text of every code block of g.
func fillCode(r *rand.Rand, g *ast.Grammar, cfg Cfg) {
	sites := CodeSites(g)
	if !cfg.Compilable {
		if g.Init != nil {
			g.Init.Val = junkCode(r, cfg, true)
		}
		for _, s := range sites {
			s.Block.Val = junkCode(r, cfg, false)
		}
		return
	}
	usesState := false
	for _, s := range sites {
		if s.Kind == SiteState {
			usesState = true
		}
	}
	if usesState && cfg.OnlyUnder[kState] != 0 {
		// placement-restricted state blocks: nothing is planted and only the state blocks themselves touch
		// c.state (the store must exist wherever a state block is)
		usesState = false
	}
	if usesState {
		// the state store only exists (under -optimize-parser) when a state
		// block survives in the grammar: plant one at the very start of the
		// entry rule, which no optimisation removes
		first := g.Rules[0]
		st := ast.NewStateCodeExpr(ast.Pos{})
		st.Code = ast.NewCodeBlock(ast.Pos{}, "{}")
		seq := ast.NewSeqExpr(ast.Pos{})
		seq.Exprs = []ast.Expression{st, first.Expr}
		if old, ok := first.Expr.(*ast.SeqExpr); ok {
			seq.Exprs = append([]ast.Expression{st}, old.Exprs...)
		}
		first.Expr = seq
		sites = CodeSites(g)
	}
	g.Init.Val = "{\npackage " + cfg.Pkg + "\n" + initExtras(r) + "}"
	for _, s := range sites {
		s.Block.Val = goCode(r, cfg, s, usesState)
	}
}

func initExtras(r *rand.Rand) string {
	switch r.Intn(6) {
	case 4, 5:
		// percent signs in every role (operator, rune, string, format verbs, an escaped percent): the text of the block is
		// data for the generator, never a format (round 20, C04: the init block written through Fprintf as the FORMAT);
		// the init of the package checks what the helper returns
		return "\nfunc pvPercent(n int) string {\n\tif n%2 == 0 && '%' == 37 {\n\t\treturn strconv.Itoa(n) + \"%\" + \"%d %s %v %%\"[0:2]\n\t}\n\treturn \"%!\"\n}\n\nfunc init() {\n\tif got := pvPercent(42); got != \"42%%d\" {\n\t\tpanic(\"init block garbled: \" + got)\n\t}\n}\n"
	case 0:
		return "\n// init block helper with braces { in a comment\nfunc pvInitHelper(s string) string {\n\tif s == \"}\" {\n\t\treturn `{`\n\t}\n\treturn s\n}\n\nvar _ = pvInitHelper\n"
	case 1:
		return "\nvar pvInitTable = map[rune]string{'{': \"open\", '}': \"close\"}\n\nvar _ = pvInitTable\n"
	}
	return ""
}

// junkCode returns a code block (braces included) that only has to satisfy
// the Code rule of the front-end grammar: nested braces, string, rune and
// raw-string literals and comments that contain braces. In the bootstrap
// subset the braces balance byte-wise as well (the bootstrap scanner counts
// them without looking at literals or comments).
func junkCode(r *rand.Rand, cfg Cfg, init bool) string {
	var b strings.Builder
	b.WriteByte('{')
	if init {
		b.WriteString("\npackage main\n")
	}
	junkBody(r, cfg, &b, 2)
	b.WriteByte('}')
	return b.String()
}

var junkWords = []string{"return", "x", "y := 1", "nil", "c.text", "foo(bar)", "a, b", "len(v)", "+", "==", "é", "世界", ";", ",", "err", "//x", "[]any", "%", "&", "'x'", "0x7b", "\"s\"", "`r`", ":", "/"}

func junkBody(r *rand.Rand, cfg Cfg, b *strings.Builder, depth int) {
	n := r.Intn(4)
	sep := func() {
		if r.Intn(4) == 0 {
			b.WriteByte('\n')
		} else {
			b.WriteByte(' ')
		}
	}
	sep()
	for i := 0; i < n; i++ {
		switch x := r.Intn(14); {
		case x < 5:
			w := junkWords[r.Intn(len(junkWords))]
			if w == "//x" {
				w = "// a line comment\n"
			}
			if w == "/" {
				w = "a / b"
			}
			b.WriteString(w)
		case x < 7 && depth > 0:
			b.WriteByte('{')
			junkBody(r, cfg, b, depth-1)
			b.WriteByte('}')
		case x == 7:
			if cfg.BootstrapSubset {
				b.WriteString([]string{`"{}"`, `"{ {} }"`, `""`, `"\""`, `"\\"`}[r.Intn(5)])
			} else {
				b.WriteString([]string{`"{"`, `"}"`, `"}{"`, `"\"{"`, `"\\"`, `"a\\\"}"`, `"'"`, `"// {"`, `"/* {"`}[r.Intn(9)])
			}
		case x == 8:
			if cfg.BootstrapSubset {
				b.WriteString([]string{`'x'`, `'\''`, `'\\'`, `'"'`}[r.Intn(4)])
			} else {
				// every escape form of a rune literal (what follows the backslash may be several characters), alone and
				// followed by a brace in a rune literal of its own
				b.WriteString([]string{`'{'`, `'}'`, `'\''`, `'\\'`, `'"'`, "'`'", `'\x7b'`, `'}'`, `'\033'`, `'\u00a0'`, `'\U0001F600'`, `'\n'`,
					`'\x1b', '{'`, `'\175', '}'`, `'\u007b', '}', '{'`, `'\a', '\''`}[r.Intn(16)])
			}
		case x == 9:
			if cfg.BootstrapSubset {
				b.WriteString("`{ raw }`")
			} else {
				b.WriteString([]string{"`{`", "`}`", "`\"'{\n}}`", "`\\`", "`// {`"}[r.Intn(5)])
			}
		case x == 10:
			if cfg.BootstrapSubset {
				b.WriteString("// balanced {} comment\n")
			} else if cfg.Avoid.CodeSlashSlashBrace && r.Intn(3) == 0 {
				b.WriteString("//{ a comment that starts with a brace\n")
			} else {
				b.WriteString([]string{"// } closing\n", "// { opening\n", "// it's \"quoted\n", "//\n", "// /* {\n", "///{\n"}[r.Intn(6)])
			}
		case x == 11:
			if cfg.BootstrapSubset {
				b.WriteString("/* {} */")
			} else {
				b.WriteString([]string{"/* } */", "/* { */", "/* \n { \n */", "/**/", "/* ' \" ` */", "/* // { */"}[r.Intn(6)])
			}
		default:
			b.WriteString(junkWords[r.Intn(5)])
		}
		sep()
	}
}

// goCode writes a compilable code block for the site s.
func goCode(r *rand.Rand, cfg Cfg, s CodeSite, usesState bool) string {
	c := cfg.Recv
	tag := s.Rule + strconv.Itoa(s.Index)
	ps := strings.Join(s.Params, ", ")
	args := func(lead ...string) string {
		all := append(append([]string{}, lead...), s.Params...)
		return strings.Join(all, ", ")
	}
	p0 := "nil"
	if len(s.Params) > 0 {
		p0 = s.Params[r.Intn(len(s.Params))]
	}
	q := strconv.Quote
	var body string
	switch s.Kind {
	case SiteAction:
		n := 8
		if usesState {
			n = 9
		}
		switch r.Intn(n) {
		case 0:
			body = fmt.Sprintf("return pvJoin(%s), nil", args(q(tag), c+".text"))
		case 1:
			body = fmt.Sprintf("// %s: a comment with an unbalanced brace }\nif len(%s.text) > 0 {\n\treturn pvJoin(%s), nil\n}\nreturn pvJoin(%s), nil",
				tag, c, args(q(tag+"{"), "string("+c+".text)"), args(q(tag+"}")))
		case 2:
			body = fmt.Sprintf("f := func(vs ...any) string { return pvJoin(`%s{`, vs...) } /* } */\nreturn f(%s), nil",
				tag, args(c+".pos.line", c+".pos.col", c+".pos.offset"))
		case 3:
			body = fmt.Sprintf("m := map[string]any{\"{\": '}', \"text\": %s.text}\nreturn pvJoin(%s, m[\"text\"], m[\"{\"], []any{%s}), nil", c, q(tag), ps)
		case 4:
			body = fmt.Sprintf("return %s.text, nil", c)
		case 5:
			body = fmt.Sprintf("return []any{%s}, nil", args("string("+c+".text)"))
		case 6:
			body = fmt.Sprintf("if len(%s.text) > 3 {\n\treturn nil, pvErr(%s)\n}\nreturn pvJoin(%s), nil", c, q(tag), args(q(tag)))
		case 7:
			body = fmt.Sprintf("switch v := any(%s).(type) {\ncase []byte:\n\treturn pvJoin(%s, len(v)), nil\ncase nil:\n\treturn %s, nil\n}\nreturn pvJoin(%s, %s), nil",
				p0, q(tag+"#"), q(tag+"'}'"), q(tag), p0)
		default:
			body = fmt.Sprintf("return pvJoin(%s, %s.state[\"n\"], %s.text), nil", q(tag), c, c)
		}
	case SiteAnd, SiteNot:
		n := 5
		if usesState {
			n = 6
		}
		switch r.Intn(n) {
		case 0:
			body = "return true, nil"
		case 1:
			body = "return false, nil"
		case 2:
			body = fmt.Sprintf("return pvTruthy(%s), nil", p0)
		case 3:
			body = fmt.Sprintf("return pvLen(%s)%%2 == 0, nil", p0)
		case 4:
			body = fmt.Sprintf("// predicate %s {\nif pvTruthy(%s) || \"{\" == `}` {\n\treturn true, nil\n}\nreturn false, nil", tag, p0)
		default:
			body = fmt.Sprintf("return pvInt(%s.state[\"n\"]) < 3, nil", c)
		}
	case SiteState:
		switch r.Intn(3) {
		case 0:
			body = fmt.Sprintf("%s.state[\"n\"] = pvInt(%s.state[\"n\"]) + 1\nreturn nil", c, c)
		case 1:
			body = fmt.Sprintf("%s.state[%s] = pvShow(%s)\nreturn nil", c, q("last"), p0)
		default:
			body = fmt.Sprintf("if _, ok := %s.state[\"n\"]; !ok { // {\n\t%s.state[\"n\"] = 0\n}\nreturn nil", c, c)
		}
	}
	switch r.Intn(3) {
	case 0:
		return "{ " + strings.ReplaceAll(body, "\n", "\n\t") + " }"
	case 1:
		return "{\n" + body + "\n}"
	}
	return "{\n\t" + strings.ReplaceAll(body, "\n", "\n\t") + "\n}"
}

// SupportFile returns the Go source of the helper file that compilable code
// blocks call into, for package pkg. inputs are embedded: PvRun parses each of
// them with the generated Parse (under an expression budget of 200000) and
// prints one deterministic line per input: "in=.. ok val=..", "in=.. fail
// val=.. err=.." or "in=.. budget".
func SupportFile(pkg string, inputs []string) string { return SupportFileOpts(pkg, inputs, false) }

// SupportFileOpts is SupportFile with the inputs parsed under AllowInvalidUTF8(true) when allowInvalid is set.
func SupportFileOpts(pkg string, inputs []string, allowInvalid bool) string {
	var b strings.Builder
	b.WriteString("// Code generated by pve2e; DO NOT EDIT.\n\npackage " + pkg + "\n\n")
	b.WriteString(`import (
	"errors"
	"fmt"
	"io"
	"sort"
	"strconv"
	"strings"
)

// pvShow renders a parse value deterministically.
func pvShow(v any) string {
	switch v := v.(type) {
	case nil:
		return "nil"
	case []byte:
		return "b" + strconv.Quote(string(v))
	case string:
		return "s" + strconv.Quote(v)
	case []any:
		parts := make([]string, len(v))
		for i, x := range v {
			parts[i] = pvShow(x)
		}
		return "[" + strings.Join(parts, " ") + "]"
	case map[string]any:
		keys := make([]string, 0, len(v))
		for k := range v {
			keys = append(keys, k)
		}
		sort.Strings(keys)
		parts := make([]string, len(keys))
		for i, k := range keys {
			parts[i] = strconv.Quote(k) + ":" + pvShow(v[k])
		}
		return "{" + strings.Join(parts, " ") + "}"
	case error:
		return "e" + strconv.Quote(v.Error())
	}
	return fmt.Sprintf("%T(%v)", v, v)
}

func pvJoin(tag string, vs ...any) string {
	parts := make([]string, len(vs))
	for i, v := range vs {
		parts[i] = pvShow(v)
	}
	return tag + "(" + strings.Join(parts, " ") + ")"
}

func pvErr(tag string) error { return errors.New("pvErr " + tag) }

func pvTruthy(v any) bool {
	switch v := v.(type) {
	case nil:
		return false
	case []byte:
		return len(v) > 0
	case []any:
		return len(v) > 0
	case string:
		return v != ""
	}
	return true
}

func pvLen(v any) int {
	switch v := v.(type) {
	case []byte:
		return len(v)
	case []any:
		return len(v)
	case string:
		return len(v)
	}
	return 0
}

func pvInt(v any) int {
	i, _ := v.(int)
	return i
}

`)
	b.WriteString("const pvBudget = 200000\n\nvar pvInputs = []string{\n")
	for _, in := range inputs {
		b.WriteString("\t" + strconv.Quote(in) + ",\n")
	}
	b.WriteString(`}

// PvRun parses every embedded input and prints one line per input.
func PvRun(w io.Writer) {
	for _, in := range pvInputs {
		// the expression budget turns exponential backtracking into a
		// quick, recognisable outcome
		v, err := Parse("", []byte(in), MaxExpressions(pvBudget)PVEXTRAOPTS)
		if err != nil && strings.Contains(err.Error(), "max number of expressions parsed") {
			fmt.Fprintf(w, "in=%q budget\n", in)
			continue
		}
		if err != nil {
			fmt.Fprintf(w, "in=%q fail val=%s err=%q\n", in, pvShow(v), err.Error())
			continue
		}
		fmt.Fprintf(w, "in=%q ok val=%s\n", in, pvShow(v))
	}
}
`)
	extra := ""
	if allowInvalid {
		extra = ", AllowInvalidUTF8(true)"
	}
	return strings.Replace(b.String(), "PVEXTRAOPTS", extra, 1)
}
