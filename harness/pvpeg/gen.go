package pvpeg

import (
	"fmt"
	"math/rand"
	"strings"
	"unicode"

	"github.com/mna/pigeon/ast"
)

// Cfg selects the class of grammars that Gen draws from.
type Cfg struct {
	// WellFormed: no left recursion (not even through predicates, optional
	// prefixes, throw/recover), no star/plus over a possibly-nullable body,
	// no member-less classes, no U+FFFD-only literals. The analysis is the
	// one of CheckWF, a superset of both the runtime's behaviour and of
	// pigeon's own (incomplete) left-recursion detection.
	WellFormed bool
	// BootstrapSubset: only what bootstrap/parser.go accepts (no recovery,
	// throw, state or code predicates, no Go keywords / predeclared names as
	// identifiers, code blocks whose braces balance byte-wise).
	BootstrapSubset bool
	// Compilable: the code blocks are real Go (see code.go); implies
	// UniqueLabels within a rule and an init block with a package clause.
	Compilable bool
	// UniqueLabels: every label name is unique across the whole grammar.
	UniqueLabels bool
	NoThrow      bool // no throw and no recovery expressions
	NoState      bool // no #{...} blocks
	NoCodePreds  bool // no &{...} / !{...}
	Utf8Heavy    bool // every other class lists U+FFFD among its members
	// LeftRec appends the dedicated left-recursive shape
	//	L <- L op X {..} / X      X <- [0-9]+
	// and references L from the first rule (to be used with
	// -support-left-recursion only).
	LeftRec bool

	MaxRules int    // default 6
	MaxDepth int    // default 5
	Recv     string // receiver name used by compilable code blocks (default "c")
	Pkg      string // package clause of the compilable init block (default "main")

	// OnlyUnder restricts where a kind of expression may occur: kind k (a K* constant) is only drawn below an
	// ancestor (within the same rule) whose kind is in the bit set OnlyUnder[k]. It gives the grammars in which a
	// feature is present ONLY in one context (state blocks only inside predicates, actions only under a
	// repetition, ...): what the builder emits is decided per feature seen, so such grammars exercise its guards.
	OnlyUnder map[int]uint32

	Avoid Avoid // known-defect avoidance that is lifted
}

// exported kind constants for OnlyUnder
const (
	KChoice, KSeq, KRecovery, KAction, KLabeled, KAnd, KNot, KOpt, KStar, KPlus = kChoice, kSeq, kRecovery, kAction, kLabeled, kAnd, kNot, kOpt, kStar, kPlus
	KThrow, KRef, KState, KAndCode, KNotCode                                    = kThrow, kRef, kState, kAndCode, kNotCode
)

func (c Cfg) withDefaults() Cfg {
	if c.MaxRules <= 0 {
		c.MaxRules = 6
	}
	if c.MaxDepth <= 0 {
		c.MaxDepth = 5
	}
	if c.Recv == "" {
		c.Recv = "c"
	}
	if c.Pkg == "" {
		c.Pkg = "main"
	}
	if c.Compilable {
		c.UniqueLabels = true
	}
	if c.BootstrapSubset {
		c.NoThrow, c.NoState, c.NoCodePreds, c.LeftRec = true, true, true, false
	}
	return c
}

// Reserved lists the identifiers that pigeon refuses as labels
// (/repo/reserved_words.go) and that the bootstrap scanner refuses anywhere
// (/repo/bootstrap/token.go): the Go keywords and predeclared identifiers.
var Reserved = map[string]bool{}

func init() {
	for _, w := range strings.Fields(`break case chan const continue default defer else fallthrough for func
		goto go if import interface map package range return select struct switch type var
		any bool byte comparable complex64 complex128 error float32 float64 int8 int16 int32 int64 int
		rune string uint8 uint16 uint32 uint64 uintptr uint true false iota nil append cap clear close
		complex copy delete imag len make max min new panic println print real recover`) {
		Reserved[w] = true
	}
}

var ruleNamePool = []string{
	"A", "B", "C", "D", "E", "S", "T", "X", "Y", "Expr", "Term", "Factor", "Atom", "Item", "List",
	"Start", "start", "rule", "rule_x", "_r", "__", "R_", "ws", "Ident", "Number", "Str", "EOL", "EOF_",
	"Ünï", "Δ", "λx", "名前", "Ж", "ß", "ruleWithAVeryLongNameIndeedSoLongThatItWraps",
	"i", "ii", "ix", "p", "pL", "x2d", "u00e9", "n", "t", "A1b", "R2D2x", "Tok1", "N10", "v2",
}

var labelPool = []string{
	"a", "b", "v", "x", "y", "val", "lhs", "rhs", "first", "rest", "head", "tail", "name", "e", "op",
	"label", "_", "_x", "é", "αβ", "値", "i", "ix", "it", "id", "n0", "v1", "xs", "p", "pL",
}

var failLabelPool = []string{"ErrA", "ErrB", "errx", "l1", "l2", "Oops", "E_missing", "Ωfail", "any", "error", "i"}

var reservedRulePool = []string{"any", "error", "string", "len", "map", "type", "nil", "go", "print"}

// interesting code points
var runePool = []rune{
	0, 1, 7, 8, 9, 10, 11, 12, 13, 27, 31, ' ', '!', '"', '#', '$', '%', '&', '\'', '(', ')', '*', '+', ',', '-', '.', '/',
	'0', '9', ':', ';', '<', '=', '>', '?', '@', 'A', 'Z', '[', '\\', ']', '^', '_', '`', 'a', 'i', 'p', 'x', 'z', '{', '|', '}', '~', 0x7f,
	0x80, 0x85, 0xa0, 0xe9, 0xff, 0x100, 0x17f, 0x130, 0x131, 0x212a, 0x3b1, 0x394, 0x416, 0x5d0, 0x7ff, 0x800, 0x2028, 0x4e16,
	0xd7ff, 0xe000, 0xfeff, 0xfffd, 0xfffe, 0xffff, 0x10000, 0x1f600, 0x10ffff,
}

type genState struct {
	inClass bool // drawing the members of a character class
	r       *rand.Rand
	cfg     Cfg
	names   []string // rule names
	cons    []bool   // planned: rule i always consumes (is not nullable')
	cur     int      // rule being generated
	labelN  int
	labels  map[string]bool // labels used so far in the current rule
	flabel  []string        // failure labels of the grammar
	nodes   int
}

// Gen draws one grammar. The result is in the normal form of the pigeon
// front-end (Normalize(g) is the identity), every node has the zero position.
func Gen(r *rand.Rand, cfg Cfg) *ast.Grammar {
	cfg = cfg.withDefaults()
	for try := 0; ; try++ {
		g := genOnce(r, cfg, try)
		if cfg.WellFormed {
			if err := CheckWF(g); err != nil {
				continue
			}
		}
		if cfg.LeftRec {
			addLeftRec(r, cfg, g)
		}
		if cfg.Compilable && !cfg.Avoid.OptMerge {
			repairOptimizerShapes(g)
		}
		if cfg.Compilable && !cfg.Avoid.OptDupLabels {
			repairDoubleInlining(g)
		}
		fillCode(r, g, cfg)
		return g
	}
}

func genOnce(r *rand.Rand, cfg Cfg, try int) *ast.Grammar {
	s := &genState{r: r, cfg: cfg}
	n := 1 + r.Intn(cfg.MaxRules)
	if m := 1 + r.Intn(cfg.MaxRules); m < n && r.Intn(4) > 0 {
		n = m // skew towards few rules: the front-end is slow (~15 us per byte)
	}
	if try > 20 {
		n = 1 + r.Intn(2)
	}
	s.pickNames(n)
	s.cons = make([]bool, n)
	for i := range s.cons {
		s.cons[i] = r.Intn(100) < 85
	}
	nf := 1 + r.Intn(3)
	for i := 0; i < nf; i++ {
		s.flabel = append(s.flabel, failLabelPool[r.Intn(len(failLabelPool))])
	}
	g := ast.NewGrammar(ast.Pos{})
	g.Rules = make([]*ast.Rule, n)
	// rules are generated last to first: a head-position reference may only
	// go forward, so its target (and its nullability) is already known
	for i := n - 1; i >= 0; i-- {
		s.cur = i
		if !cfg.UniqueLabels {
			s.labels = map[string]bool{}
		} else if s.labels == nil {
			s.labels = map[string]bool{}
		}
		rule := ast.NewRule(ast.Pos{}, ast.NewIdentifier(ast.Pos{}, s.names[i]))
		if r.Intn(4) == 0 {
			dv := s.displayVal()
			if n > 1 && r.Intn(3) == 0 {
				// a display name that IS the identifier of another rule: display names are texts for messages, never a
				// way to refer to a rule (round 22: -alternate-entrypoints resolved through display names)
				dv = s.names[(i+1+r.Intn(n-1))%n]
			}
			rule.DisplayName = ast.NewStringLit(ast.Pos{}, SpellLit(r, dv, 0, cfg.Avoid))
		}
		depth := cfg.MaxDepth
		if try > 20 {
			depth = 2
		}
		s.nodes = 0
		rule.Expr = s.expr(ctx{depth: depth, head: true, consume: cfg.WellFormed && s.cons[i], top: true})
		g.Rules[i] = rule
	}
	if cfg.Compilable || r.Intn(2) == 0 {
		g.Init = ast.NewCodeBlock(ast.Pos{}, "{}")
	}
	return g
}

func (s *genState) displayVal() string {
	vals := []string{"a rule", "x", "", "friendly name", "it's", `say "hi"`, "tab\there", "bäck`tick", "{", "日本", "i"}
	return vals[s.r.Intn(len(vals))]
}

func (s *genState) pickNames(n int) {
	used := map[string]bool{}
	for len(s.names) < n {
		var nm string
		switch {
		case s.cfg.Avoid.ReservedRuleNames && !s.cfg.BootstrapSubset && !s.cfg.Compilable && s.r.Intn(12) == 0:
			nm = reservedRulePool[s.r.Intn(len(reservedRulePool))]
		case len(s.names) > 0 && s.r.Intn(4) == 0:
			// a name that differs from an existing one only by a separator-like tail (`Tok1` / `Tok1_`): the methods of the
			// two rules (`on<Rule><index>`) must still be different methods
			nm = s.names[s.r.Intn(len(s.names))] + []string{"_", "_", "_1", "x", "1_"}[s.r.Intn(5)]
		default:
			nm = ruleNamePool[s.r.Intn(len(ruleNamePool))]
			if s.r.Intn(5) == 0 {
				nm += []string{"_", "x", "Rule", "é", "0a", "7z"}[s.r.Intn(6)]
			}
		}
		if used[nm] || (Reserved[nm] && !(s.cfg.Avoid.ReservedRuleNames && !s.cfg.BootstrapSubset)) {
			continue
		}
		// D4: no name may be another name followed by digits
		clash := false
		for _, o := range s.names {
			if digitSuffixOf(o, nm) || digitSuffixOf(nm, o) {
				clash = true
			}
		}
		if clash {
			continue
		}
		used[nm] = true
		s.names = append(s.names, nm)
	}
}

// digitSuffixOf reports whether long is short followed by one or more digits.
func digitSuffixOf(short, long string) bool {
	if len(long) <= len(short) || !strings.HasPrefix(long, short) {
		return false
	}
	for _, c := range long[len(short):] {
		if !unicode.IsDigit(c) {
			return false
		}
	}
	return true
}

// ctx is the generation context of one expression.
type ctx struct {
	depth   int    // remaining nesting depth
	head    bool   // may be entered at the position where the rule was entered
	consume bool   // must not be nullable'
	noCalls bool   // while head: neither rule references nor throws (recovery expressions)
	top     bool   // the rule's top expression
	anc     uint32 // kinds of the ancestors within the rule (bit k)
}

func (s *genState) newLabel() *ast.Identifier {
	for {
		var nm string
		if s.cfg.Compilable {
			nm = "l" + string(rune('a'+s.r.Intn(26)))
			if s.r.Intn(3) == 0 {
				nm += []string{"val", "xs", "_", "é", "Q"}[s.r.Intn(5)]
			}
		} else {
			nm = labelPool[s.r.Intn(len(labelPool))]
		}
		if s.cfg.UniqueLabels {
			if s.labels[nm] {
				s.labelN++
				nm = fmt.Sprintf("%s%d", nm, s.labelN)
			}
			if s.labels[nm] {
				continue
			}
			s.labels[nm] = true
		}
		if Reserved[nm] {
			continue
		}
		return ast.NewIdentifier(ast.Pos{}, nm)
	}
}

const (
	kChoice = iota
	kSeq
	kRecovery
	kAction
	kLabeled
	kAnd
	kNot
	kOpt
	kStar
	kPlus
	kThrow
	kRef
	kState
	kAndCode
	kNotCode
	kLit
	kClass
	kAny
	nKinds
)

// KindNames names the 18 expression kinds (index = the k* constants).
var KindNames = [nKinds]string{"ChoiceExpr", "SeqExpr", "RecoveryExpr", "ActionExpr", "LabeledExpr", "AndExpr", "NotExpr",
	"ZeroOrOneExpr", "ZeroOrMoreExpr", "OneOrMoreExpr", "ThrowExpr", "RuleRefExpr", "StateCodeExpr", "AndCodeExpr",
	"NotCodeExpr", "LitMatcher", "CharClassMatcher", "AnyMatcher"}

func (s *genState) allowed(k int, c ctx) bool {
	cfg := s.cfg
	switch k {
	case kRecovery, kThrow:
		if cfg.NoThrow {
			return false
		}
	case kState:
		if cfg.NoState {
			return false
		}
	case kAndCode, kNotCode:
		if cfg.NoCodePreds {
			return false
		}
	}
	if m, ok := cfg.OnlyUnder[k]; ok && c.anc&m == 0 {
		return false
	}
	if c.depth <= 0 && k <= kPlus {
		return false
	}
	if c.consume {
		switch k {
		case kAnd, kNot, kOpt, kStar, kThrow, kState, kAndCode, kNotCode:
			return false
		}
	}
	if cfg.WellFormed && c.head && c.noCalls && (k == kThrow || k == kRef) {
		return false
	}
	if k == kRef && cfg.WellFormed && len(s.refTargets(c)) == 0 {
		return false
	}
	return true
}

var kindWeight = [nKinds]int{kChoice: 10, kSeq: 16, kRecovery: 4, kAction: 8, kLabeled: 9, kAnd: 4, kNot: 4, kOpt: 6, kStar: 6,
	kPlus: 6, kThrow: 3, kRef: 14, kState: 3, kAndCode: 3, kNotCode: 3, kLit: 14, kClass: 10, kAny: 4}

var depthFactor = []int{100, 90, 60, 40, 30, 25}

// refTargets lists the rule indices that may be referenced in context c.
func (s *genState) refTargets(c ctx) []int {
	var out []int
	for j := range s.names {
		if s.cfg.WellFormed {
			if c.head && j <= s.cur {
				continue
			}
			if c.consume && !s.cons[j] {
				continue
			}
		}
		out = append(out, j)
	}
	return out
}

func (s *genState) expr(c ctx) ast.Expression {
	s.nodes++
	if s.nodes > 14 {
		c.depth = 0
	}
	total := 0
	var w [nKinds]int
	for k := 0; k < nKinds; k++ {
		if s.allowed(k, c) {
			w[k] = kindWeight[k]
			if k <= kPlus {
				// composite kinds get rarer with depth: every level of
				// parentheses doubles the parse time of the front-end
				w[k] = w[k] * depthFactor[min(s.cfg.MaxDepth-c.depth, len(depthFactor)-1)] / 100
			}
			if c.top && (k == kChoice || k == kSeq || k == kAction) {
				w[k] *= 3
			}
			if m, ok := s.cfg.OnlyUnder[k]; ok && c.anc&m != 0 {
				w[k] *= 6 // a placement-restricted kind, where it is allowed
			}
			for _, m := range s.cfg.OnlyUnder {
				if m&(1<<uint(k)) != 0 && w[k] > 0 {
					w[k] = w[k]*3 + 4 // ... and the contexts that allow it
					break
				}
			}
			total += w[k]
		}
	}
	pick := s.r.Intn(total)
	k := 0
	for ; k < nKinds; k++ {
		if pick < w[k] {
			break
		}
		pick -= w[k]
	}
	anc := c.anc | 1<<uint(k)
	sub := ctx{anc: anc, depth: c.depth - 1, head: c.head, consume: c.consume, noCalls: c.noCalls}
	switch k {
	case kChoice:
		e := ast.NewChoiceExpr(ast.Pos{})
		n := 2 + s.r.Intn(3)
		for i := 0; i < n; i++ {
			e.Alternatives = append(e.Alternatives, s.expr(sub))
		}
		if w[kRecovery] > 0 && c.depth >= 3 && s.r.Intn(6) == 0 {
			// a recovery operator as a NON-LAST alternative: when its guarded expression fails without a listed throw the
			// choice backtracks to the alternatives behind it
			rc := ast.NewRecoveryExpr(ast.Pos{})
			rc.Expr = e.Alternatives[0]
			body := s.expr(ctx{anc: anc, depth: c.depth - 2, head: true, consume: true, noCalls: true})
			st := ast.NewZeroOrMoreExpr(ast.Pos{})
			st.Expr = body
			rc.RecoverExpr = st
			rc.Labels = append(rc.Labels, ast.FailureLabel(s.flabel[s.r.Intn(len(s.flabel))]))
			e.Alternatives[0] = rc
		}
		return e
	case kSeq:
		e := ast.NewSeqExpr(ast.Pos{})
		n := 2 + s.r.Intn(4)
		must := -1
		if c.consume {
			must = s.r.Intn(n)
		}
		head := c.head
		for i := 0; i < n; i++ {
			x := s.expr(ctx{anc: anc, depth: c.depth - 1, head: head, consume: i == must, noCalls: c.noCalls})
			e.Exprs = append(e.Exprs, x)
			if head && !s.plannedNullable(x) {
				head = false
			}
		}
		if len(s.flabel) > 0 && !s.cfg.NoThrow && n >= 2 && s.r.Intn(4) == 0 {
			// a throw in a NON-final position of a sequence: when it is recovered the parse goes on behind it - the items there,
			// their code blocks and their labels are as live as any (round 23: no methods emitted for what follows a throw)
			t := ast.NewThrowExpr(ast.Pos{})
			t.Label = s.flabel[s.r.Intn(len(s.flabel))]
			at := 1 + s.r.Intn(n-1)
			e.Exprs = append(e.Exprs[:at:at], append([]ast.Expression{t}, e.Exprs[at:]...)...)
			if w[kAndCode] > 0 && s.r.Intn(2) == 0 {
				// ... and a code block of the sequence itself behind it
				cp := ast.NewAndCodeExpr(ast.Pos{})
				cp.Code = ast.NewCodeBlock(ast.Pos{}, "{}")
				e.Exprs = append(e.Exprs, cp)
			}
		}
		return e
	case kRecovery:
		e := ast.NewRecoveryExpr(ast.Pos{})
		e.Expr = s.expr(sub)
		e.RecoverExpr = s.expr(ctx{anc: anc, depth: c.depth - 1, head: true, consume: c.consume, noCalls: true})
		if c.depth >= 2 && s.r.Intn(4) == 0 {
			// a recovery expression that cannot fail - the usual "skip to the next synchronisation point" handler: r*, r?.
			// Whether the OPERATOR can fail is another matter: the guarded expression fails without a listed throw and the
			// enclosing choice has to go on with its next alternative (round 21, C14: alternatives behind such an operator
			// pruned by the generator)
			body := s.expr(ctx{anc: anc, depth: c.depth - 2, head: true, consume: true, noCalls: true})
			if s.r.Intn(2) == 0 {
				st := ast.NewZeroOrMoreExpr(ast.Pos{})
				st.Expr = body
				e.RecoverExpr = st
			} else {
				op := ast.NewZeroOrOneExpr(ast.Pos{})
				op.Expr = body
				e.RecoverExpr = op
			}
		}
		if w[kAction] > 0 && w[kLabeled] > 0 && c.depth >= 2 && s.r.Intn(3) == 0 {
			// the generator compiles the guarded and the recovery expression in ONE label list: a code block at the top
			// of the recovery expression receives the labels at the top of the guarded one (round 18, C04)
			l := ast.NewLabeledExpr(ast.Pos{})
			l.Label = s.newLabel()
			l.Expr = e.Expr
			e.Expr = l
			a := ast.NewActionExpr(ast.Pos{})
			a.Expr = e.RecoverExpr
			a.Code = ast.NewCodeBlock(ast.Pos{}, "{}")
			e.RecoverExpr = a
		}
		n := 1 + s.r.Intn(2)
		for i := 0; i < n; i++ {
			e.Labels = append(e.Labels, ast.FailureLabel(s.flabel[s.r.Intn(len(s.flabel))]))
		}
		return e
	case kAction:
		e := ast.NewActionExpr(ast.Pos{})
		e.Expr = s.expr(sub)
		e.Code = ast.NewCodeBlock(ast.Pos{}, "{}")
		return e
	case kLabeled:
		e := ast.NewLabeledExpr(ast.Pos{})
		e.Label = s.newLabel()
		e.Expr = s.expr(sub)
		return e
	case kAnd:
		e := ast.NewAndExpr(ast.Pos{})
		e.Expr = s.expr(ctx{anc: anc, depth: c.depth - 1, head: c.head, noCalls: c.noCalls})
		return e
	case kNot:
		e := ast.NewNotExpr(ast.Pos{})
		e.Expr = s.expr(ctx{anc: anc, depth: c.depth - 1, head: c.head, noCalls: c.noCalls})
		return e
	case kOpt:
		e := ast.NewZeroOrOneExpr(ast.Pos{})
		e.Expr = s.expr(ctx{anc: anc, depth: c.depth - 1, head: c.head, noCalls: c.noCalls})
		return e
	case kStar:
		e := ast.NewZeroOrMoreExpr(ast.Pos{})
		e.Expr = s.expr(ctx{anc: anc, depth: c.depth - 1, head: c.head, consume: s.cfg.WellFormed, noCalls: c.noCalls})
		return e
	case kPlus:
		e := ast.NewOneOrMoreExpr(ast.Pos{})
		e.Expr = s.expr(ctx{anc: anc, depth: c.depth - 1, head: c.head, consume: s.cfg.WellFormed || c.consume, noCalls: c.noCalls})
		return e
	case kThrow:
		e := ast.NewThrowExpr(ast.Pos{})
		e.Label = s.flabel[s.r.Intn(len(s.flabel))]
		return e
	case kRef:
		ts := s.refTargets(c)
		if len(ts) == 0 {
			ts = []int{s.r.Intn(len(s.names))}
		}
		e := ast.NewRuleRefExpr(ast.Pos{})
		e.Name = ast.NewIdentifier(ast.Pos{}, s.names[ts[s.r.Intn(len(ts))]])
		return e
	case kState:
		e := ast.NewStateCodeExpr(ast.Pos{})
		e.Code = ast.NewCodeBlock(ast.Pos{}, "{}")
		return e
	case kAndCode:
		e := ast.NewAndCodeExpr(ast.Pos{})
		e.Code = ast.NewCodeBlock(ast.Pos{}, "{}")
		return e
	case kNotCode:
		e := ast.NewNotCodeExpr(ast.Pos{})
		e.Code = ast.NewCodeBlock(ast.Pos{}, "{}")
		return e
	case kLit:
		return s.lit(c)
	case kClass:
		return s.class(c)
	default:
		return ast.NewAnyMatcher(ast.Pos{}, ".")
	}
}

// plannedNullable is nullable' with the planned nullability of the rules
// (the real one is only known once every rule exists; CheckWF has the last
// word).
func (s *genState) plannedNullable(e ast.Expression) bool {
	return nullableWith(e, func(name string) bool {
		for j, n := range s.names {
			if n == name {
				return !s.cons[j]
			}
		}
		return true
	})
}

func (s *genState) pickRune(plain bool) rune {
	r := s.r
	if plain || r.Intn(3) > 0 {
		const easy = "abcdefghijklmnopqrstuvwxyzABCXYZ0123456789 _+*()=<>,.;:"
		return rune(easy[r.Intn(len(easy))])
	}
	for {
		c := runePool[r.Intn(len(runePool))]
		if c == 0xfffd && (s.cfg.WellFormed || s.cfg.Compilable) && !s.inClass {
			// D1 is about literals; a class may well list U+FFFD (it then also matches a stray byte)
			continue
		}
		if c == 0xe000 && s.cfg.BootstrapSubset && !s.cfg.Avoid.BootE000 {
			continue
		}
		return c
	}
}

func (s *genState) lit(c ctx) ast.Expression {
	r := s.r
	n := 1
	switch x := r.Intn(100); {
	case x < 4 && !c.consume && !s.cfg.Compilable:
		n = 0
	case x < 45:
		n = 1
	default:
		n = 2 + r.Intn(5)
	}
	var b strings.Builder
	for i := 0; i < n; i++ {
		if !s.cfg.Compilable && !s.cfg.WellFormed && r.Intn(60) == 0 {
			b.WriteByte(byte(0x80 + r.Intn(0x80))) // a stray byte: only "\xHH" can say that
			continue
		}
		b.WriteRune(s.pickRune(s.cfg.Compilable && r.Intn(4) > 0))
	}
	e := ast.NewLitMatcher(ast.Pos{}, b.String())
	e.IgnoreCase = r.Intn(5) == 0
	return e
}

func (s *genState) class(c ctx) ast.Expression {
	r := s.r
	av := s.cfg.Avoid
	s.inClass = true
	defer func() { s.inClass = false }()
	n := 1 + r.Intn(4)
	if !s.cfg.WellFormed && !s.cfg.Compilable && r.Intn(25) == 0 {
		n = 0
	}
	var items []ClassItem
	hasWide := false
	if r.Intn(8) == 0 {
		// the classes real grammars are full of: several ranges in ascending (or any) order plus single characters that lie
		// BETWEEN them ([A-Za-z_], [0-9A-F:], [0-9A-Za-z_$]): what happens to `_` must not depend on the ranges around it
		rng := func(lo, hi rune) ClassItem { return ClassItem{Lo: lo, Hi: hi, IsRange: true} }
		chr := func(c rune) ClassItem { return ClassItem{Lo: c} }
		tmpl := [][]ClassItem{
			{rng('A', 'Z'), rng('a', 'z'), chr('_')},
			{rng('0', '9'), rng('A', 'Z'), rng('a', 'z'), chr('_')},
			{rng('0', '9'), rng('A', 'F'), chr(':')},
			{rng('0', '9'), rng('a', 'f'), chr('A'), chr('_')},
			{rng('!', '/'), rng('a', 'z'), chr('@'), chr('^')},
			{rng('a', 'c'), rng('x', 'z'), chr('m')},
			{chr('_'), rng('a', 'z'), rng('A', 'Z')},
			{rng('a', 'z'), chr('_'), rng('A', 'Z'), chr('[')},
		}[r.Intn(8)]
		items = append(items, tmpl...)
		if r.Intn(3) == 0 {
			r.Shuffle(len(items), func(i, j int) { items[i], items[j] = items[j], items[i] })
		}
		n = 0
		hasWide = true
	}
	for i := 0; i < n; i++ {
		switch x := r.Intn(10); {
		case x < 5:
			items = append(items, ClassItem{Lo: s.pickRune(false)})
		case x < 8:
			lo, hi := s.pickRune(false), s.pickRune(false)
			if lo > hi && (s.cfg.Compilable || s.cfg.WellFormed || r.Intn(10) > 0) {
				lo, hi = hi, lo
			}
			items = append(items, ClassItem{Lo: lo, Hi: hi, IsRange: true})
			hasWide = true
		default:
			var nm string
			short := false
			if r.Intn(2) == 0 {
				nm = string("LMNCPZS"[r.Intn(7)])
				short = r.Intn(3) > 0
			} else {
				nm = UnicodeClasses[r.Intn(len(UnicodeClasses))]
			}
			items = append(items, ClassItem{Class: nm, Short: short})
			hasWide = true
		}
	}
	if s.cfg.Utf8Heavy && r.Intn(2) == 0 {
		// U+FFFD listed in the class, in any position and any spelling (raw or escaped, BuildClass decides), with an
		// easy member behind it: the class then matches a stray byte too, and everything written after it still counts
		k := r.Intn(len(items) + 1)
		items = append(items[:k], append([]ClassItem{{Lo: 0xfffd}}, items[k:]...)...)
		if r.Intn(3) > 0 {
			items = append(items, ClassItem{Lo: rune("abcxyz01"[r.Intn(8)])})
		}
	}
	{
		// a dash among the members: anywhere when it is written as an escape sequence (it is then a character: repair of
		// finding D3), plain only as the very first or the very last member, right after a complete range or next to a class
		for i := range items {
			if items[i].Class == "" && (items[i].Lo == '-' || items[i].Hi == '-') {
				items[i].Esc = true
			}
		}
		if r.Intn(8) == 0 && len(items) > 0 {
			// an escaped dash between two single characters: [a\x2dc] is a, '-', c
			k := r.Intn(len(items) + 1)
			items = append(items[:k:k], append([]ClassItem{{Lo: '-', Esc: true}}, items[k:]...)...)
		}
		if r.Intn(5) == 0 {
			// ... or next to a Unicode class, which is no range bound: [0\pL-9] is 0, the class, '-' and 9; [a-\pLz] is
			// a, '-', the class and z (repair of finding D36)
			for i, it := range items {
				if it.Class != "" {
					k := i + r.Intn(2) // before or after the class
					items = append(items[:k:k], append([]ClassItem{{Lo: '-'}}, items[k:]...)...)
					if r.Intn(2) == 0 {
						// single characters on both sides, so that a wrong reading has a range to build
						items = append([]ClassItem{{Lo: '0'}}, append(items, ClassItem{Lo: '9'})...)
					}
					break
				}
			}
		}
		if r.Intn(6) == 0 {
			if r.Intn(2) == 0 {
				items = append([]ClassItem{{Lo: '-'}}, items...)
			} else {
				items = append(items, ClassItem{Lo: '-'})
			}
		}
		if r.Intn(5) == 0 {
			// ... or right after a complete range, where it cannot start a new one: [xa-c-e] is x, a-c, '-' and e
			for i, it := range items {
				if it.IsRange && it.Class == "" {
					items = append(items[:i+1:i+1], append([]ClassItem{{Lo: '-'}}, items[i+1:]...)...)
					if r.Intn(2) == 0 && i > 0 && items[0].Class != "" {
						items = append([]ClassItem{{Lo: 'x'}}, items...)
					}
					break
				}
			}
		}
		if len(items) == 0 && n > 0 {
			items = []ClassItem{{Lo: 'q'}}
		}
	}
	for i := range items {
		if items[i].Class == "" && !items[i].IsRange {
			items[i].Hi = items[i].Lo
		}
	}
	inverted := r.Intn(5) == 0
	fold := r.Intn(5) == 0
	if fold && hasWide && !av.ClassFoldRanges {
		fold = false
	}
	return BuildClass(r, items, inverted, fold, av)
}

// addLeftRec appends  L <- L op X {..} / X ;  X <- [0-9]+ {..}  and makes
// the first rule reach L.
func addLeftRec(r *rand.Rand, cfg Cfg, g *ast.Grammar) {
	ln, xn := "LeftRecSum", "LeftRecNum"
	id := func(n string) *ast.Identifier { return ast.NewIdentifier(ast.Pos{}, n) }
	ref := func(n string) ast.Expression {
		e := ast.NewRuleRefExpr(ast.Pos{})
		e.Name = id(n)
		return e
	}
	lab := func(l string, x ast.Expression) ast.Expression {
		e := ast.NewLabeledExpr(ast.Pos{})
		e.Label = id(l)
		e.Expr = x
		return e
	}
	op := BuildClass(r, []ClassItem{{Lo: '+', Hi: '+'}, {Lo: '*', Hi: '*'}}, false, false, cfg.Avoid)
	seq := ast.NewSeqExpr(ast.Pos{})
	seq.Exprs = []ast.Expression{lab("lrl", ref(ln)), lab("lrop", op), lab("lrr", ref(xn))}
	act := ast.NewActionExpr(ast.Pos{})
	act.Expr = seq
	act.Code = ast.NewCodeBlock(ast.Pos{}, "{}")
	ch := ast.NewChoiceExpr(ast.Pos{})
	ch.Alternatives = []ast.Expression{act, ref(xn)}
	l := ast.NewRule(ast.Pos{}, id(ln))
	l.Expr = ch
	digits := ast.NewOneOrMoreExpr(ast.Pos{})
	digits.Expr = BuildClass(r, []ClassItem{{Lo: '0', Hi: '9', IsRange: true}}, false, false, cfg.Avoid)
	xact := ast.NewActionExpr(ast.Pos{})
	xact.Expr = digits
	xact.Code = ast.NewCodeBlock(ast.Pos{}, "{}")
	x := ast.NewRule(ast.Pos{}, id(xn))
	x.Expr = xact
	// first rule: old / "<" L ">"
	first := g.Rules[0]
	wrap := ast.NewSeqExpr(ast.Pos{})
	wrap.Exprs = []ast.Expression{ast.NewLitMatcher(ast.Pos{}, "<"), lab("lrv", ref(ln)), ast.NewLitMatcher(ast.Pos{}, ">")}
	top := ast.NewChoiceExpr(ast.Pos{})
	top.Alternatives = []ast.Expression{wrap, first.Expr}
	if old, ok := first.Expr.(*ast.ChoiceExpr); ok {
		top.Alternatives = append([]ast.Expression{wrap}, old.Alternatives...)
	}
	first.Expr = top
	g.Rules = append(g.Rules, l, x)
}
