package pvpeg

import (
	"math/rand"
	"regexp"
	"sort"
	"strings"
	"unicode"
	"unicode/utf8"
)

// Tokens splits grammar text into lexical pieces, leniently (it never
// fails): identifiers, string/char/raw-string literals (with an i suffix),
// classes, code blocks (brace counting aware of Go literals and comments),
// comments, runs of blanks, newlines, the multi-character operators `<-`,
// `//{` and `%{`, and single characters. The concatenation of the pieces is
// the input.
func Tokens(text string) []string {
	var out []string
	i := 0
	n := len(text)
	for i < n {
		j := i
		c := text[i]
		switch {
		case c == ' ' || c == '\t' || c == '\r':
			for j < n && (text[j] == ' ' || text[j] == '\t' || text[j] == '\r') {
				j++
			}
		case c == '\n':
			j++
		case c == '"' || c == '\'':
			j++
			for j < n && text[j] != c && text[j] != '\n' {
				if text[j] == '\\' && j+1 < n {
					j++
				}
				j++
			}
			if j < n && text[j] == c {
				j++
				if j < n && text[j] == 'i' {
					j++
				}
			}
		case c == '`':
			j++
			for j < n && text[j] != '`' {
				j++
			}
			if j < n {
				j++
				if j < n && text[j] == 'i' {
					j++
				}
			}
		case c == '[':
			j++
			for j < n && text[j] != ']' && text[j] != '\n' {
				if text[j] == '\\' && j+1 < n {
					j++
				}
				j++
			}
			if j < n && text[j] == ']' {
				j++
				if j < n && text[j] == 'i' {
					j++
				}
			}
		case strings.HasPrefix(text[i:], "//{"):
			j += 3
		case strings.HasPrefix(text[i:], "//"):
			for j < n && text[j] != '\n' {
				j++
			}
		case strings.HasPrefix(text[i:], "/*"):
			k := strings.Index(text[i+2:], "*/")
			if k < 0 {
				j = n
			} else {
				j = i + 2 + k + 2
			}
		case strings.HasPrefix(text[i:], "<-") || strings.HasPrefix(text[i:], "%{"):
			j += 2
		case c == '{':
			j = codeEnd(text, i)
		default:
			r, w := utf8.DecodeRuneInString(text[i:])
			if r == '_' || unicode.IsLetter(r) {
				for j < n {
					r, w = utf8.DecodeRuneInString(text[j:])
					if !(r == '_' || unicode.IsLetter(r) || unicode.IsDigit(r)) {
						break
					}
					j += w
				}
			} else {
				j += w
			}
		}
		if j <= i {
			j = i + 1
		}
		out = append(out, text[i:j])
		i = j
	}
	return out
}

// codeEnd returns the end of the code block that starts at text[i] == '{':
// braces are counted outside of Go string, rune and raw-string literals and
// comments. An unterminated block extends to the end of the line of the
// opening brace (so that a mutation does not swallow the rest of the file).
func codeEnd(text string, i int) int {
	depth := 0
	n := len(text)
	for j := i; j < n; j++ {
		switch c := text[j]; {
		case c == '{':
			depth++
		case c == '}':
			depth--
			if depth == 0 {
				return j + 1
			}
		case c == '"' || c == '\'':
			k := j + 1
			for k < n && text[k] != c && text[k] != '\n' {
				if text[k] == '\\' {
					k++
				}
				k++
			}
			j = k
		case c == '`':
			k := strings.IndexByte(text[j+1:], '`')
			if k < 0 {
				j = n
			} else {
				j = j + 1 + k
			}
		case strings.HasPrefix(text[j:], "//"):
			k := strings.IndexByte(text[j:], '\n')
			if k < 0 {
				j = n
			} else {
				j += k
			}
		case strings.HasPrefix(text[j:], "/*"):
			k := strings.Index(text[j+2:], "*/")
			if k < 0 {
				j = n
			} else {
				j += 2 + k + 1
			}
		}
	}
	if k := strings.IndexByte(text[i:], '\n'); k >= 0 {
		return i + k
	}
	return n
}

// tokenPool are the pieces that token-level mutations insert.
var tokenPool = []string{
	"=", "<-", "←", "⟵", "/", "//{", "}", "{", "%{", "%{x}", "(", ")", "&", "!", "#", "?", "*", "+", ":", ";", ".", ",",
	"'a'", "\"ab\"", "`r`", "''", "'ab'", "\"", "'", "`", "\"\\q\"", "\"\\x4\"", "\"\\400\"", "\"\\ud800\"", "\"\\U00110000\"", "'\\''i",
	"[a-z]", "[^a]", "[]", "[", "]", "[\\pL]", "[\\p{Nope}]", "[\\pX]", "[a\\-z]", "[z-a]", "[\\", "[a]i",
	"A", "x", "i", "any", "error", "é", "_", "x:", "{ return nil, nil }", "{ { }", "{ \"}\" }", "&{ return true, nil }", "#{ return nil }",
	"// c\n", "/* c */", "/*", "*/", "//", "\n", "\n\n", " ", "\t", "\r", "\x00", "\xff", "\ufeff", "\u2028", "𝒳",
}

var unicodeClassRE = regexp.MustCompile(`\\p\{[A-Za-z_0-9]*\}`)

// MutationNames lists the kinds of Mutate, in the order of its op argument.
var MutationNames = []string{"tok-delete", "tok-insert", "tok-replace", "tok-dup", "tok-swap", "byte-delete", "byte-insert", "byte-replace", "byte-flip", "truncate", "drop-closer"}

// Mutate applies one random mutation of kind op (an index into MutationNames;
// negative = random) to text and returns the result and the kind's name.
func Mutate(r *rand.Rand, text string, op int) (string, string) {
	if op < 0 || op >= len(MutationNames) {
		op = r.Intn(len(MutationNames))
	}
	name := MutationNames[op]
	if text == "" {
		return tokenPool[r.Intn(len(tokenPool))], name
	}
	if op <= 4 {
		toks := Tokens(text)
		i := r.Intn(len(toks))
		switch op {
		case 0:
			toks = append(toks[:i:i], toks[i+1:]...)
		case 1:
			ins := tokenPool[r.Intn(len(tokenPool))]
			toks = append(toks[:i:i], append([]string{ins}, toks[i:]...)...)
		case 2:
			toks[i] = tokenPool[r.Intn(len(tokenPool))]
		case 3:
			toks = append(toks[:i:i], append([]string{toks[i]}, toks[i:]...)...)
		case 4:
			j := r.Intn(len(toks))
			toks[i], toks[j] = toks[j], toks[i]
		}
		return strings.Join(toks, ""), name
	}
	b := []byte(text)
	i := r.Intn(len(b))
	if op == 10 {
		// remove one closing delimiter (the documented "not terminated" diagnostics: a class, a
		// \p{...} name, a code block, a group or a literal that never ends)
		// one category of closer is chosen first, so that rare ones (the brace of a \\p{Name} inside a
		// class) are hit as often as the ubiquitous ones (the brace of a code block)
		cats := map[string][]int{}
		for k, c := range b {
			if strings.IndexByte("}])'\"`", c) >= 0 {
				cats[string(c)] = append(cats[string(c)], k)
			}
		}
		for _, m := range unicodeClassRE.FindAllIndex(b, -1) {
			cats["p}"] = append(cats["p}"], m[1]-1)
		}
		var names []string
		for n := range cats {
			names = append(names, n)
		}
		sort.Strings(names)
		if len(names) > 0 {
			at := cats[names[r.Intn(len(names))]]
			i = at[r.Intn(len(at))]
		}
		if r.Intn(3) == 0 {
			// ... or closed by the wrong closer ("[\\p{L]]": the class name ends at a bracket)
			const closers = "}])"
			b[i] = closers[r.Intn(len(closers))]
			return string(b), name
		}
		return string(append(b[:i:i], b[i+1:]...)), name
	}
	switch op {
	case 5:
		b = append(b[:i:i], b[i+1:]...)
	case 6:
		b = append(b[:i:i], append([]byte{randByte(r)}, b[i:]...)...)
	case 7:
		b[i] = randByte(r)
	case 8:
		b[i] ^= 1 << uint(r.Intn(8))
	case 9:
		b = b[:i]
	}
	return string(b), name
}

func randByte(r *rand.Rand) byte {
	const interesting = "{}[]()'\"`/\\*-^=<:;&!#%?+.\n\r\t i\x00\xff\xc3\x80"
	if r.Intn(2) == 0 {
		return interesting[r.Intn(len(interesting))]
	}
	return byte(r.Intn(256))
}

// Splice joins a prefix of a and a suffix of b, both cut at token boundaries.
func Splice(r *rand.Rand, a, b string) string {
	ta, tb := Tokens(a), Tokens(b)
	i, j := 0, 0
	if len(ta) > 0 {
		i = r.Intn(len(ta) + 1)
	}
	if len(tb) > 0 {
		j = r.Intn(len(tb) + 1)
	}
	return strings.Join(ta[:i], "") + strings.Join(tb[j:], "")
}

// RawBytes returns n random bytes: uniformly random, or drawn from the
// characters that the grammar syntax uses, or token soup.
func RawBytes(r *rand.Rand, n int) string {
	var b strings.Builder
	switch r.Intn(3) {
	case 0:
		for b.Len() < n {
			b.WriteByte(byte(r.Intn(256)))
		}
	case 1:
		for b.Len() < n {
			b.WriteByte(randByte(r))
		}
	default:
		for b.Len() < n {
			b.WriteString(tokenPool[r.Intn(len(tokenPool))])
			if r.Intn(2) == 0 {
				b.WriteByte(' ')
			}
		}
	}
	return b.String()
}
