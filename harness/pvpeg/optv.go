package pvpeg

import (
	"strconv"
	"strings"

	"github.com/mna/pigeon/ast"
)

// OptvLine renders an (original, optimized) grammar pair and the protected entry rules for the verified validator
// of the grammar optimizer (PROTOCOL.md, "optv"; lean/PigeonVerif/Opt). Code blocks are numbered by their text (the
// optimizer copies blocks, it never edits them), literals are lists of runes, class members are listed as they are.
func OptvLine(id int, g, g2 *ast.Grammar, entries []string) string {
	codes := map[string]int{}
	code := func(c *ast.CodeBlock) string {
		txt := ""
		if c != nil {
			txt = c.Val
		}
		n, ok := codes[txt]
		if !ok {
			n = len(codes) + 1
			codes[txt] = n
		}
		return strconv.Itoa(n)
	}
	hex := func(s string) string {
		const digits = "0123456789abcdef"
		var b strings.Builder
		b.WriteByte('x')
		for i := 0; i < len(s); i++ {
			b.WriteByte(digits[s[i]>>4])
			b.WriteByte(digits[s[i]&15])
		}
		return b.String()
	}
	b01 := func(v bool) string {
		if v {
			return "1"
		}
		return "0"
	}
	var w strings.Builder
	var expr func(e ast.Expression)
	list := func(tag string, es []ast.Expression) {
		w.WriteString(tag + " " + strconv.Itoa(len(es)))
		for _, k := range es {
			w.WriteByte(' ')
			expr(k)
		}
	}
	un := func(tag string, e ast.Expression) {
		w.WriteString(tag + " ")
		expr(e)
	}
	expr = func(e ast.Expression) {
		switch e := e.(type) {
		case *ast.LitMatcher:
			rs := []rune(e.Val)
			w.WriteString("lit " + b01(e.IgnoreCase) + " " + strconv.Itoa(len(rs)))
			for _, r := range rs {
				w.WriteString(" " + strconv.Itoa(int(r)))
			}
		case *ast.CharClassMatcher:
			w.WriteString("cls " + b01(e.IgnoreCase) + " " + b01(e.Inverted) + " " + strconv.Itoa(len(e.Chars)))
			for _, r := range e.Chars {
				w.WriteString(" " + strconv.Itoa(int(r)))
			}
			w.WriteString(" " + strconv.Itoa(len(e.Ranges)/2))
			for i := 0; i+1 < len(e.Ranges); i += 2 {
				w.WriteString(" " + strconv.Itoa(int(e.Ranges[i])) + " " + strconv.Itoa(int(e.Ranges[i+1])))
			}
			w.WriteString(" " + strconv.Itoa(len(e.UnicodeClasses)))
			for _, n := range e.UnicodeClasses {
				w.WriteString(" " + hex(n))
			}
		case *ast.AnyMatcher:
			w.WriteString("any")
		case *ast.SeqExpr:
			list("seq", e.Exprs)
		case *ast.ChoiceExpr:
			list("ch", e.Alternatives)
		case *ast.RuleRefExpr:
			w.WriteString("ref " + hex(e.Name.Val))
		case *ast.ActionExpr:
			w.WriteString("act " + code(e.Code) + " ")
			expr(e.Expr)
		case *ast.LabeledExpr:
			l := ""
			if e.Label != nil {
				l = e.Label.Val
			}
			w.WriteString("lab " + hex(l) + " ")
			expr(e.Expr)
		case *ast.AndExpr:
			un("and", e.Expr)
		case *ast.NotExpr:
			un("not", e.Expr)
		case *ast.AndCodeExpr:
			w.WriteString("andc " + code(e.Code))
		case *ast.NotCodeExpr:
			w.WriteString("notc " + code(e.Code))
		case *ast.StateCodeExpr:
			w.WriteString("stc " + code(e.Code))
		case *ast.ZeroOrOneExpr:
			un("opt", e.Expr)
		case *ast.ZeroOrMoreExpr:
			un("star", e.Expr)
		case *ast.OneOrMoreExpr:
			un("plus", e.Expr)
		case *ast.RecoveryExpr:
			w.WriteString("rec " + strconv.Itoa(len(e.Labels)))
			for _, l := range e.Labels {
				w.WriteString(" " + hex(string(l)))
			}
			w.WriteByte(' ')
			expr(e.Expr)
			w.WriteByte(' ')
			expr(e.RecoverExpr)
		case *ast.ThrowExpr:
			w.WriteString("thr " + hex(e.Label))
		default:
			w.WriteString("any") // not reachable: Walk panics on unknown kinds long before
		}
	}
	gram := func(g *ast.Grammar) {
		w.WriteString(" " + strconv.Itoa(len(g.Rules)))
		for _, r := range g.Rules {
			w.WriteString(" " + hex(r.Name.Val) + " ")
			expr(r.Expr)
		}
	}
	w.WriteString("optv " + strconv.Itoa(id))
	gram(g)
	gram(g2)
	w.WriteString(" " + strconv.Itoa(len(entries)))
	for _, e := range entries {
		w.WriteString(" " + hex(e))
	}
	return w.String()
}
