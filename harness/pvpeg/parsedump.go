package pvpeg

import (
	"fmt"
	"strconv"
	"strings"

	"github.com/mna/pigeon/ast"
)

// ParseDump is the inverse of Dump: it rebuilds the AST from a dump line
// (with or without positions; without, every position is the zero Pos). The
// exported class fields are taken from the dump, not recomputed.
func ParseDump(s string) (g *ast.Grammar, err error) {
	p := &dumpReader{s: s}
	defer func() {
		if e := recover(); e != nil {
			if de, ok := e.(dumpErr); ok {
				g, err = nil, fmt.Errorf("dump offset %d: %s", p.i, string(de))
				return
			}
			panic(e)
		}
	}()
	g = p.grammar()
	p.ws()
	if p.i != len(p.s) {
		p.fail("trailing text")
	}
	return g, nil
}

type dumpErr string

type dumpReader struct {
	s string
	i int
}

func (p *dumpReader) fail(f string, a ...any) { panic(dumpErr(fmt.Sprintf(f, a...))) }

func (p *dumpReader) ws() {
	for p.i < len(p.s) && p.s[p.i] == ' ' {
		p.i++
	}
}

func (p *dumpReader) peekNil() bool {
	p.ws()
	if strings.HasPrefix(p.s[p.i:], "nil") {
		j := p.i + 3
		if j == len(p.s) || p.s[j] == ' ' || p.s[j] == ')' {
			p.i = j
			return true
		}
	}
	return false
}

func (p *dumpReader) lit(t string) {
	p.ws()
	if !strings.HasPrefix(p.s[p.i:], t) {
		p.fail("expected %q", t)
	}
	p.i += len(t)
}

// open reads "(Kind@l:c:o" and returns kind and position.
func (p *dumpReader) open() (string, ast.Pos) {
	p.lit("(")
	j := p.i
	for j < len(p.s) && (p.s[j] >= 'A' && p.s[j] <= 'Z' || p.s[j] >= 'a' && p.s[j] <= 'z') {
		j++
	}
	kind := p.s[p.i:j]
	p.i = j
	var pos ast.Pos
	if p.i < len(p.s) && p.s[p.i] == '@' {
		p.i++
		pos.Line = p.int(10)
		p.lit(":")
		pos.Col = p.int(10)
		p.lit(":")
		pos.Off = p.int(10)
	}
	return kind, pos
}

func (p *dumpReader) int(base int) int {
	j := p.i
	for j < len(p.s) && (p.s[j] >= '0' && p.s[j] <= '9' || base == 16 && p.s[j] >= 'a' && p.s[j] <= 'f' || j == p.i && p.s[j] == '-') {
		j++
	}
	v, err := strconv.ParseInt(p.s[p.i:j], base, 64)
	if err != nil {
		p.fail("bad number %q", p.s[p.i:j])
	}
	p.i = j
	return int(v)
}

func (p *dumpReader) str() string {
	p.ws()
	if p.i >= len(p.s) || p.s[p.i] != '"' {
		p.fail("expected a quoted string")
	}
	j := p.i + 1
	for j < len(p.s) && p.s[j] != '"' {
		if p.s[j] == '\\' {
			j++
		}
		j++
	}
	if j >= len(p.s) {
		p.fail("unterminated string")
	}
	v, err := strconv.Unquote(p.s[p.i : j+1])
	if err != nil {
		p.fail("bad string %s", p.s[p.i:j+1])
	}
	p.i = j + 1
	return v
}

func (p *dumpReader) boolKey(key string) bool {
	p.lit(key + "=")
	switch {
	case strings.HasPrefix(p.s[p.i:], "true"):
		p.i += 4
		return true
	case strings.HasPrefix(p.s[p.i:], "false"):
		p.i += 5
		return false
	}
	p.fail("expected a bool")
	return false
}

func (p *dumpReader) runes(key string) []rune {
	p.lit(key + "=[")
	var out []rune
	for {
		p.ws()
		if p.i < len(p.s) && p.s[p.i] == ']' {
			p.i++
			return out
		}
		out = append(out, rune(p.int(16)))
	}
}

func (p *dumpReader) more() bool {
	p.ws()
	return p.i < len(p.s) && p.s[p.i] != ')'
}

func (p *dumpReader) grammar() *ast.Grammar {
	kind, pos := p.open()
	if kind != "Grammar" {
		p.fail("expected Grammar, got %q", kind)
	}
	g := ast.NewGrammar(pos)
	g.Init = p.code()
	for p.more() {
		g.Rules = append(g.Rules, p.rule())
	}
	p.lit(")")
	return g
}

func (p *dumpReader) code() *ast.CodeBlock {
	if p.peekNil() {
		return nil
	}
	kind, pos := p.open()
	if kind != "CodeBlock" {
		p.fail("expected CodeBlock, got %q", kind)
	}
	c := ast.NewCodeBlock(pos, p.str())
	p.lit(")")
	return c
}

func (p *dumpReader) ident() *ast.Identifier {
	if p.peekNil() {
		return nil
	}
	kind, pos := p.open()
	if kind != "Identifier" {
		p.fail("expected Identifier, got %q", kind)
	}
	id := ast.NewIdentifier(pos, p.str())
	p.lit(")")
	return id
}

func (p *dumpReader) rule() *ast.Rule {
	if p.peekNil() {
		return nil
	}
	kind, pos := p.open()
	if kind != "Rule" {
		p.fail("expected Rule, got %q", kind)
	}
	r := ast.NewRule(pos, p.ident())
	if !p.peekNil() {
		k, dp := p.open()
		if k != "StringLit" {
			p.fail("expected StringLit, got %q", k)
		}
		r.DisplayName = ast.NewStringLit(dp, p.str())
		p.lit(")")
	}
	r.Expr = p.expr()
	p.lit(")")
	return r
}

func (p *dumpReader) expr() ast.Expression {
	if p.peekNil() {
		return nil
	}
	kind, pos := p.open()
	var out ast.Expression
	switch kind {
	case "ChoiceExpr":
		e := ast.NewChoiceExpr(pos)
		for p.more() {
			e.Alternatives = append(e.Alternatives, p.expr())
		}
		out = e
	case "SeqExpr":
		e := ast.NewSeqExpr(pos)
		for p.more() {
			e.Exprs = append(e.Exprs, p.expr())
		}
		out = e
	case "RecoveryExpr":
		e := ast.NewRecoveryExpr(pos)
		e.Expr = p.expr()
		e.RecoverExpr = p.expr()
		p.lit("(labels")
		for p.more() {
			e.Labels = append(e.Labels, ast.FailureLabel(p.str()))
		}
		p.lit(")")
		out = e
	case "ActionExpr":
		e := ast.NewActionExpr(pos)
		e.Expr = p.expr()
		e.Code = p.code()
		out = e
	case "LabeledExpr":
		e := ast.NewLabeledExpr(pos)
		e.Label = p.ident()
		e.Expr = p.expr()
		out = e
	case "AndExpr":
		e := ast.NewAndExpr(pos)
		e.Expr = p.expr()
		out = e
	case "NotExpr":
		e := ast.NewNotExpr(pos)
		e.Expr = p.expr()
		out = e
	case "ZeroOrOneExpr":
		e := ast.NewZeroOrOneExpr(pos)
		e.Expr = p.expr()
		out = e
	case "ZeroOrMoreExpr":
		e := ast.NewZeroOrMoreExpr(pos)
		e.Expr = p.expr()
		out = e
	case "OneOrMoreExpr":
		e := ast.NewOneOrMoreExpr(pos)
		e.Expr = p.expr()
		out = e
	case "ThrowExpr":
		e := ast.NewThrowExpr(pos)
		e.Label = p.str()
		out = e
	case "RuleRefExpr":
		e := ast.NewRuleRefExpr(pos)
		e.Name = p.ident()
		out = e
	case "StateCodeExpr":
		e := ast.NewStateCodeExpr(pos)
		e.Code = p.code()
		out = e
	case "AndCodeExpr":
		e := ast.NewAndCodeExpr(pos)
		e.Code = p.code()
		out = e
	case "NotCodeExpr":
		e := ast.NewNotCodeExpr(pos)
		e.Code = p.code()
		out = e
	case "LitMatcher":
		e := ast.NewLitMatcher(pos, p.str())
		e.IgnoreCase = p.boolKey("ic")
		out = e
	case "CharClassMatcher":
		e := NewClass(pos, p.str())
		e.Chars = p.runes("chars")
		e.Ranges = p.runes("ranges")
		p.lit("classes=[")
		e.UnicodeClasses = nil
		for {
			p.ws()
			if p.i < len(p.s) && p.s[p.i] == ']' {
				p.i++
				break
			}
			e.UnicodeClasses = append(e.UnicodeClasses, p.str())
		}
		e.IgnoreCase = p.boolKey("ic")
		e.Inverted = p.boolKey("inv")
		out = e
	case "AnyMatcher":
		out = ast.NewAnyMatcher(pos, p.str())
	default:
		p.fail("unknown node kind %q", kind)
	}
	p.lit(")")
	return out
}

// NewClass builds a CharClassMatcher node carrying the raw text only: the
// derived fields are cleared so that the caller can fill them in from its own
// model. (The constructor of package ast runs pigeon's own class parser, and
// it indexes raw[1:len-1], so texts shorter than "[]" are padded first.)
func NewClass(pos ast.Pos, raw string) *ast.CharClassMatcher {
	safe := raw
	if len(strings.TrimSuffix(safe, "i")) < 2 {
		safe = "[]"
	}
	var e *ast.CharClassMatcher
	func() {
		defer func() {
			if recover() != nil {
				e = ast.NewCharClassMatcher(pos, "[]")
			}
		}()
		e = ast.NewCharClassMatcher(pos, safe)
	}()
	e.Val = raw
	e.Chars, e.Ranges, e.UnicodeClasses = nil, nil, nil
	e.IgnoreCase, e.Inverted = false, false
	return e
}
