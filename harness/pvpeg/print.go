package pvpeg

import (
	"math/rand"
	"strings"
	"unicode"
	"unicode/utf8"

	"github.com/mna/pigeon/ast"
)

// Style selects the concrete spellings that Print draws from.
type Style struct {
	Name string
	// Subset: the layout that the bootstrap parser accepts: no comments,
	// only blanks inside a rule (newlines only right after the definition
	// operator and between rules), `;`, newline or end of file after a rule.
	Subset    bool
	Empty     float64 // probability that an optional gap stays empty
	Newline   float64 // probability that a gap element is a newline
	Comment   float64 // probability that a gap element is a comment
	Redundant float64 // probability of a redundant pair of parentheses around a node
	Escapes   bool    // literals: false = prefer the double-quoted form
	Avoid     Avoid
}

// Styles are the layouts of the full syntax.
var Styles = []Style{
	{Name: "compact", Empty: 1, Redundant: 0},
	{Name: "plain", Empty: 0.3, Newline: 0.05, Comment: 0, Redundant: 0.03},
	{Name: "airy", Empty: 0.1, Newline: 0.4, Comment: 0.05, Redundant: 0.1, Escapes: true},
	{Name: "commented", Empty: 0.2, Newline: 0.2, Comment: 0.5, Redundant: 0.1},
	{Name: "parens", Empty: 0.5, Newline: 0.1, Comment: 0.1, Redundant: 0.3, Escapes: true},
	{Name: "wild", Empty: 0.4, Newline: 0.3, Comment: 0.3, Redundant: 0.15, Escapes: true},
}

// SubsetStyles are the layouts of the bootstrap subset.
var SubsetStyles = []Style{
	{Name: "subset-compact", Subset: true, Empty: 1},
	{Name: "subset-plain", Subset: true, Empty: 0.3, Newline: 0.2, Redundant: 0.05},
	{Name: "subset-airy", Subset: true, Empty: 0.3, Newline: 0.5, Redundant: 0.12},
}

// binding strength of the syntactic levels, weakest first
const (
	lvRecovery = iota
	lvChoice
	lvAction
	lvSeq
	lvLabeled
	lvPrefixed
	lvSuffixed
	lvPrimary
)

func levelOf(e ast.Expression) int {
	switch e.(type) {
	case *ast.RecoveryExpr:
		return lvRecovery
	case *ast.ChoiceExpr:
		return lvChoice
	case *ast.ActionExpr:
		return lvAction
	case *ast.SeqExpr:
		return lvSeq
	case *ast.LabeledExpr, *ast.ThrowExpr:
		return lvLabeled
	case *ast.AndExpr, *ast.NotExpr:
		return lvPrefixed
	case *ast.ZeroOrOneExpr, *ast.ZeroOrMoreExpr, *ast.OneOrMoreExpr:
		return lvSuffixed
	}
	return lvPrimary
}

type gapKind int

const (
	gNone   gapKind = iota
	gTop            // between rules, at both ends of the file: `__`
	gExpr           // inside a rule: `__`
	gDefOp          // right after the rule definition operator: `__`
	gEOSnl          // `_ SingleLineComment? EOL`
	gBefSem         // `__` before the `;` terminator
)

type pitem struct {
	tok   string
	gap   gapKind
	nodes []any
}

// Printed is the outcome of PrintPos.
type Printed struct {
	Text string
	// AST is a copy of the printed grammar in which every node carries the
	// position of its first token (pigeon's convention), the Grammar node
	// the position of the first character of the file.
	AST   *ast.Grammar
	Style string
}

type printer struct {
	r       *rand.Rand
	st      Style
	items   []pitem
	pending []any
	ops     []string
}

// Print writes g as grammar text in random concrete spellings.
func Print(g *ast.Grammar, r *rand.Rand, st Style) string { return PrintPos(g, r, st).Text }

// PrintPos is Print and also returns the positioned copy of g.
func PrintPos(g *ast.Grammar, r *rand.Rand, st Style) Printed {
	p := &printer{r: r, st: st}
	p.ops = []string{"=", "<-", "←", "⟵"}
	p.grammar(g)
	text, pos := p.render()
	if r.Intn(5) == 0 && strings.HasSuffix(text, "\n") && len(text) > 1 {
		text = text[:len(text)-1]
	}
	gp := ast.Pos{Line: 1, Col: 1}
	if strings.HasPrefix(text, "\n") {
		gp = ast.Pos{Line: 2, Col: 0}
	}
	out := Reposition(g, func(n any) ast.Pos {
		if n == any(g) {
			return gp
		}
		return pos[n]
	})
	return Printed{Text: text, AST: out, Style: st.Name}
}

func (p *printer) mark(n any) { p.pending = append(p.pending, n) }

func (p *printer) tok(s string) {
	p.items = append(p.items, pitem{tok: s, nodes: p.pending})
	p.pending = nil
}

func (p *printer) gap(k gapKind) { p.items = append(p.items, pitem{gap: k}) }

func (p *printer) grammar(g *ast.Grammar) {
	p.gap(gTop)
	n := len(g.Rules)
	if g.Init != nil {
		p.mark(g.Init)
		p.tok(g.Init.Val)
		p.eos(n == 0)
		p.gap(gTop)
	}
	for i, r := range g.Rules {
		p.mark(r)
		p.mark(r.Name)
		p.tok(r.Name.Val)
		p.gap(gExpr)
		if r.DisplayName != nil {
			p.mark(r.DisplayName)
			p.tok(r.DisplayName.Val)
			p.gap(gExpr)
		}
		p.tok(p.ops[p.r.Intn(len(p.ops))])
		p.gap(gDefOp)
		p.expr(r.Expr, lvRecovery, 0)
		p.eos(i == n-1)
		p.gap(gTop)
	}
}

func (p *printer) eos(last bool) {
	x := p.r.Intn(100)
	switch {
	case x < 30:
		p.gap(gBefSem)
		p.tok(";")
	case x < 45 && last:
		// `__ EOF`: the trailing gTop gap is the `__`
	default:
		p.gap(gEOSnl)
	}
}

func (p *printer) expr(e ast.Expression, min int, depth int) {
	lv := levelOf(e)
	parens := 0
	if lv < min {
		parens = 1
	}
	for parens < 3 && depth < 5 && p.r.Float64() < p.st.Redundant {
		parens++
	}
	for i := 0; i < parens; i++ {
		p.tok("(")
		p.gap(gExpr)
	}
	p.bare(e, depth+parens)
	for i := 0; i < parens; i++ {
		p.gap(gExpr)
		p.tok(")")
	}
}

func (p *printer) code(c *ast.CodeBlock) {
	p.mark(c)
	p.tok(c.Val)
}

func (p *printer) bare(e ast.Expression, depth int) {
	p.mark(e)
	d := depth // number of enclosing pairs of parentheses
	switch e := e.(type) {
	case *ast.ChoiceExpr:
		for i, a := range e.Alternatives {
			if i > 0 {
				p.gap(gExpr)
				p.tok("/")
				p.gap(gExpr)
			}
			p.expr(a, lvAction, d)
		}
	case *ast.RecoveryExpr:
		p.expr(e.Expr, lvRecovery, d)
		p.gap(gExpr)
		p.tok("//{")
		p.gap(gExpr)
		for i, l := range e.Labels {
			if i > 0 {
				p.gap(gExpr)
				p.tok(",")
				p.gap(gExpr)
			}
			p.tok(string(l))
		}
		p.gap(gExpr)
		p.tok("}")
		p.gap(gExpr)
		p.expr(e.RecoverExpr, lvChoice, d)
	case *ast.ActionExpr:
		p.expr(e.Expr, lvSeq, d)
		p.gap(gExpr)
		p.code(e.Code)
	case *ast.SeqExpr:
		for i, x := range e.Exprs {
			if i > 0 {
				p.gap(gExpr)
			}
			p.expr(x, lvLabeled, d)
		}
	case *ast.LabeledExpr:
		p.mark(e.Label)
		p.tok(e.Label.Val)
		p.gap(gExpr)
		p.tok(":")
		p.gap(gExpr)
		p.expr(e.Expr, lvPrefixed, d)
	case *ast.AndExpr:
		p.tok("&")
		p.gap(gExpr)
		p.expr(e.Expr, lvSuffixed, d)
	case *ast.NotExpr:
		p.tok("!")
		p.gap(gExpr)
		p.expr(e.Expr, lvSuffixed, d)
	case *ast.ZeroOrOneExpr:
		p.expr(e.Expr, lvPrimary, d)
		p.gap(gExpr)
		p.tok("?")
	case *ast.ZeroOrMoreExpr:
		p.expr(e.Expr, lvPrimary, d)
		p.gap(gExpr)
		p.tok("*")
	case *ast.OneOrMoreExpr:
		p.expr(e.Expr, lvPrimary, d)
		p.gap(gExpr)
		p.tok("+")
	case *ast.ThrowExpr:
		p.tok("%{" + e.Label + "}")
	case *ast.RuleRefExpr:
		p.mark(e.Name)
		p.tok(e.Name.Val)
	case *ast.StateCodeExpr:
		p.tok("#")
		p.gap(gExpr)
		p.code(e.Code)
	case *ast.AndCodeExpr:
		p.tok("&")
		p.gap(gExpr)
		p.code(e.Code)
	case *ast.NotCodeExpr:
		p.tok("!")
		p.gap(gExpr)
		p.code(e.Code)
	case *ast.LitMatcher:
		form := byte(0)
		if !p.st.Escapes && p.r.Intn(3) > 0 {
			form = '"'
		}
		s := SpellLit(p.r, e.Val, form, p.st.Avoid)
		if e.IgnoreCase {
			s += "i"
		}
		p.tok(s)
	case *ast.CharClassMatcher:
		p.tok(e.Val)
	case *ast.AnyMatcher:
		p.tok(".")
	default:
		p.tok("<?>")
	}
}

func isIdentRune(c rune) bool {
	return c == '_' || unicode.IsLetter(c) || unicode.IsDigit(c)
}

// needSep reports whether two adjacent tokens would be read differently
// without something between them.
func needSep(prev, next string) bool {
	if prev == "" || next == "" {
		return false
	}
	a, _ := utf8.DecodeLastRuneInString(prev)
	b, _ := utf8.DecodeRuneInString(next)
	if isIdentRune(a) && isIdentRune(b) {
		// `"a"ib` is the literal "a"i followed by the rule b: after the ignore-case suffix of a literal or a class an
		// identifier may follow at once (both front-ends take the `i` greedily)
		if a == 'i' && len(prev) >= 2 {
			switch prev[len(prev)-2] {
			case '"', '\'', '`', ']':
				return false
			}
		}
		return true
	}
	// the ignore-case suffix of a literal or a class
	if b == 'i' && (a == '"' || a == '\'' || a == '`' || a == ']') {
		return true
	}
	return false
}

var commentWords = []string{"a comment", "x", "", "{ brace", "} brace", "it's", "say \"hi\"", "back`tick", "ünï©ode 世界",
	"A = b", "// nested", "/* nested", "[a-z]", "%{x}", "#{", ";", "  spaced  ", "\ttab", "*", "* /", "/",
	// only \n is a line end: a carriage return, a form feed, a vertical tab or U+2028 inside a comment are just characters
	"a\rb", "\r", " cr at the end\r", "\f", "\v", "x\u2028y", "\r \r"}

func (p *printer) lineComment() string {
	w := commentWords[p.r.Intn(len(commentWords))]
	if strings.HasPrefix(w, "{") {
		w = " " + w // `//{` is the recovery operator, not a comment
	}
	return "//" + w + "\n"
}

func (p *printer) blockComment(multi bool) string {
	w := commentWords[p.r.Intn(len(commentWords))]
	w = strings.ReplaceAll(w, "*/", "* /")
	if strings.HasSuffix(w, "*") && p.r.Intn(2) == 0 {
		w += " "
	}
	if multi {
		switch p.r.Intn(3) {
		case 0:
			w = "\n" + w + "\n"
		case 1:
			w = w + "\n * more\n "
		}
	}
	return "/*" + w + "*/"
}

func (p *printer) blank() string {
	switch p.r.Intn(8) {
	case 0:
		return "\t"
	case 1:
		return "\r"
	case 2:
		return "  "
	}
	return " "
}

// gapText draws the text of one gap.
func (p *printer) gapText(k gapKind) string {
	r, st := p.r, p.st
	var b strings.Builder
	newlineOK := k == gTop || k == gDefOp || (!st.Subset && (k == gExpr || k == gBefSem))
	commentOK := !st.Subset
	if k == gEOSnl {
		// `_`: blanks and one-line block comments, then an optional line
		// comment, then the newline
		for r.Float64() >= st.Empty && b.Len() < 40 {
			if commentOK && r.Float64() < st.Comment {
				multi := st.Avoid.MultiLineEOS && r.Intn(2) == 0
				b.WriteString(p.blockComment(multi))
			} else {
				b.WriteString(p.blank())
			}
		}
		if commentOK && r.Float64() < st.Comment {
			b.WriteString(p.lineComment())
		} else {
			b.WriteByte('\n')
		}
		return b.String()
	}
	n := 0
	for r.Float64() >= st.Empty && n < 4 {
		n++
		x := r.Float64()
		switch {
		case commentOK && x < st.Comment/2:
			b.WriteString(p.blockComment(newlineOK && r.Intn(3) == 0))
		case commentOK && newlineOK && x < st.Comment:
			b.WriteString(p.lineComment())
		case newlineOK && x < st.Comment+st.Newline:
			b.WriteByte('\n')
		default:
			b.WriteString(p.blank())
		}
	}
	if k == gTop && b.Len() == 0 && r.Float64() < 0.5 {
		b.WriteByte('\n')
	}
	return b.String()
}

// render lays the items out and returns the text and the position of every
// marked node.
func (p *printer) render() (string, map[any]ast.Pos) {
	var b strings.Builder
	pos := map[any]ast.Pos{}
	line, col := 1, 0
	write := func(s string) {
		for _, c := range s {
			if c == '\n' {
				line++
				col = 0
			} else {
				col++
			}
		}
		b.WriteString(s)
	}
	prevTok := ""
	for i := 0; i < len(p.items); {
		it := p.items[i]
		if it.gap == gNone {
			if needSep(prevTok, it.tok) {
				write(" ")
			}
			at := ast.Pos{Line: line, Col: col + 1, Off: b.Len()}
			for _, n := range it.nodes {
				pos[n] = at
			}
			write(it.tok)
			prevTok = it.tok
			i++
			continue
		}
		// a run of gaps up to the next token
		j := i
		var run strings.Builder
		for j < len(p.items) && p.items[j].gap != gNone {
			run.WriteString(p.gapText(p.items[j].gap))
			j++
		}
		s := run.String()
		next := ""
		if j < len(p.items) {
			next = p.items[j].tok
		}
		if s == "" && needSep(prevTok, next) {
			s = " "
		}
		// right after the choice operator a comment would read as `//...`
		if prevTok == "/" && strings.HasPrefix(s, "/") {
			s = " " + s
		}
		write(s)
		if s != "" {
			prevTok = ""
		}
		i = j
	}
	return b.String(), pos
}

// Reposition returns a deep copy of g in which every node n has the position
// at(n) (n is the node of g, a pointer). The Grammar node gets at(g).
func Reposition(g *ast.Grammar, at func(n any) ast.Pos) *ast.Grammar {
	out := ast.NewGrammar(at(g))
	if g.Init != nil {
		out.Init = ast.NewCodeBlock(at(g.Init), g.Init.Val)
	}
	for _, r := range g.Rules {
		nr := ast.NewRule(at(r), ast.NewIdentifier(at(r.Name), r.Name.Val))
		if r.DisplayName != nil {
			nr.DisplayName = ast.NewStringLit(at(r.DisplayName), r.DisplayName.Val)
		}
		nr.Expr = reposExpr(r.Expr, at)
		out.Rules = append(out.Rules, nr)
	}
	return out
}

// Clone returns a deep copy of g (positions kept).
func Clone(g *ast.Grammar) *ast.Grammar {
	return Reposition(g, func(n any) ast.Pos {
		if e, ok := n.(interface{ Pos() ast.Pos }); ok {
			return e.Pos()
		}
		return ast.Pos{}
	})
}

func reposCode(c *ast.CodeBlock, at func(any) ast.Pos) *ast.CodeBlock {
	if c == nil {
		return nil
	}
	return ast.NewCodeBlock(at(c), c.Val)
}

func reposExpr(e ast.Expression, at func(any) ast.Pos) ast.Expression {
	switch e := e.(type) {
	case nil:
		return nil
	case *ast.ChoiceExpr:
		n := ast.NewChoiceExpr(at(e))
		for _, a := range e.Alternatives {
			n.Alternatives = append(n.Alternatives, reposExpr(a, at))
		}
		return n
	case *ast.SeqExpr:
		n := ast.NewSeqExpr(at(e))
		for _, a := range e.Exprs {
			n.Exprs = append(n.Exprs, reposExpr(a, at))
		}
		return n
	case *ast.RecoveryExpr:
		n := ast.NewRecoveryExpr(at(e))
		n.Expr, n.RecoverExpr = reposExpr(e.Expr, at), reposExpr(e.RecoverExpr, at)
		n.Labels = append([]ast.FailureLabel(nil), e.Labels...)
		return n
	case *ast.ActionExpr:
		n := ast.NewActionExpr(at(e))
		n.Expr, n.Code = reposExpr(e.Expr, at), reposCode(e.Code, at)
		return n
	case *ast.LabeledExpr:
		n := ast.NewLabeledExpr(at(e))
		if e.Label != nil {
			n.Label = ast.NewIdentifier(at(e.Label), e.Label.Val)
		}
		n.Expr = reposExpr(e.Expr, at)
		return n
	case *ast.AndExpr:
		n := ast.NewAndExpr(at(e))
		n.Expr = reposExpr(e.Expr, at)
		return n
	case *ast.NotExpr:
		n := ast.NewNotExpr(at(e))
		n.Expr = reposExpr(e.Expr, at)
		return n
	case *ast.ZeroOrOneExpr:
		n := ast.NewZeroOrOneExpr(at(e))
		n.Expr = reposExpr(e.Expr, at)
		return n
	case *ast.ZeroOrMoreExpr:
		n := ast.NewZeroOrMoreExpr(at(e))
		n.Expr = reposExpr(e.Expr, at)
		return n
	case *ast.OneOrMoreExpr:
		n := ast.NewOneOrMoreExpr(at(e))
		n.Expr = reposExpr(e.Expr, at)
		return n
	case *ast.ThrowExpr:
		n := ast.NewThrowExpr(at(e))
		n.Label = e.Label
		return n
	case *ast.RuleRefExpr:
		n := ast.NewRuleRefExpr(at(e))
		if e.Name != nil {
			n.Name = ast.NewIdentifier(at(e.Name), e.Name.Val)
		}
		return n
	case *ast.StateCodeExpr:
		n := ast.NewStateCodeExpr(at(e))
		n.Code = reposCode(e.Code, at)
		return n
	case *ast.AndCodeExpr:
		n := ast.NewAndCodeExpr(at(e))
		n.Code = reposCode(e.Code, at)
		return n
	case *ast.NotCodeExpr:
		n := ast.NewNotCodeExpr(at(e))
		n.Code = reposCode(e.Code, at)
		return n
	case *ast.LitMatcher:
		n := ast.NewLitMatcher(at(e), e.Val)
		n.IgnoreCase = e.IgnoreCase
		return n
	case *ast.CharClassMatcher:
		n := NewClass(at(e), e.Val)
		n.Chars = append([]rune(nil), e.Chars...)
		n.Ranges = append([]rune(nil), e.Ranges...)
		n.UnicodeClasses = append([]string(nil), e.UnicodeClasses...)
		n.IgnoreCase, n.Inverted = e.IgnoreCase, e.Inverted
		return n
	case *ast.AnyMatcher:
		return ast.NewAnyMatcher(at(e), e.Val)
	}
	return e
}
