package pvpeg

import (
	"bytes"
	"math/rand"
	"os"
	"regexp"
	"sort"
	"strings"
	"testing"

	"github.com/mna/pigeon/bootstrap"
)

const verifPigeon = "/verif/build/bin/pigeon"

func region(t *testing.T, path string) string {
	b, err := os.ReadFile(path)
	if err != nil {
		t.Skip(err)
	}
	s := string(b)
	i, j := strings.Index(s, "// BEGIN VERIF-ASTDUMP"), strings.Index(s, "// END VERIF-ASTDUMP")
	if i < 0 || j < 0 {
		t.Fatalf("%s: markers not found", path)
	}
	return s[i:j]
}

// The dump code of the hook must be a byte-identical copy.
func TestHookCopy(t *testing.T) {
	if region(t, "dump.go") != region(t, "../../hooks/verif_astdump.go") {
		t.Fatal("dump.go and hooks/verif_astdump.go differ between the VERIF-ASTDUMP markers")
	}
}

func TestUnicodeClassList(t *testing.T) {
	b, err := os.ReadFile("/repo/unicode_classes.go")
	if err != nil {
		t.Skip(err)
	}
	var names []string
	for _, m := range regexp.MustCompile(`"([^"]+)":\s+true`).FindAllStringSubmatch(string(b), -1) {
		names = append(names, m[1])
	}
	sort.Strings(names)
	if strings.Join(names, ",") != strings.Join(UnicodeClasses, ",") {
		t.Fatal("UnicodeClasses is out of date")
	}
}

func TestDumpParseDump(t *testing.T) {
	r := rand.New(rand.NewSource(1))
	for i := 0; i < 300; i++ {
		g := Gen(r, Cfg{})
		pr := PrintPos(g, r, Styles[i%len(Styles)])
		for _, wp := range []bool{false, true} {
			d := Dump(pr.AST, wp)
			g2, err := ParseDump(d)
			if err != nil {
				t.Fatalf("%v\n%s", err, d)
			}
			if d2 := Dump(g2, wp); d2 != d {
				t.Fatalf("dump/parse/dump differs\n%s\n%s", d, d2)
			}
		}
	}
}

func TestDeterministic(t *testing.T) {
	one := func() string {
		r := rand.New(rand.NewSource(7))
		var b strings.Builder
		for i := 0; i < 50; i++ {
			g := Gen(r, Cfg{WellFormed: i%2 == 0, Compilable: i%3 == 0})
			b.WriteString(Print(g, r, Styles[i%len(Styles)]))
		}
		return b.String()
	}
	if one() != one() {
		t.Fatal("generation is not deterministic")
	}
}

func TestWellFormed(t *testing.T) {
	r := rand.New(rand.NewSource(3))
	for i := 0; i < 300; i++ {
		g := Gen(r, Cfg{WellFormed: true, Compilable: i%2 == 0})
		if err := CheckWF(g); err != nil {
			t.Fatalf("%v\n%s", err, Print(g, r, Styles[1]))
		}
	}
}

// Round trip against the real front-end (needs the -tags verif binary).
func TestRoundTrip(t *testing.T) {
	if _, err := os.Stat(verifPigeon); err != nil {
		t.Skip("no " + verifPigeon)
	}
	srv, err := StartServer(verifPigeon)
	if err != nil {
		t.Fatal(err)
	}
	defer srv.Close()
	r := rand.New(rand.NewSource(11))
	for i := 0; i < 400; i++ {
		g := Gen(r, Cfg{WellFormed: i%4 == 0, Compilable: i%5 == 0})
		pr := PrintPos(g, r, Styles[i%len(Styles)])
		a := srv.Parse([]byte(pr.Text))
		if a.Kind != "ok" {
			t.Fatalf("case %d style %s: %s %s\n%s", i, pr.Style, a.Kind, a.Msg, pr.Text)
		}
		if want := Dump(pr.AST, true); a.Dump != want {
			t.Fatalf("case %d style %s: dump differs\n got %s\nwant %s\n%s", i, pr.Style, a.Dump, want, pr.Text)
		}
	}
}

func TestBootstrapAgrees(t *testing.T) {
	r := rand.New(rand.NewSource(5))
	for i := 0; i < 1500; i++ {
		g := Gen(r, Cfg{BootstrapSubset: true, WellFormed: i%3 == 0})
		pr := PrintPos(g, r, SubsetStyles[i%len(SubsetStyles)])
		bg, err := bootstrap.NewParser().Parse("", bytes.NewReader([]byte(pr.Text)))
		if err != nil {
			t.Fatalf("case %d: bootstrap rejects: %v\n%s", i, err, pr.Text)
		}
		if got, want := Dump(UnquoteDisplayNames(Clone(pr.AST)), false), Dump(bg, false); got != want {
			t.Fatalf("case %d: dump differs\nboot %s\nwant %s\n%s", i, want, got, pr.Text)
		}
	}
}

func TestTokensPartition(t *testing.T) {
	r := rand.New(rand.NewSource(9))
	for i := 0; i < 300; i++ {
		text := Print(Gen(r, Cfg{}), r, Styles[i%len(Styles)])
		for k := 0; k < 3; k++ {
			if got := strings.Join(Tokens(text), ""); got != text {
				t.Fatalf("Tokens does not partition the text\n%q\n%q", text, got)
			}
			text, _ = Mutate(r, text, -1)
		}
		if got := strings.Join(Tokens(RawBytes(r, 100)), ""); len(got) < 100 {
			t.Fatalf("RawBytes too short: %d", len(got))
		}
	}
}

// The documented scoping rules on a hand-made grammar.
func TestCodeSites(t *testing.T) {
	g, err := ParseDump(`(Grammar nil (Rule (Identifier "A") nil (ChoiceExpr ` +
		`(ActionExpr (SeqExpr (LabeledExpr (Identifier "a") (AnyMatcher ".")) (AndCodeExpr (CodeBlock "{p}")) ` +
		`(LabeledExpr (Identifier "b") (ZeroOrMoreExpr (ActionExpr (LabeledExpr (Identifier "c") (AnyMatcher ".")) (CodeBlock "{q}"))))) (CodeBlock "{r}")) ` +
		`(SeqExpr (StateCodeExpr (CodeBlock "{s}")) (LabeledExpr (Identifier "d") (AnyMatcher "."))))))`)
	if err != nil {
		t.Fatal(err)
	}
	var got []string
	for _, s := range CodeSites(g) {
		got = append(got, s.FuncName()+"("+strings.Join(s.Params, ",")+")"+s.Kind.String())
	}
	want := "onA6(a)and onA9(c)action onA2(a,b)action onA13()state"
	if strings.Join(got, " ") != want {
		t.Fatalf("got  %s\nwant %s", strings.Join(got, " "), want)
	}
}

// Positions follow pigeon's convention (runes for columns, bytes for offsets,
// a node inside parentheses starts after them, its parent before them).
func TestPositionsHandmade(t *testing.T) {
	if _, err := os.Stat(verifPigeon); err != nil {
		t.Skip("no " + verifPigeon)
	}
	srv, err := StartServer(verifPigeon)
	if err != nil {
		t.Fatal(err)
	}
	defer srv.Close()
	a := srv.Parse([]byte("\né = ( 'ü' b )* // c\n\tb <- .\n"))
	want := `(Grammar@2:0:0 nil (Rule@2:1:1 (Identifier@2:1:1 "é") nil (ZeroOrMoreExpr@2:5:6 (SeqExpr@2:7:8 (LitMatcher@2:7:8 "ü" ic=false) (RuleRefExpr@2:11:13 (Identifier@2:11:13 "b"))))) ` +
		`(Rule@3:2:24 (Identifier@3:2:24 "b") nil (AnyMatcher@3:7:29 ".")))`
	if a.Kind != "ok" || a.Dump != want {
		t.Fatalf("%s %s\n got %s\nwant %s", a.Kind, a.Msg, a.Dump, want)
	}
}
