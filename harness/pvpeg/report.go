package pvpeg

import (
	"encoding/json"
	"fmt"
	"hash/fnv"
	"io"
	"math/rand"
	"os"
	"path/filepath"
	"sort"
	"sync"
	"time"
)

// Failure is one failing evaluation of a tool.
type Failure struct {
	Kind   string   `json:"kind"`
	Detail string   `json:"detail"`
	File   string   `json:"file"`
	Flags  []string `json:"flags"`
}

// Report is the single JSON object that every tool prints.
type Report struct {
	Tool               string                    `json:"tool"`
	Seed               int64                     `json:"seed"`
	Evaluations        int                       `json:"evaluations"`
	DistinctNontrivial int                       `json:"distinct_nontrivial"`
	FailureCount       int                       `json:"failure_count"`
	FailuresByKind     map[string]int            `json:"failures_by_kind"`
	Failures           []Failure                 `json:"failures"`
	Stats              map[string]map[string]int `json:"stats"`
	Samples            []string                  `json:"samples"`
	WallS              float64                   `json:"wall_s"`
	PerSecond          float64                   `json:"per_second"`

	start  time.Time
	seen   map[uint64]bool
	outDir string
	mu     sync.Mutex // the tools call Count / Seen / Fail / Sample from worker goroutines
}

// MaxReported is the number of failures listed in the report (all of them
// are counted and saved under -out).
const MaxReported = 20

// NewReport starts a report.
func NewReport(tool string, seed int64, outDir string) *Report {
	return &Report{Tool: tool, Seed: seed, FailuresByKind: map[string]int{}, Failures: []Failure{}, Stats: map[string]map[string]int{},
		Samples: []string{}, start: time.Now(), seen: map[uint64]bool{}, outDir: outDir}
}

// Count adds n to the counter key of the distribution dist.
func (r *Report) Count(dist, key string, n int) {
	r.mu.Lock()
	defer r.mu.Unlock()
	m := r.Stats[dist]
	if m == nil {
		m = map[string]int{}
		r.Stats[dist] = m
	}
	m[key] += n
}

// Seen records an evaluated input; a non-trivial one counts towards
// distinct_nontrivial once.
func (r *Report) Seen(input string, nontrivial bool) {
	r.mu.Lock()
	defer r.mu.Unlock()
	r.Evaluations++
	if !nontrivial {
		return
	}
	h := fnv.New64a()
	io.WriteString(h, input)
	if k := h.Sum64(); !r.seen[k] {
		r.seen[k] = true
		r.DistinctNontrivial++
	}
}

// Sample keeps up to three sample inputs.
func (r *Report) Sample(s string) {
	r.mu.Lock()
	defer r.mu.Unlock()
	if len(r.Samples) < 3 {
		if len(s) > 600 {
			s = s[:600] + "...[cut]"
		}
		r.Samples = append(r.Samples, s)
	}
}

// Fail records a failure and saves the input under the -out directory.
func (r *Report) Fail(kind, detail, name, input string, flags []string) {
	r.mu.Lock()
	defer r.mu.Unlock()
	r.FailureCount++
	r.FailuresByKind[kind]++
	file := ""
	if r.outDir != "" {
		if err := os.MkdirAll(r.outDir, 0o755); err == nil {
			file = filepath.Join(r.outDir, name)
			if err := os.WriteFile(file, []byte(input), 0o644); err != nil {
				file = ""
			}
		}
	}
	if len(r.Failures) < MaxReported {
		if len(detail) > 700 {
			detail = detail[:700] + "...[cut]"
		}
		if flags == nil {
			flags = []string{}
		}
		r.Failures = append(r.Failures, Failure{Kind: kind, Detail: detail, File: file, Flags: flags})
	}
}

// Print writes the report as one JSON object.
func (r *Report) Print(w io.Writer) {
	r.WallS = float64(time.Since(r.start).Milliseconds()) / 1000
	if r.WallS > 0 {
		r.PerSecond = float64(int(10*float64(r.Evaluations)/r.WallS)) / 10
	}
	enc := json.NewEncoder(w)
	enc.SetEscapeHTML(false)
	enc.Encode(r)
}

// SizeBucket names the power-of-two bucket of a size.
func SizeBucket(n int) string {
	lo := 0
	for hi := 64; ; hi *= 2 {
		if n < hi {
			return fmt.Sprintf("%05d-%05d", lo, hi-1)
		}
		lo = hi
	}
}

// SubRand derives an independent generator for item i of a stream from the
// one seed of a tool, so that items can be processed in parallel and still
// be reproducible one by one.
func SubRand(seed int64, stream, i int) *rand.Rand {
	z := uint64(seed)*0x9e3779b97f4a7c15 + uint64(stream)*0xbf58476d1ce4e5b9 + uint64(i)*0x94d049bb133111eb + 0x2545f4914f6cdd1d
	z = (z ^ (z >> 30)) * 0xbf58476d1ce4e5b9
	z = (z ^ (z >> 27)) * 0x94d049bb133111eb
	z ^= z >> 31
	return rand.New(rand.NewSource(int64(z)))
}

// SortedKeys returns the keys of m in order.
func SortedKeys[V any](m map[string]V) []string {
	ks := make([]string, 0, len(m))
	for k := range m {
		ks = append(ks, k)
	}
	sort.Strings(ks)
	return ks
}

// KindHistogram counts the expression kinds of g into the distribution dist.
func (r *Report) KindHistogram(dist string, exprs []int) {
	for k, n := range exprs {
		if n > 0 {
			r.Count(dist, KindNames[k], n)
		}
	}
}
