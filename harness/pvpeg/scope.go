package pvpeg

import (
	"strconv"

	"github.com/mna/pigeon/ast"
)

// SiteKind tells what kind of code block a CodeSite is.
type SiteKind int

// Code block kinds.
const (
	SiteAction SiteKind = iota
	SiteAnd
	SiteNot
	SiteState
)

func (k SiteKind) String() string {
	return [...]string{"action", "and", "not", "state"}[k]
}

// CodeSite describes one code block of a grammar and what the builder is
// expected to make of it.
type CodeSite struct {
	Rule   string   // name of the enclosing rule
	Index  int      // 1-based pre-order index of the owning expression within the rule
	Kind   SiteKind // action / &{} / !{} / #{}
	Params []string // the labels in scope, in declaration order
	Block  *ast.CodeBlock
}

// FuncName is the name of the generated method: on<Rule><Index>.
func (s CodeSite) FuncName() string { return "on" + s.Rule + strconv.Itoa(s.Index) }

// CodeSites lists the code blocks of g (the init block excluded) in source
// order together with the method name and the parameter list that the
// documentation promises: a code block receives the labels that were declared
// earlier (textually before the block) in the same scope. A scope is opened
// by a rule, by each alternative of a choice, by the body of a labeled
// expression, by the operand of & and !, of ?, * and +, and by a recovery
// expression (one scope for both of its operands). Sequences, actions and
// parentheses do not open a scope; the label of a labeled expression belongs
// to the enclosing scope and is declared before its body.
//
// The expression index counts the expressions of a rule in pre-order starting
// with 1 at the rule's top expression (children in source order; code blocks,
// labels and identifiers are not expressions).
func CodeSites(g *ast.Grammar) []CodeSite {
	var out []CodeSite
	for _, r := range g.Rules {
		w := &siteWalker{rule: r.Name.Val}
		w.scopes = [][]string{nil}
		w.walk(r.Expr)
		out = append(out, w.out...)
	}
	return out
}

type siteWalker struct {
	rule   string
	index  int
	scopes [][]string
	out    []CodeSite
}

func (w *siteWalker) push() { w.scopes = append(w.scopes, nil) }
func (w *siteWalker) pop()  { w.scopes = w.scopes[:len(w.scopes)-1] }

func (w *siteWalker) site(ix int, k SiteKind, b *ast.CodeBlock) {
	top := w.scopes[len(w.scopes)-1]
	w.out = append(w.out, CodeSite{Rule: w.rule, Index: ix, Kind: k, Params: append([]string(nil), top...), Block: b})
}

func (w *siteWalker) walk(e ast.Expression) {
	if e == nil {
		return
	}
	w.index++
	ix := w.index
	switch e := e.(type) {
	case *ast.ActionExpr:
		w.walk(e.Expr)
		w.site(ix, SiteAction, e.Code)
	case *ast.AndCodeExpr:
		w.site(ix, SiteAnd, e.Code)
	case *ast.NotCodeExpr:
		w.site(ix, SiteNot, e.Code)
	case *ast.StateCodeExpr:
		w.site(ix, SiteState, e.Code)
	case *ast.LabeledExpr:
		top := len(w.scopes) - 1
		if e.Label != nil {
			w.scopes[top] = append(w.scopes[top], e.Label.Val)
		}
		w.push()
		w.walk(e.Expr)
		w.pop()
	case *ast.ChoiceExpr:
		for _, a := range e.Alternatives {
			w.push()
			w.walk(a)
			w.pop()
		}
	case *ast.SeqExpr:
		for _, x := range e.Exprs {
			w.walk(x)
		}
	case *ast.RecoveryExpr:
		w.push()
		w.walk(e.Expr)
		w.walk(e.RecoverExpr)
		w.pop()
	case *ast.AndExpr:
		w.push()
		w.walk(e.Expr)
		w.pop()
	case *ast.NotExpr:
		w.push()
		w.walk(e.Expr)
		w.pop()
	case *ast.ZeroOrOneExpr:
		w.push()
		w.walk(e.Expr)
		w.pop()
	case *ast.ZeroOrMoreExpr:
		w.push()
		w.walk(e.Expr)
		w.pop()
	case *ast.OneOrMoreExpr:
		w.push()
		w.walk(e.Expr)
		w.pop()
	}
}

// repairOptimizerShapes rewrites the shapes on which -optimize-grammar is
// known to change the language (D10: merging adjacent literals of a sequence
// mutates a literal that an inlined rule shares with its clones; D11: two
// adjacent inverted classes of a choice are merged into one): the right-hand
// neighbour is wrapped in a labeled expression, which the optimizer treats as
// opaque. The test is a structural over-approximation: "may expose a literal
// at this edge" looks through nested sequences and rule references.
func repairOptimizerShapes(g *ast.Grammar) {
	rules := map[string]*ast.Rule{}
	for _, r := range g.Rules {
		rules[r.Name.Val] = r
	}
	var edgeLit func(e ast.Expression, right bool, seen map[string]bool) bool
	edgeLit = func(e ast.Expression, right bool, seen map[string]bool) bool {
		switch e := e.(type) {
		case *ast.LitMatcher:
			return true
		case *ast.SeqExpr:
			if len(e.Exprs) == 0 {
				return false
			}
			if right {
				return edgeLit(e.Exprs[len(e.Exprs)-1], right, seen)
			}
			return edgeLit(e.Exprs[0], right, seen)
		case *ast.RuleRefExpr:
			r := rules[e.Name.Val]
			if r == nil || seen[e.Name.Val] {
				return false
			}
			seen[e.Name.Val] = true
			return edgeLit(r.Expr, right, seen)
		}
		return false
	}
	var invClass func(e ast.Expression, seen map[string]bool) bool
	invClass = func(e ast.Expression, seen map[string]bool) bool {
		switch e := e.(type) {
		case *ast.CharClassMatcher:
			return e.Inverted
		case *ast.ChoiceExpr:
			for _, a := range e.Alternatives {
				if invClass(a, seen) {
					return true
				}
			}
		case *ast.RuleRefExpr:
			r := rules[e.Name.Val]
			if r == nil || seen[e.Name.Val] {
				return false
			}
			seen[e.Name.Val] = true
			return invClass(r.Expr, seen)
		}
		return false
	}
	n := 0
	wrap := func(x ast.Expression) ast.Expression {
		n++
		l := ast.NewLabeledExpr(ast.Pos{})
		l.Label = ast.NewIdentifier(ast.Pos{}, "lk"+strconv.Itoa(n)+"_")
		l.Expr = x
		return l
	}
	for changed := true; changed; {
		changed = false
		for _, r := range g.Rules {
			WalkExpr(r.Expr, func(e ast.Expression) {
				switch e := e.(type) {
				case *ast.SeqExpr:
					for i := 1; i < len(e.Exprs); i++ {
						if edgeLit(e.Exprs[i-1], true, map[string]bool{}) && edgeLit(e.Exprs[i], false, map[string]bool{}) {
							e.Exprs[i] = wrap(e.Exprs[i])
							changed = true
						}
					}
				case *ast.ChoiceExpr:
					for i := 1; i < len(e.Alternatives); i++ {
						if invClass(e.Alternatives[i-1], map[string]bool{}) && invClass(e.Alternatives[i], map[string]bool{}) {
							e.Alternatives[i] = wrap(e.Alternatives[i])
							changed = true
						}
					}
				}
			})
		}
	}
}

// repairDoubleInlining avoids D5 for grammars whose labels are all unique:
// -optimize-grammar replaces a reference to a rule by a copy of the rule's
// expression, and the labels in the top scope of that expression then belong
// to the scope of the referencing site. Two references to the same rule from
// one scope give a duplicate parameter name. Every reference to a rule that
// (transitively, through references in its own top scope) exposes a label
// and that is referenced more than once is wrapped in a labeled expression,
// whose body is a scope of its own.
func repairDoubleInlining(g *ast.Grammar) {
	rules := map[string]*ast.Rule{}
	refs := map[string]int{}
	for _, r := range g.Rules {
		rules[r.Name.Val] = r
	}
	for _, r := range g.Rules {
		WalkExpr(r.Expr, func(e ast.Expression) {
			if x, ok := e.(*ast.RuleRefExpr); ok {
				refs[x.Name.Val]++
			}
		})
	}
	exposes := map[string]bool{}
	var top func(e ast.Expression) bool // a label (or an exposing reference) in the current scope
	top = func(e ast.Expression) bool {
		switch e := e.(type) {
		case *ast.LabeledExpr:
			return true
		case *ast.SeqExpr:
			for _, x := range e.Exprs {
				if top(x) {
					return true
				}
			}
		case *ast.ActionExpr:
			return top(e.Expr)
		case *ast.RuleRefExpr:
			return exposes[e.Name.Val]
		}
		return false
	}
	for changed := true; changed; {
		changed = false
		for _, r := range g.Rules {
			if !exposes[r.Name.Val] && top(r.Expr) {
				exposes[r.Name.Val] = true
				changed = true
			}
		}
	}
	n := 0
	var fix func(e ast.Expression) ast.Expression
	fix = func(e ast.Expression) ast.Expression {
		switch e := e.(type) {
		case *ast.RuleRefExpr:
			if exposes[e.Name.Val] && refs[e.Name.Val] > 1 {
				n++
				l := ast.NewLabeledExpr(ast.Pos{})
				l.Label = ast.NewIdentifier(ast.Pos{}, "lw"+strconv.Itoa(n)+"_")
				l.Expr = e
				return l
			}
		case *ast.ChoiceExpr:
			for i := range e.Alternatives {
				e.Alternatives[i] = fix(e.Alternatives[i])
			}
		case *ast.SeqExpr:
			for i := range e.Exprs {
				e.Exprs[i] = fix(e.Exprs[i])
			}
		case *ast.RecoveryExpr:
			e.Expr, e.RecoverExpr = fix(e.Expr), fix(e.RecoverExpr)
		case *ast.ActionExpr:
			e.Expr = fix(e.Expr)
		case *ast.LabeledExpr:
			if _, ok := e.Expr.(*ast.RuleRefExpr); !ok {
				e.Expr = fix(e.Expr)
			}
		case *ast.AndExpr:
			e.Expr = fix(e.Expr)
		case *ast.NotExpr:
			e.Expr = fix(e.Expr)
		case *ast.ZeroOrOneExpr:
			e.Expr = fix(e.Expr)
		case *ast.ZeroOrMoreExpr:
			e.Expr = fix(e.Expr)
		case *ast.OneOrMoreExpr:
			e.Expr = fix(e.Expr)
		}
		return e
	}
	for _, r := range g.Rules {
		r.Expr = fix(r.Expr)
	}
}
