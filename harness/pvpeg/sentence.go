package pvpeg

import (
	"math/rand"
	"strings"
	"unicode"

	"github.com/mna/pigeon/ast"
)

func classTable(name string) *unicode.RangeTable {
	if t, ok := unicode.Categories[name]; ok {
		return t
	}
	if t, ok := unicode.Properties[name]; ok {
		return t
	}
	if t, ok := unicode.Scripts[name]; ok {
		return t
	}
	return nil
}

// ClassHas reports whether the class matches c (inversion and, roughly, the
// i flag taken into account). It is only used to draw sentences.
func ClassHas(e *ast.CharClassMatcher, c rune) bool {
	in := func(c rune) bool {
		for _, x := range e.Chars {
			if x == c {
				return true
			}
		}
		for i := 0; i+1 < len(e.Ranges); i += 2 {
			if e.Ranges[i] <= c && c <= e.Ranges[i+1] {
				return true
			}
		}
		for _, n := range e.UnicodeClasses {
			if t := classTable(n); t != nil && unicode.Is(t, c) {
				return true
			}
		}
		return false
	}
	ok := in(c)
	if !ok && e.IgnoreCase {
		ok = in(unicode.ToLower(c)) || in(unicode.ToUpper(c))
	}
	return ok != e.Inverted
}

func tableRune(r *rand.Rand, t *unicode.RangeTable) (rune, bool) {
	n := len(t.R16) + len(t.R32)
	if n == 0 {
		return 0, false
	}
	i := r.Intn(n)
	if i < len(t.R16) {
		x := t.R16[i]
		k := r.Intn(int((x.Hi-x.Lo)/x.Stride) + 1)
		return rune(x.Lo) + rune(k)*rune(x.Stride), true
	}
	x := t.R32[i-len(t.R16)]
	k := r.Intn(int((x.Hi-x.Lo)/x.Stride) + 1)
	return rune(x.Lo) + rune(k)*rune(x.Stride), true
}

func validScalar(c rune) bool {
	return c >= 0 && c <= unicode.MaxRune && !(0xd800 <= c && c <= 0xdfff) && c != 0xfffd
}

// classRune draws a rune that the class matches (false if none was found).
func classRune(r *rand.Rand, e *ast.CharClassMatcher) (rune, bool) {
	const probe = "abcxyzABCXYZ0189 _+-*/().,;:\n\té世"
	if e.Inverted {
		for try := 0; try < 30; try++ {
			c := []rune(probe)[r.Intn(len([]rune(probe)))]
			if ClassHas(e, c) {
				return c, true
			}
		}
		return 0, false
	}
	n := len(e.Chars) + len(e.Ranges)/2 + len(e.UnicodeClasses)
	for try := 0; try < 10 && n > 0; try++ {
		i := r.Intn(n)
		var c rune
		switch {
		case i < len(e.Chars):
			c = e.Chars[i]
		case i < len(e.Chars)+len(e.Ranges)/2:
			j := 2 * (i - len(e.Chars))
			lo, hi := e.Ranges[j], e.Ranges[j+1]
			if hi < lo {
				continue
			}
			span := int(hi - lo)
			if span > 40 && r.Intn(2) == 0 {
				span = 40
			}
			c = lo + rune(r.Intn(span+1))
		default:
			t := classTable(e.UnicodeClasses[i-len(e.Chars)-len(e.Ranges)/2])
			if t == nil {
				continue
			}
			var ok bool
			if c, ok = tableRune(r, t); !ok {
				continue
			}
		}
		if validScalar(c) {
			return c, true
		}
	}
	return 0, false
}

// Sentence draws an input by a random derivation from the first rule of g.
// Predicates and code blocks are ignored, so the result is only likely, not
// certain, to be accepted.
func Sentence(r *rand.Rand, g *ast.Grammar) string {
	rules := map[string]*ast.Rule{}
	for _, x := range g.Rules {
		rules[x.Name.Val] = x
	}
	var b strings.Builder
	var derive func(e ast.Expression, depth int)
	derive = func(e ast.Expression, depth int) {
		if b.Len() > 60 {
			return
		}
		switch e := e.(type) {
		case *ast.LitMatcher:
			if e.IgnoreCase && r.Intn(2) == 0 {
				b.WriteString(strings.ToUpper(e.Val))
			} else {
				b.WriteString(e.Val)
			}
		case *ast.CharClassMatcher:
			if c, ok := classRune(r, e); ok {
				b.WriteRune(c)
			}
		case *ast.AnyMatcher:
			b.WriteRune([]rune("ab1 é\n")[r.Intn(6)])
		case *ast.SeqExpr:
			for _, x := range e.Exprs {
				derive(x, depth)
			}
		case *ast.ChoiceExpr:
			derive(e.Alternatives[r.Intn(len(e.Alternatives))], depth)
		case *ast.ZeroOrOneExpr:
			if r.Intn(2) == 0 {
				derive(e.Expr, depth)
			}
		case *ast.ZeroOrMoreExpr:
			for n := r.Intn(3); n > 0; n-- {
				derive(e.Expr, depth)
			}
		case *ast.OneOrMoreExpr:
			for n := 1 + r.Intn(2); n > 0; n-- {
				derive(e.Expr, depth)
			}
		case *ast.RuleRefExpr:
			if x := rules[e.Name.Val]; x != nil && depth < 8 {
				derive(x.Expr, depth+1)
			}
		case *ast.ActionExpr:
			derive(e.Expr, depth)
		case *ast.LabeledExpr:
			derive(e.Expr, depth)
		case *ast.RecoveryExpr:
			derive(e.Expr, depth)
		}
	}
	if len(g.Rules) > 0 {
		derive(g.Rules[0].Expr, 0)
	}
	return b.String()
}
