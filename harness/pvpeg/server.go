package pvpeg

import (
	"bufio"
	"encoding/hex"
	"fmt"
	"io"
	"os"
	"os/exec"
	"strconv"
	"strings"
)

// Server is a client of the AST dump server that a pigeon binary built with
// `-tags verif` becomes when PIGEON_VERIF_ASTDUMP is set (see
// /verif/hooks/verif_astdump.go): one long-lived child process.
type Server struct {
	path string
	cmd  *exec.Cmd
	in   io.WriteCloser
	out  *bufio.Reader
	// Restarts counts how often the child had to be started again.
	Restarts int
}

// Answer is one reply of the server.
type Answer struct {
	Kind string // "ok", "err", "panic" or "dead" (the child died on this input)
	Dump string // Kind == "ok"
	Msg  string // decoded message otherwise
}

// StartServer starts the child process.
func StartServer(pigeon string) (*Server, error) {
	s := &Server{path: pigeon}
	if err := s.start(); err != nil {
		return nil, err
	}
	// make sure the binary really has the hook
	a := s.Parse([]byte("A = 'a'\n"))
	if a.Kind != "ok" {
		s.Close()
		return nil, fmt.Errorf("%s does not answer as an AST dump server (built without -tags verif?): %s %s", pigeon, a.Kind, a.Msg)
	}
	return s, nil
}

func (s *Server) start() error {
	cmd := exec.Command(s.path)
	cmd.Env = append(os.Environ(), "PIGEON_VERIF_ASTDUMP=1", "GOMAXPROCS=1", "GOGC=400")
	cmd.Stderr = nil
	in, err := cmd.StdinPipe()
	if err != nil {
		return err
	}
	out, err := cmd.StdoutPipe()
	if err != nil {
		return err
	}
	if err := cmd.Start(); err != nil {
		return err
	}
	s.cmd, s.in, s.out = cmd, in, bufio.NewReaderSize(out, 1<<20)
	return nil
}

// Parse sends one text and returns the answer. If the child dies (stack
// overflow, os.Exit in the parser, ...) the answer has Kind "dead" and the
// child is restarted.
func (s *Server) Parse(text []byte) Answer {
	frame := make([]byte, 0, len(text)+12)
	frame = strconv.AppendInt(frame, int64(len(text)), 10)
	frame = append(frame, '\n')
	frame = append(frame, text...)
	_, werr := s.in.Write(frame)
	var line string
	var rerr error
	if werr == nil {
		line, rerr = s.out.ReadString('\n')
	}
	if werr != nil || rerr != nil {
		s.in.Close()
		s.cmd.Wait()
		s.Restarts++
		msg := fmt.Sprint(werr, rerr)
		if err := s.start(); err != nil {
			msg += "; restart failed: " + err.Error()
		}
		return Answer{Kind: "dead", Msg: msg}
	}
	line = strings.TrimSuffix(line, "\n")
	kind, rest, _ := strings.Cut(line, " ")
	switch kind {
	case "ok":
		return Answer{Kind: "ok", Dump: rest}
	case "err", "panic":
		b, err := hex.DecodeString(rest)
		if err != nil {
			return Answer{Kind: kind, Msg: rest}
		}
		return Answer{Kind: kind, Msg: string(b)}
	}
	return Answer{Kind: "dead", Msg: "unintelligible answer: " + line}
}

// Close ends the child process (EOF on its stdin; it exits 0).
func (s *Server) Close() error {
	s.in.Close()
	return s.cmd.Wait()
}
