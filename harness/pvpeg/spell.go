package pvpeg

import (
	"fmt"
	"math/rand"
	"strings"
	"unicode/utf8"

	"github.com/mna/pigeon/ast"
)

// Avoid groups the known-defect avoidance switches. The zero value avoids
// everything (the default of every tool); a true field LIFTS that avoidance.
// IncludeKnown() lifts all of them (-include-known), ParseAvoid lifts the
// named ones (-lift name,name).
type Avoid struct {
	// D3 (REPAIRED, the switch no longer has an effect): `-` as a class member anywhere but the first/last
	// position, or written as an escape. Dashes are now generated everywhere, escaped where a plain one would be the
	// range operator (ClassItem.Esc).
	ClassDash bool
	// D20: a block comment with a newline in the EOS position before a
	// newline terminator.
	MultiLineEOS bool
	// D21: `//{` inside a code block.
	CodeSlashSlashBrace bool
	// "\400": octal escapes above \377 (not generated at all at present).
	BigOctal bool
	// i flag on classes with ranges or Unicode classes (D14).
	ClassFoldRanges bool
	// F1: reserved words as rule names (findings_tools/F1-*).
	ReservedRuleNames bool
	// F2: '\xHH' / '\NNN' >= 0x80 in single-quoted literals (byte, not rune).
	QuoteByteRune bool
	// F3: the bootstrap scanner rejects escapes of U+E000.
	BootE000 bool
	// D10/D11: shapes on which -optimize-grammar changes the language
	// (adjacent literals around an inlined rule, adjacent inverted classes).
	OptMerge bool
	// D5: a rule with labels in its top scope that is referenced more than
	// once (inlined twice into one scope by -optimize-grammar: duplicate
	// parameter names even though every label is unique).
	OptDupLabels bool
	// D13: -optimize-grammar on grammars with throw/recover or undefined
	// rule references (pvtool, pve2e).
	OptThrow bool
	// F4: -no-recover on texts on which an action of the front-end grammar
	// panics (pvtool).
	NoRecoverPanic bool
}

var avoidNames = []struct {
	name string
	get  func(*Avoid) *bool
}{
	{"classdash", func(a *Avoid) *bool { return &a.ClassDash }},
	{"multilineeos", func(a *Avoid) *bool { return &a.MultiLineEOS }},
	{"slashslashbrace", func(a *Avoid) *bool { return &a.CodeSlashSlashBrace }},
	{"bigoctal", func(a *Avoid) *bool { return &a.BigOctal }},
	{"classfold", func(a *Avoid) *bool { return &a.ClassFoldRanges }},
	{"reserved", func(a *Avoid) *bool { return &a.ReservedRuleNames }},
	{"quotebyte", func(a *Avoid) *bool { return &a.QuoteByteRune }},
	{"boote000", func(a *Avoid) *bool { return &a.BootE000 }},
	{"optmerge", func(a *Avoid) *bool { return &a.OptMerge }},
	{"optduplabels", func(a *Avoid) *bool { return &a.OptDupLabels }},
	{"optthrow", func(a *Avoid) *bool { return &a.OptThrow }},
	{"norecoverpanic", func(a *Avoid) *bool { return &a.NoRecoverPanic }},
}

// IncludeKnown returns the Avoid value that lifts every avoidance.
func IncludeKnown() Avoid {
	var a Avoid
	for _, n := range avoidNames {
		*n.get(&a) = true
	}
	return a
}

// AvoidNames lists the names that ParseAvoid understands.
func AvoidNames() []string {
	var out []string
	for _, n := range avoidNames {
		out = append(out, n.name)
	}
	return out
}

// ParseAvoid builds the Avoid value of a tool from its -include-known and
// -lift flags (lift is a comma-separated list of AvoidNames).
func ParseAvoid(includeKnown bool, lift string) (Avoid, error) {
	var a Avoid
	if includeKnown {
		a = IncludeKnown()
	}
	for _, w := range strings.Split(lift, ",") {
		w = strings.TrimSpace(w)
		if w == "" {
			continue
		}
		ok := false
		for _, n := range avoidNames {
			if n.name == w {
				*n.get(&a) = true
				ok = true
			}
		}
		if !ok {
			return a, fmt.Errorf("unknown avoidance %q (known: %s)", w, strings.Join(AvoidNames(), ", "))
		}
	}
	return a, nil
}

const hexLower = "0123456789abcdef"
const hexUpper = "0123456789ABCDEF"

func hexN(r *rand.Rand, v uint32, n int) string {
	digits := hexLower
	switch r.Intn(3) {
	case 0:
		digits = hexUpper
	case 1:
		// mixed
		var b strings.Builder
		for i := n - 1; i >= 0; i-- {
			d := (v >> (4 * uint(i))) & 15
			if r.Intn(2) == 0 {
				b.WriteByte(hexLower[d])
			} else {
				b.WriteByte(hexUpper[d])
			}
		}
		return b.String()
	}
	var b strings.Builder
	for i := n - 1; i >= 0; i-- {
		b.WriteByte(digits[(v>>(4*uint(i)))&15])
	}
	return b.String()
}

var simpleEsc = map[rune]byte{'\a': 'a', '\b': 'b', '\f': 'f', '\n': 'n', '\r': 'r', '\t': 't', '\v': 'v', '\\': '\\'}

// spellRune returns one random spelling of the rune c inside a literal that
// is quoted with quote ('"' or '\”) or inside a class (quote ']'). In a
// double-quoted literal and for multi-byte runes the byte escapes \xHH and
// \NNN spell the UTF-8 bytes one by one; in a class they denote the code
// point.
func spellRune(r *rand.Rand, c rune, quote byte, escBias int) string {
	var opts []string
	raw := c != '\n' && c != '\\' && c != rune(quote)
	if quote == ']' && c == '^' {
		// handled by the caller for the first position; elsewhere raw is fine
		raw = true
	}
	if raw {
		opts = append(opts, string(c))
		for i := 0; i < escBias; i++ {
			opts = append(opts, string(c))
		}
	}
	if e, ok := simpleEsc[c]; ok {
		opts = append(opts, "\\"+string(e), "\\"+string(e))
	}
	if c == rune(quote) {
		opts = append(opts, "\\"+string(quote), "\\"+string(quote))
	}
	switch quote {
	case '"':
		if c < 0x80 {
			opts = append(opts, "\\x"+hexN(r, uint32(c), 2), fmt.Sprintf("\\%03o", c))
		} else {
			var buf [4]byte
			n := utf8.EncodeRune(buf[:], c)
			var hx, oc strings.Builder
			for _, b := range buf[:n] {
				hx.WriteString("\\x" + hexN(r, uint32(b), 2))
				fmt.Fprintf(&oc, "\\%03o", b)
			}
			opts = append(opts, hx.String(), oc.String())
		}
	case '\'':
		if c < 0x80 {
			opts = append(opts, "\\x"+hexN(r, uint32(c), 2), fmt.Sprintf("\\%03o", c))
		}
	case ']':
		if c <= 0xff {
			opts = append(opts, "\\x"+hexN(r, uint32(c), 2), fmt.Sprintf("\\%03o", c))
		}
	}
	if c <= 0xffff {
		opts = append(opts, "\\u"+hexN(r, uint32(c), 4))
	}
	opts = append(opts, "\\U"+hexN(r, uint32(c), 8))
	return opts[r.Intn(len(opts))]
}

// validRunes reports whether s is valid UTF-8 that does not contain an
// encoded surrogate or U+FFFD-by-error.
func validRunes(s string) bool { return utf8.ValidString(s) }

// LitForms lists the quotings ('"', '\”, '`') that can denote val.
func LitForms(val string) []byte {
	forms := []byte{'"'}
	if validRunes(val) && utf8.RuneCountInString(val) == 1 {
		forms = append(forms, '\'')
	}
	if validRunes(val) && !strings.ContainsAny(val, "`\r") {
		forms = append(forms, '`')
	}
	return forms
}

// SpellLit writes the string literal text (without any i suffix) that
// denotes val, with a random quoting and random escapes. form 0 picks a
// random admissible quoting.
func SpellLit(r *rand.Rand, val string, form byte, av Avoid) string {
	forms := LitForms(val)
	ok := false
	for _, f := range forms {
		if f == form {
			ok = true
		}
	}
	if !ok {
		form = forms[r.Intn(len(forms))]
	}
	escBias := r.Intn(4) // how strongly raw spellings are preferred
	var b strings.Builder
	switch form {
	case '`':
		b.WriteByte('`')
		if r.Intn(6) == 0 {
			// a carriage return inside a raw literal is not part of its value (as in Go; both front ends
			// discard it): a CRLF file with a multi-line raw literal denotes the same grammar
			at := 0
			if len(val) > 0 {
				at = r.Intn(len(val) + 1)
				for at < len(val) && !utf8.RuneStart(val[at]) {
					at++
				}
			}
			b.WriteString(val[:at] + "\r" + val[at:])
		} else {
			b.WriteString(val)
		}
		b.WriteByte('`')
	case '\'':
		c, _ := utf8.DecodeRuneInString(val)
		b.WriteByte('\'')
		s := spellRune(r, c, '\'', escBias)
		if av.QuoteByteRune && c >= 0x80 && c <= 0xff && r.Intn(3) == 0 {
			if r.Intn(2) == 0 {
				s = "\\x" + hexN(r, uint32(c), 2)
			} else {
				s = fmt.Sprintf("\\%03o", c)
			}
		}
		b.WriteString(s)
		b.WriteByte('\'')
	default:
		b.WriteByte('"')
		for i := 0; i < len(val); {
			c, n := utf8.DecodeRuneInString(val[i:])
			if c == utf8.RuneError && n == 1 {
				// an invalid byte can only be written as a byte escape
				if r.Intn(2) == 0 {
					b.WriteString("\\x" + hexN(r, uint32(val[i]), 2))
				} else {
					fmt.Fprintf(&b, "\\%03o", val[i])
				}
				i++
				continue
			}
			b.WriteString(spellRune(r, c, '"', escBias))
			i += n
		}
		b.WriteByte('"')
	}
	return b.String()
}

// ClassItem is one member of a character class in source order.
type ClassItem struct {
	Lo, Hi  rune   // Lo == Hi for a single character (Class == "")
	IsRange bool   // Lo-Hi written as a range
	Class   string // Unicode class name ("" for chars and ranges)
	Short   bool   // \pL spelling rather than \p{L}
	// Esc: a `-` among the bounds of this item is written as an escape sequence (\x2d, \055, \u002d): it is then a
	// character wherever it stands (since the repair of finding D3); a plain `-` is only safe as the very first or very
	// last member or right after a complete range
	Esc bool
}

// BuildClass spells a class with the given members in random concrete
// spellings and returns the node with Val = the raw text and the derived
// fields computed from the model (not by pigeon's class parser).
func BuildClass(r *rand.Rand, items []ClassItem, inverted, ignoreCase bool, av Avoid) *ast.CharClassMatcher {
	var b strings.Builder
	b.WriteByte('[')
	if inverted {
		b.WriteByte('^')
	}
	var chars, ranges []rune
	var classes []string
	esc := r.Intn(4)
	escDash := false
	spell := func(c rune, first bool) string {
		if c == '-' {
			if escDash || r.Intn(3) == 0 {
				return []string{"\\x2d", "\\x2D", "\\055", "\\u002d", "\\U0000002d"}[r.Intn(5)]
			}
			return "-"
		}
		if c == '^' && first && !inverted {
			return []string{"\\x5e", "\\136", "\\u005e", "\\U0000005E"}[r.Intn(4)]
		}
		return spellRune(r, c, ']', esc)
	}
	for i, it := range items {
		first := i == 0
		escDash = it.Esc
		switch {
		case it.Class != "":
			if it.Short && len(it.Class) == 1 {
				b.WriteString("\\p" + it.Class)
			} else {
				b.WriteString("\\p{" + it.Class + "}")
			}
			classes = append(classes, it.Class)
		case it.IsRange:
			b.WriteString(spell(it.Lo, first))
			b.WriteByte('-')
			b.WriteString(spell(it.Hi, false))
			ranges = append(ranges, it.Lo, it.Hi)
		default:
			b.WriteString(spell(it.Lo, first))
			chars = append(chars, it.Lo)
		}
	}
	b.WriteByte(']')
	if ignoreCase {
		b.WriteByte('i')
	}
	e := NewClass(ast.Pos{}, b.String())
	e.Chars, e.Ranges, e.UnicodeClasses = chars, ranges, classes
	e.IgnoreCase, e.Inverted = ignoreCase, inverted
	return e
}
