package pvpeg

import (
	"strconv"

	"github.com/mna/pigeon/ast"
)

// UnquoteDisplayNames replaces, in place, the display name of every rule by
// its unquoted value and returns g. The two front-ends differ here by design:
// pigeon.peg stores the raw text of the string literal (quotes and escapes
// included, the builder then %q-quotes it again into the generated parser),
// bootstrap/parser.go stores strconv.Unquote of it. A display name that does
// not unquote is left as it is.
func UnquoteDisplayNames(g *ast.Grammar) *ast.Grammar {
	for _, r := range g.Rules {
		if r != nil && r.DisplayName != nil {
			if s, err := strconv.Unquote(r.DisplayName.Val); err == nil {
				r.DisplayName.Val = s
			}
		}
	}
	return g
}
