package pvpeg

import (
	"fmt"

	"github.com/mna/pigeon/ast"
)

// Children returns the direct sub-expressions of e in source order.
func Children(e ast.Expression) []ast.Expression {
	switch e := e.(type) {
	case *ast.ChoiceExpr:
		return e.Alternatives
	case *ast.SeqExpr:
		return e.Exprs
	case *ast.RecoveryExpr:
		return []ast.Expression{e.Expr, e.RecoverExpr}
	case *ast.ActionExpr:
		return []ast.Expression{e.Expr}
	case *ast.LabeledExpr:
		return []ast.Expression{e.Expr}
	case *ast.AndExpr:
		return []ast.Expression{e.Expr}
	case *ast.NotExpr:
		return []ast.Expression{e.Expr}
	case *ast.ZeroOrOneExpr:
		return []ast.Expression{e.Expr}
	case *ast.ZeroOrMoreExpr:
		return []ast.Expression{e.Expr}
	case *ast.OneOrMoreExpr:
		return []ast.Expression{e.Expr}
	}
	return nil
}

// WalkExpr calls f on e and on every expression below it, parents first.
func WalkExpr(e ast.Expression, f func(ast.Expression)) {
	if e == nil {
		return
	}
	f(e)
	for _, k := range Children(e) {
		WalkExpr(k, f)
	}
}

// KindOf returns the index of e's kind in KindNames, -1 for anything else.
func KindOf(e ast.Expression) int {
	switch e.(type) {
	case *ast.ChoiceExpr:
		return kChoice
	case *ast.SeqExpr:
		return kSeq
	case *ast.RecoveryExpr:
		return kRecovery
	case *ast.ActionExpr:
		return kAction
	case *ast.LabeledExpr:
		return kLabeled
	case *ast.AndExpr:
		return kAnd
	case *ast.NotExpr:
		return kNot
	case *ast.ZeroOrOneExpr:
		return kOpt
	case *ast.ZeroOrMoreExpr:
		return kStar
	case *ast.OneOrMoreExpr:
		return kPlus
	case *ast.ThrowExpr:
		return kThrow
	case *ast.RuleRefExpr:
		return kRef
	case *ast.StateCodeExpr:
		return kState
	case *ast.AndCodeExpr:
		return kAndCode
	case *ast.NotCodeExpr:
		return kNotCode
	case *ast.LitMatcher:
		return kLit
	case *ast.CharClassMatcher:
		return kClass
	case *ast.AnyMatcher:
		return kAny
	}
	return -1
}

// nullableWith is nullable': true when e may succeed without consuming input
// according to the runtime OR according to pigeon's own NullableVisit
// (whichever says yes). ruleNull answers for rule references.
func nullableWith(e ast.Expression, ruleNull func(string) bool) bool {
	switch e := e.(type) {
	case *ast.LitMatcher:
		// the empty literal; a literal made of U+FFFD only matches at end of
		// input with zero width (D1)
		for _, c := range e.Val {
			if c != 0xfffd {
				return false
			}
		}
		return true
	case *ast.CharClassMatcher:
		// pigeon counts a member-less class as nullable (D19)
		return len(e.Chars) == 0 && len(e.Ranges) == 0 && len(e.UnicodeClasses) == 0
	case *ast.AnyMatcher:
		return false
	case *ast.SeqExpr:
		for _, k := range e.Exprs {
			if !nullableWith(k, ruleNull) {
				return false
			}
		}
		return true
	case *ast.ChoiceExpr:
		for _, k := range e.Alternatives {
			if nullableWith(k, ruleNull) {
				return true
			}
		}
		return false
	case *ast.RuleRefExpr:
		return ruleNull(e.Name.Val)
	case *ast.ActionExpr:
		return nullableWith(e.Expr, ruleNull)
	case *ast.LabeledExpr:
		return nullableWith(e.Expr, ruleNull)
	case *ast.OneOrMoreExpr:
		return nullableWith(e.Expr, ruleNull)
	case *ast.RecoveryExpr:
		// runtime: Expr only; pigeon: either
		return nullableWith(e.Expr, ruleNull) || nullableWith(e.RecoverExpr, ruleNull)
	}
	// ? * & ! throw and the three code expressions
	return true
}

// WF holds the nullability facts of a grammar.
type WF struct {
	Rules    map[string]*ast.Rule
	RuleNull map[string]bool
}

// Analyze computes nullable' for every rule (least fixpoint). Undefined
// rules count as not nullable. Of several rules with the same name the last
// one wins, as in the generated parser's rule table.
func Analyze(g *ast.Grammar) *WF {
	a := &WF{Rules: map[string]*ast.Rule{}, RuleNull: map[string]bool{}}
	for _, r := range g.Rules {
		a.Rules[r.Name.Val] = r
	}
	for changed := true; changed; {
		changed = false
		for _, r := range g.Rules {
			if a.Rules[r.Name.Val] != r {
				continue
			}
			if !a.RuleNull[r.Name.Val] && a.Nullable(r.Expr) {
				a.RuleNull[r.Name.Val] = true
				changed = true
			}
		}
	}
	return a
}

// Nullable is nullable' under the analysis.
func (a *WF) Nullable(e ast.Expression) bool {
	return nullableWith(e, func(n string) bool { return a.RuleNull[n] })
}

type wfNode struct {
	rule string
	rec  *ast.RecoveryExpr
}

// CheckWF returns nil when g obeys the termination discipline of the harness
// (the one of pvterm, over the ast): no star/plus over a nullable' body, and
// no cycle in the "may be entered at the same input position" graph over
// rules and recovery expressions. The graph is the union of what the runtime
// does (& and ! operands are entered, a throw enters every handler of its
// label) and of what pigeon's InitialNames says (the recovery expression is
// an initial of its RecoveryExpr), so a grammar that passes is neither
// left-recursive nor reported as such by pigeon.
func CheckWF(g *ast.Grammar) error {
	a := Analyze(g)
	handlers := map[string][]*ast.RecoveryExpr{}
	var err error
	for _, r := range g.Rules {
		WalkExpr(r.Expr, func(e ast.Expression) {
			switch e := e.(type) {
			case *ast.ZeroOrMoreExpr:
				if err == nil && a.Nullable(e.Expr) {
					err = fmt.Errorf("rule %q: star over a possibly-nullable body", r.Name.Val)
				}
			case *ast.OneOrMoreExpr:
				if err == nil && a.Nullable(e.Expr) {
					err = fmt.Errorf("rule %q: plus over a possibly-nullable body", r.Name.Val)
				}
			case *ast.RecoveryExpr:
				for _, l := range e.Labels {
					handlers[string(l)] = append(handlers[string(l)], e)
				}
			case *ast.RuleRefExpr:
				if err == nil && a.Rules[e.Name.Val] == nil {
					err = fmt.Errorf("rule %q: reference to undefined rule %q", r.Name.Val, e.Name.Val)
				}
			case *ast.CharClassMatcher:
				if err == nil && len(e.Chars) == 0 && len(e.Ranges) == 0 && len(e.UnicodeClasses) == 0 {
					err = fmt.Errorf("rule %q: member-less class", r.Name.Val)
				}
			}
		})
	}
	if err != nil {
		return err
	}
	var calls func(e ast.Expression, out map[wfNode]bool)
	calls = func(e ast.Expression, out map[wfNode]bool) {
		switch e := e.(type) {
		case *ast.RuleRefExpr:
			out[wfNode{rule: e.Name.Val}] = true
		case *ast.ThrowExpr:
			for _, h := range handlers[e.Label] {
				out[wfNode{rec: h}] = true
			}
		case *ast.SeqExpr:
			for _, k := range e.Exprs {
				calls(k, out)
				if !a.Nullable(k) {
					break
				}
			}
		case *ast.RecoveryExpr:
			calls(e.Expr, out)
			calls(e.RecoverExpr, out)
		default:
			for _, k := range Children(e) {
				calls(k, out)
			}
		}
	}
	succ := func(n wfNode) map[wfNode]bool {
		out := map[wfNode]bool{}
		if n.rec != nil {
			calls(n.rec.RecoverExpr, out)
		} else if r := a.Rules[n.rule]; r != nil {
			calls(r.Expr, out)
		}
		return out
	}
	const (
		white = iota
		grey
		black
	)
	colour := map[wfNode]int{}
	var visit func(n wfNode) error
	visit = func(n wfNode) error {
		colour[n] = grey
		for m := range succ(n) {
			switch colour[m] {
			case grey:
				if m.rec != nil {
					return fmt.Errorf("a recovery expression can re-enter itself at the same position")
				}
				return fmt.Errorf("rule %q is left-recursive", m.rule)
			case white:
				if err := visit(m); err != nil {
					return err
				}
			}
		}
		colour[n] = black
		return nil
	}
	for _, r := range g.Rules {
		n := wfNode{rule: r.Name.Val}
		if colour[n] == white {
			if err := visit(n); err != nil {
				return err
			}
		}
	}
	for _, hs := range handlers {
		for _, h := range hs {
			n := wfNode{rec: h}
			if colour[n] == white {
				if err := visit(n); err != nil {
					return err
				}
			}
		}
	}
	return nil
}

// Normalize applies, in place, the normalisations of the pigeon front-end
// that a hand-built AST may lack, and returns g: a sequence of one element
// and a choice of one alternative are replaced by that element (the parser
// never builds them; parentheses leave no trace). Everything else in the AST
// is kept by the front-end as written: nested sequences and choices stay
// nested, LitMatcher.Val is the unescaped value, StringLit/CodeBlock/class
// Val are raw text. Gen already produces this normal form.
func Normalize(g *ast.Grammar) *ast.Grammar {
	for _, r := range g.Rules {
		r.Expr = normExpr(r.Expr)
	}
	return g
}

func normExpr(e ast.Expression) ast.Expression {
	switch e := e.(type) {
	case *ast.ChoiceExpr:
		for i := range e.Alternatives {
			e.Alternatives[i] = normExpr(e.Alternatives[i])
		}
		if len(e.Alternatives) == 1 {
			return e.Alternatives[0]
		}
	case *ast.SeqExpr:
		for i := range e.Exprs {
			e.Exprs[i] = normExpr(e.Exprs[i])
		}
		if len(e.Exprs) == 1 {
			return e.Exprs[0]
		}
	case *ast.RecoveryExpr:
		e.Expr, e.RecoverExpr = normExpr(e.Expr), normExpr(e.RecoverExpr)
	case *ast.ActionExpr:
		e.Expr = normExpr(e.Expr)
	case *ast.LabeledExpr:
		e.Expr = normExpr(e.Expr)
	case *ast.AndExpr:
		e.Expr = normExpr(e.Expr)
	case *ast.NotExpr:
		e.Expr = normExpr(e.Expr)
	case *ast.ZeroOrOneExpr:
		e.Expr = normExpr(e.Expr)
	case *ast.ZeroOrMoreExpr:
		e.Expr = normExpr(e.Expr)
	case *ast.OneOrMoreExpr:
		e.Expr = normExpr(e.Expr)
	}
	return e
}

// CountKinds counts the expressions of g by kind (index as in KindNames).
func CountKinds(g *ast.Grammar) (counts [18]int, total int) {
	for _, r := range g.Rules {
		WalkExpr(r.Expr, func(e ast.Expression) {
			if k := KindOf(e); k >= 0 {
				counts[k]++
				total++
			}
		})
	}
	return counts, total
}

// Expected returns the AST that the front-end builds for any text that
// Print produces from g: a normalised deep copy (see Normalize). For the
// output of Gen it equals g. PrintPos additionally returns the same AST with
// the positions of the text it printed.
func Expected(g *ast.Grammar) *ast.Grammar { return Normalize(Clone(g)) }
