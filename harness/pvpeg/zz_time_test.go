package pvpeg

import (
	"math/rand"
	"testing"
	"time"
)

func TestTiming(t *testing.T) {
	srv, err := StartServer(verifPigeon)
	if err != nil {
		t.Fatal(err)
	}
	defer srv.Close()
	for _, st := range Styles {
		r := rand.New(rand.NewSource(11))
		var tot time.Duration
		var max time.Duration
		bytes := 0
		for i := 0; i < 300; i++ {
			g := Gen(r, Cfg{})
			pr := PrintPos(g, r, st)
			t0 := time.Now()
			srv.Parse([]byte(pr.Text))
			d := time.Since(t0)
			tot += d
			if d > max {
				max = d
			}
			bytes += len(pr.Text)
		}
		t.Logf("%s: avg %v max %v avg bytes %d", st.Name, tot/300, max, bytes/300)
	}
}
