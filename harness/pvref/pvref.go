// Package pvref is a reference PEG interpreter over *ast.Grammar. It is
// written from the documentation (doc.go: ordered choice, greedy repetition,
// predicates that consume nothing, labelled failures with a handler stack,
// label scopes) and from the matching rules of the terminals, and shares no
// code with the parser that pigeon generates.
//
// Code blocks are not executed as Go. A block is identified by the text of
// its code (see ParseBlock: the generator writes `{ /*#17*/ return on(a, b) }`,
// 17 is the marker and a, b are the labels the code mentions) and is
// interpreted abstractly:
//
//   - an action returns the opaque value act(marker, matched text, label
//     values it mentions),
//   - a code predicate returns a pseudo-random boolean that is a function of
//     (marker, offset, label values it mentions),
//   - a state block only leaves a trace.
//
// Every invocation of a block is recorded as an Event, also those on paths
// that are backtracked later.
//
// # Canonical values
//
// The value of an expression is kept in a canonical form that is invariant
// under regrouping of action-less structure: a flat list of items, each
// either the value of an action or a piece of matched text. Nested lists are
// flattened, nil (failed option, predicates, state blocks) disappears,
// adjacent pieces of text are concatenated. So `x:("a" "b")`, `x:"ab"` and
// `x:("a" ("" "b"))` bind x to the same value, and `x:(A "," B)` binds it to
// [act_A "," act_B] whatever the parenthesisation.
//
// # Label scopes
//
// Statically (what the builder passes as parameters): a block receives the
// labels declared textually earlier in its scope; a scope is opened by a
// rule, each alternative of a choice, the body of a labeled expression, the
// operand of & ! ? * + and by a recovery expression. Of these parameters the
// event records the ones the code mentions, in parameter order (a parameter
// that is passed twice is recorded twice). Dynamically (where the values
// come from): a stack of frames that follows the same constructs, except
// that a recovery expression has no frame of its own; a label is bound in
// the current frame once its expression has matched; a parameter that is
// not bound is nil.
package pvref

import (
	"fmt"
	"hash/fnv"
	"strconv"
	"strings"
	"unicode"
	"unicode/utf8"

	"github.com/mna/pigeon/ast"
)

// Block kinds.
const (
	KindAction = 'A'
	KindAnd    = '&'
	KindNot    = '!'
	KindState  = '#'
)

// Event is one invocation of a code block.
type Event struct {
	Marker string
	Kind   byte
	Pos    int    // offset where the block's expression starts (c.pos.offset)
	Text   string // actions: the matched text (c.text)
	Args   string // "name=value name=value": the labels the block mentions
}

func (e Event) String() string {
	s := fmt.Sprintf("%c#%s@%d", e.Kind, e.Marker, e.Pos)
	if e.Kind == KindAction {
		s += " text=" + strconv.Quote(e.Text)
	}
	if e.Args != "" {
		s += " [" + e.Args + "]"
	}
	return s
}

// Result is the outcome of one run.
type Result struct {
	OK        bool
	End       int // offset after the consumed prefix (0 when !OK)
	Events    []Event
	Steps     int
	Exhausted bool // the step budget ran out: nothing else is meaningful
}

type nodeKind uint8

const (
	nChoice nodeKind = iota
	nSeq
	nRecovery
	nAction
	nLabeled
	nAnd
	nNot
	nOpt
	nStar
	nPlus
	nThrow
	nRef
	nState
	nAndCode
	nNotCode
	nLit
	nClass
	nAny
	nBad
)

type node struct {
	kind nodeKind
	kids []*node // choice, seq; recovery: [expr, recover]; unary: [expr]
	name string  // label, failure label (throw), rule name (ref)

	labels []string // recovery

	// blocks
	marker string
	params []string // the static parameters that the code mentions

	// terminals
	lit     []rune
	chars   []rune
	ranges  []rune
	tables  []*unicode.RangeTable
	fold    bool
	inv     bool
	badness string
}

// Prog is a grammar prepared for interpretation.
type Prog struct {
	rules map[string]*node
	// DupParams lists the blocks whose static parameter list names a label
	// twice ("marker: a a b"): the generated method would not compile.
	DupParams []string
	// Missing lists the blocks whose code mentions a label that is not among
	// its static parameters.
	Missing []string
}

// ParseBlock splits the text of a code block written by the generator,
// `{ /*#MARKER*/ return on(l1, l2) }`, into the marker and the labels that the
// code mentions. Any other text is its own marker and mentions everything
// (ok = false).
func ParseBlock(code string) (marker string, uses []string, ok bool) {
	i := strings.Index(code, "/*#")
	if i < 0 {
		return code, nil, false
	}
	j := strings.Index(code[i:], "*/")
	if j < 0 {
		return code, nil, false
	}
	marker = code[i+3 : i+j]
	rest := code[i+j+2:]
	a := strings.Index(rest, "on(")
	b := strings.LastIndex(rest, ")")
	if a < 0 || b < a+3 {
		return code, nil, false
	}
	for _, w := range strings.Split(rest[a+3:b], ",") {
		if w = strings.TrimSpace(w); w != "" {
			uses = append(uses, w)
		}
	}
	return marker, uses, true
}

// BlockText is the inverse of ParseBlock.
func BlockText(marker string, uses []string) string {
	return "{ /*#" + marker + "*/ return on(" + strings.Join(uses, ", ") + ") }"
}

func classTable(name string) *unicode.RangeTable {
	if t, ok := unicode.Categories[name]; ok {
		return t
	}
	if t, ok := unicode.Properties[name]; ok {
		return t
	}
	if t, ok := unicode.Scripts[name]; ok {
		return t
	}
	return nil
}

type compiler struct {
	prog   *Prog
	scopes [][]string
}

// Compile prepares g. Of several rules with one name the last one wins.
func Compile(g *ast.Grammar) *Prog {
	p := &Prog{rules: map[string]*node{}}
	for _, r := range g.Rules {
		if r == nil || r.Name == nil {
			continue
		}
		c := &compiler{prog: p, scopes: [][]string{nil}}
		p.rules[r.Name.Val] = c.expr(r.Expr)
	}
	return p
}

// HasRule reports whether the grammar defines the rule.
func (p *Prog) HasRule(name string) bool { return p.rules[name] != nil }

func (c *compiler) push() { c.scopes = append(c.scopes, nil) }
func (c *compiler) pop()  { c.scopes = c.scopes[:len(c.scopes)-1] }

func (c *compiler) scoped(e ast.Expression) *node {
	c.push()
	n := c.expr(e)
	c.pop()
	return n
}

func (c *compiler) block(n *node, code *ast.CodeBlock) *node {
	text := ""
	if code != nil {
		text = code.Val
	}
	static := c.scopes[len(c.scopes)-1]
	marker, uses, ok := ParseBlock(text)
	n.marker = marker
	seen := map[string]int{}
	for _, s := range static {
		seen[s]++
	}
	for _, s := range static {
		if seen[s] > 1 {
			c.prog.DupParams = append(c.prog.DupParams, marker+": "+strings.Join(static, " "))
			break
		}
	}
	if !ok {
		n.params = append([]string(nil), static...)
		return n
	}
	used := map[string]bool{}
	for _, u := range uses {
		used[u] = true
		if seen[u] == 0 {
			c.prog.Missing = append(c.prog.Missing, marker+": "+u+" not in ["+strings.Join(static, " ")+"]")
		}
	}
	for _, s := range static {
		if used[s] {
			n.params = append(n.params, s)
		}
	}
	return n
}

func lowerAll(rs []rune, fold bool) []rune {
	out := make([]rune, len(rs))
	for i, r := range rs {
		if fold {
			r = unicode.ToLower(r)
		}
		out[i] = r
	}
	return out
}

func (c *compiler) expr(e ast.Expression) *node {
	switch e := e.(type) {
	case *ast.ChoiceExpr:
		n := &node{kind: nChoice}
		for _, a := range e.Alternatives {
			n.kids = append(n.kids, c.scoped(a))
		}
		return n
	case *ast.SeqExpr:
		n := &node{kind: nSeq}
		for _, x := range e.Exprs {
			n.kids = append(n.kids, c.expr(x))
		}
		return n
	case *ast.RecoveryExpr:
		n := &node{kind: nRecovery}
		c.push()
		n.kids = []*node{c.expr(e.Expr), c.expr(e.RecoverExpr)}
		c.pop()
		for _, l := range e.Labels {
			n.labels = append(n.labels, string(l))
		}
		return n
	case *ast.ActionExpr:
		n := &node{kind: nAction}
		n.kids = []*node{c.expr(e.Expr)}
		return c.block(n, e.Code)
	case *ast.LabeledExpr:
		n := &node{kind: nLabeled}
		if e.Label != nil {
			n.name = e.Label.Val
			top := len(c.scopes) - 1
			c.scopes[top] = append(c.scopes[top], e.Label.Val)
		}
		n.kids = []*node{c.scoped(e.Expr)}
		return n
	case *ast.AndExpr:
		return &node{kind: nAnd, kids: []*node{c.scoped(e.Expr)}}
	case *ast.NotExpr:
		return &node{kind: nNot, kids: []*node{c.scoped(e.Expr)}}
	case *ast.ZeroOrOneExpr:
		return &node{kind: nOpt, kids: []*node{c.scoped(e.Expr)}}
	case *ast.ZeroOrMoreExpr:
		return &node{kind: nStar, kids: []*node{c.scoped(e.Expr)}}
	case *ast.OneOrMoreExpr:
		return &node{kind: nPlus, kids: []*node{c.scoped(e.Expr)}}
	case *ast.ThrowExpr:
		return &node{kind: nThrow, name: e.Label}
	case *ast.RuleRefExpr:
		n := &node{kind: nRef}
		if e.Name != nil {
			n.name = e.Name.Val
		}
		return n
	case *ast.StateCodeExpr:
		return c.block(&node{kind: nState}, e.Code)
	case *ast.AndCodeExpr:
		return c.block(&node{kind: nAndCode}, e.Code)
	case *ast.NotCodeExpr:
		return c.block(&node{kind: nNotCode}, e.Code)
	case *ast.LitMatcher:
		// the value is lower-cased when the parser is built, the input rune
		// when it is compared
		n := &node{kind: nLit, fold: e.IgnoreCase}
		for _, r := range e.Val { // a stray byte is U+FFFD, as in the runtime's range loop
			if e.IgnoreCase {
				r = unicode.ToLower(r)
			}
			n.lit = append(n.lit, r)
		}
		return n
	case *ast.CharClassMatcher:
		n := &node{kind: nClass, fold: e.IgnoreCase, inv: e.Inverted}
		n.chars = lowerAll(e.Chars, e.IgnoreCase)
		n.ranges = lowerAll(e.Ranges, e.IgnoreCase)
		for _, name := range e.UnicodeClasses {
			t := classTable(name)
			if t == nil {
				return &node{kind: nBad, badness: "invalid Unicode class: " + name}
			}
			n.tables = append(n.tables, t)
		}
		return n
	case *ast.AnyMatcher:
		return &node{kind: nAny}
	}
	return &node{kind: nBad, badness: fmt.Sprintf("unknown expression type %T", e)}
}

// ---------------------------------------------------------------------------
// values

// item is one element of a canonical value: the value of an action (act is
// its rendering) or a piece of matched text.
type item struct {
	act  string
	text string
}

type value []item

func (v value) join(w value) value {
	if len(w) == 0 {
		return v
	}
	if len(v) == 0 {
		return w
	}
	out := make(value, 0, len(v)+len(w))
	out = append(out, v...)
	for _, it := range w {
		if it.act == "" && len(out) > 0 && out[len(out)-1].act == "" {
			out[len(out)-1].text += it.text
			continue
		}
		out = append(out, it)
	}
	return out
}

func textValue(s string) value {
	if s == "" {
		return nil
	}
	return value{{text: s}}
}

const longValue = 200

func short(s string) string {
	if len(s) <= longValue {
		return s
	}
	h := fnv.New64a()
	h.Write([]byte(s))
	return fmt.Sprintf("%s...<%d bytes, fnv %016x>", s[:40], len(s), h.Sum64())
}

func (v value) String() string {
	if len(v) == 0 {
		return "nil"
	}
	var b strings.Builder
	if len(v) > 1 {
		b.WriteByte('(')
	}
	for i, it := range v {
		if i > 0 {
			b.WriteByte(' ')
		}
		if it.act != "" {
			b.WriteString(it.act)
		} else {
			b.WriteString(strconv.Quote(it.text))
		}
	}
	if len(v) > 1 {
		b.WriteByte(')')
	}
	return short(b.String())
}

// ---------------------------------------------------------------------------
// interpretation

type binding struct {
	name string
	val  string // rendered canonical value
}

type handler struct {
	labels []string
	expr   *node
}

type machine struct {
	prog     *Prog
	in       string
	pos      int
	steps    int
	budget   int
	frames   [][]binding
	handlers []handler
	events   []Event
}

type exhausted struct{}

// Run parses input starting with the rule entry. budget bounds the number of
// expression evaluations.
func (p *Prog) Run(entry, input string, budget int) (res Result) {
	m := &machine{prog: p, in: input, budget: budget}
	defer func() {
		if x := recover(); x != nil {
			if _, ok := x.(exhausted); !ok {
				panic(x)
			}
			res = Result{Exhausted: true, Steps: m.steps}
		}
	}()
	ok, _ := m.rule(entry, false)
	res = Result{OK: ok, Events: m.events, Steps: m.steps}
	if ok {
		res.End = m.pos
	}
	return res
}

func (m *machine) pushV() { m.frames = append(m.frames, nil) }
func (m *machine) popV()  { m.frames = m.frames[:len(m.frames)-1] }

func (m *machine) bind(name, val string) {
	top := len(m.frames) - 1
	for i := range m.frames[top] {
		if m.frames[top][i].name == name {
			m.frames[top][i].val = val
			return
		}
	}
	m.frames[top] = append(m.frames[top], binding{name, val})
}

// args renders the parameters of a block: all of them in order (what the
// event shows), and each name once (what the decision of a code predicate
// depends on, so that a parameter that is passed twice does not by itself
// change the course of the parse).
func (m *machine) args(n *node) (all, uniq string) {
	if len(n.params) == 0 {
		return "", ""
	}
	top := m.frames[len(m.frames)-1]
	var b, u strings.Builder
	for i, p := range n.params {
		val := "nil"
		for _, bd := range top {
			if bd.name == p {
				val = bd.val
			}
		}
		if i > 0 {
			b.WriteByte(' ')
		}
		b.WriteString(p)
		b.WriteByte('=')
		b.WriteString(val)
		dup := false
		for _, q := range n.params[:i] {
			dup = dup || q == p
		}
		if !dup {
			u.WriteString(p)
			u.WriteByte('=')
			u.WriteString(val)
			u.WriteByte(' ')
		}
	}
	return b.String(), u.String()
}

func (m *machine) rule(name string, need bool) (bool, value) {
	r := m.prog.rules[name]
	if r == nil {
		return false, nil // "undefined rule": an error, no match
	}
	m.pushV()
	ok, v := m.eval(r, need)
	m.popV()
	return ok, v
}

// decide is the abstract code predicate.
func decide(marker string, pos int, args string) bool {
	h := fnv.New32a()
	h.Write([]byte(marker))
	h.Write([]byte{0, byte(pos), byte(pos >> 8), 0})
	h.Write([]byte(args))
	return h.Sum32()%4 != 0
}

func (m *machine) rune() (rune, int) {
	if m.pos >= len(m.in) {
		return utf8.RuneError, 0
	}
	return utf8.DecodeRuneInString(m.in[m.pos:])
}

// eval evaluates n at the current position. On failure the position is the
// one before. need tells whether the value is wanted (it is below a label).
func (m *machine) eval(n *node, need bool) (bool, value) {
	m.steps++
	if m.steps > m.budget {
		panic(exhausted{})
	}
	switch n.kind {
	case nChoice:
		for _, a := range n.kids {
			m.pushV()
			ok, v := m.eval(a, need)
			m.popV()
			if ok {
				return true, v
			}
		}
		return false, nil
	case nSeq:
		start := m.pos
		var vals value
		for _, x := range n.kids {
			ok, v := m.eval(x, need)
			if !ok {
				m.pos = start
				return false, nil
			}
			if need {
				vals = vals.join(v)
			}
		}
		return true, vals
	case nRecovery:
		m.handlers = append(m.handlers, handler{n.labels, n.kids[1]})
		ok, v := m.eval(n.kids[0], need)
		m.handlers = m.handlers[:len(m.handlers)-1]
		return ok, v
	case nThrow:
		for i := len(m.handlers) - 1; i >= 0; i-- {
			h := m.handlers[i]
			for _, l := range h.labels {
				if l == n.name {
					if ok, v := m.eval(h.expr, need); ok {
						return true, v
					}
					break
				}
			}
		}
		return false, nil
	case nAction:
		start := m.pos
		ok, _ := m.eval(n.kids[0], false)
		if !ok {
			return false, nil
		}
		text := m.in[start:m.pos]
		args, _ := m.args(n)
		m.events = append(m.events, Event{n.marker, KindAction, start, text, args})
		if !need {
			return true, nil
		}
		act := "#" + n.marker + "{" + strconv.Quote(text)
		if args != "" {
			act += " " + args
		}
		return true, value{{act: short(act + "}")}}
	case nLabeled:
		m.pushV()
		ok, v := m.eval(n.kids[0], true)
		m.popV()
		if ok && n.name != "" {
			m.bind(n.name, v.String())
		}
		return ok, v
	case nAnd, nNot:
		start := m.pos
		m.pushV()
		ok, _ := m.eval(n.kids[0], false)
		m.popV()
		m.pos = start
		return ok == (n.kind == nAnd), nil
	case nOpt:
		m.pushV()
		_, v := m.eval(n.kids[0], need)
		m.popV()
		return true, v
	case nStar, nPlus:
		var vals value
		count := 0
		for {
			m.pushV()
			ok, v := m.eval(n.kids[0], need)
			m.popV()
			if !ok {
				break
			}
			count++
			if need {
				vals = vals.join(v)
			}
		}
		return n.kind == nStar || count > 0, vals
	case nRef:
		return m.rule(n.name, need)
	case nState:
		args, _ := m.args(n)
		m.events = append(m.events, Event{n.marker, KindState, m.pos, "", args})
		return true, nil
	case nAndCode, nNotCode:
		args, uniq := m.args(n)
		kind := byte(KindAnd)
		if n.kind == nNotCode {
			kind = KindNot
		}
		m.events = append(m.events, Event{n.marker, kind, m.pos, "", args})
		// the block returns d for &{} and !d for !{}: either way the
		// expression matches three times out of four
		return decide(n.marker, m.pos, uniq), nil
	case nLit:
		start := m.pos
		for _, want := range n.lit {
			cur, w := m.rune()
			if n.fold {
				cur = unicode.ToLower(cur)
			}
			if w == 0 || cur != want {
				m.pos = start
				return false, nil
			}
			m.pos += w
		}
		if need {
			return true, textValue(m.in[start:m.pos])
		}
		return true, nil
	case nClass:
		cur, w := m.rune()
		if w == 0 {
			return false, nil
		}
		if n.fold {
			cur = unicode.ToLower(cur)
		}
		in := false
		for _, c := range n.chars {
			if c == cur {
				in = true
			}
		}
		for i := 0; i+1 < len(n.ranges) && !in; i += 2 {
			if cur >= n.ranges[i] && cur <= n.ranges[i+1] {
				in = true
			}
		}
		for _, t := range n.tables {
			if !in && unicode.Is(t, cur) {
				in = true
			}
		}
		if in == n.inv {
			return false, nil
		}
		start := m.pos
		m.pos += w
		if need {
			return true, textValue(m.in[start:m.pos])
		}
		return true, nil
	case nAny:
		_, w := m.rune()
		if w == 0 {
			return false, nil
		}
		start := m.pos
		m.pos += w
		if need {
			return true, textValue(m.in[start:m.pos])
		}
		return true, nil
	}
	panic("pvref: " + n.badness)
}
