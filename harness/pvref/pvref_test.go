package pvref

import (
	"strings"
	"testing"

	"github.com/mna/pigeon/ast"
)

// tiny constructors

func lit(s string, fold bool) ast.Expression {
	e := ast.NewLitMatcher(ast.Pos{}, s)
	e.IgnoreCase = fold
	return e
}

func class(chars string, ranges string, classes []string, fold, inv bool) ast.Expression {
	e := ast.NewCharClassMatcher(ast.Pos{}, "[]")
	e.Chars, e.Ranges, e.UnicodeClasses = []rune(chars), []rune(ranges), classes
	e.IgnoreCase, e.Inverted = fold, inv
	return e
}

func seq(xs ...ast.Expression) ast.Expression {
	e := ast.NewSeqExpr(ast.Pos{})
	e.Exprs = xs
	return e
}

func choice(xs ...ast.Expression) ast.Expression {
	e := ast.NewChoiceExpr(ast.Pos{})
	e.Alternatives = xs
	return e
}

func lab(name string, x ast.Expression) ast.Expression {
	e := ast.NewLabeledExpr(ast.Pos{})
	e.Label = ast.NewIdentifier(ast.Pos{}, name)
	e.Expr = x
	return e
}

func act(marker string, x ast.Expression, uses ...string) ast.Expression {
	e := ast.NewActionExpr(ast.Pos{})
	e.Expr = x
	e.Code = ast.NewCodeBlock(ast.Pos{}, BlockText(marker, uses))
	return e
}

func ref(name string) ast.Expression {
	e := ast.NewRuleRefExpr(ast.Pos{})
	e.Name = ast.NewIdentifier(ast.Pos{}, name)
	return e
}

func star(x ast.Expression) ast.Expression {
	e := ast.NewZeroOrMoreExpr(ast.Pos{})
	e.Expr = x
	return e
}

func plus(x ast.Expression) ast.Expression {
	e := ast.NewOneOrMoreExpr(ast.Pos{})
	e.Expr = x
	return e
}

func opt(x ast.Expression) ast.Expression {
	e := ast.NewZeroOrOneExpr(ast.Pos{})
	e.Expr = x
	return e
}

func and(x ast.Expression) ast.Expression {
	e := ast.NewAndExpr(ast.Pos{})
	e.Expr = x
	return e
}

func not(x ast.Expression) ast.Expression {
	e := ast.NewNotExpr(ast.Pos{})
	e.Expr = x
	return e
}

func anyRune() ast.Expression { return ast.NewAnyMatcher(ast.Pos{}, ".") }

func grammar(rules ...any) *ast.Grammar {
	g := ast.NewGrammar(ast.Pos{})
	for i := 0; i < len(rules); i += 2 {
		r := ast.NewRule(ast.Pos{}, ast.NewIdentifier(ast.Pos{}, rules[i].(string)))
		r.Expr = rules[i+1].(ast.Expression)
		g.Rules = append(g.Rules, r)
	}
	return g
}

func trace(r Result) string {
	var parts []string
	for _, e := range r.Events {
		parts = append(parts, e.String())
	}
	return strings.Join(parts, "; ")
}

func TestMatching(t *testing.T) {
	cases := []struct {
		name  string
		e     ast.Expression
		in    string
		ok    bool
		end   int
		trace string
	}{
		{"ordered choice takes the first match", choice(lit("a", false), lit("ab", false)), "ab", true, 1, ""},
		{"sequence failure consumes nothing", choice(seq(lit("a", false), lit("x", false)), lit("a", false)), "ab", true, 1, ""},
		{"greedy star does not give back", seq(star(lit("a", false)), lit("a", false)), "aaa", false, 0, ""},
		{"plus needs one", plus(lit("a", false)), "b", false, 0, ""},
		{"option", seq(opt(lit("a", false)), lit("b", false)), "b", true, 1, ""},
		{"and consumes nothing", seq(and(lit("a", false)), anyRune()), "ab", true, 1, ""},
		{"not", seq(not(lit("a", false)), anyRune()), "ab", false, 0, ""},
		{"any does not match at EOF", anyRune(), "", false, 0, ""},
		{"any takes a stray byte", seq(anyRune(), lit("b", false)), "\xffb", true, 2, ""},
		{"empty literal", lit("", false), "", true, 0, ""},
		{"literal at EOF", lit("a", false), "", false, 0, ""},
		{"literal fold: value and input lower-cased", lit("ÀB", true), "àb", true, 3, ""},
		{"literal fold: Kelvin sign", lit("k", true), "K", true, 3, ""},
		{"literal without fold", lit("a", false), "A", false, 0, ""},
		{"class chars", class("ab", "", nil, false, false), "b", true, 1, ""},
		{"class range", class("", "az", nil, false, false), "q", true, 1, ""},
		{"class range miss", class("", "az", nil, false, false), "Q", false, 0, ""},
		{"class fold lowers input and bounds", class("", "AZ", nil, true, false), "q", true, 1, ""},
		{"class fold: upper-case class never matches the lowered rune", class("", "", []string{"Lu"}, true, false), "Q", false, 0, ""},
		{"class unicode", class("", "", []string{"Greek"}, false, false), "δ", true, 2, ""},
		{"class inverted", class("a", "", nil, false, true), "b", true, 1, ""},
		{"class inverted miss", class("a", "", nil, false, true), "a", false, 0, ""},
		{"class inverted does not match EOF", class("a", "", nil, false, true), "", false, 0, ""},
		{"action: text and pos", seq(lit("x", false), act("1", plus(class("", "09", nil, false, false)))), "x42y", true, 3, `A#1@1 text="42"`},
		{"action runs on a path that is abandoned later", choice(seq(act("1", lit("a", false)), lit("x", false)), lit("ab", false)), "ab", true, 2, `A#1@0 text="a"`},
		{"label of an action-less group is its text", act("1", seq(lab("v", seq(lit("a", false), seq(opt(lit("q", false)), lit("b", false)))), lit("c", false)), "v"), "abc", true, 3,
			`A#1@0 text="abc" [v="ab"]`},
		{"label of an action is the action value", act("2", lab("v", act("1", lit("a", false))), "v"), "a", true, 1,
			`A#1@0 text="a"; A#2@0 text="a" [v=#1{"a"}]`},
		{"mixed group: action values and text, flattened", act("3", lab("v", seq(act("1", lit("a", false)), lit(",", false), seq(lit(" ", false), act("2", lit("b", false))))), "v"), "a, b", true, 4,
			`A#1@0 text="a"; A#2@3 text="b"; A#3@0 text="a, b" [v=(#1{"a"} ", " #2{"b"})]`},
		{"a label in a choice alternative is not visible outside", act("1", choice(lab("v", lit("a", false)), lit("b", false)), "v"), "a", true, 1,
			`A#1@0 text="a"`},
		{"unbound label is nil", act("1", seq(lab("v", opt(lit("a", false))), lit("b", false)), "v"), "b", true, 1, `A#1@0 text="b" [v=nil]`},
		{"each iteration has its own scope", star(act("1", seq(lab("v", anyRune())), "v")), "ab", true, 2, `A#1@0 text="a" [v="a"]; A#1@1 text="b" [v="b"]`},
	}
	for _, c := range cases {
		p := Compile(grammar("S", c.e))
		r := p.Run("S", c.in, 1000)
		if r.Exhausted || r.OK != c.ok || r.End != c.end || trace(r) != c.trace {
			t.Errorf("%s: ok=%t end=%d trace=%s (exhausted=%t); want ok=%t end=%d trace=%s", c.name, r.OK, r.End, trace(r), r.Exhausted, c.ok, c.end, c.trace)
		}
		if len(p.Missing) > 0 && !strings.Contains(c.name, "not visible") {
			t.Errorf("%s: missing %v", c.name, p.Missing)
		}
	}
}

func TestRuleScopeAndParams(t *testing.T) {
	// R <- a:"x" L {#2 a}     L <- b:"y" {#1 b}
	g := grammar(
		"R", act("2", seq(lab("a", lit("x", false)), ref("L")), "a"),
		"L", act("1", lab("b", lit("y", false)), "b"),
	)
	p := Compile(g)
	r := p.Run("R", "xy", 1000)
	if want := `A#1@1 text="y" [b="y"]; A#2@0 text="xy" [a="x"]`; !r.OK || trace(r) != want {
		t.Errorf("got %t %s, want %s", r.OK, trace(r), want)
	}
	if r := p.Run("L", "y", 1000); !r.OK || r.End != 1 {
		t.Errorf("entry L: %+v", r)
	}
	if r := p.Run("Nope", "y", 1000); r.OK {
		t.Errorf("undefined entry matched")
	}
	// the same label twice in one scope: reported, and passed twice
	g = grammar("R", act("1", seq(lab("a", lit("x", false)), lab("a", lit("y", false))), "a"))
	p = Compile(g)
	if len(p.DupParams) != 1 {
		t.Errorf("DupParams = %v", p.DupParams)
	}
	if r := p.Run("R", "xy", 1000); trace(r) != `A#1@0 text="xy" [a="y" a="y"]` {
		t.Errorf("dup: %s", trace(r))
	}
}

func TestThrowRecover(t *testing.T) {
	thr := func(l string) ast.Expression {
		e := ast.NewThrowExpr(ast.Pos{})
		e.Label = l
		return e
	}
	rec := func(x, h ast.Expression, labels ...string) ast.Expression {
		e := ast.NewRecoveryExpr(ast.Pos{})
		e.Expr, e.RecoverExpr = x, h
		for _, l := range labels {
			e.Labels = append(e.Labels, ast.FailureLabel(l))
		}
		return e
	}
	// S <- ("a" / %{e}) "b" //{e} "?"
	g := grammar("S", rec(seq(choice(lit("a", false), thr("e")), lit("b", false)), lit("?", false), "e"))
	p := Compile(g)
	for in, want := range map[string]int{"ab": 2, "?b": 2, "xb": -1} {
		r := p.Run("S", in, 1000)
		if (want < 0) != !r.OK || (r.OK && r.End != want) {
			t.Errorf("%q: %+v, want end %d", in, r, want)
		}
	}
	// an unhandled throw fails; the innermost handler that matches wins,
	// an outer one is tried when the inner one fails
	g = grammar("S", rec(rec(thr("e"), lit("in", false), "e"), lit("out", false), "e"), "T", thr("e"))
	p = Compile(g)
	if r := p.Run("S", "out", 1000); !r.OK || r.End != 3 {
		t.Errorf("outer handler: %+v", r)
	}
	if r := p.Run("S", "in", 1000); !r.OK || r.End != 2 {
		t.Errorf("inner handler: %+v", r)
	}
	if r := p.Run("T", "x", 1000); r.OK {
		t.Errorf("unhandled throw matched")
	}
}

func TestBudgetAndPredicates(t *testing.T) {
	// S <- S: runs out of budget instead of overflowing
	p := Compile(grammar("S", ref("S")))
	if r := p.Run("S", "", 5000); !r.Exhausted {
		t.Errorf("left recursion: %+v", r)
	}
	// a code predicate decides by (marker, offset, label values) only
	pred := ast.NewAndCodeExpr(ast.Pos{})
	pred.Code = ast.NewCodeBlock(ast.Pos{}, BlockText("7", []string{"v"}))
	g := grammar("S", seq(lab("v", anyRune()), pred))
	p = Compile(g)
	seen := map[bool]int{}
	for _, in := range []string{"a", "b", "c", "d", "e", "f", "g", "h", "i", "j", "k", "l"} {
		r1, r2 := p.Run("S", in, 100), p.Run("S", in+"tail", 100)
		if r1.OK != r2.OK || len(r1.Events) != 1 || r1.Events[0].Kind != KindAnd {
			t.Errorf("%q: %+v / %+v", in, r1, r2)
		}
		seen[r1.OK]++
	}
	if seen[true] == 0 || seen[false] == 0 {
		t.Errorf("predicate is constant: %v", seen)
	}
	m, uses, ok := ParseBlock("{ /*#12*/ return on(a, é, x_1) }")
	if !ok || m != "12" || strings.Join(uses, "|") != "a|é|x_1" {
		t.Errorf("ParseBlock: %q %q %t", m, uses, ok)
	}
}
