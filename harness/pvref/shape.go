package pvref

import (
	"strconv"
	"unicode"
	"unicode/utf8"
)

// This file adds a second way of running a Prog: RunShape computes, besides
// the outcome and the consumed prefix, the value of the parse in the shape
// that pigeon's documentation describes for expressions without a code
// block:
//
//   - a literal, a character class, the any matcher: the matched input bytes,
//   - & and !: nil,
//   - a sequence: a list with one element per item,
//   - * and +: a list with one element per iteration,
//   - a choice: the value of the alternative that matched,
//   - ?: the value of the expression, or nil when it did not match,
//   - a rule reference: the value of the rule; a label: the value of its
//     expression,
//   - a recovery expression: the value of its expression (which, when a throw
//     inside it was recovered, contains the value of the recovery side),
//   - a throw: the value of the recovery expression that matched.
//
// It is an evaluator of its own (it shares the compiled nodes with Run, not
// the interpretation), written from the PEG rules: ordered choice commits to
// the first alternative that matches, repetitions are greedy, predicates
// consume nothing, an expression that fails consumes nothing. Grammars with
// code blocks are not supported here (Unsupported is set).

// ShapeKind is the kind of a Shape.
type ShapeKind uint8

// Shape kinds.
const (
	ShapeNil ShapeKind = iota
	ShapeBytes
	ShapeList
)

// Shape is a value in the documented shape.
type Shape struct {
	Kind  ShapeKind
	Bytes string  // ShapeBytes: the matched input bytes
	List  []Shape // ShapeList
}

const shapeHex = "0123456789abcdef"

func (s Shape) append(dst []byte) []byte {
	switch s.Kind {
	case ShapeBytes:
		dst = append(dst, "b x"...)
		for i := 0; i < len(s.Bytes); i++ {
			dst = append(dst, shapeHex[s.Bytes[i]>>4], shapeHex[s.Bytes[i]&15])
		}
		return dst
	case ShapeList:
		dst = append(dst, "l "...)
		dst = strconv.AppendInt(dst, int64(len(s.List)), 10)
		for _, e := range s.List {
			dst = append(dst, ' ')
			dst = e.append(dst)
		}
		return dst
	}
	return append(dst, "nil"...)
}

// String renders the value in the VAL syntax of /verif/PROTOCOL.md:
// `nil`, `b x<hex>`, `l <n> VAL*n`.
func (s Shape) String() string { return string(s.append(nil)) }

// ShapeResult is the outcome of RunShape.
type ShapeResult struct {
	OK          bool
	End         int   // offset after the consumed prefix (0 when !OK)
	Val         Shape // the value (nil when !OK)
	Steps       int
	Exhausted   bool   // the step budget ran out: nothing else is meaningful
	Unsupported string // the grammar has something RunShape does not interpret
}

type shapeMachine struct {
	prog     *Prog
	in       string
	pos      int
	steps    int
	budget   int
	handlers []handler
}

type shapeUnsupported string

// RunShape parses input starting with the rule entry; budget bounds the
// number of expression evaluations.
func (p *Prog) RunShape(entry, input string, budget int) (res ShapeResult) {
	m := &shapeMachine{prog: p, in: input, budget: budget}
	defer func() {
		if x := recover(); x != nil {
			switch x := x.(type) {
			case exhausted:
				res = ShapeResult{Exhausted: true, Steps: m.steps}
			case shapeUnsupported:
				res = ShapeResult{Unsupported: string(x), Steps: m.steps}
			default:
				panic(x)
			}
		}
	}()
	ok, v := m.rule(entry)
	res = ShapeResult{OK: ok, Steps: m.steps}
	if ok {
		res.End, res.Val = m.pos, v
	}
	return res
}

func (m *shapeMachine) rule(name string) (bool, Shape) {
	r := m.prog.rules[name]
	if r == nil {
		return false, Shape{} // an undefined rule matches nothing
	}
	return m.eval(r)
}

// decode returns the rune at the current position and its width; the width is
// 0 at the end of the input and 1 for a byte that is not UTF-8 (the rune is
// then U+FFFD).
func (m *shapeMachine) decode() (rune, int) {
	if m.pos >= len(m.in) {
		return utf8.RuneError, 0
	}
	return utf8.DecodeRuneInString(m.in[m.pos:])
}

func (m *shapeMachine) matched(start int) Shape {
	return Shape{Kind: ShapeBytes, Bytes: m.in[start:m.pos]}
}

// eval evaluates n at the current position. When it fails the position is
// the one it was entered with.
func (m *shapeMachine) eval(n *node) (bool, Shape) {
	m.steps++
	if m.steps > m.budget {
		panic(exhausted{})
	}
	start := m.pos
	switch n.kind {
	case nChoice:
		for _, alt := range n.kids {
			if ok, v := m.eval(alt); ok {
				return true, v
			}
			m.pos = start
		}
		return false, Shape{}
	case nSeq:
		list := make([]Shape, 0, len(n.kids))
		for _, x := range n.kids {
			ok, v := m.eval(x)
			if !ok {
				m.pos = start
				return false, Shape{}
			}
			list = append(list, v)
		}
		return true, Shape{Kind: ShapeList, List: list}
	case nRecovery:
		m.handlers = append(m.handlers, handler{n.labels, n.kids[1]})
		ok, v := m.eval(n.kids[0])
		m.handlers = m.handlers[:len(m.handlers)-1]
		if !ok {
			m.pos = start
			return false, Shape{}
		}
		return true, v
	case nThrow:
		// innermost handler first; a handler whose recovery expression does
		// not match passes the failure on to the next one
		for i := len(m.handlers) - 1; i >= 0; i-- {
			h := m.handlers[i]
			has := false
			for _, l := range h.labels {
				has = has || l == n.name
			}
			if !has {
				continue
			}
			if ok, v := m.eval(h.expr); ok {
				return true, v
			}
			m.pos = start
		}
		return false, Shape{}
	case nLabeled:
		ok, v := m.eval(n.kids[0])
		if !ok {
			m.pos = start
			return false, Shape{}
		}
		return true, v
	case nAnd, nNot:
		ok, _ := m.eval(n.kids[0])
		m.pos = start
		return ok == (n.kind == nAnd), Shape{}
	case nOpt:
		if ok, v := m.eval(n.kids[0]); ok {
			return true, v
		}
		m.pos = start
		return true, Shape{}
	case nStar, nPlus:
		var list []Shape
		for {
			at := m.pos
			ok, v := m.eval(n.kids[0])
			if !ok {
				m.pos = at
				break
			}
			list = append(list, v)
		}
		if n.kind == nPlus && len(list) == 0 {
			m.pos = start
			return false, Shape{}
		}
		return true, Shape{Kind: ShapeList, List: list}
	case nRef:
		ok, v := m.rule(n.name)
		if !ok {
			m.pos = start
			return false, Shape{}
		}
		return true, v
	case nLit:
		// i flag: the literal was lower-cased when the node was compiled,
		// the input is lower-cased rune by rune
		for _, want := range n.lit {
			cur, w := m.decode()
			if w == 0 {
				m.pos = start
				return false, Shape{}
			}
			if n.fold {
				cur = unicode.ToLower(cur)
			}
			if cur != want {
				m.pos = start
				return false, Shape{}
			}
			m.pos += w
		}
		return true, m.matched(start)
	case nClass:
		cur, w := m.decode()
		if w == 0 {
			return false, Shape{}
		}
		if n.fold {
			// the behaviour of the implementation that is documented as known
			// (DESIGN.md): the input rune is lower-cased and compared with the
			// lower-cased characters and the lower-cased range bounds, and
			// the Unicode classes are asked about the lower-cased rune
			cur = unicode.ToLower(cur)
		}
		member := false
		for _, c := range n.chars {
			member = member || c == cur
		}
		for i := 0; i+1 < len(n.ranges); i += 2 {
			member = member || (n.ranges[i] <= cur && cur <= n.ranges[i+1])
		}
		for _, t := range n.tables {
			member = member || unicode.Is(t, cur)
		}
		if member == n.inv {
			return false, Shape{}
		}
		m.pos += w
		return true, m.matched(start)
	case nAny:
		_, w := m.decode()
		if w == 0 {
			return false, Shape{}
		}
		m.pos += w
		return true, m.matched(start)
	case nAction, nState, nAndCode, nNotCode:
		panic(shapeUnsupported("code block " + n.marker))
	}
	panic(shapeUnsupported(n.badness))
}
