package pvref

import (
	"testing"

	"github.com/mna/pigeon/ast"
)

func recovery(x, rec ast.Expression, labels ...string) ast.Expression {
	e := ast.NewRecoveryExpr(ast.Pos{})
	e.Expr, e.RecoverExpr = x, rec
	for _, l := range labels {
		e.Labels = append(e.Labels, ast.FailureLabel(l))
	}
	return e
}

func throw(label string) ast.Expression {
	e := ast.NewThrowExpr(ast.Pos{})
	e.Label = label
	return e
}

func TestShape(t *testing.T) {
	a, b := lit("a", false), lit("b", false)
	cases := []struct {
		name string
		g    *ast.Grammar
		in   string
		ok   bool
		end  int
		val  string
	}{
		{"literal: the matched bytes", grammar("S", lit("ab", false)), "abc", true, 2, "b x6162"},
		{"literal fold: the input bytes, not the literal", grammar("S", lit("k", true)), "K", true, 3, "b xe284aa"},
		{"class", grammar("S", class("", "az", nil, false, false)), "q", true, 1, "b x71"},
		{"any on a stray byte", grammar("S", anyRune()), "\xff", true, 1, "b xff"},
		{"empty literal", grammar("S", lit("", false)), "x", true, 0, "b x"},
		{"sequence: one element per item", grammar("S", seq(a, and(b), b)), "ab", true, 2, "l 3 b x61 nil b x62"},
		{"not", grammar("S", not(a)), "b", true, 0, "nil"},
		{"choice: the alternative's value", grammar("S", choice(seq(a, a), a)), "ab", true, 1, "b x61"},
		{"star: one element per iteration", grammar("S", star(a)), "aab", true, 2, "l 2 b x61 b x61"},
		{"star: no iteration", grammar("S", star(a)), "b", true, 0, "l 0"},
		{"plus", grammar("S", plus(choice(a, b))), "abc", true, 2, "l 2 b x61 b x62"},
		{"plus fails", grammar("S", plus(a)), "b", false, 0, "nil"},
		{"option present", grammar("S", seq(opt(a), b)), "ab", true, 2, "l 2 b x61 b x62"},
		{"option absent", grammar("S", seq(opt(a), b)), "b", true, 1, "l 2 nil b x62"},
		{"label and rule reference", grammar("S", seq(lab("x", ref("T")), b), "T", star(a)), "ab", true, 2, "l 2 l 1 b x61 b x62"},
		{"failed sequence consumes nothing", grammar("S", choice(seq(a, a), seq(a, b))), "ab", true, 2, "l 2 b x61 b x62"},
		{"throw: the recovery expression's value", grammar("S", recovery(seq(a, choice(b, throw("e"))), anyRune(), "e")), "ac", true, 2, "l 2 b x61 b x63"},
		{"throw without a handler", grammar("S", choice(throw("e"), a)), "a", true, 1, "b x61"},
		{"throw: the inner handler fails, the outer one is tried",
			grammar("S", recovery(recovery(throw("e"), b, "e"), a, "e")), "a", true, 1, "b x61"},
		{"undefined rule", grammar("S", choice(ref("Nope"), a)), "a", true, 1, "b x61"},
	}
	for _, c := range cases {
		res := Compile(c.g).RunShape("S", c.in, 10000)
		if res.Exhausted || res.Unsupported != "" {
			t.Errorf("%s: exhausted=%t unsupported=%q", c.name, res.Exhausted, res.Unsupported)
			continue
		}
		if res.OK != c.ok || res.End != c.end || res.Val.String() != c.val {
			t.Errorf("%s: got ok=%t end=%d val=%s, want ok=%t end=%d val=%s", c.name, res.OK, res.End, res.Val, c.ok, c.end, c.val)
		}
	}
	if res := Compile(grammar("S", act("1", a))).RunShape("S", "a", 100); res.Unsupported == "" {
		t.Errorf("an action is reported as unsupported, got %+v", res)
	}
	if res := Compile(grammar("S", star(lit("", false)))).RunShape("S", "a", 100); !res.Exhausted {
		t.Errorf("a loop runs into the budget, got %+v", res)
	}
}
