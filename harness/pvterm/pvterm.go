// Package pvterm implements the conservative syntactic termination
// discipline that generated (and shrunk) cases must obey unless they carry an
// expression budget (maxExpr > 0 with memoize = 0).
//
// A grammar passes when
//   - no star/plus has a possibly-nullable body, and
//   - the "may be entered at the same input position" graph over rules and
//     recovery expressions has no cycle, after cutting the edges into rules
//     that the runtime really treats as left-recursion leaders
//     (leftRec variant, leader=1 and leftRecursive=1).
//
// A throw of label L is treated as possibly-nullable and as a same-position
// call of every recovery expression registered for L anywhere in the grammar
// (handlers are dynamically scoped).
package pvterm

import (
	"fmt"

	"pvharness/pvcase"
)

// Budgeted reports whether the case is in the "anything goes" class: every
// loop iteration and every recursion step charges the expression budget.
func Budgeted(c *pvcase.Case) bool {
	return c.Opts.MaxExpr > 0 && !c.Opts.Memoize
}

// Analysis holds the nullability facts of a grammar.
type Analysis struct {
	c        *pvcase.Case
	rules    map[string]*pvcase.Rule // effective rule table (later rules shadow earlier ones)
	ruleNull map[string]bool
}

// Analyze computes nullability (a fixpoint over the rules).
func Analyze(c *pvcase.Case) *Analysis {
	a := &Analysis{c: c, rules: map[string]*pvcase.Rule{}, ruleNull: map[string]bool{}}
	for _, r := range c.Grammar.Rules {
		a.rules[r.Name] = r
	}
	for changed := true; changed; {
		changed = false
		for name, r := range a.rules {
			if !a.ruleNull[name] && a.Nullable(r.Expr) {
				a.ruleNull[name] = true
				changed = true
			}
		}
	}
	return a
}

// LitNullable reports whether a literal can match without consuming: the
// empty literal, and a literal made only of U+FFFD, which the runtime matches
// at end of input (there p.pt.rn is utf8.RuneError with width 0 and
// parseLitMatcher has no EOF check).
func LitNullable(e *pvcase.Expr) bool {
	for _, r := range e.Runes {
		if r != 0xFFFD {
			return false
		}
	}
	return true
}

// Nullable reports whether e can possibly succeed without consuming input.
func (a *Analysis) Nullable(e *pvcase.Expr) bool {
	switch e.Kind {
	case pvcase.KLit:
		return LitNullable(e)
	case pvcase.KCls, pvcase.KAny:
		return false
	case pvcase.KOpt, pvcase.KStar, pvcase.KAnd, pvcase.KNot,
		pvcase.KAndc, pvcase.KNotc, pvcase.KStc, pvcase.KThr:
		return true
	case pvcase.KSeq:
		for _, k := range e.Kids {
			if !a.Nullable(k) {
				return false
			}
		}
		return true
	case pvcase.KCh:
		for _, k := range e.Kids {
			if a.Nullable(k) {
				return true
			}
		}
		return false
	case pvcase.KRef:
		return a.ruleNull[e.Name]
	case pvcase.KAct, pvcase.KLab, pvcase.KPlus:
		return a.Nullable(e.Kids[0])
	case pvcase.KRec:
		// the recovery expression only runs through a throw, which is
		// nullable by itself
		return a.Nullable(e.Kids[0])
	}
	return true
}

// node of the same-position call graph: a rule name or a recovery expression
type node struct {
	rule string
	rec  *pvcase.Expr
}

// Check returns nil when the case obeys the termination discipline
// (regardless of whether it is budgeted).
func Check(c *pvcase.Case) error {
	a := Analyze(c)

	// 1. loops over nullable bodies
	var err error
	handlers := map[string][]*pvcase.Expr{} // label -> rec nodes
	for _, r := range c.Grammar.Rules {
		r.Expr.Walk(func(e *pvcase.Expr) {
			switch e.Kind {
			case pvcase.KStar, pvcase.KPlus:
				if err == nil && a.Nullable(e.Kids[0]) {
					err = fmt.Errorf("rule %q: %s %d has a possibly-nullable body", r.Name, e.Kind, e.ID)
				}
			case pvcase.KRec:
				for _, l := range e.Labels {
					handlers[l] = append(handlers[l], e)
				}
			}
		})
	}
	if err != nil {
		return err
	}

	// 2. same-position call graph
	isLeader := func(name string) bool {
		r := a.rules[name]
		return r != nil && c.Flags.LeftRec && r.Leader && r.LeftRecursive
	}
	var calls func(e *pvcase.Expr, out map[node]bool)
	calls = func(e *pvcase.Expr, out map[node]bool) {
		switch e.Kind {
		case pvcase.KRef:
			if a.rules[e.Name] != nil {
				out[node{rule: e.Name}] = true
			}
		case pvcase.KThr:
			for _, h := range handlers[e.Label] {
				out[node{rec: h}] = true
			}
		case pvcase.KSeq:
			for _, k := range e.Kids {
				calls(k, out)
				if !a.Nullable(k) {
					break
				}
			}
		case pvcase.KCh:
			for _, k := range e.Kids {
				calls(k, out)
			}
		case pvcase.KAct, pvcase.KLab, pvcase.KOpt, pvcase.KStar, pvcase.KPlus, pvcase.KAnd, pvcase.KNot:
			calls(e.Kids[0], out)
		case pvcase.KRec:
			calls(e.Kids[0], out)
		}
	}
	succ := func(n node) map[node]bool {
		out := map[node]bool{}
		if n.rec != nil {
			calls(n.rec.Kids[1], out)
		} else if r := a.rules[n.rule]; r != nil {
			calls(r.Expr, out)
		}
		return out
	}
	const (
		white = iota
		grey
		black
	)
	colour := map[node]int{}
	var visit func(n node) error
	visit = func(n node) error {
		colour[n] = grey
		for m := range succ(n) {
			if m.rec == nil && isLeader(m.rule) {
				// the runtime memoises the leader at its start offset:
				// re-entry at the same position returns at once. The
				// leader's own body is still explored as a root below.
				continue
			}
			switch colour[m] {
			case grey:
				if m.rec != nil {
					return fmt.Errorf("recovery expression of rec %d can re-enter itself at the same position", m.rec.ID)
				}
				return fmt.Errorf("rule %q is left-recursive (same-position cycle)", m.rule)
			case white:
				if err := visit(m); err != nil {
					return err
				}
			}
		}
		colour[n] = black
		return nil
	}
	for _, r := range c.Grammar.Rules {
		n := node{rule: r.Name}
		if colour[n] == white {
			if err := visit(n); err != nil {
				return err
			}
		}
	}
	for _, hs := range handlers {
		for _, h := range hs {
			n := node{rec: h}
			if colour[n] == white {
				if err := visit(n); err != nil {
					return err
				}
			}
		}
	}
	return nil
}

// OK reports whether the case may be run without a risk of divergence:
// either it is budgeted or it passes Check.
func OK(c *pvcase.Case) bool {
	return Budgeted(c) || Check(c) == nil
}
