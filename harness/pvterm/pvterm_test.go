package pvterm

import (
	"testing"

	"pvharness/pvcase"
)

func lit(s string) *pvcase.Expr { return &pvcase.Expr{Kind: pvcase.KLit, Runes: []rune(s)} }
func ref(n string) *pvcase.Expr { return &pvcase.Expr{Kind: pvcase.KRef, Name: n} }
func un(k string, e *pvcase.Expr) *pvcase.Expr {
	return &pvcase.Expr{Kind: k, Kids: []*pvcase.Expr{e}}
}
func seq(es ...*pvcase.Expr) *pvcase.Expr { return &pvcase.Expr{Kind: pvcase.KSeq, Kids: es} }
func ch(es ...*pvcase.Expr) *pvcase.Expr  { return &pvcase.Expr{Kind: pvcase.KCh, Kids: es} }
func thr(l string) *pvcase.Expr           { return &pvcase.Expr{Kind: pvcase.KThr, Label: l} }
func rec(e, r *pvcase.Expr, ls ...string) *pvcase.Expr {
	return &pvcase.Expr{Kind: pvcase.KRec, Kids: []*pvcase.Expr{e, r}, Labels: ls}
}

type rl struct {
	name string
	e    *pvcase.Expr
	lr   bool
}

func mk(lrVariant bool, rules ...rl) *pvcase.Case {
	c := &pvcase.Case{Opts: pvcase.DefaultOpts(), Flags: pvcase.Flags{LeftRec: lrVariant}}
	for _, r := range rules {
		c.Grammar.Rules = append(c.Grammar.Rules, &pvcase.Rule{Name: r.name, Expr: r.e, Leader: r.lr, LeftRecursive: r.lr})
	}
	return c
}

func TestCheck(t *testing.T) {
	cases := []struct {
		name string
		c    *pvcase.Case
		ok   bool
	}{
		{"plain", mk(false, rl{"S", seq(lit("a"), un(pvcase.KStar, lit("b"))), false}), true},
		{"star of empty", mk(false, rl{"S", un(pvcase.KStar, lit("")), false}), false},
		{"star of opt", mk(false, rl{"S", un(pvcase.KStar, un(pvcase.KOpt, lit("a"))), false}), false},
		{"plus of and", mk(false, rl{"S", un(pvcase.KPlus, un(pvcase.KAnd, lit("a"))), false}), false},
		{"star of U+FFFD literal", mk(false, rl{"S", un(pvcase.KStar, lit("�")), false}), false},
		{"star of a U+FFFD literal", mk(false, rl{"S", un(pvcase.KStar, lit("a�")), false}), true},
		{"direct LR", mk(false, rl{"S", ch(seq(ref("S"), lit("x")), lit("y")), false}), false},
		{"direct LR with leader", mk(true, rl{"S", ch(seq(ref("S"), lit("x")), lit("y")), true}), true},
		{"leader bits but no LR variant", mk(false, rl{"S", ch(seq(ref("S"), lit("x")), lit("y")), true}), false},
		{"guarded recursion", mk(false, rl{"S", seq(lit("("), un(pvcase.KOpt, ref("S")), lit(")")), false}), true},
		{"LR through nullable prefix", mk(false, rl{"S", seq(un(pvcase.KOpt, lit("a")), ref("S")), false}), false},
		{"LR through predicate", mk(false, rl{"S", seq(un(pvcase.KNot, ref("S")), lit("a")), false}), false},
		{"indirect LR", mk(false, rl{"S", ref("A"), false}, rl{"A", ch(seq(ref("S"), lit("x")), lit("y")), false}), false},
		{"indirect LR with leader", mk(true, rl{"S", ch(seq(ref("T"), lit("a")), lit("b")), true},
			rl{"T", seq(ref("S"), lit("c")), false}), true},
		{"throw re-entering its handler", mk(false, rl{"S", rec(thr("L"), thr("L"), "L"), false}), false},
		{"throw handled by consuming recovery", mk(false, rl{"S", rec(seq(lit("a"), thr("L")), un(pvcase.KStar, lit("b")), "L"), false}), true},
		{"LR through recovery expression", mk(false, rl{"S", rec(ref("A"), ref("A"), "L"), false}, rl{"A", thr("L"), false}), false},
		{"star of throw", mk(false, rl{"S", un(pvcase.KStar, thr("L")), false}), false},
		{"undefined rule", mk(false, rl{"S", seq(ref("Nope"), lit("a")), false}), true},
	}
	for _, tc := range cases {
		err := Check(tc.c)
		if (err == nil) != tc.ok {
			t.Errorf("%s: Check = %v, want ok=%v", tc.name, err, tc.ok)
		}
	}
	c := mk(false, rl{"S", un(pvcase.KStar, lit("")), false})
	if OK(c) {
		t.Error("divergent grammar accepted without budget")
	}
	c.Opts.MaxExpr = 100
	if !OK(c) {
		t.Error("budgeted case rejected")
	}
	c.Opts.Memoize = true
	if OK(c) {
		t.Error("memo hits are not charged: budget+memoize must obey the discipline")
	}
}
