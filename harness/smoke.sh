#!/bin/sh
# Smoke test of the H1 host stream tool chain:
#   builds pigeon from /repo and the harness tools, generates the 16 hosts,
#   runs 2000 `mixed` cases and reports what came back.
# Exit status 0 = no timeout / crash / badvariant and the distribution figures
# are inside their bands.
set -eu

export GOFLAGS=-mod=mod GOPROXY=off

HARNESS=$(cd "$(dirname "$0")" && pwd)
BUILD=${BUILD:-/verif/build}
REPO=${REPO:-/repo}
SEED=${SEED:-1}
N=${N:-2000}
TMP=$(mktemp -d /tmp/pvh.smoke.XXXXXX)
trap 'rm -rf "$TMP"' EXIT INT TERM

mkdir -p "$BUILD/bin" "$BUILD/hosts"

echo "== build pigeon from $REPO"
(cd "$REPO" && go build -o "$BUILD/bin/pigeon" .)

echo "== build harness tools"
(cd "$HARNESS" && go build -o "$BUILD/bin/" ./cmd/...)

echo "== unit tests"
(cd "$HARNESS" && go test ./pvcase ./pvterm ./cmd/... 2>&1 | grep -v 'no test files')

echo "== generate hosts"
"$BUILD/bin/pvhostgen" -pigeon "$BUILD/bin/pigeon" -out "$BUILD/hosts" -harness "$HARNESS"

echo "== generate $N mixed cases (seed $SEED)"
"$BUILD/bin/pvgen" -profile mixed -seed "$SEED" -n "$N" -stats "$TMP/stats.json" -index "$TMP/index" > "$TMP/cases"
"$BUILD/bin/pvgen" -profile mixed -seed "$SEED" -n "$N" > "$TMP/cases2"
if cmp -s "$TMP/cases" "$TMP/cases2"; then
	echo "determinism: same seed, byte-identical case file ($(wc -c < "$TMP/cases") bytes)"
else
	echo "FAIL: pvgen is not deterministic"; exit 1
fi

echo "== run"
"$BUILD/bin/pvrun" -hosts "$BUILD/hosts" -cases "$TMP/cases" -out "$TMP/res" -j 16
"$BUILD/bin/pvrun" -hosts "$BUILD/hosts" -cases "$TMP/cases" -out "$TMP/res2" -j 3 2>/dev/null
if cmp -s "$TMP/res" "$TMP/res2"; then
	echo "determinism: results independent of chunking (-j 16 vs -j 3)"
else
	echo "FAIL: host results depend on how the cases are batched"; exit 1
fi

echo "== report"
lines=$(wc -l < "$TMP/res")
count() { grep -c "$1" "$TMP/res" || true; }
timeouts=$(count ' timeout$')
crashes=$(count '^res [0-9]* crash ')
badvar=$(count ' badvariant$')
rets=$(count '^res [0-9]* ret ')
panics=$(count '^res [0-9]* panic ')
echo "result lines: $lines (cases: $N)"
echo "timeout: $timeouts  crash: $crashes  badvariant: $badvar"
echo "ret: $rets  panic: $panics"
"$BUILD/bin/pvstat" -res "$TMP/res" -index "$TMP/index"
"$BUILD/bin/pvstat" -res "$TMP/res" -index "$TMP/index" -json > "$TMP/stat.json"

if [ -n "$(git -C "$REPO" status --short 2>/dev/null)" ]; then
	echo "FAIL: $REPO is dirty"; exit 1
fi

fail=0
[ "$lines" = "$N" ] || { echo "FAIL: $lines result lines for $N cases"; fail=1; }
[ "$timeouts" = 0 ] || { echo "FAIL: timeouts"; fail=1; }
[ "$crashes" = 0 ] || { echo "FAIL: crashes"; fail=1; }
[ "$badvar" = 0 ] || { echo "FAIL: badvariant"; fail=1; }
# bands: successful parses 30-60 %, > 1 trace event per case in block profiles
python3 - "$TMP/stat.json" <<'PY' || fail=1
import json, sys
st = json.load(open(sys.argv[1]))
a = st["all"]
share = 100.0 * a["NoErrors"] / a["Cases"]
ok = True
print("share of cases with nerrs=0: %.1f%% (band 30-60)" % share)
if not 30 <= share <= 60:
    print("FAIL: success share out of band"); ok = False
for p in ("blocks", "state", "panic"):
    g = st.get(p)
    if not g:
        continue
    done = g["Ret"] + g["Panic"]
    avg = g["Events"] / max(done, 1)
    print("average trace length, profile %s: %.2f (want > 1)" % (p, avg))
    if avg <= 1:
        print("FAIL: trace too short in profile", p); ok = False
sys.exit(0 if ok else 1)
PY
if [ "$fail" = 0 ]; then echo "SMOKE OK"; else echo "SMOKE FAILED"; exit 1; fi
