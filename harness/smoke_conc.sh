#!/bin/sh
# Smoke test of the concurrency stress harness (property C18):
#   builds pigeon from /repo and the harness tools, generates the 16 race
#   hosts (go build -race), runs `pvconc -groups 300` and prints its JSON.
# Exit status 0 = no mismatch, no race, no timeout, no crash, no bad group.
set -eu

export GOFLAGS=-mod=mod GOPROXY=off

HARNESS=$(cd "$(dirname "$0")" && pwd)
BUILD=${BUILD:-/verif/build}
REPO=${REPO:-/repo}
SEED=${SEED:-1}
GROUPS_N=${GROUPS_N:-300}
K=${K:-6}
ROUNDS=${ROUNDS:-20}
J=${J:-8}
OUT=${OUT:-$BUILD/conc_fail}
TMP=$(mktemp -d /tmp/pvc.smoke.XXXXXX)
trap 'rm -rf "$TMP"' EXIT INT TERM

mkdir -p "$BUILD/bin" "$BUILD/hosts_race"

repo_clean() {
	if [ -n "$(git -C "$REPO" status --short 2>/dev/null)" ]; then
		echo "FAIL: $REPO is dirty ($1)" >&2; exit 1
	fi
}

echo "== build pigeon from $REPO" >&2
repo_clean "before building pigeon"
(cd "$REPO" && GOFLAGS= go build -o "$BUILD/bin/pigeon" .)
repo_clean "after building pigeon: the binary may not be the unchanged tree"

echo "== build harness tools" >&2
(cd "$HARNESS" && go build -o "$BUILD/bin/" ./cmd/pvgen ./cmd/pvconcgen ./cmd/pvconc)
(cd "$HARNESS" && go vet ./hosttmpl ./cmd/pvconcgen ./cmd/pvconc)

echo "== generate race hosts" >&2
"$BUILD/bin/pvconcgen" -pigeon "$BUILD/bin/pigeon" -out "$BUILD/hosts_race" -harness "$HARNESS"

echo "== determinism of the group generation" >&2
"$BUILD/bin/pvconc" -pvgen "$BUILD/bin/pvgen" -seed "$SEED" -groups "$GROUPS_N" -k "$K" -norun -dump "$TMP/d1" > /dev/null
"$BUILD/bin/pvconc" -pvgen "$BUILD/bin/pvgen" -seed "$SEED" -groups "$GROUPS_N" -k "$K" -norun -dump "$TMP/d2" > /dev/null
if cmp -s "$TMP/d1" "$TMP/d2"; then
	echo "same seed, byte-identical groups ($(wc -c < "$TMP/d1") bytes)" >&2
else
	echo "FAIL: pvconc group generation is not deterministic" >&2; exit 1
fi

echo "== run $GROUPS_N groups (k=$K, rounds=$ROUNDS, seed $SEED)" >&2
"$BUILD/bin/pvconc" -hosts "$BUILD/hosts_race" -pvgen "$BUILD/bin/pvgen" -seed "$SEED" \
	-groups "$GROUPS_N" -k "$K" -rounds "$ROUNDS" -j "$J" -out "$OUT" > "$TMP/report.json"
cat "$TMP/report.json"

repo_clean "after the run"

python3 - "$TMP/report.json" "$GROUPS_N" >&2 <<'PY'
import json, sys
r = json.load(open(sys.argv[1]))
want = int(sys.argv[2])
bad = []
if r["groups"] != want or r["ok"] != want:
    bad.append("groups=%d ok=%d, want %d" % (r["groups"], r["ok"], want))
for key in ("mismatch_groups", "race_groups", "timeouts", "crashes", "badgroups"):
    if r[key]:
        bad.append("%s=%d" % (key, r[key]))
print("groups %d  cases %d  concurrent parses %d  wall %.1fs" %
      (r["groups"], r["cases"], r["concurrent_parses"], r["wall_s"]))
if bad:
    print("SMOKE_CONC FAILED: " + ", ".join(bad)); sys.exit(1)
print("SMOKE_CONC OK")
PY
