#!/bin/bash
# Smoke test of cmd/pvlower (the lowering of builder.BuildParser plus the
# runtime against the documented PEG semantics and value shapes).
#
#  1. vets and tests the new packages, builds pvlower against /repo;
#  2. takes a snapshot of the 16 host parsers and of pvrun (under the build
#     lock of /verif/check, which deletes and regenerates /verif/build/hosts
#     whenever a harness source changes) so that a concurrent rebuild cannot
#     pull them away in the middle of the run;
#  3. runs 1500 grammars (about 60000 cases on the hosts): 0 failures
#     expected, throughput target >= 150 grammars/s; prints the JSON report.
#
# /repo and the harness module are only read; scratch is /tmp/pvl.smoke.*.
set -u
export GOFLAGS=-mod=mod GOPROXY=off
H=/verif/harness
BUILD=/verif/build
BIN=$BUILD/bin
N=${1:-1500}
S=$(mktemp -d /tmp/pvl.smoke.XXXXXX)
trap 'rm -rf "$S"' EXIT

mkdir -p "$BIN"
(cd "$H" && test -z "$(gofmt -l pvref/shape.go pvref/shape_test.go cmd/pvlower)" && go vet ./pvref ./cmd/pvlower &&
	go test -count=1 ./pvref ./cmd/pvlower >/dev/null && go build -o "$S/pvlower" ./cmd/pvlower && cp "$S/pvlower" "$BIN/pvlower") || { echo "FAIL: gofmt/vet/test/build"; exit 1; }
if [ -n "$(git -C /repo status --short)" ]; then
	echo "note: /repo has uncommitted changes (not made by this script, which only reads it); pvlower was built against that tree"
fi

hosts_complete() {
	local v
	for v in o0g0l0b0 o0g0l0b1 o1g0l0b0 o1g0l0b1; do
		[ -x "$BUILD/hosts/$v" ] || return 1
	done
	[ -x "$BIN/pvrun" ]
}
snapshot() {
	hosts_complete && mkdir -p "$S/hosts" && cp "$BUILD"/hosts/o?g0l0b? "$S/hosts/" && cp "$BIN/pvrun" "$S/pvrun"
}
export -f hosts_complete snapshot
export S BUILD BIN
touch "$BUILD/.lock"
if ! flock "$BUILD/.lock" bash -c snapshot; then
	echo "hosts missing: running /verif/check --setup"
	/verif/check --setup >/dev/null 2>&1
	flock "$BUILD/.lock" bash -c snapshot || { echo "FAIL: no host parsers in $BUILD/hosts (run /verif/check --setup)"; exit 1; }
fi

"$S/pvlower" -seed 1 -n "$N" -hosts "$S/hosts" -pvrun "$S/pvrun" -out "$S/out" >"$S/report.json" || { echo "FAIL: pvlower could not run"; exit 1; }
cat "$S/report.json"
python3 - "$S/report.json" "$N" <<'EOF'
import json, sys
d = json.load(open(sys.argv[1]))
n = int(sys.argv[2])
runs = d["stats"]["runs"]
print("pvlower: %d grammars, %d cases compared (%d accepted, %d rejected), %d failures %s, %.1f s, %.0f grammars/s" % (
    d["evaluations"], runs["compared"], runs["accepted"], runs["rejected"], d["failure_count"],
    json.dumps(d["failures_by_kind"]), d["wall_s"], d["per_second"]))
ok = d["evaluations"] == n and d["failure_count"] == 0 and runs["compared"] > 0
if d["per_second"] < 150:
    print("note: below the throughput target of 150 grammars/s (loaded machine?)")
for f in d["failures"][:5]:
    print("  ", f["kind"], f["detail"][:300])
print("smoke_lower: OK" if ok else "smoke_lower: FAILED (failing cases are removed with the scratch directory; rerun: pvlower -seed 1 -n %d -out DIR)" % n)
sys.exit(0 if ok else 1)
EOF
