#!/bin/bash
# Smoke test of cmd/pvopt (C09: -optimize-grammar preserves behaviour).
#
#  1. builds pvopt against /repo and runs 3000 grammars with the default
#     avoidance: 0 failures expected;
#  2. runs 400 grammars per lift name against /repo and prints the failure
#     counts (a known defect that /repo has repaired in the meantime shows 0);
#  3. builds pvopt a second time against a scratch copy of /repo that carries
#     the optimizer of the root commit ("snapshot": ast/ast_optimize.go and
#     ast/ast_walk.go as delivered) and repeats 1. and 2. there: 0 failures
#     by default, and every known defect is detected once its avoidance is
#     lifted.
#
# /repo and the harness module are only read; scratch is /tmp/pvo.smoke.*.
set -u
export GOFLAGS=-mod=mod GOPROXY=off
H=/verif/harness
BIN=/verif/build/bin
LIFTS="optmerge-inverted optshare optlabels optthrow optbytes"
S=$(mktemp -d /tmp/pvo.smoke.XXXXXX)
trap 'rm -rf "$S"' EXIT
rc=0

count() { # prints "failure_count failures_by_kind grammars/s"
	python3 -c '
import json, sys
d = json.load(sys.stdin)
kinds = ", ".join("%s=%d" % (k, v) for k, v in sorted(d["failures_by_kind"].items())) or "-"
print("%d\t%s\t%.0f grammars/s" % (d["failure_count"], kinds, d["per_second"]))
'
}

mkdir -p "$BIN"
(cd "$H" && go vet ./pvref ./cmd/pvopt && go test -count=1 ./pvref >/dev/null && go build -o "$BIN/pvopt" ./cmd/pvopt) || { echo "FAIL: build"; exit 1; }

run() { # binary label: default run + one run per lift; sets global "undetected"
	local bin=$1 label=$2 line n
	line=$("$bin" -seed 1 -n 3000 -out "$S/out-$label" | count)
	echo "[$label] default avoidance, 3000 grammars: $line"
	n=${line%%$'\t'*}
	if [ "$n" != 0 ]; then
		echo "FAIL: [$label] failures with the default avoidance (cases under $S/out-$label are removed on exit; rerun: $bin -seed 1 -n 3000)"
		rc=1
	fi
	undetected=""
	for l in $LIFTS; do
		line=$("$bin" -seed 1 -n 400 -lift "$l" -out "$S/out-$label-$l" | count)
		echo "[$label] -lift $l, 400 grammars: $line"
		[ "${line%%$'\t'*}" = 0 ] && undetected="$undetected $l"
	done
}

echo "== /repo as it is (HEAD $(git -C /repo rev-parse --short HEAD))"
run "$BIN/pvopt" repo
[ -n "$undetected" ] && echo "note: nothing detected on /repo for:$undetected (repaired there, see the snapshot run)"

root=$(git -C /repo rev-list --max-parents=0 HEAD | tail -1)
echo "== scratch copy of /repo with the optimizer of the root commit ${root:0:7}"
mkdir -p "$S/repo" "$S/h/cmd"
rsync -a --exclude .git /repo/ "$S/repo/"
git -C /repo show "$root:ast/ast_optimize.go" >"$S/repo/ast/ast_optimize.go"
git -C /repo show "$root:ast/ast_walk.go" >"$S/repo/ast/ast_walk.go"
rsync -a "$H/go.mod" "$H/go.sum" "$H/pvpeg" "$H/pvref" "$S/h/"
rsync -a "$H/cmd/pvopt" "$S/h/cmd/"
sed -i "s#=> /repo#=> $S/repo#" "$S/h/go.mod"
(cd "$S/h" && go build -o "$S/pvopt-snapshot" ./cmd/pvopt) || { echo "FAIL: snapshot build"; exit 1; }
run "$S/pvopt-snapshot" snapshot
if [ -n "$undetected" ]; then
	echo "FAIL: [snapshot] known defects not detected when lifted:$undetected"
	rc=1
fi

if [ -n "$(git -C /repo status --short)" ]; then
	echo "note: /repo has uncommitted changes (not made by this script, which only reads it)"
fi
[ $rc = 0 ] && echo "smoke_opt: OK" || echo "smoke_opt: FAILED"
exit $rc
