#!/bin/sh
# Smoke test of the grammar-level tools pvfront, pvboot, pvtool, pve2e.
#
#   1. copies /repo to a scratch directory, adds hooks/verif_astdump.go,
#      runs `go vet -tags verif .` there and builds pigeon with -tags verif
#      into $BUILD/bin/pigeon-verif (the repository itself is never touched);
#   2. builds the four tools and runs the unit tests of package pvpeg;
#   3. runs every tool with a small n and prints its JSON report;
#   4. runs pvfront twice with the same seed: identical reports.
#
# Exit status 0 = every tool reported zero failures (default avoidance of the
# known defects), /repo is clean, no scratch directory is left behind.
set -eu

export GOFLAGS=-mod=mod GOPROXY=off

HARNESS=$(cd "$(dirname "$0")" && pwd)
BUILD=${BUILD:-/verif/build}
REPO=${REPO:-/repo}
HOOK=${HOOK:-$HARNESS/../hooks/verif_astdump.go}
SEED=${SEED:-1}
NFRONT=${NFRONT:-1500}
NBOOT=${NBOOT:-3000}
NTOOL=${NTOOL:-1200}
NE2E=${NE2E:-24}

SCRATCH=$(mktemp -d /tmp/pvt.smoke.XXXXXX)
OUT=$SCRATCH/out
trap 'rm -rf "$SCRATCH"' EXIT INT TERM
mkdir -p "$BUILD/bin" "$OUT"

echo "== build pigeon -tags verif from a scratch copy of $REPO"
rsync -a --exclude .git "$REPO"/ "$SCRATCH/repo/"
cp "$HOOK" "$SCRATCH/repo/verif_astdump.go"
(cd "$SCRATCH/repo" && go vet -tags verif . && go build -tags verif -o "$BUILD/bin/pigeon-verif" .)
# without the tag the hook is not compiled at all
(cd "$SCRATCH/repo" && go build -o "$SCRATCH/pigeon-plain" . && ! go list -f '{{.GoFiles}}' . | grep -q verif_astdump)
PIGEON=$BUILD/bin/pigeon-verif

echo "== build the tools"
(cd "$HARNESS" && go build -o "$BUILD/bin/" ./cmd/pvfront ./cmd/pvboot ./cmd/pvtool ./cmd/pve2e)

echo "== unit tests (pvpeg)"
(cd "$HARNESS" && go test -count=1 ./pvpeg)

fail=0
check() { # $1 = report file
	python3 - "$1" <<'PY' || fail=1
import json, sys
d = json.load(open(sys.argv[1]))
print("%s: evaluations=%d distinct_nontrivial=%d failures=%d %s wall=%.1fs (%.1f/s)" % (
    d["tool"], d["evaluations"], d["distinct_nontrivial"], d["failure_count"], d["failures_by_kind"], d["wall_s"], d["per_second"]))
for f in d["failures"][:5]:
    print("   FAIL", f["kind"], f["flags"], f["file"])
    print("       ", f["detail"][:300].replace("\n", "\n        "))
sys.exit(1 if d["failure_count"] else 0)
PY
}

echo "== pvfront"
"$BUILD/bin/pvfront" -seed "$SEED" -n "$NFRONT" -pigeon "$PIGEON" -out "$OUT/pvfront" | tee "$SCRATCH/pvfront.json"
check "$SCRATCH/pvfront.json"

echo "== pvboot"
"$BUILD/bin/pvboot" -seed "$SEED" -n "$NBOOT" -pigeon "$PIGEON" -repo "$REPO" -out "$OUT/pvboot" | tee "$SCRATCH/pvboot.json"
check "$SCRATCH/pvboot.json"

echo "== pvtool"
"$BUILD/bin/pvtool" -seed "$SEED" -n "$NTOOL" -pigeon "$PIGEON" -out "$OUT/pvtool" | tee "$SCRATCH/pvtool.json"
check "$SCRATCH/pvtool.json"

echo "== pve2e"
"$BUILD/bin/pve2e" -seed "$SEED" -n "$NE2E" -pigeon "$PIGEON" -out "$OUT/pve2e" | tee "$SCRATCH/pve2e.json"
check "$SCRATCH/pve2e.json"

echo "== determinism (pvfront, same seed twice)"
"$BUILD/bin/pvfront" -seed "$SEED" -n 300 -pigeon "$PIGEON" -out "$OUT/d1" > "$SCRATCH/d1.json"
"$BUILD/bin/pvfront" -seed "$SEED" -n 300 -pigeon "$PIGEON" -out "$OUT/d1" -j 3 > "$SCRATCH/d2.json"
python3 - "$SCRATCH/d1.json" "$SCRATCH/d2.json" <<'PY' || fail=1
import json, sys
a, b = (json.load(open(p)) for p in sys.argv[1:3])
for d in (a, b):
    d.pop("wall_s"); d.pop("per_second")
if a == b:
    print("same seed, same report (16 workers vs 3 workers)")
else:
    print("FAIL: reports differ"); sys.exit(1)
PY

# keep the failing inputs, if any, where they can be looked at
if [ "$fail" != 0 ] && [ -n "$(ls -A "$OUT" 2>/dev/null)" ]; then
	KEEP=$BUILD/smoke_tools_failures
	rm -rf "$KEEP" && mkdir -p "$KEEP" && cp -r "$OUT"/. "$KEEP"/
	echo "failing inputs kept under $KEEP"
fi

if [ -n "$(git -C "$REPO" status --short 2>/dev/null)" ]; then
	echo "FAIL: $REPO is dirty"; fail=1
fi
rm -rf "$SCRATCH"
left=$(ls -d /tmp/pvt.e2e.*/go.mod /tmp/pvt.tool.* 2>/dev/null || true)
if [ -n "$left" ]; then
	echo "FAIL: scratch left behind: $left"; fail=1
fi
if [ "$fail" = 0 ]; then echo "SMOKE-TOOLS OK"; else echo "SMOKE-TOOLS FAILED"; exit 1; fi
