//go:build verif

// Verification hook: AST dump server for the pigeon front-end.
//
// This file only adds code and is compiled only with `-tags verif`. Without
// the tag nothing changes. With the tag, nothing changes either unless the
// environment variable PIGEON_VERIF_ASTDUMP is set; then the binary never
// reaches main: it serves parse requests on stdin/stdout and exits 0 at EOF.
//
// Protocol (one request, one answer, answers are flushed one by one):
//
//	request : a decimal length line "N\n" followed by exactly N bytes of
//	          grammar text
//	answer  : one line, one of
//	          "ok <dump>"    the text was accepted by Parse("", data) with the
//	                         default options; <dump> is the canonical one-line
//	                         AST dump (positions included, format below)
//	          "err <hex>"    Parse returned an error; hex(err.Error())
//	          "panic <hex>"  Parse panicked; hex(fmt.Sprint(recovered value))
//
// A malformed frame (bad length line, short body) ends the server with exit
// status 2.
//
// The dump functions between the BEGIN/END markers are a byte-identical copy
// of the ones in /verif/harness/pvpeg/dump.go (a unit test of that package
// compares the two regions).

package main

import (
	"bufio"
	"encoding/hex"
	"fmt"
	"io"
	"os"
	"strconv"
	"strings"

	"github.com/mna/pigeon/ast"
)

func init() {
	if os.Getenv("PIGEON_VERIF_ASTDUMP") == "" {
		return
	}
	os.Exit(verifAstDumpServe(os.Stdin, os.Stdout))
}

func verifAstDumpServe(in io.Reader, out io.Writer) int {
	r := bufio.NewReaderSize(in, 1<<16)
	w := bufio.NewWriterSize(out, 1<<16)
	defer w.Flush()
	for {
		line, err := r.ReadString('\n')
		if err == io.EOF && line == "" {
			return 0
		}
		if err != nil {
			fmt.Fprintln(os.Stderr, "verif_astdump: bad frame header:", err)
			return 2
		}
		n, err := strconv.Atoi(strings.TrimSuffix(line, "\n"))
		if err != nil || n < 0 {
			fmt.Fprintf(os.Stderr, "verif_astdump: bad frame length %q\n", line)
			return 2
		}
		data := make([]byte, n)
		if _, err := io.ReadFull(r, data); err != nil {
			fmt.Fprintln(os.Stderr, "verif_astdump: short frame:", err)
			return 2
		}
		w.WriteString(verifAstDumpOne(data))
		w.WriteByte('\n')
		if err := w.Flush(); err != nil {
			return 2
		}
	}
}

func verifAstDumpOne(data []byte) (answer string) {
	defer func() {
		if e := recover(); e != nil {
			answer = "panic " + hex.EncodeToString([]byte(fmt.Sprint(e)))
		}
	}()
	v, err := Parse("", data)
	if err != nil {
		return "err " + hex.EncodeToString([]byte(err.Error()))
	}
	g, ok := v.(*ast.Grammar)
	if !ok {
		return "err " + hex.EncodeToString([]byte(fmt.Sprintf("Parse returned %T, not *ast.Grammar", v)))
	}
	return "ok " + verifDumpGrammar(g, true)
}

// BEGIN VERIF-ASTDUMP

// verifDumpGrammar renders g as the canonical one-line s-expression.
//
//	GRAMMAR := (Grammar@P INIT RULE*)             INIT    := nil | CODE
//	RULE    := (Rule@P IDENT DISPLAY EXPR)        DISPLAY := nil | (StringLit@P "raw text")
//	IDENT   := (Identifier@P "name")              CODE    := (CodeBlock@P "text with braces")
//	EXPR    := nil
//	         | (ChoiceExpr@P EXPR*) | (SeqExpr@P EXPR*)
//	         | (RecoveryExpr@P EXPR EXPR (labels "l1" "l2" ...))
//	         | (ActionExpr@P EXPR CODE) | (LabeledExpr@P IDENT EXPR)
//	         | (AndExpr@P EXPR) | (NotExpr@P EXPR)
//	         | (ZeroOrOneExpr@P EXPR) | (ZeroOrMoreExpr@P EXPR) | (OneOrMoreExpr@P EXPR)
//	         | (ThrowExpr@P "label") | (RuleRefExpr@P IDENT)
//	         | (StateCodeExpr@P CODE) | (AndCodeExpr@P CODE) | (NotCodeExpr@P CODE)
//	         | (LitMatcher@P "val" ic=BOOL)
//	         | (CharClassMatcher@P "raw" chars=[HEX*] ranges=[HEX*] classes=["name"*] ic=BOOL inv=BOOL)
//	         | (AnyMatcher@P "val")
//
// @P is @line:col:off and is left out altogether when withPos is false. All
// strings are strconv.Quote'd, runes are lower-case hex without prefix, lists
// are separated by one space, a nil child (also a typed nil) prints as nil,
// an expression of an unknown type T prints as (?T). The analysis fields
// (Nullable, FuncIx, Visited, LeftRecursive, Leader) are not part of the dump.
func verifDumpGrammar(g *ast.Grammar, withPos bool) string {
	d := &verifDumper{withPos: withPos}
	if g == nil {
		return "nil"
	}
	d.open("Grammar", g.Pos())
	d.code(g.Init)
	for _, r := range g.Rules {
		d.rule(r)
	}
	d.close()
	return d.b.String()
}

type verifDumper struct {
	b       strings.Builder
	withPos bool
}

func (d *verifDumper) open(kind string, p ast.Pos) {
	if n := d.b.Len(); n > 0 {
		d.b.WriteByte(' ')
	}
	d.b.WriteByte('(')
	d.b.WriteString(kind)
	if d.withPos {
		d.b.WriteByte('@')
		d.b.WriteString(strconv.Itoa(p.Line))
		d.b.WriteByte(':')
		d.b.WriteString(strconv.Itoa(p.Col))
		d.b.WriteByte(':')
		d.b.WriteString(strconv.Itoa(p.Off))
	}
}

func (d *verifDumper) close() { d.b.WriteByte(')') }

func (d *verifDumper) atom(s string) {
	d.b.WriteByte(' ')
	d.b.WriteString(s)
}

func (d *verifDumper) str(s string) { d.atom(strconv.Quote(s)) }

func (d *verifDumper) runes(key string, rs []rune) {
	d.b.WriteByte(' ')
	d.b.WriteString(key)
	d.b.WriteString("=[")
	for i, r := range rs {
		if i > 0 {
			d.b.WriteByte(' ')
		}
		d.b.WriteString(strconv.FormatInt(int64(r), 16))
	}
	d.b.WriteByte(']')
}

func (d *verifDumper) code(c *ast.CodeBlock) {
	if c == nil {
		d.atom("nil")
		return
	}
	d.open("CodeBlock", c.Pos())
	d.str(c.Val)
	d.close()
}

func (d *verifDumper) ident(i *ast.Identifier) {
	if i == nil {
		d.atom("nil")
		return
	}
	d.open("Identifier", i.Pos())
	d.str(i.Val)
	d.close()
}

func (d *verifDumper) rule(r *ast.Rule) {
	if r == nil {
		d.atom("nil")
		return
	}
	d.open("Rule", r.Pos())
	d.ident(r.Name)
	if r.DisplayName == nil {
		d.atom("nil")
	} else {
		d.open("StringLit", r.DisplayName.Pos())
		d.str(r.DisplayName.Val)
		d.close()
	}
	d.expr(r.Expr)
	d.close()
}

func (d *verifDumper) unary(kind string, p ast.Pos, e ast.Expression) {
	d.open(kind, p)
	d.expr(e)
	d.close()
}

func (d *verifDumper) coded(kind string, p ast.Pos, c *ast.CodeBlock) {
	d.open(kind, p)
	d.code(c)
	d.close()
}

func (d *verifDumper) expr(e ast.Expression) {
	switch e := e.(type) {
	case nil:
		d.atom("nil")
	case *ast.ChoiceExpr:
		if e == nil {
			d.atom("nil")
			return
		}
		d.open("ChoiceExpr", e.Pos())
		for _, a := range e.Alternatives {
			d.expr(a)
		}
		d.close()
	case *ast.SeqExpr:
		if e == nil {
			d.atom("nil")
			return
		}
		d.open("SeqExpr", e.Pos())
		for _, a := range e.Exprs {
			d.expr(a)
		}
		d.close()
	case *ast.RecoveryExpr:
		if e == nil {
			d.atom("nil")
			return
		}
		d.open("RecoveryExpr", e.Pos())
		d.expr(e.Expr)
		d.expr(e.RecoverExpr)
		d.b.WriteString(" (labels")
		for _, l := range e.Labels {
			d.str(string(l))
		}
		d.close()
		d.close()
	case *ast.ActionExpr:
		if e == nil {
			d.atom("nil")
			return
		}
		d.open("ActionExpr", e.Pos())
		d.expr(e.Expr)
		d.code(e.Code)
		d.close()
	case *ast.LabeledExpr:
		if e == nil {
			d.atom("nil")
			return
		}
		d.open("LabeledExpr", e.Pos())
		d.ident(e.Label)
		d.expr(e.Expr)
		d.close()
	case *ast.AndExpr:
		if e == nil {
			d.atom("nil")
			return
		}
		d.unary("AndExpr", e.Pos(), e.Expr)
	case *ast.NotExpr:
		if e == nil {
			d.atom("nil")
			return
		}
		d.unary("NotExpr", e.Pos(), e.Expr)
	case *ast.ZeroOrOneExpr:
		if e == nil {
			d.atom("nil")
			return
		}
		d.unary("ZeroOrOneExpr", e.Pos(), e.Expr)
	case *ast.ZeroOrMoreExpr:
		if e == nil {
			d.atom("nil")
			return
		}
		d.unary("ZeroOrMoreExpr", e.Pos(), e.Expr)
	case *ast.OneOrMoreExpr:
		if e == nil {
			d.atom("nil")
			return
		}
		d.unary("OneOrMoreExpr", e.Pos(), e.Expr)
	case *ast.ThrowExpr:
		if e == nil {
			d.atom("nil")
			return
		}
		d.open("ThrowExpr", e.Pos())
		d.str(e.Label)
		d.close()
	case *ast.RuleRefExpr:
		if e == nil {
			d.atom("nil")
			return
		}
		d.open("RuleRefExpr", e.Pos())
		d.ident(e.Name)
		d.close()
	case *ast.StateCodeExpr:
		if e == nil {
			d.atom("nil")
			return
		}
		d.coded("StateCodeExpr", e.Pos(), e.Code)
	case *ast.AndCodeExpr:
		if e == nil {
			d.atom("nil")
			return
		}
		d.coded("AndCodeExpr", e.Pos(), e.Code)
	case *ast.NotCodeExpr:
		if e == nil {
			d.atom("nil")
			return
		}
		d.coded("NotCodeExpr", e.Pos(), e.Code)
	case *ast.LitMatcher:
		if e == nil {
			d.atom("nil")
			return
		}
		d.open("LitMatcher", e.Pos())
		d.str(e.Val)
		d.atom("ic=" + strconv.FormatBool(e.IgnoreCase))
		d.close()
	case *ast.CharClassMatcher:
		if e == nil {
			d.atom("nil")
			return
		}
		d.open("CharClassMatcher", e.Pos())
		d.str(e.Val)
		d.runes("chars", e.Chars)
		d.runes("ranges", e.Ranges)
		d.b.WriteString(" classes=[")
		for i, c := range e.UnicodeClasses {
			if i > 0 {
				d.b.WriteByte(' ')
			}
			d.b.WriteString(strconv.Quote(c))
		}
		d.b.WriteByte(']')
		d.atom("ic=" + strconv.FormatBool(e.IgnoreCase))
		d.atom("inv=" + strconv.FormatBool(e.Inverted))
		d.close()
	case *ast.AnyMatcher:
		if e == nil {
			d.atom("nil")
			return
		}
		d.open("AnyMatcher", e.Pos())
		d.str(e.Val)
		d.close()
	default:
		d.atom(fmt.Sprintf("(?%T)", e))
	}
}

// END VERIF-ASTDUMP
