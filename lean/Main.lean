import PigeonVerif.Model.Protocol
import PigeonVerif.Model.MidProtocol
import PigeonVerif.Spec.SpecProtocol
import PigeonVerif.Model.WfgProtocol
import PigeonVerif.Opt.OptProtocol
import PigeonVerif.Model.ClassProtocol
import PigeonVerif.Model.ToolProtocol
open PV PV.Protocol

partial def loop (spec wfg lrwf emit : Bool) (h : IO.FS.Stream) (out : IO.FS.Stream) (tab : Array CaseRange) : IO Unit := do
  let line ← h.getLine
  if line.isEmpty then return ()
  let line := line.trimAsciiEnd.toString
  if line.isEmpty then loop spec wfg lrwf emit h out tab
  else if line.startsWith "unicode " then
    match parseLine caseRanges line with
    | .ok t => loop spec wfg lrwf emit h out t.toArray
    | .error e => out.putStrLn s!"res 0 error header: {e}"; loop spec wfg lrwf emit h out tab
  else if line.startsWith "mid " then
    match parseLine MidProtocol.midCase line with
    | .ok c => out.putStrLn (MidProtocol.runMid c)
    | .error e => out.putStrLn s!"midres 0 error {e}"
    loop spec wfg lrwf emit h out tab
  else if line.startsWith "class " then
    match parseLine ClassProtocol.classCase line with
    | .ok c => out.putStrLn (ClassProtocol.runClass c)
    | .error e => out.putStrLn s!"clsres 0 error {e}"
    loop spec wfg lrwf emit h out tab
  else if line.startsWith "tool " then
    match parseLine ToolProtocol.toolCase line with
    | .ok c => out.putStrLn (ToolProtocol.runTool c)
    | .error e => out.putStrLn s!"toolres 0 error {e}"
    loop spec wfg lrwf emit h out tab
  else if line.startsWith "optv " then
    match parseLine OptProtocol.optCase line with
    | .ok c => out.putStrLn (OptProtocol.runOptv c)
    | .error e => out.putStrLn s!"optvres 0 error {e}"
    loop spec wfg lrwf emit h out tab
  else
    match parseLine case_ line with
    | .ok c => out.putStrLn (if emit then WfgProtocol.emitLean c (toLower tab) else if lrwf then WfgProtocol.runLrwf c (toLower tab) else if wfg then WfgProtocol.runWfg c (toLower tab) else if spec then SpecProtocol.runSpec c (toLower tab) else runCase c (toLower tab))
    | .error e => out.putStrLn s!"res 0 error {e}"
    loop spec wfg lrwf emit h out tab

def main (args : List String) : IO Unit := do
  let stdin ← IO.getStdin
  let stdout ← IO.getStdout
  loop (args.contains "--spec") (args.contains "--wfg") (args.contains "--lrwf") (args.contains "--emit-lean") stdin stdout #[]
