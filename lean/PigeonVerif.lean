import PigeonVerif.Model.Basic
import PigeonVerif.Model.Runtime
import PigeonVerif.Model.Blocks
import PigeonVerif.Model.Protocol
