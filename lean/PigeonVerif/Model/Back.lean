/-
  Back — model of the part of the code generator that decides WHICH LABELS EACH CODE BLOCK RECEIVES
  (`builder/builder.go`: `writeRuleCode`, `writeExprCode`, `pushArgsSet` / `popArgsSet` / `addArg`, `writeFunc`).

  The Go code keeps a stack of label lists; every `pushArgsSet … popArgsSet` pair is properly nested, so the model passes
  the TOP list down and gets the updated top list back (a push = a recursive call with `[]` whose result list is dropped).
  `walk cur e = (cur', blocks)`: `cur'` is the top list after the generator has visited `e`, `blocks` the code blocks
  rendered while doing so, each with the label list `writeFunc` reads off the top of the stack at that moment.

  The runtime nodes (`RT.Expr`) have the constructors of the AST the builder walks (the lowering is one to one, tied by
  `pvlower`), so the model is stated on them; `blk` is the number of the code block.
-/
import PigeonVerif.Model.Runtime

namespace PV
namespace Back

mutual
/-- `writeExprCode` -/
def walk (cur : List String) : Expr → List String × List (Nat × List String)
  | .action _ blk e =>
    let (c1, m) := walk cur e
    (c1, m ++ [(blk, c1)])                                  -- `writeExprCode(expr.Expr); writeActionExprCode(expr)`
  | .andCode _ blk | .notCode _ blk | .stateCode _ blk => (cur, [(blk, cur)])
  | .labeled _ l e =>
    let c1 := if l = "" then cur else cur ++ [l]            -- `addArg(expr.Label)` (nil label: nothing)
    (c1, (walk [] e).2)                                      -- push; walk; pop
  | .and _ e | .not _ e | .oneOrMore _ e | .zeroOrMore _ e | .zeroOrOne _ e => (cur, (walk [] e).2)
  | .choice _ _ _ alts => (cur, walkAlts alts)
  | .recovery _ e r _ =>
    let (c1, m1) := walk [] e                                -- ONE pushed list for the guarded and the recovery expression
    (cur, m1 ++ (walk c1 r).2)
  | .seq _ es => walkSeq cur es
  | .any _ | .cls _ _ | .lit _ _ _ _ | .ruleRef _ _ | .throw _ _ => (cur, [])
/-- the items of a sequence share the list -/
def walkSeq (cur : List String) : List Expr → List String × List (Nat × List String)
  | [] => (cur, [])
  | e :: es =>
    let (c1, m1) := walk cur e
    let (c2, m2) := walkSeq c1 es
    (c2, m1 ++ m2)
/-- every alternative of a choice gets a list of its own -/
def walkAlts : List Expr → List (Nat × List String)
  | [] => []
  | e :: es => (walk [] e).2 ++ walkAlts es
end

/-- `writeRuleCode` for every rule, in order: the code blocks of the grammar with their parameter lists -/
def assign (rules : List Rule) : List (Nat × List String) := rules.flatMap (fun r => (walk [] r.expr).2)

/-- `FuncIx = 0 // already rendered, prevent duplicates`: a node met again (the optimizer may share nodes) keeps its first
    rendering -/
def argsOf (rules : List Rule) (blk : Nat) : List String := ((assign rules).lookup blk).getD []

/-! ### the declarative reading: the labels an expression binds in the scope it is evaluated in -/

mutual
/-- labels that a successful match of `e` adds to the scope it runs in (every other construct opens a scope of its own) -/
def binds : Expr → List String
  | .action _ _ e => binds e
  | .labeled _ l _ => if l = "" then [] else [l]
  | .seq _ es => bindsSeq es
  | _ => []
def bindsSeq : List Expr → List String
  | [] => []
  | e :: es => binds e ++ bindsSeq es
end

mutual
theorem walk_cur (cur : List String) : ∀ e : Expr, (walk cur e).1 = cur ++ binds e
  | .action _ _ e => by simp [walk, binds, walk_cur cur e]
  | .andCode .. | .notCode .. | .stateCode .. => by simp [walk, binds]
  | .labeled _ l _ => by by_cases h : l = "" <;> simp [walk, binds, h]
  | .and .. | .not .. | .oneOrMore .. | .zeroOrMore .. | .zeroOrOne .. => by simp [walk, binds]
  | .choice .. => by simp [walk, binds]
  | .recovery .. => by simp [walk, binds]
  | .seq _ es => by simp [walk, binds, walkSeq_cur cur es]
  | .any _ | .cls .. | .lit .. | .ruleRef .. | .throw .. => by simp [walk, binds]
theorem walkSeq_cur (cur : List String) : ∀ es : List Expr, (walkSeq cur es).1 = cur ++ bindsSeq es
  | [] => by simp [walkSeq, bindsSeq]
  | e :: es => by simp [walkSeq, bindsSeq, walk_cur cur e, walkSeq_cur (cur ++ binds e) es, List.append_assoc]
end

end Back
end PV
