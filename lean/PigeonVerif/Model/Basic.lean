/-
  Basic data of the runtime model: values, stores, positions, UTF-8 decoding.
  Core Lean only (no Mathlib) so that the driver links as an executable.
-/
namespace PV

abbrev Rune := Nat

/-- `utf8.RuneError` -/
def runeError : Rune := 0xFFFD

/-- Values that flow through a generated parser and that the canonical printers
    on both sides can print. `bytes` = `[]byte`, `list` = `[]any`, `str` = `string`,
    `cloner` = a `Cloner` object holding an int slice (by content). -/
inductive Val where
  | nil
  | bytes (b : List Nat)
  | list (vs : List Val)
  | str (s : String)
  | int (n : Int)
  | bool (b : Bool)
  | cloner (ns : List Int)
deriving Inhabited, Repr

/-- What a Go `panic` can carry in the block language. -/
inductive PanicVal where
  | err (msg : String)
  | str (msg : String)
  | int (n : Int)
deriving Inhabited, Repr, DecidableEq

/-- `storeDict`, by content. Keys are unique (maintained by `Store.set`). -/
abbrev Store := List (String × Val)

def Store.get (s : Store) (k : String) : Option Val :=
  match s with
  | [] => none
  | (k', v) :: rest => if k' = k then some v else Store.get rest k

def Store.set (s : Store) (k : String) (v : Val) : Store :=
  match s with
  | [] => [(k, v)]
  | (k', v') :: rest => if k' = k then (k, v) :: rest else (k', v') :: Store.set rest k v

/-- `position` of static_code.go -/
structure Pos where
  line : Nat
  col : Nat
  off : Nat
deriving Inhabited, Repr, DecidableEq

/-- `savepoint` of static_code.go -/
structure Savepoint where
  pos : Pos
  rn : Rune
  w : Nat
deriving Inhabited, Repr, DecidableEq

/-! ### UTF-8 decoding (`utf8.DecodeRune`) -/

def isCont (b : Nat) : Bool := 0x80 ≤ b && b ≤ 0xBF

def dec2 (p0 : Nat) : List Nat → Rune × Nat
  | b1 :: _ => if isCont b1 then ((p0 % 32) * 64 + b1 % 64, 2) else (runeError, 1)
  | [] => (runeError, 1)

/-- three-byte forms; `lo..hi` is the accepted range of the second byte -/
def dec3 (p0 lo hi : Nat) : List Nat → Rune × Nat
  | b1 :: b2 :: _ =>
    if lo ≤ b1 && b1 ≤ hi && isCont b2 then ((p0 % 16) * 4096 + (b1 % 64) * 64 + b2 % 64, 3)
    else (runeError, 1)
  | _ => (runeError, 1)

def dec4 (p0 lo hi : Nat) : List Nat → Rune × Nat
  | b1 :: b2 :: b3 :: _ =>
    if lo ≤ b1 && b1 ≤ hi && isCont b2 && isCont b3 then
      ((p0 % 8) * 262144 + (b1 % 64) * 4096 + (b2 % 64) * 64 + b3 % 64, 4)
    else (runeError, 1)
  | _ => (runeError, 1)

/-- Model of Go's `utf8.DecodeRune` on a byte list (the `first`/`acceptRanges` tables spelled out).
    Returns `(rune, width)`; `(runeError, 0)` on empty input, `(runeError, 1)` on any malformed prefix. -/
def decodeRune : List Nat → Rune × Nat
  | [] => (runeError, 0)
  | p0 :: rest =>
    if p0 < 0x80 then (p0, 1)
    else if p0 < 0xC2 then (runeError, 1)
    else if p0 < 0xE0 then dec2 p0 rest
    else if p0 = 0xE0 then dec3 p0 0xA0 0xBF rest
    else if p0 = 0xED then dec3 p0 0x80 0x9F rest
    else if p0 < 0xF0 then dec3 p0 0x80 0xBF rest
    else if p0 = 0xF0 then dec4 p0 0x90 0xBF rest
    else if p0 < 0xF4 then dec4 p0 0x80 0xBF rest
    else if p0 = 0xF4 then dec4 p0 0x80 0x8F rest
    else (runeError, 1)

/-! ### small list helpers -/

def lookup (k : String) : List (String × α) → Option α
  | [] => none
  | (k', v) :: rest => if k' = k then some v else lookup k rest

/-- `errList.dedupe`: keep the first occurrence of each message, in order. -/
def dedupeAux (seen : List String) : List String → List String
  | [] => []
  | m :: rest => if seen.contains m then dedupeAux seen rest else m :: dedupeAux (m :: seen) rest

def dedupe (l : List String) : List String := dedupeAux [] l

/-- insertion sort on strings (`sort.Strings`: bytewise order = code point order) -/
def insertStr (x : String) : List String → List String
  | [] => [x]
  | y :: ys => if x ≤ y then x :: y :: ys else y :: insertStr x ys

def sortStrs : List String → List String
  | [] => []
  | x :: xs => insertStr x (sortStrs xs)

/-- `listJoin(list, ", ", "or")` of static_code.go -/
def listJoin (l : List String) : String :=
  match l with
  | [] => ""
  | [x] => x
  | _ => ", ".intercalate l.dropLast ++ " or " ++ (l.getLast?.getD "")

end PV
