/-
  The data-level block language of the correspondence streams (PROTOCOL.md,
  "Block semantics"). Theorems about `RT` quantify over every `CodeEnv`; this
  file only provides the instances the driver runs.
-/
import PigeonVerif.Model.Runtime

namespace PV

inductive VExpr where
  | text | pos | arg (i : Nat) | sget (k : String) | gget (k : String)
  | const (v : Val) | tup (es : List VExpr) | calli
deriving Inhabited, Repr

inductive BExpr where
  | t | f | argnil (i : Nat) | argeq (i : Nat) (b : List Nat)
  | sge (k : String) (n : Int) | gge (k : String) (n : Int) | even | posge (n : Int) | tlen (n : Int) | bnot (b : BExpr)
deriving Inhabited, Repr

inductive Effect where
  | sset (k : String) (e : VExpr) | sinc (k : String) | smut (k : String) (x : Int) | sdel (k : String)
  | gset (k : String) (e : VExpr) | ginc (k : String) | gmut (k : String) (x : Int) | gdel (k : String)
deriving Inhabited, Repr

inductive When where
  | always | at (n : Nat)
deriving Inhabited, Repr

inductive BlockKind where
  | action | pred | state
deriving Inhabited, Repr, DecidableEq

structure Block where
  id : Nat
  kind : BlockKind
  args : List String
  effects : List Effect
  retV : VExpr := .const .nil
  retB : BExpr := .t
  err : Option (String × When) := none
  panic : Option (PanicVal × When) := none
deriving Inhabited, Repr

namespace Blocks

def posVal (p : Pos) : Val := .list [.int p.line, .int p.col, .int p.off]

def evalV (c : Ctx) : VExpr → Val
  | .text => .bytes c.text
  | .pos => posVal c.pos
  | .arg i => c.args.getD i .nil
  | .sget k => (c.state.get k).getD .nil
  | .gget k => (c.global.get k).getD .nil
  | .const v => v
  | .tup es => .list (evalVs c es)
  | .calli => .int c.calli
where
  evalVs (c : Ctx) : List VExpr → List Val
    | [] => []
    | e :: es => evalV c e :: evalVs c es

def intGe (v : Option Val) (n : Int) : Bool :=
  match v with
  | some (.int m) => decide (m ≥ n)
  | _ => false

def evalB (c : Ctx) : BExpr → Bool
  | .t => true
  | .f => false
  | .argnil i => match c.args.getD i .nil with | .nil => true | _ => false
  | .argeq i b => match c.args.getD i .nil with | .bytes b' => b' == b | _ => false
  | .sge k n => intGe (c.state.get k) n
  | .gge k n => intGe (c.global.get k) n
  | .even => c.calli % 2 == 0
  | .posge n => decide ((c.pos.off : Int) ≥ n)
  | .tlen n => decide ((c.text.length : Int) ≥ n)
  | .bnot b => !evalB c b

def inc (s : Store) (k : String) : Store :=
  match s.get k with
  | none => s.set k (.int 1)
  | some .nil => s.set k (.int 1)
  | some (.int n) => s.set k (.int (n + 1))
  | _ => s

def mutate (s : Store) (k : String) (x : Int) : Store :=
  match s.get k with
  | some (.cloner ns) => s.set k (.cloner (ns ++ [x]))
  | _ => s

/-- `hasState = false`: variants without a state store, `s*` effects are no-ops -/
def applyEffect (hasState : Bool) (c : Ctx) : Effect → Ctx
  | .sset k e => if hasState then { c with state := c.state.set k (evalV c e) } else c
  | .sinc k => if hasState then { c with state := inc c.state k } else c
  | .smut k x => if hasState then { c with state := mutate c.state k x } else c
  | .gset k e => { c with global := c.global.set k (evalV c e) }
  | .ginc k => { c with global := inc c.global k }
  | .gmut k x => { c with global := mutate c.global k x }
  | .sdel k => if hasState then { c with state := c.state.filter (fun p => p.1 ≠ k) } else c
  | .gdel k => { c with global := c.global.filter (fun p => p.1 ≠ k) }

def fires (calli : Nat) : When → Bool
  | .always => true
  | .at n => n == calli

def run (hasState : Bool) (b : Block) (c : Ctx) : BlockResult :=
  let c' := b.effects.foldl (applyEffect hasState) c
  match b.panic with
  | some (p, w) =>
    if fires c.calli w then
      { state := c'.state, global := c'.global, panic := some p }
    else finish c'
  | none => finish c'
where
  finish (c' : Ctx) : BlockResult :=
    { ret := evalV c' b.retV, retB := evalB c' b.retB, state := c'.state, global := c'.global,
      err := match b.err with
        | some (m, w) => if fires c'.calli w then some m else none
        | none => none }

/-- the `CodeEnv` of a block table -/
def codeEnv (hasState : Bool) (tbl : List Block) : CodeEnv :=
  { args := fun id => match tbl.find? (·.id == id) with | some b => b.args | none => [],
    run := fun id c => match tbl.find? (·.id == id) with
      | some b => run hasState b c
      | none => { state := c.state, global := c.global } }

end Blocks
end PV
