/-
  Model of `(*ast.CharClassMatcher).parse` (ast/ast.go): the raw text of a character class, as the front-end grammar
  hands it to `ast.NewCharClassMatcher` (`[` … `]`, optional `^` after the bracket, optional `i` after it), is turned into
  the class descriptor every later stage works with: ignore-case and inverted flags, single characters, ranges (a flat
  list of low/high pairs) and Unicode class names.

  One Lean function per phase of the Go function, byte-faithful where Go works on bytes:
    * `strings.HasSuffix(raw, "i")`, the two slicings, the `^` test                      — `parse`
    * the decoding loop over `strings.Reader.ReadRune` with the escape switch              — `decode`
    * `strconv.UnquoteChar("\\"+buf, 0)` (errors ignored: the result is then 0)             — `unquote`
    * "extract ranges and chars"                                                           — `extract` (`step`, `run`)

  Tied to the code by execution: `harness/cmd/pvclass` calls the real `ast.NewCharClassMatcher` on generated class texts
  (every escape form, ranges, `\p` classes, `^`, `i`, stray bytes, truncations) and the driver (`pvdriver`, lines starting
  with `class `) runs this model on the same bytes; the two descriptors are compared field by field.
  Core Lean only.
-/
import PigeonVerif.Model.Basic

namespace PV
namespace ClassParse

def dash : Rune := 45

/-! ### phase 3: ranges and characters -/

/-- loop state of the extraction: `Chars`, `Ranges` (flat), `inRange`, `wasRange` -/
structure St where
  chars : List Rune
  ranges : List Rune
  inRange : Bool
  wasRange : Bool
deriving Repr, DecidableEq

/-- one iteration of `for i, r := range chars`; `last` = (i == len(chars)-1); `esc` = the rune cannot be the range
    operator: it was written as an escape sequence (repair of finding D3) or stands next to a Unicode class (D36) -/
def step (s : St) (r : Rune) (esc : Bool) (last : Bool) : St :=
  if s.inRange then { s with ranges := s.ranges ++ [r], inRange := false, wasRange := true }
  else if r = dash && !esc && !s.wasRange && !s.chars.isEmpty && !last then
    { chars := s.chars.dropLast, ranges := s.ranges ++ [s.chars.getLast?.getD 0], inRange := true, wasRange := false }
  else { s with chars := s.chars ++ [r], wasRange := false }

def run (s : St) : List (Rune × Bool) → St
  | [] => s
  | [r] => step s r.1 r.2 true
  | r :: r' :: rest => run (step s r.1 r.2 false) (r' :: rest)

/-- the extraction as `parse` performs it, on the decoded runes with their "escaped" marks -/
def extract (decoded : List (Rune × Bool)) : List Rune × List Rune :=
  let s := run { chars := [], ranges := [], inRange := false, wasRange := false } decoded
  (s.chars, s.ranges)

/-! ### `utf8.EncodeRune` / `bytes.Buffer.WriteRune` -/

def validRune (r : Nat) : Bool := r < 0xD800 || (0xE000 ≤ r && r ≤ 0x10FFFF)

def encodeRune (r : Rune) : List Nat :=
  let r := if validRune r then r else runeError
  if r < 0x80 then [r]
  else if r < 0x800 then [0xC0 + r / 64, 0x80 + r % 64]
  else if r < 0x10000 then [0xE0 + r / 4096, 0x80 + (r / 64) % 64, 0x80 + r % 64]
  else [0xF0 + r / 262144, 0x80 + (r / 4096) % 64, 0x80 + (r / 64) % 64, 0x80 + r % 64]

/-! ### `strconv.UnquoteChar("\\" ++ buf, 0)`, result rune only; 0 on any error -/

def unhex (b : Nat) : Option Nat :=
  if 48 ≤ b && b ≤ 57 then some (b - 48)
  else if 97 ≤ b && b ≤ 102 then some (b - 97 + 10)
  else if 65 ≤ b && b ≤ 70 then some (b - 65 + 10)
  else none

/-- `n` hex digits from the front of `s` -/
def hexN : Nat → List Nat → Nat → Option Nat
  | 0, _, v => some v
  | _ + 1, [], _ => none
  | n + 1, b :: s, v => match unhex b with
    | some x => hexN n s (v * 16 + x)
    | none => none

/-- `buf` = the bytes after the backslash -/
def unquote (buf : List Nat) : Rune :=
  match buf with
  | [] => 0
  | c :: s =>
    if c = 97 then 7 else if c = 98 then 8 else if c = 102 then 12 else if c = 110 then 10
    else if c = 114 then 13 else if c = 116 then 9 else if c = 118 then 11 else if c = 92 then 92
    else if c = 120 then (hexN 2 s 0).getD 0                                   -- \xHH: any byte value
    else if c = 117 then (match hexN 4 s 0 with | some v => if validRune v then v else 0 | none => 0)
    else if c = 85 then (match hexN 8 s 0 with | some v => if validRune v then v else 0 | none => 0)
    else if 48 ≤ c && c ≤ 55 then
      match s with
      | d1 :: d2 :: _ =>
        if 48 ≤ d1 && d1 ≤ 55 && 48 ≤ d2 && d2 ≤ 55 then
          let v := ((c - 48) * 8 + (d1 - 48)) * 8 + (d2 - 48)
          if v > 255 then 0 else v
        else 0
      | _ => 0
    else 0          -- `\'`, `\"` (quote = 0 permits neither), anything else: ErrSyntax, value 0

/-! ### phase 2: the decoding loop -/

/-- `r.ReadRune()` with the error ignored: at the end of the text the rune is 0 and nothing is consumed -/
def readRune (bs : List Nat) : Rune × List Nat :=
  match bs with
  | [] => (0, [])
  | _ => let d := decodeRune bs; (d.1, bs.drop d.2)

/-- `consumeN` further runes written to the buffer after the escape letter -/
def readN : Nat → List Nat → List Nat → List Nat × List Nat
  | 0, bs, acc => (acc, bs)
  | n + 1, bs, acc => let (r, bs') := readRune bs; readN n bs' (acc ++ encodeRune r)

/-- the name of a `\p{…}` class: runes up to `}` or the end of the text -/
def readName : Nat → List Nat → List Rune → List Rune × List Nat
  | 0, bs, acc => (acc, bs)
  | _ + 1, [], acc => (acc, [])
  | f + 1, bs, acc =>
    let (r, bs') := readRune bs
    if r = 125 then (acc, bs') else readName f bs' (acc ++ [r])

structure Dec where
  /-- decoded runes, each with the mark "cannot be the range operator": it came from an escape sequence (repair of D3) or
      stands next to a Unicode class escape (repair of D36: a class is no range bound) -/
  chars : List (Rune × Bool)
  classes : List (List Rune)
  /-- `afterClass`: the previous item was a Unicode class escape -/
  pend : Bool := false
deriving Repr, DecidableEq

/-- `escaped[len(escaped)-1] = true` (nothing when the list is empty) -/
def markLast : List (Rune × Bool) → List (Rune × Bool)
  | [] => []
  | [x] => [(x.1, true)]
  | x :: y :: rest => x :: markLast (y :: rest)

/-- the `outer` loop; `fuel` ≥ number of bytes left -/
def decode : Nat → List Nat → Dec → Dec
  | 0, _, d => d
  | _ + 1, [], d => d
  | f + 1, bs, d =>
    let (rn, bs1) := readRune bs
    if rn ≠ 92 then decode f bs1 { d with chars := d.chars ++ [(rn, d.pend)], pend := false }
    else
      let (e, bs2) := readRune bs1
      if e = 93 then decode f bs2 { d with chars := d.chars ++ [(93, true)], pend := false }
      else if e = 112 then
        let (n, bs3) := readRune bs2
        if n = 123 then
          let (name, bs4) := readName bs3.length bs3 []
          decode f bs4 { chars := markLast d.chars, classes := d.classes ++ [name], pend := true }
        else
          -- `string(rn)`: an invalid code point would become U+FFFD; ReadRune never yields one
          decode f bs3 { chars := markLast d.chars, classes := d.classes ++ [[n]], pend := true }
      else
        let consumeN := if e = 120 then 2 else if e = 117 then 4 else if e = 85 then 8
                        else if 48 ≤ e && e ≤ 55 then 2 else 0
        let (buf, bs3) := readN consumeN bs2 (encodeRune e)
        decode f bs3 { d with chars := d.chars ++ [(unquote buf, true)], pend := false }

/-! ### phase 1 and the whole function -/

structure Parsed where
  ignoreCase : Bool
  inverted : Bool
  chars : List Rune
  ranges : List Rune
  classes : List (List Rune)
deriving Repr, DecidableEq

/-- `parse` on the bytes of `c.Val`. `none` = the Go function panics (slice bounds: fewer than two bytes are left after
    the `i` suffix was taken off) — never the case for a text the front-end grammar produced. -/
def parse (raw : List Nat) : Option Parsed :=
  let ic := raw.getLast? = some 105
  let raw := if ic then raw.dropLast else raw
  if raw.length < 2 then none else
  let raw := (raw.drop 1).dropLast
  if raw.isEmpty then some { ignoreCase := ic, inverted := false, chars := [], ranges := [], classes := [] } else
  let inv := raw.head? = some 94
  let raw := if inv then raw.drop 1 else raw
  if raw.isEmpty then some { ignoreCase := ic, inverted := inv, chars := [], ranges := [], classes := [] } else
  let d := decode raw.length raw { chars := [], classes := [] }
  let (cs, rs) := extract d.chars
  some { ignoreCase := ic, inverted := inv, chars := cs, ranges := rs, classes := d.classes }

def ofString (s : String) : List Nat := s.toUTF8.toList.map (·.toNat)

end ClassParse
end PV
