/-
  Wire format of the class-parser stream (`class <id> x<hex>` → `clsres …`, see harness/cmd/pvclass).
-/
import PigeonVerif.Model.ClassParse
import PigeonVerif.Model.Protocol

namespace PV
namespace ClassProtocol
open Protocol

def classCase : P (Nat × List Nat) := do
  let _ ← tok
  let id ← nat
  let raw ← hexBytes
  pure (id, raw)

def runClass (c : Nat × List Nat) : String :=
  match ClassParse.parse c.2 with
  | none => s!"clsres {c.1} panic"
  | some p =>
    " ".intercalate
      (["clsres", toString c.1, (if p.ignoreCase then "1" else "0"), (if p.inverted then "1" else "0"), toString p.chars.length]
        ++ p.chars.map toString ++ [toString p.ranges.length] ++ p.ranges.map toString
        ++ [toString p.classes.length] ++ p.classes.map (fun n => hexOfBytes (n.flatMap ClassParse.encodeRune)))

end ClassProtocol
end PV
