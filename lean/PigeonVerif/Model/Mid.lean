/-
  Mid — model of the grammar analysis that decides left recursion
  (`ast.NullableVisit` / `IsNullable` / `InitialNames`, `builder/left_recursion.go`, `builder/scc.go`),
  as it is: nullable flags live on the nodes, a rule on the DFS stack counts as non-nullable, the
  last traversal that reaches a node wins, and `ComputeNullables` visits the rules in an order the
  caller chooses (Go: map iteration order).
-/
import PigeonVerif.Model.Basic

namespace PV
namespace Mid

/-- analysis-relevant AST; `nullable` fields are the Go `Nullable` struct fields (default false) -/
inductive AExpr where
  | action (nullable : Bool) (e : AExpr)
  | andCode | notCode | stateCode
  | and (e : AExpr) | not (e : AExpr)
  | any
  | cls (noMembers : Bool)
  | choice (nullable : Bool) (es : List AExpr)
  | labeled (e : AExpr)
  | lit (empty : Bool)
  | plus (e : AExpr) | star (e : AExpr) | opt (e : AExpr)
  | recovery (nullable : Bool) (e r : AExpr)
  | ref (nullable : Bool) (name : String)
  | seq (nullable : Bool) (es : List AExpr)
  | throw
deriving Inhabited, Repr

structure ARule where
  name : String
  visited : Bool := false
  nullable : Bool := false
  leftRecursive : Bool := false
  leader : Bool := false
  expr : AExpr
deriving Inhabited, Repr

abbrev AGrammar := List ARule

def findRule (G : AGrammar) (name : String) : Option ARule := G.find? (·.name = name)

def updateRule (G : AGrammar) (name : String) (f : ARule → ARule) : AGrammar :=
  G.map (fun r => if r.name = name then f r else r)

/-- which repairs of the analysis are in the tree (so that one model serves before and after a `fix:`) -/
structure Cfg where
  /-- `?`,`*`,`+`,`&`,`!` visit their operand (flags inside them get computed) -/
  visitOperands : Bool
  /-- `&e` / `!e` report the operand's initial names -/
  predNames : Bool
  /-- a class without members is not nullable -/
  emptyClassNotNullable : Bool
  /-- NOT in the tree (finding D17): a choice visits all its alternatives -/
  choiceVisitAll : Bool := false
  /-- NOT in the tree (finding D23): `e+` is nullable when `e` is -/
  plusNullable : Bool := false
deriving Inhabited, Repr

/-- `IsNullable()` -/
def isNullable (cfg : Cfg) : AExpr → Bool
  | .action n _ => n
  | .andCode | .notCode | .stateCode => true
  | .and _ | .not _ => true
  | .any => false
  | .cls noMembers => if cfg.emptyClassNotNullable then false else noMembers
  | .choice n _ => n
  | .labeled e => isNullable cfg e
  | .lit empty => empty
  | .plus e => if cfg.plusNullable then isNullable cfg e else false
  | .star _ | .opt _ => true
  | .recovery n _ _ => n
  | .ref n _ => n
  | .seq n _ => n
  | .throw => true

section
variable (cfg : Cfg) (visitRule : AGrammar → String → Option (Bool × AGrammar))

mutual
/-- `NullableVisit` on an expression: returns the result, the node with its flags updated, and the
    grammar (other rules' flags may have been updated through references) -/
def visitExpr (G : AGrammar) : AExpr → Option (Bool × AExpr × AGrammar)
  | .action _ e => do
    let (b, e', G') ← visitExpr G e
    pure (b, .action b e', G')
  | .andCode => pure (true, .andCode, G)
  | .notCode => pure (true, .notCode, G)
  | .stateCode => pure (true, .stateCode, G)
  | .and e =>
    if cfg.visitOperands then do
      let (_, e', G') ← visitExpr G e
      pure (true, .and e', G')
    else pure (true, .and e, G)
  | .not e =>
    if cfg.visitOperands then do
      let (_, e', G') ← visitExpr G e
      pure (true, .not e', G')
    else pure (true, .not e, G)
  | .any => pure (false, .any, G)
  | .cls m => pure (isNullable cfg (.cls m), .cls m, G)
  | .choice _ es => do
    let (b, es', G') ← visitChoice G es
    pure (b, .choice b es', G')
  | .labeled e => do
    let (b, e', G') ← visitExpr G e
    pure (b, .labeled e', G')
  | .lit empty => pure (empty, .lit empty, G)
  | .plus e =>
    if cfg.visitOperands then do
      let (b, e', G') ← visitExpr G e
      pure (cfg.plusNullable && b, .plus e', G')
    else pure (false, .plus e, G)
  | .star e =>
    if cfg.visitOperands then do
      let (_, e', G') ← visitExpr G e
      pure (true, .star e', G')
    else pure (true, .star e, G)
  | .opt e =>
    if cfg.visitOperands then do
      let (_, e', G') ← visitExpr G e
      pure (true, .opt e', G')
    else pure (true, .opt e, G)
  | .recovery _ e r => do
    let (b1, e', G1) ← visitExpr G e
    if b1 then pure (true, .recovery true e' r, G1)
    else do
      let (b2, r', G2) ← visitExpr G1 r
      pure (b2, .recovery b2 e' r', G2)
  | .ref _ name =>
    match findRule G name with
    | none => pure (false, .ref false name, G)
    | some _ => do
      let (b, G') ← visitRule G name
      pure (b, .ref b name, G')
  | .seq _ es => do
    let (b, es', G') ← visitSeq G es
    pure (b, .seq b es', G')
  | .throw => pure (true, .throw, G)

/-- `ChoiceExpr.NullableVisit`: returns at the first nullable alternative (later ones keep their flags) -/
def visitChoice (G : AGrammar) : List AExpr → Option (Bool × List AExpr × AGrammar)
  | [] => pure (false, [], G)
  | e :: es => do
    let (b, e', G1) ← visitExpr G e
    if b && !cfg.choiceVisitAll then pure (true, e' :: es, G1)
    else do
      let (b', es', G2) ← visitChoice G1 es
      pure (b || b', e' :: es', G2)

/-- `SeqExpr.NullableVisit`: returns at the first non-nullable item -/
def visitSeq (G : AGrammar) : List AExpr → Option (Bool × List AExpr × AGrammar)
  | [] => pure (true, [], G)
  | e :: es => do
    let (b, e', G1) ← visitExpr G e
    if !b then pure (false, e' :: es, G1)
    else do
      let (b', es', G2) ← visitSeq G1 es
      pure (b', e' :: es', G2)
end
end

/-- `Rule.NullableVisit` (fuel bounds the reference depth; it cannot exceed the number of rules) -/
def visitRule (cfg : Cfg) : Nat → AGrammar → String → Option (Bool × AGrammar)
  | 0, _, _ => none
  | f + 1, G, name =>
    match findRule G name with
    | none => some (false, G)
    | some r =>
      if r.visited then some (false, G)
      else
        let G1 := updateRule G name (fun r => { r with visited := true })
        match visitExpr cfg (visitRule cfg f) G1 r.expr with
        | none => none
        | some (b, e', G2) =>
          some (b, updateRule G2 name (fun r => { r with visited := false, nullable := b, expr := e' }))

/-- `ComputeNullables`, visiting the rules in the given order -/
def computeNullables (cfg : Cfg) (G : AGrammar) (order : List String) : Option AGrammar :=
  order.foldlM (fun G name => (visitRule cfg (G.length + 1) G name).map (·.2)) G

/-! ### `InitialNames`, first graph -/

def addName (n : String) (l : List String) : List String := if l.contains n then l else l ++ [n]
def union (a b : List String) : List String := b.foldl (fun acc n => addName n acc) a

mutual
def initialNames (cfg : Cfg) : AExpr → List String
  | .action _ e => initialNames cfg e
  | .andCode | .notCode | .stateCode => []
  | .and e | .not e => if cfg.predNames then initialNames cfg e else []
  | .any | .cls _ | .lit _ | .throw => []
  | .choice _ es => namesChoice cfg es
  | .labeled e => initialNames cfg e
  | .plus e | .star e | .opt e => initialNames cfg e
  | .recovery _ e r => union (initialNames cfg e) (initialNames cfg r)
  | .ref _ name => [name]
  | .seq _ es => namesSeq cfg es
def namesChoice (cfg : Cfg) : List AExpr → List String
  | [] => []
  | e :: es => union (initialNames cfg e) (namesChoice cfg es)
def namesSeq (cfg : Cfg) : List AExpr → List String
  | [] => []
  | e :: es => if isNullable cfg e then union (initialNames cfg e) (namesSeq cfg es) else initialNames cfg e
end

abbrev Graph := List (String × List String)

/-- `MakeFirstGraph` -/
def firstGraph (cfg : Cfg) (G : AGrammar) : Graph :=
  let g : Graph := G.map (fun r => (r.name, initialNames cfg r.expr))
  let targets := g.foldl (fun acc e => union acc e.2) []
  g ++ (targets.filter (fun t => !(g.any (·.1 = t)))).map (fun t => (t, []))

def succs (g : Graph) (v : String) : List String := (lookup v g).getD []

/-! ### SCCs (order-free specification of Tarjan's result) and leader choice -/

/-- vertices reachable from `v` in at least one step -/
def reachFrom (g : Graph) (v : String) : List String :=
  let rec go : Nat → List String → List String → List String
    | 0, _, seen => seen
    | k + 1, frontier, seen =>
      let next := frontier.foldl (fun acc u => union acc (succs g u)) []
      let fresh := next.filter (fun x => !seen.contains x)
      if fresh.isEmpty then seen else go k fresh (union seen fresh)
  go (g.length + 1) [v] []

def sccOf (g : Graph) (v : String) : List String :=
  v :: ((reachFrom g v).filter (fun u => u ≠ v && (reachFrom g u).contains v))

def hasSelfLoop (g : Graph) (v : String) : Bool := (succs g v).contains v

/-- the lasso paths `FindCyclesInSCC` yields from `start` inside `scc` -/
def lassos (g : Graph) (scc : List String) : Nat → String → List String → List (List String)
  | 0, _, _ => []
  | k + 1, node, path =>
    if path.contains node then [path ++ [node]]
    else
      let path' := path ++ [node]
      ((succs g node).filter (scc.contains ·)).foldl (fun acc c => acc ++ lassos g scc k c path') []

def minStr : List String → Option String
  | [] => none
  | x :: xs => some (xs.foldl (fun m y => if y < m then y else m) x)

/-- `findLeader`: the smallest name among the vertices that lie on every lasso path from every start -/
def findLeader (g : Graph) (scc : List String) : Option String :=
  let all := scc.foldl (fun acc s => acc ++ lassos g scc (scc.length + 2) s []) []
  minStr (scc.filter (fun v => all.all (fun p => p.contains v)))

inductive Verdict where
  | ok (haveLR : Bool)
  | noLeader
deriving Inhabited, Repr, DecidableEq

/-- one iteration of the loop over the components in `ComputeLeftRecursives`: `v` is the vertex whose component is
    handled now unless it was handled before (`done`) -/
def lrStep (g : Graph) (st : AGrammar × Verdict × List String) (v : String) : AGrammar × Verdict × List String :=
  let (G, verdict, done) := st
  if done.contains v then st else
  let scc := sccOf g v
  let done' := union done scc
  if scc.length > 1 then
    let G1 := scc.foldl (fun G n => updateRule G n (fun r => { r with leftRecursive := true })) G
    match findLeader g scc with
    | none => (G1, .noLeader, done')
    | some l =>
      let v' := match verdict with | .noLeader => Verdict.noLeader | _ => .ok true
      (updateRule G1 l (fun r => { r with leader := true }), v', done')
  else if hasSelfLoop g v then
    let v' := match verdict with | .noLeader => Verdict.noLeader | _ => .ok true
    (updateRule G v (fun r => { r with leftRecursive := true, leader := true }), v', done')
  else (G, verdict, done')

/-- `ComputeLeftRecursives` on a given first graph, the vertices enumerated in a given order (Go: map order) -/
def computeLRWith (g : Graph) (verts : List String) (G : AGrammar) : AGrammar × Verdict :=
  let r := verts.foldl (lrStep g) (G, .ok false, [])
  (r.1, r.2.1)

/-- `ComputeLeftRecursives`: marks `leftRecursive` / `leader`; `none`-leader = ErrNoLeader -/
def computeLeftRecursives (cfg : Cfg) (G : AGrammar) : AGrammar × Verdict :=
  let g := firstGraph cfg G
  computeLRWith g (g.map (·.1)) G

/-- `PrepareGrammar` with an explicit visiting order -/
def prepare (cfg : Cfg) (G : AGrammar) (order : List String) : Option (AGrammar × Verdict) :=
  (computeNullables cfg G order).map (computeLeftRecursives cfg)

/-! ### independent specification: Ford-style static left recursion (throw-free fragment) -/

namespace Spec

/-- one round of the nullability fixpoint: `N` = names of rules known to be nullable -/
def nullE (N : List String) : AExpr → Bool
  | .action _ e | .labeled e => nullE N e
  | .andCode | .notCode | .stateCode | .and _ | .not _ | .star _ | .opt _ | .throw => true
  | .any | .cls _ => false
  | .lit empty => empty
  | .plus e => nullE N e
  | .choice _ es => nullAny N es
  | .seq _ es => nullAll N es
  | .recovery _ e _ => nullE N e
  | .ref _ name => N.contains name
where
  nullAny (N : List String) : List AExpr → Bool
    | [] => false
    | e :: es => nullE N e || nullAny N es
  nullAll (N : List String) : List AExpr → Bool
    | [] => true
    | e :: es => nullE N e && nullAll N es

def nullRules (G : AGrammar) : List String :=
  let rec iter : Nat → List String → List String
    | 0, N => N
    | k + 1, N =>
      let N' := (G.filter (fun r => nullE N r.expr)).map (·.name)
      if N'.length = N.length then N else iter k N'
  iter (G.length + 1) []

/-- rules an expression can invoke at the position where it starts -/
def firstCalls (N : List String) : AExpr → List String
  | .action _ e | .labeled e | .and e | .not e | .plus e | .star e | .opt e => firstCalls N e
  | .andCode | .notCode | .stateCode | .any | .cls _ | .lit _ | .throw => []
  | .choice _ es => callsAny N es
  | .seq _ es => callsSeq N es
  | .recovery _ e _ => firstCalls N e
  | .ref _ name => [name]
where
  callsAny (N : List String) : List AExpr → List String
    | [] => []
    | e :: es => union (firstCalls N e) (callsAny N es)
  callsSeq (N : List String) : List AExpr → List String
    | [] => []
    | e :: es => if nullE N e then union (firstCalls N e) (callsSeq N es) else firstCalls N e

def specGraph (G : AGrammar) : Graph :=
  let N := nullRules G
  G.map (fun r => (r.name, (firstCalls N r.expr).filter (fun n => G.any (·.name = n))))

/-- some rule can reach itself at the same input position -/
def leftRec (G : AGrammar) : Bool :=
  let g := specGraph G
  G.any (fun r => (reachFrom g r.name).contains r.name)

end Spec
end Mid
end PV
