/-
  Wire format of the "mid" stream (grammar analysis): see /verif/PROTOCOL.md.
-/
import PigeonVerif.Model.Mid
import PigeonVerif.Model.Protocol

namespace PV
namespace MidProtocol
open Protocol Mid

/-- the analysis as it is in the tree the checks run against (updated with every `fix:` commit) -/
def currentCfg : Cfg := { visitOperands := true, predNames := true, emptyClassNotNullable := true }

partial def aexpr : P AExpr := do
  let t ← tok
  match t with
  | "act" => pure (.action false (← aexpr))
  | "andc" => pure .andCode
  | "notc" => pure .notCode
  | "stc" => pure .stateCode
  | "and" => pure (.and (← aexpr))
  | "not" => pure (.not (← aexpr))
  | "any" => pure .any
  | "cls" => pure (.cls (← bool))
  | "ch" => do let n ← nat; pure (.choice false (← times n aexpr))
  | "lab" => pure (.labeled (← aexpr))
  | "lit" => pure (.lit (← bool))
  | "plus" => pure (.plus (← aexpr))
  | "star" => pure (.star (← aexpr))
  | "opt" => pure (.opt (← aexpr))
  | "rec" => do let e ← aexpr; let r ← aexpr; pure (.recovery false e r)
  | "ref" => pure (.ref false (← hexStr))
  | "seq" => do let n ← nat; pure (.seq false (← times n aexpr))
  | "thr" => pure .throw
  | _ => throw s!"bad AEXPR tag '{t}'"

structure MidCase where
  id : Nat
  rules : AGrammar
  order : List String

def midCase : P MidCase := do
  let t ← tok
  if t != "mid" then throw "expected mid"
  let id ← nat
  let n ← nat
  let rules ← times n (do let name ← hexStr; let e ← aexpr; pure ({ name := name, expr := e } : ARule))
  let m ← nat
  let order ← times m hexStr
  pure { id := id, rules := rules, order := order }

def b01 (b : Bool) : String := if b then "1" else "0"

mutual
partial def flagsOf : AExpr → String
  | .action n e => b01 n ++ flagsOf e
  | .and e | .not e | .labeled e | .plus e | .star e | .opt e => flagsOf e
  | .choice n es => b01 n ++ String.join (es.map flagsOf)
  | .seq n es => b01 n ++ String.join (es.map flagsOf)
  | .recovery n e r => b01 n ++ flagsOf e ++ flagsOf r
  | .ref n _ => b01 n
  | _ => ""
end

def sortStrings (l : List String) : List String := (l.toArray.qsort (· < ·)).toList

def runMid (c : MidCase) : String :=
  match prepare currentCfg c.rules c.order with
  | none => s!"midres {c.id} oof"
  | some (G, v) =>
    let vs := match v with | .ok false => "ok0" | .ok true => "ok1" | .noLeader => "noleader"
    let rules := G.map (fun r => s!"{hexOfString r.name} {b01 r.nullable} {b01 r.leftRecursive} {b01 r.leader} f{flagsOf r.expr}")
    let g := firstGraph currentCfg ((computeNullables currentCfg c.rules c.order).getD c.rules)
    let verts := sortStrings (g.map (·.1))
    let edges := verts.map (fun v =>
      let ss := sortStrings (succs g v)
      " ".intercalate ([hexOfString v, toString ss.length] ++ ss.map hexOfString))
    let spec := b01 (Spec.leftRec c.rules)
    let alt := fun (cfg : Cfg) => match prepare cfg c.rules c.order with
      | some (_, .ok false) => "ok0" | some (_, .ok true) => "ok1" | some (_, .noLeader) => "noleader" | none => "oof"
    -- the graph of the independent specification (on the grammar as given: it does not look at flags)
    let sg := Spec.specGraph c.rules
    let sverts := sortStrings (sg.map (·.1))
    let sedges := sverts.map (fun v =>
      let ss := sortStrings (succs sg v)
      " ".intercalate ([hexOfString v, toString ss.length] ++ ss.map hexOfString))
    " ".intercalate (["midres", toString c.id, vs, toString G.length] ++ rules ++
      [toString verts.length] ++ edges ++ ["spec", spec,
       alt { currentCfg with choiceVisitAll := true }, alt { currentCfg with plusNullable := true },
       alt { currentCfg with choiceVisitAll := true, plusNullable := true },
       "sg", toString sverts.length] ++ sedges)

end MidProtocol
end PV
