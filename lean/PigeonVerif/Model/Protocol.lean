/-
  Wire format of the correspondence streams (see /verif/PROTOCOL.md): parsing a
  case line into an `Env` + block table, printing a result line.
  Trusted (part of the correspondence check), not the subject of theorems.
-/
import PigeonVerif.Model.Blocks

namespace PV
namespace Protocol

abbrev P := StateT (List String) (Except String)

def tok : P String := do
  match (← get) with
  | [] => throw "unexpected end of line"
  | t :: ts => set ts; pure t

def nat : P Nat := do
  let t ← tok
  match t.toNat? with
  | some n => pure n
  | none => throw s!"expected natural, got '{t}'"

def int : P Int := do
  let t ← tok
  match t.toInt? with
  | some n => pure n
  | none => throw s!"expected integer, got '{t}'"

def bool : P Bool := do
  let t ← tok
  if t == "0" then pure false else if t == "1" then pure true else throw s!"expected 0/1, got '{t}'"

def hexDigit (c : Char) : Option Nat :=
  if '0' ≤ c && c ≤ '9' then some (c.toNat - '0'.toNat)
  else if 'a' ≤ c && c ≤ 'f' then some (c.toNat - 'a'.toNat + 10)
  else none

def hexDecode : List Char → Option (List Nat)
  | [] => some []
  | a :: b :: rest => do
    let x ← hexDigit a
    let y ← hexDigit b
    let r ← hexDecode rest
    pure ((x * 16 + y) :: r)
  | _ => none

def hexBytes : P (List Nat) := do
  let t ← tok
  match t.toList with
  | 'x' :: cs =>
    match hexDecode cs with
    | some bs => pure bs
    | none => throw s!"bad hex '{t}'"
  | _ => throw s!"expected hex string, got '{t}'"

def bytesToString (bs : List Nat) : String :=
  let ba := ByteArray.mk (bs.map (fun b => b.toUInt8)).toArray
  match String.fromUTF8? ba with
  | some s => s
  | none => String.ofList (bs.map (fun b => Char.ofNat b))   -- generator promises UTF-8; latin-1 fallback

def hexStr : P String := do pure (bytesToString (← hexBytes))

def times (n : Nat) (p : P α) : P (List α) := do
  let mut acc := #[]
  for _ in [0:n] do
    acc := acc.push (← p)
  pure acc.toList

partial def val : P Val := do
  let t ← tok
  match t with
  | "nil" => pure .nil
  | "b" => pure (.bytes (← hexBytes))
  | "l" => do let n ← nat; pure (.list (← times n val))
  | "s" => pure (.str (← hexStr))
  | "i" => pure (.int (← int))
  | "bool" => pure (.bool (← bool))
  | "cl" => do let n ← nat; pure (.cloner (← times n int))
  | _ => throw s!"bad VAL tag '{t}'"

def store : P Store := do
  let n ← nat
  let kvs ← times n (do let k ← hexStr; let v ← val; pure (k, v))
  pure (kvs.foldl (fun s (k, v) => Store.set s k v) [])

def clsTable : P (String × List (Nat × Nat × Nat)) := do
  let name ← hexStr
  let n ← nat
  let rs ← times n (do let lo ← nat; let hi ← nat; let st ← nat; pure (lo, hi, st))
  pure (name, rs)

def basicLatin : P (List Bool) := do
  let t ← tok
  if t == "-" then pure [] else pure (t.toList.map (· == '1'))

partial def expr : P Expr := do
  let t ← tok
  let id ← nat
  match t with
  | "act" => do let b ← nat; pure (.action id b (← expr))
  | "andc" => pure (.andCode id (← nat))
  | "notc" => pure (.notCode id (← nat))
  | "stc" => pure (.stateCode id (← nat))
  | "and" => pure (.and id (← expr))
  | "not" => pure (.not id (← expr))
  | "any" => pure (.any id)
  | "cls" => do
    let v ← hexStr
    let ic ← bool
    let inv ← bool
    let nc ← nat
    let chars ← times nc nat
    let nr ← nat
    let ranges ← times nr (do let lo ← nat; let hi ← nat; pure (lo, hi))
    let ncl ← nat
    let classes ← times ncl clsTable
    let bl ← basicLatin
    pure (.cls id { val := v, ignoreCase := ic, inverted := inv, chars := chars,
                    ranges := ranges, classes := classes, basicLatin := bl })
  | "ch" => do
    let line ← nat
    let col ← nat
    let n ← nat
    pure (.choice id line col (← times n expr))
  | "lab" => do let l ← hexStr; pure (.labeled id l (← expr))
  | "lit" => do
    let n ← nat
    let rs ← times n nat
    let ic ← bool
    let want ← hexStr
    pure (.lit id rs ic want)
  | "plus" => pure (.oneOrMore id (← expr))
  | "star" => pure (.zeroOrMore id (← expr))
  | "opt" => pure (.zeroOrOne id (← expr))
  | "rec" => do
    let e ← expr
    let r ← expr
    let n ← nat
    pure (.recovery id e r (← times n hexStr))
  | "ref" => pure (.ruleRef id (← hexStr))
  | "seq" => do let n ← nat; pure (.seq id (← times n expr))
  | "thr" => pure (.throw id (← hexStr))
  | _ => throw s!"bad EXPR tag '{t}'"

def rule : P Rule := do
  let name ← hexStr
  let dn ← hexStr
  let leader ← bool
  let lr ← bool
  let e ← expr
  pure { name := name, displayName := dn, leader := leader, leftRecursive := lr, expr := e }

partial def vexpr : P VExpr := do
  let t ← tok
  match t with
  | "text" => pure .text
  | "pos" => pure .pos
  | "arg" => pure (.arg (← nat))
  | "sget" => pure (.sget (← hexStr))
  | "gget" => pure (.gget (← hexStr))
  | "const" => pure (.const (← val))
  | "tup" => do let n ← nat; pure (.tup (← times n vexpr))
  | "calli" => pure .calli
  | _ => throw s!"bad VEXPR tag '{t}'"

partial def bexpr : P BExpr := do
  let t ← tok
  match t with
  | "t" => pure .t
  | "f" => pure .f
  | "argnil" => pure (.argnil (← nat))
  | "argeq" => do let i ← nat; pure (.argeq i (← hexBytes))
  | "sge" => do let k ← hexStr; pure (.sge k (← int))
  | "gge" => do let k ← hexStr; pure (.gge k (← int))
  | "even" => pure .even
  | "posge" => pure (.posge (← int))
  | "tlen" => pure (.tlen (← int))
  | "bnot" => pure (.bnot (← bexpr))
  | _ => throw s!"bad BEXPR tag '{t}'"

def effect : P Effect := do
  let t ← tok
  match t with
  | "sset" => do let k ← hexStr; pure (.sset k (← vexpr))
  | "sinc" => pure (.sinc (← hexStr))
  | "smut" => do let k ← hexStr; pure (.smut k (← int))
  | "gset" => do let k ← hexStr; pure (.gset k (← vexpr))
  | "ginc" => pure (.ginc (← hexStr))
  | "gmut" => do let k ← hexStr; pure (.gmut k (← int))
  | "sdel" => pure (.sdel (← hexStr))
  | "gdel" => pure (.gdel (← hexStr))
  | _ => throw s!"bad EFFECT tag '{t}'"

def when_ : P When := do
  let t ← tok
  match t with
  | "always" => pure .always
  | "at" => pure (.at (← nat))
  | _ => throw s!"bad WHEN '{t}'"

def payload : P PanicVal := do
  let t ← tok
  match t with
  | "e" => pure (.err (← hexStr))
  | "s" => pure (.str (← hexStr))
  | "i" => pure (.int (← int))
  | _ => throw s!"bad PAYLOAD '{t}'"

def block : P Block := do
  let t ← tok
  if t != "blk" then throw s!"expected blk, got '{t}'"
  let id ← nat
  let k ← tok
  let kind ← match k with
    | "a" => pure BlockKind.action
    | "p" => pure BlockKind.pred
    | "s" => pure BlockKind.state
    | _ => throw s!"bad block kind '{k}'"
  let na ← nat
  let args ← times na hexStr
  let ne ← nat
  let effects ← times ne effect
  let mut retV := VExpr.const .nil
  let mut retB := BExpr.t
  match kind with
  | .action => retV ← vexpr
  | .pred => retB ← bexpr
  | .state => let d ← tok; if d != "-" then throw s!"expected '-', got '{d}'"
  let et ← tok
  let err ← match et with
    | "noerr" => pure none
    | "err" => do let m ← hexStr; let w ← when_; pure (some (m, w))
    | _ => throw s!"bad ERR '{et}'"
  let pt ← tok
  let pan ← match pt with
    | "nopanic" => pure none
    | "panic" => do let p ← payload; let w ← when_; pure (some (p, w))
    | _ => throw s!"bad PANIC '{pt}'"
  pure { id := id, kind := kind, args := args, effects := effects, retV := retV, retB := retB,
         err := err, panic := pan }

structure Case where
  id : Nat
  /-- `Statistics(&st, "no match")` passed: only changes the label of the no-match counter -/
  stats : Bool
  flags : Flags
  opts : Opts
  fuel : Nat
  rules : List Rule
  blocks : List Block
  input : List Nat

def case_ : P Case := do
  let t ← tok
  if t != "case" then throw s!"expected case, got '{t}'"
  let id ← nat
  let o ← bool; let g ← bool; let l ← bool; let b ← bool
  let memoize ← bool
  let _debug ← bool
  let stats ← bool
  let maxExpr ← nat
  let et ← tok
  let entry ← if et == "-" then pure none else
    match et.toList with
    | 'x' :: cs => match hexDecode cs with
      | some bs => pure (some (bytesToString bs))
      | none => throw "bad entry hex"
    | _ => throw "bad entry"
  let allowInvalid ← bool
  let recover ← bool
  let filename ← hexStr
  let initState ← store
  let initGlobal ← store
  let fuel ← nat
  let nr ← nat
  let rules ← times nr rule
  let nb ← nat
  let blocks ← times nb block
  let input ← hexBytes
  pure { id := id, flags := { optimize := o, globalState := g, leftRec := l, basicLatin := b },
         stats := stats,
         opts := { memoize := memoize,
                   maxExpr := if maxExpr = 0 then none else some maxExpr,
                   entry := entry, allowInvalid := allowInvalid, recover := recover,
                   filename := filename, initState := initState, initGlobal := initGlobal },
         fuel := fuel, rules := rules, blocks := blocks, input := input }

def parseLine (p : P α) (line : String) : Except String α := do
  let toks := (line.splitOn " ").filter (· ≠ "")
  let (a, rest) ← p.run toks
  if !rest.isEmpty then throw s!"trailing tokens: {rest.take 3}"
  pure a

/-! ### `unicode.ToLower` from the stream header -/

structure CaseRange where
  lo : Nat
  hi : Nat
  dLower : Int

def caseRanges : P (List CaseRange) := do
  let t ← tok
  if t != "unicode" then throw "expected unicode header"
  let n ← nat
  times n (do
    let lo ← nat; let hi ← nat; let _ ← int; let dl ← int; let _ ← int
    pure { lo := lo, hi := hi, dLower := dl })

/-- Go's `unicode.ToLower` -/
def toLower (tab : Array CaseRange) (r : Rune) : Rune :=
  if r < 128 then (if 65 ≤ r && r ≤ 90 then r + 32 else r)
  else
    match tab.find? (fun cr => cr.lo ≤ r && r ≤ cr.hi) with
    | none => r
    | some cr =>
      if cr.dLower > 1114111 then
        -- UpperLower: alternating pairs; lower = odd offset from lo
        cr.lo + (((r - cr.lo) / 2) * 2 + 1)
      else (Int.ofNat r + cr.dLower).toNat

/-! ### printing -/

def hexOfNat (n : Nat) : String :=
  let d := fun (x : Nat) => Char.ofNat (if x < 10 then 48 + x else 87 + x)
  String.ofList [d (n / 16 % 16), d (n % 16)]

def hexOfBytes (bs : List Nat) : String := "x" ++ String.join (bs.map hexOfNat)

def hexOfString (s : String) : String := hexOfBytes (s.toUTF8.toList.map (·.toNat))

partial def fmtVal : Val → String
  | .nil => "nil"
  | .bytes b => "b " ++ hexOfBytes b
  | .list vs => " ".intercalate (("l " ++ toString vs.length) :: vs.map fmtVal)
  | .str s => "s " ++ hexOfString s
  | .int n => "i " ++ toString n
  | .bool b => "bool " ++ (if b then "1" else "0")
  | .cloner ns => " ".intercalate (("cl " ++ toString ns.length) :: ns.map toString)

def sortStore (s : Store) : Store :=
  (s.toArray.qsort (fun a b => a.1 < b.1)).toList

def fmtStore (s : Store) : String :=
  " ".intercalate (toString s.length :: (sortStore s).map (fun (k, v) => hexOfString k ++ " " ++ fmtVal v))

def fmtEvent (e : Event) : String :=
  " ".intercalate
    (["ev", toString e.blk, toString e.calli, toString e.pos.line, toString e.pos.col,
      toString e.pos.off, hexOfBytes e.text, toString e.pt.line, toString e.pt.col,
      toString e.pt.off, toString e.args.length]
     ++ e.args.map fmtVal ++ [fmtStore e.state, fmtStore e.global])

def fmtPanic : PanicVal → String
  | .err m => "e " ++ hexOfString m
  | .str m => "s " ++ hexOfString m
  | .int n => "i " ++ toString n

def fmtChoices (hasStats : Bool) (noMatch : String) (c : List ((String × Option Nat) × Nat)) : String :=
  if !hasStats then "0" else
  let c' := c.map (fun ((i, a), n) => ((i, match a with | some k => toString (k + 1) | none => noMatch), n))
  let sorted := (c'.toArray.qsort (fun a b => a.1.1 < b.1.1 || (a.1.1 == b.1.1 && a.1.2 < b.1.2))).toList
  " ".intercalate (toString c.length ::
    sorted.map (fun ((i, a), n) => hexOfString i ++ " " ++ hexOfString a ++ " " ++ toString n))

def fmtTail (E : Env) (noMatch : String) (errs : List String) (s : PState) : String :=
  " ".intercalate
    ([toString errs.length] ++ errs.map hexOfString ++
     [toString s.pt.pos.off, toString s.pt.pos.line, toString s.pt.pos.col, toString s.exprCnt,
      toString s.maxFailPos.off, toString s.maxFailPos.line, toString s.maxFailPos.col,
      toString s.maxFailExpected.length] ++ s.maxFailExpected.reverse.map hexOfString ++
     [if E.useState then fmtStore s.state else "0", fmtStore s.global,
      fmtChoices (!E.flags.optimize) noMatch s.choiceCnt,
      toString s.trace.length] ++ s.trace.reverse.map fmtEvent)

def fmtResult (id : Nat) (E : Env) (noMatch : String) : RT.Final → String
  | .oof => s!"res {id} oof"
  | .ret v errs s => s!"res {id} ret {fmtVal v} {fmtTail E noMatch errs s}"
  | .panic p s => s!"res {id} panic {fmtPanic p} {fmtTail E noMatch s.errs s}"

def envOfCase (c : Case) (tl : Rune → Rune) : Env :=
  let hasState := c.flags.globalState || !c.flags.optimize
  { flags := c.flags, opts := c.opts, rules := c.rules,
    code := Blocks.codeEnv hasState c.blocks, toLower := tl, input := c.input }

/-- every class node that carries a lookup table -/
partial def classNodes : Expr → List ClassDesc
  | .cls _ c => if c.basicLatin.isEmpty then [] else [c]
  | .action _ _ e | .and _ e | .not _ e | .labeled _ _ e | .oneOrMore _ e | .zeroOrMore _ e
  | .zeroOrOne _ e => classNodes e
  | .choice _ _ _ es | .seq _ es => es.flatMap classNodes
  | .recovery _ e r _ => classNodes e ++ classNodes r
  | _ => []

def runCase (c : Case) (tl : Rune → Rune) : String :=
  let E := envOfCase c tl
  -- tie of the real builder.BasicLatinLookup (the tables in the case line come from it) to the model's
  match (c.rules.flatMap (fun r => classNodes r.expr)).find? (fun cd => cd.basicLatin != RT.basicLatinLookup E cd) with
  | some cd => s!"res {c.id} blmismatch {hexOfString cd.val}"
  | none =>
  fmtResult c.id E (if c.stats then "no match" else "") (RT.parse E c.fuel)

end Protocol
end PV
