/-
  RT — model of the runtime every generated parser contains
  (`builder/static_code.go`), one Lean function per Go function, parameterised
  by the four template switches and the runtime options.

  Recursion: the only recursive knot of the Go code is `parseExpr`; here
  `parseExpr (f+1) = parseExprStep (parseExpr f)`, i.e. plain structural
  recursion on a depth fuel. Unbounded loops (`*`, `+`, the seed-growing loop)
  take their own loop fuel. `Outcome.oof` = fuel exhausted.
-/
import PigeonVerif.Model.Basic

namespace PV

/-- `charClassMatcher` (runtime node, as emitted by the builder) -/
structure ClassDesc where
  val : String
  ignoreCase : Bool
  inverted : Bool
  chars : List Rune
  ranges : List (Rune × Rune)
  /-- unicode classes: name and the flattened range table `(lo, hi, stride)` -/
  classes : List (String × List (Nat × Nat × Nat))
  /-- `basicLatinChars` (128 entries) — only read when the variant has the table -/
  basicLatin : List Bool
deriving Inhabited, Repr

/-- Runtime expression nodes. `id` stands for the Go pointer identity (memo key). -/
inductive Expr where
  | action (id blk : Nat) (e : Expr)
  | andCode (id blk : Nat)
  | notCode (id blk : Nat)
  | stateCode (id blk : Nat)
  | and (id : Nat) (e : Expr)
  | not (id : Nat) (e : Expr)
  | any (id : Nat)
  | cls (id : Nat) (c : ClassDesc)
  | choice (id line col : Nat) (alts : List Expr)
  | labeled (id : Nat) (label : String) (e : Expr)
  | lit (id : Nat) (val : List Rune) (ignoreCase : Bool) (want : String)
  | oneOrMore (id : Nat) (e : Expr)
  | zeroOrMore (id : Nat) (e : Expr)
  | zeroOrOne (id : Nat) (e : Expr)
  | recovery (id : Nat) (e r : Expr) (labels : List String)
  | ruleRef (id : Nat) (name : String)
  | seq (id : Nat) (es : List Expr)
  | throw (id : Nat) (label : String)
deriving Inhabited, Repr

def Expr.id : Expr → Nat
  | .action id .. | .andCode id .. | .notCode id .. | .stateCode id .. | .and id ..
  | .not id .. | .any id | .cls id .. | .choice id .. | .labeled id .. | .lit id ..
  | .oneOrMore id .. | .zeroOrMore id .. | .zeroOrOne id .. | .recovery id ..
  | .ruleRef id .. | .seq id .. | .throw id .. => id

structure Rule where
  name : String
  displayName : String
  leader : Bool
  leftRecursive : Bool
  expr : Expr
deriving Inhabited, Repr

/-- the four behavioural template switches -/
structure Flags where
  optimize : Bool
  globalState : Bool
  leftRec : Bool
  basicLatin : Bool
deriving Inhabited, Repr, DecidableEq

structure Opts where
  memoize : Bool := false
  /-- `none` = no budget (`math.MaxUint64`) -/
  maxExpr : Option Nat := none
  /-- `none` = option not passed -/
  entry : Option String := none
  allowInvalid : Bool := false
  recover : Bool := true
  filename : String := ""
  initState : Store := []
  initGlobal : Store := []
deriving Inhabited, Repr

/-! ### code blocks -/

structure Ctx where
  pos : Pos
  text : List Nat
  args : List Val
  state : Store
  global : Store
  calli : Nat
deriving Inhabited, Repr

structure BlockResult where
  ret : Val := .nil
  retB : Bool := false
  state : Store
  global : Store
  err : Option String := none
  panic : Option PanicVal := none
deriving Inhabited, Repr

structure CodeEnv where
  /-- the label names the generated `callon…` wrapper passes -/
  args : Nat → List String
  run : Nat → Ctx → BlockResult

structure Event where
  blk : Nat
  calli : Nat
  pos : Pos
  text : List Nat
  /-- the parser's own position when the block was called -/
  pt : Pos
  args : List Val
  state : Store
  global : Store
  /-- the stores as the block left them (not printed; used by the C05 invariant) -/
  sout : Store
  gout : Store
deriving Inhabited, Repr

inductive MemoKey where
  | expr (id : Nat)
  | rule (name : String)
deriving Inhabited, Repr, DecidableEq

/-- `resultTuple` -/
structure MemoVal where
  v : Val
  b : Bool
  «end» : Savepoint
deriving Inhabited, Repr

/-- one evaluation of a terminal (literal, class, any matcher): where it started, the terminal's display
    text, whether it matched, and whether it happened under an odd number of `!` predicates.
    GHOST data: the Go parser keeps no such log; `failAt` - the one function every terminal calls exactly
    once per evaluation - appends to it in the model, nothing ever reads it. It is what the farthest-failure
    bookkeeping is a function of (C12). -/
structure Attempt where
  pos : Pos
  want : String
  matched : Bool
  neg : Bool
deriving Inhabited, DecidableEq, Repr

/-- an evaluation counts for the report when the terminal failed outside, or matched inside, an odd number of `!` -/
def Attempt.counts (a : Attempt) : Bool := a.matched == a.neg

/-- how the terminal is shown: prefixed with `!` under an odd number of `!` -/
def Attempt.label (a : Attempt) : String := if a.neg then "!" ++ a.want else a.want

/-- one step of the bookkeeping on (farthest position, expected labels - most recent first) -/
def noteStep (st : Pos × List String) (a : Attempt) : Pos × List String :=
  if a.counts then
    if a.pos.off < st.1.off then st
    else if a.pos.off > st.1.off then (a.pos, [a.label])
    else (st.1, a.label :: st.2)
  else st

/-- the bookkeeping over a whole log (most recent evaluation first), started at position `p0` -/
def book (p0 : Pos) (log : List Attempt) : Pos × List String :=
  log.foldr (fun a st => noteStep st a) (p0, [])

/-- mirror of `type parser` (mutable part) -/
structure PState where
  pt : Savepoint
  curPos : Pos
  curText : List Nat
  state : Store
  global : Store
  errs : List String
  memo : List ((Nat × MemoKey) × MemoVal)
  vstack : List (List (String × Val))
  rstack : List Rule
  maxFailPos : Pos
  /-- `maxFailExpected`, most recent first (the Go slice appends) -/
  maxFailExpected : List String
  maxFailInvert : Bool
  exprCnt : Nat
  /-- results served from the memo table by `parseExprWrap` (charged to the budget) -/
  memoHits : Nat
  recoveryStack : List (List (String × Expr))
  choiceCnt : List ((String × Option Nat) × Nat)
  nCalls : Nat
  /-- block invocations, most recent first -/
  trace : List Event
  /-- ghost: every terminal evaluation so far, most recent first (see `Attempt`) -/
  attempts : List Attempt := []
deriving Inhabited

inductive Outcome where
  | oof
  | done (v : Val) (ok : Bool) (s : PState)
  | panic (p : PanicVal) (s : PState)
deriving Inhabited

@[inline] def Outcome.bind (o : Outcome) (k : Val → Bool → PState → Outcome) : Outcome :=
  match o with
  | .oof => .oof
  | .panic p s => .panic p s
  | .done v ok s => k v ok s

/-- static part of a parse -/
structure Env where
  flags : Flags
  opts : Opts
  rules : List Rule
  code : CodeEnv
  toLower : Rune → Rune
  input : List Nat

namespace Env
/-- `{{ if or .GlobalState (not .Optimize) }}` -/
def useState (E : Env) : Bool := E.flags.globalState || !E.flags.optimize
/-- `p.memoize` exists only in the non-optimized template -/
def memoize (E : Env) : Bool := E.opts.memoize && !E.flags.optimize
/-- `{{ if or .LeftRecursion (not .Optimize) }}` -/
def hasMemoTable (E : Env) : Bool := E.flags.leftRec || !E.flags.optimize
/-- `p.rules[name]` — later duplicates overwrite earlier ones in the Go map -/
def findRule (E : Env) (name : String) : Option Rule :=
  E.rules.reverse.find? (fun r => r.name = name)
end Env

namespace RT

def errNoRule := "grammar has no rule"
def errInvalidEntrypoint := "invalid entrypoint"
def errInvalidEncoding := "invalid encoding"
def errMaxExprCnt := "max number of expressions parsed"

/-! ### small helpers (one per Go helper) -/

def pushV (s : PState) : PState := { s with vstack := [] :: s.vstack }
def popV (s : PState) : PState := { s with vstack := s.vstack.tail }

def pushRecovery (s : PState) (labels : List String) (r : Expr) : PState :=
  { s with recoveryStack := (labels.map (fun l => (l, r))).reverse :: s.recoveryStack }
def popRecovery (s : PState) : PState := { s with recoveryStack := s.recoveryStack.tail }

/-- `m[lab.label] = val` on the top map of `vstack` -/
def setLabel (s : PState) (l : String) (v : Val) : PState :=
  match s.vstack with
  | [] => s
  | m :: rest => { s with vstack := ((l, v) :: m) :: rest }

/-- the prefix `addErrAt` builds -/
def errPrefix (E : Env) (s : PState) (pos : Pos) : String :=
  let file := E.opts.filename
  let b := if file ≠ "" then file ++ ":" else ""
  let b := b ++ toString pos.line ++ ":" ++ toString pos.col ++ " (" ++ toString pos.off ++ ")"
  match s.rstack with
  | [] => b
  | r :: _ => b ++ ": " ++ (if r.displayName ≠ "" then "rule " ++ r.displayName else "rule " ++ r.name)

def addErrAt (E : Env) (s : PState) (msg : String) (pos : Pos) : PState :=
  { s with errs := s.errs ++ [errPrefix E s pos ++ ": " ++ msg] }

def addErr (E : Env) (s : PState) (msg : String) : PState := addErrAt E s msg s.pt.pos

/-- record the error a code block returned, if any -/
def addErrAtOpt (E : Env) (s : PState) (o : Option String) (pos : Pos) : PState :=
  match o with
  | some m => addErrAt E s m pos
  | none => s

def addErrOpt (E : Env) (s : PState) (o : Option String) : PState := addErrAtOpt E s o s.pt.pos

/-- `failAt` as it is in static_code.go -/
def failAtCore (s : PState) (fail : Bool) (pos : Pos) (want : String) : PState :=
  if fail == s.maxFailInvert then
    if pos.off < s.maxFailPos.off then s
    else
      let s1 := if pos.off > s.maxFailPos.off then
                  { s with maxFailPos := pos, maxFailExpected := [] } else s
      let want := if s.maxFailInvert then "!" ++ want else want
      { s1 with maxFailExpected := want :: s1.maxFailExpected }
  else s

/-- `failAt` plus the ghost log of terminal evaluations -/
def failAt (s : PState) (fail : Bool) (pos : Pos) (want : String) : PState :=
  { failAtCore s fail pos want with
    attempts := { pos := pos, want := want, matched := fail, neg := s.maxFailInvert } :: s.attempts }

/-- `read`: advance to the next rune -/
def read (E : Env) (s : PState) : PState :=
  let off := s.pt.pos.off + s.pt.w
  let (rn, n) := decodeRune (E.input.drop off)
  let col := s.pt.pos.col + 1
  let (line, col) := if rn = 10 then (s.pt.pos.line + 1, 0) else (s.pt.pos.line, col)
  let s1 := { s with pt := { pos := { line := line, col := col, off := off }, rn := rn, w := n } }
  if rn = runeError && n = 1 && !E.opts.allowInvalid then addErr E s1 errInvalidEncoding else s1

def restore (s : PState) (pt : Savepoint) : PState :=
  if pt.pos.off = s.pt.pos.off then s else { s with pt := pt }

/-- `cloneState` / `restoreState`: persistent store, a snapshot is the value -/
def restoreState (E : Env) (s : PState) (st : Store) : PState :=
  if E.useState then { s with state := st } else s

def sliceFrom (E : Env) (s : PState) (start : Savepoint) : List Nat :=
  (E.input.drop start.pos.off).take (s.pt.pos.off - start.pos.off)

def getMemoized (s : PState) (k : MemoKey) : Option MemoVal :=
  (s.memo.find? (fun e => e.1.1 = s.pt.pos.off && e.1.2 = k)).map (·.2)

def setMemoized (s : PState) (pt : Savepoint) (k : MemoKey) (t : MemoVal) : PState :=
  { s with memo := ((pt.pos.off, k), t) :: s.memo }

/-- `incChoiceAltCnt`. The key is (choice identifier, alternative); `none` = no alternative matched
    (the printer shows it under the label given to `Statistics`). The counters are write-only: the
    optimized template simply has none, and the printer prints none for it. -/
def incChoiceAlt (s : PState) (line col : Nat) (alt : Option Nat) : PState :=
  let rname := match s.rstack with | [] => "" | r :: _ => r.name
  let ident := rname ++ " " ++ toString line ++ ":" ++ toString col
  let key := (ident, alt)
  let rec bump : List ((String × Option Nat) × Nat) → List ((String × Option Nat) × Nat)
    | [] => [(key, 1)]
    | (k, n) :: rest => if k = key then (k, n + 1) :: rest else (k, n) :: bump rest
  { s with choiceCnt := bump s.choiceCnt }

/-- call a code block: records the trace event, threads the stores -/
def callBlock (E : Env) (blk : Nat) (s : PState) : BlockResult × PState :=
  let top := s.vstack.headD []
  let args := (E.code.args blk).map (fun n => (lookup n top).getD .nil)
  let st := if E.useState then s.state else []
  let ctx : Ctx := { pos := s.curPos, text := s.curText, args := args, state := st,
                     global := s.global, calli := s.nCalls }
  let r := E.code.run blk ctx
  let ev : Event := { blk := blk, calli := s.nCalls, pos := s.curPos, text := s.curText, pt := s.pt.pos,
                      args := args, state := st, global := s.global,
                      sout := r.state, gout := r.global }
  (r, { s with nCalls := s.nCalls + 1, trace := ev :: s.trace,
               state := if E.useState then r.state else s.state, global := r.global })

/-! ### unicode / class matching -/

def inRangeTable (tab : List (Nat × Nat × Nat)) (r : Rune) : Bool :=
  tab.any (fun (lo, hi, stride) => lo ≤ r && r ≤ hi && (stride = 0 || (r - lo) % stride = 0))

/-- the general (non-table) decision of `parseCharClassMatcher` for a non-EOF rune:
    does the class (before inversion) contain `cur`? -/
def classContains (E : Env) (c : ClassDesc) (rn : Rune) : Bool :=
  let cur := if c.ignoreCase then E.toLower rn else rn
  c.chars.contains cur
    || c.ranges.any (fun (lo, hi) => lo ≤ cur && cur ≤ hi)
    || c.classes.any (fun (_, tab) => inRangeTable tab cur)

/-- `p.memoHits++` -/
def hit (s : PState) : PState := { s with memoHits := s.memoHits + 1 }

/-- `p.memoHits > p.maxExprCnt - p.ExprCnt` (no wrap-around: `ExprCnt ≤ maxExprCnt` whenever it is evaluated) -/
def hitsOverBudget (E : Env) (s : PState) : Bool :=
  match E.opts.maxExpr with
  | some n => decide (s.exprCnt + s.memoHits > n)
  | none => false

/-- `isLeftRecursion := p.rstack[len(p.rstack)-1].leftRecursive` (LeftRecursion template only) -/
def topIsLR (E : Env) (s : PState) : Bool :=
  E.flags.leftRec && (match s.rstack with | [] => false | r :: _ => r.leftRecursive)

/-- `builder.BasicLatinLookup` (model of the Go function in builder.go): entry `r` is the decision of the
    general procedure for the rune `r` — on the node as the builder emits it (chars and range
    bounds already lower-cased when `ignoreCase`). -/
def basicLatinLookup (E : Env) (c : ClassDesc) : List Bool :=
  (List.range 128).map (fun r => classContains E c r)

/-! ### the interpreter -/

section
variable (E : Env) (rec : Expr → PState → Outcome)

/-- `parseExprWrap` -/
def parseExprWrap (e : Expr) (s : PState) : Outcome :=
  if E.flags.optimize then rec e s else
  if E.opts.memoize && !topIsLR E s then
    match getMemoized s (.expr e.id) with
    | some res =>
      let s1 := hit s
      if hitsOverBudget E s1 then .panic (.err errMaxExprCnt) s1
      else .done res.v res.b (restore s1 res.end)
    | none =>
      let pt := s.pt
      (rec e s).bind fun v ok s1 =>
        .done v ok (setMemoized s1 pt (.expr e.id) { v := v, b := ok, «end» := s1.pt })
  else rec e s

def parseSeq (pt : Savepoint) (st : Store) : List Expr → PState → List Val → Outcome
  | [], s, acc => .done (.list acc.reverse) true s
  | e :: es, s, acc =>
    (parseExprWrap E rec e s).bind fun v ok s1 =>
      if ok then parseSeq pt st es s1 (v :: acc)
      else .done .nil false (restore (restoreState E s1 st) pt)

def parseChoice (line col : Nat) : List Expr → Nat → PState → Outcome
  | [], _, s => .done .nil false (incChoiceAlt s line col none)
  | alt :: alts, i, s =>
    let st := s.state
    (parseExprWrap E rec alt (pushV s)).bind fun v ok s1 =>
      let s2 := popV s1
      if ok then .done v true (incChoiceAlt s2 line col (some i))
      else parseChoice line col alts (i + 1) (restoreState E s2 st)

/-- the loop shared by `*` and `+` -/
def parseLoop (e : Expr) : Nat → PState → List Val → Outcome
  | 0, _, _ => .oof
  | k + 1, s, acc =>
    (parseExprWrap E rec e (pushV s)).bind fun v ok s1 =>
      let s2 := popV s1
      if ok then parseLoop e k s2 (v :: acc)
      else if acc.isEmpty then .done .nil false s2   -- interpreted by the caller
      else .done (.list acc.reverse) true s2

/-- the current rune as `parseLitMatcher` compares it -/
def litCur (ic : Bool) (s : PState) : Rune := if ic then E.toLower s.pt.rn else s.pt.rn

def parseLit (start : Savepoint) (want : String) (ic : Bool) : List Rune → PState → Outcome
  | [], s => .done (.bytes (sliceFrom E s start)) true (failAt s true start.pos want)
  | r :: rs, s =>
    if litCur E ic s ≠ r || s.pt.w = 0 then .done .nil false (restore (failAt s false start.pos want) start)
    else parseLit start want ic rs (read E s)

def parseThrow (label : String) : List (List (String × Expr)) → PState → Outcome
  | [], s => .done .nil false s
  | frame :: frames, s =>
    match lookup label frame with
    | some r =>
      (parseExprWrap E rec r s).bind fun v ok s1 =>
        if ok then .done v true s1 else parseThrow label frames s1
    | none => parseThrow label frames s

/-- `parseRule` -/
def parseRule (r : Rule) (s : PState) : Outcome :=
  let s1 := pushV { s with rstack := r :: s.rstack }
  (parseExprWrap E rec r.expr s1).bind fun v ok s2 =>
    let s3 := popV s2
    .done v ok { s3 with rstack := s3.rstack.tail }

/-- `parseRuleMemoize` -/
def parseRuleMemoize (r : Rule) (s : PState) : Outcome :=
  match getMemoized s (.rule r.name) with
  | some res => .done res.v res.b (restore s res.end)
  | none =>
    let start := s.pt
    (parseRule E rec r s).bind fun v ok s1 =>
      .done v ok (setMemoized s1 start (.rule r.name) { v := v, b := ok, «end» := s1.pt })

/-- the seed-growing loop of `parseRuleRecursiveLeader` -/
def leaderLoop (r : Rule) (startMark : Savepoint) :
    Nat → Nat → MemoVal → List String → PState → Outcome
  | 0, _, _, _, _ => .oof
  | k + 1, depth, last, lastErrs, s =>
    let lastState := s.state
    let s1 := setMemoized s startMark (.rule r.name) last
    (parseRule E rec r s1).bind fun v ok s2 =>
      let endMark := s2.pt
      if !ok || (endMark.pos.off ≤ last.end.pos.off && depth ≠ 0) then
        let s3 := restoreState E s2 lastState
        let s4 := { s3 with errs := lastErrs }
        let s5 := restore s4 last.end
        .done last.v last.b (setMemoized s5 startMark (.rule r.name) last)
      else
        let last' : MemoVal := { v := v, b := ok, «end» := endMark }
        leaderLoop r startMark k (depth + 1) last' s2.errs (restore s2 startMark)

/-- `parseRuleRecursiveLeader` -/
def parseRuleLeader (loopFuel : Nat) (r : Rule) (s : PState) : Outcome :=
  match getMemoized s (.rule r.name) with
  | some res => .done res.v res.b (restore s res.end)
  | none =>
    let startMark := s.pt
    leaderLoop E rec r startMark loopFuel 0 { v := .nil, b := false, «end» := startMark } s.errs s

/-- `parseRuleWrap` (the four template shapes) -/
def parseRuleWrap (loopFuel : Nat) (r : Rule) (s : PState) : Outcome :=
  if E.flags.leftRec && !E.flags.optimize then
    if E.opts.memoize || r.leftRecursive then
      if r.leader then parseRuleLeader E rec loopFuel r s
      else if E.opts.memoize && !r.leftRecursive then parseRuleMemoize E rec r s
      else parseRule E rec r s
    else parseRule E rec r s
  else if !E.flags.optimize then
    if E.opts.memoize then parseRuleMemoize E rec r s else parseRule E rec r s
  else if E.flags.leftRec then
    if r.leftRecursive then
      if r.leader then parseRuleLeader E rec loopFuel r s else parseRule E rec r s
    else parseRule E rec r s
  else parseRule E rec r s

/-- success path shared by `parseAnyMatcher` / `parseCharClassMatcher` -/
def matchOne (s : PState) (want : String) : Outcome :=
  let start := s.pt
  let s1 := read E s
  .done (.bytes (sliceFrom E s1 start)) true (failAt s1 true start.pos want)

def parseCharClass (c : ClassDesc) (s : PState) : Outcome :=
  let cur := s.pt.rn
  let start := s.pt
  if E.flags.basicLatin && cur < 128 then
    if c.basicLatin.getD cur false != c.inverted then matchOne E s c.val
    else .done .nil false (failAt s false start.pos c.val)
  else if cur = runeError && s.pt.w = 0 then
    .done .nil false (failAt s false start.pos c.val)
  else if classContains E c cur != c.inverted then matchOne E s c.val
  else .done .nil false (failAt s false start.pos c.val)

/-- what the three kinds of predicate/state blocks share: call, panic, error -/
def runCodeBlock (blk : Nat) (s : PState) (k : BlockResult → PState → Outcome) : Outcome :=
  let (r, s1) := callBlock E blk s
  match r.panic with
  | some p => .panic p s1
  | none => k r (addErrOpt E s1 r.err)

/-- `parseActionExpr` -/
def parseAction (blk : Nat) (e1 : Expr) (s : PState) : Outcome :=
  let start := s.pt
  (parseExprWrap E rec e1 s).bind fun v ok s1 =>
    if ok then
      let s2 := { s1 with curPos := start.pos, curText := sliceFrom E s1 start }
      let saved := s2.state
      let (r, s3) := callBlock E blk s2
      match r.panic with
      | some p => .panic p s3
      | none =>
        .done r.ret true (restoreState E (addErrAtOpt E s3 r.err start.pos) saved)
    else .done v false s1

/-- `parseAndCodeExpr` -/
def parseAndCode (blk : Nat) (s : PState) : Outcome :=
  runCodeBlock E blk s fun r s2 => .done .nil r.retB (restoreState E s2 s.state)

/-- `parseNotCodeExpr` -/
def parseNotCode (blk : Nat) (s : PState) : Outcome :=
  runCodeBlock E blk s fun r s2 => .done .nil (!r.retB) (restoreState E s2 s.state)

/-- `parseStateCodeExpr` (the node type only exists in variants with a state store) -/
def parseStateCode (blk : Nat) (s : PState) : Outcome :=
  if !E.useState then .panic (.str "unknown expression type *main.stateCodeExpr") s else
  runCodeBlock E blk s fun _ s2 => .done .nil true s2

/-- `parseAndExpr` -/
def parseAnd (e1 : Expr) (s : PState) : Outcome :=
  (parseExprWrap E rec e1 (pushV s)).bind fun _ ok s1 =>
    .done .nil ok (restore (restoreState E (popV s1) s.state) s.pt)

/-- `parseNotExpr` -/
def parseNot (e1 : Expr) (s : PState) : Outcome :=
  (parseExprWrap E rec e1 { pushV s with maxFailInvert := !s.maxFailInvert }).bind fun _ ok s1 =>
    let s2 := popV { s1 with maxFailInvert := !s1.maxFailInvert }
    .done .nil (!ok) (restore (restoreState E s2 s.state) s.pt)

/-- `parseAnyMatcher` -/
def parseAny (s : PState) : Outcome :=
  if s.pt.rn = runeError && s.pt.w = 0 then .done .nil false (failAt s false s.pt.pos ".")
  else matchOne E s "."

/-- `parseLabeledExpr` -/
def parseLabeled (label : String) (e1 : Expr) (s : PState) : Outcome :=
  (parseExprWrap E rec e1 (pushV s)).bind fun v ok s1 =>
    let s2 := popV s1
    .done v ok (if ok && label ≠ "" then setLabel s2 label v else s2)

/-- `parseZeroOrMoreExpr` -/
def parseZeroOrMore (loopFuel : Nat) (e1 : Expr) (s : PState) : Outcome :=
  (parseLoop E rec e1 loopFuel s []).bind fun v ok s1 =>
    if ok then .done v true s1 else .done (.list []) true s1

/-- `parseZeroOrOneExpr` -/
def parseZeroOrOne (e1 : Expr) (s : PState) : Outcome :=
  (parseExprWrap E rec e1 (pushV s)).bind fun v _ s1 => .done v true (popV s1)

/-- `parseRecoveryExpr` -/
def parseRecovery (e1 r : Expr) (labels : List String) (s : PState) : Outcome :=
  (parseExprWrap E rec e1 (pushRecovery s labels r)).bind fun v ok s1 => .done v ok (popRecovery s1)

/-- `parseRuleRefExpr` -/
def parseRuleRef (loopFuel : Nat) (name : String) (s : PState) : Outcome :=
  if name = "" then .panic (.str "invalid rule: missing name") s else
  match E.findRule name with
  | none => .done .nil false (addErr E s ("undefined rule: " ++ name))
  | some r => parseRuleWrap E rec loopFuel r s

/-- the type switch of `parseExpr`. `loopFuel` bounds the iterations of loops started here. -/
def parseExprBody (loopFuel : Nat) (e : Expr) (s : PState) : Outcome :=
  match e with
  | .action _ blk e1 => parseAction E rec blk e1 s
  | .andCode _ blk => parseAndCode E blk s
  | .notCode _ blk => parseNotCode E blk s
  | .stateCode _ blk => parseStateCode E blk s
  | .and _ e1 => parseAnd E rec e1 s
  | .not _ e1 => parseNot E rec e1 s
  | .any _ => parseAny E s
  | .cls _ c => parseCharClass E c s
  | .choice _ line col alts => parseChoice E rec line col alts 0 s
  | .labeled _ label e1 => parseLabeled E rec label e1 s
  | .lit _ val ic want => parseLit E s.pt want ic val s
  | .oneOrMore _ e1 => parseLoop E rec e1 loopFuel s []
  | .zeroOrMore _ e1 => parseZeroOrMore E rec loopFuel e1 s
  | .zeroOrOne _ e1 => parseZeroOrOne E rec e1 s
  | .recovery _ e1 r labels => parseRecovery E rec e1 r labels s
  | .ruleRef _ name => parseRuleRef E rec loopFuel name s
  | .seq _ es => parseSeq E rec s.pt s.state es s []
  | .throw _ label => parseThrow E rec label s.recoveryStack s

/-- `p.ExprCnt++` -/
def bump (s : PState) : PState := { s with exprCnt := s.exprCnt + 1 }

/-- `p.ExprCnt > p.maxExprCnt` -/
def overBudget (s : PState) : Bool :=
  match E.opts.maxExpr with
  | some n => decide (s.exprCnt > n)
  | none => false

/-- one level of `parseExpr`: budget, then dispatch -/
def parseExprStep (loopFuel : Nat) (e : Expr) (s0 : PState) : Outcome :=
  if overBudget E (bump s0) then .panic (.err errMaxExprCnt) (bump s0)
  else parseExprBody E rec loopFuel e (bump s0)

end

/-- `parseExpr`, the recursive knot -/
def parseExpr (E : Env) : Nat → Expr → PState → Outcome
  | 0, _, _ => .oof
  | f + 1, e, s => parseExprStep E (parseExpr E f) f e s

/-! ### top level -/

def initState (E : Env) : PState :=
  { pt := { pos := { line := 1, col := 0, off := 0 }, rn := 0, w := 0 },
    curPos := { line := 0, col := 0, off := 0 }, curText := [],
    state := if E.useState then E.opts.initState else [],
    global := E.opts.initGlobal, errs := [], memo := [], vstack := [], rstack := [],
    maxFailPos := { line := 1, col := 1, off := 0 }, maxFailExpected := [],
    maxFailInvert := false, exprCnt := 0, memoHits := 0, recoveryStack := [], choiceCnt := [],
    nCalls := 0, trace := [] }

/-- the "no match found" message `parse` synthesises -/
def noMatchMessage (expected : List String) : String × List String :=
  let d := dedupe expected
  let eof := d.contains "!."
  let l := sortStrs (d.filter (· ≠ "!."))
  let l := if eof then l ++ ["EOF"] else l
  ("no match found, expected: " ++ listJoin l, l)

def panicMessage : PanicVal → String
  | .err m => m
  | .str m => m
  | .int n => toString n

inductive Final where
  | oof
  | ret (v : Val) (errs : List String) (s : PState)
  | panic (p : PanicVal) (s : PState)
deriving Inhabited

/-- the entrypoint `newParser`/`Entrypoint` select -/
def entryName (E : Env) (first : Rule) : String :=
  match E.opts.entry with
  | none => first.name
  | some n => if n = "" then first.name else n

/-- what `parse` does with the start rule's outcome: the deferred `recover`, the synthesised
    "no match" error, `errs.err()` -/
def finish (E : Env) : Outcome → Final
  | .oof => .oof
  | .panic p s =>
    if E.opts.recover then
      let s' := addErr E s (panicMessage p)
      .ret .nil (dedupe s'.errs) s'
    else .panic p s
  | .done v ok s =>
    if !ok then
      if s.errs.isEmpty then
        let s' := addErrAt E s (noMatchMessage s.maxFailExpected.reverse).1 s.maxFailPos
        .ret .nil (dedupe s'.errs) s'
      else .ret .nil (dedupe s.errs) s
    else .ret v (dedupe s.errs) s

/-- the parser after `p.read()` has advanced to the first rune -/
def startState (E : Env) : PState :=
  let s1 := read E (initState E)
  { s1 with maxFailPos := s1.pt.pos }

/-- `(*parser).parse` including the deferred `recover` -/
def parse (E : Env) (fuel : Nat) : Final :=
  let s0 := initState E
  match E.rules with
  | [] => let s := addErr E s0 errNoRule; .ret .nil (dedupe s.errs) s
  | first :: _ =>
    match E.findRule (entryName E first) with
    | none => let s := addErr E s0 errInvalidEntrypoint; .ret .nil (dedupe s.errs) s
    | some r => finish E (parseRuleWrap E (parseExpr E fuel) fuel r (startState E))

end RT
end PV
