/-
  Tool — model of the exit-status decision structure of `main()` (main.go): which outcome of which stage leads to which
  exit status. Executable (the driver answers `tool` lines with the statuses the model allows for a run whose stage
  outcomes are partly known: harness/cmd/pvtool records what it knows of every run, pv/tool_check.py compares).
-/
namespace PV
namespace Tool

/-- what the stages of `main()` can report -/
structure Run where
  flagsParse : Bool        -- fs.Parse succeeded
  help : Bool              -- -h / -help
  nargs : Nat              -- positional arguments
  inputOpens : Bool
  parseOK : Bool           -- ParseReader returned no error (the grammar text is accepted)
  entrypointsKnown : Bool  -- every non-empty -alternate-entrypoints name is a rule
  noBuild : Bool           -- -x
  outOpens : Bool          -- os.Create of the -o file succeeded (stdout: always)
  buildOK : Bool           -- builder.BuildParser returned no error (e.g. no left recursion)
  formatOK : Bool          -- imports.Process succeeded
  writeOK : Bool
  closeOutOK : Bool
  closeInOK : Bool

/-- the part of `main()` after the grammar was parsed and the entrypoints validated -/
def exitBuild (r : Run) : Nat :=
  if r.noBuild then (if r.closeInOK then 0 else 7)
  else if !r.outOpens then 4
  else if !r.buildOK then 5
  else if !r.formatOK then (if r.writeOK then 6 else 7)
  else if !r.writeOK then 7
  else if !r.closeOutOK then 8
  else if !r.closeInOK then 7
  else 0

/-- the part after the input was opened -/
def exitParse (r : Run) : Nat :=
  if !r.parseOK then 3
  else if !r.entrypointsKnown then 9
  else exitBuild r

/-- exit status of `main()` (0 = falls off the end) -/
def exit (r : Run) : Nat :=
  if !r.flagsParse then 2   -- the flag set is made with flag.ExitOnError: fs.Parse exits with 2 itself; main's exit(6) is dead
  else if r.help then 0
  else if r.nargs > 1 then 1
  else if !r.inputOpens then 2
  else exitParse r

/-- the grammar is rejected: it does not parse, names an unknown entrypoint, or (when a parser is
    to be built) the builder or the formatter refuses it -/
def rejected (r : Run) : Bool :=
  !r.parseOK || !r.entrypointsKnown || (!r.noBuild && (!r.buildOK || !r.formatOK))

/-- a run of which only some stage outcomes are known (`none` = not known to the observer) -/
def completions : List (Option Bool) → List (List Bool)
  | [] => [[]]
  | some b :: rest => (completions rest).map (b :: ·)
  | none :: rest => (completions rest).flatMap (fun l => [false :: l, true :: l])

def ofList (nargs : Nat) : List Bool → Option Run
  | [a, b, c, d, e, f, g, h, i, j, k, l] =>
    some { flagsParse := a, help := b, nargs := nargs, inputOpens := c, parseOK := d, entrypointsKnown := e, noBuild := f,
           outOpens := g, buildOK := h, formatOK := i, writeOK := j, closeOutOK := k, closeInOK := l }
  | _ => none

/-- the exit statuses the model allows for a partly known run (sorted, no repetition) -/
def possible (nargs : Nat) (known : List (Option Bool)) : List Nat :=
  let all := (completions known).filterMap (fun l => (ofList nargs l).map exit)
  (List.range 10).filter (fun n => all.contains n)

end Tool
end PV
