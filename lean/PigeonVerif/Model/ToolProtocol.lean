/-
  Wire format of the exit-status stream: `tool <id> <nargs> <13 fields: 0 | 1 | 2 (not known)> <observed status>`
  → `toolres <id> ok|bad <statuses the model allows>` (harness/cmd/pvtool writes the lines, pv/tool_check.py compares).
  Field order: flagsParse help inputOpens parseOK entrypointsKnown noBuild outOpens buildOK formatOK writeOK closeOutOK closeInOK.
-/
import PigeonVerif.Model.Tool
import PigeonVerif.Model.Protocol

namespace PV
namespace ToolProtocol
open Protocol

structure ToolCase where
  id : Nat
  nargs : Nat
  known : List (Option Bool)
  observed : Nat

def field : P (Option Bool) := do
  let n ← nat
  pure (if n = 0 then some false else if n = 1 then some true else none)

def fields : Nat → P (List (Option Bool))
  | 0 => pure []
  | k + 1 => do
    let f ← field
    let rest ← fields k
    pure (f :: rest)

def toolCase : P ToolCase := do
  let _ ← tok
  let id ← nat
  let nargs ← nat
  let known ← fields 12
  let observed ← nat
  pure { id := id, nargs := nargs, known := known, observed := observed }

def runTool (c : ToolCase) : String :=
  let poss := Tool.possible c.nargs c.known
  s!"toolres {c.id} {if poss.contains c.observed then "ok" else "bad"} " ++ " ".intercalate (poss.map toString)

end ToolProtocol
end PV
