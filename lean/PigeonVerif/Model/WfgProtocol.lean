/-
  `pvdriver --wfg`: for each case, search for a witness (nullable rules, ranking) of well-formedness and let the
  checker `RT.checkWFG` (proved sound: `checkWFG_sound`, hence `C07_checked_grammars_terminate`) decide it.
  The search is untrusted: only the checker's `true` counts.
-/
import PigeonVerif.Model.Protocol
import PigeonVerif.Proofs.WFTerm
import PigeonVerif.Proofs.LRTerm

namespace PV
namespace WfgProtocol
open Protocol

/-- least fixpoint of "the body is nullable", by iteration -/
def nullableRules (rules : List Rule) : Nat → List String → List String
  | 0, nl => nl
  | k + 1, nl =>
    let nl' := (rules.filter (fun r => r.expr.nul (RT.rnOf nl))).map (·.name)
    if nl'.length = nl.length then nl else nullableRules rules k nl'

/-- longest path in the first graph (garbage if there is a cycle: the checker will say so) -/
def rankSearch (E : Env) (nl : List String) : Nat → String → Nat
  | 0, _ => 0
  | k + 1, n =>
    match E.findRule n with
    | none => 0
    | some r => ((r.expr.first (RT.rnOf nl)).map (fun m => rankSearch E nl k m + 1)).foldl max 0

def runWfg (c : Case) (tl : Rune → Rune) : String :=
  let E := envOfCase c tl
  let nl := nullableRules E.rules (E.rules.length + 1) []
  let rk := E.rules.map (fun r => (r.name, rankSearch E nl (E.rules.length + 1) r.name))
  s!"wfg {c.id} {if RT.checkWFG E nl rk then 1 else 0}"

/-- longest path in the first graph without the edges into leaders (or undefined names) -/
def rankSearchLR (E : Env) (nl : List String) : Nat → String → Nat
  | 0, _ => 0
  | k + 1, n =>
    match E.findRule n with
    | none => 0
    | some r => (((r.expr.first (RT.rnOf nl)).filter (fun m => !RT.ldName E m)).map (fun m => rankSearchLR E nl k m + 1)).foldl max 0

/-- `pvdriver --lrwf`: witness search + the proved checker `RT.checkLRWF` (then `C08_checked_grammars_terminate`) -/
def runLrwf (c : Case) (tl : Rune → Rune) : String :=
  let E := envOfCase c tl
  let nl := nullableRules E.rules (E.rules.length + 1) []
  let rk := E.rules.map (fun r => (r.name, rankSearchLR E nl (E.rules.length + 1) r.name))
  s!"lrwf {c.id} {if RT.checkLRWF E nl rk then 1 else 0}"

end WfgProtocol
end PV
