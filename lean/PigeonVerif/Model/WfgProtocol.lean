/-
  `pvdriver --wfg`: for each case, search for a witness (nullable rules, ranking) of well-formedness and let the
  checker `RT.checkWFG` (proved sound: `checkWFG_sound`, hence `C07_checked_grammars_terminate`) decide it.
  The search is untrusted: only the checker's `true` counts.
-/
import PigeonVerif.Model.Protocol
import PigeonVerif.Proofs.WFTerm
import PigeonVerif.Proofs.LRTerm
import PigeonVerif.Properties.C04

namespace PV
namespace WfgProtocol
open Protocol

/-- least fixpoint of "the body is nullable", by iteration -/
def nullableRules (rules : List Rule) : Nat → List String → List String
  | 0, nl => nl
  | k + 1, nl =>
    let nl' := (rules.filter (fun r => r.expr.nul (RT.rnOf nl))).map (·.name)
    if nl'.length = nl.length then nl else nullableRules rules k nl'

/-- longest path in the first graph (garbage if there is a cycle: the checker will say so) -/
def rankSearch (E : Env) (nl : List String) : Nat → String → Nat
  | 0, _ => 0
  | k + 1, n =>
    match E.findRule n with
    | none => 0
    | some r => ((r.expr.first (RT.rnOf nl)).map (fun m => rankSearch E nl k m + 1)).foldl max 0

def runWfg (c : Case) (tl : Rune → Rune) : String :=
  let E := envOfCase c tl
  let nl := nullableRules E.rules (E.rules.length + 1) []
  let rk := E.rules.map (fun r => (r.name, rankSearch E nl (E.rules.length + 1) r.name))
  s!"wfg {c.id} {if RT.checkWFG E nl rk then 1 else 0}"

/-- longest path in the first graph without the edges into leaders (or undefined names) -/
def rankSearchLR (E : Env) (nl : List String) : Nat → String → Nat
  | 0, _ => 0
  | k + 1, n =>
    match E.findRule n with
    | none => 0
    | some r => (((r.expr.first (RT.rnOf nl)).filter (fun m => !RT.ldName E m)).map (fun m => rankSearchLR E nl k m + 1)).foldl max 0

/-- `pvdriver --lrwf`: witness search + the proved checker `RT.checkLRWF` (then `C08_checked_grammars_terminate`) -/
def runLrwf (c : Case) (tl : Rune → Rune) : String :=
  let E := envOfCase c tl
  let nl := nullableRules E.rules (E.rules.length + 1) []
  let rk := E.rules.map (fun r => (r.name, rankSearchLR E nl (E.rules.length + 1) r.name))
  s!"lrwf {c.id} {if RT.checkLRWF E nl rk then 1 else 0}"

/-! ### `pvdriver --emit-lean`: the translator half of the tie for the repository's own grammars

  The case line was read back (by `pvlower -readback`) from the parser that the working tree's `pigeon` wrote for a
  grammar of the repository. It is printed here as Lean SOURCE: the rule list as a term, plus the witness found by the
  untrusted search. The check writes these definitions into `PigeonVerif/Generated/Grammars.lean` together with
  `by decide` obligations, which the kernel re-checks on every run. -/

def leanStrList (l : List String) : String := "[" ++ ", ".intercalate (l.map (fun s => (repr s).pretty)) ++ "]"

/-- why a rule fails the checker (for the report only) -/
def ruleProblems (E : Env) (lr : Bool) (nl : List String) (rk : List (String × Nat)) (r : Rule) : List String :=
  let rn := RT.rnOf nl
  (if !lr && (r.leftRecursive || r.leader) then [s!"marked {r.name}"] else []) ++
  (if r.expr.nul rn && !rn r.name then [s!"nullable-not-closed {r.name}"] else []) ++
  (if !r.expr.wfs rn then [s!"shape {r.name}"] else []) ++
  ((r.expr.first rn).filter (fun m => !((lr && RT.ldName E m) || decide (RT.rankOf rk m < RT.rankOf rk r.name)))).map
    (fun m => s!"cycle {r.name} {m}")

def noBlock : List String := ["<no such block>"]

def emitLean (c : Case) (tl : Rune → Rune) : String :=
  let E := envOfCase c tl
  let nl := nullableRules E.rules (E.rules.length + 1) []
  let lr := E.flags.leftRec
  let rk := E.rules.map (fun r => (r.name, if lr then rankSearchLR E nl (E.rules.length + 1) r.name
                                            else rankSearch E nl (E.rules.length + 1) r.name))
  let rk := rk.filter (fun p => p.2 ≠ 0)
  let ok := if lr then RT.checkLRWF E nl rk else RT.checkWFG E nl rk
  let probs := E.rules.flatMap (ruleProblems E lr nl rk)
  let rules := ",\n  ".intercalate (E.rules.map (fun r => (repr r).pretty 1000000))
  let rks := ", ".intercalate (rk.map (fun p => "(" ++ (repr p.1).pretty ++ ", " ++ toString p.2 ++ ")"))
  let argl := c.blocks.map (fun b => (b.id, b.args))
  let aok := Back.checkArgs E.rules argl
  let adiff := argl.filter (fun p => (Back.assign E.rules).lookup p.1 != some p.2)
  s!"-- grammar {c.id} leftRec={lr} checked={ok} argsok={aok}\n" ++
  "".intercalate (probs.map (fun p => s!"-- problem {c.id} {p}\n")) ++
  "".intercalate (adiff.map (fun p => s!"-- argdiff {c.id} block {p.1} emitted {leanStrList p.2} model {leanStrList (((Back.assign E.rules).lookup p.1).getD noBlock)}\n")) ++
  s!"def rules : List PV.Rule := [\n  {rules}]\n" ++
  s!"def nl : List String := {leanStrList nl}\ndef rk : List (String × Nat) := [{rks}]\n" ++
  "def args : List (Nat × List String) := [" ++
    ", ".intercalate (c.blocks.map (fun b => s!"({b.id}, {leanStrList b.args})")) ++ "]\n" ++
  s!"-- end {c.id} {if ok then 1 else 0}"

end WfgProtocol
end PV
