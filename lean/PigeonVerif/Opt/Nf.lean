/-
  A normal form of optimizer grammars: what every sound sequence of the optimizer's rewrites leads to.

  `nfStep ib` normalises bottom-up: references are replaced by `ib` (the already normalised body of a rule that is to be
  inlined), nested sequences / choices are spliced in, adjacent literals of a sequence are concatenated, adjacent
  single-rune literals and non-inverted classes of a choice are united, one-element sequences / choices are replaced by
  their element, and every class lists its members sorted and without repetition. `nfK k` inlines `k` levels deep.
-/
import PigeonVerif.Opt.Sem

namespace PV
namespace Opt

/-! ### sorted lists without repetition -/

section sort
variable {α : Type} [BEq α]

def insertBy (le : α → α → Bool) (x : α) : List α → List α
  | [] => [x]
  | y :: ys => if le x y then x :: y :: ys else y :: insertBy le x ys

def sortBy (le : α → α → Bool) : List α → List α
  | [] => []
  | x :: xs => insertBy le x (sortBy le xs)

def dedupL : List α → List α
  | [] => []
  | x :: xs => if xs.contains x then dedupL xs else x :: dedupL xs

end sort

def leP (a b : Rune × Rune) : Bool := a.1 < b.1 || (a.1 == b.1 && a.2 ≤ b.2)

/-- the canonical class with the given members -/
def canonCls (cs : List Rune) (rs : List (Rune × Rune)) (ns : List String) (ic inv : Bool) : OE :=
  .cls (sortBy (fun a b => decide (a ≤ b)) (dedupL cs)) (sortBy leP (dedupL rs))
    (sortBy (fun a b => decide (a ≤ b)) (dedupL ns)) ic inv

/-! ### the local rewrites on lists of (already normalised) children -/

def flatSeq : List OE → List OE
  | [] => []
  | .seq ys :: rest => ys ++ flatSeq rest
  | x :: rest => x :: flatSeq rest

def flatCh : List OE → List OE
  | [] => []
  | .choice ys :: rest => ys ++ flatCh rest
  | x :: rest => x :: flatCh rest

/-- concatenate runs of adjacent literals with the same `i` flag; `cur` is the element being grown -/
def mergeLitFrom (cur : OE) : List OE → List OE
  | [] => [cur]
  | y :: rest =>
    match cur, y with
    | .lit a ic, .lit b ic' => if ic == ic' then mergeLitFrom (.lit (a ++ b) ic) rest else cur :: mergeLitFrom y rest
    | _, _ => cur :: mergeLitFrom y rest

def mergeLits : List OE → List OE
  | [] => []
  | x :: xs => mergeLitFrom x xs

/-- what can be united in a choice: a one-rune literal, or a class that is not inverted -/
def mergeable : OE → Option (List Rune × List (Rune × Rune) × List String × Bool)
  | .lit [c] ic => some ([c], [], [], ic)
  | .cls cs rs ns ic false => some (cs, rs, ns, ic)
  | _ => none

def mergeClsFrom (cur : OE) : List OE → List OE
  | [] => [cur]
  | y :: rest =>
    match mergeable cur, mergeable y with
    | some a, some b =>
      if a.2.2.2 == b.2.2.2 then
        mergeClsFrom (canonCls (a.1 ++ b.1) (a.2.1 ++ b.2.1) (a.2.2.1 ++ b.2.2.1) a.2.2.2 false) rest
      else cur :: mergeClsFrom y rest
    | _, _ => cur :: mergeClsFrom y rest

def mergeCls : List OE → List OE
  | [] => []
  | x :: xs => mergeClsFrom x xs

def mkSeq : List OE → OE
  | [y] => y
  | ys => .seq ys

def mkCh : List OE → OE
  | [y] => y
  | ys => .choice ys

/-! ### the normal form -/

mutual
def nfStep (ib : String → Option OE) : OE → OE
  | .lit v ic => .lit v ic
  | .cls cs rs ns ic inv => canonCls cs rs ns ic inv
  | .any => .any
  | .seq es => mkSeq (mergeLits (flatSeq (nfStepL ib es)))
  | .choice es => mkCh (mergeCls (flatCh (nfStepL ib es)))
  | .ref n => match ib n with
    | some b => b
    | none => .ref n
  | .act c e => .act c (nfStep ib e)
  | .lab l e => .lab l (nfStep ib e)
  | .andP e => .andP (nfStep ib e)
  | .notP e => .notP (nfStep ib e)
  | .andC c => .andC c
  | .notC c => .notC c
  | .stc c => .stc c
  | .opt e => .opt (nfStep ib e)
  | .star e => .star (nfStep ib e)
  | .plus e => .plus (nfStep ib e)
  | .recov e r ls => .recov (nfStep ib e) (nfStep ib r) ls
  | .thr l => .thr l
def nfStepL (ib : String → Option OE) : List OE → List OE
  | [] => []
  | e :: es => nfStep ib e :: nfStepL ib es
end

/-- normal form with the rules selected by `inl` inlined `k` levels deep -/
def nfK (g : Gram) (inl : String → Bool) : Nat → OE → OE
  | 0 => nfStep (fun _ => none)
  | k + 1 => nfStep (fun n => if inl n then (find g n).map (nfK g inl k) else none)

end Opt
end PV
