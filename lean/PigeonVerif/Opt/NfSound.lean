/-
  Soundness of the normal form: an expression and its normal form match the same inputs (in the same grammar).
  Forward (`nfStep_fwd`): with the SAME fuel. Backward (`nfStep_bwd`): with some fuel.
-/
import PigeonVerif.Opt.Nf

namespace PV
namespace Opt

/-! ### members of sorted / de-duplicated lists -/

section sort
variable {α : Type} [BEq α] [LawfulBEq α]

omit [BEq α] [LawfulBEq α] in
theorem mem_insertBy (le : α → α → Bool) (x y : α) : ∀ (l : List α), y ∈ insertBy le x l ↔ y = x ∨ y ∈ l
  | [] => by simp [insertBy]
  | z :: zs => by
    unfold insertBy
    split
    · simp
    · simp only [List.mem_cons, mem_insertBy le x y zs]
      constructor
      · rintro (h | h | h)
        · exact Or.inr (Or.inl h)
        · exact Or.inl h
        · exact Or.inr (Or.inr h)
      · rintro (h | h | h)
        · exact Or.inr (Or.inl h)
        · exact Or.inl h
        · exact Or.inr (Or.inr h)

omit [BEq α] [LawfulBEq α] in
theorem mem_sortBy (le : α → α → Bool) (y : α) : ∀ (l : List α), y ∈ sortBy le l ↔ y ∈ l
  | [] => by simp [sortBy]
  | x :: xs => by simp only [sortBy, mem_insertBy, mem_sortBy le y xs, List.mem_cons]

theorem mem_dedupL (y : α) : ∀ (l : List α), y ∈ dedupL l ↔ y ∈ l
  | [] => by simp [dedupL]
  | x :: xs => by
    unfold dedupL
    split
    · rename_i h
      rw [mem_dedupL y xs, List.mem_cons]
      constructor
      · exact Or.inr
      · rintro (h1 | h1)
        · rw [h1]; exact List.contains_iff_mem.mp h
        · exact h1
    · simp only [List.mem_cons, mem_dedupL y xs]

omit [BEq α] [LawfulBEq α] in
theorem any_congr_mem {l l' : List α} (p : α → Bool) (h : ∀ x, x ∈ l ↔ x ∈ l') : l.any p = l'.any p := by
  rw [Bool.eq_iff_iff]
  simp only [List.any_eq_true]
  constructor
  · rintro ⟨x, hx, hp⟩; exact ⟨x, (h x).mp hx, hp⟩
  · rintro ⟨x, hx, hp⟩; exact ⟨x, (h x).mpr hx, hp⟩

theorem any_canon (le : α → α → Bool) (p : α → Bool) (l : List α) : (sortBy le (dedupL l)).any p = l.any p :=
  any_congr_mem p (fun x => by rw [mem_sortBy, mem_dedupL])

end sort

section
variable (S : Sem) (g : Gram)

theorem clsMem_canon (cs : List Rune) (rs : List (Rune × Rune)) (ns : List String) (ic : Bool) (r : Rune) :
    clsMem S (sortBy (fun a b => decide (a ≤ b)) (dedupL cs)) (sortBy leP (dedupL rs))
      (sortBy (fun a b => decide (a ≤ b)) (dedupL ns)) ic r = clsMem S cs rs ns ic r := by
  unfold clsMem charMem
  rw [any_canon, any_canon, any_canon]

theorem den_canonCls (cs : List Rune) (rs : List (Rune × Rune)) (ns : List String) (ic inv : Bool) (f : Nat) (i : List Rune) :
    den S g f (canonCls cs rs ns ic inv) i = den S g f (.cls cs rs ns ic inv) i := by
  cases f with
  | zero => rfl
  | succ f =>
    show clsD S _ _ _ ic inv i = clsD S cs rs ns ic inv i
    cases i with
    | nil => rfl
    | cons r rest => simp only [clsD, clsMem_canon]

/-! ### sequences -/

variable {S g}

theorem seqD_append (rec : OE → List Rune → Res) : ∀ (a b : List OE) (i : List Rune),
    seqD rec (a ++ b) i = match seqD rec a i with
      | .ok j => seqD rec b j
      | r => r
  | [], _, _ => rfl
  | x :: a, b, i => by
    simp only [List.cons_append, seqD]
    cases rec x i with
    | oof => rfl
    | fail => rfl
    | ok j => exact seqD_append rec a b j

theorem choiceD_append (rec : OE → List Rune → Res) : ∀ (a b : List OE) (i : List Rune),
    choiceD rec (a ++ b) i = match choiceD rec a i with
      | .fail => choiceD rec b i
      | r => r
  | [], _, _ => rfl
  | x :: a, b, i => by
    simp only [List.cons_append, choiceD]
    cases rec x i with
    | oof => rfl
    | ok j => rfl
    | fail => exact choiceD_append rec a b i

/-- element-wise transfer of a sequence -/
theorem seqD_map {rec rec' : OE → List Rune → Res} {t : OE → OE} : ∀ (es : List OE),
    (∀ e ∈ es, ∀ i, rec e i ≠ .oof → rec' (t e) i = rec e i) → ∀ (i : List Rune), seqD rec es i ≠ .oof →
      seqD rec' (es.map t) i = seqD rec es i
  | [], _, _, _ => rfl
  | e :: es, h, i, hne => by
    simp only [List.map_cons, seqD] at hne ⊢
    cases hr : rec e i with
    | oof => rw [hr] at hne; exact absurd rfl hne
    | fail => rw [h e List.mem_cons_self i (by rw [hr]; simp), hr]
    | ok j =>
      rw [hr] at hne
      rw [h e List.mem_cons_self i (by rw [hr]; simp), hr]
      exact seqD_map es (fun e' he' => h e' (List.mem_cons_of_mem _ he')) j hne

theorem choiceD_map {rec rec' : OE → List Rune → Res} {t : OE → OE} : ∀ (es : List OE),
    (∀ e ∈ es, ∀ i, rec e i ≠ .oof → rec' (t e) i = rec e i) → ∀ (i : List Rune), choiceD rec es i ≠ .oof →
      choiceD rec' (es.map t) i = choiceD rec es i
  | [], _, _, _ => rfl
  | e :: es, h, i, hne => by
    simp only [List.map_cons, choiceD] at hne ⊢
    cases hr : rec e i with
    | oof => rw [hr] at hne; exact absurd rfl hne
    | ok j => rw [h e List.mem_cons_self i (by rw [hr]; simp), hr]
    | fail =>
      rw [hr] at hne
      rw [h e List.mem_cons_self i (by rw [hr]; simp), hr]
      exact choiceD_map es (fun e' he' => h e' (List.mem_cons_of_mem _ he')) i hne

theorem loopD_map {rec rec' : OE → List Rune → Res} {e e' : OE} (h : ∀ i, rec e i ≠ .oof → rec' e' i = rec e i) :
    ∀ (k k' : Nat) (i : List Rune), k ≤ k' → loopD rec e k i ≠ .oof → loopD rec' e' k' i = loopD rec e k i
  | 0, _, _, _, hne => by simp [loopD] at hne
  | k + 1, 0, _, hk, _ => absurd hk (by omega)
  | k + 1, k' + 1, i, hk, hne => by
    unfold loopD at hne ⊢
    cases hr : rec e i with
    | oof => rw [hr] at hne; exact absurd rfl hne
    | fail => rw [h i (by rw [hr]; simp), hr]
    | ok j =>
      rw [hr] at hne
      rw [h i (by rw [hr]; simp), hr]
      exact loopD_map h k k' j (by omega) hne

theorem nfStepL_eq_map (ib : String → Option OE) : ∀ (es : List OE), nfStepL ib es = es.map (nfStep ib)
  | [] => rfl
  | e :: es => by simp [nfStepL, nfStepL_eq_map ib es]

end

section
variable {S : Sem} {g : Gram}

theorem seqD_cons (rec : OE → List Rune → Res) (e : OE) (es : List OE) (i : List Rune) :
    seqD rec (e :: es) i = match rec e i with
      | .ok j => seqD rec es j
      | r => r := rfl
theorem choiceD_cons (rec : OE → List Rune → Res) (e : OE) (es : List OE) (i : List Rune) :
    choiceD rec (e :: es) i = match rec e i with
      | .fail => choiceD rec es i
      | r => r := rfl

theorem den_seq_succ (f : Nat) (es : List OE) (i : List Rune) : den S g (f + 1) (.seq es) i = seqD (den S g f) es i := rfl
theorem den_choice_succ (f : Nat) (es : List OE) (i : List Rune) : den S g (f + 1) (.choice es) i = choiceD (den S g f) es i := rfl

/-- splicing nested sequences in: same fuel -/
theorem flatSeq_fwd (f : Nat) : ∀ (xs : List OE) (i : List Rune), seqD (den S g f) xs i ≠ .oof →
    seqD (den S g f) (flatSeq xs) i = seqD (den S g f) xs i
  | [], _, _ => rfl
  | x :: rest, i, hne => by
    have tail : ∀ j, seqD (den S g f) rest j ≠ .oof → seqD (den S g f) (flatSeq rest) j = seqD (den S g f) rest j :=
      fun j hj => flatSeq_fwd f rest j hj
    have generic : (∀ ys, x ≠ .seq ys) → flatSeq (x :: rest) = x :: flatSeq rest := by
      intro hx; cases x <;> first | rfl | exact absurd rfl (hx _)
    by_cases hx : ∃ ys, x = .seq ys
    · obtain ⟨ys, rfl⟩ := hx
      show seqD (den S g f) (ys ++ flatSeq rest) i = _
      rw [seqD_append]
      rw [seqD_cons] at hne ⊢
      cases f with
      | zero => exact absurd rfl hne
      | succ f0 =>
        rw [den_seq_succ] at hne ⊢
        cases hr : seqD (den S g f0) ys i with
        | oof => rw [hr] at hne; exact absurd rfl hne
        | fail => rw [seqD_ext (den_succ_ext S g f0) ys i (by rw [hr]; simp), hr]
        | ok j =>
          rw [hr] at hne
          rw [seqD_ext (den_succ_ext S g f0) ys i (by rw [hr]; simp), hr]
          exact tail j hne
    · rw [generic (fun ys h => hx ⟨ys, h⟩)]
      rw [seqD_cons] at hne
      rw [seqD_cons, seqD_cons]
      cases hr : den S g f x i with
      | oof => rfl
      | fail => rfl
      | ok j => rw [hr] at hne; exact tail j hne

/-- ... and back: one more level of fuel -/
theorem flatSeq_bwd (f : Nat) : ∀ (xs : List OE) (i : List Rune), seqD (den S g f) (flatSeq xs) i ≠ .oof →
    seqD (den S g (f + 1)) xs i = seqD (den S g f) (flatSeq xs) i
  | [], _, _ => rfl
  | x :: rest, i, hne => by
    have generic : (∀ ys, x ≠ .seq ys) → flatSeq (x :: rest) = x :: flatSeq rest := by
      intro hx; cases x <;> first | rfl | exact absurd rfl (hx _)
    by_cases hx : ∃ ys, x = .seq ys
    · obtain ⟨ys, rfl⟩ := hx
      have e1 : flatSeq (.seq ys :: rest) = ys ++ flatSeq rest := rfl
      rw [e1, seqD_append] at hne ⊢
      rw [seqD_cons, den_seq_succ]
      cases hr : seqD (den S g f) ys i with
      | oof => rfl
      | fail => rfl
      | ok j =>
        rw [hr] at hne
        exact flatSeq_bwd f rest j hne
    · rw [generic (fun ys h => hx ⟨ys, h⟩)] at hne ⊢
      rw [seqD_cons] at hne
      rw [seqD_cons, seqD_cons]
      cases hr : den S g f x i with
      | oof => rw [hr] at hne; exact absurd rfl hne
      | fail => rw [den_succ_ext S g f x i (by rw [hr]; simp), hr]
      | ok j =>
        rw [hr] at hne
        rw [den_succ_ext S g f x i (by rw [hr]; simp), hr]
        exact flatSeq_bwd f rest j hne

theorem litD_append (ic : Bool) : ∀ (a b : List Rune) (i : List Rune),
    litD S ic (a ++ b) i = match litD S ic a i with
      | .ok j => litD S ic b j
      | r => r
  | [], _, _ => rfl
  | c :: a, b, [] => by cases b <;> rfl
  | c :: a, b, r :: rest => by
    simp only [List.cons_append, litD]
    split
    · exact litD_append ic a b rest
    · rfl

/-- concatenating adjacent literals: an equation (the literal needs one level of fuel) -/
theorem mergeLitFrom_eq (f : Nat) : ∀ (rest : List OE) (cur : OE) (i : List Rune),
    seqD (den S g (f + 1)) (mergeLitFrom cur rest) i = seqD (den S g (f + 1)) (cur :: rest) i
  | [], _, _ => rfl
  | y :: rest, cur, i => by
    have generic : seqD (den S g (f + 1)) (cur :: mergeLitFrom y rest) i = seqD (den S g (f + 1)) (cur :: y :: rest) i := by
      rw [seqD_cons, seqD_cons]
      cases den S g (f + 1) cur i with
      | oof => rfl
      | fail => rfl
      | ok j => exact mergeLitFrom_eq f rest y j
    cases cur with
    | lit a ic =>
      cases y with
      | lit b ic' =>
        simp only [mergeLitFrom]
        split
        · rename_i h
          have hic : ic' = ic := by simpa using (beq_iff_eq.mp h).symm
          subst hic
          rw [mergeLitFrom_eq f rest (.lit (a ++ b) ic') i]
          show (match litD S ic' (a ++ b) i with | .ok j => seqD _ rest j | r => r) =
            (match litD S ic' a i with | .ok j => (match litD S ic' b j with | .ok j' => seqD _ rest j' | r => r) | r => r)
          rw [litD_append]
          cases litD S ic' a i <;> rfl
        · exact generic
      | _ => exact generic
    | _ => exact generic

theorem mergeLits_eq (f : Nat) (xs : List OE) (i : List Rune) :
    seqD (den S g (f + 1)) (mergeLits xs) i = seqD (den S g (f + 1)) xs i := by
  cases xs with
  | nil => rfl
  | cons x rest => exact mergeLitFrom_eq f rest x i

theorem mkSeq_fwd (f : Nat) (ys : List OE) (i : List Rune) (hne : seqD (den S g f) ys i ≠ .oof) :
    den S g (f + 1) (mkSeq ys) i = seqD (den S g f) ys i := by
  cases ys with
  | nil => rfl
  | cons y rest =>
    cases rest with
    | cons z zs => rfl
    | nil =>
      show den S g (f + 1) y i = _
      rw [seqD_cons] at hne ⊢
      cases hr : den S g f y i with
      | oof => rw [hr] at hne; exact absurd rfl hne
      | fail => rw [den_succ_ext S g f y i (by rw [hr]; simp), hr]
      | ok j => rw [den_succ_ext S g f y i (by rw [hr]; simp), hr]; rfl

theorem mkSeq_bwd (f : Nat) (ys : List OE) (i : List Rune) (hne : den S g f (mkSeq ys) i ≠ .oof) :
    seqD (den S g f) ys i = den S g f (mkSeq ys) i := by
  cases ys with
  | nil => cases f with
    | zero => exact absurd rfl hne
    | succ f => rfl
  | cons y rest =>
    cases rest with
    | nil =>
      show seqD (den S g f) [y] i = den S g f y i
      rw [seqD_cons]
      cases den S g f y i <;> rfl
    | cons z zs =>
      cases f with
      | zero => exact absurd rfl hne
      | succ f0 =>
        show _ = seqD (den S g f0) (y :: z :: zs) i
        exact seqD_ext (den_succ_ext S g f0) _ i hne

end

/-! ### choices -/

section
variable {S : Sem} {g : Gram}

theorem flatCh_fwd (f : Nat) : ∀ (xs : List OE) (i : List Rune), choiceD (den S g f) xs i ≠ .oof →
    choiceD (den S g f) (flatCh xs) i = choiceD (den S g f) xs i
  | [], _, _ => rfl
  | x :: rest, i, hne => by
    have tail : choiceD (den S g f) rest i ≠ .oof → choiceD (den S g f) (flatCh rest) i = choiceD (den S g f) rest i :=
      fun hj => flatCh_fwd f rest i hj
    have generic : (∀ ys, x ≠ .choice ys) → flatCh (x :: rest) = x :: flatCh rest := by
      intro hx; cases x <;> first | rfl | exact absurd rfl (hx _)
    by_cases hx : ∃ ys, x = .choice ys
    · obtain ⟨ys, rfl⟩ := hx
      show choiceD (den S g f) (ys ++ flatCh rest) i = _
      rw [choiceD_append]
      rw [choiceD_cons] at hne ⊢
      cases f with
      | zero => exact absurd rfl hne
      | succ f0 =>
        rw [den_choice_succ] at hne ⊢
        cases hr : choiceD (den S g f0) ys i with
        | oof => rw [hr] at hne; exact absurd rfl hne
        | ok j => rw [choiceD_ext (den_succ_ext S g f0) ys i (by rw [hr]; simp), hr]
        | fail =>
          rw [hr] at hne
          rw [choiceD_ext (den_succ_ext S g f0) ys i (by rw [hr]; simp), hr]
          exact tail hne
    · rw [generic (fun ys h => hx ⟨ys, h⟩)]
      rw [choiceD_cons] at hne
      rw [choiceD_cons, choiceD_cons]
      cases hr : den S g f x i with
      | oof => rfl
      | ok j => rfl
      | fail => rw [hr] at hne; exact tail hne

theorem flatCh_bwd (f : Nat) : ∀ (xs : List OE) (i : List Rune), choiceD (den S g f) (flatCh xs) i ≠ .oof →
    choiceD (den S g (f + 1)) xs i = choiceD (den S g f) (flatCh xs) i
  | [], _, _ => rfl
  | x :: rest, i, hne => by
    have generic : (∀ ys, x ≠ .choice ys) → flatCh (x :: rest) = x :: flatCh rest := by
      intro hx; cases x <;> first | rfl | exact absurd rfl (hx _)
    by_cases hx : ∃ ys, x = .choice ys
    · obtain ⟨ys, rfl⟩ := hx
      have e1 : flatCh (.choice ys :: rest) = ys ++ flatCh rest := rfl
      rw [e1, choiceD_append] at hne ⊢
      rw [choiceD_cons, den_choice_succ]
      cases hr : choiceD (den S g f) ys i with
      | oof => rfl
      | ok j => rfl
      | fail =>
        rw [hr] at hne
        exact flatCh_bwd f rest i hne
    · rw [generic (fun ys h => hx ⟨ys, h⟩)] at hne ⊢
      rw [choiceD_cons] at hne
      rw [choiceD_cons, choiceD_cons]
      cases hr : den S g f x i with
      | oof => rw [hr] at hne; exact absurd rfl hne
      | ok j => rw [den_succ_ext S g f x i (by rw [hr]; simp), hr]
      | fail =>
        rw [hr] at hne
        rw [den_succ_ext S g f x i (by rw [hr]; simp), hr]
        exact flatCh_bwd f rest i hne

/-- a mergeable expression is a non-inverted class -/
theorem den_mergeable {x : OE} {a : List Rune × List (Rune × Rune) × List String × Bool} (h : mergeable x = some a) (f : Nat)
    (i : List Rune) : den S g (f + 1) x i = clsD S a.1 a.2.1 a.2.2.1 a.2.2.2 false i := by
  cases x with
  | lit v ic =>
    cases v with
    | nil => simp [mergeable] at h
    | cons c cs =>
      cases cs with
      | cons d ds => simp [mergeable] at h
      | nil =>
        simp only [mergeable, Option.some.injEq] at h
        subst h
        show litD S ic [c] i = clsD S [c] [] [] ic false i
        cases i with
        | nil => rfl
        | cons r rest =>
          simp only [litD, clsD, clsMem, charMem, List.any_cons, List.any_nil, Bool.or_false, bne_iff_ne, ne_eq,
            Bool.not_eq_false]
  | cls cs rs ns ic inv =>
    cases inv with
    | true => simp [mergeable] at h
    | false =>
      simp only [mergeable, Option.some.injEq] at h
      subst h
      rfl
  | _ => simp [mergeable] at h

theorem clsMem_append (a1 b1 : List Rune) (a2 b2 : List (Rune × Rune)) (a3 b3 : List String) (ic : Bool) (r : Rune) :
    clsMem S (a1 ++ b1) (a2 ++ b2) (a3 ++ b3) ic r = (clsMem S a1 a2 a3 ic r || clsMem S b1 b2 b3 ic r) := by
  simp only [clsMem, charMem, List.any_append]
  generalize List.any a1 _ = x1
  generalize List.any b1 _ = y1
  generalize List.any a2 _ = x2
  generalize List.any b2 _ = y2
  generalize List.any a3 _ = x3
  generalize List.any b3 _ = y3
  cases x1 <;> cases x2 <;> cases x3 <;> cases y1 <;> cases y2 <;> cases y3 <;> rfl

theorem clsD_union (a b : List Rune × List (Rune × Rune) × List String × Bool) (hic : a.2.2.2 = b.2.2.2) (i : List Rune) :
    clsD S (a.1 ++ b.1) (a.2.1 ++ b.2.1) (a.2.2.1 ++ b.2.2.1) a.2.2.2 false i =
      match clsD S a.1 a.2.1 a.2.2.1 a.2.2.2 false i with
      | .fail => clsD S b.1 b.2.1 b.2.2.1 b.2.2.2 false i
      | r => r := by
  cases i with
  | nil => rfl
  | cons r rest =>
    rw [← hic]
    simp only [clsD, clsMem_append]
    cases hA : clsMem S a.1 a.2.1 a.2.2.1 a.2.2.2 r <;> cases hB : clsMem S b.1 b.2.1 b.2.2.1 a.2.2.2 r <;> simp

theorem mergeClsFrom_eq (f : Nat) : ∀ (rest : List OE) (cur : OE) (i : List Rune),
    choiceD (den S g (f + 1)) (mergeClsFrom cur rest) i = choiceD (den S g (f + 1)) (cur :: rest) i
  | [], _, _ => rfl
  | y :: rest, cur, i => by
    have generic : choiceD (den S g (f + 1)) (cur :: mergeClsFrom y rest) i = choiceD (den S g (f + 1)) (cur :: y :: rest) i := by
      rw [choiceD_cons, choiceD_cons]
      cases den S g (f + 1) cur i with
      | oof => rfl
      | ok j => rfl
      | fail => exact mergeClsFrom_eq f rest y i
    unfold mergeClsFrom
    cases ha : mergeable cur with
    | none => exact generic
    | some a =>
      cases hb : mergeable y with
      | none => exact generic
      | some b =>
        simp only []
        split
        · rename_i h
          have hic : a.2.2.2 = b.2.2.2 := by simpa using h
          rw [mergeClsFrom_eq f rest _ i]
          rw [choiceD_cons, choiceD_cons, choiceD_cons, den_canonCls]
          show (match clsD S _ _ _ _ false i with | .fail => _ | r => r) = _
          rw [clsD_union a b hic, den_mergeable ha, den_mergeable hb]
          cases clsD S a.1 a.2.1 a.2.2.1 a.2.2.2 false i <;> rfl
        · exact generic

theorem mergeCls_eq (f : Nat) (xs : List OE) (i : List Rune) :
    choiceD (den S g (f + 1)) (mergeCls xs) i = choiceD (den S g (f + 1)) xs i := by
  cases xs with
  | nil => rfl
  | cons x rest => exact mergeClsFrom_eq f rest x i

theorem mkCh_fwd (f : Nat) (ys : List OE) (i : List Rune) (hne : choiceD (den S g f) ys i ≠ .oof) :
    den S g (f + 1) (mkCh ys) i = choiceD (den S g f) ys i := by
  cases ys with
  | nil => rfl
  | cons y rest =>
    cases rest with
    | cons z zs => rfl
    | nil =>
      show den S g (f + 1) y i = _
      rw [choiceD_cons] at hne ⊢
      cases hr : den S g f y i with
      | oof => rw [hr] at hne; exact absurd rfl hne
      | fail => rw [den_succ_ext S g f y i (by rw [hr]; simp), hr]; rfl
      | ok j => rw [den_succ_ext S g f y i (by rw [hr]; simp), hr]

theorem mkCh_bwd (f : Nat) (ys : List OE) (i : List Rune) (hne : den S g f (mkCh ys) i ≠ .oof) :
    choiceD (den S g f) ys i = den S g f (mkCh ys) i := by
  cases ys with
  | nil => cases f with
    | zero => exact absurd rfl hne
    | succ f => rfl
  | cons y rest =>
    cases rest with
    | nil =>
      show choiceD (den S g f) [y] i = den S g f y i
      rw [choiceD_cons]
      cases den S g f y i <;> rfl
    | cons z zs =>
      cases f with
      | zero => exact absurd rfl hne
      | succ f0 =>
        show _ = choiceD (den S g f0) (y :: z :: zs) i
        exact choiceD_ext (den_succ_ext S g f0) _ i hne

end

/-! ### the normal form is sound, forward: same fuel -/

section
variable {S : Sem} {g : Gram} {ib : String → Option OE}

/-- what is asked of the bodies that are inlined, forward -/
def InlFwd (S : Sem) (g : Gram) (ib : String → Option OE) : Prop :=
  ∀ n b, ib n = some b → ∀ f i, den S g f (.ref n) i ≠ .oof → den S g f b i = den S g f (.ref n) i

/-- ... and backward -/
def InlBwd (S : Sem) (g : Gram) (ib : String → Option OE) : Prop :=
  ∀ n b, ib n = some b → ∀ f i, den S g f b i ≠ .oof → ∃ f', den S g f' (.ref n) i = den S g f b i

theorem nfStep_fwd (ha : InlFwd S g ib) : ∀ (f : Nat) (e : OE) (i : List Rune), den S g f e i ≠ .oof →
    den S g f (nfStep ib e) i = den S g f e i
  | 0, _, _, hne => absurd rfl hne
  | f + 1, e, i, hne => by
    have ih : ∀ e' i', den S g f e' i' ≠ .oof → den S g f (nfStep ib e') i' = den S g f e' i' := nfStep_fwd ha f
    cases e with
    | lit v ic => rfl
    | cls cs rs ns ic inv => exact den_canonCls S g cs rs ns ic inv (f + 1) i
    | any => rfl
    | ref n =>
      unfold nfStep
      cases hb : ib n with
      | none => rfl
      | some b => exact ha n b hb (f + 1) i hne
    | act c e1 => exact ih e1 i hne
    | lab l e1 => exact ih e1 i hne
    | andC c => rfl
    | notC c => rfl
    | stc c => rfl
    | thr l => rfl
    | recov e1 r ls => exact ih e1 i hne
    | andP e1 =>
      show (match den S g f (nfStep ib e1) i with | .ok _ => Res.ok i | r => r) = (match den S g f e1 i with | .ok _ => Res.ok i | r => r)
      have hne' : den S g f e1 i ≠ .oof := by
        intro h; apply hne; show (match den S g f e1 i with | .ok _ => Res.ok i | r => r) = _; rw [h]
      rw [ih e1 i hne']
    | notP e1 =>
      show (match den S g f (nfStep ib e1) i with | .ok _ => Res.fail | .fail => .ok i | .oof => .oof) =
        (match den S g f e1 i with | .ok _ => Res.fail | .fail => .ok i | .oof => .oof)
      have hne' : den S g f e1 i ≠ .oof := by
        intro h; apply hne
        show (match den S g f e1 i with | .ok _ => Res.fail | .fail => .ok i | .oof => .oof) = _; rw [h]
      rw [ih e1 i hne']
    | opt e1 =>
      show (match den S g f (nfStep ib e1) i with | .fail => Res.ok i | r => r) = (match den S g f e1 i with | .fail => Res.ok i | r => r)
      have hne' : den S g f e1 i ≠ .oof := by
        intro h; apply hne; show (match den S g f e1 i with | .fail => Res.ok i | r => r) = _; rw [h]
      rw [ih e1 i hne']
    | star e1 =>
      exact loopD_map (fun i' h' => ih e1 i' h') f f i (Nat.le_refl f) hne
    | plus e1 =>
      show (match den S g f (nfStep ib e1) i with | .ok j => loopD (den S g f) (nfStep ib e1) f j | r => r) =
        (match den S g f e1 i with | .ok j => loopD (den S g f) e1 f j | r => r)
      have hne0 : (match den S g f e1 i with | .ok j => loopD (den S g f) e1 f j | r => r) ≠ .oof := hne
      cases hr : den S g f e1 i with
      | oof => rw [hr] at hne0; exact absurd rfl hne0
      | fail => rw [ih e1 i (by rw [hr]; simp), hr]
      | ok j =>
        rw [hr] at hne0
        rw [ih e1 i (by rw [hr]; simp), hr]
        exact loopD_map (fun i' h' => ih e1 i' h') f f j (Nat.le_refl f) hne0
    | seq es =>
      have h0 : seqD (den S g f) es i ≠ .oof := hne
      have h1 : seqD (den S g f) (nfStepL ib es) i = seqD (den S g f) es i := by
        rw [nfStepL_eq_map]
        exact seqD_map es (fun e' _ i' h' => ih e' i' h') i h0
      have h2 : seqD (den S g f) (flatSeq (nfStepL ib es)) i = seqD (den S g f) es i := by
        rw [flatSeq_fwd f _ i (by rw [h1]; exact h0), h1]
      have h3 : seqD (den S g f) (mergeLits (flatSeq (nfStepL ib es))) i = seqD (den S g f) es i := by
        cases f with
        | succ f0 => rw [mergeLits_eq, h2]
        | zero =>
          -- without fuel only the empty sequence returns
          cases hes : flatSeq (nfStepL ib es) with
          | nil => rw [← h2, hes]; rfl
          | cons x xs =>
            rw [hes] at h2
            have : seqD (den S g 0) (x :: xs) i = .oof := rfl
            rw [this] at h2
            exact absurd h2.symm h0
      show den S g (f + 1) (mkSeq (mergeLits (flatSeq (nfStepL ib es)))) i = seqD (den S g f) es i
      rw [mkSeq_fwd f _ i (by rw [h3]; exact h0), h3]
    | choice es =>
      have h0 : choiceD (den S g f) es i ≠ .oof := hne
      have h1 : choiceD (den S g f) (nfStepL ib es) i = choiceD (den S g f) es i := by
        rw [nfStepL_eq_map]
        exact choiceD_map es (fun e' _ i' h' => ih e' i' h') i h0
      have h2 : choiceD (den S g f) (flatCh (nfStepL ib es)) i = choiceD (den S g f) es i := by
        rw [flatCh_fwd f _ i (by rw [h1]; exact h0), h1]
      have h3 : choiceD (den S g f) (mergeCls (flatCh (nfStepL ib es))) i = choiceD (den S g f) es i := by
        cases f with
        | succ f0 => rw [mergeCls_eq, h2]
        | zero =>
          cases hes : flatCh (nfStepL ib es) with
          | nil => rw [← h2, hes]; rfl
          | cons x xs =>
            rw [hes] at h2
            have : choiceD (den S g 0) (x :: xs) i = .oof := rfl
            rw [this] at h2
            exact absurd h2.symm h0
      show den S g (f + 1) (mkCh (mergeCls (flatCh (nfStepL ib es)))) i = choiceD (den S g f) es i
      rw [mkCh_fwd f _ i (by rw [h3]; exact h0), h3]

end

/-! ### ... and backward: with some fuel -/

section
variable {S : Sem} {g : Gram} {ib : String → Option OE}

theorem den_zero (e : OE) (i : List Rune) : den S g 0 e i = .oof := rfl

theorem loopD_bwd {f0 : Nat} {e1 e1' : OE}
    (h : ∀ i, den S g f0 e1' i ≠ .oof → ∃ f', den S g f' e1 i = den S g f0 e1' i) :
    ∀ (k : Nat) (i : List Rune), loopD (den S g f0) e1' k i ≠ .oof →
      ∃ F, loopD (den S g F) e1 F i = loopD (den S g f0) e1' k i
  | 0, _, hne => by simp [loopD] at hne
  | k + 1, i, hne => by
    rw [show loopD (den S g f0) e1' (k + 1) i = (match den S g f0 e1' i with | .ok j => loopD (den S g f0) e1' k j | .fail => .ok i | .oof => .oof) from rfl] at hne ⊢
    cases hr : den S g f0 e1' i with
    | oof => rw [hr] at hne; exact absurd rfl hne
    | fail =>
      obtain ⟨f1, h1⟩ := h i (by rw [hr]; simp)
      rw [hr] at h1
      refine ⟨f1 + 1, ?_⟩
      show (match den S g (f1 + 1) e1 i with | .ok j => loopD (den S g (f1 + 1)) e1 f1 j | .fail => .ok i | .oof => .oof) = _
      rw [den_lift S g (Nat.le_succ f1) h1 (by simp)]
    | ok j =>
      rw [hr] at hne
      obtain ⟨f1, h1⟩ := h i (by rw [hr]; simp)
      rw [hr] at h1
      obtain ⟨F2, h2⟩ := loopD_bwd h k j hne
      refine ⟨max f1 F2 + 1, ?_⟩
      show (match den S g (max f1 F2 + 1) e1 i with | .ok j => loopD (den S g (max f1 F2 + 1)) e1 (max f1 F2) j | .fail => .ok i | .oof => .oof) = _
      rw [den_lift S g (Nat.le_trans (Nat.le_max_left f1 F2) (Nat.le_succ _)) h1 (by simp)]
      simp only []
      rw [← h2]
      exact loopD_ext (den_mono S g (Nat.le_trans (Nat.le_max_right f1 F2) (Nat.le_succ _))) e1 F2 (max f1 F2) j
        (Nat.le_max_right f1 F2) (by rw [h2]; exact hne)

mutual
theorem nfStep_bwd (hb : InlBwd S g ib) : ∀ (e : OE) (f : Nat) (i : List Rune), den S g f (nfStep ib e) i ≠ .oof →
    ∃ f', den S g f' e i = den S g f (nfStep ib e) i
  | e, 0, i, hne => absurd rfl hne
  | .lit v ic, f + 1, i, _ => ⟨f + 1, rfl⟩
  | .cls cs rs ns ic inv, f + 1, i, _ => ⟨f + 1, (den_canonCls S g cs rs ns ic inv (f + 1) i).symm⟩
  | .any, f + 1, i, _ => ⟨f + 1, rfl⟩
  | .andC c, f + 1, i, _ => ⟨f + 1, rfl⟩
  | .notC c, f + 1, i, _ => ⟨f + 1, rfl⟩
  | .stc c, f + 1, i, _ => ⟨f + 1, rfl⟩
  | .thr l, f + 1, i, _ => ⟨f + 1, rfl⟩
  | .ref n, f + 1, i, hne => by
    unfold nfStep at hne ⊢
    cases hbn : ib n with
    | none => exact ⟨f + 1, rfl⟩
    | some b => rw [hbn] at hne; exact hb n b hbn (f + 1) i hne
  | .act c e1, f + 1, i, hne => by
    obtain ⟨f', h'⟩ := nfStep_bwd hb e1 f i hne
    exact ⟨f' + 1, h'⟩
  | .lab l e1, f + 1, i, hne => by
    obtain ⟨f', h'⟩ := nfStep_bwd hb e1 f i hne
    exact ⟨f' + 1, h'⟩
  | .recov e1 r ls, f + 1, i, hne => by
    obtain ⟨f', h'⟩ := nfStep_bwd hb e1 f i hne
    exact ⟨f' + 1, h'⟩
  | .andP e1, f + 1, i, hne => by
    have hne0 : (match den S g f (nfStep ib e1) i with | .ok _ => Res.ok i | r => r) ≠ .oof := hne
    have hne' : den S g f (nfStep ib e1) i ≠ .oof := by intro h; rw [h] at hne0; exact hne0 rfl
    obtain ⟨f', h'⟩ := nfStep_bwd hb e1 f i hne'
    refine ⟨f' + 1, ?_⟩
    show (match den S g f' e1 i with | .ok _ => Res.ok i | r => r) = (match den S g f (nfStep ib e1) i with | .ok _ => Res.ok i | r => r)
    rw [h']
  | .notP e1, f + 1, i, hne => by
    have hne0 : (match den S g f (nfStep ib e1) i with | .ok _ => Res.fail | .fail => .ok i | .oof => .oof) ≠ .oof := hne
    have hne' : den S g f (nfStep ib e1) i ≠ .oof := by intro h; rw [h] at hne0; exact hne0 rfl
    obtain ⟨f', h'⟩ := nfStep_bwd hb e1 f i hne'
    refine ⟨f' + 1, ?_⟩
    show (match den S g f' e1 i with | .ok _ => Res.fail | .fail => .ok i | .oof => .oof) =
      (match den S g f (nfStep ib e1) i with | .ok _ => Res.fail | .fail => .ok i | .oof => .oof)
    rw [h']
  | .opt e1, f + 1, i, hne => by
    have hne0 : (match den S g f (nfStep ib e1) i with | .fail => Res.ok i | r => r) ≠ .oof := hne
    have hne' : den S g f (nfStep ib e1) i ≠ .oof := by intro h; rw [h] at hne0; exact hne0 rfl
    obtain ⟨f', h'⟩ := nfStep_bwd hb e1 f i hne'
    refine ⟨f' + 1, ?_⟩
    show (match den S g f' e1 i with | .fail => Res.ok i | r => r) = (match den S g f (nfStep ib e1) i with | .fail => Res.ok i | r => r)
    rw [h']
  | .star e1, f + 1, i, hne => by
    have hne0 : loopD (den S g f) (nfStep ib e1) f i ≠ .oof := hne
    obtain ⟨F, hF⟩ := loopD_bwd (fun i' h' => nfStep_bwd hb e1 f i' h') f i hne0
    exact ⟨F + 1, hF⟩
  | .plus e1, f + 1, i, hne => by
    have hne0 : (match den S g f (nfStep ib e1) i with | .ok j => loopD (den S g f) (nfStep ib e1) f j | r => r) ≠ .oof := hne
    show ∃ f', den S g f' (.plus e1) i =
      (match den S g f (nfStep ib e1) i with | .ok j => loopD (den S g f) (nfStep ib e1) f j | r => r)
    cases hr : den S g f (nfStep ib e1) i with
    | oof => rw [hr] at hne0; exact absurd rfl hne0
    | fail =>
      obtain ⟨f1, h1⟩ := nfStep_bwd hb e1 f i (by rw [hr]; simp)
      rw [hr] at h1
      refine ⟨f1 + 1, ?_⟩
      show (match den S g f1 e1 i with | .ok j => loopD (den S g f1) e1 f1 j | r => r) = _
      rw [h1]
    | ok j =>
      rw [hr] at hne0
      obtain ⟨f1, h1⟩ := nfStep_bwd hb e1 f i (by rw [hr]; simp)
      rw [hr] at h1
      obtain ⟨F2, h2⟩ := loopD_bwd (fun i' h' => nfStep_bwd hb e1 f i' h') f j hne0
      refine ⟨max f1 F2 + 1, ?_⟩
      show (match den S g (max f1 F2) e1 i with | .ok j => loopD (den S g (max f1 F2)) e1 (max f1 F2) j | r => r) = _
      rw [den_lift S g (Nat.le_max_left f1 F2) h1 (by simp)]
      simp only []
      rw [← h2]
      exact loopD_ext (den_mono S g (Nat.le_max_right f1 F2)) e1 F2 (max f1 F2) j (Nat.le_max_right f1 F2)
        (by rw [h2]; exact hne0)
  | .seq es, f + 1, i, hne => by
    have hne0 : den S g (f + 1) (mkSeq (mergeLits (flatSeq (nfStepL ib es)))) i ≠ .oof := hne
    have h1 := mkSeq_bwd (f + 1) _ i hne0
    have h2 := mergeLits_eq (S := S) (g := g) f (flatSeq (nfStepL ib es)) i
    have h3 := flatSeq_bwd (S := S) (g := g) (f + 1) (nfStepL ib es) i (by rw [← h2, h1]; exact hne0)
    obtain ⟨f', h4⟩ := nfStepL_bwd_seq hb es (f + 2) i (by rw [h3, ← h2, h1]; exact hne0)
    refine ⟨f' + 1, ?_⟩
    show seqD (den S g f') es i = den S g (f + 1) (mkSeq (mergeLits (flatSeq (nfStepL ib es)))) i
    rw [h4, h3, ← h2, h1]
  | .choice es, f + 1, i, hne => by
    have hne0 : den S g (f + 1) (mkCh (mergeCls (flatCh (nfStepL ib es)))) i ≠ .oof := hne
    have h1 := mkCh_bwd (f + 1) _ i hne0
    have h2 := mergeCls_eq (S := S) (g := g) f (flatCh (nfStepL ib es)) i
    have h3 := flatCh_bwd (S := S) (g := g) (f + 1) (nfStepL ib es) i (by rw [← h2, h1]; exact hne0)
    obtain ⟨f', h4⟩ := nfStepL_bwd_ch hb es (f + 2) i (by rw [h3, ← h2, h1]; exact hne0)
    refine ⟨f' + 1, ?_⟩
    show choiceD (den S g f') es i = den S g (f + 1) (mkCh (mergeCls (flatCh (nfStepL ib es)))) i
    rw [h4, h3, ← h2, h1]

theorem nfStepL_bwd_seq (hb : InlBwd S g ib) : ∀ (es : List OE) (f : Nat) (i : List Rune),
    seqD (den S g f) (nfStepL ib es) i ≠ .oof → ∃ f', seqD (den S g f') es i = seqD (den S g f) (nfStepL ib es) i
  | [], f, i, _ => ⟨f, rfl⟩
  | e :: es, f, i, hne => by
    have hne0 : (match den S g f (nfStep ib e) i with | .ok j => seqD (den S g f) (nfStepL ib es) j | r => r) ≠ .oof := hne
    show ∃ f', seqD (den S g f') (e :: es) i =
      (match den S g f (nfStep ib e) i with | .ok j => seqD (den S g f) (nfStepL ib es) j | r => r)
    cases hr : den S g f (nfStep ib e) i with
    | oof => rw [hr] at hne0; exact absurd rfl hne0
    | fail =>
      obtain ⟨f1, h1⟩ := nfStep_bwd hb e f i (by rw [hr]; simp)
      rw [hr] at h1
      exact ⟨f1, by rw [seqD_cons, h1]⟩
    | ok j =>
      rw [hr] at hne0
      obtain ⟨f1, h1⟩ := nfStep_bwd hb e f i (by rw [hr]; simp)
      rw [hr] at h1
      obtain ⟨f2, h2⟩ := nfStepL_bwd_seq hb es f j hne0
      refine ⟨max f1 f2, ?_⟩
      rw [seqD_cons, den_lift S g (Nat.le_max_left f1 f2) h1 (by simp)]
      simp only []
      rw [← h2]
      exact seqD_ext (den_mono S g (Nat.le_max_right f1 f2)) es j (by rw [h2]; exact hne0)

theorem nfStepL_bwd_ch (hb : InlBwd S g ib) : ∀ (es : List OE) (f : Nat) (i : List Rune),
    choiceD (den S g f) (nfStepL ib es) i ≠ .oof → ∃ f', choiceD (den S g f') es i = choiceD (den S g f) (nfStepL ib es) i
  | [], f, i, _ => ⟨f, rfl⟩
  | e :: es, f, i, hne => by
    have hne0 : (match den S g f (nfStep ib e) i with | .fail => choiceD (den S g f) (nfStepL ib es) i | r => r) ≠ .oof := hne
    show ∃ f', choiceD (den S g f') (e :: es) i =
      (match den S g f (nfStep ib e) i with | .fail => choiceD (den S g f) (nfStepL ib es) i | r => r)
    cases hr : den S g f (nfStep ib e) i with
    | oof => rw [hr] at hne0; exact absurd rfl hne0
    | ok j =>
      obtain ⟨f1, h1⟩ := nfStep_bwd hb e f i (by rw [hr]; simp)
      rw [hr] at h1
      exact ⟨f1, by rw [choiceD_cons, h1]⟩
    | fail =>
      rw [hr] at hne0
      obtain ⟨f1, h1⟩ := nfStep_bwd hb e f i (by rw [hr]; simp)
      rw [hr] at h1
      obtain ⟨f2, h2⟩ := nfStepL_bwd_ch hb es f i hne0
      refine ⟨max f1 f2, ?_⟩
      rw [choiceD_cons, den_lift S g (Nat.le_max_left f1 f2) h1 (by simp)]
      simp only []
      rw [← h2]
      exact choiceD_ext (den_mono S g (Nat.le_max_right f1 f2)) es i (by rw [h2]; exact hne0)
end

end

end Opt
end PV
