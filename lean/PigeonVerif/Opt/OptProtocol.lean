/-
  Wire format of the "optv" stream: an (input, output) pair of the real `ast.Optimize`, to be judged by the verified
  validator (`Opt/Validate.lean`). See /verif/PROTOCOL.md.

    optv <id> <n> (<name:H> OEXPR)*n <m> (<name:H> OEXPR)*m <p> <entry:H>*p
-/
import PigeonVerif.Opt.Validate
import PigeonVerif.Model.Protocol

namespace PV
namespace OptProtocol
open Protocol Opt

partial def oexpr : P OE := do
  let t ← tok
  match t with
  | "lit" => do
    let ic ← bool
    let n ← nat
    pure (.lit (← times n nat) ic)
  | "cls" => do
    let ic ← bool
    let inv ← bool
    let nc ← nat
    let cs ← times nc nat
    let nr ← nat
    let rs ← times nr (do let lo ← nat; let hi ← nat; pure (lo, hi))
    let nn ← nat
    let ns ← times nn hexStr
    pure (.cls cs rs ns ic inv)
  | "any" => pure .any
  | "seq" => do let n ← nat; pure (.seq (← times n oexpr))
  | "ch" => do let n ← nat; pure (.choice (← times n oexpr))
  | "ref" => pure (.ref (← hexStr))
  | "act" => do let c ← nat; pure (.act c (← oexpr))
  | "lab" => do let l ← hexStr; pure (.lab l (← oexpr))
  | "and" => pure (.andP (← oexpr))
  | "not" => pure (.notP (← oexpr))
  | "andc" => pure (.andC (← nat))
  | "notc" => pure (.notC (← nat))
  | "stc" => pure (.stc (← nat))
  | "opt" => pure (.opt (← oexpr))
  | "star" => pure (.star (← oexpr))
  | "plus" => pure (.plus (← oexpr))
  | "rec" => do
    let n ← nat
    let ls ← times n hexStr
    let e ← oexpr
    let r ← oexpr
    pure (.recov e r ls)
  | "thr" => pure (.thr (← hexStr))
  | _ => throw s!"bad OEXPR tag '{t}'"

structure OptCase where
  id : Nat
  g : Gram
  g' : Gram
  entries : List String

def optCase : P OptCase := do
  let t ← tok
  if t != "optv" then throw "expected optv"
  let id ← nat
  let n ← nat
  let g ← times n (do let name ← hexStr; let e ← oexpr; pure (name, e))
  let m ← nat
  let g' ← times m (do let name ← hexStr; let e ← oexpr; pure (name, e))
  let p ← nat
  let entries ← times p hexStr
  pure { id := id, g := g, g' := g', entries := entries }

/-! ### which rules to unfold: those that do not reach themselves -/

mutual
def refsOf : OE → List String
  | .ref n => [n]
  | .seq es | .choice es => refsOfL es
  | .act _ e | .lab _ e | .andP e | .notP e | .opt e | .star e | .plus e => refsOf e
  | .recov e r _ => refsOf e ++ refsOf r
  | _ => []
def refsOfL : List OE → List String
  | [] => []
  | e :: es => refsOf e ++ refsOfL es
end

def addAll (acc : List String) (xs : List String) : List String := xs.foldl (fun a x => if a.contains x then a else a ++ [x]) acc

/-- the rules reachable from the body of `n` (breadth first, at most `fuel` rounds) -/
def reachable (g : Gram) (n : String) (fuel : Nat) : List String :=
  let step (seen : List String) : List String :=
    seen.foldl (fun a x => match find g x with | some b => addAll a (refsOf b) | none => a) seen
  let start := match find g n with | some b => addAll [] (refsOf b) | none => []
  (List.range fuel).foldl (fun s _ => step s) start

def acyclic (g : Gram) : List String :=
  (g.map (·.1)).filter (fun n => !(reachable g n g.length).contains n)

/-- the verdict of the verified validator on one (input, output) pair of the optimizer -/
def runOptv (c : OptCase) : String :=
  let ac := acyclic c.g
  let inl : String → Bool := fun n => ac.contains n
  let k := ac.length + 1
  let names := c.g'.map (·.1)
  let missing := c.entries.filter (fun e => !names.contains e && (find c.g e).isSome)
  if !missing.isEmpty then s!"optvres {c.id} reject entry-lost {hexOfString (missing.headD "")}"
  else if validate c.g c.g' inl inl k names then s!"optvres {c.id} ok {names.length} {ac.length}"
  else
    -- name the first rule that does not validate on its own
    let bad := names.filter (fun n => !validate c.g c.g' inl inl k [n] ||
      (match find c.g n with | some b => !refsIn names (nfK c.g inl k b) | none => true))
    s!"optvres {c.id} reject rule {hexOfString (bad.headD "")}"

end OptProtocol
end PV
