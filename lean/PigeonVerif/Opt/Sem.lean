/-
  The grammar optimizer (`ast.Optimize`, -optimize-grammar): syntax of grammars as the optimizer sees them, and their
  RECOGNITION semantics (which inputs an expression matches and how much it consumes), by depth fuel.

  Not in this semantics: values, label scopes and the arguments of code blocks (what actions see is compared by the
  translation-validation stream `pvopt` on the real optimizer's output). Code predicates are opaque oracles of the
  code block and the remaining input; action, label and state blocks do not influence matching.
-/
namespace PV
namespace Opt

abbrev Rune := Nat

inductive OE where
  | lit (val : List Rune) (ic : Bool)
  | cls (chars : List Rune) (ranges : List (Rune × Rune)) (classes : List String) (ic inv : Bool)
  | any
  | seq (es : List OE)
  | choice (es : List OE)
  | ref (name : String)
  | act (code : Nat) (e : OE)
  | lab (label : String) (e : OE)
  | andP (e : OE)
  | notP (e : OE)
  | andC (code : Nat)
  | notC (code : Nat)
  | stc (code : Nat)
  | opt (e : OE)
  | star (e : OE)
  | plus (e : OE)
  | recov (e r : OE) (labels : List String)
  | thr (label : String)
deriving Inhabited, Repr

abbrev Gram := List (String × OE)

def find (g : Gram) (n : String) : Option OE := (g.find? (fun p => p.1 == n)).map (·.2)

inductive Res where
  | oof
  | fail
  | ok (rest : List Rune)
deriving Inhabited, DecidableEq, Repr

/-- what the semantics is parametric in: case folding, membership of a rune in a range / a Unicode class, and the
    outcome of a code predicate (a function of the code block and the remaining input) -/
structure Sem where
  fold : Rune → Rune
  inRange : Bool → Rune × Rune → Rune → Bool
  inClass : String → Rune → Bool
  ora : Nat → List Rune → Bool

section
variable (S : Sem)

def litStep (ic : Bool) (c r : Rune) : Bool := if ic then S.fold r == S.fold c else r == c

def litD (ic : Bool) : List Rune → List Rune → Res
  | [], i => .ok i
  | _ :: _, [] => .fail
  | c :: cs, r :: rest => if litStep S ic c r then litD ic cs rest else .fail

def charMem (ic : Bool) (chars : List Rune) (r : Rune) : Bool := chars.any (fun c => litStep S ic c r)

def clsMem (chars : List Rune) (ranges : List (Rune × Rune)) (classes : List String) (ic : Bool) (r : Rune) : Bool :=
  charMem S ic chars r || ranges.any (fun p => S.inRange ic p r) || classes.any (fun n => S.inClass n (if ic then S.fold r else r))

def clsD (chars : List Rune) (ranges : List (Rune × Rune)) (classes : List String) (ic inv : Bool) : List Rune → Res
  | [] => .fail
  | r :: rest => if clsMem S chars ranges classes ic r != inv then .ok rest else .fail

variable (rec : OE → List Rune → Res)

def seqD : List OE → List Rune → Res
  | [], i => .ok i
  | e :: es, i => match rec e i with
    | .ok j => seqD es j
    | r => r

def choiceD : List OE → List Rune → Res
  | [], _ => .fail
  | e :: es, i => match rec e i with
    | .fail => choiceD es i
    | r => r

/-- greedy repetition (zero or more) -/
def loopD (e : OE) : Nat → List Rune → Res
  | 0, _ => .oof
  | k + 1, i => match rec e i with
    | .ok j => loopD e k j
    | .fail => .ok i
    | .oof => .oof

def step (g : Gram) (k : Nat) : OE → List Rune → Res
  | .lit v ic, i => litD S ic v i
  | .cls cs rs ns ic inv, i => clsD S cs rs ns ic inv i
  | .any, i => match i with
    | [] => .fail
    | _ :: rest => .ok rest
  | .seq es, i => seqD rec es i
  | .choice es, i => choiceD rec es i
  | .ref n, i => match find g n with
    | none => .fail
    | some b => rec b i
  | .act _ e, i => rec e i
  | .lab _ e, i => rec e i
  | .andP e, i => match rec e i with
    | .ok _ => .ok i
    | r => r
  | .notP e, i => match rec e i with
    | .ok _ => .fail
    | .fail => .ok i
    | .oof => .oof
  | .andC c, i => if S.ora c i then .ok i else .fail
  | .notC c, i => if S.ora c i then .fail else .ok i
  | .stc _, i => .ok i
  | .opt e, i => match rec e i with
    | .fail => .ok i
    | r => r
  | .star e, i => loopD rec e k i
  | .plus e, i => match rec e i with
    | .ok j => loopD rec e k j
    | r => r
  | .recov e _ _, i => rec e i   -- throw / recover: outside the theorem (hypothesis `noTR`)
  | .thr _, _ => .fail

end

/-- the recognition semantics, by depth fuel -/
def den (S : Sem) (g : Gram) : Nat → OE → List Rune → Res
  | 0, _, _ => .oof
  | f + 1, e, i => step S (den S g f) g f e i

/-! ### more fuel, same answer -/

def Ext (r r' : OE → List Rune → Res) : Prop := ∀ e i, r e i ≠ .oof → r' e i = r e i

theorem seqD_ext {r r' : OE → List Rune → Res} (h : Ext r r') : ∀ (es : List OE) (i : List Rune),
    seqD r es i ≠ .oof → seqD r' es i = seqD r es i
  | [], _, _ => rfl
  | e :: es, i, hne => by
    unfold seqD at hne ⊢
    cases hr : r e i with
    | oof => rw [hr] at hne; exact absurd rfl hne
    | fail => rw [h e i (by rw [hr]; simp), hr]
    | ok j =>
      rw [hr] at hne
      rw [h e i (by rw [hr]; simp), hr]
      exact seqD_ext h es j hne

theorem choiceD_ext {r r' : OE → List Rune → Res} (h : Ext r r') : ∀ (es : List OE) (i : List Rune),
    choiceD r es i ≠ .oof → choiceD r' es i = choiceD r es i
  | [], _, _ => rfl
  | e :: es, i, hne => by
    unfold choiceD at hne ⊢
    cases hr : r e i with
    | oof => rw [hr] at hne; exact absurd rfl hne
    | ok j => rw [h e i (by rw [hr]; simp), hr]
    | fail =>
      rw [hr] at hne
      rw [h e i (by rw [hr]; simp), hr]
      exact choiceD_ext h es i hne

theorem loopD_ext {r r' : OE → List Rune → Res} (h : Ext r r') (e : OE) : ∀ (k k' : Nat) (i : List Rune), k ≤ k' →
    loopD r e k i ≠ .oof → loopD r' e k' i = loopD r e k i
  | 0, _, _, _, hne => by simp [loopD] at hne
  | k + 1, 0, _, hk, _ => absurd hk (by omega)
  | k + 1, k' + 1, i, hk, hne => by
    unfold loopD at hne ⊢
    cases hr : r e i with
    | oof => rw [hr] at hne; exact absurd rfl hne
    | fail => rw [h e i (by rw [hr]; simp), hr]
    | ok j =>
      rw [hr] at hne
      rw [h e i (by rw [hr]; simp), hr]
      exact loopD_ext h e k k' j (by omega) hne

theorem step_ext (S : Sem) (g : Gram) {r r' : OE → List Rune → Res} (h : Ext r r') {k k' : Nat} (hk : k ≤ k') (e : OE)
    (i : List Rune) (hne : step S r g k e i ≠ .oof) : step S r' g k' e i = step S r g k e i := by
  cases e with
  | lit v ic => rfl
  | cls cs rs ns ic inv => rfl
  | any => rfl
  | seq es => exact seqD_ext h es i hne
  | choice es => exact choiceD_ext h es i hne
  | ref n =>
    simp only [step] at hne ⊢
    cases hf : find g n with
    | none => rfl
    | some b => rw [hf] at hne; exact h b i hne
  | act c e => exact h e i hne
  | lab l e => exact h e i hne
  | andP e =>
    simp only [step] at hne ⊢
    cases hr : r e i with
    | oof => rw [hr] at hne; exact absurd rfl hne
    | fail => rw [h e i (by rw [hr]; simp), hr]
    | ok j => rw [h e i (by rw [hr]; simp), hr]
  | notP e =>
    simp only [step] at hne ⊢
    cases hr : r e i with
    | oof => rw [hr] at hne; exact absurd rfl hne
    | fail => rw [h e i (by rw [hr]; simp), hr]
    | ok j => rw [h e i (by rw [hr]; simp), hr]
  | andC c => rfl
  | notC c => rfl
  | stc c => rfl
  | opt e =>
    simp only [step] at hne ⊢
    cases hr : r e i with
    | oof => rw [hr] at hne; exact absurd rfl hne
    | fail => rw [h e i (by rw [hr]; simp), hr]
    | ok j => rw [h e i (by rw [hr]; simp), hr]
  | star e => exact loopD_ext h e k k' i hk hne
  | plus e =>
    simp only [step] at hne ⊢
    cases hr : r e i with
    | oof => rw [hr] at hne; exact absurd rfl hne
    | fail => rw [h e i (by rw [hr]; simp), hr]
    | ok j =>
      rw [hr] at hne
      rw [h e i (by rw [hr]; simp), hr]
      exact loopD_ext h e k k' j hk hne
  | recov e r0 ls => exact h e i hne
  | thr l => rfl

theorem den_succ_ext (S : Sem) (g : Gram) : ∀ f, Ext (den S g f) (den S g (f + 1))
  | 0 => fun _ _ hne => absurd rfl hne
  | f + 1 => fun e i hne => step_ext S g (den_succ_ext S g f) (Nat.le_succ f) e i hne

theorem den_mono (S : Sem) (g : Gram) {f f' : Nat} (hf : f ≤ f') : Ext (den S g f) (den S g f') := by
  induction hf with
  | refl => exact fun _ _ _ => rfl
  | step _ ih =>
    intro e i hne
    rw [den_succ_ext S g _ e i (by rw [ih e i hne]; exact hne), ih e i hne]

/-- `lift`: a result obtained with fuel `f` is the result with any larger fuel -/
theorem den_lift (S : Sem) (g : Gram) {f F : Nat} {e : OE} {i : List Rune} {r : Res} (hle : f ≤ F) (h : den S g f e i = r)
    (hne : r ≠ .oof) : den S g F e i = r := by
  rw [den_mono S g hle e i (by rw [h]; exact hne), h]

end Opt
end PV
