/-
  A verified validator for the grammar optimizer: `validate g g' … = true` implies that every listed rule matches the
  same inputs, consuming the same prefix, in the grammar `g` and in the optimized grammar `g'` (`validate_sound`).

  The validator compares NORMAL FORMS (`Opt/Nf.lean`): both grammars are normalised with the same sound rewrites (rule
  references unfolded `k` levels for the rules selected by `inl`), and the normal forms of equally named rules must be
  syntactically equal. It is run by the C09 check on every (input, output) pair of the real `ast.Optimize`.
-/
import PigeonVerif.Opt.NfSound

namespace PV
namespace Opt

/-! ### syntactic equality of expressions, decided -/

mutual
def beqOE : OE → OE → Bool
  | .lit a ic, .lit b ic' => a == b && ic == ic'
  | .cls c r n ic inv, .cls c' r' n' ic' inv' => c == c' && r == r' && n == n' && ic == ic' && inv == inv'
  | .any, .any => true
  | .seq a, .seq b => beqL a b
  | .choice a, .choice b => beqL a b
  | .ref a, .ref b => a == b
  | .act c e, .act c' e' => c == c' && beqOE e e'
  | .lab l e, .lab l' e' => l == l' && beqOE e e'
  | .andP e, .andP e' => beqOE e e'
  | .notP e, .notP e' => beqOE e e'
  | .andC c, .andC c' => c == c'
  | .notC c, .notC c' => c == c'
  | .stc c, .stc c' => c == c'
  | .opt e, .opt e' => beqOE e e'
  | .star e, .star e' => beqOE e e'
  | .plus e, .plus e' => beqOE e e'
  | .recov e r ls, .recov e' r' ls' => beqOE e e' && beqOE r r' && ls == ls'
  | .thr l, .thr l' => l == l'
  | _, _ => false
def beqL : List OE → List OE → Bool
  | [], [] => true
  | a :: as, b :: bs => beqOE a b && beqL as bs
  | _, _ => false
end

mutual
theorem beqOE_eq : ∀ (a b : OE), beqOE a b = true → a = b
  | .lit a ic, .lit b ic', h => by simp [beqOE] at h; rw [h.1, h.2]
  | .cls c r n ic inv, .cls c' r' n' ic' inv', h => by
    simp [beqOE] at h; obtain ⟨⟨⟨⟨h1, h2⟩, h3⟩, h4⟩, h5⟩ := h; rw [h1, h2, h3, h4, h5]
  | .any, .any, _ => rfl
  | .seq a, .seq b, h => by rw [beqL_eq a b (by simpa [beqOE] using h)]
  | .choice a, .choice b, h => by rw [beqL_eq a b (by simpa [beqOE] using h)]
  | .ref a, .ref b, h => by simp [beqOE] at h; rw [h]
  | .act c e, .act c' e', h => by simp [beqOE] at h; rw [h.1, beqOE_eq e e' h.2]
  | .lab l e, .lab l' e', h => by simp [beqOE] at h; rw [h.1, beqOE_eq e e' h.2]
  | .andP e, .andP e', h => by rw [beqOE_eq e e' (by simpa [beqOE] using h)]
  | .notP e, .notP e', h => by rw [beqOE_eq e e' (by simpa [beqOE] using h)]
  | .andC c, .andC c', h => by simp [beqOE] at h; rw [h]
  | .notC c, .notC c', h => by simp [beqOE] at h; rw [h]
  | .stc c, .stc c', h => by simp [beqOE] at h; rw [h]
  | .opt e, .opt e', h => by rw [beqOE_eq e e' (by simpa [beqOE] using h)]
  | .star e, .star e', h => by rw [beqOE_eq e e' (by simpa [beqOE] using h)]
  | .plus e, .plus e', h => by rw [beqOE_eq e e' (by simpa [beqOE] using h)]
  | .recov e r ls, .recov e' r' ls', h => by
    simp [beqOE] at h; rw [beqOE_eq e e' h.1.1, beqOE_eq r r' h.1.2, h.2]
  | .thr l, .thr l', h => by simp [beqOE] at h; rw [h]
theorem beqL_eq : ∀ (a b : List OE), beqL a b = true → a = b
  | [], [], _ => rfl
  | a :: as, b :: bs, h => by
    simp [beqL] at h
    rw [beqOE_eq a b h.1, beqL_eq as bs h.2]
  | [], _ :: _, h => by simp [beqL] at h
  | _ :: _, [], h => by simp [beqL] at h
end

/-! ### references -/

mutual
/-- every rule referenced in the expression is in `names` -/
def refsIn (names : List String) : OE → Bool
  | .ref n => names.contains n
  | .seq es | .choice es => refsInL names es
  | .act _ e | .lab _ e | .andP e | .notP e | .opt e | .star e | .plus e => refsIn names e
  | .recov e r _ => refsIn names e && refsIn names r
  | _ => true
def refsInL (names : List String) : List OE → Bool
  | [] => true
  | e :: es => refsIn names e && refsInL names es
end

theorem refsInL_mem {names : List String} : ∀ {es : List OE}, refsInL names es = true → ∀ e ∈ es, refsIn names e = true
  | [], _, _, h => by cases h
  | x :: xs, hl, e, he => by
    simp only [refsInL, Bool.and_eq_true] at hl
    rcases List.mem_cons.mp he with rfl | he
    · exact hl.1
    · exact refsInL_mem hl.2 e he

/-! ### the normal form with inlining is sound -/

section
variable (S : Sem) (g : Gram) (inl : String → Bool)

def ibK (k : Nat) : String → Option OE := fun n => if inl n then (find g n).map (nfK g inl k) else none

theorem nfK_succ (k : Nat) : nfK g inl (k + 1) = nfStep (ibK g inl k) := rfl

theorem ibK_some {k : Nat} {n : String} {b' : OE} (h : ibK g inl k n = some b') :
    ∃ b, find g n = some b ∧ b' = nfK g inl k b := by
  unfold ibK at h
  split at h
  · cases hf : find g n with
    | none => rw [hf] at h; cases h
    | some b => rw [hf] at h; exact ⟨b, rfl, by simpa using h.symm⟩
  · cases h

theorem den_ref (f : Nat) (n : String) (b : OE) (hf : find g n = some b) (i : List Rune) :
    den S g (f + 1) (.ref n) i = den S g f b i := by
  show (match find g n with | none => Res.fail | some b => den S g f b i) = _
  rw [hf]

theorem nfK_sound : ∀ (k : Nat),
    (∀ f e i, den S g f e i ≠ .oof → den S g f (nfK g inl k e) i = den S g f e i) ∧
    (∀ e f i, den S g f (nfK g inl k e) i ≠ .oof → ∃ f', den S g f' e i = den S g f (nfK g inl k e) i)
  | 0 => ⟨nfStep_fwd (fun _ _ h => by cases h), nfStep_bwd (fun _ _ h => by cases h)⟩
  | k + 1 => by
    obtain ⟨ihf, ihb⟩ := nfK_sound k
    have ha : InlFwd S g (ibK g inl k) := by
      intro n b' hb f i hne
      obtain ⟨b, hf, rfl⟩ := ibK_some g inl hb
      cases f with
      | zero => exact absurd rfl hne
      | succ f0 =>
        rw [den_ref S g f0 n b hf] at hne ⊢
        have h1 := ihf f0 b i hne
        exact den_lift S g (Nat.le_succ f0) h1 hne
    have hb : InlBwd S g (ibK g inl k) := by
      intro n b' hb f i hne
      obtain ⟨b, hf, rfl⟩ := ibK_some g inl hb
      obtain ⟨f', h'⟩ := ihb b f i hne
      exact ⟨f' + 1, by rw [den_ref S g f' n b hf, h']⟩
    exact ⟨nfStep_fwd ha, nfStep_bwd hb⟩

end

/-! ### two grammars whose rules have the same normal forms match the same inputs -/

section
variable {S : Sem}

theorem seqD_transfer {g' : Gram} {rec : OE → List Rune → Res} : ∀ (es : List OE),
    (∀ e ∈ es, ∀ i, rec e i ≠ .oof → ∃ f', den S g' f' e i = rec e i) → ∀ (i : List Rune), seqD rec es i ≠ .oof →
      ∃ F, seqD (den S g' F) es i = seqD rec es i
  | [], _, _, _ => ⟨0, rfl⟩
  | e :: es, h, i, hne => by
    rw [seqD_cons] at hne
    cases hr : rec e i with
    | oof => rw [hr] at hne; exact absurd rfl hne
    | fail =>
      obtain ⟨f1, h1⟩ := h e List.mem_cons_self i (by rw [hr]; simp)
      exact ⟨f1, by rw [seqD_cons, seqD_cons, h1, hr]⟩
    | ok j =>
      rw [hr] at hne
      obtain ⟨f1, h1⟩ := h e List.mem_cons_self i (by rw [hr]; simp)
      rw [hr] at h1
      obtain ⟨f2, h2⟩ := seqD_transfer es (fun e' he' => h e' (List.mem_cons_of_mem _ he')) j hne
      refine ⟨max f1 f2, ?_⟩
      rw [seqD_cons, seqD_cons, den_lift S g' (Nat.le_max_left f1 f2) h1 (by simp), hr]
      simp only []
      rw [← h2]
      exact seqD_ext (den_mono S g' (Nat.le_max_right f1 f2)) es j (by rw [h2]; exact hne)

theorem choiceD_transfer {g' : Gram} {rec : OE → List Rune → Res} : ∀ (es : List OE),
    (∀ e ∈ es, ∀ i, rec e i ≠ .oof → ∃ f', den S g' f' e i = rec e i) → ∀ (i : List Rune), choiceD rec es i ≠ .oof →
      ∃ F, choiceD (den S g' F) es i = choiceD rec es i
  | [], _, _, _ => ⟨0, rfl⟩
  | e :: es, h, i, hne => by
    rw [choiceD_cons] at hne
    cases hr : rec e i with
    | oof => rw [hr] at hne; exact absurd rfl hne
    | ok j =>
      obtain ⟨f1, h1⟩ := h e List.mem_cons_self i (by rw [hr]; simp)
      exact ⟨f1, by rw [choiceD_cons, choiceD_cons, h1, hr]⟩
    | fail =>
      rw [hr] at hne
      obtain ⟨f1, h1⟩ := h e List.mem_cons_self i (by rw [hr]; simp)
      rw [hr] at h1
      obtain ⟨f2, h2⟩ := choiceD_transfer es (fun e' he' => h e' (List.mem_cons_of_mem _ he')) i hne
      refine ⟨max f1 f2, ?_⟩
      rw [choiceD_cons, choiceD_cons, den_lift S g' (Nat.le_max_left f1 f2) h1 (by simp), hr]
      simp only []
      rw [← h2]
      exact choiceD_ext (den_mono S g' (Nat.le_max_right f1 f2)) es i (by rw [h2]; exact hne)

theorem loopD_transfer {g' : Gram} {rec : OE → List Rune → Res} {e : OE}
    (h : ∀ i, rec e i ≠ .oof → ∃ f', den S g' f' e i = rec e i) :
    ∀ (k : Nat) (i : List Rune), loopD rec e k i ≠ .oof → ∃ F, loopD (den S g' F) e F i = loopD rec e k i
  | 0, _, hne => by simp [loopD] at hne
  | k + 1, i, hne => by
    rw [show loopD rec e (k + 1) i = (match rec e i with | .ok j => loopD rec e k j | .fail => .ok i | .oof => .oof) from rfl] at hne ⊢
    cases hr : rec e i with
    | oof => rw [hr] at hne; exact absurd rfl hne
    | fail =>
      obtain ⟨f1, h1⟩ := h i (by rw [hr]; simp)
      rw [hr] at h1
      refine ⟨f1 + 1, ?_⟩
      show (match den S g' (f1 + 1) e i with | .ok j => loopD (den S g' (f1 + 1)) e f1 j | .fail => .ok i | .oof => .oof) = _
      rw [den_lift S g' (Nat.le_succ f1) h1 (by simp)]
    | ok j =>
      rw [hr] at hne
      obtain ⟨f1, h1⟩ := h i (by rw [hr]; simp)
      rw [hr] at h1
      obtain ⟨F2, h2⟩ := loopD_transfer h k j hne
      refine ⟨max f1 F2 + 1, ?_⟩
      show (match den S g' (max f1 F2 + 1) e i with | .ok j => loopD (den S g' (max f1 F2 + 1)) e (max f1 F2) j | .fail => .ok i | .oof => .oof) = _
      rw [den_lift S g' (Nat.le_trans (Nat.le_max_left f1 F2) (Nat.le_succ _)) h1 (by simp)]
      simp only []
      rw [← h2]
      exact loopD_ext (den_mono S g' (Nat.le_trans (Nat.le_max_right f1 F2) (Nat.le_succ _))) e F2 (max f1 F2) j
        (Nat.le_max_right f1 F2) (by rw [h2]; exact hne)

/-- the rules named in `names` exist in both grammars, have the same normal form, and their normal forms refer to
    rules in `names` only -/
def Matched (g g' : Gram) (inl inl' : String → Bool) (k : Nat) (names : List String) : Prop :=
  ∀ n ∈ names, ∃ b b', find g n = some b ∧ find g' n = some b' ∧ nfK g inl k b = nfK g' inl' k b' ∧
    refsIn names (nfK g inl k b) = true

theorem Matched.symm {g g' : Gram} {inl inl' : String → Bool} {k : Nat} {names : List String}
    (h : Matched g g' inl inl' k names) : Matched g' g inl' inl k names := by
  intro n hn
  obtain ⟨b, b', h1, h2, h3, h4⟩ := h n hn
  exact ⟨b', b, h2, h1, h3.symm, by rw [← h3]; exact h4⟩

/-- whatever an expression over the matched rules does in `g`, it does in `g'` -/
theorem cross {g g' : Gram} {inl inl' : String → Bool} {k : Nat} {names : List String}
    (hm : Matched g g' inl inl' k names) : ∀ (f : Nat) (e : OE), refsIn names e = true → ∀ (i : List Rune),
      den S g f e i ≠ .oof → ∃ f', den S g' f' e i = den S g f e i := by
  intro f
  induction f using Nat.strongRecOn with
  | _ f ih =>
    intro e he i hne
    cases f with
    | zero => exact absurd rfl hne
    | succ f =>
      have ih' : ∀ e', refsIn names e' = true → ∀ i', den S g f e' i' ≠ .oof → ∃ f', den S g' f' e' i' = den S g f e' i' :=
        fun e' he' i' h' => ih f (Nat.lt_succ_self f) e' he' i' h'
      cases e with
      | lit v ic => exact ⟨f + 1, rfl⟩
      | cls cs rs ns ic inv => exact ⟨f + 1, rfl⟩
      | any => exact ⟨f + 1, rfl⟩
      | andC c => exact ⟨f + 1, rfl⟩
      | notC c => exact ⟨f + 1, rfl⟩
      | stc c => exact ⟨f + 1, rfl⟩
      | thr l => exact ⟨f + 1, rfl⟩
      | act c e1 =>
        obtain ⟨f', h'⟩ := ih' e1 (by simpa [refsIn] using he) i hne
        exact ⟨f' + 1, h'⟩
      | lab l e1 =>
        obtain ⟨f', h'⟩ := ih' e1 (by simpa [refsIn] using he) i hne
        exact ⟨f' + 1, h'⟩
      | recov e1 r ls =>
        simp only [refsIn, Bool.and_eq_true] at he
        obtain ⟨f', h'⟩ := ih' e1 he.1 i hne
        exact ⟨f' + 1, h'⟩
      | andP e1 =>
        have hne0 : (match den S g f e1 i with | .ok _ => Res.ok i | r => r) ≠ .oof := hne
        have hne' : den S g f e1 i ≠ .oof := by intro h; rw [h] at hne0; exact hne0 rfl
        obtain ⟨f', h'⟩ := ih' e1 (by simpa [refsIn] using he) i hne'
        refine ⟨f' + 1, ?_⟩
        show (match den S g' f' e1 i with | .ok _ => Res.ok i | r => r) = (match den S g f e1 i with | .ok _ => Res.ok i | r => r)
        rw [h']
      | notP e1 =>
        have hne0 : (match den S g f e1 i with | .ok _ => Res.fail | .fail => .ok i | .oof => .oof) ≠ .oof := hne
        have hne' : den S g f e1 i ≠ .oof := by intro h; rw [h] at hne0; exact hne0 rfl
        obtain ⟨f', h'⟩ := ih' e1 (by simpa [refsIn] using he) i hne'
        refine ⟨f' + 1, ?_⟩
        show (match den S g' f' e1 i with | .ok _ => Res.fail | .fail => .ok i | .oof => .oof) =
          (match den S g f e1 i with | .ok _ => Res.fail | .fail => .ok i | .oof => .oof)
        rw [h']
      | opt e1 =>
        have hne0 : (match den S g f e1 i with | .fail => Res.ok i | r => r) ≠ .oof := hne
        have hne' : den S g f e1 i ≠ .oof := by intro h; rw [h] at hne0; exact hne0 rfl
        obtain ⟨f', h'⟩ := ih' e1 (by simpa [refsIn] using he) i hne'
        refine ⟨f' + 1, ?_⟩
        show (match den S g' f' e1 i with | .fail => Res.ok i | r => r) = (match den S g f e1 i with | .fail => Res.ok i | r => r)
        rw [h']
      | star e1 =>
        have hne0 : loopD (den S g f) e1 f i ≠ .oof := hne
        obtain ⟨F, hF⟩ := loopD_transfer (fun i' h' => ih' e1 (by simpa [refsIn] using he) i' h') f i hne0
        exact ⟨F + 1, hF⟩
      | plus e1 =>
        have he1 : refsIn names e1 = true := by simpa [refsIn] using he
        have hne0 : (match den S g f e1 i with | .ok j => loopD (den S g f) e1 f j | r => r) ≠ .oof := hne
        show ∃ f', den S g' f' (.plus e1) i = (match den S g f e1 i with | .ok j => loopD (den S g f) e1 f j | r => r)
        cases hr : den S g f e1 i with
        | oof => rw [hr] at hne0; exact absurd rfl hne0
        | fail =>
          obtain ⟨f1, h1⟩ := ih' e1 he1 i (by rw [hr]; simp)
          rw [hr] at h1
          refine ⟨f1 + 1, ?_⟩
          show (match den S g' f1 e1 i with | .ok j => loopD (den S g' f1) e1 f1 j | r => r) = _
          rw [h1]
        | ok j =>
          rw [hr] at hne0
          obtain ⟨f1, h1⟩ := ih' e1 he1 i (by rw [hr]; simp)
          rw [hr] at h1
          obtain ⟨F2, h2⟩ := loopD_transfer (fun i' h' => ih' e1 he1 i' h') f j hne0
          refine ⟨max f1 F2 + 1, ?_⟩
          show (match den S g' (max f1 F2) e1 i with | .ok j => loopD (den S g' (max f1 F2)) e1 (max f1 F2) j | r => r) = _
          rw [den_lift S g' (Nat.le_max_left f1 F2) h1 (by simp)]
          simp only []
          rw [← h2]
          exact loopD_ext (den_mono S g' (Nat.le_max_right f1 F2)) e1 F2 (max f1 F2) j (Nat.le_max_right f1 F2)
            (by rw [h2]; exact hne0)
      | seq es =>
        have hes : refsInL names es = true := by simpa [refsIn] using he
        obtain ⟨F, hF⟩ := seqD_transfer (g' := g') es (fun e' he' i' h' => ih' e' (refsInL_mem hes e' he') i' h') i hne
        exact ⟨F + 1, hF⟩
      | choice es =>
        have hes : refsInL names es = true := by simpa [refsIn] using he
        obtain ⟨F, hF⟩ := choiceD_transfer (g' := g') es (fun e' he' i' h' => ih' e' (refsInL_mem hes e' he') i' h') i hne
        exact ⟨F + 1, hF⟩
      | ref n =>
        have hn : n ∈ names := by
          simp only [refsIn] at he
          exact List.contains_iff_mem.mp he
        obtain ⟨b, b', h1, h2, h3, h4⟩ := hm n hn
        rw [den_ref S g f n b h1] at hne ⊢
        -- g: the body, then its normal form (same fuel)
        have hN := (nfK_sound S g inl k).1 f b i hne
        -- the normal form, evaluated in g' (induction: smaller fuel)
        obtain ⟨f2, hc⟩ := ih' (nfK g inl k b) h4 i (by rw [hN]; exact hne)
        -- g': back from the normal form to the body
        rw [h3] at hc
        obtain ⟨f3, hb⟩ := (nfK_sound S g' inl' k).2 b' f2 i (by rw [hc, ← h3, hN]; exact hne)
        exact ⟨f3 + 1, by rw [den_ref S g' f3 n b' h2, hb, hc, ← h3, hN]⟩

end

/-! ### the validator -/

/-- the rules `names` of `g` and `g'` have syntactically equal normal forms that only refer to rules in `names` -/
def validate (g g' : Gram) (inl inl' : String → Bool) (k : Nat) (names : List String) : Bool :=
  names.all fun n =>
    match find g n, find g' n with
    | some b, some b' => beqOE (nfK g inl k b) (nfK g' inl' k b') && refsIn names (nfK g inl k b)
    | _, _ => false

theorem validate_matched {g g' : Gram} {inl inl' : String → Bool} {k : Nat} {names : List String}
    (h : validate g g' inl inl' k names = true) : Matched g g' inl inl' k names := by
  intro n hn
  have := List.all_eq_true.mp h n hn
  cases h1 : find g n with
  | none => rw [h1] at this; cases this
  | some b =>
    cases h2 : find g' n with
    | none => rw [h1, h2] at this; cases this
    | some b' =>
      rw [h1, h2] at this
      simp only [Bool.and_eq_true] at this
      exact ⟨b, b', rfl, rfl, beqOE_eq _ _ this.1, this.2⟩

/-- **The validator is sound.** If it accepts, every rule in `names` matches, in the optimized grammar `g'`, exactly the
    inputs it matches in `g`, with the same outcome (failure, or success with the same remaining input) — for every case
    folding, every membership oracle for ranges and Unicode classes, every code-predicate oracle and every input. -/
theorem validate_sound (S : Sem) {g g' : Gram} {inl inl' : String → Bool} {k : Nat} {names : List String}
    (h : validate g g' inl inl' k names = true) (n : String) (hn : n ∈ names) (i : List Rune) (r : Res) (hr : r ≠ .oof) :
    (∃ f, den S g f (.ref n) i = r) ↔ (∃ f, den S g' f (.ref n) i = r) := by
  have hm := validate_matched h
  have hin : refsIn names (.ref n) = true := by simp [refsIn, hn]
  constructor
  · rintro ⟨f, hf⟩
    obtain ⟨f', h'⟩ := cross (S := S) hm f (.ref n) hin i (by rw [hf]; exact hr)
    exact ⟨f', by rw [h', hf]⟩
  · rintro ⟨f, hf⟩
    obtain ⟨f', h'⟩ := cross (S := S) hm.symm f (.ref n) hin i (by rw [hf]; exact hr)
    exact ⟨f', by rw [h', hf]⟩

end Opt
end PV
