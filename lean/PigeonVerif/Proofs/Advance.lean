/-
  Progress and nullability (plain configuration: no Memoize, no budget, no left-recursive rules).

  `Expr.nul rn e` is the static "may match without consuming" of the grammar analysis, relative to an oracle `rn` for the
  rules. `adv`: a successful evaluation never moves backwards, and if it ends where it started then the expression is
  nullable — provided `rn` is closed (`rn n` holds whenever the body of rule `n` is nullable).

  This is the semantic soundness of the nullable analysis w.r.t. the runtime model, for every grammar (throw/recover
  included: both count as nullable), every code environment, every input and every depth.
-/
import PigeonVerif.Proofs.Refine

namespace PV

mutual
def Expr.nul (rn : String → Bool) : Expr → Bool
  | .action _ _ e => e.nul rn
  | .andCode _ _ | .notCode _ _ | .stateCode _ _ => true
  | .and _ _ | .not _ _ => true
  | .any _ => false
  | .cls _ _ => false
  | .choice _ _ _ es => nulAny rn es
  | .labeled _ _ e => e.nul rn
  | .lit _ v _ _ => v.isEmpty
  | .oneOrMore _ e => e.nul rn
  | .zeroOrMore _ _ | .zeroOrOne _ _ => true
  | .recovery _ _ _ _ | .throw _ _ => true
  | .ruleRef _ n => rn n
  | .seq _ es => nulAll rn es
def nulAny (rn : String → Bool) : List Expr → Bool
  | [] => false
  | e :: es => e.nul rn || nulAny rn es
def nulAll (rn : String → Bool) : List Expr → Bool
  | [] => true
  | e :: es => e.nul rn && nulAll rn es
end

namespace RT

/-- the invariants the frame theorem needs and preserves -/
def FInv (E : Env) (s : PState) : Prop := MemoOK s ∧ PtInv E s

theorem FInv.congr {E : Env} {s s' : PState} (h : FInv E s) (h1 : s'.pt = s.pt) (h2 : s'.memo = s.memo) : FInv E s' :=
  ⟨h.1.congr h2, h.2.congr h1 h2⟩

theorem FInv.congr' {E : Env} {s s' : PState} (h : FInv E s) (h1 : Reach E.input s'.pt) (h2 : s'.memo = s.memo) : FInv E s' :=
  ⟨h.1.congr h2, h1, by rw [h2]; exact h.2.2⟩

theorem FInv.of_framed {E : Env} {s s' : PState} {ok : Bool} (h : FInv E s) (hf : Framed E s ok s') : FInv E s' :=
  ⟨hf.memo, hf.stk.ptinv h.2⟩

/-- a successful evaluation does not move backwards; if it ends where it started the expression is nullable -/
def Adv (rn : String → Bool) (e : Expr) (s : PState) (ok : Bool) (s' : PState) : Prop :=
  ok = true → s.pt.pos.off ≤ s'.pt.pos.off ∧ (s'.pt.pos.off = s.pt.pos.off → e.nul rn = true)

section
variable {E : Env} {rec : Expr → PState → Outcome} {rn : String → Bool}

/-- an additional invariant of the run that only looks at the memo table (`True` in the plain configuration; "every
    seed respects progress" with left recursion) -/
structure MemoInv (J : PState → Prop) : Prop where
  congr : ∀ (s s' : PState), s'.memo = s.memo → J s → J s'

/-- what one sub-call gives: frame facts, invariants, progress -/
def CallPost (E : Env) (rn : String → Bool) (J : PState → Prop) (e : Expr) (s : PState) (ok : Bool) (s' : PState) : Prop :=
  Framed E s ok s' ∧ FInv E s' ∧ J s' ∧ Adv rn e s ok s' ∧ (ok = false → s'.pt.pos.off = s.pt.pos.off)

variable {J : PState → Prop} (hJ : MemoInv J)
variable (hmz : E.opts.memoize = false) (hfr : ∀ e s, FrameInv E s (rec e s))
  (hrec : ∀ e s, FInv E s → J s → (rec e s).Sat (fun _ ok s' => J s' ∧ Adv rn e s ok s') (fun _ => True))
include hJ hmz hfr hrec

omit hJ in
theorem call_adv (e : Expr) (s : PState) (hi : FInv E s) (hj : J s) :
    (parseExprWrap E rec e s).Sat (fun _ ok s' => CallPost E rn J e s ok s') (fun _ => True) := by
  rw [wrap_eq hmz]
  have h1 := hrec e s hi hj
  have h2 := hfr e s hi.1
  revert h1 h2
  generalize rec e s = o
  cases o with
  | oof => intros; trivial
  | panic p s1 => intros; trivial
  | done v ok s1 => intro h1 h2; exact ⟨h2, hi.of_framed h2, h1.1, h1.2, h2.failOff⟩

/-- sequence, from an intermediate state: on success no step back; all items nullable if nothing was consumed -/
theorem seq_adv (pt : Savepoint) (st : Store) : ∀ (es : List Expr) (s : PState) (acc : List Val), FInv E s → J s →
    (parseSeq E rec pt st es s acc).Sat
      (fun _ ok s' => J s' ∧ (ok = true → s.pt.pos.off ≤ s'.pt.pos.off ∧ (s'.pt.pos.off = s.pt.pos.off → nulAll rn es = true)))
      (fun _ => True)
  | [], s, acc, _, hj => by
    unfold parseSeq; exact ⟨hj, fun _ => ⟨Nat.le_refl _, fun _ => rfl⟩⟩
  | e :: es, s, acc, hi, hj => by
    unfold parseSeq
    apply Outcome.sat_bind (call_adv hmz hfr hrec e s hi hj)
    intro v ok s1 ⟨_, hi1, hj1, ha, _⟩
    cases ok with
    | false =>
      simp only [Bool.false_eq_true, if_false, Outcome.Sat]
      exact ⟨hJ.congr _ _ (by simp) hj1, fun hb => by cases hb⟩
    | true =>
      simp only [if_true]
      obtain ⟨h1, h2⟩ := ha rfl
      apply Outcome.sat_mono (seq_adv pt st es s1 _ hi1 hj1)
      · intro v' ok' s' ⟨hj', h⟩
        refine ⟨hj', fun hok => ?_⟩
        obtain ⟨h3, h4⟩ := h hok
        refine ⟨Nat.le_trans h1 h3, fun heq => ?_⟩
        have e1 : s1.pt.pos.off = s.pt.pos.off := by omega
        have e2 : s'.pt.pos.off = s1.pt.pos.off := by omega
        simp [nulAll, h2 e1, h4 e2]
      · intro _ _; trivial

/-- ordered choice, from a state with the same offset as the start -/
theorem choice_adv (line col : Nat) : ∀ (alts : List Expr) (i : Nat) (s : PState), FInv E s → J s →
    (parseChoice E rec line col alts i s).Sat
      (fun _ ok s' => J s' ∧ (ok = true → s.pt.pos.off ≤ s'.pt.pos.off ∧ (s'.pt.pos.off = s.pt.pos.off → nulAny rn alts = true)))
      (fun _ => True)
  | [], i, s, _, hj => by
    unfold parseChoice; simp only [Outcome.Sat]; exact ⟨hJ.congr _ _ (by simp) hj, fun hb => by cases hb⟩
  | alt :: alts, i, s, hi, hj => by
    unfold parseChoice
    simp only []
    apply Outcome.sat_bind (call_adv hmz hfr hrec alt (pushV s) (hi.congr rfl rfl) (hJ.congr _ _ (by rfl) hj))
    intro v ok s1 ⟨_, hi1, hj1, ha, hfail⟩
    cases ok with
    | true =>
      simp only [if_true, Outcome.Sat]
      refine ⟨hJ.congr _ _ (by simp) hj1, fun _ => ?_⟩
      obtain ⟨h1, h2⟩ := ha rfl
      refine ⟨by simpa using h1, fun heq => ?_⟩
      have := h2 (by simpa using heq)
      simp [nulAny, this]
    | false =>
      simp only [Bool.false_eq_true, if_false]
      have hoff : (restoreState E (popV s1) s.state).pt.pos.off = s.pt.pos.off := by simpa using hfail rfl
      apply Outcome.sat_mono (choice_adv line col alts (i + 1) _ (hi1.congr (by simp) (by simp)) (hJ.congr _ _ (by simp) hj1))
      · intro v' ok' s' ⟨hj', h⟩
        refine ⟨hj', fun hok => ?_⟩
        obtain ⟨h3, h4⟩ := h hok
        rw [hoff] at h3 h4
        exact ⟨h3, fun heq => by simp [nulAny, h4 heq]⟩
      · intro _ _; trivial

/-- the loop of `*` and `+`: never a step back; a successful `+` that consumed nothing has a nullable body -/
theorem loop_adv (e : Expr) : ∀ (k : Nat) (s : PState) (acc : List Val), FInv E s → J s →
    (parseLoop E rec e k s acc).Sat
      (fun _ ok s' => J s' ∧ s.pt.pos.off ≤ s'.pt.pos.off ∧
        (ok = true → acc = [] → s'.pt.pos.off = s.pt.pos.off → e.nul rn = true))
      (fun _ => True)
  | 0, _, _, _, _ => by unfold parseLoop; trivial
  | k + 1, s, acc, hi, hj => by
    unfold parseLoop
    simp only []
    apply Outcome.sat_bind (call_adv hmz hfr hrec e (pushV s) (hi.congr rfl rfl) (hJ.congr _ _ (by rfl) hj))
    intro v ok s1 ⟨_, hi1, hj1, ha, hfail⟩
    cases ok with
    | true =>
      simp only [if_true]
      obtain ⟨h1, h2⟩ := ha rfl
      apply Outcome.sat_mono (loop_adv e k (popV s1) (v :: acc) (hi1.congr (by simp) (by simp)) (hJ.congr _ _ (by simp) hj1))
      · intro v' ok' s' ⟨hj', h3, _⟩
        have h1' : s.pt.pos.off ≤ s1.pt.pos.off := by simpa using h1
        have h3' : s1.pt.pos.off ≤ s'.pt.pos.off := by simpa using h3
        refine ⟨hj', Nat.le_trans h1' h3', fun _ _ heq => h2 ?_⟩
        have : s1.pt.pos.off = s.pt.pos.off := by omega
        simpa using this
      · intro _ _; trivial
    | false =>
      simp only [Bool.false_eq_true, if_false]
      have hoff : s1.pt.pos.off = s.pt.pos.off := by simpa using hfail rfl
      have hj2 : J (popV s1) := hJ.congr _ _ (by simp) hj1
      split
      · rename_i hacc
        simp only [Outcome.Sat]
        exact ⟨hj2, by simp [hoff], fun h => by cases h⟩
      · rename_i hacc
        simp only [Outcome.Sat]
        refine ⟨hj2, by simp [hoff], fun _ hnil => ?_⟩
        subst hnil; simp at hacc

omit hJ hmz hfr hrec in
theorem lit_adv (start : Savepoint) (want : String) (ic : Bool) : ∀ (rs : List Rune) (s : PState),
    (parseLit E start want ic rs s).Sat
      (fun _ ok s' => s'.memo = s.memo ∧ (ok = true → s.pt.pos.off ≤ s'.pt.pos.off ∧ (s'.pt.pos.off = s.pt.pos.off → rs = [])))
      (fun _ => True)
  | [], s => by unfold parseLit; simp [Outcome.Sat]
  | r :: rs, s => by
    rw [parseLit]
    by_cases hc : (decide (litCur E ic s ≠ r) || decide (s.pt.w = 0)) = true
    · rw [if_pos hc]; simp [Outcome.Sat]
    · rw [if_neg hc]
      have hw : s.pt.w ≠ 0 := by intro h0; apply hc; simp [h0]
      apply Outcome.sat_mono (lit_adv start want ic rs (read E s))
      · intro v ok s' ⟨hm, h⟩
        refine ⟨by rw [hm]; simp, fun hok => ?_⟩
        obtain ⟨h1, _⟩ := h hok
        have hr : (read E s).pt.pos.off = s.pt.pos.off + s.pt.w := by rw [read_pt]; simp
        rw [hr] at h1
        exact ⟨by omega, fun heq => by omega⟩
      · intro _ _; trivial

omit hJ in
theorem throw_adv (label : String) : ∀ (frames : List (List (String × Expr))) (s : PState), FInv E s → J s →
    (parseThrow E rec label frames s).Sat (fun _ ok s' => J s' ∧ (ok = true → s.pt.pos.off ≤ s'.pt.pos.off)) (fun _ => True)
  | [], s, _, hj => by unfold parseThrow; simp only [Outcome.Sat]; exact ⟨hj, fun hb => by cases hb⟩
  | fr :: frs, s, hi, hj => by
    unfold parseThrow
    split
    · next r _ =>
      apply Outcome.sat_bind (call_adv hmz hfr hrec r s hi hj)
      intro v ok s1 ⟨_, hi1, hj1, ha, hfail⟩
      cases ok with
      | true => simp only [if_true, Outcome.Sat]; exact ⟨hj1, fun _ => (ha rfl).1⟩
      | false =>
        simp only [Bool.false_eq_true, if_false]
        apply Outcome.sat_mono (throw_adv label frs s1 hi1 hj1)
        · intro v' ok' s' ⟨hj', h⟩
          refine ⟨hj', fun hok => ?_⟩
          have := h hok
          rw [hfail rfl] at this; exact this
        · intro _ _; trivial
    · exact throw_adv label frs s hi hj

theorem rule_adv (r : Rule) (s : PState) (hi : FInv E s) (hj : J s) :
    (parseRule E rec r s).Sat (fun _ ok s' => J s' ∧ Adv rn r.expr s ok s') (fun _ => True) := by
  unfold parseRule
  simp only []
  apply Outcome.sat_bind (call_adv hmz hfr hrec r.expr (pushV { s with rstack := r :: s.rstack }) (hi.congr rfl rfl) (hJ.congr _ _ (by rfl) hj))
  intro v ok s1 ⟨_, _, hj1, ha, _⟩
  simp only [Outcome.Sat]
  refine ⟨hJ.congr _ _ (by simp [popV]) hj1, fun hok => ?_⟩
  obtain ⟨h1, h2⟩ := ha hok
  exact ⟨by simpa [pushV, popV] using h1, fun heq => h2 (by simpa [pushV, popV] using heq)⟩

end


section
variable {E : Env} {rec : Expr → PState → Outcome} {rn : String → Bool}

/-- consuming one rune moves forward -/
theorem matchOne_adv (s : PState) (want : String) (hw : s.pt.w ≠ 0) :
    (matchOne E s want).Sat (fun _ _ s' => s'.memo = s.memo ∧ s.pt.pos.off < s'.pt.pos.off) (fun _ => True) := by
  unfold matchOne
  simp only [Outcome.Sat, failAt.pt]
  refine ⟨by simp, ?_⟩
  rw [read_pt]; simp; omega

theorem runCodeBlock_pt (blk : Nat) (s : PState) (k : BlockResult → PState → Outcome)
    (Q : Val → Bool → PState → Prop)
    (hk : ∀ r s2, s2.pt = s.pt → s2.memo = s.memo → (k r s2).Sat Q (fun _ => True)) :
    (runCodeBlock E blk s k).Sat Q (fun _ => True) := by
  unfold runCodeBlock
  simp only []
  split
  · trivial
  · exact hk _ _ (by simp) (by simp)

variable {J : PState → Prop} (hJ : MemoInv J)
variable (hmz : E.opts.memoize = false) (hfr : ∀ e s, FrameInv E s (rec e s))
  (hrec : ∀ e s, FInv E s → J s → (rec e s).Sat (fun _ ok s' => J s' ∧ Adv rn e s ok s') (fun _ => True))
  (hrule : ∀ (k : Nat) (name : String) (r : Rule) (s : PState), E.findRule name = some r → FInv E s → J s →
    (parseRuleWrap E rec k r s).Sat
      (fun _ ok s' => J s' ∧ (ok = true → s.pt.pos.off ≤ s'.pt.pos.off ∧ (s'.pt.pos.off = s.pt.pos.off → rn name = true)))
      (fun _ => True))
include hJ hmz hfr hrec hrule

theorem body_adv (k : Nat) (e : Expr) (s : PState) (hi : FInv E s) (hj : J s) :
    (parseExprBody E rec k e s).Sat (fun _ ok s' => J s' ∧ Adv rn e s ok s') (fun _ => True) := by
  have call := call_adv hmz hfr hrec (rn := rn)
  have hreach : Reach E.input s.pt := hi.2.1
  have hjp : J (pushV s) := hJ.congr _ _ (by rfl) hj
  cases e with
  | andCode id blk =>
    simp only [parseExprBody, parseAndCode]
    apply runCodeBlock_pt
    intro r s2 h2 hm2
    simp only [Outcome.Sat, Adv, restoreState.pt, h2]
    exact ⟨hJ.congr _ _ (by simp [hm2]) hj, fun _ => ⟨Nat.le_refl _, fun _ => rfl⟩⟩
  | notCode id blk =>
    simp only [parseExprBody, parseNotCode]
    apply runCodeBlock_pt
    intro r s2 h2 hm2
    simp only [Outcome.Sat, Adv, restoreState.pt, h2]
    exact ⟨hJ.congr _ _ (by simp [hm2]) hj, fun _ => ⟨Nat.le_refl _, fun _ => rfl⟩⟩
  | stateCode id blk =>
    simp only [parseExprBody, parseStateCode]
    split
    · trivial
    · apply runCodeBlock_pt
      intro r s2 h2 hm2
      simp only [Outcome.Sat, Adv, h2]
      exact ⟨hJ.congr _ _ hm2 hj, fun _ => ⟨Nat.le_refl _, fun _ => rfl⟩⟩
  | any id =>
    simp only [parseExprBody, parseAny]
    split
    · simp only [Outcome.Sat, Adv]
      exact ⟨hJ.congr _ _ (by simp) hj, fun hb => by cases hb⟩
    · rename_i hne
      have hw : s.pt.w ≠ 0 := fun h0 => hne (by simp [hreach.w0 h0, h0])
      apply Outcome.sat_mono (matchOne_adv s "." hw)
      · intro v ok s' ⟨hm, h⟩; exact ⟨hJ.congr _ _ hm hj, fun _ => ⟨by omega, fun heq => by omega⟩⟩
      · intro _ _; trivial
  | cls id c =>
    simp only [parseExprBody, parseCharClass]
    have hfail : (Outcome.done .nil false (failAt s false s.pt.pos c.val)).Sat
        (fun _ ok s' => J s' ∧ Adv rn (.cls id c) s ok s') (fun _ => True) := by
      simp only [Outcome.Sat, Adv]
      exact ⟨hJ.congr _ _ (by simp) hj, fun hb => by cases hb⟩
    have hmatch : s.pt.w ≠ 0 → (matchOne E s c.val).Sat (fun _ ok s' => J s' ∧ Adv rn (.cls id c) s ok s') (fun _ => True) := by
      intro hw
      apply Outcome.sat_mono (matchOne_adv s c.val hw)
      · intro v ok s' ⟨hm, h⟩; exact ⟨hJ.congr _ _ hm hj, fun _ => ⟨by omega, fun heq => by omega⟩⟩
      · intro _ _; trivial
    split
    · rename_i hbl
      have hlt : s.pt.rn < 128 := by
        simp only [Bool.and_eq_true, decide_eq_true_eq] at hbl; exact hbl.2
      have hw : s.pt.w ≠ 0 := by
        intro h0; have := hreach.w0 h0; rw [this] at hlt; simp [runeError] at hlt
      split
      · exact hmatch hw
      · exact hfail
    · split
      · exact hfail
      · rename_i hne
        have hw : s.pt.w ≠ 0 := fun h0 => hne (by simp [hreach.w0 h0, h0])
        split
        · exact hmatch hw
        · exact hfail
  | lit id val ic want =>
    simp only [parseExprBody]
    apply Outcome.sat_mono (lit_adv s.pt want ic val s)
    · intro v ok s' ⟨hm, h⟩
      refine ⟨hJ.congr _ _ hm hj, fun hok => ?_⟩
      obtain ⟨h1, h2⟩ := h hok
      exact ⟨h1, fun heq => by simp [Expr.nul, h2 heq]⟩
    · intro _ _; trivial
  | action id blk e1 =>
    simp only [parseExprBody, parseAction]
    apply Outcome.sat_bind (call e1 s hi hj)
    intro v ok s1 ⟨_, _, hj1, ha, _⟩
    cases ok with
    | false => simp only [Bool.false_eq_true, if_false, Outcome.Sat, Adv]; exact ⟨hj1, fun hb => by cases hb⟩
    | true =>
      simp only [if_true]
      split
      · trivial
      · simp only [Outcome.Sat, Adv]
        refine ⟨hJ.congr _ _ (by simp) hj1, fun _ => ?_⟩
        obtain ⟨h1, h2⟩ := ha rfl
        exact ⟨by simpa using h1, fun heq => h2 (by simpa using heq)⟩
  | and id e1 =>
    simp only [parseExprBody, parseAnd]
    apply Outcome.sat_bind (call e1 (pushV s) (hi.congr rfl rfl) hjp)
    intro v ok s1 ⟨_, _, hj1, _, _⟩
    simp only [Outcome.Sat, Adv]
    refine ⟨hJ.congr _ _ (by simp) hj1, fun _ => ?_⟩
    have : (restore (restoreState E (popV s1) s.state) s.pt).pt.pos.off = s.pt.pos.off := by simp
    exact ⟨by omega, fun _ => rfl⟩
  | not id e1 =>
    simp only [parseExprBody, parseNot]
    apply Outcome.sat_bind (call e1 { pushV s with maxFailInvert := !s.maxFailInvert } (hi.congr rfl rfl) (hJ.congr _ _ (by rfl) hj))
    intro v ok s1 ⟨_, _, hj1, _, _⟩
    simp only [Outcome.Sat, Adv]
    refine ⟨hJ.congr _ _ (by simp [popV]) hj1, fun _ => ?_⟩
    have : (restore (restoreState E (popV { s1 with maxFailInvert := !s1.maxFailInvert }) s.state) s.pt).pt.pos.off = s.pt.pos.off := by simp
    exact ⟨by omega, fun _ => rfl⟩
  | labeled id l e1 =>
    simp only [parseExprBody, parseLabeled]
    apply Outcome.sat_bind (call e1 (pushV s) (hi.congr rfl rfl) hjp)
    intro v ok s1 ⟨_, _, hj1, ha, _⟩
    simp only [Outcome.Sat, Adv]
    have hst : ∀ s2 : PState, s2 = (if (ok && decide (l ≠ "")) = true then setLabel (popV s1) l v else popV s1) →
        s2.pt = s1.pt ∧ s2.memo = s1.memo := by
      intro s2 hs2; subst hs2; split <;> simp
    obtain ⟨p1, p2⟩ := hst _ rfl
    refine ⟨hJ.congr _ _ p2 hj1, fun hok => ?_⟩
    obtain ⟨h1, h2⟩ := ha hok
    rw [p1]
    exact ⟨by simpa using h1, fun heq => h2 (by simpa using heq)⟩
  | zeroOrOne id e1 =>
    simp only [parseExprBody, parseZeroOrOne]
    apply Outcome.sat_bind (call e1 (pushV s) (hi.congr rfl rfl) hjp)
    intro v ok s1 ⟨_, _, hj1, ha, hfail⟩
    simp only [Outcome.Sat, Adv]
    refine ⟨hJ.congr _ _ (by simp) hj1, fun _ => ⟨?_, fun _ => rfl⟩⟩
    cases ok with
    | true => simpa using (ha rfl).1
    | false => have := hfail rfl; simp at this; simp [this]
  | recovery id e1 r labels =>
    simp only [parseExprBody, parseRecovery]
    apply Outcome.sat_bind (call e1 (pushRecovery s labels r) (hi.congr rfl (by simp)) (hJ.congr _ _ (by simp) hj))
    intro v ok s1 ⟨_, _, hj1, ha, _⟩
    simp only [Outcome.Sat, Adv]
    exact ⟨hJ.congr _ _ (by simp) hj1, fun hok => ⟨by simpa using (ha hok).1, fun _ => rfl⟩⟩
  | choice id line col alts =>
    simp only [parseExprBody]
    exact choice_adv hJ hmz hfr hrec line col alts 0 s hi hj
  | seq id es =>
    simp only [parseExprBody]
    exact seq_adv hJ hmz hfr hrec s.pt s.state es s [] hi hj
  | oneOrMore id e1 =>
    simp only [parseExprBody]
    apply Outcome.sat_mono (loop_adv hJ hmz hfr hrec e1 k s [] hi hj)
    · intro v ok s' ⟨hj', h1, h2⟩
      exact ⟨hj', fun hok => ⟨h1, fun heq => h2 hok rfl heq⟩⟩
    · intro _ _; trivial
  | zeroOrMore id e1 =>
    simp only [parseExprBody, parseZeroOrMore]
    apply Outcome.sat_bind (loop_adv hJ hmz hfr hrec e1 k s [] hi hj)
    intro v ok s1 ⟨hj1, h1, _⟩
    cases ok <;> simp only [Bool.false_eq_true, if_false, if_true, Outcome.Sat, Adv] <;> exact ⟨hj1, fun _ => ⟨h1, fun _ => rfl⟩⟩
  | throw id label =>
    simp only [parseExprBody]
    apply Outcome.sat_mono (throw_adv hmz hfr hrec label s.recoveryStack s hi hj)
    · intro v ok s' ⟨hj', h⟩; exact ⟨hj', fun hok => ⟨h hok, fun _ => rfl⟩⟩
    · intro _ _; trivial
  | ruleRef id name =>
    simp only [parseExprBody, parseRuleRef]
    split
    · trivial
    · cases hf : E.findRule name with
      | none => simp only [Outcome.Sat, Adv]; exact ⟨hJ.congr _ _ (by simp) hj, fun hb => by cases hb⟩
      | some r =>
        simp only []
        apply Outcome.sat_mono (hrule k name r s hf hi hj)
        · intro v ok s' ⟨hj', h⟩
          exact ⟨hj', fun hok => by obtain ⟨h1, h2⟩ := h hok; exact ⟨h1, fun heq => by simp [Expr.nul, h2 heq]⟩⟩
        · intro _ _; trivial

end

/-- **Progress.** In the plain configuration, for every grammar, code environment, input and depth: a successful
    evaluation ends at or after the position it started at, and if it ends where it started then the expression is
    nullable according to the static analysis (relative to any closed rule oracle `rn`). -/
theorem adv {E : Env} (hp : Plain E) {rn : String → Bool}
    (hrn : ∀ n r, E.findRule n = some r → r.expr.nul rn = true → rn n = true) :
    ∀ (f : Nat) (e : Expr) (s : PState), FInv E s →
      (parseExpr E f e s).Sat (fun _ ok s' => Adv rn e s ok s') (fun _ => True) := by
  have hJ : MemoInv (fun _ : PState => True) := ⟨fun _ _ _ _ => trivial⟩
  have key : ∀ (f : Nat) (e : Expr) (s : PState), FInv E s → True →
      (parseExpr E f e s).Sat (fun _ ok s' => True ∧ Adv rn e s ok s') (fun _ => True) := by
    intro f
    induction f with
    | zero => intro _ _ _ _; trivial
    | succ f ih =>
      intro e s hi _
      show (parseExprStep E (parseExpr E f) f e s).Sat _ _
      unfold parseExprStep
      split
      · trivial
      · have hrule : ∀ (k : Nat) (name : String) (r : Rule) (s : PState), E.findRule name = some r → FInv E s → True →
            (parseRuleWrap E (parseExpr E f) k r s).Sat
              (fun _ ok s' => True ∧ (ok = true → s.pt.pos.off ≤ s'.pt.pos.off ∧ (s'.pt.pos.off = s.pt.pos.off → rn name = true)))
              (fun _ => True) := by
          intro k name r s hf hi' _
          rw [ruleWrap_eq hp k name r hf]
          apply Outcome.sat_mono (rule_adv hJ hp.nomemo (parseExpr_frame E f) ih r s hi' trivial)
          · intro v ok s' ⟨_, h⟩
            exact ⟨trivial, fun hok => by obtain ⟨h1, h2⟩ := h hok; exact ⟨h1, fun heq => hrn name r hf (h2 heq)⟩⟩
          · intro _ _; trivial
        exact body_adv hJ hp.nomemo (parseExpr_frame E f) ih hrule f e (bump s) (hi.congr rfl rfl) trivial
  intro f e s hi
  apply Outcome.sat_mono (key f e s hi trivial)
  · intro v ok s' h; exact h.2
  · intro _ _; trivial

end RT
end PV
