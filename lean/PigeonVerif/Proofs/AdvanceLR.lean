/-
  Progress and nullability WITH left-recursion support (`-support-left-recursion`, Memoize off, no budget).

  The memo table now holds the seeds and results of the leader rules. Invariant `MA`: every rule entry respects progress
  (a successful entry ends at or after its offset, and where it started only if the rule is nullable). With it the
  generic `body_adv` of `Advance.lean` goes through; the seed-growing loop preserves it.
-/
import PigeonVerif.Proofs.Advance

namespace PV
namespace RT

/-- left-recursion template, Memoize off, no budget -/
structure LRCfg (E : Env) : Prop where
  lr : E.flags.leftRec = true
  nomemo : E.opts.memoize = false
  nobudget : E.opts.maxExpr = none

/-- the rules that run the seed-growing loop -/
def isLd (r : Rule) : Bool := r.leftRecursive && r.leader

theorem ruleWrap_lr {E : Env} (hc : LRCfg E) (rec : Expr → PState → Outcome) (k : Nat) (r : Rule) (s : PState) :
    parseRuleWrap E rec k r s = if isLd r = true then parseRuleLeader E rec k r s else parseRule E rec r s := by
  unfold parseRuleWrap isLd
  simp only [hc.lr, hc.nomemo]
  cases E.flags.optimize <;> cases r.leftRecursive <;> cases r.leader <;> simp

theorem findRule_nm {E : Env} {n : String} {r : Rule} (h : E.findRule n = some r) : r.name = n := by
  unfold Env.findRule at h
  have := List.find?_some h
  simpa using this

/-- every rule entry of the memo table respects progress -/
def MA (rn : String → Bool) (s : PState) : Prop :=
  ∀ ent ∈ s.memo, ∀ name, ent.1.2 = .rule name → ent.2.b = true →
    ent.1.1 ≤ ent.2.end.pos.off ∧ (ent.2.end.pos.off = ent.1.1 → rn name = true)

/-- the invariant threaded through the run: seeds respect progress, and the memo table only grows (it extends `m0`) -/
def LJ (rn : String → Bool) (m0 : List ((Nat × MemoKey) × MemoVal)) (s : PState) : Prop :=
  MA rn s ∧ ∃ new, s.memo = new ++ m0

theorem LJ.inv (rn : String → Bool) (m0 : List ((Nat × MemoKey) × MemoVal)) : MemoInv (LJ rn m0) :=
  ⟨fun _ _ h hj => by unfold LJ MA at *; rw [h]; exact hj⟩

theorem LJ.set {rn : String → Bool} {m0 : List ((Nat × MemoKey) × MemoVal)} {s : PState} (h : LJ rn m0 s) (pt : Savepoint)
    (name : String) (t : MemoVal)
    (ht : t.b = true → pt.pos.off ≤ t.end.pos.off ∧ (t.end.pos.off = pt.pos.off → rn name = true)) :
    LJ rn m0 (setMemoized s pt (.rule name) t) := by
  refine ⟨?_, ?_⟩
  · intro ent hent nm hk hb
    simp only [setMemoized, List.mem_cons] at hent
    rcases hent with rfl | hent
    · simp only [MemoKey.rule.injEq] at hk
      rw [← hk]; exact ht hb
    · exact h.1 ent hent nm hk hb
  · obtain ⟨new, hn⟩ := h.2
    exact ⟨((pt.pos.off, MemoKey.rule name), t) :: new, by simp [setMemoized, hn]⟩

section
variable {E : Env} {rec : Expr → PState → Outcome} {rn : String → Bool} {m0 : List ((Nat × MemoKey) × MemoVal)}
variable (hc : LRCfg E) (hfr : ∀ e s, FrameInv E s (rec e s))
  (hrn : ∀ n r, E.findRule n = some r → r.expr.nul rn = true → rn n = true)
  (hrec : ∀ e s, FInv E s → LJ rn m0 s → (rec e s).Sat (fun _ ok s' => LJ rn m0 s' ∧ Adv rn e s ok s') (fun _ => True))
include hc hfr hrn hrec

/-- the seed-growing loop: the seed always respects progress, and so does what the loop returns -/
theorem leaderLoop_adv {name : String} {r : Rule} (hf : E.findRule name = some r) (hname : r.name = name)
    (startMark : Savepoint) (hsm : Reach E.input startMark) :
    ∀ (k depth : Nat) (last : MemoVal) (lastErrs : List String) (s : PState), FInv E s → LJ rn m0 s →
      s.pt.pos.off = startMark.pos.off →
      (last.b = true → startMark.pos.off ≤ last.end.pos.off ∧ (last.end.pos.off = startMark.pos.off → rn name = true)) →
      (last.b = false → last.end.pos.off = startMark.pos.off) → Reach E.input last.end →
      (leaderLoop E rec r startMark k depth last lastErrs s).Sat
        (fun _ ok s' => LJ rn m0 s' ∧ (ok = true → startMark.pos.off ≤ s'.pt.pos.off ∧
          (s'.pt.pos.off = startMark.pos.off → rn name = true)))
        (fun _ => True)
  | 0, _, _, _, _, _, _, _, _, _, _ => by unfold leaderLoop; trivial
  | k + 1, depth, last, lastErrs, s, hi, hj, hoff, hlast, hlf, hlr => by
    unfold leaderLoop
    simp only []
    have hma_set : ∀ (t : PState), LJ rn m0 t → LJ rn m0 (setMemoized t startMark (.rule r.name) last) := by
      intro t ht
      exact ht.set startMark r.name last (fun hb => by rw [hname]; exact hlast hb)
    have hi1 : FInv E (setMemoized s startMark (.rule r.name) last) := by
      refine ⟨MemoOK.set hi.1 hlf, by simpa using hi.2.1, ?_⟩
      intro ent hent
      simp only [setMemoized, List.mem_cons] at hent
      rcases hent with rfl | hent
      · exact hlr
      · exact hi.2.2 ent hent
    have hr := rule_adv (LJ.inv rn m0) hc.nomemo hfr hrec r _ hi1 (hma_set s hj)
    have hf2 := rule_frame hfr r (setMemoized s startMark (.rule r.name) last) hi1.1
    revert hr hf2
    generalize parseRule E rec r (setMemoized s startMark (.rule r.name) last) = o
    cases o with
    | oof => intros; trivial
    | panic p s2 => intros; trivial
    | done v ok s2 =>
      intro ⟨hj2, hadv⟩ hf2
      simp only [Outcome.bind]
      have hi2 : FInv E s2 := hi1.of_framed hf2
      split
      · -- stop: the seed is the result
        simp only [Outcome.Sat]
        refine ⟨hma_set _ ((LJ.inv rn m0).congr _ _ (by simp) hj2), fun hb => ?_⟩
        have := hlast hb
        simpa using this
      · rename_i hcond
        have hok : ok = true := by
          cases ok with
          | true => rfl
          | false => simp at hcond
        subst hok
        obtain ⟨a1, a2⟩ := hadv rfl
        have hs1off : (setMemoized s startMark (.rule r.name) last).pt.pos.off = startMark.pos.off := by simpa using hoff
        rw [hs1off] at a1 a2
        apply leaderLoop_adv hf hname startMark hsm k (depth + 1) _ _ (restore s2 startMark)
          (FInv.congr' hi2 (restore_pt_reach _ _ hi2.2.1 hsm) (by simp)) ((LJ.inv rn m0).congr _ _ (by simp) hj2) (by simp)
        · intro _
          exact ⟨a1, fun heq => hrn name r hf (a2 heq)⟩
        · intro hb; cases hb
        · exact hi2.2.1


/-- a leader rule: answered from the table, or grown -/
theorem leader_adv {name : String} {r : Rule} (hf : E.findRule name = some r) (k : Nat) (s : PState) (hi : FInv E s)
    (hj : LJ rn m0 s) :
    (parseRuleLeader E rec k r s).Sat
      (fun _ ok s' => LJ rn m0 s' ∧ (ok = true → s.pt.pos.off ≤ s'.pt.pos.off ∧ (s'.pt.pos.off = s.pt.pos.off → rn name = true)))
      (fun _ => True) := by
  have hname : r.name = name := findRule_nm hf
  unfold parseRuleLeader
  cases hg : getMemoized s (.rule r.name) with
  | some res =>
    simp only [Outcome.Sat]
    refine ⟨(LJ.inv rn m0).congr _ _ (by simp) hj, fun hb => ?_⟩
    have := hj.1 _ (getMemoized_mem hg) r.name rfl hb
    rw [restore_off, ← hname]
    exact this
  | none =>
    simp only []
    exact leaderLoop_adv hc hfr hrn hrec hf hname s.pt hi.2.1 k 0 _ s.errs s hi hj rfl (fun hb => by cases hb) (fun _ => rfl) hi.2.1

/-- the rule dispatcher -/
theorem ruleWrap_adv (k : Nat) (name : String) (r : Rule) (s : PState) (hf : E.findRule name = some r) (hi : FInv E s)
    (hj : LJ rn m0 s) :
    (parseRuleWrap E rec k r s).Sat
      (fun _ ok s' => LJ rn m0 s' ∧ (ok = true → s.pt.pos.off ≤ s'.pt.pos.off ∧ (s'.pt.pos.off = s.pt.pos.off → rn name = true)))
      (fun _ => True) := by
  rw [ruleWrap_lr hc]
  split
  · exact leader_adv hc hfr hrn hrec hf k s hi hj
  · apply Outcome.sat_mono (rule_adv (LJ.inv rn m0) hc.nomemo hfr hrec r s hi hj)
    · intro v ok s' ⟨hj', h⟩
      exact ⟨hj', fun hok => by obtain ⟨h1, h2⟩ := h hok; exact ⟨h1, fun heq => hrn name r hf (h2 heq)⟩⟩
    · intro _ _; trivial

end

/-- **Progress with left recursion.** For every grammar, code environment, input and depth, in the left-recursion template
    without Memoize and budget: a successful evaluation never moves backwards, an expression that succeeds without
    consuming is nullable, and every seed / result in the memo table respects the same. -/
theorem advLR {E : Env} (hc : LRCfg E) {rn : String → Bool}
    (hrn : ∀ n r, E.findRule n = some r → r.expr.nul rn = true → rn n = true) :
    ∀ (m0 : List ((Nat × MemoKey) × MemoVal)) (f : Nat) (e : Expr) (s : PState), FInv E s → LJ rn m0 s →
      (parseExpr E f e s).Sat (fun _ ok s' => LJ rn m0 s' ∧ Adv rn e s ok s') (fun _ => True)
  | _, 0, _, _, _, _ => trivial
  | m0, f + 1, e, s, hi, hj => by
    show (parseExprStep E (parseExpr E f) f e s).Sat _ _
    unfold parseExprStep
    split
    · trivial
    · exact body_adv (LJ.inv rn m0) hc.nomemo (parseExpr_frame E f) (advLR hc hrn m0 f)
        (fun k name r s hf hi hj => ruleWrap_adv hc (parseExpr_frame E f) hrn (advLR hc hrn m0 f) k name r s hf hi hj)
        f e (bump s) (hi.congr rfl rfl) ((LJ.inv rn m0).congr _ _ (by rfl) hj)

end RT
end PV
