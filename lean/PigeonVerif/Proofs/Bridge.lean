/-
  The bridge between the analysis side and the runtime side.

  `lowerA` forgets what the analysis does not look at (node identifiers, code, class members, literal text). On the
  throw/recover-free fragment the static notions of the termination theorems (`Expr.nul`, `Expr.first`; `WFTerm.lean`)
  are the ones of the independent left-recursion specification of C07 (`Mid.Spec.nullE`, `Mid.Spec.firstCalls`), and
  the specification's nullable-rule fixpoint `Mid.Spec.nullRules` is a closed oracle.
-/
import PigeonVerif.Proofs.MidLemmas
import PigeonVerif.Proofs.Reach
import PigeonVerif.Proofs.WFTerm

namespace PV
open Mid

mutual
def lowerA : Expr → AExpr
  | .action _ _ e => .action false (lowerA e)
  | .andCode _ _ => .andCode
  | .notCode _ _ => .notCode
  | .stateCode _ _ => .stateCode
  | .and _ e => .and (lowerA e)
  | .not _ e => .not (lowerA e)
  | .any _ => .any
  | .cls _ _ => .cls false
  | .choice _ _ _ es => .choice false (lowerL es)
  | .labeled _ _ e => .labeled (lowerA e)
  | .lit _ v _ _ => .lit v.isEmpty
  | .oneOrMore _ e => .plus (lowerA e)
  | .zeroOrMore _ e => .star (lowerA e)
  | .zeroOrOne _ e => .opt (lowerA e)
  | .recovery _ e r _ => .recovery false (lowerA e) (lowerA r)
  | .ruleRef _ n => .ref false n
  | .seq _ es => .seq false (lowerL es)
  | .throw _ _ => .throw
def lowerL : List Expr → List AExpr
  | [] => []
  | e :: es => lowerA e :: lowerL es
end

mutual
/-- no throw, no recover -/
def Expr.noTR : Expr → Bool
  | .action _ _ e | .labeled _ _ e | .zeroOrOne _ e | .and _ e | .not _ e | .oneOrMore _ e | .zeroOrMore _ e => e.noTR
  | .choice _ _ _ es | .seq _ es => noTRL es
  | .recovery _ _ _ _ | .throw _ _ => false
  | .andCode _ _ | .notCode _ _ | .stateCode _ _ | .any _ | .cls _ _ | .lit _ _ _ _ | .ruleRef _ _ => true
def noTRL : List Expr → Bool
  | [] => true
  | e :: es => e.noTR && noTRL es
end

/-- the grammar as the analysis sees it -/
def lowerG (rules : List Rule) : AGrammar := rules.map (fun r => { name := r.name, expr := lowerA r.expr })

/-- the oracle given by a list of nullable rule names -/
def inList (N : List String) : String → Bool := fun n => N.contains n

/-- on well-shaped expressions (no throw / recover) the two nullability definitions agree -/
theorem nullE_lower (N : List String) : ∀ (sz : Nat) (e : Expr), e.size ≤ sz → e.noTR = true →
    Spec.nullE N (lowerA e) = e.nul (inList N) := by
  intro sz
  induction sz with
  | zero => intro e h _; have := RT.size_pos e; omega
  | succ sz ih =>
    intro e hsz hwf
    have hany : ∀ es : List Expr, (∀ e' ∈ es, e'.size ≤ sz) → noTRL es = true →
        Spec.nullE.nullAny N (lowerL es) = nulAny (inList N) es := by
      intro es
      induction es with
      | nil => intro _ _; rfl
      | cons x xs ihx =>
        intro hs hw
        simp only [noTRL, Bool.and_eq_true] at hw
        simp only [lowerL, Spec.nullE.nullAny, nulAny]
        rw [ih x (hs x List.mem_cons_self) hw.1, ihx (fun e' he' => hs e' (List.mem_cons_of_mem _ he')) hw.2]
    have hall : ∀ es : List Expr, (∀ e' ∈ es, e'.size ≤ sz) → noTRL es = true →
        Spec.nullE.nullAll N (lowerL es) = nulAll (inList N) es := by
      intro es
      induction es with
      | nil => intro _ _; rfl
      | cons x xs ihx =>
        intro hs hw
        simp only [noTRL, Bool.and_eq_true] at hw
        simp only [lowerL, Spec.nullE.nullAll, nulAll]
        rw [ih x (hs x List.mem_cons_self) hw.1, ihx (fun e' he' => hs e' (List.mem_cons_of_mem _ he')) hw.2]
    cases e with
    | recovery id e1 r1 labels => simp [Expr.noTR] at hwf
    | throw id label => simp [Expr.noTR] at hwf
    | action id blk e1 =>
      simp only [Expr.noTR] at hwf; simp only [Expr.size] at hsz
      simp only [lowerA, Spec.nullE, Expr.nul]; exact ih e1 (by omega) hwf
    | labeled id l e1 =>
      simp only [Expr.noTR] at hwf; simp only [Expr.size] at hsz
      simp only [lowerA, Spec.nullE, Expr.nul]; exact ih e1 (by omega) hwf
    | oneOrMore id e1 =>
      simp only [Expr.noTR] at hwf; simp only [Expr.size] at hsz
      simp only [lowerA, Spec.nullE, Expr.nul]; exact ih e1 (by omega) hwf
    | choice id l c es =>
      simp only [Expr.noTR] at hwf; simp only [Expr.size] at hsz
      simp only [lowerA, Spec.nullE, Expr.nul]
      exact hany es (fun e' he' => by have := size_mem he'; omega) hwf
    | seq id es =>
      simp only [Expr.noTR] at hwf; simp only [Expr.size] at hsz
      simp only [lowerA, Spec.nullE, Expr.nul]
      exact hall es (fun e' he' => by have := size_mem he'; omega) hwf
    | ruleRef id n => simp [lowerA, Spec.nullE, Expr.nul, inList]
    | lit id v ic w => simp [lowerA, Spec.nullE, Expr.nul]
    | andCode id blk => rfl
    | notCode id blk => rfl
    | stateCode id blk => rfl
    | and id e1 => rfl
    | not id e1 => rfl
    | any id => rfl
    | cls id c => rfl
    | zeroOrMore id e1 => rfl
    | zeroOrOne id e1 => rfl


/-- ... and so do the two first-set definitions (as sets) -/
theorem firstCalls_lower (N : List String) (m : String) : ∀ (sz : Nat) (e : Expr), e.size ≤ sz → e.noTR = true →
    (m ∈ Spec.firstCalls N (lowerA e) ↔ m ∈ e.first (inList N)) := by
  intro sz
  induction sz with
  | zero => intro e h _; have := RT.size_pos e; omega
  | succ sz ih =>
    intro e hsz hwf
    have hany : ∀ es : List Expr, (∀ e' ∈ es, e'.size ≤ sz) → noTRL es = true →
        (m ∈ Spec.firstCalls.callsAny N (lowerL es) ↔ m ∈ firstAny (inList N) es) := by
      intro es
      induction es with
      | nil => intro _ _; simp [lowerL, Spec.firstCalls.callsAny, firstAny]
      | cons x xs ihx =>
        intro hs hw
        simp only [noTRL, Bool.and_eq_true] at hw
        simp only [lowerL, Spec.firstCalls.callsAny, firstAny, mem_union, List.mem_append]
        rw [ih x (hs x List.mem_cons_self) hw.1, ihx (fun e' he' => hs e' (List.mem_cons_of_mem _ he')) hw.2]
    have hseq : ∀ es : List Expr, (∀ e' ∈ es, e'.size ≤ sz) → noTRL es = true →
        (m ∈ Spec.firstCalls.callsSeq N (lowerL es) ↔ m ∈ firstSeq (inList N) es) := by
      intro es
      induction es with
      | nil => intro _ _; simp [lowerL, Spec.firstCalls.callsSeq, firstSeq]
      | cons x xs ihx =>
        intro hs hw
        simp only [noTRL, Bool.and_eq_true] at hw
        have hx := hs x List.mem_cons_self
        simp only [lowerL, Spec.firstCalls.callsSeq, firstSeq]
        rw [nullE_lower N x.size x (Nat.le_refl _) hw.1]
        cases hn : x.nul (inList N) with
        | true =>
          simp only [if_true, mem_union, List.mem_append]
          rw [ih x hx hw.1, ihx (fun e' he' => hs e' (List.mem_cons_of_mem _ he')) hw.2]
        | false =>
          simp only [Bool.false_eq_true, if_false, List.append_nil]
          exact ih x hx hw.1
    cases e with
    | recovery id e1 r1 labels => simp [Expr.noTR] at hwf
    | throw id label => simp [Expr.noTR] at hwf
    | action id blk e1 =>
      simp only [Expr.noTR] at hwf; simp only [Expr.size] at hsz
      simp only [lowerA, Spec.firstCalls, Expr.first]; exact ih e1 (by omega) hwf
    | labeled id l e1 =>
      simp only [Expr.noTR] at hwf; simp only [Expr.size] at hsz
      simp only [lowerA, Spec.firstCalls, Expr.first]; exact ih e1 (by omega) hwf
    | and id e1 =>
      simp only [Expr.noTR] at hwf; simp only [Expr.size] at hsz
      simp only [lowerA, Spec.firstCalls, Expr.first]; exact ih e1 (by omega) hwf
    | not id e1 =>
      simp only [Expr.noTR] at hwf; simp only [Expr.size] at hsz
      simp only [lowerA, Spec.firstCalls, Expr.first]; exact ih e1 (by omega) hwf
    | zeroOrOne id e1 =>
      simp only [Expr.noTR] at hwf; simp only [Expr.size] at hsz
      simp only [lowerA, Spec.firstCalls, Expr.first]; exact ih e1 (by omega) hwf
    | oneOrMore id e1 =>
      simp only [Expr.noTR] at hwf; simp only [Expr.size] at hsz
      simp only [lowerA, Spec.firstCalls, Expr.first]; exact ih e1 (by omega) hwf
    | zeroOrMore id e1 =>
      simp only [Expr.noTR] at hwf; simp only [Expr.size] at hsz
      simp only [lowerA, Spec.firstCalls, Expr.first]; exact ih e1 (by omega) hwf
    | choice id l c es =>
      simp only [Expr.noTR] at hwf; simp only [Expr.size] at hsz
      simp only [lowerA, Spec.firstCalls, Expr.first]
      exact hany es (fun e' he' => by have := size_mem he'; omega) hwf
    | seq id es =>
      simp only [Expr.noTR] at hwf; simp only [Expr.size] at hsz
      simp only [lowerA, Spec.firstCalls, Expr.first]
      exact hseq es (fun e' he' => by have := size_mem he'; omega) hwf
    | ruleRef id n => simp [lowerA, Spec.firstCalls, Expr.first]
    | lit id v ic w => simp [lowerA, Spec.firstCalls, Expr.first]
    | andCode id blk => simp [lowerA, Spec.firstCalls, Expr.first]
    | notCode id blk => simp [lowerA, Spec.firstCalls, Expr.first]
    | stateCode id blk => simp [lowerA, Spec.firstCalls, Expr.first]
    | any id => simp [lowerA, Spec.firstCalls, Expr.first]
    | cls id c => simp [lowerA, Spec.firstCalls, Expr.first]


/-- well-shaped expressions have no throw / recover -/
theorem noTR_of_wfs (rn : String → Bool) : ∀ (sz : Nat) (e : Expr), e.size ≤ sz → e.wfs rn = true → e.noTR = true := by
  intro sz
  induction sz with
  | zero => intro e h _; have := RT.size_pos e; omega
  | succ sz ih =>
    intro e hsz hwf
    have hl : ∀ es : List Expr, (∀ e' ∈ es, e'.size ≤ sz) → wfsL rn es = true → noTRL es = true := by
      intro es
      induction es with
      | nil => intro _ _; rfl
      | cons x xs ihx =>
        intro hs hw
        simp only [wfsL, Bool.and_eq_true] at hw
        simp only [noTRL, Bool.and_eq_true]
        exact ⟨ih x (hs x List.mem_cons_self) hw.1, ihx (fun e' he' => hs e' (List.mem_cons_of_mem _ he')) hw.2⟩
    cases e <;> simp only [Expr.wfs, Bool.and_eq_true] at hwf <;> simp only [Expr.size] at hsz <;> simp only [Expr.noTR]
    all_goals first
      | exact ih _ (by omega) hwf
      | exact ih _ (by omega) hwf.2
      | exact hl _ (fun e' he' => by have := size_mem he'; omega) hwf
      | cases hwf

/-- nullability is monotone in the oracle -/
theorem nul_mono {rn rn' : String → Bool} (hr : ∀ n, rn n = true → rn' n = true) : ∀ (sz : Nat) (e : Expr), e.size ≤ sz →
    e.nul rn = true → e.nul rn' = true := by
  intro sz
  induction sz with
  | zero => intro e h _; have := RT.size_pos e; omega
  | succ sz ih =>
    intro e hsz hn
    have hany : ∀ es : List Expr, (∀ e' ∈ es, e'.size ≤ sz) → nulAny rn es = true → nulAny rn' es = true := by
      intro es
      induction es with
      | nil => intro _ h; exact h
      | cons x xs ihx =>
        intro hs h
        simp only [nulAny, Bool.or_eq_true] at h ⊢
        rcases h with h | h
        · exact Or.inl (ih x (hs x List.mem_cons_self) h)
        · exact Or.inr (ihx (fun e' he' => hs e' (List.mem_cons_of_mem _ he')) h)
    have hall : ∀ es : List Expr, (∀ e' ∈ es, e'.size ≤ sz) → nulAll rn es = true → nulAll rn' es = true := by
      intro es
      induction es with
      | nil => intro _ h; exact h
      | cons x xs ihx =>
        intro hs h
        simp only [nulAll, Bool.and_eq_true] at h ⊢
        exact ⟨ih x (hs x List.mem_cons_self) h.1, ihx (fun e' he' => hs e' (List.mem_cons_of_mem _ he')) h.2⟩
    cases e <;> simp only [Expr.nul] at hn ⊢ <;> simp only [Expr.size] at hsz
    all_goals first
      | exact ih _ (by omega) hn
      | exact hany _ (fun e' he' => by have := size_mem he'; omega) hn
      | exact hall _ (fun e' he' => by have := size_mem he'; omega) hn
      | exact hr _ hn
      | exact hn
      | rfl

/-! ### the nullable-rule fixpoint is closed -/

/-- one round: the rules whose body is nullable relative to `N` -/
def nullStep (rules : List Rule) (N : List String) : List String :=
  (rules.filter (fun r => r.expr.nul (inList N))).map (·.name)

def nullIter (rules : List Rule) : Nat → List String → List String
  | 0, N => N
  | k + 1, N =>
    let N' := nullStep rules N
    if N'.length = N.length then N else nullIter rules k N'

theorem filter_sublist_of_imp {α : Type} (p q : α → Bool) : ∀ (l : List α), (∀ x ∈ l, p x = true → q x = true) →
    (l.filter p).Sublist (l.filter q)
  | [], _ => List.Sublist.slnil
  | x :: xs, h => by
    have ih := filter_sublist_of_imp p q xs (fun y hy => h y (List.mem_cons_of_mem _ hy))
    simp only [List.filter_cons]
    cases hp : p x with
    | false =>
      simp only [Bool.false_eq_true, if_false]
      split
      · exact List.Sublist.cons _ ih
      · exact ih
    | true =>
      have hq := h x List.mem_cons_self hp
      simp only [hq, if_true]
      exact List.Sublist.cons₂ _ ih

theorem nullStep_mono (rules : List Rule) {N M : List String} (h : ∀ n, n ∈ N → n ∈ M) :
    (nullStep rules N).Sublist (nullStep rules M) := by
  unfold nullStep
  apply List.Sublist.map
  apply filter_sublist_of_imp
  intro r _ hr
  exact nul_mono (fun n hn => by simp only [inList, List.contains_iff_mem, decide_eq_true_eq] at hn ⊢; exact h n hn) _ _ (Nat.le_refl _) hr

theorem nullStep_len (rules : List Rule) (N : List String) : (nullStep rules N).length ≤ rules.length := by
  unfold nullStep; rw [List.length_map]; exact List.length_filter_le _ _

/-- the fixpoint iteration ends in a closed oracle -/
theorem nullIter_closed (rules : List Rule) : ∀ (k : Nat) (N : List String), N.Sublist (nullStep rules N) →
    rules.length + 1 ≤ N.length + k →
    ∀ r ∈ rules, r.expr.nul (inList (nullIter rules k N)) = true → (nullIter rules k N).contains r.name = true
  | 0, N, hs, hk => by
    have := hs.length_le
    have := nullStep_len rules N
    omega
  | k + 1, N, hs, hk => by
    intro r hr hn
    unfold nullIter at hn ⊢
    simp only [] at hn ⊢
    by_cases hl : (nullStep rules N).length = N.length
    · rw [if_pos hl] at hn ⊢
      have heq : N = nullStep rules N := hs.eq_of_length hl.symm
      rw [heq]
      simp only [nullStep, List.contains_iff_mem, List.mem_map, List.mem_filter]
      exact ⟨r, ⟨hr, hn⟩, rfl⟩
    · rw [if_neg hl] at hn ⊢
      have hlt : N.length < (nullStep rules N).length := by
        have := hs.length_le; omega
      exact nullIter_closed rules k (nullStep rules N) (nullStep_mono rules (fun n hn => hs.subset hn)) (by omega) r hr hn


/-! ### the specification's fixpoint is this iteration -/

theorem lowerG_length (rules : List Rule) : (lowerG rules).length = rules.length := by simp [lowerG]

theorem specStep_eq (rules : List Rule) (hT : ∀ r ∈ rules, r.expr.noTR = true) (N : List String) :
    ((lowerG rules).filter (fun r => Spec.nullE N r.expr)).map (·.name) = nullStep rules N := by
  unfold lowerG nullStep
  rw [List.filter_map, List.map_map]
  have : (fun r : Rule => (({ name := r.name, expr := lowerA r.expr } : ARule)).name) = fun r => r.name := rfl
  simp only [Function.comp_def]
  congr 1
  apply List.filter_congr
  intro r hr
  exact nullE_lower N r.expr.size r.expr (Nat.le_refl _) (hT r hr)

theorem specIter_eq (rules : List Rule) (hT : ∀ r ∈ rules, r.expr.noTR = true) : ∀ (k : Nat) (N : List String),
    Spec.nullRules.iter (lowerG rules) k N = nullIter rules k N
  | 0, _ => rfl
  | k + 1, N => by
    unfold Spec.nullRules.iter nullIter
    simp only []
    rw [specStep_eq rules hT N]
    split
    · rfl
    · exact specIter_eq rules hT k _

theorem specNull_eq (rules : List Rule) (hT : ∀ r ∈ rules, r.expr.noTR = true) :
    Spec.nullRules (lowerG rules) = nullIter rules (rules.length + 1) [] := by
  unfold Spec.nullRules
  rw [lowerG_length, specIter_eq rules hT]


/-! ### no same-position cycle in the specification's graph ⇒ the hypothesis of the termination theorem -/

theorem lookup_map_mem {α β : Type} (key : α → String) (val : α → β) : ∀ (l : List α) (v : String) (x : β),
    lookup v (l.map (fun a => (key a, val a))) = some x → ∃ a ∈ l, key a = v ∧ val a = x
  | [], _, _, h => by simp [lookup] at h
  | a :: as, v, x, h => by
    simp only [List.map_cons, lookup] at h
    split at h
    · rename_i hk
      cases h
      exact ⟨a, List.mem_cons_self, hk, rfl⟩
    · obtain ⟨b, hb, h1, h2⟩ := lookup_map_mem key val as v x h
      exact ⟨b, List.mem_cons_of_mem _ hb, h1, h2⟩

theorem lookup_map_nodup {α β : Type} (key : α → String) (val : α → β) : ∀ (l : List α), (l.map key).Nodup →
    ∀ r ∈ l, lookup (key r) (l.map (fun a => (key a, val a))) = some (val r)
  | [], _, r, hr => by cases hr
  | a :: as, hn, r, hr => by
    simp only [List.map_cons, List.nodup_cons] at hn
    simp only [List.map_cons, lookup]
    rcases List.mem_cons.mp hr with rfl | hr'
    · simp
    · have hne : key a ≠ key r := fun e => hn.1 (e ▸ List.mem_map_of_mem hr')
      rw [if_neg hne]
      exact lookup_map_nodup key val as hn.2 r hr'

namespace RT

/-- the specification's first graph, written over the runtime rules -/
theorem specGraph_lower (rules : List Rule) :
    Spec.specGraph (lowerG rules) = rules.map (fun r => (r.name,
      (Spec.firstCalls (Spec.nullRules (lowerG rules)) (lowerA r.expr)).filter (fun n => (lowerG rules).any (·.name = n)))) := by
  unfold Spec.specGraph
  simp only [lowerG, List.map_map, Function.comp_def]

theorem lowerG_any (rules : List Rule) (n : String) : (lowerG rules).any (·.name = n) = true ↔ n ∈ rules.map (·.name) := by
  simp only [lowerG, List.any_map, List.any_eq_true, Function.comp_def, decide_eq_true_eq, List.mem_map]

/-- **A grammar that the independent specification of C07 finds free of left recursion satisfies the hypothesis of the
    termination theorem** (plain configuration, distinct rule names, well-shaped bodies). -/
theorem spec_acyclic_wfg (E : Env) (hp : Plain E) (hnd : (E.rules.map (·.name)).Nodup)
    (hshape : ∀ r ∈ E.rules, r.expr.wfs (inList (Spec.nullRules (lowerG E.rules))) = true)
    (hspec : Spec.leftRec (lowerG E.rules) = false) :
    ∃ rank, WFG E (inList (Spec.nullRules (lowerG E.rules))) rank := by
  have hT : ∀ r ∈ E.rules, r.expr.noTR = true := fun r hr => noTR_of_wfs _ _ _ (Nat.le_refl _) (hshape r hr)
  have hg : GraphOK (Spec.specGraph (lowerG E.rules)) := by
    intro v t ht
    unfold succs at ht
    cases hl : lookup v (Spec.specGraph (lowerG E.rules)) with
    | none => rw [hl] at ht; simp at ht
    | some l =>
      rw [hl] at ht
      simp only [Option.getD_some] at ht
      rw [specGraph_lower] at hl
      obtain ⟨r, _, _, rfl⟩ := lookup_map_mem (fun r : Rule => r.name) _ E.rules v l hl
      have := (List.mem_filter.mp ht).2
      rw [specGraph_lower, List.map_map]
      exact (lowerG_any E.rules t).mp this
  have hkeys : (Spec.specGraph (lowerG E.rules)).map (·.1) = E.rules.map (·.name) := by
    rw [specGraph_lower, List.map_map]; rfl
  have hac : ∀ v ∈ (Spec.specGraph (lowerG E.rules)).map (·.1), v ∉ reachFrom (Spec.specGraph (lowerG E.rules)) v := by
    intro v hv hin
    rw [hkeys] at hv
    obtain ⟨r, hr, rfl⟩ := List.mem_map.mp hv
    unfold Spec.leftRec at hspec
    simp only [] at hspec
    rw [List.any_eq_false] at hspec
    have := hspec { name := r.name, expr := lowerA r.expr } (by simp only [lowerG, List.mem_map]; exact ⟨r, hr, rfl⟩)
    simp at this
    exact this hin
  refine ⟨fun n => if (lowerG E.rules).any (·.name = n) then (reachFrom (Spec.specGraph (lowerG E.rules)) n).length + 1 else 0,
    hp, ?_, ?_, ?_⟩
  · intro n r hf hn
    obtain ⟨hr, hname⟩ := findRule_mem hf
    rw [← hname]
    have := nullIter_closed E.rules (E.rules.length + 1) [] (List.nil_sublist _) (by simp) r hr
      (by rw [← specNull_eq E.rules hT]; exact hn)
    rw [← specNull_eq E.rules hT] at this
    exact this
  · intro n r hf
    exact hshape r (findRule_mem hf).1
  · intro n r hf m hm
    obtain ⟨hr, hname⟩ := findRule_mem hf
    have hdefn : (lowerG E.rules).any (·.name = n) = true := (lowerG_any E.rules n).mpr (by rw [← hname]; exact List.mem_map_of_mem hr)
    simp only [hdefn, if_true]
    by_cases hdefm : (lowerG E.rules).any (·.name = m) = true
    · simp only [hdefm, if_true]
      have he : m ∈ succs (Spec.specGraph (lowerG E.rules)) n := by
        unfold succs
        rw [specGraph_lower, ← hname, lookup_map_nodup (fun r : Rule => r.name) _ E.rules hnd r hr]
        simp only [Option.getD_some]
        exact List.mem_filter.mpr ⟨(firstCalls_lower _ m _ r.expr (Nat.le_refl _) (hT r hr)).mpr hm, hdefm⟩
      have := acyclic_rank _ hg hac he
      omega
    · simp only [hdefm, Bool.false_eq_true, if_false]
      omega

end RT

end PV
