/-
  A budget that is not exhausted is invisible (C16, last clause), for EVERY configuration: Memoize, left recursion, all
  template switches.

  The budget is read in exactly two places, `overBudget` (in `parseExpr`) and `hitsOverBudget` (a memo hit in
  `parseExprWrap`), and both answer by raising the panic `errMaxExprCnt`, which no construct of the interpreter catches: it
  reaches `parse` unchanged. So if the outcome of an evaluation under `MaxExpressions(n)` is NOT that panic, every budget test
  on the way answered "no" - and the evaluation is, step for step, the evaluation without a budget.
-/
import PigeonVerif.Model.Runtime

namespace PV
namespace RT

/-- the same parse without `MaxExpressions` -/
def withoutBudget (E : Env) : Env := { E with opts := { E.opts with maxExpr := none } }

/-- the outcome is the budget panic -/
def _root_.PV.Outcome.BP : Outcome → Prop
  | .panic (.err m) _ => m = errMaxExprCnt
  | _ => False

theorem not_bp_bind {o : Outcome} {k : Val → Bool → PState → Outcome} (h : ¬ (o.bind k).BP) : ¬ o.BP := by
  cases o with
  | oof => exact fun h' => h'
  | done v ok s => exact fun h' => h'
  | panic p s => exact h

/-- two continuations that agree whenever the first does not end in the budget panic -/
theorem bind_congr_bp {o : Outcome} {k k' : Val → Bool → PState → Outcome}
    (hk : ∀ v ok s, ¬ (k v ok s).BP → k' v ok s = k v ok s) (h : ¬ (o.bind k).BP) : o.bind k' = o.bind k := by
  cases o with
  | oof => rfl
  | panic p s => rfl
  | done v ok s => exact hk v ok s h

section
variable (E : Env)

@[simp] theorem noBudget_restoreState (s : PState) (st : Store) : restoreState (withoutBudget E) s st = restoreState E s st := rfl
@[simp] theorem noBudget_callBlock (blk : Nat) (s : PState) : callBlock (withoutBudget E) blk s = callBlock E blk s := rfl
@[simp] theorem noBudget_read (s : PState) : read (withoutBudget E) s = read E s := rfl
@[simp] theorem noBudget_addErr (s : PState) (m : String) : addErr (withoutBudget E) s m = addErr E s m := rfl
@[simp] theorem noBudget_addErrOpt (s : PState) (m : Option String) : addErrOpt (withoutBudget E) s m = addErrOpt E s m := rfl
@[simp] theorem noBudget_addErrAtOpt (s : PState) (m : Option String) (p : Pos) :
    addErrAtOpt (withoutBudget E) s m p = addErrAtOpt E s m p := rfl
@[simp] theorem noBudget_sliceFrom (s : PState) (p : Savepoint) : sliceFrom (withoutBudget E) s p = sliceFrom E s p := rfl
@[simp] theorem noBudget_litCur (ic : Bool) (s : PState) : litCur (withoutBudget E) ic s = litCur E ic s := rfl
@[simp] theorem noBudget_topIsLR (s : PState) : topIsLR (withoutBudget E) s = topIsLR E s := rfl
@[simp] theorem noBudget_useState : (withoutBudget E).useState = E.useState := rfl
@[simp] theorem noBudget_findRule (n : String) : (withoutBudget E).findRule n = E.findRule n := rfl
@[simp] theorem noBudget_matchOne (s : PState) (w : String) : matchOne (withoutBudget E) s w = matchOne E s w := rfl
@[simp] theorem noBudget_parseCharClass (c : ClassDesc) (s : PState) : parseCharClass (withoutBudget E) c s = parseCharClass E c s := rfl
@[simp] theorem noBudget_parseAny (s : PState) : parseAny (withoutBudget E) s = parseAny E s := rfl
@[simp] theorem noBudget_hits (s : PState) : hitsOverBudget (withoutBudget E) s = false := rfl
@[simp] theorem noBudget_over (s : PState) : overBudget (withoutBudget E) s = false := rfl

variable {E} {rec rec' : Expr → PState → Outcome}
variable (hrec : ∀ e s, ¬ (rec e s).BP → rec' e s = rec e s)
include hrec

theorem wrap_nb (e : Expr) (s : PState) (h : ¬ (parseExprWrap E rec e s).BP) :
    parseExprWrap (withoutBudget E) rec' e s = parseExprWrap E rec e s := by
  unfold parseExprWrap at h ⊢
  have hf : (withoutBudget E).flags = E.flags := rfl
  have hm : (withoutBudget E).opts.memoize = E.opts.memoize := rfl
  simp only [hf, hm, noBudget_topIsLR, noBudget_hits]
  split
  · next ho => simp only [ho, if_true] at h; exact hrec e s h
  · next ho =>
    simp only [ho, if_false, Bool.false_eq_true] at h
    split
    · next hmm =>
      simp only [hmm, if_true] at h
      cases hg : getMemoized s (.expr e.id) with
      | some res =>
        simp only [hg] at h ⊢
        by_cases hb : hitsOverBudget E (hit s) = true
        · simp only [hb, if_true] at h; exact absurd rfl h
        · simp [hb]
      | none =>
        simp only [hg] at h ⊢
        rw [hrec e s (not_bp_bind h)]
    · next hmm => simp only [hmm, if_false, Bool.false_eq_true] at h; exact hrec e s h

theorem seq_nb (pt : Savepoint) (st : Store) : ∀ (es : List Expr) (s : PState) (acc : List Val),
    ¬ (parseSeq E rec pt st es s acc).BP → parseSeq (withoutBudget E) rec' pt st es s acc = parseSeq E rec pt st es s acc
  | [], _, _, _ => rfl
  | e :: es, s, acc, h => by
    unfold parseSeq at h ⊢
    rw [wrap_nb hrec e s (not_bp_bind h)]
    refine bind_congr_bp (fun v ok s1 h1 => ?_) h
    cases ok with
    | true => simp only [if_true] at h1 ⊢; exact seq_nb pt st es s1 _ h1
    | false => rfl

theorem choice_nb (line col : Nat) : ∀ (alts : List Expr) (i : Nat) (s : PState),
    ¬ (parseChoice E rec line col alts i s).BP →
      parseChoice (withoutBudget E) rec' line col alts i s = parseChoice E rec line col alts i s
  | [], _, _, _ => rfl
  | a :: alts, i, s, h => by
    unfold parseChoice at h ⊢
    simp only [] at h ⊢
    rw [wrap_nb hrec a (pushV s) (not_bp_bind h)]
    refine bind_congr_bp (fun v ok s1 h1 => ?_) h
    cases ok with
    | true => rfl
    | false =>
      simp only [Bool.false_eq_true, if_false, noBudget_restoreState] at h1 ⊢
      exact choice_nb line col alts _ _ h1

theorem loop_nb (e : Expr) : ∀ (k : Nat) (s : PState) (acc : List Val),
    ¬ (parseLoop E rec e k s acc).BP → parseLoop (withoutBudget E) rec' e k s acc = parseLoop E rec e k s acc
  | 0, _, _, _ => rfl
  | k + 1, s, acc, h => by
    unfold parseLoop at h ⊢
    simp only [] at h ⊢
    rw [wrap_nb hrec e (pushV s) (not_bp_bind h)]
    refine bind_congr_bp (fun v ok s1 h1 => ?_) h
    cases ok with
    | true => simp only [if_true] at h1 ⊢; exact loop_nb e k _ _ h1
    | false => rfl

theorem throw_nb (label : String) : ∀ (frames : List (List (String × Expr))) (s : PState),
    ¬ (parseThrow E rec label frames s).BP → parseThrow (withoutBudget E) rec' label frames s = parseThrow E rec label frames s
  | [], _, _ => rfl
  | fr :: frs, s, h => by
    unfold parseThrow at h ⊢
    cases hl : lookup label fr with
    | none => simp only [hl] at h ⊢; exact throw_nb label frs s h
    | some r =>
      simp only [hl] at h ⊢
      rw [wrap_nb hrec r s (not_bp_bind h)]
      refine bind_congr_bp (fun v ok s1 h1 => ?_) h
      cases ok with
      | true => rfl
      | false => simp only [Bool.false_eq_true, if_false] at h1 ⊢; exact throw_nb label frs s1 h1

omit hrec in
theorem lit_nb (start : Savepoint) (want : String) (ic : Bool) : ∀ (rs : List Rune) (s : PState),
    parseLit (withoutBudget E) start want ic rs s = parseLit E start want ic rs s
  | [], _ => rfl
  | r :: rs, s => by
    simp only [parseLit, noBudget_litCur, noBudget_read]
    rw [lit_nb start want ic rs (read E s)]
    rfl

theorem rule_nb (r : Rule) (s : PState) (h : ¬ (parseRule E rec r s).BP) :
    parseRule (withoutBudget E) rec' r s = parseRule E rec r s := by
  unfold parseRule at h ⊢
  simp only [] at h ⊢
  rw [wrap_nb hrec r.expr _ (not_bp_bind h)]

theorem ruleMemoize_nb (r : Rule) (s : PState) (h : ¬ (parseRuleMemoize E rec r s).BP) :
    parseRuleMemoize (withoutBudget E) rec' r s = parseRuleMemoize E rec r s := by
  unfold parseRuleMemoize at h ⊢
  cases hg : getMemoized s (.rule r.name) with
  | some res => rfl
  | none =>
    simp only [hg] at h ⊢
    rw [rule_nb hrec r s (not_bp_bind h)]

theorem leaderLoop_nb (r : Rule) (startMark : Savepoint) :
    ∀ (k depth : Nat) (last : MemoVal) (lastErrs : List String) (s : PState),
      ¬ (leaderLoop E rec r startMark k depth last lastErrs s).BP →
      leaderLoop (withoutBudget E) rec' r startMark k depth last lastErrs s = leaderLoop E rec r startMark k depth last lastErrs s
  | 0, _, _, _, _, _ => rfl
  | k + 1, depth, last, lastErrs, s, h => by
    unfold leaderLoop at h ⊢
    simp only [] at h ⊢
    rw [rule_nb hrec r _ (not_bp_bind h)]
    refine bind_congr_bp (fun v ok s2 h1 => ?_) h
    simp only [noBudget_restoreState] at h1 ⊢
    split
    · rfl
    · next hc => simp only [hc, if_false] at h1; exact leaderLoop_nb r startMark k _ _ _ _ h1

theorem ruleWrap_nb (k : Nat) (r : Rule) (s : PState) (h : ¬ (parseRuleWrap E rec k r s).BP) :
    parseRuleWrap (withoutBudget E) rec' k r s = parseRuleWrap E rec k r s := by
  have hl : ¬ (parseRuleLeader E rec k r s).BP →
      parseRuleLeader (withoutBudget E) rec' k r s = parseRuleLeader E rec k r s := by
    intro h'
    unfold parseRuleLeader at h' ⊢
    cases hg : getMemoized s (.rule r.name) with
    | some res => rfl
    | none => simp only [hg] at h' ⊢; exact leaderLoop_nb hrec r _ k 0 _ _ s h'
  have hf : (withoutBudget E).flags = E.flags := rfl
  have hm : (withoutBudget E).opts.memoize = E.opts.memoize := rfl
  unfold parseRuleWrap at h ⊢
  simp only [hf, hm]
  repeat' split
  all_goals first
    | exact hl (by simp_all)
    | exact ruleMemoize_nb hrec r s (by simp_all)
    | exact rule_nb hrec r s (by simp_all)

omit hrec in
theorem runCodeBlock_nb (blk : Nat) (s : PState) (k k' : BlockResult → PState → Outcome) (hk : ∀ r s2, k' r s2 = k r s2) :
    runCodeBlock (withoutBudget E) blk s k' = runCodeBlock E blk s k := by
  unfold runCodeBlock
  simp only [noBudget_callBlock, noBudget_addErrOpt, hk]

theorem body_nb (k : Nat) (e : Expr) (s : PState) (h : ¬ (parseExprBody E rec k e s).BP) :
    parseExprBody (withoutBudget E) rec' k e s = parseExprBody E rec k e s := by
  have hw := wrap_nb (E := E) hrec
  cases e with
  | action id blk e1 =>
    simp only [parseExprBody, parseAction] at h ⊢
    rw [hw e1 s (not_bp_bind h)]
    refine bind_congr_bp (fun v ok s1 _ => ?_) h
    simp only [noBudget_callBlock, noBudget_restoreState, noBudget_addErrAtOpt, noBudget_sliceFrom]
  | andCode id blk =>
    simp only [parseExprBody, parseAndCode]
    exact runCodeBlock_nb blk s _ _ (fun r s2 => by simp)
  | notCode id blk =>
    simp only [parseExprBody, parseNotCode]
    exact runCodeBlock_nb blk s _ _ (fun r s2 => by simp)
  | stateCode id blk =>
    simp only [parseExprBody, parseStateCode, noBudget_useState]
    rw [runCodeBlock_nb blk s _ _ (fun r s2 => rfl)]
    rfl
  | and id e1 =>
    simp only [parseExprBody, parseAnd] at h ⊢
    rw [hw e1 (pushV s) (not_bp_bind h)]
    exact bind_congr_bp (fun v ok s1 _ => by simp) h
  | not id e1 =>
    simp only [parseExprBody, parseNot] at h ⊢
    rw [hw e1 _ (not_bp_bind h)]
    exact bind_congr_bp (fun v ok s1 _ => by simp) h
  | any id => simp [parseExprBody]
  | cls id c => simp [parseExprBody]
  | choice id line col alts => exact choice_nb hrec line col alts 0 s h
  | labeled id l e1 =>
    simp only [parseExprBody, parseLabeled] at h ⊢
    rw [hw e1 (pushV s) (not_bp_bind h)]
  | lit id val ic want => exact lit_nb _ _ _ _ _
  | oneOrMore id e1 => exact loop_nb hrec e1 k s [] h
  | zeroOrMore id e1 =>
    simp only [parseExprBody, parseZeroOrMore] at h ⊢
    rw [loop_nb hrec e1 k s [] (not_bp_bind h)]
  | zeroOrOne id e1 =>
    simp only [parseExprBody, parseZeroOrOne] at h ⊢
    rw [hw e1 (pushV s) (not_bp_bind h)]
  | recovery id e1 r labels =>
    simp only [parseExprBody, parseRecovery] at h ⊢
    rw [hw e1 _ (not_bp_bind h)]
  | ruleRef id name =>
    simp only [parseExprBody, parseRuleRef, noBudget_findRule, noBudget_addErr] at h ⊢
    split
    · rfl
    · cases hf : E.findRule name with
      | none => rfl
      | some r =>
        simp only [hf] at h ⊢
        rename_i hn
        simp only [hn, if_false] at h
        exact ruleWrap_nb hrec k r s h
  | seq id es => exact seq_nb hrec _ _ es s [] h
  | throw id label => exact throw_nb hrec label _ s h

end

/-- **an evaluation that does not end in the budget panic is the evaluation without a budget** -/
theorem parseExpr_nb (E : Env) : ∀ (f : Nat) (e : Expr) (s : PState),
    ¬ (parseExpr E f e s).BP → parseExpr (withoutBudget E) f e s = parseExpr E f e s
  | 0, _, _, _ => rfl
  | f + 1, e, s, h => by
    show parseExprStep (withoutBudget E) (parseExpr (withoutBudget E) f) f e s = parseExprStep E (parseExpr E f) f e s
    have h' : ¬ (parseExprStep E (parseExpr E f) f e s).BP := h
    unfold parseExprStep at h' ⊢
    simp only [noBudget_over, Bool.false_eq_true, if_false]
    by_cases hb : overBudget E (bump s) = true
    · simp only [hb, if_true] at h'; exact absurd rfl h'
    · simp only [hb, Bool.false_eq_true, if_false] at h' ⊢
      exact body_nb (parseExpr_nb E f) f e (bump s) h'

end RT
end PV
