/-
  Round trip of the class parser through a canonical spelling.

  `spell p` writes a class descriptor as the text  `[` `^`? (`\p{Name}`)* (`\UXXXXXXXX`)* (`\UXXXXXXXX-\UXXXXXXXX`)* `]` `i`? —
  every character and range bound as an eight-digit escape, so that no character of the descriptor can be mistaken for
  syntax. `parse_spell`: the model of `(*ast.CharClassMatcher).parse` reads it back as exactly `p`, for EVERY descriptor
  whose characters and range bounds are valid code points, whose single characters are not `-` and whose ranges do not start
  with `-` (without that hypothesis the statement is false: finding D3, the decoded `-` is taken for the range operator),
  and whose class names are non-empty ASCII without `}`.
-/
import PigeonVerif.Properties.C03Base

namespace PV
namespace ClassParse

/-! ### hexadecimal digits -/

def hexChar (d : Nat) : Nat := if d < 10 then 48 + d else 87 + d

theorem hexChar_ascii (d : Nat) (h : d < 16) : hexChar d < 128 := by
  unfold hexChar; split <;> omega

theorem unhex_hexChar (d : Nat) (h : d < 16) : unhex (hexChar d) = some d := by
  have : d = 0 ∨ d = 1 ∨ d = 2 ∨ d = 3 ∨ d = 4 ∨ d = 5 ∨ d = 6 ∨ d = 7 ∨ d = 8 ∨ d = 9 ∨ d = 10 ∨ d = 11 ∨ d = 12 ∨
      d = 13 ∨ d = 14 ∨ d = 15 := by omega
  rcases this with h | h | h | h | h | h | h | h | h | h | h | h | h | h | h | h <;> subst h <;> decide

/-- the eight hexadecimal digits of `r`, most significant first -/
def hex8 (r : Nat) : List Nat :=
  [hexChar (r / 268435456 % 16), hexChar (r / 16777216 % 16), hexChar (r / 1048576 % 16), hexChar (r / 65536 % 16),
   hexChar (r / 4096 % 16), hexChar (r / 256 % 16), hexChar (r / 16 % 16), hexChar (r % 16)]

theorem hexN_hex8 (r : Nat) (h : r < 4294967296) : hexN 8 (hex8 r) 0 = some r := by
  simp only [hex8, hexN, unhex_hexChar _ (Nat.mod_lt _ (by decide : 0 < 16))]
  congr 1
  omega

/-- `\UXXXXXXXX` -/
def escU (r : Rune) : List Nat := 92 :: 85 :: hex8 r

/-! ### reading ASCII -/

theorem readRune_ascii (b : Nat) (rest : List Nat) (h : b < 128) : readRune (b :: rest) = (b, rest) := by
  simp [readRune, decodeRune, h]

theorem encodeRune_ascii (b : Nat) (h : b < 128) : encodeRune b = [b] := by
  have : validRune b = true := by
    unfold validRune; simp only [Bool.or_eq_true, decide_eq_true_eq]; left; omega
  simp [encodeRune, this, h]

theorem validRune_lt (r : Nat) (h : validRune r = true) : r < 4294967296 := by
  unfold validRune at h
  simp only [Bool.or_eq_true, decide_eq_true_eq, Bool.and_eq_true] at h
  rcases h with h | ⟨_, h⟩ <;> omega

/-- one escaped character is decoded to that character -/
theorem decode_escU (f : Nat) (r : Rune) (rest : List Nat) (d : Dec) (hv : validRune r = true) :
    decode (f + 1) (escU r ++ rest) d = decode f rest { d with chars := d.chars ++ [(r, true)], pend := false } := by
  have hd : ∀ k, hexChar (r / k % 16) < 128 := fun k => hexChar_ascii _ (Nat.mod_lt _ (by decide))
  have hd0 : hexChar (r % 16) < 128 := hexChar_ascii _ (Nat.mod_lt _ (by decide))
  have hun : unquote (85 :: hex8 r) = r := by
    simp only [unquote]
    simp [hexN_hex8 r (validRune_lt r hv), hv]
  simp only [escU, hex8, List.cons_append, List.nil_append, decode]
  rw [readRune_ascii 92 _ (by decide)]
  simp only [ne_eq, not_true_eq_false, if_false]
  rw [readRune_ascii 85 _ (by decide)]
  simp only [show (85 : Nat) = 93 ↔ False by decide, show (85 : Nat) = 112 ↔ False by decide,
    show (85 : Nat) = 120 ↔ False by decide, show (85 : Nat) = 117 ↔ False by decide, if_false, if_true]
  simp only [readN, readRune_ascii _ _ (hd _), readRune_ascii _ _ hd0, encodeRune_ascii _ (hd _), encodeRune_ascii _ hd0,
    encodeRune_ascii 85 (by decide), List.append_assoc, List.cons_append, List.nil_append]
  have := hun
  simp only [hex8] at this
  rw [this]

/-- a plain dash is decoded to a dash -/
theorem decode_dash (f : Nat) (rest : List Nat) (d : Dec) :
    decode (f + 1) (45 :: rest) d = decode f rest { d with chars := d.chars ++ [(45, d.pend)], pend := false } := by
  simp only [decode]
  rw [readRune_ascii 45 _ (by decide)]
  simp

/-! ### the spelling -/

def spellChars : List Rune → List Nat
  | [] => []
  | c :: cs => escU c ++ spellChars cs

def spellRanges : List (Rune × Rune) → List Nat
  | [] => []
  | (lo, hi) :: rs => escU lo ++ 45 :: (escU hi ++ spellRanges rs)

theorem spellChars_length (cs : List Rune) : (spellChars cs).length = 10 * cs.length := by
  induction cs with
  | nil => rfl
  | cons c cs ih => simp [spellChars, escU, hex8, ih]; omega

theorem decode_chars (cs : List Rune) (hv : ∀ c ∈ cs, validRune c = true) (f : Nat) (rest : List Nat) (d : Dec) :
    decode (f + cs.length) (spellChars cs ++ rest) d =
      decode f rest { d with chars := d.chars ++ markChars cs, pend := d.pend && cs.isEmpty } := by
  induction cs generalizing d with
  | nil => simp [spellChars, markChars]
  | cons c cs ih =>
    simp only [spellChars, List.length_cons, List.append_assoc]
    rw [show f + (cs.length + 1) = (f + cs.length) + 1 by omega, decode_escU _ _ _ _ (hv c List.mem_cons_self)]
    rw [ih (fun x hx => hv x (List.mem_cons_of_mem _ hx))]
    simp [markChars]

theorem decode_ranges (rs : List (Rune × Rune)) (hv : ∀ p ∈ rs, validRune p.1 = true ∧ validRune p.2 = true)
    (f : Nat) (rest : List Nat) (d : Dec) :
    decode (f + 3 * rs.length) (spellRanges rs ++ rest) d =
      decode f rest { d with chars := d.chars ++ printRanges rs, pend := d.pend && rs.isEmpty } := by
  induction rs generalizing d with
  | nil => simp [spellRanges, printRanges]
  | cons p rs ih =>
    obtain ⟨lo, hi⟩ := p
    have h := hv (lo, hi) List.mem_cons_self
    simp only [spellRanges, List.length_cons, List.append_assoc, List.cons_append]
    rw [show f + 3 * (rs.length + 1) = (f + 3 * rs.length + 2) + 1 by omega, decode_escU _ _ _ _ h.1]
    rw [show f + 3 * rs.length + 2 = (f + 3 * rs.length + 1) + 1 by omega, decode_dash]
    rw [decode_escU _ _ _ _ h.2]
    rw [ih (fun x hx => hv x (List.mem_cons_of_mem _ hx))]
    simp [printRanges, dash]

/-! ### class names -/

def spellName (n : List Rune) : List Nat := 92 :: 112 :: 123 :: (n ++ [125])

def spellNames : List (List Rune) → List Nat
  | [] => []
  | n :: ns => spellName n ++ spellNames ns

/-- a name: ASCII, no `}` -/
def NameOK (n : List Rune) : Prop := ∀ c ∈ n, c < 128 ∧ c ≠ 125

theorem readName_ok (n : List Rune) (hn : NameOK n) (rest : List Nat) (acc : List Rune) (f : Nat) (hf : n.length < f) :
    readName f (n ++ 125 :: rest) acc = (acc ++ n, rest) := by
  induction n generalizing acc f with
  | nil =>
    cases f with
    | zero => simp at hf
    | succ f =>
      simp only [List.nil_append, readName]
      rw [readRune_ascii 125 _ (by decide)]
      simp
  | cons c n ih =>
    cases f with
    | zero => simp at hf
    | succ f =>
      have hc := hn c List.mem_cons_self
      simp only [List.cons_append, readName]
      rw [readRune_ascii c _ hc.1]
      simp only [hc.2, if_false]
      rw [ih (fun x hx => hn x (List.mem_cons_of_mem _ hx)) _ f (by simpa using hf)]
      simp

theorem decode_name (f : Nat) (n : List Rune) (hn : NameOK n) (rest : List Nat) (d : Dec) :
    decode (f + 1) (spellName n ++ rest) d =
      decode f rest { chars := markLast d.chars, classes := d.classes ++ [n], pend := true } := by
  simp only [spellName, List.cons_append, List.append_assoc, decode]
  rw [readRune_ascii 92 _ (by decide)]
  simp only [ne_eq, not_true_eq_false, if_false]
  rw [readRune_ascii 112 _ (by decide)]
  simp only [show (112 : Nat) = 93 ↔ False by decide, if_false, if_true]
  rw [readRune_ascii 123 _ (by decide)]
  simp only [if_true]
  simp only [List.nil_append]
  rw [readName_ok n hn rest [] (n ++ 125 :: rest).length (by simp)]
  simp

theorem decode_names (ns : List (List Rune)) (hn : ∀ n ∈ ns, NameOK n) (f : Nat) (rest : List Nat) (d : Dec)
    (hd : d.chars = []) :
    decode (f + ns.length) (spellNames ns ++ rest) d =
      decode f rest { chars := [], classes := d.classes ++ ns, pend := d.pend || !ns.isEmpty } := by
  induction ns generalizing d with
  | nil => cases d; simp_all [spellNames]
  | cons n ns ih =>
    simp only [spellNames, List.length_cons, List.append_assoc]
    rw [show f + (ns.length + 1) = (f + ns.length) + 1 by omega, decode_name _ _ (hn n List.mem_cons_self)]
    rw [ih (fun x hx => hn x (List.mem_cons_of_mem _ hx)) _ (by simp [hd, markLast])]
    simp

theorem decode_nil (f : Nat) (d : Dec) : decode f [] d = d := by
  cases f <;> rfl

/-- decoding more fuel than items: the loop simply ends at the end of the text -/
theorem decode_body (ns : List (List Rune)) (cs : List Rune) (rs : List (Rune × Rune))
    (hn : ∀ n ∈ ns, NameOK n) (hc : ∀ c ∈ cs, validRune c = true)
    (hr : ∀ p ∈ rs, validRune p.1 = true ∧ validRune p.2 = true) (extra : Nat) :
    decode (extra + 3 * rs.length + cs.length + ns.length) (spellNames ns ++ (spellChars cs ++ spellRanges rs))
      { chars := [], classes := [] } =
      { chars := markChars cs ++ printRanges rs, classes := ns, pend := (!ns.isEmpty && cs.isEmpty) && rs.isEmpty } := by
  rw [decode_names ns hn _ _ _ rfl, decode_chars cs hc]
  have := fun d => decode_ranges rs hr extra [] d
  simp only [List.append_nil] at this
  rw [this, decode_nil]
  simp

/-! ### the whole function -/

/-- the canonical spelling of a descriptor (`ranges` as pairs) -/
def spell (ic inv : Bool) (ns : List (List Rune)) (cs : List Rune) (rs : List (Rune × Rune)) : List Nat :=
  91 :: ((if inv then [94] else []) ++ (spellNames ns ++ (spellChars cs ++ spellRanges rs)) ++ 93 :: (if ic then [105] else []))

theorem spellNames_head (ns : List (List Rune)) (x : Nat) (rest : List Nat) (h : spellNames ns = x :: rest) : x = 92 := by
  cases ns with
  | nil => simp [spellNames] at h
  | cons n ns => simp [spellNames, spellName] at h; exact h.1.symm

theorem body_head (ns : List (List Rune)) (cs : List Rune) (rs : List (Rune × Rune)) (x : Nat) (rest : List Nat)
    (h : spellNames ns ++ (spellChars cs ++ spellRanges rs) = x :: rest) : x = 92 := by
  cases ns with
  | cons n ns => simp [spellNames, spellName] at h; exact h.1.symm
  | nil =>
    cases cs with
    | cons c cs => simp [spellNames, spellChars, escU] at h; exact h.1.symm
    | nil =>
      cases rs with
      | nil => simp [spellNames, spellChars, spellRanges] at h
      | cons p rs => obtain ⟨lo, hi⟩ := p; simp [spellNames, spellChars, spellRanges, escU] at h; exact h.1.symm

theorem body_length (ns : List (List Rune)) (cs : List Rune) (rs : List (Rune × Rune)) :
    3 * rs.length + cs.length + ns.length ≤ (spellNames ns ++ (spellChars cs ++ spellRanges rs)).length := by
  have h1 : ∀ ns : List (List Rune), ns.length ≤ (spellNames ns).length := by
    intro ns; induction ns with
    | nil => simp [spellNames]
    | cons n ns ih => simp [spellNames, spellName]; omega
  have h2 : ∀ rs : List (Rune × Rune), 3 * rs.length ≤ (spellRanges rs).length := by
    intro rs; induction rs with
    | nil => simp [spellRanges]
    | cons p rs ih => obtain ⟨lo, hi⟩ := p; simp [spellRanges, escU, hex8]; omega
  have h3 := spellChars_length cs
  have := h1 ns; have := h2 rs
  simp only [List.length_append]
  omega

theorem gl1 (a : Nat) (l : List Nat) (z : Nat) : (a :: (l ++ [z])).getLast? = some z := by
  rw [show a :: (l ++ [z]) = (a :: l) ++ [z] by simp]; exact List.getLast?_concat
theorem gl2 (a : Nat) (l : List Nat) (y z : Nat) : (a :: (l ++ [y, z])).getLast? = some z := by
  rw [show a :: (l ++ [y, z]) = (a :: (l ++ [y])) ++ [z] by simp]; exact List.getLast?_concat
theorem dl1 (a : Nat) (l : List Nat) (z : Nat) : (a :: (l ++ [z])).dropLast = a :: l := by
  rw [show a :: (l ++ [z]) = (a :: l) ++ [z] by simp]; exact List.dropLast_concat
theorem dl2 (a : Nat) (l : List Nat) (y z : Nat) : (a :: (l ++ [y, z])).dropLast = a :: (l ++ [y]) := by
  rw [show a :: (l ++ [y, z]) = (a :: (l ++ [y])) ++ [z] by simp]; exact List.dropLast_concat

/-- phase 1 of `parse` on a bracketed text whose body does not start with `^`: the suffix test, the two slicings, the
    inversion test - what is left for the decoding loop is exactly the body -/
theorem parse_shape (ic inv : Bool) (body : List Nat) (hhead : ∀ x rest, body = x :: rest → x = 92) :
    parse (91 :: ((if inv then [94] else []) ++ body ++ 93 :: (if ic then [105] else []))) =
      some (if body.isEmpty then { ignoreCase := ic, inverted := inv, chars := [], ranges := [], classes := [] }
            else { ignoreCase := ic, inverted := inv,
                   chars := (extract (decode body.length body { chars := [], classes := [] }).chars).1,
                   ranges := (extract (decode body.length body { chars := [], classes := [] }).chars).2,
                   classes := (decode body.length body { chars := [], classes := [] }).classes }) := by
  cases body with
  | nil =>
    cases ic <;> cases inv <;> simp [parse, List.getLast?_cons_cons]
  | cons x rest =>
    have hx := hhead x rest rfl
    subst hx
    cases ic <;> cases inv <;> simp [parse, gl1, gl2, dl1, dl2]

theorem body_nil (ns : List (List Rune)) (cs : List Rune) (rs : List (Rune × Rune))
    (h : spellNames ns ++ (spellChars cs ++ spellRanges rs) = []) : ns = [] ∧ cs = [] ∧ rs = [] := by
  cases ns with
  | cons n ns => simp [spellNames, spellName] at h
  | nil =>
    cases cs with
    | cons c cs => simp [spellNames, spellChars, escU] at h
    | nil =>
      cases rs with
      | nil => exact ⟨rfl, rfl, rfl⟩
      | cons p rs => obtain ⟨lo, hi⟩ := p; simp [spellNames, spellChars, spellRanges, escU] at h

/-- **C03 — class round trip, whole function.** For every descriptor (ignore-case flag, inverted flag, class names, single
    characters, ranges) with valid code points and well-formed names, the model of `(*ast.CharClassMatcher).parse` reads the
    canonical spelling back as exactly that descriptor - `-` among the characters and as a range bound included. -/
theorem parse_spell (ic inv : Bool) (ns : List (List Rune)) (cs : List Rune) (rs : List (Rune × Rune))
    (hn : ∀ n ∈ ns, NameOK n) (hc : ∀ c ∈ cs, validRune c = true)
    (hr : ∀ p ∈ rs, validRune p.1 = true ∧ validRune p.2 = true) :
    parse (spell ic inv ns cs rs) =
      some { ignoreCase := ic, inverted := inv, chars := cs, ranges := flat rs, classes := ns } := by
  generalize hb : spellNames ns ++ (spellChars cs ++ spellRanges rs) = body
  have hhead : ∀ x rest, body = x :: rest → x = 92 := fun x rest h => body_head ns cs rs x rest (hb.trans h)
  have hsp : spell ic inv ns cs rs = 91 :: ((if inv then [94] else []) ++ body ++ 93 :: (if ic then [105] else [])) := by
    unfold spell; rw [hb]
  rw [hsp, parse_shape ic inv body hhead]
  cases hbe : body with
  | nil =>
    rw [hbe] at hb
    obtain ⟨rfl, rfl, rfl⟩ := body_nil ns cs rs hb
    simp [flat]
  | cons x rest =>
    have hbody : decode body.length body { chars := [], classes := [] } =
        { chars := markChars cs ++ printRanges rs, classes := ns, pend := (!ns.isEmpty && cs.isEmpty) && rs.isEmpty } := by
      have hl := body_length ns cs rs
      rw [hb] at hl
      obtain ⟨extra, he⟩ : ∃ extra, body.length = extra + 3 * rs.length + cs.length + ns.length :=
        ⟨body.length - (3 * rs.length + cs.length + ns.length), by omega⟩
      rw [he, ← hb]
      exact decode_body ns cs rs hn hc hr extra
    have hext : extract (markChars cs ++ printRanges rs) = (cs, flat rs) := C03_class_extraction_roundtrip cs rs
    rw [← hbe, hbody]
    simp [hbe, hext]

/-- the hypotheses are met by ordinary classes (`[^\p{Greek}_0-9a-z]i` as a descriptor), and the spelling is read back -/
example : parse (spell true true [[71, 114, 101, 101, 107]] [95] [(48, 57), (97, 122)]) =
    some { ignoreCase := true, inverted := true, chars := [95], ranges := [48, 57, 97, 122], classes := [[71, 114, 101, 101, 107]] } := by
  decide

end ClassParse
end PV
