/-
  Round trip of the class parser, members in ANY order.

  `ClassRoundTrip.lean` reads back the spelling that writes the class names first, then the characters, then the ranges.
  A class as a user writes it (and as a printer of the AST writes it) interleaves them: `[a-c\p{Lu}_x-z\pN]`. Since the repair
  of finding D36 a Unicode class between two members no longer disturbs the range extraction, so the statement holds for every
  SEQUENCE of members - class names, characters, ranges in any order: the model of `(*ast.CharClassMatcher).parse` reads the
  spelling (every character and range bound as `\UXXXXXXXX`, the range operator plain, a class as `\p{Name}`) back as the
  characters in order, the ranges in order and the class names in order.
-/
import PigeonVerif.Proofs.ClassRoundTrip

namespace PV
namespace ClassParse

inductive Item where
  | cls (n : List Rune)
  | chr (c : Rune)
  | rng (lo hi : Rune)

def Item.ok : Item → Prop
  | .cls n => NameOK n
  | .chr c => validRune c = true
  | .rng lo hi => validRune lo = true ∧ validRune hi = true

def spellItem : Item → List Nat
  | .cls n => spellName n
  | .chr c => escU c
  | .rng lo hi => escU lo ++ 45 :: escU hi

def spellItems : List Item → List Nat
  | [] => []
  | it :: its => spellItem it ++ spellItems its

/-- what the decoding loop appends to the rune list for one member -/
def decItem : Item → List (Rune × Bool)
  | .cls _ => []
  | .chr c => [(c, true)]
  | .rng lo hi => [(lo, true), (dash, false), (hi, true)]

def decItems : List Item → List (Rune × Bool)
  | [] => []
  | it :: its => decItem it ++ decItems its

def itemChars : List Item → List Rune
  | [] => []
  | .chr c :: its => c :: itemChars its
  | _ :: its => itemChars its

def itemRanges : List Item → List Rune
  | [] => []
  | .rng lo hi :: its => lo :: hi :: itemRanges its
  | _ :: its => itemRanges its

def itemNames : List Item → List (List Rune)
  | [] => []
  | .cls n :: its => n :: itemNames its
  | _ :: its => itemNames its

/-- decoding steps a member takes -/
def cost : Item → Nat
  | .rng _ _ => 3
  | _ => 1

def costs : List Item → Nat
  | [] => 0
  | it :: its => cost it + costs its

/-! ### the decoding loop -/

/-- the rune list is empty or ends in a rune that is marked already: a class escape behind it changes nothing -/
def LastOK (l : List (Rune × Bool)) : Prop := l = [] ∨ ∃ init x, l = init ++ [(x, true)]

theorem markLast_snoc (init : List (Rune × Bool)) (x : Rune) (b : Bool) : markLast (init ++ [(x, b)]) = init ++ [(x, true)] := by
  induction init with
  | nil => rfl
  | cons a init ih =>
    cases hl : init ++ [(x, b)] with
    | nil => simp at hl
    | cons y rest =>
      have : (a :: init) ++ [(x, b)] = a :: y :: rest := by simp [hl]
      rw [this]
      simp only [markLast]
      rw [← hl, ih]
      simp

theorem markLast_ok {l : List (Rune × Bool)} (h : LastOK l) : markLast l = l := by
  rcases h with rfl | ⟨init, x, rfl⟩
  · rfl
  · exact markLast_snoc init x true

theorem lastOK_snoc (l : List (Rune × Bool)) (x : Rune) : LastOK (l ++ [(x, true)]) := Or.inr ⟨l, x, rfl⟩

theorem decode_item (f : Nat) (it : Item) (hok : it.ok) (rest : List Nat) (d : Dec) (hl : LastOK d.chars) :
    ∃ p, decode (f + cost it) (spellItem it ++ rest) d =
        decode f rest { chars := d.chars ++ decItem it, classes := d.classes ++ itemNames [it], pend := p } ∧
      LastOK (d.chars ++ decItem it) := by
  cases it with
  | cls n =>
    refine ⟨true, ?_, by simpa [decItem] using hl⟩
    simp only [cost, spellItem, decItem, itemNames, List.append_nil]
    rw [decode_name f n hok rest d, markLast_ok hl]
  | chr c =>
    refine ⟨false, ?_, lastOK_snoc _ _⟩
    simp only [cost, spellItem, decItem, itemNames, List.append_nil]
    rw [decode_escU f c rest d hok]
  | rng lo hi =>
    refine ⟨false, ?_, ?_⟩
    · simp only [cost, spellItem, decItem, itemNames, List.append_nil, List.append_assoc, List.cons_append]
      rw [show f + 3 = (f + 2) + 1 by omega, decode_escU _ lo _ d hok.1]
      rw [show f + 2 = (f + 1) + 1 by omega, decode_dash]
      rw [decode_escU _ hi _ _ hok.2]
      simp [dash]
    · have : d.chars ++ decItem (.rng lo hi) = (d.chars ++ [(lo, true), (dash, false)]) ++ [(hi, true)] := by
        simp [decItem]
      rw [this]; exact lastOK_snoc _ _

theorem decode_items : ∀ (its : List Item), (∀ it ∈ its, it.ok) → ∀ (f : Nat) (rest : List Nat) (d : Dec), LastOK d.chars →
    ∃ p, decode (f + costs its) (spellItems its ++ rest) d =
      decode f rest { chars := d.chars ++ decItems its, classes := d.classes ++ itemNames its, pend := p }
  | [], _, f, rest, d, _ => ⟨d.pend, by simp [costs, spellItems, decItems, itemNames]⟩
  | it :: its, hok, f, rest, d, hl => by
    obtain ⟨p1, h1, hl1⟩ := decode_item (f + costs its) it (hok it List.mem_cons_self) (spellItems its ++ rest) d hl
    obtain ⟨p2, h2⟩ := decode_items its (fun x hx => hok x (List.mem_cons_of_mem _ hx)) f rest
      { chars := d.chars ++ decItem it, classes := d.classes ++ itemNames [it], pend := p1 } hl1
    refine ⟨p2, ?_⟩
    simp only [costs, spellItems, List.append_assoc]
    rw [show f + (cost it + costs its) = (f + costs its) + cost it by omega, h1, h2]
    congr 2
    · simp [decItems]
    · cases it <;> simp [itemNames]

/-! ### the extraction -/

theorem run_escaped (s : St) (c : Rune) (rest : List (Rune × Bool)) (hin : s.inRange = false) :
    run s ((c, true) :: rest) = run { s with chars := s.chars ++ [c], wasRange := false } rest := by
  cases rest with
  | nil => simp [run, step_escaped s c true hin]
  | cons r rest => rw [run_append_nonlast _ _ _ (by simp), step_escaped s c false hin]

theorem run_items : ∀ (its : List Item) (s : St), s.inRange = false →
    ∃ w, run s (decItems its) =
      { chars := s.chars ++ itemChars its, ranges := s.ranges ++ itemRanges its, inRange := false, wasRange := w }
  | [], s, hin => ⟨s.wasRange, by cases s; simp_all [decItems, itemChars, itemRanges, run]⟩
  | .cls _ :: its, s, hin => by
    obtain ⟨w, h⟩ := run_items its s hin
    exact ⟨w, by simpa [decItems, decItem, itemChars, itemRanges] using h⟩
  | .chr c :: its, s, hin => by
    obtain ⟨w, h⟩ := run_items its { s with chars := s.chars ++ [c], wasRange := false } hin
    refine ⟨w, ?_⟩
    simp only [decItems, decItem, List.cons_append, List.nil_append, itemChars, itemRanges]
    rw [run_escaped s c _ hin, h]
    simp
  | .rng lo hi :: its, s, hin => by
    obtain ⟨w, h⟩ := run_items its { chars := s.chars, ranges := s.ranges ++ [lo, hi], inRange := false, wasRange := true } rfl
    refine ⟨w, ?_⟩
    simp only [decItems, decItem, List.cons_append, List.nil_append, itemChars, itemRanges]
    rw [run_range s lo hi _ hin, h]
    simp

theorem extract_items (its : List Item) : extract (decItems its) = (itemChars its, itemRanges its) := by
  unfold extract
  obtain ⟨w, h⟩ := run_items its { chars := [], ranges := [], inRange := false, wasRange := false } rfl
  simp only [] at h ⊢
  rw [h]
  simp

/-! ### the whole function -/

def spell2 (ic inv : Bool) (its : List Item) : List Nat :=
  91 :: ((if inv then [94] else []) ++ spellItems its ++ 93 :: (if ic then [105] else []))

theorem spellItems_head : ∀ (its : List Item) (x : Nat) (rest : List Nat), spellItems its = x :: rest → x = 92
  | [], _, _, h => by simp [spellItems] at h
  | it :: its, x, rest, h => by
    cases it <;> simp [spellItems, spellItem, spellName, escU] at h <;> exact h.1.symm

theorem costs_le_length : ∀ (its : List Item), costs its ≤ (spellItems its).length
  | [] => by simp [costs, spellItems]
  | it :: its => by
    have := costs_le_length its
    cases it <;> simp [costs, cost, spellItems, spellItem, spellName, escU, hex8] <;> omega

theorem spellItems_nil : ∀ (its : List Item), spellItems its = [] → its = []
  | [], _ => rfl
  | it :: its, h => by cases it <;> simp [spellItems, spellItem, spellName, escU] at h

/-- **C03 - class round trip, members in any order.** For every sequence of members - Unicode class names, single
    characters, ranges, interleaved in any way - with valid code points and well-formed names, and both flags: the model of
    `(*ast.CharClassMatcher).parse` reads the spelling back as the characters in their order, the ranges in their order and
    the class names in their order. (A `-` among the characters or as a range bound included; a class between two
    members included: repair of findings D3 and D36.) -/
theorem parse_spell2 (ic inv : Bool) (its : List Item) (hok : ∀ it ∈ its, it.ok) :
    parse (spell2 ic inv its) =
      some { ignoreCase := ic, inverted := inv, chars := itemChars its, ranges := itemRanges its, classes := itemNames its } := by
  unfold spell2
  rw [parse_shape ic inv (spellItems its) (spellItems_head its)]
  cases hbe : spellItems its with
  | nil =>
    have := spellItems_nil its hbe
    subst this
    simp [itemChars, itemRanges, itemNames]
  | cons x rest =>
    rw [← hbe]
    have hlen := costs_le_length its
    obtain ⟨extra, he⟩ : ∃ extra, (spellItems its).length = extra + costs its := ⟨(spellItems its).length - costs its, by omega⟩
    obtain ⟨p, hd⟩ := decode_items its hok extra [] { chars := [], classes := [] } (Or.inl rfl)
    simp only [List.append_nil, List.nil_append] at hd
    rw [he, hd, decode_nil]
    have hne : (spellItems its).isEmpty = false := by rw [hbe]; rfl
    simp [hne, extract_items]

end ClassParse
end PV
