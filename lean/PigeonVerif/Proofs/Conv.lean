/-
  Convergence lemmas for the termination proofs, over an abstract context: an invariant `I` of the states, a measure `M`
  that never grows along a call and stays equal only if the call consumed nothing, and what is known after a call that
  returned (`ConvCtx.call`). `WFTerm.lean` is the instance "plain configuration, M = input left"; `LRTerm.lean` is the
  instance "left-recursion template, M = (input left, leaders not yet seeded at this offset)".
-/
import PigeonVerif.Proofs.WFTerm

namespace PV
namespace RT

structure ConvCtx (E : Env) (rn : String → Bool) (I : PState → Prop) (M : PState → Nat) : Prop where
  nomemo : E.opts.memoize = false
  nobudget : E.opts.maxExpr = none
  icongr : ∀ (s s' : PState), I s → s'.pt = s.pt → s'.memo = s.memo → I s'
  mcongr : ∀ (s s' : PState), s'.pt.pos.off = s.pt.pos.off → s'.memo = s.memo → M s' = M s
  call : ∀ (f : Nat) (e : Expr) (s s1 : PState) (v : Val) (ok : Bool), I s → parseExpr E f e s = .done v ok s1 →
    I s1 ∧ (ok = true → s.pt.pos.off ≤ s1.pt.pos.off ∧ (s1.pt.pos.off = s.pt.pos.off → e.nul rn = true)) ∧
    (ok = false → s1.pt.pos.off = s.pt.pos.off) ∧ M s1 ≤ M s ∧ (M s1 = M s → s1.pt.pos.off = s.pt.pos.off)

section
variable {E : Env} {rn : String → Bool} {I : PState → Prop} {M : PState → Nat} (C : ConvCtx E rn I M)
variable (P : String → Prop)
include C

theorem wrapC (f : Nat) (e : Expr) (s : PState) : parseExprWrap E (parseExpr E f) e s = parseExpr E f e s :=
  wrap_eq C.nomemo e s

theorem seqC (n : Nat) (pt : Savepoint) (st : Store) : ∀ (es : List Expr),
    (∀ e ∈ es, ∀ s', I s' → M s' ≤ n → (M s' = n → ∀ m ∈ e.first rn, P m) → T E e s') →
    ∀ (s : PState) (acc : List Val), I s → M s ≤ n → (M s = n → ∀ m ∈ firstSeq rn es, P m) →
      ∃ F, parseSeq E (parseExpr E F) pt st es s acc ≠ .oof
  | [], _, s, acc, _, _, _ => ⟨0, by simp [parseSeq]⟩
  | e :: es, hT, s, acc, hi, hrem, hfirst => by
    obtain ⟨f1, h1⟩ := hT e List.mem_cons_self s hi hrem
      (fun hn m hm => hfirst hn m (by simp only [firstSeq, List.mem_append]; exact Or.inl hm))
    cases ho : parseExpr E f1 e s with
    | oof => exact absurd ho h1
    | panic p s1 => exact ⟨f1, by unfold parseSeq; rw [wrapC C, ho]; simp [Outcome.bind]⟩
    | done v ok s1 =>
      cases ok with
      | false => exact ⟨f1, by unfold parseSeq; rw [wrapC C, ho]; simp [Outcome.bind]⟩
      | true =>
        obtain ⟨hi1, hadv, _, hle, heq⟩ := C.call f1 e s s1 v true hi ho
        obtain ⟨_, a2⟩ := hadv rfl
        obtain ⟨F2, h2⟩ := seqC n pt st es (fun e' he' => hT e' (List.mem_cons_of_mem _ he')) s1 (v :: acc) hi1
          (Nat.le_trans hle hrem)
          (fun hn m hm => by
            have hs : M s = n := by omega
            have hnul := a2 (heq (by omega))
            exact hfirst hs m (by simp only [firstSeq, List.mem_append, hnul, if_true]; exact Or.inr hm))
        refine ⟨max f1 F2, ?_⟩
        unfold parseSeq
        rw [wrapC C, lift (Nat.le_max_left f1 F2) ho (by simp)]
        simp only [Outcome.bind, if_true]
        rw [seq_ext (parseExpr_mono E (Nat.le_max_right f1 F2)) pt st es s1 (v :: acc) h2]
        exact h2

theorem choiceC (n : Nat) (line col : Nat) : ∀ (alts : List Expr),
    (∀ e ∈ alts, ∀ s', I s' → M s' ≤ n → (M s' = n → ∀ m ∈ e.first rn, P m) → T E e s') →
    ∀ (i : Nat) (s : PState), I s → M s ≤ n → (M s = n → ∀ m ∈ firstAny rn alts, P m) →
      ∃ F, parseChoice E (parseExpr E F) line col alts i s ≠ .oof
  | [], _, i, s, _, _, _ => ⟨0, by simp [parseChoice]⟩
  | a :: alts, hT, i, s, hi, hrem, hfirst => by
    have hip : I (pushV s) := C.icongr s _ hi rfl rfl
    have hmp : M (pushV s) = M s := C.mcongr s _ rfl rfl
    obtain ⟨f1, h1⟩ := hT a List.mem_cons_self (pushV s) hip (by omega)
      (fun hn m hm => hfirst (by omega) m (by simp only [firstAny, List.mem_append]; exact Or.inl hm))
    cases ho : parseExpr E f1 a (pushV s) with
    | oof => exact absurd ho h1
    | panic p s1 => exact ⟨f1, by unfold parseChoice; simp only []; rw [wrapC C, ho]; simp [Outcome.bind]⟩
    | done v ok s1 =>
      cases ok with
      | true => exact ⟨f1, by unfold parseChoice; simp only []; rw [wrapC C, ho]; simp [Outcome.bind]⟩
      | false =>
        obtain ⟨hi1, _, _, hle, _⟩ := C.call f1 a (pushV s) s1 v false hip ho
        have hi2 : I (restoreState E (popV s1) s.state) := C.icongr s1 _ hi1 (by simp) (by simp)
        have hm2 : M (restoreState E (popV s1) s.state) = M s1 := C.mcongr s1 _ (by simp) (by simp)
        obtain ⟨F2, h2⟩ := choiceC n line col alts (fun e' he' => hT e' (List.mem_cons_of_mem _ he')) (i + 1)
          (restoreState E (popV s1) s.state) hi2 (by omega)
          (fun hn m hm => hfirst (by omega) m (by simp only [firstAny, List.mem_append]; exact Or.inr hm))
        refine ⟨max f1 F2, ?_⟩
        unfold parseChoice
        simp only []
        rw [wrapC C, lift (Nat.le_max_left f1 F2) ho (by simp)]
        simp only [Outcome.bind, Bool.false_eq_true, if_false]
        rw [choice_ext (parseExpr_mono E (Nat.le_max_right f1 F2)) line col alts (i + 1) _ h2]
        exact h2

omit P in
/-- a repetition over a non-nullable body: every round consumes input, so the measure drops -/
theorem loopC (e : Expr) (hnn : e.nul rn = false) (n0 : Nat) (hT : ∀ s', I s' → M s' ≤ n0 → T E e s') :
    ∀ (r : Nat) (s : PState) (acc : List Val), I s → M s ≤ r → r ≤ n0 →
      ∃ F, parseLoop E (parseExpr E F) e F s acc ≠ .oof := by
  intro r
  induction r using Nat.strongRecOn with
  | _ r ih =>
    intro s acc hi hrem hr0
    have hip : I (pushV s) := C.icongr s _ hi rfl rfl
    have hmp : M (pushV s) = M s := C.mcongr s _ rfl rfl
    obtain ⟨f1, h1⟩ := hT (pushV s) hip (by omega)
    cases ho : parseExpr E f1 e (pushV s) with
    | oof => exact absurd ho h1
    | panic p s1 =>
      refine ⟨f1 + 1, ?_⟩
      unfold parseLoop; simp only []
      rw [wrapC C, lift (Nat.le_succ f1) ho (by simp)]; simp [Outcome.bind]
    | done v ok s1 =>
      cases ok with
      | false =>
        refine ⟨f1 + 1, ?_⟩
        unfold parseLoop; simp only []
        rw [wrapC C, lift (Nat.le_succ f1) ho (by simp)]
        simp only [Outcome.bind, Bool.false_eq_true, if_false]
        split <;> simp
      | true =>
        obtain ⟨hi1, hadv, _, hle, heq⟩ := C.call f1 e (pushV s) s1 v true hip ho
        obtain ⟨_, a2⟩ := hadv rfl
        have hlt : M s1 < M (pushV s) := by
          rcases Nat.lt_or_ge (M s1) (M (pushV s)) with hl | hg
          · exact hl
          · have := a2 (heq (by omega))
            rw [hnn] at this; cases this
        have hi2 : I (popV s1) := C.icongr s1 _ hi1 (by simp) (by simp)
        have hm2 : M (popV s1) = M s1 := C.mcongr s1 _ (by simp) (by simp)
        obtain ⟨F2, h2⟩ := ih (M (popV s1)) (by omega) (popV s1) (v :: acc) hi2 (Nat.le_refl _) (by omega)
        refine ⟨max f1 F2 + 1, ?_⟩
        unfold parseLoop; simp only []
        rw [wrapC C, lift (Nat.le_trans (Nat.le_max_left f1 F2) (Nat.le_succ _)) ho (by simp)]
        simp only [Outcome.bind, if_true]
        rw [loop_ext (parseExpr_mono E (Nat.le_trans (Nat.le_max_right f1 F2) (Nat.le_succ _))) e F2 (max f1 F2)
          (popV s1) (v :: acc) (Nat.le_max_right f1 F2) h2]
        exact h2

omit P in
/-- one sub-call followed by a continuation that never runs out of fuel -/
theorem oneC {e1 : Expr} {s1 : PState} (hT : T E e1 s1) (k : Val → Bool → PState → Outcome)
    (hk : ∀ v ok s2, k v ok s2 ≠ .oof) :
    ∃ F, (parseExprWrap E (parseExpr E F) e1 s1).bind k ≠ .oof := by
  obtain ⟨f1, h1⟩ := hT
  exact ⟨f1, by rw [wrapC C]; exact bind_ne_oof h1 (fun v ok s _ => hk v ok s)⟩

omit P in
theorem T_of_bodyC {e : Expr} {s : PState} (hB : ∃ F, parseExprBody E (parseExpr E F) F e (bump s) ≠ .oof) : T E e s := by
  obtain ⟨F, hF⟩ := hB
  refine ⟨F + 1, ?_⟩
  show parseExprStep E (parseExpr E F) F e s ≠ .oof
  unfold parseExprStep
  have : overBudget E (bump s) = false := by unfold overBudget; rw [C.nobudget]
  rw [this]
  simpa using hF

end

end RT
end PV
