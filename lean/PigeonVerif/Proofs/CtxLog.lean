/-
  Every code block sees a piece of the input: in every state the interpreter passes through - every grammar, code
  environment, flag and option set (memoization, left recursion, a budget), input and fuel - the context `(c.pos, c.text)`
  that the next block call will be given, and the context of every block call recorded so far, satisfy

      text = the bytes of the input from offset pos.offset, as many as text is long

  (`CtxOK`). The only writer of `cur.pos` / `cur.text` is `parseActionExpr`, which sets them to the match start and to
  `sliceFrom` of the input; predicate and state blocks inherit what the last action left (finding D2), which is still a
  slice of the input at that position; before the first action both are zero / empty. The statement about line and column
  (`C02_pos_pure`) is separate: it needs the reader invariant.
-/
import PigeonVerif.Proofs.Frame

namespace PV

/-- `text` is the input at offset `pos.off` -/
def CtxOK (inp : List Nat) (pos : Pos) (text : List Nat) : Prop := text = (inp.drop pos.off).take text.length

theorem take_min_length {α : Type} (l : List α) (n : Nat) : l.take (min n l.length) = l.take n := by
  by_cases h : n ≤ l.length
  · rw [Nat.min_eq_left h]
  · have h' : l.length ≤ n := by omega
    rw [Nat.min_eq_right h', List.take_of_length_le (Nat.le_refl _), List.take_of_length_le h']

theorem CtxOK.slice (inp : List Nat) (pos : Pos) (n : Nat) : CtxOK inp pos ((inp.drop pos.off).take n) := by
  unfold CtxOK
  rw [List.length_take, take_min_length]

theorem CtxOK.nil (inp : List Nat) (pos : Pos) : CtxOK inp pos [] := by simp [CtxOK]

namespace RT

set_option autoImplicit true

frame_lemmas (hit s) unfolding hit : curPos curText end
frame_lemmas (pushV s) unfolding pushV : curPos curText end
frame_lemmas (popV s) unfolding popV : curPos curText end
frame_lemmas (pushRecovery s l r) unfolding pushRecovery : curPos curText end
frame_lemmas (popRecovery s) unfolding popRecovery : curPos curText end
frame_lemmas (setLabel s l v) unfolding setLabel : curPos curText end
frame_lemmas (addErrAt E s m p) unfolding addErrAt : curPos curText end
frame_lemmas (addErr E s m) unfolding addErr addErrAt : curPos curText end
frame_lemmas (addErrAtOpt E s o p) unfolding addErrAtOpt addErrAt : curPos curText end
frame_lemmas (addErrOpt E s o) unfolding addErrOpt addErrAtOpt addErrAt : curPos curText end
frame_lemmas (failAt s b p w) unfolding failAt failAtCore : curPos curText end
frame_lemmas (restore s p) unfolding restore : curPos curText end
frame_lemmas (restoreState E s st) unfolding restoreState : curPos curText end
frame_lemmas (setMemoized s p k t) unfolding setMemoized : curPos curText end
frame_lemmas (incChoiceAlt s l c a) unfolding incChoiceAlt : curPos curText end
frame_lemmas (read E s) unfolding read addErr addErrAt : curPos curText end
frame_lemmas (callBlock E b s).2 unfolding callBlock : curPos curText end

set_option autoImplicit false

/-- the three fields the invariant is about -/
def ck (s : PState) : Pos × List Nat × List Event := (s.curPos, s.curText, s.trace)

/-- **the invariant**: the pending context and every recorded one are slices of the input at their position -/
def CI (E : Env) (s : PState) : Prop :=
  CtxOK E.input s.curPos s.curText ∧ ∀ ev ∈ s.trace, CtxOK E.input ev.pos ev.text

theorem CI.congr {E : Env} {a b : PState} (h : CI E a) (hk : ck b = ck a) : CI E b := by
  unfold ck at hk
  simp only [Prod.mk.injEq] at hk
  obtain ⟨h1, h2, h3⟩ := hk
  unfold CI at *
  rw [h1, h2, h3]; exact h

/-- a block call records the pending context and leaves it pending -/
theorem CI.callBlock {E : Env} {s : PState} (h : CI E s) (blk : Nat) : CI E (callBlock E blk s).2 := by
  refine ⟨by simpa using h.1, ?_⟩
  intro ev hev
  simp only [RT.callBlock, List.mem_cons] at hev
  rcases hev with rfl | hev
  · exact h.1
  · exact h.2 ev hev

/-- `parseActionExpr` sets the context to the match start and the matched bytes -/
theorem CI.action {E : Env} {s1 : PState} (h : CI E s1) (start : Savepoint) :
    CI E { s1 with curPos := start.pos, curText := sliceFrom E s1 start } :=
  ⟨CtxOK.slice E.input start.pos _, h.2⟩

def _root_.PV.Outcome.CIOK (E : Env) : Outcome → Prop
  | .done _ _ s' => CI E s'
  | .panic _ s' => CI E s'
  | .oof => True

theorem CIOK.bind {E : Env} {o : Outcome} {f : Val → Bool → PState → Outcome}
    (ho : o.CIOK E) (hf : ∀ v ok s1, CI E s1 → (f v ok s1).CIOK E) : (o.bind f).CIOK E := by
  cases o with
  | oof => trivial
  | panic p s1 => exact ho
  | done v ok s1 => exact hf v ok s1 ho

section
variable {E : Env} {rec : Expr → PState → Outcome}
variable (hrec : ∀ e s, CI E s → (rec e s).CIOK E)
include hrec

theorem wrap_ci (e : Expr) (s : PState) (h : CI E s) : (parseExprWrap E rec e s).CIOK E := by
  unfold parseExprWrap
  split
  · exact hrec e s h
  · split
    · split
      · simp only []
        split
        · exact h.congr (by simp [ck])
        · exact h.congr (by simp [ck])
      · exact CIOK.bind (hrec e s h) (fun v ok s1 h1 => h1.congr (by simp [ck]))
    · exact hrec e s h

theorem seq_ci (pt : Savepoint) (st : Store) : ∀ (es : List Expr) (s : PState) (acc : List Val), CI E s →
    (parseSeq E rec pt st es s acc).CIOK E
  | [], s, _, h => by simpa [parseSeq, Outcome.CIOK] using h
  | e :: es, s, acc, h => by
    unfold parseSeq
    refine CIOK.bind (wrap_ci hrec e s h) (fun v ok s1 h1 => ?_)
    cases ok with
    | true => simp only [if_true]; exact seq_ci pt st es s1 _ h1
    | false => exact h1.congr (by simp [ck])

theorem choice_ci (line col : Nat) : ∀ (alts : List Expr) (i : Nat) (s : PState), CI E s →
    (parseChoice E rec line col alts i s).CIOK E
  | [], _, s, h => by simp only [parseChoice, Outcome.CIOK]; exact h.congr (by simp [ck])
  | a :: alts, i, s, h => by
    unfold parseChoice
    simp only []
    refine CIOK.bind (wrap_ci hrec a (pushV s) (h.congr (by simp [ck]))) (fun v ok s1 h1 => ?_)
    cases ok with
    | true => exact h1.congr (by simp [ck])
    | false =>
      simp only [Bool.false_eq_true, if_false]
      exact choice_ci line col alts _ _ (h1.congr (by simp [ck]))

theorem loop_ci (e : Expr) : ∀ (k : Nat) (s : PState) (acc : List Val), CI E s → (parseLoop E rec e k s acc).CIOK E
  | 0, _, _, _ => by simp [parseLoop, Outcome.CIOK]
  | k + 1, s, acc, h => by
    unfold parseLoop
    simp only []
    refine CIOK.bind (wrap_ci hrec e (pushV s) (h.congr (by simp [ck]))) (fun v ok s1 h1 => ?_)
    cases ok with
    | true => simp only [if_true]; exact loop_ci e k _ _ (h1.congr (by simp [ck]))
    | false =>
      simp only [Bool.false_eq_true, if_false]
      split <;> exact h1.congr (by simp [ck])

theorem throw_ci (label : String) : ∀ (frames : List (List (String × Expr))) (s : PState), CI E s →
    (parseThrow E rec label frames s).CIOK E
  | [], s, h => by simpa [parseThrow, Outcome.CIOK] using h
  | fr :: frs, s, h => by
    unfold parseThrow
    split
    · refine CIOK.bind (wrap_ci hrec _ s h) (fun v ok s1 h1 => ?_)
      cases ok with
      | true => exact h1
      | false => simp only [Bool.false_eq_true, if_false]; exact throw_ci label frs s1 h1
    · exact throw_ci label frs s h

omit hrec in
theorem lit_ci (start : Savepoint) (want : String) (ic : Bool) : ∀ (rs : List Rune) (s : PState), CI E s →
    (parseLit E start want ic rs s).CIOK E
  | [], s, h => by simp only [parseLit, Outcome.CIOK]; exact h.congr (by simp [ck])
  | r :: rs, s, h => by
    unfold parseLit
    split
    · exact h.congr (by simp [ck])
    · exact lit_ci start want ic rs (read E s) (h.congr (by simp [ck]))

theorem rule_ci (r : Rule) (s : PState) (h : CI E s) : (parseRule E rec r s).CIOK E := by
  unfold parseRule
  simp only []
  refine CIOK.bind (wrap_ci hrec r.expr _ (h.congr (by simp [ck, pushV]))) (fun v ok s1 h1 => ?_)
  exact h1.congr (by simp [ck, popV])

theorem ruleMemoize_ci (r : Rule) (s : PState) (h : CI E s) : (parseRuleMemoize E rec r s).CIOK E := by
  unfold parseRuleMemoize
  split
  · exact h.congr (by simp [ck])
  · exact CIOK.bind (rule_ci hrec r s h) (fun v ok s1 h1 => h1.congr (by simp [ck]))

theorem leaderLoop_ci (r : Rule) (startMark : Savepoint) :
    ∀ (k depth : Nat) (last : MemoVal) (lastErrs : List String) (s : PState), CI E s →
      (leaderLoop E rec r startMark k depth last lastErrs s).CIOK E
  | 0, _, _, _, _, _ => by simp [leaderLoop, Outcome.CIOK]
  | k + 1, depth, last, lastErrs, s, h => by
    unfold leaderLoop
    simp only []
    refine CIOK.bind (rule_ci hrec r _ (h.congr (by simp [ck]))) (fun v ok s2 h2 => ?_)
    split
    · exact h2.congr (by simp [ck])
    · exact leaderLoop_ci r startMark k _ _ _ _ (h2.congr (by simp [ck]))

theorem ruleWrap_ci (k : Nat) (r : Rule) (s : PState) (h : CI E s) : (parseRuleWrap E rec k r s).CIOK E := by
  have hl : (parseRuleLeader E rec k r s).CIOK E := by
    unfold parseRuleLeader
    split
    · exact h.congr (by simp [ck])
    · exact leaderLoop_ci hrec r _ k 0 _ _ s h
  unfold parseRuleWrap
  repeat' split
  all_goals first
    | exact hl
    | exact ruleMemoize_ci hrec r s h
    | exact rule_ci hrec r s h

omit hrec in
theorem runCodeBlock_ci (blk : Nat) (s : PState) (h : CI E s) (k : BlockResult → PState → Outcome)
    (hk : ∀ r s2, CI E s2 → (k r s2).CIOK E) : (runCodeBlock E blk s k).CIOK E := by
  unfold runCodeBlock
  simp only []
  split
  · exact h.callBlock blk
  · exact hk _ _ ((h.callBlock blk).congr (by simp [ck]))

omit hrec in
theorem matchOne_ci (s : PState) (want : String) (h : CI E s) : (matchOne E s want).CIOK E := by
  unfold matchOne
  exact h.congr (by simp [ck])

theorem body_ci (k : Nat) (e : Expr) (s : PState) (h : CI E s) : (parseExprBody E rec k e s).CIOK E := by
  have hw := wrap_ci (E := E) hrec
  cases e with
  | action id blk e1 =>
    simp only [parseExprBody, parseAction]
    refine CIOK.bind (hw e1 s h) (fun v ok s1 h1 => ?_)
    cases ok with
    | true =>
      simp only [if_true]
      have h2 := (h1.action (E := E) s.pt).callBlock blk
      split
      · exact h2
      · exact h2.congr (by simp [ck])
    | false => exact h1
  | andCode id blk =>
    simp only [parseExprBody, parseAndCode]
    exact runCodeBlock_ci blk s h _ (fun r s2 h2 => h2.congr (by simp [ck]))
  | notCode id blk =>
    simp only [parseExprBody, parseNotCode]
    exact runCodeBlock_ci blk s h _ (fun r s2 h2 => h2.congr (by simp [ck]))
  | stateCode id blk =>
    simp only [parseExprBody, parseStateCode]
    split
    · exact h
    · exact runCodeBlock_ci blk s h _ (fun r s2 h2 => h2)
  | and id e1 =>
    simp only [parseExprBody, parseAnd]
    exact CIOK.bind (hw e1 (pushV s) (h.congr (by simp [ck]))) (fun v ok s1 h1 => h1.congr (by simp [ck]))
  | not id e1 =>
    simp only [parseExprBody, parseNot]
    refine CIOK.bind (hw e1 _ (h.congr (b := { pushV s with maxFailInvert := !s.maxFailInvert }) (by simp [ck, pushV])))
      (fun v ok s1 h1 => h1.congr (by simp [ck, popV]))
  | any id =>
    simp only [parseExprBody, parseAny]
    split
    · exact h.congr (by simp [ck])
    · exact matchOne_ci s _ h
  | cls id c =>
    simp only [parseExprBody, parseCharClass]
    repeat' split
    all_goals first
      | exact matchOne_ci s _ h
      | exact h.congr (by simp [ck])
  | choice id line col alts => exact choice_ci hrec line col alts 0 s h
  | labeled id l e1 =>
    simp only [parseExprBody, parseLabeled]
    refine CIOK.bind (hw e1 (pushV s) (h.congr (by simp [ck]))) (fun v ok s1 h1 => ?_)
    simp only [Outcome.CIOK]
    split <;> exact h1.congr (by simp [ck])
  | lit id val ic want => exact lit_ci _ _ _ _ _ h
  | oneOrMore id e1 => exact loop_ci hrec e1 k s [] h
  | zeroOrMore id e1 =>
    simp only [parseExprBody, parseZeroOrMore]
    refine CIOK.bind (loop_ci hrec e1 k s [] h) (fun v ok s1 h1 => ?_)
    split <;> exact h1
  | zeroOrOne id e1 =>
    simp only [parseExprBody, parseZeroOrOne]
    exact CIOK.bind (hw e1 (pushV s) (h.congr (by simp [ck]))) (fun v ok s1 h1 => h1.congr (by simp [ck]))
  | recovery id e1 r labels =>
    simp only [parseExprBody, parseRecovery]
    exact CIOK.bind (hw e1 (pushRecovery s labels r) (h.congr (by simp [ck]))) (fun v ok s1 h1 => h1.congr (by simp [ck]))
  | ruleRef id name =>
    simp only [parseExprBody, parseRuleRef]
    split
    · exact h
    · split
      · exact h.congr (by simp [ck])
      · exact ruleWrap_ci hrec k _ s h
  | seq id es => exact seq_ci hrec _ _ es s [] h
  | throw id label => exact throw_ci hrec label _ s h

end

/-- **the farthest-failure record is the bookkeeping of the log**, in every configuration -/
theorem parseExpr_ci (E : Env) :
    ∀ (f : Nat) (e : Expr) (s : PState), CI E s → (parseExpr E f e s).CIOK E
  | 0, _, _, _ => trivial
  | f + 1, e, s, h => by
    show (parseExprStep E (parseExpr E f) f e s).CIOK E
    unfold parseExprStep
    have hb : CI E (bump s) := h.congr rfl
    split
    · exact hb
    · exact body_ci (parseExpr_ci E f) f e (bump s) hb


/-- the state `parse` starts from -/
theorem startState_ci (E : Env) : CI E (startState E) := by
  refine ⟨?_, ?_⟩
  · show CtxOK E.input (read E (initState E)).curPos (read E (initState E)).curText
    simp [initState, CtxOK]
  · intro ev hev
    have : (startState E).trace = [] := by show (read E (initState E)).trace = []; simp [initState]
    rw [this] at hev; cases hev

end RT
end PV
