/-
  The farthest-failure record is a function of the log of terminal evaluations.

  `failAt` is the only function of the runtime that writes `maxFailPos` / `maxFailExpected`, and every terminal
  (literal, class, any matcher) calls it exactly once per evaluation. The model's `failAt` additionally appends the
  evaluation to a ghost log (`PState.attempts`). This file proves the invariant

      (maxFailPos, maxFailExpected) = book p0 attempts

  for every state the interpreter passes through - every grammar, code environment, flag and option set (memoization,
  left recursion and a budget included), input and fuel - where `book` folds the one-step bookkeeping `noteStep`
  over the log, oldest evaluation first. `Properties/C12.lean` turns `book` into the declarative max / filter and,
  through the refinement `RT = Spec`, ties the log to the terminal evaluations of the PEG semantics.
-/
import PigeonVerif.Proofs.Frame

namespace PV

namespace RT

set_option autoImplicit true

frame_lemmas (hit s) unfolding hit : maxFailPos maxFailExpected attempts end
frame_lemmas (pushV s) unfolding pushV : maxFailPos maxFailExpected attempts end
frame_lemmas (popV s) unfolding popV : maxFailPos maxFailExpected attempts end
frame_lemmas (pushRecovery s l r) unfolding pushRecovery : maxFailPos maxFailExpected attempts end
frame_lemmas (popRecovery s) unfolding popRecovery : maxFailPos maxFailExpected attempts end
frame_lemmas (setLabel s l v) unfolding setLabel : maxFailPos maxFailExpected attempts end
frame_lemmas (addErrAt E s m p) unfolding addErrAt : maxFailPos maxFailExpected attempts end
frame_lemmas (addErr E s m) unfolding addErr addErrAt : maxFailPos maxFailExpected attempts end
frame_lemmas (addErrAtOpt E s o p) unfolding addErrAtOpt addErrAt : maxFailPos maxFailExpected attempts end
frame_lemmas (addErrOpt E s o) unfolding addErrOpt addErrAtOpt addErrAt : maxFailPos maxFailExpected attempts end
frame_lemmas (restore s p) unfolding restore : maxFailPos maxFailExpected attempts end
frame_lemmas (restoreState E s st) unfolding restoreState : maxFailPos maxFailExpected attempts end
frame_lemmas (setMemoized s p k t) unfolding setMemoized : maxFailPos maxFailExpected attempts end
frame_lemmas (incChoiceAlt s l c a) unfolding incChoiceAlt : maxFailPos maxFailExpected attempts end
frame_lemmas (read E s) unfolding read addErr addErrAt : maxFailPos maxFailExpected attempts end
frame_lemmas (callBlock E b s).2 unfolding callBlock : maxFailPos maxFailExpected attempts end

set_option autoImplicit false

/-- the three fields the invariant is about -/
def fk (s : PState) : Pos × List String × List Attempt := (s.maxFailPos, s.maxFailExpected, s.attempts)

/-- **the invariant** -/
def FI (p0 : Pos) (s : PState) : Prop := (s.maxFailPos, s.maxFailExpected) = book p0 s.attempts

theorem FI.congr {p0 : Pos} {a b : PState} (h : FI p0 a) (hk : fk b = fk a) : FI p0 b := by
  unfold fk at hk
  simp only [Prod.mk.injEq] at hk
  obtain ⟨h1, h2, h3⟩ := hk
  unfold FI at *
  rw [h1, h2, h3]; exact h

/-- `failAt` is one step of the bookkeeping, and logs the evaluation -/
theorem failAt_step (s : PState) (b : Bool) (p : Pos) (w : String) :
    ((failAt s b p w).maxFailPos, (failAt s b p w).maxFailExpected) =
      noteStep (s.maxFailPos, s.maxFailExpected) { pos := p, want := w, matched := b, neg := s.maxFailInvert } ∧
    (failAt s b p w).attempts = { pos := p, want := w, matched := b, neg := s.maxFailInvert } :: s.attempts := by
  refine ⟨?_, rfl⟩
  unfold failAt failAtCore noteStep Attempt.counts Attempt.label
  by_cases h : (b == s.maxFailInvert) = true
  · simp only [h, if_true]
    by_cases h1 : p.off < s.maxFailPos.off
    · simp [h1]
    · by_cases h2 : p.off > s.maxFailPos.off
      · simp [h1, h2]
      · simp [h1, h2]
  · simp [h]

theorem FI.failAt {p0 : Pos} {s : PState} (h : FI p0 s) (b : Bool) (p : Pos) (w : String) : FI p0 (failAt s b p w) := by
  obtain ⟨h1, h2⟩ := failAt_step s b p w
  unfold FI at *
  rw [h1, h2, h]
  rfl

def _root_.PV.Outcome.FIOK (p0 : Pos) : Outcome → Prop
  | .done _ _ s' => FI p0 s'
  | .panic _ s' => FI p0 s'
  | .oof => True

theorem FIOK.bind {p0 : Pos} {o : Outcome} {f : Val → Bool → PState → Outcome}
    (ho : o.FIOK p0) (hf : ∀ v ok s1, FI p0 s1 → (f v ok s1).FIOK p0) : (o.bind f).FIOK p0 := by
  cases o with
  | oof => trivial
  | panic p s1 => exact ho
  | done v ok s1 => exact hf v ok s1 ho

section
variable {E : Env} {rec : Expr → PState → Outcome} {p0 : Pos}
variable (hrec : ∀ e s, FI p0 s → (rec e s).FIOK p0)
include hrec

theorem wrap_fi (e : Expr) (s : PState) (h : FI p0 s) : (parseExprWrap E rec e s).FIOK p0 := by
  unfold parseExprWrap
  split
  · exact hrec e s h
  · split
    · split
      · simp only []
        split
        · exact h.congr (by simp [fk])
        · exact h.congr (by simp [fk])
      · exact FIOK.bind (hrec e s h) (fun v ok s1 h1 => h1.congr (by simp [fk]))
    · exact hrec e s h

theorem seq_fi (pt : Savepoint) (st : Store) : ∀ (es : List Expr) (s : PState) (acc : List Val), FI p0 s →
    (parseSeq E rec pt st es s acc).FIOK p0
  | [], s, _, h => by simpa [parseSeq, Outcome.FIOK] using h
  | e :: es, s, acc, h => by
    unfold parseSeq
    refine FIOK.bind (wrap_fi hrec e s h) (fun v ok s1 h1 => ?_)
    cases ok with
    | true => simp only [if_true]; exact seq_fi pt st es s1 _ h1
    | false => exact h1.congr (by simp [fk])

theorem choice_fi (line col : Nat) : ∀ (alts : List Expr) (i : Nat) (s : PState), FI p0 s →
    (parseChoice E rec line col alts i s).FIOK p0
  | [], _, s, h => by simp only [parseChoice, Outcome.FIOK]; exact h.congr (by simp [fk])
  | a :: alts, i, s, h => by
    unfold parseChoice
    simp only []
    refine FIOK.bind (wrap_fi hrec a (pushV s) (h.congr (by simp [fk]))) (fun v ok s1 h1 => ?_)
    cases ok with
    | true => exact h1.congr (by simp [fk])
    | false =>
      simp only [Bool.false_eq_true, if_false]
      exact choice_fi line col alts _ _ (h1.congr (by simp [fk]))

theorem loop_fi (e : Expr) : ∀ (k : Nat) (s : PState) (acc : List Val), FI p0 s → (parseLoop E rec e k s acc).FIOK p0
  | 0, _, _, _ => by simp [parseLoop, Outcome.FIOK]
  | k + 1, s, acc, h => by
    unfold parseLoop
    simp only []
    refine FIOK.bind (wrap_fi hrec e (pushV s) (h.congr (by simp [fk]))) (fun v ok s1 h1 => ?_)
    cases ok with
    | true => simp only [if_true]; exact loop_fi e k _ _ (h1.congr (by simp [fk]))
    | false =>
      simp only [Bool.false_eq_true, if_false]
      split <;> exact h1.congr (by simp [fk])

theorem throw_fi (label : String) : ∀ (frames : List (List (String × Expr))) (s : PState), FI p0 s →
    (parseThrow E rec label frames s).FIOK p0
  | [], s, h => by simpa [parseThrow, Outcome.FIOK] using h
  | fr :: frs, s, h => by
    unfold parseThrow
    split
    · refine FIOK.bind (wrap_fi hrec _ s h) (fun v ok s1 h1 => ?_)
      cases ok with
      | true => exact h1
      | false => simp only [Bool.false_eq_true, if_false]; exact throw_fi label frs s1 h1
    · exact throw_fi label frs s h

omit hrec in
theorem lit_fi (start : Savepoint) (want : String) (ic : Bool) : ∀ (rs : List Rune) (s : PState), FI p0 s →
    (parseLit E start want ic rs s).FIOK p0
  | [], s, h => by simp only [parseLit, Outcome.FIOK]; exact h.failAt _ _ _
  | r :: rs, s, h => by
    unfold parseLit
    split
    · exact (h.failAt false start.pos want).congr (by simp [fk])
    · exact lit_fi start want ic rs (read E s) (h.congr (by simp [fk]))

theorem rule_fi (r : Rule) (s : PState) (h : FI p0 s) : (parseRule E rec r s).FIOK p0 := by
  unfold parseRule
  simp only []
  refine FIOK.bind (wrap_fi hrec r.expr _ (h.congr (by simp [fk, pushV]))) (fun v ok s1 h1 => ?_)
  exact h1.congr (by simp [fk, popV])

theorem ruleMemoize_fi (r : Rule) (s : PState) (h : FI p0 s) : (parseRuleMemoize E rec r s).FIOK p0 := by
  unfold parseRuleMemoize
  split
  · exact h.congr (by simp [fk])
  · exact FIOK.bind (rule_fi hrec r s h) (fun v ok s1 h1 => h1.congr (by simp [fk]))

theorem leaderLoop_fi (r : Rule) (startMark : Savepoint) :
    ∀ (k depth : Nat) (last : MemoVal) (lastErrs : List String) (s : PState), FI p0 s →
      (leaderLoop E rec r startMark k depth last lastErrs s).FIOK p0
  | 0, _, _, _, _, _ => by simp [leaderLoop, Outcome.FIOK]
  | k + 1, depth, last, lastErrs, s, h => by
    unfold leaderLoop
    simp only []
    refine FIOK.bind (rule_fi hrec r _ (h.congr (by simp [fk]))) (fun v ok s2 h2 => ?_)
    split
    · exact h2.congr (by simp [fk])
    · exact leaderLoop_fi r startMark k _ _ _ _ (h2.congr (by simp [fk]))

theorem ruleWrap_fi (k : Nat) (r : Rule) (s : PState) (h : FI p0 s) : (parseRuleWrap E rec k r s).FIOK p0 := by
  have hl : (parseRuleLeader E rec k r s).FIOK p0 := by
    unfold parseRuleLeader
    split
    · exact h.congr (by simp [fk])
    · exact leaderLoop_fi hrec r _ k 0 _ _ s h
  unfold parseRuleWrap
  repeat' split
  all_goals first
    | exact hl
    | exact ruleMemoize_fi hrec r s h
    | exact rule_fi hrec r s h

omit hrec in
theorem runCodeBlock_fi (blk : Nat) (s : PState) (h : FI p0 s) (k : BlockResult → PState → Outcome)
    (hk : ∀ r s2, FI p0 s2 → (k r s2).FIOK p0) : (runCodeBlock E blk s k).FIOK p0 := by
  unfold runCodeBlock
  simp only []
  split
  · exact h.congr (by simp [fk])
  · exact hk _ _ (h.congr (by simp [fk]))

omit hrec in
theorem matchOne_fi (s : PState) (want : String) (h : FI p0 s) : (matchOne E s want).FIOK p0 := by
  unfold matchOne
  exact FI.failAt (h.congr (by simp [fk])) _ _ _

theorem body_fi (k : Nat) (e : Expr) (s : PState) (h : FI p0 s) : (parseExprBody E rec k e s).FIOK p0 := by
  have hw := wrap_fi (E := E) hrec
  cases e with
  | action id blk e1 =>
    simp only [parseExprBody, parseAction]
    refine FIOK.bind (hw e1 s h) (fun v ok s1 h1 => ?_)
    cases ok with
    | true =>
      simp only [if_true]
      split
      · exact h1.congr (by simp [fk])
      · exact h1.congr (by simp [fk])
    | false => exact h1
  | andCode id blk =>
    simp only [parseExprBody, parseAndCode]
    exact runCodeBlock_fi blk s h _ (fun r s2 h2 => h2.congr (by simp [fk]))
  | notCode id blk =>
    simp only [parseExprBody, parseNotCode]
    exact runCodeBlock_fi blk s h _ (fun r s2 h2 => h2.congr (by simp [fk]))
  | stateCode id blk =>
    simp only [parseExprBody, parseStateCode]
    split
    · exact h
    · exact runCodeBlock_fi blk s h _ (fun r s2 h2 => h2)
  | and id e1 =>
    simp only [parseExprBody, parseAnd]
    exact FIOK.bind (hw e1 (pushV s) (h.congr (by simp [fk]))) (fun v ok s1 h1 => h1.congr (by simp [fk]))
  | not id e1 =>
    simp only [parseExprBody, parseNot]
    refine FIOK.bind (hw e1 _ (h.congr (b := { pushV s with maxFailInvert := !s.maxFailInvert }) (by simp [fk, pushV])))
      (fun v ok s1 h1 => h1.congr (by simp [fk, popV]))
  | any id =>
    simp only [parseExprBody, parseAny]
    split
    · exact h.failAt _ _ _
    · exact matchOne_fi s _ h
  | cls id c =>
    simp only [parseExprBody, parseCharClass]
    repeat' split
    all_goals first
      | exact matchOne_fi s _ h
      | exact h.failAt _ _ _
  | choice id line col alts => exact choice_fi hrec line col alts 0 s h
  | labeled id l e1 =>
    simp only [parseExprBody, parseLabeled]
    refine FIOK.bind (hw e1 (pushV s) (h.congr (by simp [fk]))) (fun v ok s1 h1 => ?_)
    simp only [Outcome.FIOK]
    split <;> exact h1.congr (by simp [fk])
  | lit id val ic want => exact lit_fi _ _ _ _ _ h
  | oneOrMore id e1 => exact loop_fi hrec e1 k s [] h
  | zeroOrMore id e1 =>
    simp only [parseExprBody, parseZeroOrMore]
    refine FIOK.bind (loop_fi hrec e1 k s [] h) (fun v ok s1 h1 => ?_)
    split <;> exact h1
  | zeroOrOne id e1 =>
    simp only [parseExprBody, parseZeroOrOne]
    exact FIOK.bind (hw e1 (pushV s) (h.congr (by simp [fk]))) (fun v ok s1 h1 => h1.congr (by simp [fk]))
  | recovery id e1 r labels =>
    simp only [parseExprBody, parseRecovery]
    exact FIOK.bind (hw e1 (pushRecovery s labels r) (h.congr (by simp [fk]))) (fun v ok s1 h1 => h1.congr (by simp [fk]))
  | ruleRef id name =>
    simp only [parseExprBody, parseRuleRef]
    split
    · exact h
    · split
      · exact h.congr (by simp [fk])
      · exact ruleWrap_fi hrec k _ s h
  | seq id es => exact seq_fi hrec _ _ es s [] h
  | throw id label => exact throw_fi hrec label _ s h

end

/-- **the farthest-failure record is the bookkeeping of the log**, in every configuration -/
theorem parseExpr_fi (E : Env) (p0 : Pos) :
    ∀ (f : Nat) (e : Expr) (s : PState), FI p0 s → (parseExpr E f e s).FIOK p0
  | 0, _, _, _ => trivial
  | f + 1, e, s, h => by
    show (parseExprStep E (parseExpr E f) f e s).FIOK p0
    unfold parseExprStep
    have hb : FI p0 (bump s) := h.congr rfl
    split
    · exact hb
    · exact body_fi (parseExpr_fi E p0 f) f e (bump s) hb

/-- the state in which `parse` starts the entry rule satisfies the invariant, with its own position as `p0` -/
theorem startState_fi (E : Env) : FI (startState E).pt.pos (startState E) := by
  unfold FI book startState
  simp [initState]

end RT
end PV
