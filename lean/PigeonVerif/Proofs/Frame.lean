/-
  Frame invariant of the runtime model, proved for every grammar, code
  environment, flag set, option set, input and fuel:

  after evaluating any expression
    * the rule stack, the recovery (handler) stack and the `!`-parity are what
      they were before, the variable stack has the same frames below the top;
    * `exprCnt` never decreases;
    * a *failed* expression leaves the state store and the input offset
      exactly as they were (also with memoization and left recursion);
  These are the shared lemmas behind C01 (failure consumes nothing), C05 (rollback),
  C14 (handler discipline), C16 (budget).
-/
import PigeonVerif.Proofs.PtInv

namespace PV

/-- what holds of an outcome: `Q` for normal returns, `Qp` for panics -/
def Outcome.Sat (o : Outcome) (Q : Val → Bool → PState → Prop) (Qp : PState → Prop) : Prop :=
  match o with
  | .oof => True
  | .done v ok s' => Q v ok s'
  | .panic _ s' => Qp s'

theorem Outcome.sat_bind {o : Outcome} {k : Val → Bool → PState → Outcome}
    {Q Q' : Val → Bool → PState → Prop} {Qp : PState → Prop}
    (ho : o.Sat Q' Qp) (hk : ∀ v ok s', Q' v ok s' → (k v ok s').Sat Q Qp) :
    (o.bind k).Sat Q Qp := by
  cases o with
  | oof => trivial
  | panic p s' => exact ho
  | done v ok s' => exact hk v ok s' ho

theorem Outcome.sat_mono {o : Outcome} {Q Q' : Val → Bool → PState → Prop} {Qp Qp' : PState → Prop}
    (ho : o.Sat Q Qp) (hq : ∀ v ok s', Q v ok s' → Q' v ok s') (hp : ∀ s', Qp s' → Qp' s') :
    o.Sat Q' Qp' := by
  cases o with
  | oof => trivial
  | panic p s' => exact hp _ ho
  | done v ok s' => exact hq _ _ _ ho

namespace RT

/-- memo entries recorded for a failure end where they started -/
def MemoOK (s : PState) : Prop :=
  ∀ e ∈ s.memo, e.2.b = false → e.2.end.pos.off = e.1.1

/-- `globalStore` as the most recent code block left it (or the initial one) -/
def lastGlobal (E : Env) : List Event → Store
  | [] => E.opts.initGlobal
  | ev :: _ => ev.gout

/-- the parser itself never writes `globalStore` -/
def GInv (E : Env) (s : PState) : Prop := s.global = lastGlobal E s.trace

/-- the current savepoint and all memoized end savepoints are positions of the reader -/
def PtInv (E : Env) (s : PState) : Prop :=
  Reach E.input s.pt ∧ ∀ e ∈ s.memo, Reach E.input e.2.end

/-- the part of the frame relation that composes (reflexive, transitive) -/
structure Stk (E : Env) (s s' : PState) : Prop where
  cnt : s.exprCnt ≤ s'.exprCnt
  vtail : s'.vstack.tail = s.vstack.tail
  vlen : s'.vstack.length = s.vstack.length
  rstack : s'.rstack = s.rstack
  recov : s'.recoveryStack = s.recoveryStack
  invert : s'.maxFailInvert = s.maxFailInvert
  noState : E.useState = false → s'.state = s.state
  /-- the budget is respected -/
  bnd : ∀ n, E.opts.maxExpr = some n → s.exprCnt ≤ n → s'.exprCnt ≤ n
  /-- globalStore is whatever the most recent code block left -/
  ginv : GInv E s → GInv E s'
  /-- the parser position and every memoized end position are reader positions -/
  ptinv : PtInv E s → PtInv E s'

/-- what is known of the state in which a panic was raised -/
structure PanicPost (E : Env) (s s' : PState) : Prop where
  cnt : s.exprCnt ≤ s'.exprCnt
  bnd : ∀ n, E.opts.maxExpr = some n → s.exprCnt ≤ n → s'.exprCnt ≤ n + 1

/-- relation between the state before and after a normal return -/
structure Framed (E : Env) (s : PState) (ok : Bool) (s' : PState) : Prop where
  stk : Stk E s s'
  failState : ok = false → s'.state = s.state
  failOff : ok = false → s'.pt.pos.off = s.pt.pos.off
  memo : MemoOK s'

def FrameInv (E : Env) (s : PState) (o : Outcome) : Prop :=
  MemoOK s → o.Sat (fun _ ok s' => Framed E s ok s') (fun s' => PanicPost E s s')

end RT
end PV

namespace PV
namespace RT

open Lean in
syntax "frame_lemmas " term " unfolding " ident+ " : " ident+ " end" : command

open Lean in
macro_rules
  | `(frame_lemmas $t unfolding $hs* : $flds* end) => do
    let h0 := hs[0]!
    let cmds ← flds.mapM fun f => do
      let nm := mkIdent (h0.getId ++ f.getId)
      let proj := mkIdent (`PV.PState ++ f.getId)
      let sv := mkIdent `s
      `(@[simp] theorem $nm : $proj ($t) = $proj $sv := by
          unfold $hs*
          first | ((repeat' split) <;> rfl) | (simp only []; (repeat' split) <;> rfl))
    return mkNullNode cmds

set_option autoImplicit true

frame_lemmas (hit s) unfolding hit : exprCnt rstack vstack recoveryStack maxFailInvert state pt memo errs global trace nCalls end
frame_lemmas (pushV s) unfolding pushV : exprCnt rstack recoveryStack maxFailInvert state pt memo errs global trace nCalls end
frame_lemmas (popV s) unfolding popV : exprCnt rstack recoveryStack maxFailInvert state pt memo errs global trace nCalls end
frame_lemmas (pushRecovery s l r) unfolding pushRecovery : exprCnt rstack vstack maxFailInvert state pt memo errs global trace nCalls end
frame_lemmas (popRecovery s) unfolding popRecovery : exprCnt rstack vstack maxFailInvert state pt memo errs global trace nCalls end
frame_lemmas (setLabel s l v) unfolding setLabel : exprCnt rstack recoveryStack maxFailInvert state pt memo errs global trace nCalls end
frame_lemmas (addErrAt E s m p) unfolding addErrAt : exprCnt rstack vstack recoveryStack maxFailInvert state pt memo global trace nCalls end
frame_lemmas (addErr E s m) unfolding addErr addErrAt : exprCnt rstack vstack recoveryStack maxFailInvert state pt memo global trace nCalls end
frame_lemmas (addErrAtOpt E s o p) unfolding addErrAtOpt addErrAt : exprCnt rstack vstack recoveryStack maxFailInvert state pt memo global trace nCalls end
frame_lemmas (addErrOpt E s o) unfolding addErrOpt addErrAtOpt addErrAt : exprCnt rstack vstack recoveryStack maxFailInvert state pt memo global trace nCalls end
frame_lemmas (failAt s b p w) unfolding failAt failAtCore : exprCnt rstack vstack recoveryStack maxFailInvert state pt memo errs global trace nCalls end
frame_lemmas (restore s p) unfolding restore : exprCnt rstack vstack recoveryStack maxFailInvert state memo errs global trace nCalls end
frame_lemmas (restoreState E s st) unfolding restoreState : exprCnt rstack vstack recoveryStack maxFailInvert pt memo errs global trace nCalls end
frame_lemmas (setMemoized s p k t) unfolding setMemoized : exprCnt rstack vstack recoveryStack maxFailInvert state pt errs global trace nCalls end
frame_lemmas (incChoiceAlt s l c a) unfolding incChoiceAlt : exprCnt rstack vstack recoveryStack maxFailInvert state pt memo errs global trace nCalls end
frame_lemmas (read E s) unfolding read addErr addErrAt : exprCnt rstack vstack recoveryStack maxFailInvert state memo global trace nCalls end
frame_lemmas (callBlock E b s).2 unfolding callBlock : exprCnt rstack vstack recoveryStack maxFailInvert pt memo errs end

end RT
end PV
