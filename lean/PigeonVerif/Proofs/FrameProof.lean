import PigeonVerif.Proofs.Frame

namespace PV
namespace RT

theorem GInv.congr {E : Env} {s s' : PState} (h : GInv E s) (h1 : s'.global = s.global)
    (h2 : s'.trace = s.trace) : GInv E s' := by
  unfold GInv at *; rw [h1, h2]; exact h

theorem Stk.refl (E : Env) (s : PState) : Stk E s s :=
  ⟨Nat.le_refl _, rfl, rfl, rfl, rfl, rfl, fun _ => rfl, fun _ _ h => h, fun h => h, fun h => h⟩

theorem Stk.trans {E : Env} {a b c : PState} (h1 : Stk E a b) (h2 : Stk E b c) : Stk E a c :=
  ⟨Nat.le_trans h1.cnt h2.cnt, h2.vtail.trans h1.vtail, h2.vlen.trans h1.vlen,
   h2.rstack.trans h1.rstack, h2.recov.trans h1.recov, h2.invert.trans h1.invert,
   fun h => (h2.noState h).trans (h1.noState h), fun n hn h => h2.bnd n hn (h1.bnd n hn h), fun h => h2.ginv (h1.ginv h),
   fun h => h2.ptinv (h1.ptinv h)⟩

theorem Stk.panic_trans {E : Env} {a b c : PState} (h1 : Stk E a b) (h2 : PanicPost E b c) :
    PanicPost E a c :=
  ⟨Nat.le_trans h1.cnt h2.cnt, fun n hn h => h2.bnd n hn (h1.bnd n hn h)⟩

theorem Stk.toPanic {E : Env} {a b : PState} (h : Stk E a b) : PanicPost E a b :=
  ⟨h.cnt, fun n hn hb => Nat.le_succ_of_le (h.bnd n hn hb)⟩

theorem PanicPost.of_cnt_eq {E : Env} {a b c : PState} (h : b.exprCnt = a.exprCnt)
    (h2 : PanicPost E b c) : PanicPost E a c :=
  ⟨h ▸ h2.cnt, fun n hn hb => h2.bnd n hn (h ▸ hb)⟩

/-- a state that differs from `s` only in fields outside the frame -/
theorem Stk.of_eq {E : Env} {s s' : PState} (h1 : s'.exprCnt = s.exprCnt) (h2 : s'.vstack = s.vstack)
    (h3 : s'.rstack = s.rstack) (h4 : s'.recoveryStack = s.recoveryStack)
    (h5 : s'.maxFailInvert = s.maxFailInvert) (h6 : s'.state = s.state)
    (h7 : s'.global = s.global) (h8 : s'.trace = s.trace) (h9 : s'.pt = s.pt) (h10 : s'.memo = s.memo) :
    Stk E s s' :=
  ⟨by omega, by rw [h2], by rw [h2], h3, h4, h5, fun _ => h6, fun _ _ h => by omega,
   fun h => by unfold GInv at *; rw [h7, h8]; exact h,
   fun h => by unfold PtInv at *; rw [h9, h10]; exact h⟩

theorem PtInv.congr {E : Env} {s s' : PState} (h : PtInv E s) (h1 : s'.pt = s.pt) (h2 : s'.memo = s.memo) :
    PtInv E s' := by
  unfold PtInv at *; rw [h1, h2]; exact h

/-- `c` agrees with `b` on the frame fields; its position invariant is argued separately -/
theorem Stk.extend {E : Env} {a b c : PState} (h : Stk E a b) (h1 : c.exprCnt = b.exprCnt)
    (h2 : c.vstack = b.vstack) (h3 : c.rstack = b.rstack) (h4 : c.recoveryStack = b.recoveryStack)
    (h5 : c.maxFailInvert = b.maxFailInvert) (h6 : c.state = b.state) (h7 : c.global = b.global)
    (h8 : c.trace = b.trace) (hp : PtInv E a → PtInv E b → PtInv E c) : Stk E a c :=
  ⟨h1 ▸ h.cnt, h2 ▸ h.vtail, h2 ▸ h.vlen, h3 ▸ h.rstack, h4 ▸ h.recov, h5 ▸ h.invert,
   fun hu => h6 ▸ h.noState hu, fun n hn hb => h1 ▸ h.bnd n hn hb,
   fun hg => by have := h.ginv hg; unfold GInv at *; rw [h7, h8]; exact this,
   fun hpa => hp hpa (h.ptinv hpa)⟩

theorem restore_pt_reach {inp : List Nat} (s : PState) (pt : Savepoint) (h1 : Reach inp s.pt) (h2 : Reach inp pt) :
    Reach inp (restore s pt).pt := by
  unfold restore; split
  · exact h1
  · exact h2

@[simp] theorem restore_memo' (s : PState) (pt : Savepoint) : (restore s pt).memo = s.memo := by
  unfold restore; split <;> rfl

@[simp] theorem restore_off (s : PState) (pt : Savepoint) : (restore s pt).pt.pos.off = pt.pos.off := by
  unfold restore; split
  · next h => exact h.symm
  · rfl

theorem MemoOK.congr {s s' : PState} (h : s'.memo = s.memo) (hm : MemoOK s) : MemoOK s' := by
  unfold MemoOK at *; rw [h]; exact hm

theorem getMemoized_mem {s : PState} {k : MemoKey} {r : MemoVal} (h : getMemoized s k = some r) :
    ((s.pt.pos.off, k), r) ∈ s.memo := by
  unfold getMemoized at h
  cases hf : s.memo.find? (fun e => e.1.1 = s.pt.pos.off && e.1.2 = k) with
  | none => simp [hf] at h
  | some e =>
    simp [hf] at h
    have hp := List.find?_some hf
    have hm := List.mem_of_find?_eq_some hf
    simp at hp
    obtain ⟨⟨o, k'⟩, r'⟩ := e
    simp at hp h
    obtain ⟨rfl, rfl⟩ := hp
    subst h
    exact hm

theorem MemoOK.hit {s : PState} {k : MemoKey} {r : MemoVal} (hm : MemoOK s)
    (h : getMemoized s k = some r) (hb : r.b = false) : r.end.pos.off = s.pt.pos.off :=
  hm _ (getMemoized_mem h) hb

theorem MemoOK.set {s : PState} {pt : Savepoint} {k : MemoKey} {t : MemoVal} (hm : MemoOK s)
    (h : t.b = false → t.end.pos.off = pt.pos.off) : MemoOK (setMemoized s pt k t) := by
  intro e he
  simp [setMemoized] at he
  rcases he with rfl | he
  · exact h
  · exact hm e he

macro "stk_ext " h:term " with " hp:term : tactic =>
  `(tactic| exact Stk.extend $h (by simp) (by simp) (by simp) (by simp) (by simp) (by simp) (by simp) (by simp) $hp)

macro "stk_eq" : tactic => `(tactic| exact Stk.of_eq (by simp) (by simp) (by simp) (by simp) (by simp) (by simp) (by simp) (by simp) (by simp) (by simp))

section
variable {E : Env} {rec : Expr → PState → Outcome}

theorem Framed.hit {s : PState} {k : MemoKey} {res : MemoVal} (hm : MemoOK s)
    (h : getMemoized s k = some res) : Framed E s res.b (restore s res.end) := by
  have hstk : Stk E s (restore s res.end) := by
    stk_ext (Stk.refl E s) with (fun hp _ => ⟨restore_pt_reach s _ hp.1 (hp.2 _ (getMemoized_mem h)), by simpa using hp.2⟩)
  refine ⟨hstk, fun _ => by simp, ?_, hm.congr (by simp)⟩
  intro hb
  rw [restore_off]; exact hm.hit h hb

theorem Framed.hit' {s : PState} {k : MemoKey} {res : MemoVal} (hm : MemoOK s)
    (h : getMemoized s k = some res) : Framed E s res.b (restore (RT.hit s) res.end) := by
  have hstk : Stk E s (restore (RT.hit s) res.end) := by
    stk_ext (Stk.refl E s) with (fun hp _ =>
      ⟨restore_pt_reach (RT.hit s) _ (by simpa using hp.1) (hp.2 _ (getMemoized_mem h)), by simpa using hp.2⟩)
  refine ⟨hstk, fun _ => by simp, ?_, hm.congr (by simp)⟩
  intro hb
  rw [restore_off]; exact hm.hit h hb

theorem Framed.memoized {s s1 : PState} {v : Val} {ok : Bool} {k : MemoKey} (h : Framed E s ok s1) :
    Framed E s ok (setMemoized s1 s.pt k { v := v, b := ok, «end» := s1.pt }) := by
  have hs : Stk E s1 (setMemoized s1 s.pt k { v := v, b := ok, «end» := s1.pt }) := by
    stk_ext (Stk.refl E s1) with (fun hp _ => ⟨by simpa using hp.1, by
      intro e he; simp [setMemoized] at he
      rcases he with rfl | he
      · exact hp.1
      · exact hp.2 e he⟩)
  exact ⟨h.stk.trans hs, fun hb => by simp [h.failState hb], fun hb => by simp [h.failOff hb],
    h.memo.set (fun hb => h.failOff hb)⟩

theorem wrap_frame (hrec : ∀ e s, FrameInv E s (rec e s)) (e : Expr) (s : PState) :
    FrameInv E s (parseExprWrap E rec e s) := by
  intro hm
  unfold parseExprWrap
  split
  · exact hrec e s hm
  · split
    · split
      · next res hres =>
        simp only []
        split
        · simp only [Outcome.Sat]
          exact (by stk_eq : Stk E s (RT.hit s)).toPanic
        · exact Framed.hit' hm hres
      · apply Outcome.sat_bind (hrec e s hm)
        intro v ok s1 h
        exact h.memoized
    · exact hrec e s hm

/-! ### lists of sub-expressions, loops -/

theorem Outcome.sat_bind' {o : Outcome} {k : Val → Bool → PState → Outcome}
    {Q Q' : Val → Bool → PState → Prop} {Qp Qp' : PState → Prop}
    (ho : o.Sat Q' Qp') (hp : ∀ s', Qp' s' → Qp s')
    (hk : ∀ v ok s', Q' v ok s' → (k v ok s').Sat Q Qp) :
    (o.bind k).Sat Q Qp := by
  cases o with
  | oof => trivial
  | panic p s' => exact hp _ ho
  | done v ok s' => exact hk v ok s' ho

theorem Stk.restoreState (E : Env) (s : PState) (st : Store) : Stk E s (restoreState E s st) :=
  ⟨by simp, by simp, by simp, by simp, by simp, by simp,
   fun h => by simp [RT.restoreState, h], fun _ _ h => by simpa using h,
   fun h => h.congr (by simp) (by simp), fun h => h.congr (by simp) (by simp)⟩

theorem restoreState_state {s0 s1 : PState} (h : Stk E s0 s1) :
    (RT.restoreState E s1 s0.state).state = s0.state := by
  unfold RT.restoreState
  cases hu : E.useState with
  | true => simp
  | false => simpa using h.noState hu

abbrev Post (E : Env) (s0 : PState) (o : Outcome) : Prop :=
  o.Sat (fun _ ok s' => Framed E s0 ok s') (fun s' => PanicPost E s0 s')

theorem seq_frame (hrec : ∀ e s, FrameInv E s (rec e s)) (s0 : PState) :
    ∀ (es : List Expr) (s : PState) (acc : List Val), Stk E s0 s → MemoOK s →
      Post E s0 (parseSeq E rec s0.pt s0.state es s acc)
  | [], s, acc, hs, hm => by
    simp only [parseSeq, Outcome.Sat]
    exact ⟨hs, nofun, nofun, hm⟩
  | e :: es, s, acc, hs, hm => by
    unfold parseSeq
    apply Outcome.sat_bind' (wrap_frame hrec e s hm) (fun s' h => hs.panic_trans h)
    intro v ok s1 h
    cases ok with
    | true => exact seq_frame hrec s0 es s1 _ (hs.trans h.stk) h.memo
    | false =>
      simp only [Outcome.Sat]
      have h01 := hs.trans h.stk
      have hback : Stk E s0 (restore (RT.restoreState E s1 s0.state) s0.pt) := by
        stk_ext (h01.trans (Stk.restoreState E s1 s0.state)) with (fun hp0 hp1 =>
          ⟨restore_pt_reach _ _ hp1.1 hp0.1, by simpa using hp1.2⟩)
      refine ⟨hback, fun _ => ?_, fun _ => by simp, h.memo.congr (by simp)⟩
      simpa using restoreState_state h01

@[simp] theorem pushV_vstack (s : PState) : (pushV s).vstack = [] :: s.vstack := rfl
@[simp] theorem popV_vstack (s : PState) : (popV s).vstack = s.vstack.tail := rfl

theorem Stk.pushpop {s s1 : PState} (h : Stk E (pushV s) s1) : Stk E s (popV s1) := by
  have h1 := h.cnt; have h2 := h.vtail; have h3 := h.vlen; have h4 := h.rstack
  have h5 := h.recov; have h6 := h.invert; have h7 := h.noState; have h8 := h.bnd
  simp at h1 h2 h3 h4 h5 h6 h7 h8
  refine ⟨by simpa using h1, by simp [h2], ?_, by simpa using h4, by simpa using h5,
    by simpa using h6, fun hu => by simpa using h7 hu, fun n hn hb => by simpa using h8 n hn hb,
    fun hg => (h.ginv (hg.congr (by simp) (by simp))).congr (by simp) (by simp),
    fun hp => (h.ptinv (hp.congr (by simp) (by simp))).congr (by simp) (by simp)⟩
  simp [h2]

theorem choice_frame (hrec : ∀ e s, FrameInv E s (rec e s)) (s0 : PState) (line col : Nat) :
    ∀ (alts : List Expr) (i : Nat) (s : PState), Stk E s0 s → s.state = s0.state →
      s.pt.pos.off = s0.pt.pos.off → MemoOK s →
      Post E s0 (parseChoice E rec line col alts i s)
  | [], i, s, hs, hst, hoff, hm => by
    simp only [parseChoice, Outcome.Sat]
    exact ⟨hs.trans (by stk_eq), fun _ => by simp [hst], fun _ => by simp [hoff], hm.congr (by simp)⟩
  | alt :: alts, i, s, hs, hst, hoff, hm => by
    unfold parseChoice
    simp only []
    apply Outcome.sat_bind' (wrap_frame hrec alt (pushV s) (hm.congr (by simp)))
      (fun s' h => hs.panic_trans (h.of_cnt_eq (by simp)))
    intro v ok s1 h
    have hpp := h.stk.pushpop
    cases ok with
    | true =>
      simp only [if_true, Outcome.Sat]
      exact ⟨hs.trans (hpp.trans (by stk_eq)), nofun, nofun, h.memo.congr (by simp)⟩
    | false =>
      simp only [Bool.false_eq_true, if_false]
      have hstk : Stk E s0 (RT.restoreState E (popV s1) s.state) :=
        hs.trans (hpp.trans (Stk.restoreState E _ _))
      refine choice_frame hrec s0 line col alts (i + 1) _ hstk ?_ ?_ (h.memo.congr (by simp))
      · rw [← hst]; exact restoreState_state hpp
      · have := h.failOff rfl
        simp at this ⊢
        omega

theorem loop_frame (hrec : ∀ e s, FrameInv E s (rec e s)) (s0 : PState) (e : Expr) :
    ∀ (k : Nat) (s : PState) (acc : List Val), Stk E s0 s →
      (acc = [] → s.state = s0.state ∧ s.pt.pos.off = s0.pt.pos.off) → MemoOK s →
      Post E s0 (parseLoop E rec e k s acc)
  | 0, _, _, _, _, _ => trivial
  | k + 1, s, acc, hs, hacc, hm => by
    unfold parseLoop
    simp only []
    apply Outcome.sat_bind' (wrap_frame hrec e (pushV s) (hm.congr (by simp)))
      (fun s' h => hs.panic_trans (h.of_cnt_eq (by simp)))
    intro v ok s1 h
    have hpp := h.stk.pushpop
    cases ok with
    | true =>
      simp only [if_true]
      exact loop_frame hrec s0 e k (popV s1) (v :: acc) (hs.trans hpp) nofun (h.memo.congr (by simp))
    | false =>
      simp only [Bool.false_eq_true, if_false]
      have h1 := h.failState rfl
      have h2 := h.failOff rfl
      simp at h1 h2
      split
      · next hemp =>
        have hnil : acc = [] := by simpa using hemp
        obtain ⟨ha, hb⟩ := hacc hnil
        simp only [Outcome.Sat]
        exact ⟨hs.trans hpp, fun _ => by simp [h1, ha], fun _ => by simp [h2, hb], h.memo.congr (by simp)⟩
      · simp only [Outcome.Sat]
        exact ⟨hs.trans hpp, nofun, nofun, h.memo.congr (by simp)⟩

theorem PtInv.read' {E : Env} {s : PState} (h : PtInv E s) (hg : ¬ (s.pt.rn = runeError ∧ s.pt.w = 0)) :
    Reach E.input (read E s).pt := by
  rw [read_pt]
  apply h.1.next
  intro hw
  exact hg ⟨h.1.w0 hw, hw⟩

theorem lit_frame (s0 : PState) (want : String) (ic : Bool) :
    ∀ (rs : List Rune) (s : PState), Stk E s0 s → s.state = s0.state → MemoOK s →
      Post E s0 (parseLit E s0.pt want ic rs s)
  | [], s, hs, hst, hm => by
    simp only [parseLit, Outcome.Sat]
    exact ⟨hs.trans (by stk_eq), nofun, nofun, hm.congr (by simp)⟩
  | r :: rs, s, hs, hst, hm => by
    unfold parseLit
    split
    · simp only [Outcome.Sat]
      have hback : Stk E s0 (restore (failAt s false s0.pt.pos want) s0.pt) := by
        stk_ext hs with (fun hp0 hp1 => ⟨restore_pt_reach _ _ (by simpa using hp1.1) hp0.1, by simpa using hp1.2⟩)
      exact ⟨hback, fun _ => by simp [hst], fun _ => by simp, hm.congr (by simp)⟩
    · next hc =>
      have hw : s.pt.w ≠ 0 := by
        intro hw; apply hc; simp [hw]
      have hrd : Stk E s0 (read E s) := by
        stk_ext hs with (fun _ hp1 => ⟨hp1.read' (fun hh => hw hh.2), by simpa using hp1.2⟩)
      exact lit_frame s0 want ic rs (read E s) hrd (by simp [hst]) (hm.congr (by simp))

theorem throw_frame (hrec : ∀ e s, FrameInv E s (rec e s)) (s0 : PState) (label : String) :
    ∀ (frames : List (List (String × Expr))) (s : PState), Stk E s0 s → s.state = s0.state →
      s.pt.pos.off = s0.pt.pos.off → MemoOK s → Post E s0 (parseThrow E rec label frames s)
  | [], s, hs, hst, hoff, hm => by
    simp only [parseThrow, Outcome.Sat]
    exact ⟨hs, fun _ => hst, fun _ => hoff, hm⟩
  | frame :: frames, s, hs, hst, hoff, hm => by
    unfold parseThrow
    split
    · next r _ =>
      apply Outcome.sat_bind' (wrap_frame hrec r s hm) (fun s' h => hs.panic_trans h)
      intro v ok s1 h
      cases ok with
      | true =>
        simp only [if_true, Outcome.Sat]
        exact ⟨hs.trans h.stk, nofun, nofun, h.memo⟩
      | false =>
        simp only [Bool.false_eq_true, if_false]
        exact throw_frame hrec s0 label frames s1 (hs.trans h.stk) ((h.failState rfl).trans hst)
          ((h.failOff rfl).trans hoff) h.memo
    · exact throw_frame hrec s0 label frames s hs hst hoff hm

/-! ### rules -/

theorem rule_frame (hrec : ∀ e s, FrameInv E s (rec e s)) (r : Rule) (s : PState) :
    FrameInv E s (parseRule E rec r s) := by
  intro hm
  unfold parseRule
  simp only []
  apply Outcome.sat_bind' (wrap_frame hrec r.expr _ (hm.congr (by simp [pushV])))
    (fun s' h => h.of_cnt_eq (by simp [pushV]))
  intro v ok s2 h
  have h1 := h.stk.cnt; have h2 := h.stk.vtail; have h3 := h.stk.vlen; have h4 := h.stk.rstack
  have h5 := h.stk.recov; have h6 := h.stk.invert; have h7 := h.stk.noState
  have h8 := h.failState; have h9 := h.failOff; have h10 := h.stk.bnd
  simp [pushV] at h1 h2 h3 h4 h5 h6 h7 h8 h9 h10
  simp only [Outcome.Sat]
  refine ⟨⟨by simpa [popV] using h1, by simp [popV, h2], by simp [popV, h2], by simp [popV, h4],
    by simpa [popV] using h5, by simpa [popV] using h6, fun hu => by simpa [popV] using h7 hu,
    fun n hn hb => by simpa [popV] using h10 n hn hb,
    fun hg => (h.stk.ginv (hg.congr rfl rfl)).congr rfl rfl,
    fun hp => (h.stk.ptinv (hp.congr rfl rfl)).congr rfl rfl⟩,
    fun hb => by simpa [popV] using h8 hb, fun hb => by simpa [popV] using h9 hb,
    h.memo.congr (by simp [popV])⟩

theorem ruleMemo_frame (hrec : ∀ e s, FrameInv E s (rec e s)) (r : Rule) (s : PState) :
    FrameInv E s (parseRuleMemoize E rec r s) := by
  intro hm
  unfold parseRuleMemoize
  split
  · next res hres => exact Framed.hit hm hres
  · apply Outcome.sat_bind (rule_frame hrec r s hm)
    intro v ok s1 h
    exact h.memoized

theorem restoreState_state_of {s1 : PState} {st0 : Store} (hns : E.useState = false → s1.state = st0) :
    (RT.restoreState E s1 st0).state = st0 := by
  unfold RT.restoreState
  cases hu : E.useState with
  | true => simp
  | false => simpa using hns hu

theorem leader_frame (hrec : ∀ e s, FrameInv E s (rec e s)) (r : Rule) (s0 : PState) :
    ∀ (k depth : Nat) (last : MemoVal) (lastErrs : List String) (s : PState), Stk E s0 s →
      (last.b = false → last.end.pos.off = s0.pt.pos.off ∧ s.state = s0.state) →
      (PtInv E s0 → Reach E.input last.end) → MemoOK s →
      Post E s0 (leaderLoop E rec r s0.pt k depth last lastErrs s)
  | 0, _, _, _, _, _, _, _, _ => trivial
  | k + 1, depth, last, lastErrs, s, hs, hl, hlast, hm => by
    unfold leaderLoop
    simp only []
    have hm1 : MemoOK (setMemoized s s0.pt (.rule r.name) last) := hm.set (fun hb => (hl hb).1)
    have hs01 : Stk E s0 (setMemoized s s0.pt (.rule r.name) last) := by
      stk_ext hs with (fun hp0 hp1 => ⟨by simpa using hp1.1, by
        intro e he; simp [setMemoized] at he
        rcases he with rfl | he
        · exact hlast hp0
        · exact hp1.2 e he⟩)
    apply Outcome.sat_bind' (rule_frame hrec r _ hm1)
      (fun s' h => hs.panic_trans (h.of_cnt_eq (by simp)))
    intro v ok s2 h
    have hs02 : Stk E s0 s2 := hs01.trans h.stk
    have hns : E.useState = false → s2.state = s.state := fun hu => by
      have := h.stk.noState hu; simpa using this
    split
    · simp only [Outcome.Sat]
      refine ⟨?_, ?_, ?_, ?_⟩
      · stk_ext (hs02.trans (Stk.restoreState E s2 s.state)) with (fun hp0 hp1 =>
          ⟨by
            show Reach E.input (setMemoized (restore _ last.end) s0.pt (.rule r.name) last).pt
            simp only [setMemoized.pt]
            exact restore_pt_reach _ _ (by simpa using hp1.1) (hlast hp0), by
            intro e he; simp [setMemoized] at he
            rcases he with rfl | he
            · exact hlast hp0
            · exact hp1.2 e (by simpa using he)⟩)
      · intro hb
        have := restoreState_state_of (E := E) hns
        simpa [(hl hb).2] using this
      · intro hb; simp [(hl hb).1]
      · exact MemoOK.set (h.memo.congr (by simp)) (fun hb => by simp [(hl hb).1])
    · next hc =>
      have hok : ok = true := by
        cases ok with
        | true => rfl
        | false => simp at hc
      subst hok
      have hnext : Stk E s0 (restore s2 s0.pt) := by
        stk_ext hs02 with (fun hp0 hp1 => ⟨restore_pt_reach _ _ hp1.1 hp0.1, by simpa using hp1.2⟩)
      exact leader_frame hrec r s0 k (depth + 1) _ s2.errs (restore s2 s0.pt)
        hnext (fun hb => by simp at hb) (fun hp0 => (hs02.ptinv hp0).1) (h.memo.congr (by simp))

theorem ruleLeader_frame (hrec : ∀ e s, FrameInv E s (rec e s)) (k : Nat) (r : Rule) (s : PState) :
    FrameInv E s (parseRuleLeader E rec k r s) := by
  intro hm
  unfold parseRuleLeader
  split
  · next res hres => exact Framed.hit hm hres
  · exact leader_frame hrec r s k 0 _ s.errs s (Stk.refl E s) (fun _ => ⟨rfl, rfl⟩) (fun hp => hp.1) hm

theorem ruleWrap_frame (hrec : ∀ e s, FrameInv E s (rec e s)) (k : Nat) (r : Rule) (s : PState) :
    FrameInv E s (parseRuleWrap E rec k r s) := by
  unfold parseRuleWrap
  repeat' split
  all_goals first
    | exact ruleLeader_frame hrec k r s
    | exact ruleMemo_frame hrec r s
    | exact rule_frame hrec r s

/-! ### terminals -/

theorem matchOne_frame (s0 s : PState) (want : String) (hs : Stk E s0 s) (hm : MemoOK s)
    (hg : ¬ (s.pt.rn = runeError ∧ s.pt.w = 0)) :
    Post E s0 (matchOne E s want) := by
  simp only [matchOne, Outcome.Sat]
  have hst : Stk E s0 (failAt (read E s) true s.pt.pos want) := by
    stk_ext hs with (fun _ hp1 => ⟨by simpa using hp1.read' hg, by simpa using hp1.2⟩)
  exact ⟨hst, nofun, nofun, hm.congr (by simp)⟩

theorem failTerm_frame (s0 s : PState) (pos : Pos) (want : String) (hs : Stk E s0 s)
    (hst : s.state = s0.state) (hoff : s.pt.pos.off = s0.pt.pos.off) (hm : MemoOK s) :
    Post E s0 (.done .nil false (failAt s false pos want)) := by
  simp only [Outcome.Sat]
  exact ⟨hs.trans (by stk_eq), fun _ => by simp [hst], fun _ => by simp [hoff], hm.congr (by simp)⟩

theorem charClass_frame (s0 s : PState) (c : ClassDesc) (hs : Stk E s0 s)
    (hst : s.state = s0.state) (hoff : s.pt.pos.off = s0.pt.pos.off) (hm : MemoOK s) :
    Post E s0 (parseCharClass E c s) := by
  unfold parseCharClass
  simp only []
  split
  · next hbl =>
    have hlt : s.pt.rn < 128 := by simp at hbl; exact hbl.2
    have hg : ¬ (s.pt.rn = runeError ∧ s.pt.w = 0) := by
      intro ⟨h1, _⟩; rw [h1] at hlt; simp [runeError] at hlt
    split
    · exact matchOne_frame s0 s _ hs hm hg
    · exact failTerm_frame s0 s _ _ hs hst hoff hm
  · split
    · exact failTerm_frame s0 s _ _ hs hst hoff hm
    · next heof =>
      have hg : ¬ (s.pt.rn = runeError ∧ s.pt.w = 0) := by simpa using heof
      split
      · exact matchOne_frame s0 s _ hs hm hg
      · exact failTerm_frame s0 s _ _ hs hst hoff hm

/-- after a code block: the frame is untouched except for the stores -/
theorem Stk.callBlock (blk : Nat) (s : PState) : Stk E s (callBlock E blk s).2 :=
  ⟨by simp, by simp, by simp, by simp, by simp, by simp,
   fun hu => by simp [RT.callBlock, hu], fun _ _ h => by simpa using h,
   fun _ => by simp [GInv, lastGlobal, RT.callBlock], fun h => h.congr (by simp) (by simp)⟩

/-! ### code blocks -/

theorem runCodeBlock_frame (s0 s : PState) (blk : Nat) (k : BlockResult → PState → Outcome)
    (hs : Stk E s0 s) (hm : MemoOK s)
    (hk : ∀ r s2, Stk E s0 s2 → MemoOK s2 → s2.pt = s.pt → Post E s0 (k r s2)) :
    Post E s0 (runCodeBlock E blk s k) := by
  unfold runCodeBlock
  simp only []
  have hcb := Stk.callBlock (E := E) blk s
  split
  · simp only [Outcome.Sat]
    exact (hs.trans hcb).toPanic
  · exact hk _ _ (hs.trans (hcb.trans (by stk_eq))) (hm.congr (by simp)) (by simp)

theorem pred_frame (s0 s : PState) (blk : Nat) (f : BlockResult → Bool) (hs : Stk E s0 s)
    (hst : s.state = s0.state) (hoff : s.pt.pos.off = s0.pt.pos.off) (hm : MemoOK s) :
    Post E s0 (runCodeBlock E blk s fun r s2 => .done .nil (f r) (RT.restoreState E s2 s.state)) := by
  apply runCodeBlock_frame s0 s blk _ hs hm
  intro r s2 hs2 hm2 hpt
  simp only [Outcome.Sat]
  refine ⟨hs2.trans (Stk.restoreState E s2 _), fun _ => ?_, fun _ => by simp [hpt, hoff], hm2.congr (by simp)⟩
  rw [hst]; exact restoreState_state hs2

theorem action_frame (hrec : ∀ e s, FrameInv E s (rec e s)) (s0 s : PState) (blk : Nat) (e1 : Expr)
    (hs : Stk E s0 s) (hst : s.state = s0.state) (hoff : s.pt.pos.off = s0.pt.pos.off)
    (hm : MemoOK s) : Post E s0 (parseAction E rec blk e1 s) := by
  unfold parseAction
  simp only []
  apply Outcome.sat_bind' (wrap_frame hrec e1 s hm) (fun s' h => hs.panic_trans h)
  intro v ok s1 h
  cases ok with
  | false =>
    simp only [Bool.false_eq_true, if_false, Outcome.Sat]
    exact ⟨hs.trans h.stk, fun _ => (h.failState rfl).trans hst, fun _ => (h.failOff rfl).trans hoff, h.memo⟩
  | true =>
    simp only [if_true]
    generalize hs2 : ({ s1 with curPos := s.pt.pos, curText := sliceFrom E s1 s.pt } : PState) = s2
    have h12 : Stk E s1 s2 := by subst hs2; exact ⟨Nat.le_refl _, rfl, rfl, rfl, rfl, rfl, fun _ => rfl, fun _ _ h => h, fun h => h, fun h => h⟩
    have hm2 : MemoOK s2 := h.memo.congr (by subst hs2; rfl)
    have hcb := Stk.callBlock (E := E) blk s2
    have h0 := hs.trans (h.stk.trans (h12.trans hcb))
    split
    · simp only [Outcome.Sat]; exact h0.toPanic
    · simp only [Outcome.Sat]
      exact ⟨h0.trans ((by stk_eq : Stk E _ (addErrAtOpt E _ _ _)).trans (Stk.restoreState E _ _)),
          nofun, nofun, hm2.congr (by simp)⟩

/-! ### one level of `parseExpr` -/

theorem body_frame (hrec : ∀ e s, FrameInv E s (rec e s)) (k : Nat) (e : Expr) (s0 s : PState)
    (hs : Stk E s0 s) (hst : s.state = s0.state) (hoff : s.pt.pos.off = s0.pt.pos.off)
    (hm : MemoOK s) : Post E s0 (parseExprBody E rec k e s) := by
  unfold parseExprBody
  cases e with
  | action id blk e1 => exact action_frame hrec s0 s blk e1 hs hst hoff hm
  | andCode id blk => exact pred_frame s0 s blk _ hs hst hoff hm
  | notCode id blk => exact pred_frame s0 s blk _ hs hst hoff hm
  | stateCode id blk =>
    simp only [parseStateCode]
    split
    · simp only [Outcome.Sat]; exact hs.toPanic
    · apply runCodeBlock_frame s0 s blk _ hs hm
      intro r s2 hs2 hm2 _
      simp only [Outcome.Sat]
      exact ⟨hs2, nofun, nofun, hm2⟩
  | and id e1 =>
    simp only [parseAnd]
    apply Outcome.sat_bind' (wrap_frame hrec e1 (pushV s) (hm.congr (by simp)))
      (fun s' h => hs.panic_trans (h.of_cnt_eq (by simp)))
    intro v ok s1 h
    have hpp := h.stk.pushpop
    simp only [Outcome.Sat]
    have hback : Stk E s0 (restore (RT.restoreState E (popV s1) s.state) s.pt) := by
      stk_ext (hs.trans (hpp.trans (Stk.restoreState E _ s.state))) with (fun hp0 hp1 =>
        ⟨restore_pt_reach _ _ hp1.1 (hs.ptinv hp0).1, by simpa using hp1.2⟩)
    refine ⟨hback, fun _ => ?_, fun _ => by simp [hoff], h.memo.congr (by simp)⟩
    rw [hst]; simpa using restoreState_state (hs.trans hpp)
  | not id e1 =>
    simp only [parseNot]
    have hm' : MemoOK ({ pushV s with maxFailInvert := !s.maxFailInvert } : PState) := hm.congr rfl
    apply Outcome.sat_bind' (wrap_frame hrec e1 _ hm')
      (fun s' h => hs.panic_trans (h.of_cnt_eq (by simp [pushV])))
    intro v ok s1 h
    have h1 := h.stk.cnt; have h2 := h.stk.vtail; have h3 := h.stk.vlen; have h4 := h.stk.rstack
    have h5 := h.stk.recov; have h6 := h.stk.invert; have h7 := h.stk.noState; have h8 := h.stk.bnd
    simp [pushV] at h1 h2 h3 h4 h5 h6 h7 h8
    have hpp : Stk E s (popV { s1 with maxFailInvert := !s1.maxFailInvert }) :=
      ⟨by simpa [popV] using h1, by simp [popV, h2], by simp [popV, h2], by simpa [popV] using h4,
       by simpa [popV] using h5, by simp [popV, h6], fun hu => by simpa [popV] using h7 hu,
       fun n hn hb => by simpa [popV] using h8 n hn hb,
       fun hg => (h.stk.ginv (hg.congr rfl rfl)).congr rfl rfl,
       fun hp => (h.stk.ptinv (hp.congr rfl rfl)).congr rfl rfl⟩
    simp only [Outcome.Sat]
    have hback : Stk E s0 (restore (RT.restoreState E (popV { s1 with maxFailInvert := !s1.maxFailInvert }) s.state) s.pt) := by
      stk_ext (hs.trans (hpp.trans (Stk.restoreState E _ s.state))) with (fun hp0 hp1 =>
        ⟨restore_pt_reach _ _ hp1.1 (hs.ptinv hp0).1, by simpa using hp1.2⟩)
    refine ⟨hback, fun _ => ?_, fun _ => by simp [hoff], h.memo.congr (by simp [popV])⟩
    rw [hst]; simpa using restoreState_state (hs.trans hpp)
  | any id =>
    simp only [parseAny]
    split
    · exact failTerm_frame s0 s _ _ hs hst hoff hm
    · next heof => exact matchOne_frame s0 s _ hs hm (by simpa using heof)
  | cls id c => exact charClass_frame s0 s c hs hst hoff hm
  | choice id line col alts => exact choice_frame hrec s0 line col alts 0 s hs hst hoff hm
  | labeled id label e1 =>
    simp only [parseLabeled]
    apply Outcome.sat_bind' (wrap_frame hrec e1 (pushV s) (hm.congr (by simp)))
      (fun s' h => hs.panic_trans (h.of_cnt_eq (by simp)))
    intro v ok s1 h
    have hpp := h.stk.pushpop
    have h1 := h.failState; have h2 := h.failOff
    simp at h1 h2
    simp only [Outcome.Sat]
    split
    · next hc =>
      have hok : ok = true := by simp at hc; exact hc.1
      subst hok
      refine ⟨hs.trans (hpp.trans ?_), nofun, nofun, h.memo.congr (by simp)⟩
      refine ⟨by simp, ?_, ?_, by simp, by simp, by simp, fun _ => by simp, fun _ _ h => by simpa using h,
        fun h => h.congr (by simp) (by simp), fun h => h.congr (by simp) (by simp)⟩
      · unfold setLabel; split <;> simp_all
      · unfold setLabel; split <;> simp_all
    · exact ⟨hs.trans hpp, fun hb => by simp [h1 hb, hst], fun hb => by simp [h2 hb, hoff],
        h.memo.congr (by simp)⟩
  | lit id val ic want =>
    simp only []
    have := lit_frame (E := E) s want ic val s (Stk.refl E s) rfl hm
    exact Outcome.sat_mono this
      (fun v ok s' h => ⟨hs.trans h.stk, fun hb => (h.failState hb).trans hst,
        fun hb => (h.failOff hb).trans hoff, h.memo⟩)
      (fun s' h => hs.panic_trans h)
  | oneOrMore id e1 => exact loop_frame hrec s0 e1 k s [] hs (fun _ => ⟨hst, hoff⟩) hm
  | zeroOrMore id e1 =>
    simp only [parseZeroOrMore]
    apply Outcome.sat_bind' (loop_frame hrec s0 e1 k s [] hs (fun _ => ⟨hst, hoff⟩) hm) (fun _ h => h)
    intro v ok s1 h
    split <;> simp only [Outcome.Sat] <;> exact ⟨h.stk, nofun, nofun, h.memo⟩
  | zeroOrOne id e1 =>
    simp only [parseZeroOrOne]
    apply Outcome.sat_bind' (wrap_frame hrec e1 (pushV s) (hm.congr (by simp)))
      (fun s' h => hs.panic_trans (h.of_cnt_eq (by simp)))
    intro v ok s1 h
    simp only [Outcome.Sat]
    exact ⟨hs.trans h.stk.pushpop, nofun, nofun, h.memo.congr (by simp)⟩
  | recovery id e1 r labels =>
    simp only [parseRecovery]
    apply Outcome.sat_bind' (wrap_frame hrec e1 (pushRecovery s labels r) (hm.congr (by simp)))
      (fun s' h => hs.panic_trans (h.of_cnt_eq (by simp)))
    intro v ok s1 h
    have h1 := h.stk.cnt; have h2 := h.stk.vtail; have h3 := h.stk.vlen; have h4 := h.stk.rstack
    have h5 := h.stk.recov; have h6 := h.stk.invert; have h7 := h.stk.noState
    have h8 := h.failState; have h9 := h.failOff; have h10 := h.stk.bnd
    simp at h1 h2 h3 h4 h6 h7 h8 h9 h10
    simp only [Outcome.Sat]
    refine ⟨hs.trans ⟨by simpa using h1, by simpa using h2, by simpa using h3, by simpa using h4,
        by simp [popRecovery, h5, pushRecovery], by simpa using h6, fun hu => by simpa using h7 hu,
        fun n hn hb => by simpa using h10 n hn hb,
        fun hg => (h.stk.ginv (hg.congr (by simp) (by simp))).congr (by simp) (by simp),
        fun hp => (h.stk.ptinv (hp.congr (by simp) (by simp))).congr (by simp) (by simp)⟩,
      fun hb => by simp [h8 hb, hst], fun hb => by simp [h9 hb, hoff], h.memo.congr (by simp)⟩
  | ruleRef id name =>
    simp only [parseRuleRef]
    split
    · simp only [Outcome.Sat]; exact hs.toPanic
    · split
      · simp only [Outcome.Sat]
        exact ⟨hs.trans (by stk_eq), fun _ => by simp [hst], fun _ => by simp [hoff], hm.congr (by simp)⟩
      · next r _ =>
        exact Outcome.sat_mono (ruleWrap_frame hrec k r s hm)
          (fun v ok s' h => ⟨hs.trans h.stk, fun hb => (h.failState hb).trans hst,
            fun hb => (h.failOff hb).trans hoff, h.memo⟩)
          (fun s' h => hs.panic_trans h)
  | seq id es =>
    simp only []
    have := seq_frame hrec s es s [] (Stk.refl E s) hm
    exact Outcome.sat_mono this
      (fun v ok s' h => ⟨hs.trans h.stk, fun hb => (h.failState hb).trans hst,
        fun hb => (h.failOff hb).trans hoff, h.memo⟩)
      (fun s' h => hs.panic_trans h)
  | throw id label => exact throw_frame hrec s0 label _ s hs hst hoff hm

theorem step_frame (hrec : ∀ e s, FrameInv E s (rec e s)) (k : Nat) (e : Expr) (s0 : PState) :
    FrameInv E s0 (parseExprStep E rec k e s0) := by
  intro hm0
  unfold parseExprStep
  split
  · simp only [Outcome.Sat]
    exact ⟨by simp [bump], fun n _ hb => by simpa [bump] using hb⟩
  · next hob =>
    refine body_frame hrec k e s0 (bump s0) ⟨by simp [bump], rfl, rfl, rfl, rfl, rfl, fun _ => rfl, ?_, fun h => h, fun h => h⟩
      rfl rfl (hm0.congr rfl)
    intro n hn _
    simp [overBudget, hn] at hob
    exact hob

end

/-- **Frame theorem**: for every fuel, expression and state. -/
theorem parseExpr_frame (E : Env) : ∀ (f : Nat) (e : Expr) (s : PState), FrameInv E s (parseExpr E f e s)
  | 0, _, _ => fun _ => trivial
  | f + 1, e, s => step_frame (parseExpr_frame E f) f e s

end RT
end PV
