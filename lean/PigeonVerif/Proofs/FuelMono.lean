/-
  The runtime model is monotone in its fuel, in EVERY configuration (memoization, left recursion,
  budget, all template switches): once `parseExpr` returns something other than "out of fuel",
  more fuel returns the same outcome. The fuel is therefore only a device for structural
  recursion: the outcome of a parse is unique (`Parses.unique`).
-/
import PigeonVerif.Model.Runtime

namespace PV
namespace RT

abbrev Rec := Expr → PState → Outcome

def Ext (rec rec' : Rec) : Prop := ∀ e s, rec e s ≠ .oof → rec' e s = rec e s

theorem Ext.refl (rec : Rec) : Ext rec rec := fun _ _ _ => rfl

theorem bind_ext {o o' : Outcome} {f f' : Val → Bool → PState → Outcome}
    (ho : o ≠ .oof → o' = o) (hf : ∀ v ok s, f v ok s ≠ .oof → f' v ok s = f v ok s)
    (hne : o.bind f ≠ .oof) : o'.bind f' = o.bind f := by
  cases o with
  | oof => exact absurd rfl hne
  | panic p s => rw [ho (by simp)]; rfl
  | done v ok s => rw [ho (by simp)]; exact hf v ok s hne

section
variable {E : Env} {rec rec' : Rec}

theorem wrap_ext (h : Ext rec rec') (e : Expr) (s : PState) (hne : parseExprWrap E rec e s ≠ .oof) :
    parseExprWrap E rec' e s = parseExprWrap E rec e s := by
  unfold parseExprWrap at hne ⊢
  split
  · rename_i ho; simp only [ho, if_true] at hne; exact h e s hne
  · rename_i ho
    simp only [ho, if_false, Bool.false_eq_true] at hne
    split
    · rename_i hm
      simp only [hm, if_true] at hne
      split
      · rfl
      · rename_i hg
        simp only [hg] at hne
        exact bind_ext (h e s) (fun _ _ _ _ => rfl) hne
    · rename_i hm
      simp only [hm, if_false, Bool.false_eq_true] at hne
      exact h e s hne

theorem seq_ext (h : Ext rec rec') (pt : Savepoint) (st : Store) :
    ∀ (es : List Expr) (s : PState) (acc : List Val), parseSeq E rec pt st es s acc ≠ .oof →
      parseSeq E rec' pt st es s acc = parseSeq E rec pt st es s acc
  | [], _, _, _ => by simp [parseSeq]
  | e :: es, s, acc, hne => by
    unfold parseSeq at hne ⊢
    refine bind_ext (wrap_ext h e s) (fun v ok s1 hne1 => ?_) hne
    cases ok with
    | true => simp only [if_true] at hne1 ⊢; exact seq_ext h pt st es s1 _ hne1
    | false => rfl

theorem choice_ext (h : Ext rec rec') (line col : Nat) :
    ∀ (alts : List Expr) (i : Nat) (s : PState), parseChoice E rec line col alts i s ≠ .oof →
      parseChoice E rec' line col alts i s = parseChoice E rec line col alts i s
  | [], _, _, _ => by simp [parseChoice]
  | a :: alts, i, s, hne => by
    unfold parseChoice at hne ⊢
    refine bind_ext (wrap_ext h a _) (fun v ok s1 hne1 => ?_) hne
    cases ok with
    | true => rfl
    | false =>
      simp only [Bool.false_eq_true, if_false] at hne1 ⊢
      exact choice_ext h line col alts _ _ hne1

theorem loop_ext (h : Ext rec rec') (e : Expr) :
    ∀ (k k' : Nat) (s : PState) (acc : List Val), k ≤ k' → parseLoop E rec e k s acc ≠ .oof →
      parseLoop E rec' e k' s acc = parseLoop E rec e k s acc
  | 0, _, _, _, _, hne => by simp [parseLoop] at hne
  | k + 1, 0, _, _, hk, _ => by omega
  | k + 1, k' + 1, s, acc, hk, hne => by
    unfold parseLoop at hne ⊢
    refine bind_ext (wrap_ext h e _) (fun v ok s1 hne1 => ?_) hne
    cases ok with
    | true => simp only [if_true] at hne1 ⊢; exact loop_ext h e k k' _ _ (by omega) hne1
    | false => rfl

theorem throw_ext (h : Ext rec rec') (label : String) :
    ∀ (frames : List (List (String × Expr))) (s : PState), parseThrow E rec label frames s ≠ .oof →
      parseThrow E rec' label frames s = parseThrow E rec label frames s
  | [], _, _ => by simp [parseThrow]
  | fr :: frs, s, hne => by
    unfold parseThrow at hne ⊢
    cases hl : lookup label fr with
    | none => simp only [hl] at hne ⊢; exact throw_ext h label frs s hne
    | some r =>
      simp only [hl] at hne ⊢
      refine bind_ext (wrap_ext h r s) (fun v ok s1 hne1 => ?_) hne
      cases ok with
      | true => rfl
      | false => simp only [Bool.false_eq_true, if_false] at hne1 ⊢; exact throw_ext h label frs s1 hne1

theorem rule_ext (h : Ext rec rec') (r : Rule) (s : PState) (hne : parseRule E rec r s ≠ .oof) :
    parseRule E rec' r s = parseRule E rec r s := by
  unfold parseRule at hne ⊢
  exact bind_ext (wrap_ext h _ _) (fun _ _ _ _ => rfl) hne

theorem ruleMemoize_ext (h : Ext rec rec') (r : Rule) (s : PState) (hne : parseRuleMemoize E rec r s ≠ .oof) :
    parseRuleMemoize E rec' r s = parseRuleMemoize E rec r s := by
  unfold parseRuleMemoize at hne ⊢
  split
  · rfl
  · rename_i hg
    simp only [hg] at hne
    exact bind_ext (rule_ext h r s) (fun _ _ _ _ => rfl) hne

theorem leaderLoop_ext (h : Ext rec rec') (r : Rule) (startMark : Savepoint) :
    ∀ (k k' depth : Nat) (last : MemoVal) (lastErrs : List String) (s : PState), k ≤ k' →
      leaderLoop E rec r startMark k depth last lastErrs s ≠ .oof →
      leaderLoop E rec' r startMark k' depth last lastErrs s = leaderLoop E rec r startMark k depth last lastErrs s
  | 0, _, _, _, _, _, _, hne => by simp [leaderLoop] at hne
  | k + 1, 0, _, _, _, _, hk, _ => by omega
  | k + 1, k' + 1, depth, last, lastErrs, s, hk, hne => by
    unfold leaderLoop at hne ⊢
    simp only [] at hne ⊢
    refine bind_ext (rule_ext h r _) (fun v ok s2 hne1 => ?_) hne
    split
    · rfl
    · rename_i hc
      simp only [hc, if_false, Bool.false_eq_true] at hne1
      exact leaderLoop_ext h r startMark k k' _ _ _ _ (by omega) hne1

theorem ruleLeader_ext (h : Ext rec rec') (k k' : Nat) (hk : k ≤ k') (r : Rule) (s : PState)
    (hne : parseRuleLeader E rec k r s ≠ .oof) : parseRuleLeader E rec' k' r s = parseRuleLeader E rec k r s := by
  unfold parseRuleLeader at hne ⊢
  split
  · rfl
  · rename_i hg
    simp only [hg] at hne
    exact leaderLoop_ext h r _ k k' 0 _ _ s hk hne

theorem ruleWrap_ext (h : Ext rec rec') (k k' : Nat) (hk : k ≤ k') (r : Rule) (s : PState)
    (hne : parseRuleWrap E rec k r s ≠ .oof) : parseRuleWrap E rec' k' r s = parseRuleWrap E rec k r s := by
  unfold parseRuleWrap at hne ⊢
  cases h1 : E.flags.leftRec <;> cases h2 : E.flags.optimize <;> cases h3 : E.opts.memoize <;>
    cases h4 : r.leftRecursive <;> cases h5 : r.leader <;>
    simp only [h1, h2, h3, h4, h5, Bool.and_true, Bool.and_false, Bool.true_and, Bool.false_and, Bool.or_true, Bool.or_false,
      Bool.true_or, Bool.false_or, Bool.not_true, Bool.not_false, if_true, if_false, Bool.false_eq_true] at hne ⊢ <;>
    first
      | exact ruleLeader_ext h k k' hk r s hne
      | exact ruleMemoize_ext h r s hne
      | exact rule_ext h r s hne

theorem body_ext (h : Ext rec rec') (k k' : Nat) (hk : k ≤ k') (e : Expr) (s : PState)
    (hne : parseExprBody E rec k e s ≠ .oof) : parseExprBody E rec' k' e s = parseExprBody E rec k e s := by
  cases e with
  | andCode id blk => rfl
  | notCode id blk => rfl
  | stateCode id blk => rfl
  | any id => rfl
  | cls id c => rfl
  | lit id val ic want => rfl
  | action id blk e1 =>
    simp only [parseExprBody, parseAction] at hne ⊢
    exact bind_ext (wrap_ext h e1 s) (fun _ _ _ _ => rfl) hne
  | and id e1 =>
    simp only [parseExprBody, parseAnd] at hne ⊢
    exact bind_ext (wrap_ext h e1 _) (fun _ _ _ _ => rfl) hne
  | not id e1 =>
    simp only [parseExprBody, parseNot] at hne ⊢
    exact bind_ext (wrap_ext h e1 _) (fun _ _ _ _ => rfl) hne
  | labeled id l e1 =>
    simp only [parseExprBody, parseLabeled] at hne ⊢
    exact bind_ext (wrap_ext h e1 _) (fun _ _ _ _ => rfl) hne
  | zeroOrOne id e1 =>
    simp only [parseExprBody, parseZeroOrOne] at hne ⊢
    exact bind_ext (wrap_ext h e1 _) (fun _ _ _ _ => rfl) hne
  | recovery id e1 r labels =>
    simp only [parseExprBody, parseRecovery] at hne ⊢
    exact bind_ext (wrap_ext h e1 _) (fun _ _ _ _ => rfl) hne
  | choice id line col alts => simp only [parseExprBody] at hne ⊢; exact choice_ext h line col alts 0 s hne
  | seq id es => simp only [parseExprBody] at hne ⊢; exact seq_ext h _ _ es s [] hne
  | throw id label => simp only [parseExprBody] at hne ⊢; exact throw_ext h label _ s hne
  | oneOrMore id e1 => simp only [parseExprBody] at hne ⊢; exact loop_ext h e1 k k' s [] hk hne
  | zeroOrMore id e1 =>
    simp only [parseExprBody, parseZeroOrMore] at hne ⊢
    exact bind_ext (loop_ext h e1 k k' s [] hk) (fun _ _ _ _ => rfl) hne
  | ruleRef id name =>
    simp only [parseExprBody, parseRuleRef] at hne ⊢
    split
    · rfl
    · rename_i hn
      simp only [hn, if_false] at hne
      split
      · rfl
      · rename_i r hf
        simp only [hf] at hne
        exact ruleWrap_ext h k k' hk r s hne

theorem step_ext (h : Ext rec rec') (k k' : Nat) (hk : k ≤ k') (e : Expr) (s : PState)
    (hne : parseExprStep E rec k e s ≠ .oof) : parseExprStep E rec' k' e s = parseExprStep E rec k e s := by
  unfold parseExprStep at hne ⊢
  split
  · rfl
  · rename_i hb
    simp only [hb, if_false, Bool.false_eq_true] at hne
    exact body_ext h k k' hk e _ hne

end

/-- **Fuel monotonicity of the runtime**, every configuration. -/
theorem parseExpr_succ_ext (E : Env) : ∀ f, Ext (parseExpr E f) (parseExpr E (f + 1))
  | 0 => fun _ _ h => absurd rfl h
  | f + 1 => fun e s hne => step_ext (parseExpr_succ_ext E f) f (f + 1) (Nat.le_succ f) e s hne

theorem parseExpr_mono (E : Env) {f f' : Nat} (hf : f ≤ f') : Ext (parseExpr E f) (parseExpr E f') := by
  induction hf with
  | refl => exact Ext.refl _
  | step _ ih =>
    intro e s hne
    rw [parseExpr_succ_ext E _ e s (by rw [ih e s hne]; exact hne), ih e s hne]

/-- "expression `e` in state `s` has outcome `o`" -/
def Parses (E : Env) (e : Expr) (s : PState) (o : Outcome) : Prop := o ≠ .oof ∧ ∃ f, parseExpr E f e s = o

theorem Parses.unique {E : Env} {e : Expr} {s : PState} {o1 o2 : Outcome}
    (h1 : Parses E e s o1) (h2 : Parses E e s o2) : o1 = o2 := by
  obtain ⟨n1, f1, e1⟩ := h1
  obtain ⟨n2, f2, e2⟩ := h2
  rcases Nat.le_total f1 f2 with hle | hle
  · have := parseExpr_mono E hle e s (by rw [e1]; exact n1)
    rw [e1, e2] at this; exact this.symm
  · have := parseExpr_mono E hle e s (by rw [e2]; exact n2)
    rw [e1, e2] at this; exact this

/-- the whole parse: more fuel, same final result -/
theorem parse_mono (E : Env) {f f' : Nat} (hf : f ≤ f') (hne : parse E f ≠ .oof) : parse E f' = parse E f := by
  unfold parse at hne ⊢
  simp only [] at hne ⊢
  split
  · rfl
  · split
    · rfl
    · rename_i first _ _ r hfind
      have key : parseRuleWrap E (parseExpr E f) f r (startState E) ≠ .oof := by
        intro ho
        simp only [hfind, ho, finish] at hne
        simp_all
      rw [ruleWrap_ext (parseExpr_mono E hf) f f' hf r _ key]

end RT
end PV
