/-
  Support for `PigeonVerif/Generated/Grammars.lean` — the module that the check REGENERATES on every run from the
  grammars of the repository (the translator half of the tie, DESIGN.md §0.8):

    grammar/*.peg, examples/**.peg, test/**.peg  --(the working tree's pigeon, with the Makefile's flags)-->  parser.go
      --(pvlower -readback: the `var g = &grammar{…}` literal, node by node)-->  case line
      --(pvdriver --emit-lean)-->  `def gN_rules : List Rule := […]` + a witness found by an untrusted search

  The obligations `checkRulesWF gN_rules gN_nl gN_rk = true` are closed by `decide`, i.e. evaluated by the kernel, and the
  lemmas below turn them into termination theorems for EVERY environment that has these rules: every input, every code
  environment, every entry point, every option except Memoize / MaxExpressions.
-/
import PigeonVerif.Properties.C04
import PigeonVerif.Properties.C07
import PigeonVerif.Properties.C08

namespace PV
namespace RT

/-- `checkWFG` as a function of the rule list alone -/
def checkRulesWF (rules : List Rule) (nl : List String) (rk : List (String × Nat)) : Bool :=
  rules.all (fun r =>
    !r.leftRecursive && !r.leader &&
    (!r.expr.nul (rnOf nl) || rnOf nl r.name) &&
    r.expr.wfs (rnOf nl) &&
    (r.expr.first (rnOf nl)).all (fun m => decide (rankOf rk m < rankOf rk r.name)))

theorem checkWFG_of_rules {E : Env} {rules : List Rule} {nl : List String} {rk : List (String × Nat)}
    (hr : E.rules = rules) (hm : E.opts.memoize = false) (hb : E.opts.maxExpr = none)
    (h : checkRulesWF rules nl rk = true) : checkWFG E nl rk = true := by
  subst hr
  unfold checkWFG
  unfold checkRulesWF at h
  simp only [hm, hb, Bool.not_false, Option.isNone_none, Bool.true_and]
  exact h

/-- **Regenerated grammars terminate (no left recursion).** -/
theorem rules_wf_terminate {rules : List Rule} {nl : List String} {rk : List (String × Nat)}
    (h : checkRulesWF rules nl rk = true) (E : Env) (hr : E.rules = rules) (hm : E.opts.memoize = false)
    (hb : E.opts.maxExpr = none) : ∃ f, parse E f ≠ .oof :=
  C07_checked_grammars_terminate E nl rk (checkWFG_of_rules hr hm hb h)

/-- `ldName` as a function of the rule list -/
def ldNameR (rules : List Rule) (m : String) : Bool :=
  match rules.reverse.find? (fun r => r.name = m) with
  | some rm => isLd rm
  | none => true

/-- `checkLRWF` as a function of the rule list alone -/
def checkRulesLRWF (rules : List Rule) (nl : List String) (rk : List (String × Nat)) : Bool :=
  rules.all (fun r =>
    (!r.expr.nul (rnOf nl) || rnOf nl r.name) &&
    r.expr.wfs (rnOf nl) &&
    (r.expr.first (rnOf nl)).all (fun m => ldNameR rules m || decide (rankOf rk m < rankOf rk r.name)))

theorem checkLRWF_of_rules {E : Env} {rules : List Rule} {nl : List String} {rk : List (String × Nat)}
    (hr : E.rules = rules) (hl : E.flags.leftRec = true) (hm : E.opts.memoize = false) (hb : E.opts.maxExpr = none)
    (h : checkRulesLRWF rules nl rk = true) : checkLRWF E nl rk = true := by
  subst hr
  unfold checkLRWF
  unfold checkRulesLRWF at h
  simp only [hl, hm, hb, Bool.not_false, Option.isNone_none, Bool.true_and]
  exact h

/-- **Regenerated left-recursive grammars terminate** (parsers generated with `-support-left-recursion`). -/
theorem rules_lrwf_terminate {rules : List Rule} {nl : List String} {rk : List (String × Nat)}
    (h : checkRulesLRWF rules nl rk = true) (E : Env) (hr : E.rules = rules) (hl : E.flags.leftRec = true)
    (hm : E.opts.memoize = false) (hb : E.opts.maxExpr = none) : ∃ f, parse E f ≠ .oof :=
  C08_checked_grammars_terminate E nl rk (checkLRWF_of_rules hr hl hm hb h)

end RT
end PV
