/-
  The memo-hit counter: it never decreases, and under a budget `n` it never exceeds `n` on a normal
  return (a hit that would exceed the budget panics instead). Together with the expression counter
  this is the measure of the termination proof with memoization (Proofs/TermMemo.lean).
-/
import PigeonVerif.Proofs.Frame

namespace PV
namespace RT

set_option autoImplicit true

frame_lemmas (pushV s) unfolding pushV : memoHits end
frame_lemmas (popV s) unfolding popV : memoHits end
frame_lemmas (pushRecovery s l r) unfolding pushRecovery : memoHits end
frame_lemmas (popRecovery s) unfolding popRecovery : memoHits end
frame_lemmas (setLabel s l v) unfolding setLabel : memoHits end
frame_lemmas (addErrAt E s m p) unfolding addErrAt : memoHits end
frame_lemmas (addErr E s m) unfolding addErr addErrAt : memoHits end
frame_lemmas (addErrAtOpt E s o p) unfolding addErrAtOpt addErrAt : memoHits end
frame_lemmas (addErrOpt E s o) unfolding addErrOpt addErrAtOpt addErrAt : memoHits end
frame_lemmas (failAt s b p w) unfolding failAt failAtCore : memoHits end
frame_lemmas (restore s p) unfolding restore : memoHits end
frame_lemmas (restoreState E s st) unfolding restoreState : memoHits end
frame_lemmas (setMemoized s p k t) unfolding setMemoized : memoHits end
frame_lemmas (incChoiceAlt s l c a) unfolding incChoiceAlt : memoHits end
frame_lemmas (read E s) unfolding read addErr addErrAt : memoHits end
frame_lemmas (callBlock E b s).2 unfolding callBlock : memoHits end

set_option autoImplicit false

@[simp] theorem bump_memoHits (s : PState) : (bump s).memoHits = s.memoHits := rfl
@[simp] theorem hit_memoHits (s : PState) : (hit s).memoHits = s.memoHits + 1 := rfl

/-- the hit counter grew, and stayed within the bound if it was within it -/
def HitsLe (n : Nat) (s s' : PState) : Prop := s.memoHits ≤ s'.memoHits ∧ (s.memoHits ≤ n → s'.memoHits ≤ n)

theorem HitsLe.refl (n : Nat) (s : PState) : HitsLe n s s := ⟨Nat.le_refl _, id⟩
theorem HitsLe.trans {n : Nat} {a b c : PState} (h1 : HitsLe n a b) (h2 : HitsLe n b c) : HitsLe n a c :=
  ⟨Nat.le_trans h1.1 h2.1, fun h => h2.2 (h1.2 h)⟩
theorem HitsLe.of_eq {n : Nat} {a b : PState} (h : b.memoHits = a.memoHits) : HitsLe n a b :=
  ⟨by omega, fun h' => by omega⟩
theorem HitsLe.congr {n : Nat} {a b c : PState} (h : HitsLe n a b) (hc : c.memoHits = b.memoHits) : HitsLe n a c :=
  h.trans (HitsLe.of_eq hc)
theorem HitsLe.congr_left {n : Nat} {a a' b : PState} (h : HitsLe n a b) (hc : a'.memoHits = a.memoHits) : HitsLe n a' b :=
  (HitsLe.of_eq hc.symm).trans h

def _root_.PV.Outcome.HitsOK (n : Nat) (s : PState) : Outcome → Prop
  | .done _ _ s' => HitsLe n s s'
  | _ => True

theorem HitsOK.bind {n : Nat} {s : PState} {o : Outcome} {f : Val → Bool → PState → Outcome}
    (ho : o.HitsOK n s) (hf : ∀ v ok s1, HitsLe n s s1 → (f v ok s1).HitsOK n s) : (o.bind f).HitsOK n s := by
  cases o with
  | oof => trivial
  | panic p s1 => trivial
  | done v ok s1 => exact hf v ok s1 ho

theorem HitsOK.trans {n : Nat} {s s1 : PState} {o : Outcome} (h : HitsLe n s s1) (ho : o.HitsOK n s1) : o.HitsOK n s := by
  cases o with
  | oof => trivial
  | panic p s2 => trivial
  | done v ok s2 => exact h.trans ho

theorem HitsOK.of_eq {n : Nat} {s s0 : PState} {o : Outcome} (h : s0.memoHits = s.memoHits) (ho : o.HitsOK n s0) : o.HitsOK n s :=
  HitsOK.trans (HitsLe.of_eq h) ho

section
variable {E : Env} {rec : Expr → PState → Outcome} {n : Nat}
variable (hn : E.opts.maxExpr = some n) (hrec : ∀ e s, (rec e s).HitsOK n s)
include hn hrec

theorem wrap_hits (e : Expr) (s : PState) : (parseExprWrap E rec e s).HitsOK n s := by
  unfold parseExprWrap
  split
  · exact hrec e s
  · split
    · split
      · simp only []
        split
        · trivial
        · rename_i hob
          simp only [Outcome.HitsOK]
          refine ⟨by simp, fun _ => ?_⟩
          have hob' : ¬ ((hit s).exprCnt + (hit s).memoHits > n) := by
            simpa [hitsOverBudget, hn] using hob
          simp at hob' ⊢
          omega
      · exact HitsOK.bind (hrec e s) (fun v ok s1 h => h.congr (by simp))
    · exact hrec e s

theorem seq_hits (pt : Savepoint) (st : Store) : ∀ (es : List Expr) (s : PState) (acc : List Val),
    (parseSeq E rec pt st es s acc).HitsOK n s
  | [], s, _ => by simp [parseSeq, Outcome.HitsOK, HitsLe.refl]
  | e :: es, s, acc => by
    unfold parseSeq
    refine HitsOK.bind (wrap_hits hn hrec e s) (fun v ok s1 h => ?_)
    cases ok with
    | true => simp only [if_true]; exact HitsOK.trans h (seq_hits pt st es s1 _)
    | false => exact h.congr (by simp)

theorem choice_hits (line col : Nat) : ∀ (alts : List Expr) (i : Nat) (s : PState),
    (parseChoice E rec line col alts i s).HitsOK n s
  | [], _, s => by simp [parseChoice, Outcome.HitsOK]; exact HitsLe.of_eq (by simp)
  | a :: alts, i, s => by
    unfold parseChoice
    simp only []
    refine HitsOK.bind (HitsOK.of_eq (by simp) (wrap_hits hn hrec a (pushV s))) (fun v ok s1 h => ?_)
    cases ok with
    | true => exact h.congr (by simp)
    | false =>
      simp only [Bool.false_eq_true, if_false]
      exact HitsOK.trans (h.congr (by simp)) (choice_hits line col alts _ _)

theorem loop_hits (e : Expr) : ∀ (k : Nat) (s : PState) (acc : List Val), (parseLoop E rec e k s acc).HitsOK n s
  | 0, _, _ => by simp [parseLoop, Outcome.HitsOK]
  | k + 1, s, acc => by
    unfold parseLoop
    simp only []
    refine HitsOK.bind (HitsOK.of_eq (by simp) (wrap_hits hn hrec e (pushV s))) (fun v ok s1 h => ?_)
    cases ok with
    | true => simp only [if_true]; exact HitsOK.trans (h.congr (by simp)) (loop_hits e k _ _)
    | false =>
      simp only [Bool.false_eq_true, if_false]
      split <;> exact h.congr (by simp)

theorem throw_hits (label : String) : ∀ (frames : List (List (String × Expr))) (s : PState),
    (parseThrow E rec label frames s).HitsOK n s
  | [], s => by simp [parseThrow, Outcome.HitsOK, HitsLe.refl]
  | fr :: frs, s => by
    unfold parseThrow
    split
    · refine HitsOK.bind (wrap_hits hn hrec _ s) (fun v ok s1 h => ?_)
      cases ok with
      | true => exact h
      | false => simp only [Bool.false_eq_true, if_false]; exact HitsOK.trans h (throw_hits label frs s1)
    · exact throw_hits label frs s

omit hn hrec in
theorem lit_hits (start : Savepoint) (want : String) (ic : Bool) : ∀ (rs : List Rune) (s : PState),
    (parseLit E start want ic rs s).HitsOK n s
  | [], s => by simp [parseLit, Outcome.HitsOK]; exact HitsLe.of_eq (by simp)
  | r :: rs, s => by
    unfold parseLit
    split
    · exact HitsLe.of_eq (by simp)
    · exact HitsOK.of_eq (by simp) (lit_hits start want ic rs (read E s))

theorem rule_hits (r : Rule) (s : PState) : (parseRule E rec r s).HitsOK n s := by
  unfold parseRule
  simp only []
  refine HitsOK.bind (HitsOK.of_eq (by simp [pushV]) (wrap_hits hn hrec r.expr _)) (fun v ok s1 h => ?_)
  exact h.congr (by simp [popV])

theorem ruleMemoize_hits (r : Rule) (s : PState) : (parseRuleMemoize E rec r s).HitsOK n s := by
  unfold parseRuleMemoize
  split
  · exact HitsLe.of_eq (by simp)
  · exact HitsOK.bind (rule_hits hn hrec r s) (fun v ok s1 h => h.congr (by simp))

theorem leaderLoop_hits (r : Rule) (startMark : Savepoint) :
    ∀ (k depth : Nat) (last : MemoVal) (lastErrs : List String) (s : PState),
      (leaderLoop E rec r startMark k depth last lastErrs s).HitsOK n s
  | 0, _, _, _, _ => by simp [leaderLoop, Outcome.HitsOK]
  | k + 1, depth, last, lastErrs, s => by
    unfold leaderLoop
    simp only []
    refine HitsOK.bind (HitsOK.of_eq (by simp) (rule_hits hn hrec r _)) (fun v ok s2 h => ?_)
    split
    · exact h.congr (by simp)
    · exact HitsOK.trans (h.congr (by simp)) (leaderLoop_hits r startMark k _ _ _ _)

theorem ruleWrap_hits (k : Nat) (r : Rule) (s : PState) : (parseRuleWrap E rec k r s).HitsOK n s := by
  have hl : (parseRuleLeader E rec k r s).HitsOK n s := by
    unfold parseRuleLeader
    split
    · exact HitsLe.of_eq (by simp)
    · exact leaderLoop_hits hn hrec r _ k 0 _ _ s
  unfold parseRuleWrap
  repeat' split
  all_goals first
    | exact hl
    | exact ruleMemoize_hits hn hrec r s
    | exact rule_hits hn hrec r s

omit hn hrec in
theorem runCodeBlock_hits (blk : Nat) (s : PState) (k : BlockResult → PState → Outcome)
    (hk : ∀ r s2, s2.memoHits = s.memoHits → (k r s2).HitsOK n s) : (runCodeBlock E blk s k).HitsOK n s := by
  unfold runCodeBlock
  simp only []
  split
  · trivial
  · exact hk _ _ (by simp)

theorem body_hits (k : Nat) (e : Expr) (s : PState) : (parseExprBody E rec k e s).HitsOK n s := by
  have hw := wrap_hits hn hrec
  cases e with
  | action id blk e1 =>
    simp only [parseExprBody, parseAction]
    refine HitsOK.bind (hw e1 s) (fun v ok s1 h => ?_)
    cases ok with
    | true =>
      simp only [if_true]
      split
      · trivial
      · exact h.congr (by simp)
    | false => exact h
  | andCode id blk =>
    simp only [parseExprBody, parseAndCode]
    exact runCodeBlock_hits blk s _ (fun r s2 h => HitsLe.of_eq (by simp [h]))
  | notCode id blk =>
    simp only [parseExprBody, parseNotCode]
    exact runCodeBlock_hits blk s _ (fun r s2 h => HitsLe.of_eq (by simp [h]))
  | stateCode id blk =>
    simp only [parseExprBody, parseStateCode]
    split
    · trivial
    · exact runCodeBlock_hits blk s _ (fun r s2 h => HitsLe.of_eq h)
  | and id e1 =>
    simp only [parseExprBody, parseAnd]
    exact HitsOK.bind (HitsOK.of_eq (by simp) (hw e1 (pushV s))) (fun v ok s1 h => h.congr (by simp))
  | not id e1 =>
    simp only [parseExprBody, parseNot]
    refine HitsOK.bind (HitsOK.of_eq (s0 := { pushV s with maxFailInvert := !s.maxFailInvert }) rfl (hw e1 _))
      (fun v ok s1 h => h.congr (by simp [popV]))
  | any id =>
    simp only [parseExprBody, parseAny, matchOne]
    split <;> exact HitsLe.of_eq (by simp)
  | cls id c =>
    simp only [parseExprBody, parseCharClass, matchOne]
    repeat' split
    all_goals exact HitsLe.of_eq (by simp)
  | choice id line col alts => exact choice_hits hn hrec line col alts 0 s
  | labeled id l e1 =>
    simp only [parseExprBody, parseLabeled]
    refine HitsOK.bind (HitsOK.of_eq (by simp) (hw e1 (pushV s))) (fun v ok s1 h => ?_)
    simp only [Outcome.HitsOK]
    split <;> exact h.congr (by simp)
  | lit id val ic want => exact lit_hits _ _ _ _ _
  | oneOrMore id e1 => exact loop_hits hn hrec e1 k s []
  | zeroOrMore id e1 =>
    simp only [parseExprBody, parseZeroOrMore]
    refine HitsOK.bind (loop_hits hn hrec e1 k s []) (fun v ok s1 h => ?_)
    split <;> exact h
  | zeroOrOne id e1 =>
    simp only [parseExprBody, parseZeroOrOne]
    exact HitsOK.bind (HitsOK.of_eq (by simp) (hw e1 (pushV s))) (fun v ok s1 h => h.congr (by simp))
  | recovery id e1 r labels =>
    simp only [parseExprBody, parseRecovery]
    exact HitsOK.bind (HitsOK.of_eq (by simp) (hw e1 (pushRecovery s labels r))) (fun v ok s1 h => h.congr (by simp))
  | ruleRef id name =>
    simp only [parseExprBody, parseRuleRef]
    split
    · trivial
    · split
      · exact HitsLe.of_eq (by simp)
      · exact ruleWrap_hits hn hrec k _ s
  | seq id es => exact seq_hits hn hrec _ _ es s []
  | throw id label => exact throw_hits hn hrec label _ s

end

theorem parseExpr_hits (E : Env) (n : Nat) (hn : E.opts.maxExpr = some n) :
    ∀ (f : Nat) (e : Expr) (s : PState), (parseExpr E f e s).HitsOK n s
  | 0, _, _ => trivial
  | f + 1, e, s => by
    show (parseExprStep E (parseExpr E f) f e s).HitsOK n s
    unfold parseExprStep
    split
    · trivial
    · exact HitsOK.of_eq (s0 := bump s) rfl (body_hits hn (parseExpr_hits E n hn f) f e (bump s))

end RT
end PV
